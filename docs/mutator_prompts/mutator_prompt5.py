import sys, io, contextlib
pid = sys.argv[1]
base = open('/verif/docs/mutator_prompts/mutator_prompt.py').read()
buf = io.StringIO()
sys.argv = ['x', pid]
with contextlib.redirect_stdout(buf):
    exec(compile(base, 'p', 'exec'), {'__name__': '__main__'})
txt = buf.getvalue()
txt = txt.replace("Prefer changes in different functions / different clauses of the property for the two patches.",
 "The two patches must be what a WELL-INTENTIONED contributor would submit, of two DIFFERENT kinds: (1) a PERFORMANCE / MEMORY "
 "optimisation - vectorising or batching a loop, replacing an einsum / matmul / solve by a cheaper formulation, working in place or "
 "reusing a buffer, caching or skipping a recomputation, an early exit or a convergence shortcut, computing only a triangle / a "
 "subset / a thinned sample and filling in the rest, lower precision for an intermediate - that is correct for the common call but "
 "wrong for some inputs INSIDE the property's stated domain; (2) a ROBUSTNESS / COMPATIBILITY 'improvement' - input validation or "
 "coercion (np.asarray with a dtype, squeeze / atleast_nd, copy=False), an added eps / clip / nan_to_num / floor 'for stability', "
 "special handling of an edge case by an early return, a NumPy-2 / deprecation modernisation, a changed exception policy - that "
 "quietly changes the result or the accepted inputs in a corner the property covers. Each must read like a sensible pull request "
 "with a plausible one-line justification (put it in meta.json as 'justification'). Choose different functions / clauses of the "
 "property for the two.")
txt = txt.replace('/tmp/mut_%s' % pid, '/tmp/mut5_%s' % pid).replace('/tmp/mut_*', '/tmp/mut*')
txt += "\nKeep every message you write short: never paste more than 30 lines of any output, write files with small tool calls, and keep the final summary under 400 words.\n"
print(txt)
