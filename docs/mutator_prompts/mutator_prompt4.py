import sys, io, contextlib
pid = sys.argv[1]
base = open('/verif/docs/mutator_prompts/mutator_prompt.py').read()
buf = io.StringIO()
sys.argv = ['x', pid]
with contextlib.redirect_stdout(buf):
    exec(compile(base, 'p', 'exec'), {'__name__': '__main__'})
txt = buf.getvalue()
txt = txt.replace("Prefer changes in different functions / different clauses of the property for the two patches.",
 "The two patches must be of two DIFFERENT kinds: (1) a change of a DEFAULT or of IMPLICIT behaviour - a default argument value, what "
 "happens when an optional argument is None / omitted, an implicit broadcast or implicit axis, the order of keyword handling - so that "
 "callers who pass every option explicitly see no difference while callers relying on the default / on None do; (2) a NUMERICALLY "
 "'almost equivalent' REWRITE - algebraically the same formula evaluated differently (log-domain vs linear domain, subtracting the "
 "maximum or not, one-pass vs two-pass variance, solve vs explicit inverse, squaring vs abs, an approximation or a loosened "
 "tolerance / floor / clip constant, accumulating in lower precision) - that agrees to many digits on ordinary data but loses the "
 "property for inputs INSIDE the property's stated domain: extreme magnitudes, strong cancellation, ill-conditioned or nearly tied "
 "values, very concentrated or very diffuse classes. Choose different functions / clauses of the property for the two.")
txt = txt.replace('/tmp/mut_%s' % pid, '/tmp/mut4_%s' % pid).replace('/tmp/mut_*', '/tmp/mut*')
txt += "\nKeep every message you write short: never paste more than 30 lines of any output, write files with small tool calls, and keep the final summary under 400 words.\n"
print(txt)
