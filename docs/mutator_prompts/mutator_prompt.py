import json, sys
pid = sys.argv[1]
p = [json.loads(l) for l in open('/verif/properties.jsonl') if json.loads(l)['id'] == pid][0]
print(f"""You are testing how well a semantic property of the Python library fgnt/pb_bss (NumPy EM mixture models and beamformers for blind source separation) is guarded. You work ONLY inside your own scratch git worktree of the repository at /tmp/mut_{pid} (do not read or write /repo, /verif or any other /tmp/mut_* directory; never commit; python interpreter: /venv/bin/python; run things with `cd /tmp/mut_{pid} && PYTHONPATH=/tmp/mut_{pid} /venv/bin/python ...`; there is no network).

THE PROPERTY ({pid}: {p['title']}):
{p['statement']}

It is meant to hold: {p['quantifier']['text']}

Code it is anchored in: {', '.join(p['anchors']['files'])}
Mechanisms: {json.dumps(p['anchors']['mechanism'])}

YOUR TASK: produce TWO different, realistic changes to the library source (each a small patch a careless but plausible refactoring / optimisation / bug-fix attempt could introduce) such that for EACH change:
 (a) the library still imports and the repository's existing test suite passes exactly as before. The suite command is `cd /tmp/mut_{pid} && /venv/bin/python -m pytest -ra -q -p no:cacheprovider --timeout=900 --continue-on-collection-errors 2>&1 | tail -60` (about one minute; it must be the WHOLE suite with exactly this command, never a subset: a few doctests depend on the global NumPy random stream and fail when run alone). Run it once on the unmodified worktree FIRST and keep the list of failing test ids (about 45 tests fail and 542 pass on the unmodified tree already; that is expected). With your change applied the set of passing tests must not shrink: same summary counts and same failing ids,
 (b) the property above is violated by the changed code, and
 (c) the violation does NOT show in ordinary use: it needs something specific to manifest — an unusual but valid input (particular shape / axis layout / option combination / tie / degenerate value / dtype), a multi-step sequence of calls, a particular iteration count, or two cooperating edits that each look fine alone. Avoid changes that break the very first plain call.
Prefer changes in different functions / different clauses of the property for the two patches.

For each change write into /tmp/mut_{pid}/.out/<n>/ (n = 1, 2): `patch.diff` (output of `git diff` in the worktree with only that change applied — verify with `git diff > .out/<n>/patch.diff; git checkout -- .; git apply .out/<n>/patch.diff`; NEVER use `git stash`: the stash is shared between all worktrees of the repository and other agents work in sibling worktrees), `demo.py` (a small self-contained program that takes no arguments, imports pb_bss from the current PYTHONPATH, exits 0 and prints PASS when the property holds on its input and exits 1 and prints FAIL with the numbers when it does not: it MUST fail with the patch applied and pass on the unmodified worktree — run both and paste the outputs in your answer), and `meta.json` with keys: property ("{pid}"), title (one line), what_it_breaks (which clause), needs_to_manifest (the specific input/sequence), files_touched, tests_run (the exact pytest command and the before/after summary lines).
Leave the worktree with NO modification applied at the end (`git -C /tmp/mut_{pid} checkout -- . ` ; the .out directory is untracked and stays). Reply with a short summary of both changes and the demo outputs.""")
