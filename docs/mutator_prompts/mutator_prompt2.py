import json, sys
pid = sys.argv[1]
base = open('/verif/docs/mutator_prompts/mutator_prompt.py').read()
ns = {}
import io, contextlib
buf = io.StringIO()
sys.argv = ['x', pid]
with contextlib.redirect_stdout(buf):
    exec(compile(base, 'p', 'exec'), {'__name__': '__main__'})
txt = buf.getvalue()
txt = txt.replace("YOUR TASK: produce TWO different, realistic changes", "YOUR TASK: produce THREE different, realistic changes")
txt = txt.replace("Prefer changes in different functions / different clauses of the property for the two patches.",
 "The three patches must be of three DIFFERENT kinds: (1) TWO COOPERATING EDITS in different functions or files that each look harmless "
 "alone (applying either one alone keeps the property; only both together break it - verify that too and say so in meta.json); "
 "(2) a change that only shows in a MULTI-STEP SEQUENCE of calls or after a particular number of iterations / on state carried "
 "between calls (caches, reused objects, continued fits, in-place updates that surface later); (3) a change that only shows for an "
 "UNUSUAL BUT VALID INPUT ATTRIBUTE other than a plain numeric edge value: dtype (float32, integer, boolean), memory layout "
 "(non-contiguous views, Fortran order, broadcast views with zero strides, read-only arrays), python type of an option (list vs tuple "
 "vs int, numpy scalar vs python scalar), negative vs positive axis numbers, size-1 axes, K = 1. Choose different functions / clauses "
 "of the property for the three.")
txt = txt.replace("(n = 1, 2)", "(n = 1, 2, 3)")
print(txt)
