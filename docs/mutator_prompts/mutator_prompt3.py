import sys, io, contextlib
pid = sys.argv[1]
base = open('/verif/docs/mutator_prompts/mutator_prompt.py').read()
buf = io.StringIO()
sys.argv = ['x', pid]
with contextlib.redirect_stdout(buf):
    exec(compile(base, 'p', 'exec'), {'__name__': '__main__'})
txt = buf.getvalue()
txt = txt.replace("Prefer changes in different functions / different clauses of the property for the two patches.",
 "The two patches must be of two DIFFERENT kinds: (1) a change inside a RARELY USED OPTION, BRANCH OR CODE PATH - a non-default keyword "
 "value, an alternative algorithm switch, a fallback / except branch, a second return mode, a helper only reached through one public "
 "entry point - so that the default call and the most common options behave exactly as before; (2) a change whose effect depends on "
 "SIZE OR COUNT - it only shows above or below some number of observations / frequency bins / classes / channels / iterations (e.g. "
 "chunked processing with a wrong remainder, an accumulation that loses accuracy or overflows only for long inputs, a fast path "
 "for small sizes, an off-by-one at a segment or block boundary, behaviour for exactly one class / one channel / one frame). "
 "Choose different functions / clauses of the property for the two.")
txt = txt.replace('/tmp/mut_%s' % pid, '/tmp/mut3_%s' % pid).replace('/tmp/mut_*', '/tmp/mut*')
txt += "\nKeep every message you write short: never paste more than 30 lines of any output, write files with small tool calls, and keep the final summary under 400 words.\n"
print(txt)
