(* Base/CLin.v -- complex index-function linear algebra over Coquelicot's C, and the bridge
   from the polymorphic pair-complex layer of Base/Ops.v (instance RO) to it.
   Vectors are nat -> C, matrices nat -> nat -> C, sums by recursion on the dimension. *)
From Coq Require Import Reals Lra Lia.
From Coquelicot Require Import Coquelicot.
From PB Require Import Ops.
Open Scope C_scope.

Fixpoint csum (n:nat) (f:nat->C) : C := match n with O => RtoC 0 | S k => Cplus (csum k f) (f k) end.
Fixpoint rsum (n:nat) (f:nat->R) : R := match n with O => 0%R | S k => (rsum k f + f k)%R end.

(* ---- bridge: on RO the pair-complex operations ARE Coquelicot's ---- *)
Lemma cadd_RO x y : cadd RO x y = Cplus x y. Proof. reflexivity. Qed.
Lemma cmul_RO x y : cmul RO x y = Cmult x y. Proof. reflexivity. Qed.
Lemma cconj_RO x : cconj RO x = Cconj x. Proof. reflexivity. Qed.
Lemma copp_RO x : copp RO x = Copp x. Proof. reflexivity. Qed.
Lemma c0_RO : c0 RO = RtoC 0. Proof. reflexivity. Qed.
Lemma c1_RO : c1 RO = RtoC 1. Proof. reflexivity. Qed.
Lemma cre_RO r : cre RO r = RtoC r. Proof. reflexivity. Qed.
Lemma cscale_RO a x : cscale RO a x = RtoC a * x.
Proof. destruct x as [p q]. unfold cscale, Cmult, RtoC; simpl. f_equal; ring. Qed.
Lemma csumO_RO n f : csumO RO n f = csum n f.
Proof. induction n; cbn [csumO csum]; [reflexivity | rewrite IHn; reflexivity]. Qed.
Lemma bsum_RO n f : bsum RO n f = rsum n f.
Proof. induction n; cbn [bsum rsum]; [reflexivity | rewrite IHn; reflexivity]. Qed.
Lemma cabs2_RO x : cabs2 RO x = (Cmod x * Cmod x)%R.
Proof. destruct x as [a b]. unfold cabs2, Cmod; simpl. rewrite sqrt_sqrt; [ring | nra]. Qed.
Lemma omax_RO a b : omax RO a b = Rmax a b.
Proof. unfold omax; simpl; unfold Rleb, Rmax. destruct (Rle_dec a b); reflexivity. Qed.
Lemma omin_RO a b : omin RO a b = Rmin a b.
Proof. unfold omin; simpl; unfold Rleb, Rmin. destruct (Rle_dec a b); reflexivity. Qed.

(* ---- real sums ---- *)
Lemma rsum_ext n f g : (forall k, (k<n)%nat -> f k = g k) -> rsum n f = rsum n g.
Proof. induction n; cbn [rsum]; intros H; auto. rewrite IHn, H; auto. Qed.
Lemma rsum_scale n f c : rsum n (fun k => f k * c)%R = (rsum n f * c)%R.
Proof. induction n; cbn [rsum]; [lra| rewrite IHn; lra]. Qed.
Lemma rsum_scale_l n f c : rsum n (fun k => c * f k)%R = (c * rsum n f)%R.
Proof. induction n; cbn [rsum]; [lra| rewrite IHn; lra]. Qed.
Lemma rsum_plus n f g : rsum n (fun k => f k + g k)%R = (rsum n f + rsum n g)%R.
Proof. induction n; cbn [rsum]; [lra| rewrite IHn; lra]. Qed.
Lemma rsum_nonneg n f : (forall k, (k<n)%nat -> 0 <= f k)%R -> (0 <= rsum n f)%R.
Proof. induction n; cbn [rsum]; intros H; [lra|].
  assert (0 <= rsum n f)%R by (apply IHn; intros; apply H; lia). specialize (H n ltac:(lia)). lra. Qed.
Lemma rsum_le n f g : (forall k, (k<n)%nat -> f k <= g k)%R -> (rsum n f <= rsum n g)%R.
Proof. induction n; cbn [rsum]; intros H; [lra|].
  assert (rsum n f <= rsum n g)%R by (apply IHn; intros; apply H; lia). specialize (H n ltac:(lia)). lra. Qed.
Lemma term_le_rsum n f k : (forall j, (j<n)%nat -> 0 <= f j)%R -> (k<n)%nat -> (f k <= rsum n f)%R.
Proof. induction n; cbn [rsum]; intros H Hk; [lia|].
  assert (0 <= rsum n f)%R by (apply rsum_nonneg; intros; apply H; lia).
  destruct (Nat.eq_dec k n) as [->|Hne]. lra.
  assert (f k <= rsum n f)%R by (apply IHn; [intros; apply H; lia|lia]). specialize (H n ltac:(lia)). lra. Qed.
Lemma rsum_zero n f : (forall k, (k<n)%nat -> f k = 0%R) -> rsum n f = 0%R.
Proof. induction n; cbn [rsum]; intros H; auto. rewrite IHn, H; auto. lra. Qed.
Lemma rsum_swap n m (f:nat->nat->R) :
  rsum n (fun i => rsum m (fun j => f i j)) = rsum m (fun j => rsum n (fun i => f i j)).
Proof. induction n; cbn [rsum]. induction m; cbn [rsum]; auto. rewrite <- IHm. lra.
  rewrite IHn. rewrite <- rsum_plus. reflexivity. Qed.

(* ---- complex sums ---- *)
Lemma csum_ext n f g : (forall i, (i<n)%nat -> f i = g i) -> csum n f = csum n g.
Proof. induction n; cbn [csum]; intros H; auto. rewrite IHn, H; auto. Qed.
Lemma csum_plus n f g : csum n (fun i => f i + g i) = csum n f + csum n g.
Proof. induction n; cbn [csum]. ring. rewrite IHn. ring. Qed.
Lemma csum_scal n c f : csum n (fun i => c * f i) = c * csum n f.
Proof. induction n; cbn [csum]. ring. rewrite IHn. ring. Qed.
Lemma csum_scal_r n c f : csum n (fun i => f i * c) = csum n f * c.
Proof. induction n; cbn [csum]. ring. rewrite IHn. ring. Qed.
Lemma csum_zero n (f:nat->C) : (forall i, (i<n)%nat -> f i = 0) -> csum n f = 0.
Proof. induction n; cbn [csum]; intros H; auto. rewrite IHn, H; auto. ring. Qed.
Lemma Cconj_plus a b : Cconj (a+b) = Cconj a + Cconj b. Proof. unfold Cconj, Cplus; simpl. f_equal; ring. Qed.
Lemma Cconj_mult a b : Cconj (a*b) = Cconj a * Cconj b. Proof. unfold Cconj, Cmult; simpl. f_equal; ring. Qed.
Lemma Cconj_conj a : Cconj (Cconj a) = a. Proof. destruct a; unfold Cconj; simpl. f_equal; ring. Qed.
Lemma Cconj_R r : Cconj (RtoC r) = RtoC r. Proof. unfold Cconj, RtoC; simpl. f_equal; ring. Qed.
Lemma Cconj_opp a : Cconj (- a) = - Cconj a. Proof. unfold Cconj, Copp; simpl. f_equal; ring. Qed.
Lemma csum_conj n f : Cconj (csum n f) = csum n (fun i => Cconj (f i)).
Proof. induction n; cbn [csum]. apply Cconj_R. rewrite Cconj_plus, IHn. reflexivity. Qed.
Lemma csum_swap n m (f:nat->nat->C) :
  csum n (fun i => csum m (fun j => f i j)) = csum m (fun j => csum n (fun i => f i j)).
Proof. induction n; cbn [csum]. induction m; cbn [csum]; auto. rewrite <- IHm. ring.
  rewrite IHn. rewrite <- csum_plus. reflexivity. Qed.
Lemma csum_RtoC n (f:nat->R) : csum n (fun i => RtoC (f i)) = RtoC (rsum n f).
Proof. induction n; cbn [csum rsum]. reflexivity. rewrite IHn. rewrite <- RtoC_plus. reflexivity. Qed.
Lemma conj_mul_self z : Cconj z * z = RtoC (Cmod z * Cmod z).
Proof. destruct z as [a b]. unfold Cconj, Cmult, RtoC, Cmod; simpl. rewrite sqrt_sqrt. f_equal; ring. nra. Qed.
Lemma mul_conj_self z : z * Cconj z = RtoC (Cmod z * Cmod z).
Proof. rewrite Cmult_comm. apply conj_mul_self. Qed.

Definition vec := nat -> C.
Definition mat := nat -> nat -> C.

Section Dim.
Variable D : nat.
Definition dot (u v:vec) : C := csum D (fun i => Cconj (u i) * v i).
Definition mv (A:mat) (x:vec) : vec := fun i => csum D (fun j => A i j * x j).
Definition hermitian (A:mat) := forall i j, A i j = Cconj (A j i).
Definition form (A:mat) (u v:vec) := dot u (mv A v).

Lemma dot_conj u v : Cconj (dot u v) = dot v u.
Proof. unfold dot. rewrite csum_conj. apply csum_ext; intros. rewrite Cconj_mult, Cconj_conj. ring. Qed.
Lemma dot_plus_r u v w : dot u (fun i => v i + w i) = dot u v + dot u w.
Proof. unfold dot. rewrite <- csum_plus. apply csum_ext; intros; ring. Qed.
Lemma dot_plus_l u v w : dot (fun i => u i + v i) w = dot u w + dot v w.
Proof. unfold dot. rewrite <- csum_plus. apply csum_ext; intros. rewrite Cconj_plus. ring. Qed.
Lemma dot_scal_r u v c : dot u (fun i => c * v i) = c * dot u v.
Proof. unfold dot. rewrite <- csum_scal. apply csum_ext; intros; ring. Qed.
Lemma dot_scal_l u v c : dot (fun i => c * u i) v = Cconj c * dot u v.
Proof. unfold dot. rewrite <- csum_scal. apply csum_ext; intros. rewrite Cconj_mult. ring. Qed.
Lemma mv_plus A x y i : mv A (fun j => x j + y j) i = mv A x i + mv A y i.
Proof. unfold mv. rewrite <- csum_plus. apply csum_ext; intros; ring. Qed.
Lemma mv_scal A x c i : mv A (fun j => c * x j) i = c * mv A x i.
Proof. unfold mv. rewrite <- csum_scal. apply csum_ext; intros; ring. Qed.
Lemma dot_ext u u' v v' :
  (forall i, (i<D)%nat -> u i = u' i) -> (forall i, (i<D)%nat -> v i = v' i) -> dot u v = dot u' v'.
Proof. intros H1 H2. unfold dot. apply csum_ext; intros. rewrite H1, H2; auto. Qed.
Lemma mv_ext A A' x x' i :
  (forall j, (j<D)%nat -> A i j = A' i j) -> (forall j, (j<D)%nat -> x j = x' j) -> mv A x i = mv A' x' i.
Proof. intros H1 H2. unfold mv. apply csum_ext; intros. rewrite H1, H2; auto. Qed.
Lemma dot_minus_l u v w : dot (fun i => u i - v i) w = dot u w - dot v w.
Proof. unfold dot.
  transitivity (csum D (fun i => Cconj (u i) * w i + (-(1)) * (Cconj (v i) * w i))).
  { apply csum_ext; intros. unfold Cminus. rewrite Cconj_plus, Cconj_opp. ring. }
  rewrite csum_plus, csum_scal. ring. Qed.
Lemma form_expand A w d :
  form A (fun i => w i + d i) (fun i => w i + d i) = form A w w + form A w d + form A d w + form A d d.
Proof.
  unfold form.
  rewrite (dot_ext _ (fun i => w i + d i) (mv A (fun j => w j + d j)) (fun i => mv A w i + mv A d i)); auto.
  2: intros; apply mv_plus.
  rewrite dot_plus_l. rewrite !dot_plus_r. ring.
Qed.
Lemma form_herm A u v : hermitian A -> form A u v = Cconj (form A v u).
Proof.
  intros HA. unfold form, dot, mv.
  rewrite csum_conj.
  transitivity (csum D (fun i => csum D (fun j => Cconj (u i) * (A i j * v j)))).
  { apply csum_ext; intros. rewrite <- csum_scal. reflexivity. }
  transitivity (csum D (fun j => csum D (fun i => Cconj (u i) * (A i j * v j)))).
  { apply csum_swap. }
  apply csum_ext; intros j Hj. cbv beta. rewrite Cconj_mult, Cconj_conj, csum_conj, <- csum_scal.
  apply csum_ext; intros i Hi. rewrite Cconj_mult. rewrite (HA i j). ring.
Qed.
End Dim.

(* rewriting with the *_RO lemmas can fail ("identical goal") because both sides are convertible;
   [bridge] replaces the pair-complex operations of the RO instance by Coquelicot's by conversion *)
Ltac bridge :=
  change (@cmul R RO) with Cmult in *; change (@cadd R RO) with Cplus in *;
  change (@cconj R RO) with Cconj in *; change (@copp R RO) with Copp in *;
  change (@c0 R RO) with (RtoC 0) in *; change (@c1 R RO) with (RtoC 1) in *;
  change (@cre R RO) with RtoC in *.
(* model functions return [cx] (= R*R); ring/field want the goal typed [C] *)
Ltac asC := match goal with |- @eq _ ?a ?b => change (@eq C a b) end.
