(* Base/Ops.v -- the scalar interface every model function is written against.
   One Gallina definition, three readings:
     RO : ops R      (Coq Reals)            -- the instance theorems are stated about
     FO : ops float  (PrimFloat, binary64)  -- the instance the correspondence check runs
   Complex numbers are pairs (T*T) written with fst/snd so that, on RO, the operations
   are convertible with Coquelicot's Cplus/Cmult/Cconj (see Base/CBridge.v). *)
From Coq Require Import Reals List Bool.

Record ops (T : Type) := {
  o0 : T; o1 : T;
  oadd : T -> T -> T; omul : T -> T -> T; oopp : T -> T; oinv : T -> T;
  oleb : T -> T -> bool;
  oexp : T -> T; oln : T -> T; osqrt : T -> T }.
Arguments o0 {T}. Arguments o1 {T}. Arguments oadd {T}. Arguments omul {T}.
Arguments oopp {T}. Arguments oinv {T}. Arguments oleb {T}.
Arguments oexp {T}. Arguments oln {T}. Arguments osqrt {T}.

Section Generic.
Context {T : Type} (P : ops T).

Definition osub (a b : T) : T := oadd P a (oopp P b).
Definition odiv (a b : T) : T := omul P a (oinv P b).
Definition omax (a b : T) : T := if oleb P a b then b else a.
Definition omin (a b : T) : T := if oleb P a b then a else b.
Definition oltb (a b : T) : bool := negb (oleb P b a).
Definition oabs (a : T) : T := if oleb P (o0 P) a then a else oopp P a.
Definition obool (b : bool) : T := if b then o1 P else o0 P.
Fixpoint onat (n : nat) : T := match n with 0%nat => o0 P | S k => oadd P (onat k) (o1 P) end.

(* sum_{k<n} f k, accumulated from index 0 upwards (the order numpy's pairwise/naive sum is
   NOT assumed to follow: comparisons with the implementation are made with a tolerance) *)
Fixpoint bsum (n : nat) (f : nat -> T) : T :=
  match n with 0%nat => o0 P | S k => oadd P (bsum k f) (f k) end.
(* max over k <= n (n+1 terms, so the maximum is always defined) *)
Fixpoint bmax (n : nat) (f : nat -> T) : T :=
  match n with 0%nat => f 0%nat | S k => omax (bmax k f) (f (S k)) end.
Fixpoint bprod (n : nat) (f : nat -> T) : T :=
  match n with 0%nat => o1 P | S k => omul P (bprod k f) (f k) end.

(* ---- complex numbers as pairs ---- *)
Definition cx := (T * T)%type.
Definition c0 : cx := (o0 P, o0 P).
Definition c1 : cx := (o1 P, o0 P).
Definition cre (x : T) : cx := (x, o0 P).
Definition cadd (x y : cx) : cx := (oadd P (fst x) (fst y), oadd P (snd x) (snd y)).
Definition copp (x : cx) : cx := (oopp P (fst x), oopp P (snd x)).
Definition csub (x y : cx) : cx := cadd x (copp y).
Definition cmul (x y : cx) : cx :=
  (oadd P (omul P (fst x) (fst y)) (oopp P (omul P (snd x) (snd y))),
   oadd P (omul P (fst x) (snd y)) (omul P (snd x) (fst y))).
Definition cconj (x : cx) : cx := (fst x, oopp P (snd x)).
Definition cscale (a : T) (x : cx) : cx := (omul P a (fst x), omul P a (snd x)).
Definition cabs2 (x : cx) : T := oadd P (omul P (fst x) (fst x)) (omul P (snd x) (snd x)).
Definition cabs (x : cx) : T := osqrt P (cabs2 x).
(* 1/x = conj x / |x|^2 *)
Definition cinv (x : cx) : cx := cscale (oinv P (cabs2 x)) (cconj x).
Definition cdiv (x y : cx) : cx := cmul x (cinv y).
Fixpoint csumO (n : nat) (f : nat -> cx) : cx :=
  match n with 0%nat => c0 | S k => cadd (csumO k f) (f k) end.
End Generic.

(* ---- the real instance ---- *)
Definition Rleb (a b : R) : bool := if Rle_dec a b then true else false.
Definition RO : ops R :=
  {| o0 := 0%R; o1 := 1%R; oadd := Rplus; omul := Rmult; oopp := Ropp; oinv := Rinv;
     oleb := Rleb; oexp := exp; oln := ln; osqrt := sqrt |}.

Lemma Rleb_true a b : Rleb a b = true <-> (a <= b)%R.
Proof. unfold Rleb. destruct (Rle_dec a b); split; intros; auto; discriminate. Qed.
Lemma Rleb_false a b : Rleb a b = false <-> (b < a)%R.
Proof. unfold Rleb. destruct (Rle_dec a b); split; intros; auto; try discriminate.
  - exfalso. apply (Rlt_irrefl a). eapply Rle_lt_trans; eauto.
  - apply Rnot_le_lt; assumption. Qed.
