(* Base/FloatFun.v -- the binary64 instance FO used ONLY for executing the model in the
   correspondence check (never under a property theorem).  expF / lnF are ordinary
   range-reduction + polynomial routines; they are not proved against Reals.exp / ln, they are
   self-tested against libm on every run (harness: selftest) and enter the trusted base. *)
From Coq Require Import ZArith Uint63 PrimFloat List.
From PB Require Import Ops.
Local Open Scope float_scope.

Definition F0 : float := 0.
Definition F1 : float := 1.
Definition ln2_hi : float := 0x1.62e42fee00000p-1.
Definition ln2_lo : float := 0x1.a39ef35793c76p-33.
Definition inv_ln2 : float := 0x1.71547652b82fep+0.
Definition magic : float := 0x1.8p52.
Definition fshift : int := 2101%uint63.

(* integer value (as uint63) of a non-negative integral float below 2^53 *)
Definition int_of_nonneg (k : float) : int :=
  if PrimFloat.ltb k 0.5 then 0%uint63 else
  let (m, e) := frshiftexp k in
  Uint63.lsr (normfr_mantissa m) (Uint63.sub 53%uint63 (Uint63.sub e fshift)).

(* Taylor polynomial of exp on |r| <= ln2/2, Horner form, degree 13 *)
Definition exp_poly (r : float) : float :=
  let c := fun (n : float) (acc : float) => 1 + r / n * acc in
  c 1 (c 2 (c 3 (c 4 (c 5 (c 6 (c 7 (c 8 (c 9 (c 10 (c 11 (c 12 (c 13 1)))))))))))).

Definition expF (x : float) : float :=
  if PrimFloat.eqb x x then
    if PrimFloat.ltb 710 x then infinity else
    if PrimFloat.ltb x (-746) then 0 else
    let kf := (x * inv_ln2 + magic) - magic in
    let r := (x - kf * ln2_hi) - kf * ln2_lo in
    let p := exp_poly r in
    let ka := int_of_nonneg (abs kf) in
    (* two-step scaling keeps subnormal results correctly reachable *)
    if PrimFloat.ltb kf 0
    then ldshiftexp p (Uint63.sub fshift ka)
    else ldshiftexp p (Uint63.add fshift ka)
  else x.

(* atanh series: ln m = 2 (s + s^3/3 + ...), s = (m-1)/(m+1), m in [sqrt(1/2), sqrt 2) *)
Definition ln_series (s : float) : float :=
  let z := s * s in
  let t := fun (n : float) (acc : float) => 1 / n + z * acc in
  2 * s * (t 1 (t 3 (t 5 (t 7 (t 9 (t 11 (t 13 (t 15 (t 17 (t 19 (t 21 (1/23)))))))))))).

Definition float_of_exp (e : int) : float :=
  (* e is the shifted exponent from frshiftexp; value e - 2101 as a float *)
  if Uint63.leb fshift e then of_uint63 (Uint63.sub e fshift)
  else - of_uint63 (Uint63.sub fshift e).

Definition lnF (x : float) : float :=
  if PrimFloat.eqb x x then
    if PrimFloat.ltb x 0 then nan else
    if PrimFloat.eqb x 0 then neg_infinity else
    if PrimFloat.eqb x infinity then infinity else
    let (m, e) := frshiftexp x in
    let ef := float_of_exp e in
    let '(m, ef) := if PrimFloat.ltb m 0x1.6a09e667f3bcdp-1 then (m * 2, ef - 1) else (m, ef) in
    let s := (m - 1) / (m + 1) in
    (ef * ln2_hi + ln_series s) + ef * ln2_lo
  else x.

Definition FO : ops float :=
  {| o0 := 0; o1 := 1; oadd := PrimFloat.add; omul := PrimFloat.mul; oopp := PrimFloat.opp;
     oinv := fun x => 1 / x; oleb := PrimFloat.leb;
     oexp := expF; oln := lnF; osqrt := PrimFloat.sqrt |}.

(* ---- comparison helpers used by the Run/ checks ---- *)
Definition fabs := PrimFloat.abs.
Definition fmax (a b : float) : float := if PrimFloat.leb a b then b else a.
Definition is_nanF (x : float) : bool := negb (PrimFloat.eqb x x).
Definition is_finF (x : float) : bool := PrimFloat.ltb (abs x) infinity.

(* |a-b| <= atol + rtol*max(|a|,|b|); NaN must match NaN, Inf must match the same Inf *)
Definition closeF (rtol atol a b : float) : bool :=
  if is_nanF a then is_nanF b else
  if is_nanF b then false else
  if negb (is_finF a) then PrimFloat.eqb a b else
  if negb (is_finF b) then false else
  PrimFloat.leb (abs (a - b)) (atol + rtol * fmax (abs a) (abs b)).

Fixpoint all_closeF (rtol atol : float) (l1 l2 : list float) : bool :=
  match l1, l2 with
  | nil, nil => true
  | a :: r1, b :: r2 => andb (closeF rtol atol a b) (all_closeF rtol atol r1 r2)
  | _, _ => false
  end.

(* worst absolute deviation of two lists (diagnostic printed next to the verdict) *)
Fixpoint worst_dev (l1 l2 : list float) : float :=
  match l1, l2 with
  | a :: r1, b :: r2 => fmax (abs (a - b)) (worst_dev r1 r2)
  | _, _ => 0
  end.
