(* Run/C07.v -- executable comparison of the log_pdf models (instance FO, PrimFloat) with the
   implementation's values.  One check per family; each takes one leading index (parameters of one
   distribution object slice) and a list of evaluation points with the implementation's log_pdf values.
   Tolerance: 2^-30 relative, scale-aware (the scale is the sum of the magnitudes of the terms that are
   added up, so cancellation in the implementation is not mistaken for agreement or disagreement). *)
From Coq Require Import ZArith List PrimFloat Bool.
From PB Require Import Ops FloatFun Run.Common Model.LogPdf.
Import ListNotations.
Local Open Scope float_scope.

Definition rtol07 : float := 0x1p-30.
Definition piF : float := 0x1.921fb54442d18p+1.      (* float(np.pi) *)
Definition tinyF : float := 0x1p-1022.                 (* np.finfo(np.float64).tiny *)
Definition scale_of (l : list float) : float := fold_right (fun a b => fmax (abs a) b) 0 l.
Definition cmp_scaled (extra : float) (model impl : list float) : bool * float :=
  cmpF rtol07 (rtol07 * (scale_of impl + extra)) model impl.

(* ---- real Gaussians.  ldet_impl is the object's stored log_det_precision_cholesky *)
Definition gconstF (D : nat) : float := abs (0.5 * onat FO D * lnF (2 * piF)).

Definition check_gauss_full (D : nat) (mu : list float) (Pm : list (list float)) (ldet_impl : float)
    (ys : list (list float)) (impl : list float) : bool * float :=
  let ld := ldet_full FO D (fnth2 Pm) in
  let model := map (fun y => gauss_full_logpdf FO piF D (fnth mu) (fnth y) (fnth2 Pm)) ys in
  andR (cmp_scaled (abs ld + gconstF D) model impl)
       (cmpF rtol07 (rtol07 * (1 + bsum FO D (fun k => abs (lnF (fnth2 Pm k k))))) [ld] [ldet_impl]).

Definition check_gauss_diag (D : nat) (mu cov : list float) (ldet_impl : float)
    (ys : list (list float)) (impl : list float) : bool * float :=
  let ld := ldet_diag FO D (fnth cov) in
  let model := map (fun y => gauss_diag_logpdf FO piF D (fnth mu) (fnth y) (fnth cov)) ys in
  andR (cmp_scaled (abs ld + gconstF D) model impl)
       (cmpF rtol07 (rtol07 * (1 + bsum FO D (fun k => abs (lnF (pc_diag FO (fnth cov) k))))) [ld] [ldet_impl]).

Definition check_gauss_sph (D : nat) (mu : list float) (c : float) (ldet_impl : float)
    (ys : list (list float)) (impl : list float) : bool * float :=
  let ld := ldet_sph FO D c in
  let model := map (fun y => gauss_sph_logpdf FO piF D (fnth mu) (fnth y) c) ys in
  andR (cmp_scaled (abs ld + gconstF D) model impl)
       (cmpF rtol07 (rtol07 * (1 + abs ld)) [ld] [ldet_impl]).

(* ---- complex Gaussian.  logabsdet, sols: numpy.linalg.slogdet / solve outputs (oracles) *)
Definition check_ccsg (D : nat) (logabsdet : float) (ys sols : list (list (float * float)))
    (impl : list float) : bool * float :=
  let model := map (fun ys => ccsg_logpdf FO piF D (cnth (fst ys)) logabsdet (cnth (snd ys))) (combine ys sols) in
  cmp_scaled (abs logabsdet + onat FO D * lnF piF) model impl.

(* ---- von Mises-Fisher.  ive: scipy.special.ive(D/2-1, kappa) (oracle).  Second component: the
   oracle's contract residual, log-normaliser from ive against the truncated Bessel series (nser terms) *)
Definition check_vmf (D : nat) (mu : list float) (kappa ive : float) (nser : nat)
    (ys : list (list float)) (impl : list float) : bool * float :=
  let ln_o := vmf_lognorm FO piF D kappa ive in
  let ln_s := vmf_lognorm_series FO piF D kappa nser in
  let model := map (fun y => vmf_logpdf FO piF D (fnth mu) (fnth y) kappa ive tinyF) ys in
  andR (cmp_scaled (abs ln_o + abs kappa) model impl)
       (cmpF rtol07 (rtol07 * (1 + abs kappa + abs (lnF kappa) * onat FO D)) [ln_s] [ln_o]).

(* ---- complex Watson.  h1f1: scipy.special.hyp1f1(1, D, kappa) (oracle); contract residual against the
   truncated Kummer series *)
Definition check_watson (D : nat) (mu : list (float * float)) (kappa h1f1 : float) (nser : nat)
    (ys : list (list (float * float))) (impl : list float) : bool * float :=
  let ln_o := watson_lognorm FO piF D h1f1 in
  let model := map (fun y => watson_logpdf FO piF D (cnth mu) (cnth y) kappa h1f1) ys in
  andR (cmp_scaled (abs ln_o + abs kappa) model impl)
       (cmpF rtol07 (rtol07 * (1 + abs kappa)) [lnF (kummer_sum FO D kappa nser)] [lnF h1f1]).

(* ---- complex Bingham.  Everything is computed by the model; the condition number of Kent's
   alternating sum (sum |terms| / |sum|) enters the scale.  norm_impl: the object's norm() *)
Definition check_bingham (D : nat) (E : list (list (float * float))) (lam : list float) (eps : float)
    (norm_impl : float) (ys : list (list (float * float))) (impl : list float) : bool * float :=
  let lam' := fun i => nth i (remove_duplicates FO eps lam) 0 in
  let terms := tab D (fun j => kent_a FO D lam' j * expF (lam' j)) in
  let sabs := 2 * opow FO piF D * fold_right (fun a b => abs a + b) 0 terms in
  let nm := bingham_norm FO piF D lam' in
  let cond := sabs / abs nm in
  (* Kent's alternating sum evaluated in binary64 has no correct digit when its condition number exceeds ~2^40 (close
     eigenvalues); the implementation evaluates the same quantity as a divided difference (fix 390dd9a).  Then the
     normaliser is taken as an oracle value from the implementation (its accuracy is established by the harness against
     a 120-digit evaluation of Kent's sum) and only the quadratic-form part is compared. *)
  let usable := andb (PrimFloat.ltb 0 nm) (PrimFloat.ltb cond 0x1p40) in
  if usable then
    let model := map (fun y => bingham_logpdf FO piF D (cnth2 E) lam (cnth y) eps) ys in
    andR (cmp_scaled (abs (lnF nm) + cond + scale_of lam) model impl)
         (cmpF rtol07 (rtol07 * sabs) [nm] [norm_impl])
  else
    let quad_only := map (fun y => fst (herm_form FO D (cnth y) (eig_matrix FO D (cnth2 E) (lam_at FO lam))) - lnF norm_impl) ys in
    cmp_scaled (abs (lnF norm_impl) + scale_of lam) quad_only impl.

(* ---- complex angular central Gaussian *)
Definition check_cacg (D : nat) (E : list (list (float * float))) (lam : list float)
    (ys : list (list (float * float))) (impl : list float) : bool * float :=
  let ld := cacg_logdet FO D (fnth lam) in
  let model := map (fun y => cacg_logpdf FO D (cnth2 E) (fnth lam) (cnth y) tinyF) ys in
  cmp_scaled (bsum FO D (fun e => abs (lnF (fnth lam e)))) model impl.
