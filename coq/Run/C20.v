(* Run/C20.v -- executable comparison of the trainer state machine (Model/EM.v: tfit / trun) and of the call structure
   (Model/Calls.v) with what the harness observed on the implementation.  Everything is discrete: exact equality. *)
From Coq Require Import ZArith List PrimFloat Bool.
From PB Require Import Ops FloatFun Run.Common Model.EM Model.Calls.
Import ListNotations.

(* the instance: a fit argument is its feature dimension; the table built on first use is keyed by the dimension;
   the "result" records which table served which argument *)
Definition sm_fit := tfit nat (nat * nat) nat (fun a => a) (fun d => d) (fun t a => (t, a)).
Definition opt_nat_eqb (a b : option nat) : bool :=
  match a, b with None, None => true | Some x, Some y => Nat.eqb x y | _, _ => false end.

Fixpoint sm_run (st : tstate nat) (dims : list nat) : tstate nat * list bool :=
  match dims with
  | [] => (st, [])
  | d :: r => let (st', res) := sm_fit st d in
              let (stf, acc) := sm_run st' r in
              (stf, (match res with Some _ => true | None => false end) :: acc)
  end.
Definition eq_boollist (a b : list bool) : bool := if list_eq_dec bool_dec a b then true else false.

(* ctor = dimension given to the constructor (None: inferred at the first fit); dims = feature dimension of every fit
   call in order; accepted = whether the implementation returned (true) or raised AssertionError (false);
   cached = trainer.dimension afterwards; table = dimension the cached sub-trainer / spline was built for (if built) *)
Definition check_history (ctor : option nat) (dims : list nat) (accepted : list bool)
    (cached : option nat) (table : option nat) : bool * float :=
  let st0 : tstate nat := match ctor with None => None | Some d => Some (d, d) end in
  let (stf, acc) := sm_run st0 dims in
  okR (andb (eq_boollist acc accepted)
      (andb (opt_nat_eqb (match stf with None => None | Some (d, _) => Some d end) cached)
            (match table with None => true
                            | Some tb => opt_nat_eqb (match stf with None => None | Some (_, t) => Some t end) (Some tb) end))).

(* steps executed (true = M-step, false = E-step) by one fit of n iterations from an affiliation, and by a chain
   fit(n1); fit(n2, initialization=model); ... -- against the words recorded on the implementation *)
Definition check_fit_word (n : nat) (impl : list bool) : bool * float :=
  okR (eq_boollist (fit Eword Mword n []) impl).
Definition check_chain_word (n1 : nat) (rest : list nat) (impl : list bool) : bool * float :=
  okR (andb (eq_boollist (fit_chain Eword Mword n1 rest []) impl)
            (eq_boollist (fit_chain Eword Mword n1 rest []) (fit Eword Mword (n1 + fold_right Nat.add 0 rest) []))).
