(* Run/C04.v -- executable comparison (instance FO) of the normalisations, the cACG quadratic form / log-pdf, the matrix
   handed to eigh, the Watson / Bingham / vMF log-pdfs of Model/Trainers.v and Model/Mixture.v with the implementation,
   on an observation y and on its scaled version c.y (the product c*y is passed as data: it is an input of both sides). *)
From Coq Require Import ZArith List PrimFloat Bool.
From PB Require Import Ops FloatFun Run.Common Model.Posterior Model.Trainers Model.Mixture.
Import ListNotations.

Definition rt4 : float := 0x1p-30.
Definition at4 : float := 0x1p-40.
Definition scale_of (l : list float) : float := fold_right (fun a b => fmax (abs a) b) 0%float l.
Definition cmpS (model impl : list float) : bool * float := cmpF rt4 (at4 + rt4 * scale_of impl)%float model impl.

Definition unit_of (where_style : bool) (D : nat) (tiny : float) (z : nat -> float * float) : nat -> float * float :=
  if where_style then cunit_where FO D tiny z else cunit_max FO D tiny z.

(* one frame: model normalisation of y and of c.y against the implementation's normalised frames, and the C04 relation
   unit(c y) = (c/|c|) unit(y) evaluated on the model *)
Definition check_unit (where_style : bool) (D : nat) (tiny : float) (c : float * float)
    (z cz impl_y impl_cy : list (float * float)) : bool * float :=
  let my := tab D (unit_of where_style D tiny (cnth z)) in
  let mcy := tab D (unit_of where_style D tiny (cnth cz)) in
  let ph := cscale FO (1 / cabs FO c)%float c in
  allR [cmpS (cflat my) (cflat impl_y); cmpS (cflat mcy) (cflat impl_cy);
        cmpS (cflat mcy) (cflat (map (cmul FO ph) my))].

(* cACG quadratic form and log-pdf of one frame under one class (U d e, lam e from the implementation's fitted model) *)
Definition check_cacg (where_style : bool) (D : nat) (tiny : float) (U : list (list (float * float))) (lam : list float)
    (z cz : list (float * float)) (impl : list float) (implc : list float) : bool * float :=
  let f := fun zz => let u := unit_of where_style D tiny (cnth zz) in
             [cacg_quad FO D tiny (cnth2 U) (fnth lam) u; cacg_log_pdf FO D tiny (cnth2 U) (fnth lam) u] in
  allR [cmpS (f z) impl; cmpS (f cz) implc; cmpS (f cz) (f z)].

(* the matrix handed to eigh for one class, from the raw observations of one leading index *)
Definition check_cov (where_style herm : bool) (cov_norm : nat) (D' N : nat) (tiny : float) (sal arow qrow : list float)
    (z cz : list (list (float * float))) (impl implc : list (list (float * float))) : bool * float :=
  let D := S D' in
  let f := fun zz => cflat (flat (tab2 D D (cacgmm_cov FO D' N tiny (fnth sal) where_style herm cov_norm (cnth2 zz) (fnth arow) (fnth qrow)))) in
  allR [cmpS (f z) (cflat (flat impl)); cmpS (f cz) (cflat (flat implc))].

(* Watson / Bingham log-pdf through the normalising path of predict (normalised twice); lognorm from the implementation *)
Definition check_watson (D' : nat) (tiny : float) (mode : list (float * float)) (kappa lognorm : float)
    (z cz : list (list (float * float))) (impl implc : float) : bool * float :=
  let f := fun zz => cwmm_logpdf_c FO D' tiny (cnth2 zz) (cnth mode, (kappa, lognorm)) 0 in
  allR [cmpS [f z] [impl]; cmpS [f cz] [implc]].
Definition check_bingham (D' : nat) (tiny : float) (U : list (list (float * float))) (lam : list float) (lognorm : float)
    (z cz : list (list (float * float))) (impl implc : float) : bool * float :=
  let f := fun zz => cbmm_logpdf_c FO D' tiny (cnth2 zz) (cnth2 U, (fnth lam, lognorm)) 0 in
  allR [cmpS [f z] [impl]; cmpS [f cz] [implc]].
(* raw densities (no renormalisation): phase-only gain u.y *)
Definition check_raw_phase (D : nat) (mode : list (float * float)) (kappa lognormw : float)
    (U : list (list (float * float))) (lam : list float) (lognormb : float)
    (y uy : list (float * float)) (implw implwu implb implbu : float) : bool * float :=
  allR [cmpS [watson_log_pdf FO D (cnth mode) kappa lognormw (cnth y)] [implw];
        cmpS [watson_log_pdf FO D (cnth mode) kappa lognormw (cnth uy)] [implwu];
        cmpS [bingham_log_pdf FO D (cnth2 U) (fnth lam) lognormb (cnth y)] [implb];
        cmpS [bingham_log_pdf FO D (cnth2 U) (fnth lam) lognormb (cnth uy)] [implbu]].

(* vMF: projection of an embedding and of its positively scaled version, and the log-pdf (lognorm from the implementation) *)
Definition check_vmf (D : nat) (tiny : float) (mean : list float) (kappa lognorm : float)
    (v cv impl_v impl_cv : list float) (impl implc : float) : bool * float :=
  let u := fun vv => tab D (runit_max FO D tiny (fnth vv)) in
  let f := fun vv => vmf_log_pdf FO D (fnth mean) kappa lognorm (runit_max FO D tiny (fnth vv)) in
  allR [cmpS (u v) impl_v; cmpS (u cv) impl_cv; cmpS (u cv) (u v); cmpS [f v] [impl]; cmpS [f cv] [implc]].
