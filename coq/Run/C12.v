(* Run/C12.v -- executable comparison of the C12 model (instance FO) with the implementation.
   Eigen-solver outputs (lam, W / U) come from the harness calling the same routine on the same bin;
   the written contract is evaluated here per case.  Eigenvectors are compared through w w^H (phase free). *)
From Coq Require Import ZArith List PrimFloat Bool.
From PB Require Import Ops FloatFun Run.Common Model.Beamformer.
Import ListNotations.

Definition rtol12 : float := 0x1p-30.
Definition ctol12 : float := 0x1p-22.       (* contract residuals of the eigen-solvers (generalised problem, cond <= 1e6) *)
Definition scale12 (l : list float) : float := fold_right (fun a b => fmax (abs a) b) 0%float l.
Definition cmpC12 (tol : float) (model impl : list (float * float)) : bool * float :=
  let a := cflat model in let b := cflat impl in cmpF tol (tol * scale12 b)%float a b.
Definition fD (D : nat) : float := of_uint63 (Uint63.of_Z (Z.of_nat D)).
Definition mmax12 (l : list (list (float * float))) : float := scale12 (cflat (flat l)).
Definition vmax12 (l : list (float * float)) : float := scale12 (cflat l).
Definition within (bound : float) (lhs rhs : list (float * float)) : bool * float :=
  let a := cflat lhs in let b := cflat rhs in let dev := worst_dev a b in
  (andb (PrimFloat.leb dev bound) (forallb is_finF a), dev).
Definition mm12 (D : nat) (A B : nat -> nat -> float * float) (i j : nat) : float * float :=
  csumO FO D (fun k => cmul FO (A i k) (B k j)).
Definition eye12 (D : nat) : list (float * float) :=
  flat (tab2 D D (fun i j => if Nat.eqb i j then (1, 0)%float else (0, 0)%float)).
Definition outer12 (D : nat) (v : nat -> float * float) : list (float * float) := flat (tab2 D D (bf_outer FO v)).

(* A W = B W diag(lam) and W V = I *)
Definition eig_contract (D : nat) (Px Pn W V : list (list (float * float))) (lam : nat -> float) : bool * float :=
  let lmax := scale12 (tab D lam) in
  let bound := (ctol12 * fD D * (mmax12 Px + lmax * mmax12 Pn) * mmax12 W)%float in
  andR (within bound (flat (tab2 D D (mm12 D (cnth2 Px) (cnth2 W))))
                     (flat (tab2 D D (fun i j => cscale FO (lam j) (mm12 D (cnth2 Pn) (cnth2 W) i j)))))
       (within (ctol12 * fD D)%float (flat (tab2 D D (mm12 D (cnth2 W) (cnth2 V)))) (eye12 D)).

Definition check_gev (D : nat) (Px Pn W V : list (list (float * float))) (lam : list float)
    (w : list (float * float)) : bool * float :=
  andR (eig_contract D Px Pn W V (fnth lam))
       (cmpC12 rtol12 (outer12 D (gev_vec FO D (cnth2 W) (fnth lam))) (outer12 D (cnth w))).
(* scipy.linalg.eig: complex eigenvalues, imaginary parts must be rounding noise *)
Definition check_gev_eig (D : nat) (Px Pn W V : list (list (float * float))) (lam : list (float * float))
    (w : list (float * float)) : bool * float :=
  let re := fun i => fst (cnth lam i) in
  let lmax := scale12 (tab D re) in
  allR [ eig_contract D Px Pn W V re;
         okR (forallb (fun z => PrimFloat.leb (abs (snd z)) (ctol12 * fmax lmax 0x1p-1000)%float) lam);
         cmpC12 rtol12 (outer12 D (gev_vec_eig FO D (cnth2 W) (cnth lam))) (outer12 D (cnth w)) ].

(* np.linalg.eigh contract: Phi U = U diag lam, U^H U = I, U U^H = I, ascending *)
Fixpoint ascending (l : list float) : bool :=
  match l with a :: ((b :: _) as r) => andb (PrimFloat.leb a b) (ascending r) | _ => true end.
Definition conjT (A : nat -> nat -> float * float) (i j : nat) := cconj FO (A j i).
Definition eigh_contract (D : nat) (Phi U : list (list (float * float))) (lam : list float) : bool * float :=
  let lmax := scale12 lam in
  allR [ within (ctol12 * fD D * fmax (mmax12 Phi) lmax)%float
                (flat (tab2 D D (mm12 D (cnth2 Phi) (cnth2 U))))
                (flat (tab2 D D (fun i j => cscale FO (fnth lam j) (cnth2 U i j))));
         within (ctol12 * fD D)%float (flat (tab2 D D (mm12 D (conjT (cnth2 U)) (cnth2 U)))) (eye12 D);
         within (ctol12 * fD D)%float (flat (tab2 D D (mm12 D (cnth2 U) (conjT (cnth2 U))))) (eye12 D);
         okR (ascending lam) ].
Definition check_pca (D : nat) (sc : scaling) (Phi U : list (list (float * float))) (lam : list float)
    (w : list (float * float)) : bool * float :=
  andR (eigh_contract D Phi U lam)
       (cmpC12 rtol12 (outer12 D (pca_scaled FO D sc (cnth2 Phi) (cnth2 U) (fnth lam))) (outer12 D (cnth w))).

(* rank-one estimates: a is the ATF vector the implementation built the estimate from *)
Definition check_rank1 (D : nat) (cov : list (list (float * float))) (a : list (float * float))
    (R : list (list (float * float))) : bool * float :=
  cmpC12 rtol12 (flat (tab2 D D (rank1_est FO D (cnth2 cov) (cnth a)))) (flat R).
Definition check_gev_atf (D : nat) (Pn : list (list (float * float))) (w a : list (float * float)) : bool * float :=
  cmpC12 rtol12 (tab D (gev_atf FO D (cnth2 Pn) (cnth w))) a.

Definition check_ban (D : nat) (Pn : list (list (float * float))) (w out : list (float * float)) : bool * float :=
  cmpC12 rtol12 (tab D (ban FO D (cnth2 Pn) (cnth w))) out.
