(* Run/C16.v -- alignment plan (exact, on Z), DHTV loop and greedy chain (exact mapping on tie-free
   masks, binary64 instance) against the implementation. *)
From Coq Require Import ZArith List PrimFloat Bool.
From PB Require Import Ops FloatFun Run.Common Model.PermAlign Run.C14.
Import ListNotations.

Definition plan_rows (stft start width shift main sub : Z) : list (list Z) :=
  map (fun g : seg => let '(n, s, e) := g in [n; s; e]) (plan (stft_bins stft) start width shift main sub).
Definition eq_zmat (a b : list (list Z)) : bool :=
  if list_eq_dec (list_eq_dec Z.eq_dec) a b then true else false.
Definition check_plan (stft start width shift main sub : Z) (impl : list (list Z)) : bool * float :=
  okR (eq_zmat (plan_rows stft start width shift main sub) impl).
(* many configurations in one expression: each item = ([stft; start; width; shift; main; sub], plan) *)
Definition check_plans (items : list (list Z * list (list Z))) : bool * float :=
  okR (forallb (fun it => match fst it with
                          | [a; b; c; d; e; f] => eq_zmat (plan_rows a b c d e f) (snd it)
                          | _ => false end) items).
(* every bin 0..F-1 is inside some segment of the model's plan *)
Definition plan_covers_b (stft start width shift : Z) : bool :=
  let F := stft_bins stft in let pl := plan F start width shift 1 1 in
  forallb (fun i => existsb (fun g : seg => let '(_, s, e) := g in
                      (s <=? Z.of_nat i)%Z && (Z.of_nat i <? e)%Z) pl) (seq 0 (Z.to_nat F)).

Definition check_dhtv (m : nat) (g : bool) (K Tn : nat) (stft start width shift main sub : Z)
    (mask : list (list (list float))) (impl : list (list nat)) : bool * float :=
  let pl := map seg_nat (plan (stft_bins stft) start width shift main sub) in
  okR (eq_natmat (dhtv FO tinyF (metric_of m) g K Tn pl mask) impl).

Definition check_greedy_chain (m : nat) (K Tn : nat) (mask : list (list (list float)))
    (impl : list (list nat)) : bool * float :=
  okR (eq_natmat (greedy_chain FO tinyF (metric_of m) K Tn mask) impl).

(* inline EM alignment with the two blind aligners *)
Definition check_inline_dhtv (m : nat) (g : bool) (K Tn : nat) (stft start width shift main sub : Z)
    (aff quad impl_aff impl_quad : list (list (list float))) : bool * float :=
  let pl := map seg_nat (plan (stft_bins stft) start width shift main sub) in
  check_inline (dhtv FO tinyF (metric_of m) g K Tn pl) aff quad impl_aff impl_quad.
Definition check_inline_chain (m : nat) (K Tn : nat)
    (aff quad impl_aff impl_quad : list (list (list float))) : bool * float :=
  check_inline (greedy_chain FO tinyF (metric_of m) K Tn) aff quad impl_aff impl_quad.

(* exhaustive plan comparison by hash: all (width, start, shift) with 1 <= width <= F,
   0 <= start <= F - width, 1 <= shift <= width, in this order; impl = the hashes of the
   implementation's plans in the same order.  h = (h * 1000003 + x + 1) mod (2^61 - 1) over n, s, e. *)
Definition zrange (a n : Z) : list Z := map (fun i => (a + Z.of_nat i)%Z) (seq 0 (Z.to_nat n)).
Definition plan_hash (pl : list seg) : Z :=
  fold_left (fun h (g : seg) => let '(n, s, e) := g in
     let st := fun h x => ((h * 1000003 + x + 1) mod 2305843009213693951)%Z in st (st (st h n) s) e) pl 0%Z.
Definition plan_configs (F : Z) : list (Z * Z * Z) :=
  flat_map (fun w => flat_map (fun st => map (fun sh => (st, w, sh)) (zrange 1 w)) (zrange 0 (F - w + 1))) (zrange 1 F).
Definition check_plan_hashes (stft main sub : Z) (impl : list Z) : bool * float :=
  let F := stft_bins stft in
  okR (eq_zlist (map (fun c => let '(st, w, sh) := c in plan_hash (plan F st w sh main sub)) (plan_configs F)) impl).
(* coverage of the model's plan for every configuration of one stft size (the theorem, re-run) *)
Definition check_plan_cover_all (stft : Z) : bool * float :=
  let F := stft_bins stft in
  okR (forallb (fun c => let '(st, w, sh) := c in plan_covers_b stft st w sh) (plan_configs F)).
