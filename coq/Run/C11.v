(* Run/C11.v -- executable comparison of the C11 model (instance FO) with the implementation.
   Solve results (x, phi, X, t) are passed in from the harness; their contract residual is
   evaluated here, per case, before the model's composition is compared with the output. *)
From Coq Require Import ZArith List PrimFloat Bool.
From PB Require Import Ops FloatFun Run.Common Model.Beamformer.
Import ListNotations.

Definition rtol11 : float := 0x1p-30.
Definition scale11 (l : list float) : float := fold_right (fun a b => fmax (abs a) b) 0%float l.
Definition cmpC11 (model impl : list (float * float)) : bool * float :=
  let a := cflat model in let b := cflat impl in cmpF rtol11 (rtol11 * scale11 b)%float a b.
Definition cmpCtol (tol : float) (model impl : list (float * float)) : bool * float :=
  let a := cflat model in let b := cflat impl in cmpF tol (tol * scale11 b)%float a b.

(* contract residual: max |lhs - rhs| <= rtol * D * max|A| * max|x| + rtol * max|rhs| *)
Definition residual_ok (D : nat) (amax xmax : float) (lhs rhs : list (float * float)) : bool * float :=
  let a := cflat lhs in let b := cflat rhs in
  let bound := (rtol11 * (of_uint63 (Uint63.of_Z (Z.of_nat D)) * amax * xmax + scale11 b))%float in
  let dev := worst_dev a b in
  (andb (PrimFloat.leb dev bound) (forallb is_finF a), dev).

Definition cmat_of (l : list (list (float * float))) := cnth2 l.
Definition cvec_of (l : list (float * float)) := cnth l.
Definition mmax (l : list (list (float * float))) : float := scale11 (cflat (flat l)).
Definition vmax (l : list (float * float)) : float := scale11 (cflat l).

(* get_mvdr_vector, one bin: x = solve(0.5 (Pn + Pn^H), a) *)
Definition check_mvdr (D : nat) (Pn : list (list (float * float))) (a x w : list (float * float)) : bool * float :=
  let A := herm_sym FO (cmat_of Pn) in
  andR (residual_ok D (mmax Pn) (vmax x) (tab D (bf_mv FO D A (cvec_of x))) a)
       (cmpC11 (tab D (mvdr FO D (cvec_of a) (cvec_of x))) w).

(* get_lcmv_vector, one bin: X k = solve(Pn, a_k), t = solve(gram, r) *)
Definition check_lcmv (D K : nat) (Pn a X : list (list (float * float))) (t r w : list (float * float)) : bool * float :=
  let Xf := cmat_of X in let af := cmat_of a in
  allR [ allR (tab K (fun k => residual_ok D (mmax Pn) (mmax X) (tab D (bf_mv FO D (cmat_of Pn) (Xf k))) (nth k a [])));
         residual_ok K (mmax a * mmax X * of_uint63 (Uint63.of_Z (Z.of_nat D)))%float (vmax t)
            (tab K (fun k => csumO FO K (fun l => cmul FO (lcmv_gram FO D af Xf k l) (cvec_of t l)))) r;
         cmpCtol 0x1p-20 (tab D (lcmv FO K Xf (cvec_of t))) w ].

(* stable_solve contract Pn phi = Px *)
Definition check_phi (D : nat) (Pn Px phi : list (list (float * float))) : bool * float :=
  residual_ok D (mmax Pn) (mmax phi)
    (flat (tab2 D D (fun i j => csumO FO D (fun k => cmul FO (cmat_of Pn i k) (cmat_of phi k j))))) (flat Px).

Definition check_souden (D : nat) (Pn Px phi : list (list (float * float))) (eps : float) (r : nat)
    (w : list (float * float)) : bool * float :=
  andR (check_phi D Pn Px phi) (cmpC11 (tab D (souden FO D (cmat_of phi) eps r)) w).

Definition check_wmwf (D : nat) (Pn Px phi : list (list (float * float))) (mu : float) (r : nat)
    (w : list (float * float)) : bool * float :=
  andR (check_phi D Pn Px phi) (cmpC11 (tab D (wmwf FO D (cmat_of phi) mu r)) w).

(* reference channel: the implementation's choice must attain the model's maximal criterion value
   (exact arg-max identity when the maximum is isolated; a tie within rounding may resolve either way) *)
Definition check_ref (D Fn : nat) (Wm Px Pn : list (list (list (float * float)))) (eps : float) (r_impl : nat)
    : bool * float :=
  let snr := tab D (ref_snr FO D Fn (cnth3 Wm) (cnth3 Px) (cnth3 Pn) eps) in
  let r_model := ref_channel FO D Fn (cnth3 Wm) (cnth3 Px) (cnth3 Pn) eps in
  let best := fnth snr r_model in let got := fnth snr r_impl in
  let dev := abs (best - got) in
  (andb (Nat.ltb r_impl D)
        (orb (Nat.eqb r_model r_impl) (PrimFloat.leb dev (0x1p-26 * fmax (abs best) (abs got))%float)), dev).
(* souden / wmwf weight stack the criterion is evaluated on *)
Definition souden_mat (D : nat) (phi : list (list (list (float * float)))) (eps : float) (f d r : nat) :=
  souden FO D (cnth2 (nth f phi [])) eps r d.
Definition wmwf_mat (D : nat) (phi : list (list (list (float * float)))) (mu : float) (f d r : nat) :=
  wmwf FO D (cnth2 (nth f phi [])) mu r d.
Definition mat3_of (D Fn : nat) (g : nat -> nat -> nat -> float * float) : list (list (list (float * float))) :=
  tab Fn (fun f => tab2 D D (g f)).
Definition check_ref_souden (D Fn : nat) (phi Px Pn : list (list (list (float * float)))) (eps : float) (r_impl : nat) :=
  check_ref D Fn (mat3_of D Fn (souden_mat D phi eps)) Px Pn eps r_impl.
Definition check_ref_wmwf (D Fn : nat) (phi Px Pn : list (list (list (float * float)))) (mu tiny : float) (r_impl : nat) :=
  check_ref D Fn (mat3_of D Fn (wmwf_mat D phi mu)) Px Pn tiny r_impl.
