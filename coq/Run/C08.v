(* Run/C08.v -- executable comparison of Model/Trainers.v (instance FO) with the implementation's trainers.
   Oracle outputs (eigenvectors / eigenvalues, Watson mode) come from the implementation and their contract
   (A u = e u, U^H U = I) is evaluated here on the model-side matrix A. *)
From Coq Require Import ZArith List PrimFloat Bool.
From PB Require Import Ops FloatFun Run.Common Model.Trainers Model.Posterior.
Import ListNotations.
Local Open Scope float_scope.

Definition rt : float := 0x1p-30.
Definition scaleF (l : list float) : float := fold_right (fun a b => fmax (abs a) b) 0 l.
Definition cmpS (model impl : list float) : bool * float :=      (* scale-aware comparison *)
  cmpF rt (rt * scaleF impl) model impl.

(* ---- Gaussian: ctype 0 = full, 1 = diagonal, 2 = spherical ---- *)
Definition check_gauss_fit (D N : nat) (tiny : float) (y : list (list float)) (s : list float) (ctype : nat)
    (impl_mean impl_cov : list float) : bool * float :=
  let yy := fnth2 y in let ss := fnth s in
  let mean := tab D (g_mean FO N tiny yy ss) in
  let cov := match ctype with
             | 0%nat => flat (tab2 D D (g_cov_full FO N tiny yy ss))
             | 1%nat => tab D (g_cov_diag FO N tiny yy ss)
             | _ => [g_cov_sph FO D N tiny yy ss] end in
  andR (cmpS mean impl_mean) (cmpS cov impl_cov).

Definition check_ccsg_fit (D N : nat) (tiny : float) (z : list (list (float * float))) (s : list float)
    (impl_cov : list (float * float)) : bool * float :=
  cmpS (cflat (flat (tab2 D D (ccsg_cov FO N tiny (cnth2 z) (fnth s))))) (cflat impl_cov).

(* ---- vMF: y raw; the public fit normalises with max(norm, tiny) first ---- *)
Definition check_vmf_fit (D N : nat) (tiny kmin kmax : float) (y : list (list float)) (s : list float)
    (impl_mean : list float) (impl_kappa : float) : bool * float :=
  let yn := fun n => runit_max FO D tiny (fnth2 y n) in
  let yl := tab2 N D yn in
  let yy := fnth2 yl in
  andR (cmpS (tab D (vmf_mean FO D N tiny yy (fnth s))) impl_mean)
       (cmpF 0x1p-24 0 (vmf_kappa FO D N kmin kmax yy (fnth s) :: nil) (impl_kappa :: nil)).

(* ---- helpers for eigen contracts on a model-side Hermitian matrix A (list of rows) ---- *)
Definition mvF (D : nat) (A : nat -> nat -> float * float) (u : nat -> float * float) (i : nat) : float * float :=
  csumO FO D (fun j => cmul FO (A i j) (u j)).
Definition dotF (D : nat) (u v : nat -> float * float) : float * float :=
  csumO FO D (fun i => cmul FO (cconj FO (u i)) (v i)).
(* Rayleigh quotient and residual max_i |(A u - e u)_i| for a unit vector u *)
Definition rayleigh (D : nat) (A : nat -> nat -> float * float) (u : nat -> float * float) : float :=
  fst (dotF D u (mvF D A u)).
Definition eig_residual (D : nat) (A : nat -> nat -> float * float) (u : nat -> float * float) : float :=
  let e := rayleigh D A u in
  fold_right fmax 0 (tab D (fun i => sqrt (cabs2 FO (csub FO (mvF D A u i) (cscale FO e (u i)))))).
Definition unit_residual (D : nat) (u v : nat -> float * float) (same : bool) : float :=
  let d := dotF D u v in
  sqrt (cabs2 FO (csub FO d (if same then (1, 0) else (0, 0)))).
Definition matscale (D : nat) (A : nat -> nat -> float * float) : float :=
  fold_right fmax 0 (map (fun z => sqrt (cabs2 FO z)) (flat (tab2 D D A))).

(* ---- complex Watson: scatter of normalised observations; mode = top eigenvector of the oracle ---- *)
Definition check_watson_fit (D N : nat) (tiny : float) (z : list (list (float * float))) (s : list float)
    (mode : list (float * float)) (top_eig : float) : bool * float :=
  let zn := tab2 N D (fun n => cunit_max FO D tiny (cnth2 z n)) in
  let Al := tab2 D D (watson_cov FO N (cnth2 zn) (fnth s)) in
  let A := cnth2 Al in let u := cnth mode in
  let sc := matscale D A in
  let res := eig_residual D A u in
  let e := rayleigh D A u in
  (andb (andb (PrimFloat.leb res (0x1p-24 * sc + 0x1p-1000)) (PrimFloat.leb (unit_residual D u u true) 0x1p-30))
        (closeF 0x1p-24 (0x1p-30 * sc) e top_eig), res).

(* ---- cACG step: norm 0 = 'eigenvalue', 1 = 'trace', 2 = False ---- *)
Definition check_cacg_step (D' N : nat) (tiny floor : float) (herm : bool) (norm : nat)
    (z : list (list (float * float))) (s q : list float)
    (U : list (list (float * float))) (lam : list float) : bool * float :=
  let D := S D' in
  let A0 := cacg_cov FO D N tiny herm (cnth2 z) (fnth s) (fnth q) in
  let A0l := tab2 D D A0 in
  let A1 := match norm with 1%nat => trace_normalise FO D tiny (cnth2 A0l) | _ => cnth2 A0l end in
  let Al := tab2 D D A1 in let A := cnth2 Al in
  let col := fun e => (fun d => cnth2 U d e) in
  let sc := matscale D A in
  let evl := tab D (fun e => rayleigh D A (col e)) in
  let ev := fnth evl in
  let res := fold_right fmax 0 (tab D (fun e => eig_residual D A (col e))) in
  let uni := fold_right fmax 0 (flat (tab2 D D (fun e f => unit_residual D (col e) (col f) (Nat.eqb e f)))) in
  let post := match norm with
              | 0%nat => tab D (eig_post_eigenvalue FO tiny D' floor ev)
              | _ => tab D (eig_post_other FO tiny D' floor ev) end in
  let okpost := all_closeF 0x1p-20 (0x1p-30 * scaleF lam + 0x1p-1000) post lam in
  (andb (andb (PrimFloat.leb res (0x1p-22 * sc + 0x1p-1000)) (PrimFloat.leb uni 0x1p-26)) okpost,
   fmax res (worst_dev post lam)).

(* ---- cACG quadratic form and log-density for given (U, lambda), observation already normalised ---- *)
Definition check_cacg_logpdf (D : nat) (tiny : float) (U : list (list (float * float))) (lam : list float)
    (zs : list (list (float * float))) (impl_q impl_lp : list float) : bool * float :=
  let qs := map (fun z => cacg_quad FO D tiny (cnth2 U) (fnth lam) (cnth z)) zs in
  let lps := map (fun z => cacg_log_pdf FO D tiny (cnth2 U) (fnth lam) (cnth z)) zs in
  andR (cmpF 0x1p-20 0x1p-1000 qs impl_q) (cmpF 0x1p-20 0x1p-30 lps impl_lp).

(* ---- normalisation used on entry (style 0 = 'where' (cACG), 1 = max) ---- *)
Definition check_unit_norm (D : nat) (tiny : float) (style : nat) (z impl : list (float * float)) : bool * float :=
  let zz := cnth z in
  let m := match style with 0%nat => tab D (cunit_where FO D tiny zz) | _ => tab D (cunit_max FO D tiny zz) end in
  cmpF rt 0x1p-1000 (cflat m) (cflat impl).

(* ---- the whole GMM fit (diagonal covariances) executed by the model: Model/GMMLoop.v ---- *)
From PB Require Import Model.GMMLoop.
Definition check_gmm_fit (K' D N n : nat) (tiny tinyw : float) (y g0 : list (list float))
    (impl_w : list float) (impl_mean impl_var impl_post : list (list float)) : bool * float :=
  let pi2 := (2 * 0x1.921fb54442d18p+1)%float in
  let m := gmm_fit FO K' D N tiny tinyw pi2 (fnth2 y) n g0 in
  let post := gmm_predict FO K' D N tiny pi2 (fnth2 y) m in
  let tol := 0x1p-20 in
  allR [cmpF tol (tol * 0x1p-10) (gw m) impl_w;
        cmpF tol (tol * scaleF (flat impl_mean)) (flat (gmean m)) (flat impl_mean);
        cmpF tol (tol * scaleF (flat impl_var)) (flat (gvar m)) (flat impl_var);
        cmpF tol (tol * 0x1p-6) (flat post) (flat impl_post)].
(* the same for covariance_type='spherical'; impl_var: the class variance repeated D times *)
Definition check_gmm_fit_sph (K' D N n : nat) (tiny tinyw : float) (y g0 : list (list float))
    (impl_w : list float) (impl_mean impl_var impl_post : list (list float)) : bool * float :=
  let pi2 := (2 * 0x1.921fb54442d18p+1)%float in
  let m := gmm_fit_sph FO K' D N tiny tinyw pi2 (fnth2 y) n g0 in
  let post := gmm_predict FO K' D N tiny pi2 (fnth2 y) m in
  let tol := 0x1p-20 in
  allR [cmpF tol (tol * 0x1p-10) (gw m) impl_w;
        cmpF tol (tol * scaleF (flat impl_mean)) (flat (gmean m)) (flat impl_mean);
        cmpF tol (tol * scaleF (flat impl_var)) (flat (gvar m)) (flat impl_var);
        cmpF tol (tol * 0x1p-6) (flat post) (flat impl_post)].
