(* Run/Common.v -- result type printed by the generated case files and small list helpers.
   Everything under Run/ is executable glue for the correspondence check; no theorem of
   Properties/ depends on it. *)
From Coq Require Import ZArith List PrimFloat Bool.
From PB Require Import Ops FloatFun.
Import ListNotations.

Inductive verdict := V (id : Z) (ok : bool) (dev : float) (tag : Z).
Arguments V id%Z ok dev%float tag%Z.
Definition mkV (id : Z) (r : bool * float) : verdict := V id (fst r) (snd r) 0.

(* list <-> index-function conversions at the transport boundary *)
Definition fnth (l : list float) (i : nat) : float := nth i l 0%float.
Definition fnth2 (l : list (list float)) (i j : nat) : float := nth j (nth i l []) 0%float.
Definition fnth3 (l : list (list (list float))) (i j k : nat) : float := nth k (nth j (nth i l []) []) 0%float.
Definition cnth (l : list (float * float)) (i : nat) : float * float := nth i l (0%float, 0%float).
Definition cnth2 (l : list (list (float * float))) (i j : nat) : float * float :=
  nth j (nth i l []) (0%float, 0%float).
Definition cnth3 (l : list (list (list (float * float)))) (i j k : nat) : float * float :=
  nth k (nth j (nth i l []) []) (0%float, 0%float).
Definition bnth (l : list bool) (i : nat) : bool := nth i l false.
Definition bnth2 (l : list (list bool)) (i j : nat) : bool := nth j (nth i l []) false.
Definition nnth (l : list nat) (i : nat) : nat := nth i l 0%nat.
Definition nnth2 (l : list (list nat)) (i j : nat) : nat := nth j (nth i l []) 0%nat.

Definition tab {A} (n : nat) (f : nat -> A) : list A := map f (seq 0 n).
Definition tab2 {A} (n m : nat) (f : nat -> nat -> A) : list (list A) := tab n (fun i => tab m (f i)).
Definition flat {A} (l : list (list A)) : list A := concat l.
Definition cflat (l : list (float * float)) : list float := flat_map (fun z => [fst z; snd z]) l.

(* compare two float lists, report (all close, worst absolute deviation) *)
Definition cmpF (rtol atol : float) (model impl : list float) : bool * float :=
  (all_closeF rtol atol model impl, worst_dev model impl).
Definition andR (a b : bool * float) : bool * float := (andb (fst a) (fst b), fmax (snd a) (snd b)).
Definition okR (b : bool) : bool * float := (b, 0%float).
Fixpoint allR (l : list (bool * float)) : bool * float :=
  match l with [] => (true, 0%float) | a :: r => andR a (allR r) end.

Definition eq_natlist (a b : list nat) : bool := if list_eq_dec Nat.eq_dec a b then true else false.
Definition eq_natmat (a b : list (list nat)) : bool :=
  if list_eq_dec (list_eq_dec Nat.eq_dec) a b then true else false.
Definition eq_zlist (a b : list Z) : bool := if list_eq_dec Z.eq_dec a b then true else false.
