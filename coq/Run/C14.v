(* Run/C14.v -- executable comparison of Model/PermAlign.v with the implementation: assignment from a
   score matrix (exact, on Z for integer grids and on binary64 for float matrices), apply_mapping,
   inline alignment, the integration-model permutation search.  Shared transport helpers for
   Run/C15.v and Run/C16.v. *)
From Coq Require Import ZArith List PrimFloat Bool.
From PB Require Import Ops FloatFun Run.Common Model.PermAlign.
Import ListNotations.

Definition tinyF : float := 0x1p-1022.        (* np.finfo(np.float64).tiny *)
Definition metric_of (n : nat) : metric := match n with 0 => Cos | 1 => Euclid | _ => Multiply end.

(* ---- integer grids: matrix number n over {0..base-1}, entry (i,j) = digit i*K+j of n ---- *)
Definition grid_entry (base : Z) (K : nat) (n : Z) (i j : nat) : Z :=
  ((n / base ^ Z.of_nat (i * K + j)) mod base)%Z.
Definition assignZ (g : bool) (K : nat) (Sc : nat -> nat -> Z) : list nat :=
  if g then greedy_assign Z.ltb K Sc else optimal_assign Z.ltb K Sc Z.add 0%Z.
(* a mapping as one number: sum_k p[k] * K^k *)
Definition perm_code (K : nat) (p : list nat) : Z :=
  fold_right (fun d acc => (Z.of_nat d + Z.of_nat K * acc)%Z) 0%Z p.
(* impl: the code of the implementation's mapping for matrix start, start+stride, ... *)
Definition check_assign_grid (g : bool) (K : nat) (base start stride : Z) (impl : list Z) : bool * float :=
  okR (eq_zlist (map (fun i => perm_code K (assignZ g K (grid_entry base K (start + stride * Z.of_nat i)%Z)))
                     (seq 0 (length impl))) impl).

(* ---- one integer matrix in the code's integer path (rows / columns overwritten with bottom) ---- *)
Definition znth2 (M : list (list Z)) (i j : nat) : Z := nth j (nth i M []) 0%Z.
Definition check_assign_int (K : nat) (M : list (list Z)) (bottom : Z) (impl : list nat) : bool * float :=
  okR (eq_natlist (greedy_assign_int K (znth2 M) bottom) impl).

(* ---- one binary64 matrix ---- *)
Definition check_assign_float (g : bool) (K : nat) (M : list (list float)) (impl : list nat) : bool * float :=
  okR (eq_natlist (assign FO g K M) impl).

(* ---- apply_mapping: mask (K,F,T) as nested lists, mapping (K,F), result (K,F,T); exact ---- *)
Definition check_apply_mapping (K F : nat) (mask : list (list (list float))) (mapping : list (list nat))
    (impl : list (list (list float))) : bool * float :=
  let model := tab2 K F (apply_mapping (fun k f => nth f (nth k mask []) []) (nnth2 mapping)) in
  cmpF 0 0 (flat (flat model)) (flat (flat impl)).

(* ---- frequency-major bins: exact equality ---- *)
Definition eq_bins (a b : list (list (list float))) : bool * float :=
  andR (okR (eq_natlist (map (@length _) a) (map (@length _) b)))
       (andR (okR (eq_natlist (map (@length _) (flat a)) (map (@length _) (flat b))))
             (cmpF 0 0 (flat (flat a)) (flat (flat b)))).

(* apply_inline_permutation_alignment with a given calculate_mapping model *)
Definition check_inline (calc : list (list (list float)) -> list (list nat))
    (aff quad impl_aff impl_quad : list (list (list float))) : bool * float :=
  let r := inline_align calc aff quad in
  andR (eq_bins (fst r) impl_aff) (eq_bins (snd r) impl_quad).

(* the permutation search of the integration models for one frequency; impl = the permutation that
   reproduces the implementation's affiliation (recovered by the harness) *)
Definition check_ipa (K Tn : nat) (spatial spectral : list (list float)) (impl : list nat) : bool * float :=
  okR (eq_natlist (ipa_select FO tinyF K Tn (fnth2 spatial) (fnth2 spectral)) impl).
