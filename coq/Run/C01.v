(* Run/C01.v -- executable comparison of Model/Posterior.v (instance FO) with the implementation. *)
From Coq Require Import ZArith List PrimFloat Bool.
From PB Require Import Ops FloatFun Run.Common Model.Posterior.
Import ListNotations.

(* one observation column: K = S K' classes; eps = 0 means no clipping (affiliation_eps != 0 test) *)
Definition check_posterior (rtol : float) (K' : nat) (tiny eps : float) (w l : list float) (b : list bool)
    (impl : list float) : bool * float :=
  let post := if PrimFloat.eqb eps 0 then posterior FO K' tiny (fnth w) (fnth l) (bnth b)
              else posterior_clipped FO K' tiny eps (fnth w) (fnth l) (bnth b) in
  cmpF rtol (rtol * 0x1p-10)%float (tab (S K') post) impl.

(* several columns of one case: lists of (w, l, b, impl) *)
Definition check_posterior_cols (rtol : float) (K' : nat) (tiny eps : float)
    (cols : list (list float * list float * list bool * list float)) : bool * float :=
  allR (map (fun c => match c with (w, l, b, impl) => check_posterior rtol K' tiny eps w l b impl end) cols).

Definition check_weight_mean (rtol : float) (K' G : nat) (a : list (list float)) (impl : list float) : bool * float :=
  cmpF rtol (rtol * 0x1p-10)%float (tab (S K') (weight_mean FO G (fnth2 a))) impl.
Definition check_weight_sal (rtol : float) (K' G : nat) (a : list (list float)) (s : list float) (eps : float)
    (impl : list float) : bool * float :=
  cmpF rtol (rtol * 0x1p-10)%float (tab (S K') (weight_sal FO K' G (fnth2 a) (fnth s) eps)) impl.

Definition check_flag (rtol : float) (K : nat) (m : float) (lab : nat) (impl : list float) : bool * float :=
  cmpF rtol (rtol * 0x1p-10)%float (tab K (flag_column FO K m lab)) impl.
Definition check_iid (rtol : float) (K : nat) (u impl : list float) : bool * float :=
  cmpF rtol (rtol * 0x1p-10)%float (tab K (iid_norm FO K (fnth u))) impl.
