(* Run/C09.v -- executable comparison (instance FO) of the domain-deciding post-processing of every trainer with the
   fitted fields of the implementation, plus the evaluated oracle contracts (eigh: A u = r u, U^H U = I;
   least_squares: result inside its bounds). *)
From Coq Require Import ZArith List PrimFloat Bool.
From PB Require Import Ops FloatFun Run.Common Model.Posterior Model.Trainers Model.Domain.
Import ListNotations.

Definition rt9 : float := 0x1p-30.
Definition scale9 (l : list float) : float := fold_right (fun a b => fmax (abs a) b) 0%float l.
Definition leF (a b : float) : bool := PrimFloat.leb a b.
(* all entries (complex, as re/im) of a list below a bound; NaN fails *)
Definition all_below (bound : float) (l : list float) : bool * float :=
  (forallb (fun a => leF (abs a) bound) l, scale9 l).

(* ---------------- mixture weights ---------------- *)
Definition check_w_mean (K' G : nat) (a : list (list float)) (impl : list float) : bool * float :=
  cmpF rt9 (rt9 * 0x1p-10)%float (tab (S K') (weight_mean FO G (fnth2 a))) impl.
Definition check_w_sal (K' G : nat) (a : list (list float)) (s : list float) (eps : float) (impl : list float) : bool * float :=
  cmpF rt9 (rt9 * 0x1p-10)%float (tab (S K') (weight_sal FO K' G (fnth2 a) (fnth s) eps)) impl.
Definition check_w_int (K' G : nat) (a : list (list float)) (s : list float) (impl : list float) : bool * float :=
  cmpF rt9 (rt9 * 0x1p-10)%float (tab (S K') (weight_int FO K' G (fnth2 a) (fnth s))) impl.
Definition check_w_uniform (K : nat) (impl : list float) : bool * float :=
  cmpF rt9 0%float (map (fun _ => weight_uniform FO K) impl) impl.
(* shape of the stored weight array: keepdims (5 trainers) or squeeze (integration models) *)
Definition check_w_shape (squeeze class_axis_int : bool) (sh axes impl : list nat) : bool * float :=
  okR (eq_natlist (if squeeze then weight_shape_squeeze sh axes else weight_shape_keepdims sh axes class_axis_int) impl).

(* ---------------- cACG ---------------- *)
(* y : N x D raw observation of one leading index; s = affiliation*saliency of one class; q = its quadratic form;
   unit_where: cACGMM normalises with eps_style='where', the integration models with max(norm, tiny);
   norm: 0 'eigenvalue', 1 'trace', 2 False;  U[d][i], lam[i] the stored eigenvectors / eigenvalues *)
Definition cacg_matrix (D N : nat) (tiny : float) (herm unit_where : bool) (norm : nat)
    (y : list (list (float * float))) (s q : list float) : nat -> nat -> float * float :=
  let z := fun n => if unit_where then cunit_where FO D tiny (cnth2 y n) else cunit_max FO D tiny (cnth2 y n) in
  let A := cacg_cov FO D N tiny herm z (fnth s) (fnth q) in
  let Al := tab2 D D A in                      (* evaluate once *)
  let A' := fun d e => cnth2 Al d e in
  match norm with 1%nat => trace_normalise FO D tiny A' | _ => A' end.

Definition check_cacg (D' N : nat) (tiny floor : float) (herm unit_where : bool) (norm : nat)
    (y : list (list (float * float))) (s q : list float)
    (U : list (list (float * float))) (lam : list float) : bool * float :=
  let D := S D' in
  let Al := tab2 D D (cacg_matrix D N tiny herm unit_where norm y s q) in
  let A := fun d e => cnth2 Al d e in
  let Uf := cnth2 U in
  let r := tab D (rayleigh FO D A Uf) in
  let post := match norm with 0%nat => eig_post_eigenvalue FO tiny D' floor (fnth r)
                            | _ => eig_post_other FO tiny D' floor (fnth r) end in
  let sA := scale9 (cflat (flat Al)) in
  let res := cflat (flat (tab2 D D (fun i d => eig_residual FO D A Uf i d))) in
  let gr := cflat (flat (tab2 D D (fun i j => csub FO (gram FO D Uf i j) (if Nat.eqb i j then c1 FO else c0 FO)))) in
  allR [ cmpF rt9 (rt9 * scale9 lam)%float (tab D post) lam;
         all_below (0x1p-26 * sA)%float res;
         all_below 0x1p-30%float gr ].

(* ---------------- von Mises-Fisher ---------------- *)
Definition check_vmf (D N : nat) (tiny kmin kmax : float) (y : list (list float)) (s : list float)
    (mean : list float) (kappa : float) : bool * float :=
  let z := fun n => runit_max FO D tiny (fnth2 y n) in
  let zl := tab2 N D z in let zf := fnth2 zl in
  let m := tab D (vmf_mean FO D N tiny zf (fnth s)) in
  let rb := vmf_rbar FO D N zf (fnth s) in
  let k := vmf_kappa FO D N kmin kmax zf (fnth s) in
  let cond := abs (1 - rb * rb)%float in
  (* Banerjee's ratio has a pole at r_bar = 1: the comparison tolerance follows its condition number; next to the
     pole (collinear frames) only membership in [min, max] is compared *)
  let kap := if leF cond 0x1p-14%float
             then okR (andb (leF kmin kappa) (leF kappa kmax) || andb (is_nanF k) (is_nanF kappa))
             else cmpF (rt9 * (1 + 4 / cond))%float 0%float [k] [kappa] in
  andR (cmpF rt9 rt9 m mean) kap.

(* ---------------- Gaussian ---------------- *)
(* ctype: 0 full (D*D values), 1 diagonal (D), 2 spherical (1) *)
Definition check_gauss (ctype D N : nat) (tiny : float) (y : list (list float)) (s : list float)
    (mean cov : list float) : bool * float :=
  let yf := fnth2 y in
  let m := tab D (g_mean FO N tiny yf (fnth s)) in
  let c := match ctype with
           | 0%nat => flat (tab2 D D (g_cov_full FO N tiny yf (fnth s)))
           | 1%nat => tab D (g_cov_diag FO N tiny yf (fnth s))
           | _ => [g_cov_sph FO D N tiny yf (fnth s)] end in
  let sy := scale9 (flat y) in
  andR (cmpF rt9 (rt9 * sy)%float m mean)
       (cmpF rt9 (rt9 * scale9 cov + 0x1p-44 * sy * sy)%float c cov).

(* ---------------- complex Watson ---------------- *)
Definition check_watson (D' N : nat) (tiny : float) (y : list (list (float * float))) (s : list float)
    (mode : list (float * float)) : bool * float :=
  let D := S D' in
  let z := fun n => cunit_max FO D tiny (cnth2 y n) in
  let Al := tab2 D D (watson_cov FO N z (fnth s)) in
  let A := fun d e => cnth2 Al d e in
  let Uf := fun (d i : nat) => cnth mode d in               (* every column is the mode *)
  let r := rayleigh FO D A Uf 0 in
  let sA := scale9 (cflat (flat Al)) in
  let res := cflat (tab D (fun d => eig_residual FO D A Uf 0 d)) in
  let n2 := fst (gram FO D Uf 0 0) in
  allR [ all_below (0x1p-26 * sA)%float res;
         okR (leF (abs (n2 - 1)) 0x1p-30%float);
         (* principal direction: its Rayleigh quotient dominates every diagonal entry (= quotient of a basis vector) *)
         okR (forallb (fun d => leF (fst (A d d)) (r + 0x1p-30 * sA)%float) (seq 0 D)) ].

(* ---------------- complex Bingham ---------------- *)
(* x: the increments least_squares returned; impl: stored eigenvalues in ascending order *)
Definition check_bingham (finite : bool) (D' : nat) (maxc eps : float) (x impl : list float) : bool * float :=
  let post := tab (S D') (bing_post FO finite D' maxc eps (fnth x)) in
  andR (cmpF 0x1p-40%float (0x1p-40 * scale9 impl)%float post impl)
       (okR (forallb (fun a => andb (leF (- maxc) a) (leF a (-0x1.5798ee2308c3ap-27))) x)).   (* -1e-8 *)

(* ---------------- binary64 behaviour of the vMF concentration at the pole r_bar = 1 (explored, not a theorem of RO) ----
   identical frames give r_bar = 1 exactly or 1 +- ulp depending on rounding:
     r_bar = 1      : numerator/0 = +inf, clipped to max_concentration
     r_bar = 1 - ulp: huge positive, clipped to max_concentration
     r_bar = 1 + ulp: huge NEGATIVE, clipped to MIN_concentration  (inside the domain, but the opposite end) *)
Definition kappa_of_rbar (D : nat) (kmin kmax rb : float) : float :=
  omin FO (omax FO (vmf_kappa_raw FO D rb) kmin) kmax.
Example vmf_pole_exact : PrimFloat.eqb (kappa_of_rbar 3 0x1.b7cdfd9d7bdbbp-34 500 1) 500 = true.
Proof. vm_compute. reflexivity. Qed.
Example vmf_pole_below : PrimFloat.eqb (kappa_of_rbar 3 0x1.b7cdfd9d7bdbbp-34 500 0x1.fffffffffffffp-1) 500 = true.
Proof. vm_compute. reflexivity. Qed.
Example vmf_pole_above : PrimFloat.eqb (kappa_of_rbar 3 0x1.b7cdfd9d7bdbbp-34 500 0x1.0000000000001p+0) 0x1.b7cdfd9d7bdbbp-34 = true.
Proof. vm_compute. reflexivity. Qed.
