(* Run/C06.v -- executable checks for C06.
   (a) index bookkeeping of Model/Shape.v against numpy (ravel_multi_index / unravel_index, broadcast_to element
       addresses, reshape(-1, ...) pipelines, flat ellipsis sums), exact on nat / Z, tolerance on floats;
   (b) "model on slice b" against "stacked implementation read at b": the single-slice M-steps and log-densities of
       Model/Trainers.v (instance FO) fed with the data of ONE leading index, compared with the entries the
       implementation returned for that index when it was called on the whole stack. *)
From Coq Require Import ZArith List PrimFloat Bool.
From PB Require Import Ops FloatFun Run.Common Model.Shape Model.Trainers.
Import ListNotations.

Definition rt : float := 0x1p-30.
Definition scale_of (l : list float) : float := fold_right (fun a b => fmax (abs a) b) 0%float l.
Definition cmpS (rtol : float) (model impl : list float) : bool * float :=
  cmpF rtol (rtol * scale_of impl)%float model impl.

(* ---- (a) bookkeeping *)
Definition check_ravel (sh idx : list nat) (k : nat) : bool * float :=
  okR (andb (in_shapeb sh idx) (andb (Nat.eqb (ravel sh idx) k) (eq_natlist (unravel sh k) idx))).
(* np.broadcast_to(np.arange(prod src).reshape(src), tgt)[idx] == srcflat *)
Definition check_broadcast (src tgt idx : list nat) (srcflat : nat) : bool * float :=
  okR (andb (in_shapeb tgt idx)
      (andb (Nat.eqb (offset (bstrides src) idx) srcflat)
            (Nat.eqb (repeat_buf src tgt (fun k => k) (ravel tgt idx)) srcflat))).
Definition znth (l : list Z) (i : nat) : Z := nth i l 0%Z.
(* np.swapaxes(x.reshape(-1, D, D), -1, -2).reshape(x.shape).ravel() and x.reshape(-1, D, D).sum(-1).reshape(lead ++ [D]) *)
Definition check_batched (total D : nat) (x transposed rowsum : list Z) : bool * float :=
  let tr := [D; D] in
  let t := tab total (batched tr tr (fun u j => u (rev j)) (znth x)) in
  let r := tab (total / D) (batched tr [D] (fun u j => fold_right Z.add 0%Z (tab D (fun e => u (j ++ [e])))) (znth x)) in
  okR (andb (eq_zlist t transposed) (eq_zlist r rowsum)).
(* slice idx of the stack, read through `slice`, equals the block numpy returns for x[idx] *)
Definition check_slice (lead tr idx : list nat) (x block : list Z) : bool * float :=
  okR (eq_zlist (tab (prod tr) (fun p => slice lead tr (znth x) idx (unravel tr p))) block).
(* np.einsum('...ij->...', x).ravel()[k] (any number of trailing axes), flat and nested *)
Definition check_esum (lead tr idx : list nat) (x : list float) (impl : float) : bool * float :=
  let m := prod tr in
  let a := esum_flat FO m (fnth x) (ravel lead idx) in
  let b := tsum FO tr (slice lead tr (fnth x) idx) in
  cmpS rt [a; b] [impl; impl].

(* ---- (b) one slice through the model vs the stacked implementation *)
(* GaussianTrainer / GMM M-step: y : N x D, s : weights, results of the stacked call at this leading index (and class) *)
Definition check_gauss (D N : nat) (tiny : float) (y : list (list float)) (s : list float) (ctype : nat)
    (mean cov : list float) : bool * float :=
  let m := tab D (g_mean FO N tiny (fnth2 y) (fnth s)) in
  let c := match ctype with
           | 0%nat => flat (tab2 D D (g_cov_full FO N tiny (fnth2 y) (fnth s)))
           | 1%nat => tab D (g_cov_diag FO N tiny (fnth2 y) (fnth s))
           | _ => [g_cov_sph FO D N tiny (fnth2 y) (fnth s)]
           end in
  andR (cmpS rt m mean) (cmpS rt c cov).
Definition check_ccsg (D N : nat) (tiny : float) (z : list (list (float * float))) (s : list float)
    (cov : list (float * float)) : bool * float :=
  cmpS rt (cflat (flat (tab2 D D (ccsg_cov FO N tiny (cnth2 z) (fnth s))))) (cflat cov).
(* vMF: the trainer normalises y first *)
Definition check_vmf (D N : nat) (tiny kmin kmax : float) (y : list (list float)) (s : list float)
    (mean : list float) (kappa : float) : bool * float :=
  let yn := fun n d => runit_max FO D tiny (fnth2 y n) d in
  andR (cmpS rt (tab D (vmf_mean FO D N tiny yn (fnth s))) mean)
       (cmpS 0x1p-24 [vmf_kappa FO D N kmin kmax yn (fnth s)] [kappa]).
Definition check_vmf_logpdf (D : nat) (tiny : float) (mean : list float) (kappa lognorm : float)
    (y : list (list float)) (impl : list float) : bool * float :=
  cmpS rt (map (fun yr => vmf_log_pdf FO D (fnth mean) kappa lognorm (runit_max FO D tiny (fnth yr))) y) impl.
Definition check_watson_logpdf (D : nat) (mode : list (float * float)) (kappa lognorm : float)
    (z : list (list (float * float))) (impl : list float) : bool * float :=
  cmpS rt (map (fun zr => watson_log_pdf FO D (cnth mode) kappa lognorm (cnth zr)) z) impl.
(* cACG: log_pdf normalises with eps_style 'where' *)
Definition check_cacg_logpdf (D : nat) (tiny : float) (U : list (list (float * float))) (lam : list float)
    (z : list (list (float * float))) (impl : list float) : bool * float :=
  cmpS 0x1p-24 (map (fun zr => cacg_log_pdf FO D tiny (cnth2 U) (fnth lam) (cunit_where FO D tiny (cnth zr))) z) impl.
(* one cACG step (quadratic form q) up to the eigendecomposition vs U diag(l) U^H of the stacked result (covariance_norm=False) *)
Definition check_cacg_cov (herm : bool) (D N : nat) (tiny : float) (z : list (list (float * float))) (s q : list float)
    (cov : list (float * float)) : bool * float :=
  let zn := fun n d => cunit_where FO D tiny (cnth2 z n) d in
  cmpS 0x1p-20 (cflat (flat (tab2 D D (cacg_cov FO D N tiny herm zn (fnth s) (fnth q))))) (cflat cov).
