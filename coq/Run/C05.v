(* Run/C05.v -- executable comparison (instance FO) for class relabelling: the posterior column and the weight update of
   Model/Posterior.v evaluated on relabelled inputs against (a) the implementation's result on the relabelled problem and
   (b) the relabelled result of the model on the original inputs.  sigma is the list [sigma 0; ...; sigma K']:
   relabelled input k = original input (sigma k)  (init[..., sigma, :] in NumPy). *)
From Coq Require Import ZArith List PrimFloat Bool.
From PB Require Import Ops FloatFun Run.Common Model.Posterior.
Import ListNotations.

Definition permf {A} (sigma : list nat) (f : nat -> A) (k : nat) : A := f (nnth sigma k).

(* one observation column.  w l b: weights, component log-pdfs, mask of the ORIGINAL run (implementation's values);
   impl_perm: the implementation's posterior column of the RELABELLED run *)
Definition check_posterior_perm (rtol : float) (K' : nat) (tiny eps : float) (w l : list float) (b : list bool)
    (sigma : list nat) (impl_perm : list float) : bool * float :=
  let post := fun w l b => if PrimFloat.eqb eps 0 then posterior FO K' tiny w l b else posterior_clipped FO K' tiny eps w l b in
  let p := post (fnth w) (fnth l) (bnth b) in
  let p' := post (permf sigma (fnth w)) (permf sigma (fnth l)) (permf sigma (bnth b)) in
  allR [cmpF rtol (rtol * 0x1p-10)%float (tab (S K') p') impl_perm;
        cmpF rtol (rtol * 0x1p-10)%float (tab (S K') (permf sigma p)) impl_perm].
Definition check_posterior_perm_cols (rtol : float) (K' : nat) (tiny eps : float) (sigma : list nat)
    (cols : list (list float * list float * list bool * list float)) : bool * float :=
  allR (map (fun c => match c with (w, l, b, impl) => check_posterior_perm rtol K' tiny eps w l b sigma impl end) cols).

(* weight update of the first M-step of the relabelled run (one tied group of G cells; saliency s or none) *)
Definition check_weight_perm (rtol : float) (K' G : nat) (a : list (list float)) (s : list float) (use_sal : bool) (weps : float)
    (sigma : list nat) (impl_perm : list float) : bool * float :=
  let wf := fun a => if use_sal then weight_sal FO K' G a (fnth s) weps else weight_mean FO G a in
  allR [cmpF rtol (rtol * 0x1p-10)%float (tab (S K') (wf (permf sigma (fnth2 a)))) impl_perm;
        cmpF rtol (rtol * 0x1p-10)%float (tab (S K') (permf sigma (wf (fnth2 a)))) impl_perm].
