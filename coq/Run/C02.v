(* Run/C02.v -- the log_likelihood method against Model/Loglik.v on PrimFloat. *)
From Coq Require Import ZArith List PrimFloat Bool.
From PB Require Import Ops FloatFun Run.Common Model.Loglik.
Import ListNotations.
(* w, l : N rows of K = S K' entries; impl: the implementation's scalar *)
Definition check_loglik (K' N : nat) (w l : list (list float)) (impl : float) : bool * float :=
  let m := mix_loglik FO K' N (fnth2 w) (fnth2 l) in
  (closeF 0x1p-30 0x1p-30 m impl, abs (m - impl)%float).
