(* Run/C19.v -- executable comparison of the metric models (instance FO) with the implementation.
   Signals arrive as lists; the power tables are computed once from the signals with the model's
   [power] and handed to the table-level model functions (same composition as Model/Metrics.v,
   memoised through a list so that vm_compute does not recompute a power per use). *)
From Coq Require Export String.   (* exported: the generated case files write string literals *)
From Coq Require Import ZArith List PrimFloat Bool.
From PB Require Import Ops FloatFun Run.Common Model.Metrics.
Import ListNotations.

Definition rtol19 : float := 0x1p-30.
(* dB values: |model - impl| <= 2^-30 (1 + max(|model|, |impl|)); inf / nan must match *)
Definition cmp_dB (model impl : list float) : bool * float := cmpF rtol19 rtol19 model impl.

Definition check_si_sdr (Tn : nat) (s e : list float) (impl : float) : bool * float :=
  cmp_dB [si_sdr FO Tn (fnth s) (fnth e)] [impl].

Definition check_get_snr (n : nat) (x nz : list float) (impl : float) : bool * float :=
  cmp_dB [get_snr FO n (fnth x) (fnth nz)] [impl].

(* set_snr: the rescaled noise, entry by entry, relative to its largest entry *)
Definition scale_of (l : list float) : float := fold_right (fun a b => fmax (abs a) b) 0%float l.
Definition check_set_snr (n : nat) (x nz : list float) (snr : float) (impl : list float) : bool * float :=
  let cur := get_snr FO n (fnth x) (fnth nz) in
  let f := snr_factor FO snr cur in
  let model := tab n (fun t => PrimFloat.mul (fnth nz t) f) in
  cmpF rtol19 (rtol19 * scale_of impl)%float model impl.

(* index ranges of the returned arrays: averaged axes collapse to one entry *)
Definition rng (avg : bool) (n : nat) : nat := if avg then 1%nat else n.

(* input_sxr: img[k][d] and noi[d] are sample lists; impl = SDR, SIR, SNR flattened (k-major) *)
Definition check_input_sxr (K D Tn : nat) (img : list (list (list float))) (noi : list (list float))
    (avgc avgs : bool) (impl_sdr impl_sir impl_snr : list float) : bool * float :=
  let St := tab2 K D (fun k d => in_S FO Tn (fnth3 img) k d) in
  let Nt := tab D (fun d => in_N FO Tn (fnth2 noi) d) in
  let Sp := fnth2 St in let Np := fnth Nt in
  let out f := flat (tab2 (rng avgs K) (rng avgc D) f) in
  allR [cmp_dB (out (in_sdr FO K D Sp Np avgc avgs)) impl_sdr;
        cmp_dB (out (in_sir FO K D Sp avgc avgs)) impl_sir;
        cmp_dB (out (in_snr FO K D Sp Np avgc avgs)) impl_snr].

(* output_sxr: img[k_source][k_target], noi[k_target] *)
Definition check_output_sxr (Ks Kt Tn : nat) (img : list (list (list float))) (noi : list (list float))
    (avgs : bool) (impl_sdr impl_sir impl_snr : list float) : bool * float :=
  let St := tab2 Ks Kt (fun k j => out_S FO Tn (fnth3 img) k j) in
  let Nt := tab Kt (fun j => out_N FO Tn (fnth2 noi) j) in
  let Sm := fnth2 St in let Nv := fnth Nt in
  let sel := out_select FO Ks Kt Sm in
  let out f := tab (rng avgs Ks) (avg_src FO Ks avgs (fun k => dB FO (f k))) in
  allR [cmp_dB (out (out_sdr_lin FO Ks Sm Nv sel)) impl_sdr;
        cmp_dB (out (out_sir_lin FO Ks Sm sel)) impl_sir;
        cmp_dB (out (out_snr_lin FO Sm Nv sel)) impl_snr].

(* kind of the returned value: exact *)
Definition rkind_eqb (a b : rkind) : bool :=
  match a, b with
  | KTuple, KTuple => true
  | KTypeError, KTypeError => true
  | KDict a1 a2 a3, KDict b1 b2 b3 => String.eqb a1 b1 && String.eqb a2 b2 && String.eqb a3 b3
  | _, _ => false
  end.
Definition check_return_kind (is_output : bool) (rd : rdarg) (impl : rkind) : bool * float :=
  okR (rkind_eqb ((if is_output then output_return_kind else input_return_kind) rd) impl).
