(* Run/C18.v -- executable comparison of the mask models (instance FO, true division) with the
   implementation.  One time-frequency point (x : sources x sensors) or one threshold group per call. *)
From Coq Require Import ZArith List PrimFloat Bool.
From PB Require Import Ops FloatFun Run.Common Model.Masks.
Import ListNotations.

Definition rtol18 : float := 0x1p-30.
Definition fdiv : float -> float -> float := PrimFloat.div.
Definition scale_of (l : list float) : float := fold_right (fun a b => fmax (abs a) b) 0%float l.
Definition cmp_tol (model impl : list float) : bool * float :=
  cmpF rtol18 (rtol18 * scale_of impl)%float model impl.
(* exact: every entry bit-for-bit equal as a number (levels, one-hot entries) *)
Definition cmp_exact (model impl : list float) : bool * float := cmpF 0%float 0%float model impl.

(* x : K rows of D sensor values *)
Definition check_ibm (K D : nat) (x : list (list (float * float))) (impl : list float) : bool * float :=
  cmp_exact (tab K (ibm FO K D (cnth2 x))) impl.
Definition check_wiener (K D : nat) (x : list (list (float * float))) (eps : float) (impl : list float)
  : bool * float := cmp_tol (tab K (wiener FO fdiv K D (cnth2 x) eps)) impl.
Definition check_irm (K : nat) (s : list (float * float)) (eps : float) (impl : list float) : bool * float :=
  cmp_tol (tab K (irm FO fdiv K (cnth s) eps)) impl.
Definition check_iam (K : nat) (s : list (float * float)) (eps : float) (impl : list float) : bool * float :=
  cmp_tol (tab K (iam FO fdiv K (cnth s) eps)) impl.
(* the cosine of the phase difference is formed exactly by the model and through libm's angle/cos by the implementation
   (cos(pi/2) = 6e-17, not 0); the factor |s|/(|y|+eps) (1e18 at a silent mixture point) amplifies that rounding, so the
   absolute tolerance carries 2^-49 times the largest such factor *)
Definition check_psm (K : nat) (s : list (float * float)) (eps : float) (impl : list float) : bool * float :=
  let mixv := csumO FO K (cnth s) in
  let amp := fold_right fmax 0%float (tab K (fun k => (cabs FO (cnth s k) / (cabs FO mixv + eps))%float)) in
  cmpF rtol18 (rtol18 * scale_of impl + 0x1p-49 * amp)%float (tab K (psm FO fdiv K (cnth s) eps)) impl.
Definition check_icm (K : nat) (s : list (float * float)) (impl : list (float * float)) : bool * float :=
  cmp_tol (cflat (tab K (icm FO fdiv K (cnth s)))) (cflat impl).

(* one group of points sharing a threshold: the complex values in the group, the implementation's levels *)
Definition check_quantile (z : list (float * float)) (quantile weight : float) (impl : list float)
  : bool * float :=
  cmp_exact (quantile_mask FO fdiv (map (cabs FO) z) quantile weight) impl.
(* zs: for every point of the group the list of its sensor values (one value when no sensor axis);
   power = (np.abs(signal)**2).sum(sensor_axis) *)
Definition lorenz_power (zs : list (float * float)) : float :=
  fold_left (fun acc z => let m := cabs FO z in PrimFloat.add acc (PrimFloat.mul m m)) zs 0%float.
Definition check_lorenz (zs : list (list (float * float))) (fraction weight : float) (impl : list float)
  : bool * float :=
  match lorenz_mask FO fdiv (map lorenz_power zs) fraction weight with
  | Some m => cmp_exact m impl
  | None => okR false
  end.
(* the implementation raised on an empty selection: the model must have no threshold either *)
Definition check_lorenz_raises (zs : list (list (float * float))) (fraction : float) : bool * float :=
  match lorenz_threshold FO fdiv (map lorenz_power zs) fraction with None => okR true | Some _ => okR false end.

Definition check_moveaxis (nd : nat) (source destination impl_order : list nat) : bool * float :=
  okR (eq_natlist (moveaxis_order nd source destination) impl_order).
