(* Run/C10.v -- executable comparison of the PSD model (instance FO) with the implementation. *)
From Coq Require Import ZArith List PrimFloat Bool.
From PB Require Import Ops FloatFun Run.Common Model.PSD.
Import ListNotations.

Definition rtol10 : float := 0x1p-30.   (* ~ 9.3e-10 *)

(* scale-aware absolute tolerance: rtol * (largest |entry| of the implementation's matrix) *)
Definition scale_of (l : list float) : float := fold_right (fun a b => fmax (abs a) b) 0%float l.

Definition check_psd_masked (D Tn : nat) (x : list (list (float * float))) (m : list float)
    (floor : float) (normalize : bool) (impl : list (float * float)) : bool * float :=
  let model := flat (tab2 D D (psd_masked FO Tn (cnth2 x) (fnth m) floor normalize)) in
  let a := cflat model in let b := cflat impl in
  cmpF rtol10 (rtol10 * scale_of b)%float a b.

Definition check_psd_nomask (D Tn : nat) (x : list (list (float * float)))
    (impl : list (float * float)) : bool * float :=
  let model := flat (tab2 D D (psd_nomask FO Tn (cnth2 x))) in
  let a := cflat model in let b := cflat impl in
  cmpF rtol10 (rtol10 * scale_of b)%float a b.

Definition check_condition_cov (D : nat) (A : list (list (float * float))) (gamma : float)
    (impl : list (float * float)) : bool * float :=
  let model := flat (tab2 D D (condition_cov FO D (cnth2 A) gamma)) in
  let a := cflat model in let b := cflat impl in
  cmpF rtol10 (rtol10 * scale_of b)%float a b.
