(* Run/C13.v -- executable comparison of the C13 model with the implementation: the name grammar (exact,
   on strings), apply_beamforming_vector and phase_correction (instance FO), and the composition step of
   Souden MVDR / WMWF on bins whose solve result comes from the singular branch of stable_solve. *)
From Coq Require Import ZArith List PrimFloat Bool.
From Coq Require Export String.
From PB Require Import Ops FloatFun Run.Common Model.Beamformer.
Import ListNotations.

Definition rtol13 : float := 0x1p-30.
Definition scale13 (l : list float) : float := fold_right (fun a b => fmax (abs a) b) 0%float l.
Definition cmpC13 (model impl : list (float * float)) : bool * float :=
  let a := cflat model in let b := cflat impl in cmpF rtol13 (rtol13 * scale13 b)%float a b.

(* ---- names: (pre, core, ban) with pre 0/1/2 = none/rank1_pca/rank1_gev,
        core 0..5 = pca, pca+mvdr, scaled_gev_atf+mvdr, mvdr_souden, gev, wmwf; 100+n = ch n ---- *)
Definition pre_code (p : pre_t) : Z := match p with PreNone => 0 | PreRank1Pca => 1 | PreRank1Gev => 2 end.
Definition core_code (c : core_t) : Z :=
  match c with CorePca => 0 | CorePcaMvdr => 1 | CoreGevAtfMvdr => 2 | CoreSouden => 3 | CoreGev => 4 | CoreWmwf => 5
  | CoreCh n => 100 + Z.of_nat n end.
Definition check_bf_name (name : string) (pre core : Z) (ban : bool) : bool * float :=
  okR (match parse_bf name with
       | Some s => andb (andb (Z.eqb (pre_code (sp_pre s)) pre) (Z.eqb (core_code (sp_core s)) core))
                        (Bool.eqb (sp_ban s) ban)
       | None => false end).
(* the implementation raised (ValueError / the 'lcmv' assertion): the model must reject the name too *)
Definition check_bf_reject (name : string) : bool * float :=
  okR (match parse_bf name with None => true | Some _ => false end).
(* a name the implementation accepts although the harness expected a rejection: the model must accept it too *)
Definition check_bf_accept (name : string) : bool * float :=
  okR (match parse_bf name with None => false | Some _ => true end).
(* the table the theorems are about is the table the harness iterates over *)
Definition check_table_size (n : nat) : bool * float := okR (Nat.eqb (List.length bf_name_table) n).
Definition check_table_has (name : string) : bool * float :=
  okR (existsb (fun e => String.eqb (fst e) name) bf_name_table).

(* ---- apply_beamforming_vector, one leading index ---- *)
Definition check_apply (D Tn : nat) (w : list (float * float)) (x : list (list (float * float)))
    (out : list (float * float)) : bool * float :=
  cmpC13 (tab Tn (apply_bf FO D (cnth w) (cnth2 x))) out.

(* ---- phase_correction, one leading index: w and out are (bins, sensors) ---- *)
Definition check_phase (D Fn : nat) (w out : list (list (float * float))) : bool * float :=
  cmpC13 (flat (tab2 Fn D (phase_corr FO D (cnth2 w)))) (flat out).

(* ---- composition step of Souden / WMWF given ANY solve result (no contract: singular branch) ---- *)
Definition check_souden_comp (D : nat) (phi : list (list (float * float))) (eps : float) (r : nat)
    (w : list (float * float)) : bool * float :=
  cmpC13 (tab D (souden FO D (cnth2 phi) eps r)) w.
Definition check_wmwf_comp (D : nat) (phi : list (list (float * float))) (mu : float) (r : nat)
    (w : list (float * float)) : bool * float :=
  cmpC13 (tab D (wmwf FO D (cnth2 phi) mu r)) w.
