(* Run/C15.v -- oracle aligner and the optimal assignment against the implementation (exact). *)
From Coq Require Import ZArith List PrimFloat Bool.
From PB Require Import Ops FloatFun Run.Common Model.PermAlign Run.C14.
Import ListNotations.

(* OraclePermutationAlignment(metric, algorithm).calculate_mapping(mask, reference); bins are
   frequency-major, impl is the mapping transposed to (F, K) *)
Definition check_oracle (m : nat) (g : bool) (K Tn : nat) (mask ref : list (list (list float)))
    (impl : list (list nat)) : bool * float :=
  okR (eq_natmat (oracle FO tinyF (metric_of m) g K Tn mask ref) impl).

(* oracle + apply_mapping reproduces the reference exactly *)
Definition check_oracle_restores (m : nat) (g : bool) (K Tn : nat) (mask ref : list (list (list float))) : bool * float :=
  eq_bins (apply_bins (oracle FO tinyF (metric_of m) g K Tn mask ref) mask) ref.

(* total score of a mapping under the model's summation (binary64), for optimal >= greedy *)
Definition check_optimal_ge_greedy (K : nat) (M : list (list float)) : bool * float :=
  let sc := perm_score K (mget FO M) PrimFloat.add 0%float in
  okR (negb (PrimFloat.ltb (sc (assign FO false K M)) (sc (assign FO true K M)))).

(* frequency and time joined: one assignment from the flattened masks; Tn = F*T *)
Definition check_oracle_global (m : nat) (g : bool) (K Tn : nat) (mask ref : list (list (list float)))
    (impl : list nat) : bool * float :=
  okR (eq_natlist (assign FO g K (score_bins FO tinyF (metric_of m) K Tn (flatten_bins K mask) (flatten_bins K ref))) impl).
