(* Run/C17.v -- the leakage bound of C17_mvdr_leakage_bound evaluated on a scene's ideal PSDs (instance FO):
   solve contract Pn x = a, competitor v with v^H a = 1, and sig_j |w^H a_j|^2 <= nu |v|^2 for w = x / (a^H x). *)
From Coq Require Import ZArith List PrimFloat Bool.
From PB Require Import Ops FloatFun Run.Common Model.Beamformer.
Import ListNotations.
Local Open Scope float_scope.

Definition cdotF (D : nat) (u v : nat -> float * float) : float * float :=
  csumO FO D (fun i => cmul FO (cconj FO (u i)) (v i)).
Definition check_leakage (D : nat) (Pn : list (list (float * float))) (a x v aj : list (float * float))
    (sigj nu : float) (ajs : list (list (float * float))) (sigs : list float) : bool * float :=
  let A := cnth2 Pn in let xx := cnth x in let aa := cnth a in let vv := cnth v in let ajj := cnth aj in
  let res := fold_right fmax 0 (tab D (fun i =>
      sqrt (cabs2 FO (csub FO (csumO FO D (fun j => cmul FO (A i j) (xx j))) (aa i))))) in
  let w := mvdr FO D aa xx in
  let leak := sigj * cabs2 FO (cdotF D w ajj) in
  let v2 := bsum FO D (fun i => cabs2 FO (vv i)) in
  (* C17_mvdr_total_leakage_bound: all interferers together plus the output noise *)
  let total := bsum FO (length sigs) (fun j => nth j sigs 0 * cabs2 FO (cdotF D w (cnth (nth j ajs []))))
               + nu * bsum FO D (fun i => cabs2 FO (w i)) in
  let dist := sqrt (cabs2 FO (csub FO (cdotF D vv aa) (1, 0))) in
  (* contract of the solve oracle: backward stable, residual <= c * eps * |A| * |x| (the noise floor may lie 80 dB below the
     sources, so |x| ~ 1/nu is large); 2^-40 * D * max|A| * max|x| leaves a factor ~1e3 over the unit roundoff *)
  let sA := fold_right fmax 0 (tab D (fun i => fold_right fmax 0 (tab D (fun j => sqrt (cabs2 FO (A i j)))))) in
  let sx := fold_right fmax 0 (tab D (fun i => sqrt (cabs2 FO (xx i)))) in
  let rtol := (0x1p-40 * (1 + sA * sx * (1 + 1 + 1 + 1 + 1 + 1 + 1 + 1)))%float in
  (andb (andb (PrimFloat.leb res (fmax 0x1p-30 rtol)) (PrimFloat.leb dist 0x1p-30))
        (andb (PrimFloat.leb leak (nu * v2 * (1 + 0x1p-20) + 0x1p-1000))
              (PrimFloat.leb total (nu * v2 * (1 + 0x1p-20) + 0x1p-1000))), total - nu * v2).
