(* Proofs/PermAlignJitter.v -- C16: on the property's signal domain the adjacent-bin score matrices are
   diagonally dominant (row-or-column), so the greedy aligner restores a consistent order.
   Domain: every bin holds, for each class k, a row x with (1-d) a_k[t] <= x[t] <= (1+d) a_k[t]
   (multiplicative jitter <= d) of a non-negative, non-zero pattern a_k; the patterns have pairwise
   cosine <= c, written without square roots as <a_i,a_j>^2 <= c^2 <a_i,a_i> <a_j,a_j>.
   Proved for 'multiply' when c (1+d)^2 < (1-d)^2, for 'euclidean' when 4 d^2 < (1-d)^2 - c (1+d)^2 and
   for 'cos' when c (1+d)^3 < (1-d)^3 and the norm guard `tiny` is below every jittered row norm
   (c = d = 0.1: 0.121 < 0.81, 0.04 < 0.689, 0.1331 < 0.729). *)
From Coq Require Import Reals Lra Lia Psatz List Arith Bool.
From PB Require Import Ops CLin Model.PermAlign Proofs.PermAlignAssign Proofs.PermAlignLoop Proofs.PermAlignOracle.
Import ListNotations.
Open Scope R_scope.

Lemma prod_bounds l h a b x y : 0 <= l -> l <= h -> 0 <= a -> 0 <= b ->
  l * a <= x <= h * a -> l * b <= y <= h * b -> l * l * (a * b) <= x * y <= h * h * (a * b).
Proof. intros Hl Hlh Ha Hb [X1 X2] [Y1 Y2].
  assert (0 <= l * a) by (apply Rmult_le_pos; auto). assert (0 <= l * b) by (apply Rmult_le_pos; auto).
  split.
  - replace (l * l * (a * b)) with ((l * a) * (l * b)) by ring. apply Rmult_le_compat; auto.
  - replace (h * h * (a * b)) with ((h * a) * (h * b)) by ring. apply Rmult_le_compat; lra. Qed.
Lemma sq_le_le x y : 0 <= x -> 0 <= y -> x * x <= y * y -> x <= y.
Proof. intros. nra. Qed.

Section Jitter.
Variables (Tn : nat) (c d : R).
Hypothesis Hc : 0 <= c.
Hypothesis Hd : 0 <= d < 1.

Definition ip (x y : nat -> R) : R := rsum Tn (fun t => x t * y t).
(* x is a copy of the pattern a with multiplicative jitter at most d *)
Definition jittered (a x : nat -> R) : Prop :=
  forall t, (t < Tn)%nat -> 0 <= a t /\ (1 - d) * a t <= x t <= (1 + d) * a t.
Definition cos_le (a b : nat -> R) : Prop := ip a b * ip a b <= c * c * (ip a a * ip b b).

Lemma ip_nonneg a b : (forall t, (t < Tn)%nat -> 0 <= a t) -> (forall t, (t < Tn)%nat -> 0 <= b t) -> 0 <= ip a b.
Proof. intros Ha Hb. apply rsum_nonneg. intros t Ht. apply Rmult_le_pos; auto. Qed.
Lemma ip_sym a b : ip a b = ip b a.
Proof. apply rsum_ext. intros. ring. Qed.
Lemma ip_bounds a b x y : jittered a x -> jittered b y ->
  (1 - d) * (1 - d) * ip a b <= ip x y <= (1 + d) * (1 + d) * ip a b.
Proof. intros Hx Hy. unfold ip. rewrite <- !rsum_scale_l. split; apply rsum_le; intros t Ht;
  destruct (Hx t Ht) as [A1 A2]; destruct (Hy t Ht) as [B1 B2];
  apply (prod_bounds (1 - d) (1 + d) (a t) (b t) (x t) (y t)); auto; lra. Qed.
Lemma jittered_nonneg a x : jittered a x -> forall t, (t < Tn)%nat -> 0 <= a t.
Proof. intros H t Ht. apply H; auto. Qed.
(* cosine <= c gives <a,b> <= c max(|a|^2, |b|^2) and <a,b> <= c (|a|^2 + |b|^2) / 2 *)
Lemma ip_le_big a b : 0 <= ip a b -> 0 <= ip a a -> cos_le a b -> ip a a <= ip b b -> ip a b <= c * ip b b.
Proof. intros H0 HA H HAB. unfold cos_le in H. apply sq_le_le.
  - exact H0.
  - apply Rmult_le_pos; lra.
  - assert (E: ip a a * ip b b <= ip b b * ip b b) by (apply Rmult_le_compat_r; lra).
    assert (C2: 0 <= c * c) by (apply Rmult_le_pos; lra).
    assert (c * c * (ip a a * ip b b) <= c * c * (ip b b * ip b b)) by (apply Rmult_le_compat_l; auto).
    replace (c * ip b b * (c * ip b b)) with (c * c * (ip b b * ip b b)) by ring. lra. Qed.
Lemma ip_le_mean a b : 0 <= ip a b -> 0 <= ip a a -> 0 <= ip b b -> cos_le a b -> 2 * ip a b <= c * (ip a a + ip b b).
Proof. intros H0 HA HB H. unfold cos_le in H. apply sq_le_le.
  - lra.
  - apply Rmult_le_pos; lra.
  - assert (E: 4 * (ip a a * ip b b) <= (ip a a + ip b b) * (ip a a + ip b b)).
    { pose proof (Rle_0_sqr (ip a a - ip b b)) as Q. unfold Rsqr in Q. lra. }
    assert (C2: 0 <= c * c) by (apply Rmult_le_pos; lra).
    assert (c * c * (4 * (ip a a * ip b b)) <= c * c * ((ip a a + ip b b) * (ip a a + ip b b))) by (apply Rmult_le_compat_l; auto).
    replace (c * (ip a a + ip b b) * (c * (ip a a + ip b b))) with (c * c * ((ip a a + ip b b) * (ip a a + ip b b))) by ring.
    replace (2 * ip a b * (2 * ip a b)) with (4 * (ip a b * ip a b)) by ring. lra. Qed.

(* K classes: pattern a k, its jittered copies x k (lower bin) and y k (upper bin) *)
Variables (K : nat) (a x y : nat -> nat -> R).
Hypothesis Hx : forall k, (k < K)%nat -> jittered (a k) (x k).
Hypothesis Hy : forall k, (k < K)%nat -> jittered (a k) (y k).
Hypothesis Hpos : forall k, (k < K)%nat -> 0 < ip (a k) (a k).
Hypothesis Hcos : forall i j, (i < K)%nat -> (j < K)%nat -> i <> j -> cos_le (a i) (a j).

Theorem jitter_dominance_multiply : c * ((1 + d) * (1 + d)) < (1 - d) * (1 - d) ->
  dominant RO K (fun i j => pair_multiply RO Tn (y j) (x i)).
Proof. intros Hm i j Hi Hj Hne. rewrite !oltb_RO_true. unfold pair_multiply. change (@bsum R RO) with rsum.
  cbn [omul RO]. fold (ip (y j) (x i)) (ip (y i) (x i)) (ip (y j) (x j)).
  pose proof (ip_bounds _ _ _ _ (Hy j Hj) (Hx i Hi)) as [_ U].
  pose proof (ip_bounds _ _ _ _ (Hy i Hi) (Hx i Hi)) as [Li _].
  pose proof (ip_bounds _ _ _ _ (Hy j Hj) (Hx j Hj)) as [Lj _].
  pose proof (Hpos i Hi) as Pi. pose proof (Hpos j Hj) as Pj.
  assert (N: 0 <= ip (a j) (a i)) by (apply ip_nonneg; eapply jittered_nonneg; eauto).
  assert (Hh: 0 < (1 + d) * (1 + d)) by nra.
  destruct (Rle_lt_dec (ip (a j) (a j)) (ip (a i) (a i))) as [Hle|Hlt].
  - left. assert (B: ip (a j) (a i) <= c * ip (a i) (a i)).
    { apply ip_le_big; [exact N | lra | apply Hcos; auto | exact Hle]. }
    assert ((1 + d) * (1 + d) * ip (a j) (a i) <= (1 + d) * (1 + d) * (c * ip (a i) (a i))) by (apply Rmult_le_compat_l; lra).
    assert (c * ((1 + d) * (1 + d)) * ip (a i) (a i) < (1 - d) * (1 - d) * ip (a i) (a i)) by (apply Rmult_lt_compat_r; auto).
    lra.
  - right. assert (B: ip (a i) (a j) <= c * ip (a j) (a j)).
    { apply ip_le_big; [rewrite ip_sym; exact N | lra | apply Hcos; auto | lra]. }
    rewrite (ip_sym (a j) (a i)) in *.
    assert ((1 + d) * (1 + d) * ip (a i) (a j) <= (1 + d) * (1 + d) * (c * ip (a j) (a j))) by (apply Rmult_le_compat_l; lra).
    assert (c * ((1 + d) * (1 + d)) * ip (a j) (a j) < (1 - d) * (1 - d) * ip (a j) (a j)) by (apply Rmult_lt_compat_r; auto).
    lra. Qed.

Theorem jitter_dominance_euclid : 4 * (d * d) < (1 - d) * (1 - d) - c * ((1 + d) * (1 + d)) ->
  dominant RO K (fun i j => pair_euclid RO Tn (y j) (x i)).
Proof. intros Hm i j Hi Hj Hne. left. rewrite oltb_RO_true. rewrite !pair_euclid_RO.
  apply Ropp_lt_contravar. apply sqrt_lt_1_alt. split. apply sqdist_nonneg.
  pose proof (Hpos i Hi) as Pi. pose proof (Hpos j Hj) as Pj.
  (* same class: |y_i - x_i|^2 <= 4 d^2 |a_i|^2 *)
  assert (S: rsum Tn (fun t => (y i t - x i t) * (y i t - x i t)) <= 4 * (d * d) * ip (a i) (a i)).
  { unfold ip. rewrite <- rsum_scale_l. apply rsum_le. intros t Ht.
    destruct (Hx i Hi t Ht) as [A0 [X1 X2]]. destruct (Hy i Hi t Ht) as [_ [Y1 Y2]].
    assert (E1: y i t - x i t <= 2 * d * a i t) by lra. assert (E2: - (2 * d * a i t) <= y i t - x i t) by lra.
    assert (0 <= 2 * d * a i t) by (apply Rmult_le_pos; lra).
    replace (4 * (d * d) * (a i t * a i t)) with ((2 * d * a i t) * (2 * d * a i t)) by ring.
    destruct (Rle_lt_dec 0 (y i t - x i t)).
    - apply Rmult_le_compat; lra.
    - replace ((y i t - x i t) * (y i t - x i t)) with ((- (y i t - x i t)) * (- (y i t - x i t))) by ring.
      apply Rmult_le_compat; lra. }
  (* different classes: |y_j - x_i|^2 >= (|a_i|^2 + |a_j|^2) ((1-d)^2 - c (1+d)^2) *)
  rewrite (sqdist_expand Tn (y j) (x i)). fold (ip (y j) (y j)) (ip (x i) (x i)) (ip (y j) (x i)).
  pose proof (ip_bounds _ _ _ _ (Hy j Hj) (Hy j Hj)) as [Ly _].
  pose proof (ip_bounds _ _ _ _ (Hx i Hi) (Hx i Hi)) as [Lx _].
  pose proof (ip_bounds _ _ _ _ (Hy j Hj) (Hx i Hi)) as [_ U].
  assert (N: 0 <= ip (a j) (a i)) by (apply ip_nonneg; eapply jittered_nonneg; eauto).
  assert (M: 2 * ip (a j) (a i) <= c * (ip (a j) (a j) + ip (a i) (a i))).
  { apply ip_le_mean; [exact N | lra | lra | apply Hcos; auto]. }
  assert (Hh: 0 < (1 + d) * (1 + d)) by nra.
  assert (U2: 2 * ip (y j) (x i) <= (1 + d) * (1 + d) * (c * (ip (a j) (a j) + ip (a i) (a i)))).
  { assert ((1 + d) * (1 + d) * (2 * ip (a j) (a i)) <= (1 + d) * (1 + d) * (c * (ip (a j) (a j) + ip (a i) (a i))))
      by (apply Rmult_le_compat_l; lra). lra. }
  set (Ai := ip (a i) (a i)) in *. set (Aj := ip (a j) (a j)) in *.
  set (g := (1 - d) * (1 - d) - c * ((1 + d) * (1 + d))) in *.
  assert (G: 4 * (d * d) * Ai < g * (Ai + Aj)).
  { assert (4 * (d * d) * Ai < g * Ai) by (apply Rmult_lt_compat_r; auto).
    assert (0 <= g * Aj) by (apply Rmult_le_pos; [nra|lra]). lra. }
  unfold g in G. lra. Qed.

(* ---- 'cos': rows are divided by max(norm, tiny); the jittered rows are assumed non-degenerate ---- *)
Variable tiny : R.
Hypothesis Htiny : forall k, (k < K)%nat -> tiny <= (1 - d) * sqrt (ip (a k) (a k)).
Definition nrm (x0 : nat -> R) : R := sqrt (ip x0 x0).

Lemma nrm_bounds a0 x0 : jittered a0 x0 -> (1 - d) * nrm a0 <= nrm x0 <= (1 + d) * nrm a0.
Proof. intros H. pose proof (ip_bounds a0 a0 x0 x0 H H) as [L U]. unfold nrm.
  assert (A0: 0 <= ip a0 a0) by (apply ip_nonneg; eapply jittered_nonneg; eauto).
  split.
  - rewrite <- (sqrt_square (1 - d)) at 1 by lra. rewrite <- sqrt_mult; [|nra|auto]. apply sqrt_le_1_alt. lra.
  - rewrite <- (sqrt_square (1 + d)) at 1 by lra. rewrite <- sqrt_mult; [|nra|auto]. apply sqrt_le_1_alt. lra. Qed.
Lemma vnorm_eq x0 t : tiny <= nrm x0 -> vnorm RO Tn tiny x0 t = x0 t * / nrm x0.
Proof. intros H. unfold vnorm. rewrite omax_RO. change (@bsum R RO) with rsum. cbn [omul osqrt odiv oinv RO].
  fold (ip x0 x0). fold (nrm x0). rewrite Rmax_left by exact H. reflexivity. Qed.
Lemma pair_cos_eq x0 r0 : tiny <= nrm x0 -> tiny <= nrm r0 ->
  pair_cos RO Tn tiny x0 r0 = ip x0 r0 * (/ nrm x0 * / nrm r0).
Proof. intros Hx0 Hr0. unfold pair_cos, pair_multiply. change (@bsum R RO) with rsum. cbn [omul RO].
  unfold ip. rewrite <- rsum_scale. apply rsum_ext. intros t Ht. rewrite !vnorm_eq by auto. ring. Qed.
Lemma frac_lt u v p q r : 0 < p -> 0 < q -> 0 < r -> u * r < v * p -> u * (/ p * / q) < v * (/ r * / q).
Proof. intros Hp Hq Hr H.
  replace (u * (/ p * / q)) with (u * r * (/ p * / q * / r)) by (field; lra).
  replace (v * (/ r * / q)) with (v * p * (/ p * / q * / r)) by (field; lra).
  apply Rmult_lt_compat_r; auto.
  apply Rmult_lt_0_compat; [apply Rmult_lt_0_compat|]; apply Rinv_0_lt_compat; auto. Qed.

Theorem jitter_dominance_cos : c * ((1 + d) * (1 + d) * (1 + d)) < (1 - d) * (1 - d) * (1 - d) ->
  dominant RO K (fun i j => pair_cos RO Tn tiny (y j) (x i)).
Proof. intros Hm i j Hi Hj Hne. left. rewrite oltb_RO_true.
  pose proof (Hpos i Hi) as Pi. pose proof (Hpos j Hj) as Pj.
  assert (Si: 0 < nrm (a i)) by (apply sqrt_lt_R0; auto). assert (Sj: 0 < nrm (a j)) by (apply sqrt_lt_R0; auto).
  destruct (nrm_bounds _ _ (Hx i Hi)) as [Lxi Uxi]. destruct (nrm_bounds _ _ (Hy i Hi)) as [Lyi Uyi].
  destruct (nrm_bounds _ _ (Hy j Hj)) as [Lyj Uyj].
  pose proof (Htiny i Hi) as Ti. pose proof (Htiny j Hj) as Tj. fold (nrm (a i)) in Ti. fold (nrm (a j)) in Tj.
  assert (Plo: 0 < 1 - d) by lra.
  assert (Nxi: 0 < nrm (x i)) by (assert (0 < (1 - d) * nrm (a i)) by (apply Rmult_lt_0_compat; auto); lra).
  assert (Nyi: 0 < nrm (y i)) by (assert (0 < (1 - d) * nrm (a i)) by (apply Rmult_lt_0_compat; auto); lra).
  assert (Nyj: 0 < nrm (y j)) by (assert (0 < (1 - d) * nrm (a j)) by (apply Rmult_lt_0_compat; auto); lra).
  rewrite !pair_cos_eq by lra.
  apply frac_lt; auto.
  (* <y_j,x_i> |y_i| < <y_i,x_i> |y_j| *)
  pose proof (ip_bounds _ _ _ _ (Hy j Hj) (Hx i Hi)) as [L0 U].
  pose proof (ip_bounds _ _ _ _ (Hy i Hi) (Hx i Hi)) as [Li _].
  assert (N: 0 <= ip (a j) (a i)) by (apply ip_nonneg; eapply jittered_nonneg; eauto).
  assert (Ai: ip (a i) (a i) = nrm (a i) * nrm (a i)) by (unfold nrm; rewrite sqrt_sqrt; lra).
  assert (Aj: ip (a j) (a j) = nrm (a j) * nrm (a j)) by (unfold nrm; rewrite sqrt_sqrt; lra).
  assert (B: ip (a j) (a i) <= c * (nrm (a i) * nrm (a j))).
  { apply sq_le_le; auto.
    - apply Rmult_le_pos; [lra|]. apply Rmult_le_pos; lra.
    - pose proof (Hcos j i Hj Hi Hne) as Hc2. unfold cos_le in Hc2. rewrite Ai, Aj in Hc2.
      replace (c * (nrm (a i) * nrm (a j)) * (c * (nrm (a i) * nrm (a j))))
        with (c * c * (nrm (a j) * nrm (a j) * (nrm (a i) * nrm (a i)))) by ring. exact Hc2. }
  set (si := nrm (a i)) in *. set (sj := nrm (a j)) in *.
  assert (P0: 0 <= ip (y j) (x i)).
  { assert (0 <= (1 - d) * (1 - d) * ip (a j) (a i)) by (apply Rmult_le_pos; [nra|auto]). lra. }
  assert (Hh: 0 < (1 + d) * (1 + d)) by nra.
  (* upper bound of the left side *)
  assert (UL: ip (y j) (x i) * nrm (y i) <= ((1 + d) * (1 + d) * (c * (si * sj))) * ((1 + d) * si)).
  { apply Rmult_le_compat; auto; try lra.
    assert ((1 + d) * (1 + d) * ip (a j) (a i) <= (1 + d) * (1 + d) * (c * (si * sj))) by (apply Rmult_le_compat_l; lra).
    lra. }
  (* lower bound of the right side *)
  assert (LR: ((1 - d) * (1 - d) * (si * si)) * ((1 - d) * sj) <= ip (y i) (x i) * nrm (y j)).
  { apply Rmult_le_compat; try lra.
    - apply Rmult_le_pos; [nra|]. apply Rmult_le_pos; lra.
    - apply Rmult_le_pos; lra.
    - rewrite <- Ai. exact Li. }
  assert (Pos: 0 < si * si * sj) by (apply Rmult_lt_0_compat; [apply Rmult_lt_0_compat|]; auto).
  assert (Fin: c * ((1 + d) * (1 + d) * (1 + d)) * (si * si * sj) < (1 - d) * (1 - d) * (1 - d) * (si * si * sj))
    by (apply Rmult_lt_compat_r; auto).
  replace ((1 + d) * (1 + d) * (c * (si * sj)) * ((1 + d) * si)) with (c * ((1 + d) * (1 + d) * (1 + d)) * (si * si * sj)) in UL by ring.
  replace ((1 - d) * (1 - d) * (si * si) * ((1 - d) * sj)) with ((1 - d) * (1 - d) * (1 - d) * (si * si * sj)) in LR by ring.
  lra. Qed.
End Jitter.

(* ---- lifted to the list model: every bin is a jittered copy of the same patterns ---- *)
Section Domain.
Variables (tiny : R) (K Tn : nat) (c d : R) (a : nat -> nat -> R).
Hypothesis Hc : 0 <= c.
Hypothesis Hd : 0 <= d < 1.
Hypothesis Hpos : forall k, (k < K)%nat -> 0 < ip Tn (a k) (a k).
Hypothesis Hcos : forall i j, (i < K)%nat -> (j < K)%nat -> i <> j -> cos_le Tn c (a i) (a j).

Definition bin_jittered (r : @bin R) : Prop :=
  forall k, (k < K)%nat -> jittered Tn d (a k) (rowfn RO (nth k r [])).
Definition metric_margin (m : metric) : Prop :=
  match m with
  | Multiply => c * ((1 + d) * (1 + d)) < (1 - d) * (1 - d)
  | Euclid => 4 * (d * d) < (1 - d) * (1 - d) - c * ((1 + d) * (1 + d))
  | Cos => c * ((1 + d) * (1 + d) * (1 + d)) < (1 - d) * (1 - d) * (1 - d) /\
           (* the normalisation guard is not active *)
           forall k, (k < K)%nat -> tiny <= (1 - d) * sqrt (ip Tn (a k) (a k))
  end.

Lemma jitter_adj_dominant m r0 rs : metric_margin m -> Forall bin_jittered (r0 :: rs) ->
  adj_dominant RO tiny m K Tn r0 rs.
Proof. intros Hm. revert r0. induction rs as [|r1 rs IH]; intros r0 H; cbn [adj_dominant]; auto.
  inversion H as [|? ? H0 H1]; subst. inversion H1 as [|? ? H2 H3]; subst. split; [|apply IH; auto].
  unfold adj_score. destruct m; cbn [pair_score metric_margin] in *.
  - destruct Hm as [Hm Ht].
    apply (jitter_dominance_cos Tn c d Hc Hd K a (fun k => rowfn RO (nth k r0 [])) (fun k => rowfn RO (nth k r1 []))); auto.
  - apply (jitter_dominance_euclid Tn c d Hc Hd K a (fun k => rowfn RO (nth k r0 [])) (fun k => rowfn RO (nth k r1 []))); auto.
  - apply (jitter_dominance_multiply Tn c d Hc Hd K a (fun k => rowfn RO (nth k r0 [])) (fun k => rowfn RO (nth k r1 []))); auto.
Qed.

(* the greedy aligner's clause of C16 on the stated domain, every permutation field, every F, T, K *)
Theorem greedy_restores_on_domain m r0 rs p0 ps :
  metric_margin m -> Forall bin_jittered (r0 :: rs) ->
  is_perm K p0 -> Forall2 (fun p (_ : @bin R) => is_perm K p) ps rs ->
  let mask := apply_bins (p0 :: ps) (r0 :: rs) in
  Forall2 (fun M p => permute 0%nat M p = p0) (greedy_chain RO tiny m K Tn mask) (p0 :: ps) /\
  apply_bins (greedy_chain RO tiny m K Tn mask) mask = map (permute [] p0) (r0 :: rs).
Proof. intros Hm Hj Hp0 Hps.
  apply (greedy_chain_restores RO lt_irrefl_RO lt_trans_RO lt_negtrans_RO tiny m K Tn r0 rs p0 ps); auto.
  apply jitter_adj_dominant; auto. Qed.
End Domain.
