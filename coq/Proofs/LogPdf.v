(* Proofs/LogPdf.v -- C07: each log_pdf of Model/LogPdf.v (instance RO) is the logarithm of the
   textbook density of the named family, under the written contracts of the external routines.
   The textbook densities are defined here, independently of the model functions. *)
From Coq Require Import Reals Lra Lia List Permutation.
From Coquelicot Require Import Coquelicot.
From PB Require Import Ops CLin Model.LogPdf.
Import ListNotations.
Open Scope R_scope.

(* ---------------------------------------------------------------- small real-analysis helpers *)
Lemma onat_R n : onat RO n = INR n.
Proof. induction n. reflexivity. cbn [onat]. rewrite IHn, S_INR. reflexivity. Qed.
Lemma two_R : two RO = 2. Proof. unfold two; cbn [oadd o1 RO]. lra. Qed.
Lemma half_R : half RO = / 2. Proof. unfold half. rewrite two_R. reflexivity. Qed.
Lemma opow_R x n : opow RO x n = x ^ n.
Proof. induction n; cbn [opow pow]. reflexivity. rewrite IHn. cbn [omul RO]. ring. Qed.
Lemma ofact_R n : ofact RO n = INR (fact n).
Proof. induction n. cbn [ofact fact INR o1 RO]. reflexivity.
  cbn [ofact]. rewrite IHn, onat_R. cbn [omul RO].
  replace (fact (S n)) with (S n * fact n)%nat by reflexivity. rewrite mult_INR. ring. Qed.
Lemma sumsq_R D w : sumsq RO D w = rsum D (fun k => w k * w k).
Proof. unfold sumsq. rewrite bsum_RO. reflexivity. Qed.

Lemma ln_div x y : 0 < x -> 0 < y -> ln (x / y) = ln x - ln y.
Proof. intros. unfold Rdiv. rewrite ln_mult; auto; [|apply Rinv_0_lt_compat; auto]. rewrite ln_Rinv; auto. Qed.
Lemma ln_sqrt x : 0 < x -> ln (sqrt x) = / 2 * ln x.
Proof. intros. rewrite <- Rpower_sqrt by assumption. apply ln_Rpower. Qed.
Lemma two_pi_pos : 0 < 2 * PI. Proof. pose proof PI_RGT_0. lra. Qed.
Lemma rsum_ln_prod n (f : nat -> R) : (forall k, (k < n)%nat -> 0 < f k) ->
  rsum n (fun k => ln (f k)) = ln (bprod RO n f).
Proof. induction n; intros H; cbn [rsum bprod]. cbn [o1 RO]. rewrite ln_1. reflexivity.
  cbn [omul RO]. rewrite IHn by (intros; apply H; lia).
  assert (0 < bprod RO n f).
  { clear IHn. induction n; cbn [bprod o1 omul RO]. lra. apply Rmult_lt_0_compat; [apply IHn; intros; apply H; lia | apply H; lia]. }
  rewrite ln_mult; auto. Qed.
Lemma bprod_pos n (f : nat -> R) : (forall k, (k < n)%nat -> 0 < f k) -> 0 < bprod RO n f.
Proof. induction n; intros H; cbn [bprod o1 omul RO]. lra.
  apply Rmult_lt_0_compat; [apply IHn; intros; apply H; lia | apply H; lia]. Qed.
Lemma rsum_const n c : rsum n (fun _ => c) = INR n * c.
Proof. induction n. cbn [rsum INR]. ring. cbn [rsum]. rewrite IHn, S_INR. ring. Qed.

(* ================================================================= real Gaussians *)
(* the density of N(mu, Sigma) at y, written with Sinv = Sigma^-1 and detS = det Sigma:
   exp(-1/2 (y-mu)^T Sinv (y-mu)) / sqrt((2 pi)^D detS) *)
Definition mahalanobis (D : nat) (Sinv : nat -> nat -> R) (d : nat -> R) : R :=
  rsum D (fun i => rsum D (fun j => d i * Sinv i j * d j)).
Definition normal_pdf (D : nat) (mu : nat -> R) (Sinv : nat -> nat -> R) (detS : R) (y : nat -> R) : R :=
  exp (- / 2 * mahalanobis D Sinv (fun i => y i - mu i)) / sqrt ((2 * PI) ^ D * detS).

Lemma ln_normal_pdf D mu Sinv detS y : 0 < detS ->
  ln (normal_pdf D mu Sinv detS y)
  = - (/ 2 * INR D * ln (2 * PI)) - / 2 * ln detS - / 2 * mahalanobis D Sinv (fun i => y i - mu i).
Proof. intros Hd. unfold normal_pdf.
  assert (Hp : 0 < (2 * PI) ^ D) by (apply pow_lt, two_pi_pos).
  assert (Hq : 0 < (2 * PI) ^ D * detS) by (apply Rmult_lt_0_compat; auto).
  rewrite ln_div; [| apply exp_pos | apply sqrt_lt_R0; auto].
  rewrite ln_exp, ln_sqrt, ln_mult, ln_pow by (auto using two_pi_pos). ring. Qed.

Lemma gauss_core_R D ldet w :
  gauss_core RO PI D ldet w = - (/ 2 * INR D * ln (2 * PI)) + ldet - / 2 * rsum D (fun k => w k * w k).
Proof. unfold gauss_core, osub. rewrite sumsq_R, half_R, two_R, onat_R. cbn [oadd omul oopp oln RO]. ring. Qed.

Section Whitening.
Variables (D : nat) (Pm : nat -> nat -> R) (x : nat -> R).
(* || Pm^T x ||^2 = x^T (Pm Pm^T) x, for every D *)
Theorem whitening_T_is_mahalanobis :
  rsum D (fun k => rsum D (fun i => Pm i k * x i) * rsum D (fun i => Pm i k * x i))
  = mahalanobis D (fun i j => rsum D (fun k => Pm i k * Pm j k)) x.
Proof. unfold mahalanobis.
  transitivity (rsum D (fun k => rsum D (fun i => rsum D (fun j => x i * (Pm i k * Pm j k) * x j)))).
  { apply rsum_ext; intros k Hk. rewrite <- rsum_scale. apply rsum_ext; intros i Hi.
    rewrite <- rsum_scale_l. apply rsum_ext; intros; ring. }
  rewrite rsum_swap. apply rsum_ext; intros i Hi. rewrite rsum_swap. apply rsum_ext; intros j Hj.
  rewrite <- rsum_scale_l, <- rsum_scale. apply rsum_ext; intros; ring. Qed.
End Whitening.

Section GaussFull.
Variables (D : nat) (mu y : nat -> R) (Pm Sinv : nat -> nat -> R) (detS : R).
(* contract of the precision Cholesky factor *)
Hypothesis Hprec : forall i j, (i < D)%nat -> (j < D)%nat -> rsum D (fun k => Pm i k * Pm j k) = Sinv i j.
Hypothesis Hdet : rsum D (fun k => ln (Pm k k)) = - / 2 * ln detS.
Hypothesis Hpos : 0 < detS.

Theorem gauss_full_logpdf_spec :
  gauss_full_logpdf RO PI D mu y Pm = ln (normal_pdf D mu Sinv detS y).
Proof. rewrite ln_normal_pdf by assumption. unfold gauss_full_logpdf. rewrite gauss_core_R.
  unfold ldet_full. rewrite bsum_RO. cbn [oln RO]. rewrite Hdet.
  replace (rsum D (fun k => white_T RO D mu y Pm k * white_T RO D mu y Pm k))
    with (mahalanobis D Sinv (fun i => y i - mu i)). ring.
  unfold white_T.
  rewrite (rsum_ext D _ (fun k => rsum D (fun i => Pm i k * (y i - mu i)) * rsum D (fun i => Pm i k * (y i - mu i)))).
  2:{ intros k Hk. rewrite !bsum_RO. reflexivity. }
  rewrite whitening_T_is_mahalanobis. unfold mahalanobis.
  apply rsum_ext; intros i Hi. apply rsum_ext; intros j Hj. rewrite Hprec; auto. Qed.
End GaussFull.

(* whitening with the rows of the factor ('...dD,...nD->...nd', Pm d) is NOT the Mahalanobis form:
   Pm = [[1,1],[0,1]] (the sklearn factor of covariance [[1,-1],[-1,2]]), y - mu = (1,0):
   ||Pm d||^2 = 1 but d^T Pm Pm^T d = 2 *)
Definition P2w (i j : nat) : R := match i, j with 0%nat, 0%nat => 1 | 0%nat, 1%nat => 1 | 1%nat, 1%nat => 1 | _, _ => 0 end.
Definition x2w (i : nat) : R := match i with 0%nat => 1 | _ => 0 end.
Theorem gauss_rows_whitening_refuted :
  exists D Pm Sinv detS mu y,
    (forall i j, (i < D)%nat -> (j < D)%nat -> rsum D (fun k => Pm i k * Pm j k) = Sinv i j) /\
    rsum D (fun k => ln (Pm k k)) = - / 2 * ln detS /\ 0 < detS /\
    gauss_full_logpdf_rows RO PI D mu y Pm <> ln (normal_pdf D mu Sinv detS y).
Proof.
  exists 2%nat, P2w, (fun i j => rsum 2 (fun k => P2w i k * P2w j k)), 1, (fun _ => 0), x2w.
  split; [reflexivity|]. split. { cbn [rsum P2w]. rewrite ln_1. lra. } split; [lra|].
  rewrite ln_normal_pdf by lra. unfold gauss_full_logpdf_rows. rewrite gauss_core_R.
  unfold ldet_full, white_rows, mahalanobis, gdiff, osub. rewrite !bsum_RO. cbn [rsum bsum oadd omul oopp oln o0 RO P2w x2w].
  rewrite ln_1. lra. Qed.

Section GaussDiag.
Variables (D : nat) (mu y cov : nat -> R).
Hypothesis Hcov : forall i, (i < D)%nat -> 0 < cov i.

Lemma pc_diag_R i : (i < D)%nat -> pc_diag RO cov i * pc_diag RO cov i = / cov i.
Proof. intros Hi. unfold pc_diag. cbn [oinv osqrt RO]. rewrite <- Rinv_mult. rewrite sqrt_sqrt; auto. left; auto. Qed.

(* product of the univariate densities N(mu_i, cov_i): Sigma = diag cov, Sigma^-1 = diag(1/cov), det = prod cov *)
Theorem gauss_diag_logpdf_spec :
  gauss_diag_logpdf RO PI D mu y cov
  = ln (normal_pdf D mu (fun i j => if Nat.eqb i j then / cov i else 0) (bprod RO D cov) y).
Proof. rewrite ln_normal_pdf by (apply bprod_pos; auto). unfold gauss_diag_logpdf. rewrite gauss_core_R.
  assert (E1 : ldet_diag RO D cov = - / 2 * ln (bprod RO D cov)).
  { unfold ldet_diag. rewrite bsum_RO. rewrite <- rsum_ln_prod by auto. rewrite <- rsum_scale_l.
    apply rsum_ext; intros i Hi. unfold pc_diag. cbn [oln oinv osqrt RO].
    rewrite ln_Rinv by (apply sqrt_lt_R0; auto). rewrite ln_sqrt by auto. ring. }
  rewrite E1.
  assert (E2 : rsum D (fun k => pc_diag RO cov k * gdiff RO mu y k * (pc_diag RO cov k * gdiff RO mu y k))
             = mahalanobis D (fun i j => if Nat.eqb i j then / cov i else 0) (fun i => y i - mu i)).
  { unfold mahalanobis. apply rsum_ext; intros i Hi.
    rewrite (rsum_ext D _ (fun j => if Nat.eqb j i then (y i - mu i) * / cov i * (y i - mu i) else 0)).
    2:{ intros j Hj. rewrite (Nat.eqb_sym i j). destruct (Nat.eqb_spec j i); [subst; reflexivity | ring]. }
    assert (Hd : forall n c, (i < n)%nat -> rsum n (fun j => if Nat.eqb j i then c else 0) = c).
    { induction n; intros c0 Hn; [lia|]. cbn [rsum]. destruct (Nat.eq_dec i n) as [->|Hne].
      - rewrite Nat.eqb_refl. rewrite rsum_zero. ring. intros k Hk. destruct (Nat.eqb_spec k n); [lia|reflexivity].
      - rewrite IHn by lia. destruct (Nat.eqb_spec n i); [lia|ring]. }
    rewrite Hd by auto. unfold gdiff, osub. cbn [oadd oopp omul RO].
    transitivity ((pc_diag RO cov i * pc_diag RO cov i) * ((y i - mu i) * (y i - mu i))). ring.
    rewrite pc_diag_R by auto. ring. }
  cbn [omul RO]. rewrite E2. ring. Qed.
End GaussDiag.

Section GaussSph.
Variables (D : nat) (mu y : nat -> R) (c : R).
Hypothesis Hc : 0 < c.
(* isotropic normal: Sigma = c I *)
Theorem gauss_sph_logpdf_spec :
  gauss_sph_logpdf RO PI D mu y c
  = ln (normal_pdf D mu (fun i j => if Nat.eqb i j then / c else 0) (c ^ D) y).
Proof.
  pose proof (gauss_diag_logpdf_spec D mu y (fun _ => c) (fun _ _ => Hc)) as H.
  assert (Ep : bprod RO D (fun _ => c) = c ^ D).
  { clear H. induction D; cbn [bprod pow o1 omul RO]. reflexivity. rewrite IHn. ring. }
  rewrite Ep in H. rewrite <- H. unfold gauss_sph_logpdf, gauss_diag_logpdf. rewrite !gauss_core_R.
  unfold ldet_sph, ldet_diag, pc_sph, pc_diag.
  rewrite (bsum_RO D (fun _ => oln RO (oinv RO (osqrt RO c)))), rsum_const, onat_R. reflexivity. Qed.
End GaussSph.
