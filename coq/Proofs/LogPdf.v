(* Proofs/LogPdf.v -- C07: each log_pdf of Model/LogPdf.v (instance RO) is the logarithm of the
   textbook density of the named family, under the written contracts of the external routines.
   The textbook densities are defined here, independently of the model functions. *)
From Coq Require Import Reals Lra Lia List Permutation FinFun.
From Coquelicot Require Import Coquelicot.
From PB Require Import Ops CLin Model.LogPdf.
Import ListNotations.
Open Scope R_scope.

(* ---------------------------------------------------------------- small real-analysis helpers *)
Lemma onat_R n : onat RO n = INR n.
Proof. induction n. reflexivity. cbn [onat]. rewrite IHn, S_INR. reflexivity. Qed.
Lemma two_R : two RO = 2. Proof. unfold two; cbn [oadd o1 RO]. lra. Qed.
Lemma half_R : half RO = / 2. Proof. unfold half. rewrite two_R. reflexivity. Qed.
Lemma opow_R x n : opow RO x n = x ^ n.
Proof. induction n; cbn [opow pow]. reflexivity. rewrite IHn. cbn [omul RO]. ring. Qed.
Lemma ofact_R n : ofact RO n = INR (fact n).
Proof. induction n. cbn [ofact fact INR o1 RO]. reflexivity.
  cbn [ofact]. rewrite IHn, onat_R. cbn [omul RO].
  replace (fact (S n)) with (S n * fact n)%nat by reflexivity. rewrite mult_INR. ring. Qed.
Lemma sumsq_R D w : sumsq RO D w = rsum D (fun k => w k * w k).
Proof. unfold sumsq. rewrite bsum_RO. reflexivity. Qed.

Lemma ln_div x y : 0 < x -> 0 < y -> ln (x / y) = ln x - ln y.
Proof. intros. unfold Rdiv. rewrite ln_mult; auto; [|apply Rinv_0_lt_compat; auto]. rewrite ln_Rinv; auto. Qed.
Lemma ln_sqrt x : 0 < x -> ln (sqrt x) = / 2 * ln x.
Proof. intros. rewrite <- Rpower_sqrt by assumption. apply ln_Rpower. Qed.
Lemma two_pi_pos : 0 < 2 * PI. Proof. pose proof PI_RGT_0. lra. Qed.
Lemma rsum_ln_prod n (f : nat -> R) : (forall k, (k < n)%nat -> 0 < f k) ->
  rsum n (fun k => ln (f k)) = ln (bprod RO n f).
Proof. induction n; intros H; cbn [rsum bprod]. cbn [o1 RO]. rewrite ln_1. reflexivity.
  cbn [omul RO]. rewrite IHn by (intros; apply H; lia).
  assert (0 < bprod RO n f).
  { clear IHn. induction n; cbn [bprod o1 omul RO]. lra. apply Rmult_lt_0_compat; [apply IHn; intros; apply H; lia | apply H; lia]. }
  rewrite ln_mult; auto. Qed.
Lemma bprod_pos n (f : nat -> R) : (forall k, (k < n)%nat -> 0 < f k) -> 0 < bprod RO n f.
Proof. induction n; intros H; cbn [bprod o1 omul RO]. lra.
  apply Rmult_lt_0_compat; [apply IHn; intros; apply H; lia | apply H; lia]. Qed.
Lemma rsum_const n c : rsum n (fun _ => c) = INR n * c.
Proof. induction n. cbn [rsum INR]. ring. cbn [rsum]. rewrite IHn, S_INR. ring. Qed.

(* ================================================================= real Gaussians *)
(* the density of N(mu, Sigma) at y, written with Sinv = Sigma^-1 and detS = det Sigma:
   exp(-1/2 (y-mu)^T Sinv (y-mu)) / sqrt((2 pi)^D detS) *)
Definition mahalanobis (D : nat) (Sinv : nat -> nat -> R) (d : nat -> R) : R :=
  rsum D (fun i => rsum D (fun j => d i * Sinv i j * d j)).
Definition normal_pdf (D : nat) (mu : nat -> R) (Sinv : nat -> nat -> R) (detS : R) (y : nat -> R) : R :=
  exp (- / 2 * mahalanobis D Sinv (fun i => y i - mu i)) / sqrt ((2 * PI) ^ D * detS).

Lemma ln_normal_pdf D mu Sinv detS y : 0 < detS ->
  ln (normal_pdf D mu Sinv detS y)
  = - (/ 2 * INR D * ln (2 * PI)) - / 2 * ln detS - / 2 * mahalanobis D Sinv (fun i => y i - mu i).
Proof. intros Hd. unfold normal_pdf.
  assert (Hp : 0 < (2 * PI) ^ D) by (apply pow_lt, two_pi_pos).
  assert (Hq : 0 < (2 * PI) ^ D * detS) by (apply Rmult_lt_0_compat; auto).
  rewrite ln_div; [| apply exp_pos | apply sqrt_lt_R0; auto].
  rewrite ln_exp, ln_sqrt, ln_mult, ln_pow by (auto using two_pi_pos). ring. Qed.

Lemma gauss_core_R D ldet w :
  gauss_core RO PI D ldet w = - (/ 2 * INR D * ln (2 * PI)) + ldet - / 2 * rsum D (fun k => w k * w k).
Proof. unfold gauss_core, osub. rewrite sumsq_R, half_R, two_R, onat_R. cbn [oadd omul oopp oln RO]. ring. Qed.

Section Whitening.
Variables (D : nat) (Pm : nat -> nat -> R) (x : nat -> R).
(* || Pm^T x ||^2 = x^T (Pm Pm^T) x, for every D *)
Theorem whitening_T_is_mahalanobis :
  rsum D (fun k => rsum D (fun i => Pm i k * x i) * rsum D (fun i => Pm i k * x i))
  = mahalanobis D (fun i j => rsum D (fun k => Pm i k * Pm j k)) x.
Proof. unfold mahalanobis.
  transitivity (rsum D (fun k => rsum D (fun i => rsum D (fun j => x i * (Pm i k * Pm j k) * x j)))).
  { apply rsum_ext; intros k Hk. rewrite <- rsum_scale. apply rsum_ext; intros i Hi.
    rewrite <- rsum_scale_l. apply rsum_ext; intros; ring. }
  rewrite rsum_swap. apply rsum_ext; intros i Hi. rewrite rsum_swap. apply rsum_ext; intros j Hj.
  rewrite <- rsum_scale_l, <- rsum_scale. apply rsum_ext; intros; ring. Qed.
End Whitening.

Section GaussFull.
Variables (D : nat) (mu y : nat -> R) (Pm Sinv : nat -> nat -> R) (detS : R).
(* contract of the precision Cholesky factor *)
Hypothesis Hprec : forall i j, (i < D)%nat -> (j < D)%nat -> rsum D (fun k => Pm i k * Pm j k) = Sinv i j.
Hypothesis Hdet : rsum D (fun k => ln (Pm k k)) = - / 2 * ln detS.
Hypothesis Hpos : 0 < detS.

Theorem gauss_full_logpdf_spec :
  gauss_full_logpdf RO PI D mu y Pm = ln (normal_pdf D mu Sinv detS y).
Proof. rewrite ln_normal_pdf by assumption. unfold gauss_full_logpdf. rewrite gauss_core_R.
  unfold ldet_full. rewrite bsum_RO. cbn [oln RO]. rewrite Hdet.
  replace (rsum D (fun k => white_T RO D mu y Pm k * white_T RO D mu y Pm k))
    with (mahalanobis D Sinv (fun i => y i - mu i)). ring.
  unfold white_T.
  rewrite (rsum_ext D _ (fun k => rsum D (fun i => Pm i k * (y i - mu i)) * rsum D (fun i => Pm i k * (y i - mu i)))).
  2:{ intros k Hk. rewrite !bsum_RO. reflexivity. }
  rewrite whitening_T_is_mahalanobis. unfold mahalanobis.
  apply rsum_ext; intros i Hi. apply rsum_ext; intros j Hj. rewrite Hprec; auto. Qed.
End GaussFull.

(* whitening with the rows of the factor ('...dD,...nD->...nd', Pm d) is NOT the Mahalanobis form:
   Pm = [[1,1],[0,1]] (the sklearn factor of covariance [[1,-1],[-1,2]]), y - mu = (1,0):
   ||Pm d||^2 = 1 but d^T Pm Pm^T d = 2 *)
Definition P2w (i j : nat) : R := match i, j with 0%nat, 0%nat => 1 | 0%nat, 1%nat => 1 | 1%nat, 1%nat => 1 | _, _ => 0 end.
Definition x2w (i : nat) : R := match i with 0%nat => 1 | _ => 0 end.
Theorem gauss_rows_whitening_refuted :
  exists D Pm Sinv detS mu y,
    (forall i j, (i < D)%nat -> (j < D)%nat -> rsum D (fun k => Pm i k * Pm j k) = Sinv i j) /\
    rsum D (fun k => ln (Pm k k)) = - / 2 * ln detS /\ 0 < detS /\
    gauss_full_logpdf_rows RO PI D mu y Pm <> ln (normal_pdf D mu Sinv detS y).
Proof.
  exists 2%nat, P2w, (fun i j => rsum 2 (fun k => P2w i k * P2w j k)), 1, (fun _ => 0), x2w.
  split; [reflexivity|]. split. { cbn [rsum P2w]. rewrite ln_1. lra. } split; [lra|].
  rewrite ln_normal_pdf by lra. unfold gauss_full_logpdf_rows. rewrite gauss_core_R.
  unfold ldet_full, white_rows, mahalanobis, gdiff, osub. rewrite !bsum_RO. cbn [rsum bsum oadd omul oopp oln o0 RO P2w x2w].
  rewrite ln_1. lra. Qed.

Section GaussDiag.
Variables (D : nat) (mu y cov : nat -> R).
Hypothesis Hcov : forall i, (i < D)%nat -> 0 < cov i.

Lemma pc_diag_R i : (i < D)%nat -> pc_diag RO cov i * pc_diag RO cov i = / cov i.
Proof. intros Hi. unfold pc_diag. cbn [oinv osqrt RO]. rewrite <- Rinv_mult. rewrite sqrt_sqrt; auto. left; auto. Qed.

(* product of the univariate densities N(mu_i, cov_i): Sigma = diag cov, Sigma^-1 = diag(1/cov), det = prod cov *)
Theorem gauss_diag_logpdf_spec :
  gauss_diag_logpdf RO PI D mu y cov
  = ln (normal_pdf D mu (fun i j => if Nat.eqb i j then / cov i else 0) (bprod RO D cov) y).
Proof. rewrite ln_normal_pdf by (apply bprod_pos; auto). unfold gauss_diag_logpdf. rewrite gauss_core_R.
  assert (E1 : ldet_diag RO D cov = - / 2 * ln (bprod RO D cov)).
  { unfold ldet_diag. rewrite bsum_RO. rewrite <- rsum_ln_prod by auto. rewrite <- rsum_scale_l.
    apply rsum_ext; intros i Hi. unfold pc_diag. cbn [oln oinv osqrt RO].
    rewrite ln_Rinv by (apply sqrt_lt_R0; auto). rewrite ln_sqrt by auto. ring. }
  rewrite E1.
  assert (E2 : rsum D (fun k => pc_diag RO cov k * gdiff RO mu y k * (pc_diag RO cov k * gdiff RO mu y k))
             = mahalanobis D (fun i j => if Nat.eqb i j then / cov i else 0) (fun i => y i - mu i)).
  { unfold mahalanobis. apply rsum_ext; intros i Hi.
    rewrite (rsum_ext D _ (fun j => if Nat.eqb j i then (y i - mu i) * / cov i * (y i - mu i) else 0)).
    2:{ intros j Hj. rewrite (Nat.eqb_sym i j). destruct (Nat.eqb_spec j i); [subst; reflexivity | ring]. }
    assert (Hd : forall n c, (i < n)%nat -> rsum n (fun j => if Nat.eqb j i then c else 0) = c).
    { induction n; intros c0 Hn; [lia|]. cbn [rsum]. destruct (Nat.eq_dec i n) as [->|Hne].
      - rewrite Nat.eqb_refl. rewrite rsum_zero. ring. intros k Hk. destruct (Nat.eqb_spec k n); [lia|reflexivity].
      - rewrite IHn by lia. destruct (Nat.eqb_spec n i); [lia|ring]. }
    rewrite Hd by auto. unfold gdiff, osub. cbn [oadd oopp omul RO].
    transitivity ((pc_diag RO cov i * pc_diag RO cov i) * ((y i - mu i) * (y i - mu i))). ring.
    rewrite pc_diag_R by auto. ring. }
  cbn [omul RO]. rewrite E2. ring. Qed.
End GaussDiag.

Section GaussSph.
Variables (D : nat) (mu y : nat -> R) (c : R).
Hypothesis Hc : 0 < c.
(* isotropic normal: Sigma = c I *)
Theorem gauss_sph_logpdf_spec :
  gauss_sph_logpdf RO PI D mu y c
  = ln (normal_pdf D mu (fun i j => if Nat.eqb i j then / c else 0) (c ^ D) y).
Proof.
  pose proof (gauss_diag_logpdf_spec D mu y (fun _ => c) (fun _ _ => Hc)) as H.
  assert (Ep : bprod RO D (fun _ => c) = c ^ D).
  { clear H. induction D; cbn [bprod pow o1 omul RO]. reflexivity. rewrite IHn. ring. }
  rewrite Ep in H. rewrite <- H. unfold gauss_sph_logpdf, gauss_diag_logpdf. rewrite !gauss_core_R.
  unfold ldet_sph, ldet_diag, pc_sph, pc_diag.
  rewrite (bsum_RO D (fun _ => oln RO (oinv RO (osqrt RO c)))), rsum_const, onat_R. reflexivity. Qed.
End GaussSph.

(* ================================================================= complex Gaussian *)
Lemma csum_delta_l n (f : nat -> C) i : (i < n)%nat ->
  csum n (fun k => (if Nat.eqb i k then RtoC 1 else RtoC 0) * f k)%C = f i.
Proof. induction n; intros Hi; [lia|]. cbn [csum]. destruct (Nat.eq_dec i n) as [->|Hne].
  - rewrite Nat.eqb_refl. rewrite csum_zero. ring.
    intros k Hk. destruct (Nat.eqb_spec n k); [lia|ring].
  - rewrite IHn by lia. destruct (Nat.eqb_spec i n); [lia|ring]. Qed.

(* density of the circularly symmetric complex normal CN(0, Sigma) w.r.t. Lebesgue measure on C^D,
   written with Sinv = Sigma^-1 and detS = det Sigma:  exp(- y^H Sinv y) / (pi^D detS) *)
Definition cnormal_pdf (D : nat) (Sinv : nat -> nat -> C) (detS : R) (y : nat -> C) : R :=
  exp (- fst (form D Sinv y y)) / (PI ^ D * detS).

Section CCSG.
Variables (D : nat) (Sigma Sinv : nat -> nat -> C) (detS logabsdet : R) (y sol : nat -> C).
(* contracts: solve, slogdet, and what "inverse" means *)
Hypothesis Hsolve : forall i, (i < D)%nat -> mv D Sigma sol i = y i.
Hypothesis Hinv : forall i k, (i < D)%nat -> (k < D)%nat ->
  csum D (fun j => Sinv i j * Sigma j k)%C = if Nat.eqb i k then RtoC 1 else RtoC 0.
Hypothesis Hdet : logabsdet = ln detS.
Hypothesis Hpos : 0 < detS.

Lemma solve_is_inverse_apply i : (i < D)%nat -> mv D Sinv y i = sol i.
Proof. intros Hi. unfold mv.
  transitivity (csum D (fun j => csum D (fun k => Sinv i j * Sigma j k * sol k)%C)).
  { apply csum_ext; intros j Hj. rewrite <- (Hsolve j Hj). unfold mv. rewrite <- csum_scal.
    apply csum_ext; intros; ring. }
  rewrite csum_swap.
  rewrite (csum_ext D _ (fun k => (if Nat.eqb i k then RtoC 1 else RtoC 0) * sol k)%C).
  2:{ intros k Hk. rewrite <- (Hinv i k Hi Hk). rewrite <- csum_scal_r. reflexivity. }
  apply csum_delta_l; auto. Qed.

Theorem ccsg_logpdf_spec :
  ccsg_logpdf RO PI D y logabsdet sol = ln (cnormal_pdf D Sinv detS y).
Proof. unfold cnormal_pdf.
  assert (Hp : 0 < PI ^ D) by (apply pow_lt, PI_RGT_0).
  rewrite ln_div; [| apply exp_pos | apply Rmult_lt_0_compat; auto].
  rewrite ln_exp. rewrite ln_mult by auto. rewrite ln_pow by apply PI_RGT_0.
  unfold ccsg_logpdf, osub. rewrite onat_R, csumO_RO. cbn [oadd omul oopp oln RO]. rewrite Hdet.
  replace (form D Sinv y y) with (csum D (fun d => cmul RO (cconj RO (y d)) (sol d))). ring.
  unfold form, dot. apply csum_ext; intros d Hd. rewrite solve_is_inverse_apply by auto. reflexivity. Qed.
End CCSG.

(* ================================================================= von Mises-Fisher *)
Lemma oabs_R a : oabs RO a = Rabs a.
Proof. unfold oabs. cbn [oleb o0 oopp RO]. unfold Rleb. destruct (Rle_dec 0 a).
  rewrite Rabs_right; auto. lra. rewrite Rabs_left; auto. lra. Qed.

(* density of vMF(mu, kappa) w.r.t. surface measure on the unit sphere of R^D, Iv = I_{D/2-1}(kappa):
   kappa^(D/2-1) / ((2 pi)^(D/2) Iv) * exp(kappa mu^T x) *)
Definition vmf_pdf (D : nat) (mu : nat -> R) (kappa Iv : R) (x : nat -> R) : R :=
  Rpower kappa (INR D / 2 - 1) / (Rpower (2 * PI) (INR D / 2) * Iv)
  * exp (kappa * rsum D (fun d => mu d * x d)).

(* Gamma(n/2) for n >= 1 by its recurrence from Gamma(1/2) = sqrt(pi), Gamma(1) = 1 *)
Fixpoint gamma_half (n : nat) : R :=
  match n with
  | 0%nat => 0
  | S 0%nat => sqrt PI
  | S (S m) => match m with 0%nat => 1 | _ => INR m / 2 * gamma_half m end
  end.
(* m-th term of the series of the modified Bessel function I_{D/2-1}(kappa):
   (kappa/2)^(2m + D/2 - 1) / (m! Gamma(m + D/2)) *)
Definition bessel_term (D : nat) (kappa : R) (m : nat) : R :=
  Rpower (kappa / 2) (2 * INR m + INR D / 2 - 1) / (INR (fact m) * gamma_half (2 * m + D)).

Lemma gamma_half_pos n : (1 <= n)%nat -> 0 < gamma_half n.
Proof.
  assert (H : forall k, (1 <= k)%nat -> 0 < gamma_half k /\ 0 < gamma_half (S k)).
  { induction k; intros Hk. lia.
    destruct k as [|k].
    - split. cbn [gamma_half]. apply sqrt_lt_R0, PI_RGT_0. cbn [gamma_half]. lra.
    - destruct (IHk ltac:(lia)) as [H1 H2]. split; auto.
      change (0 < INR (S k) / 2 * gamma_half (S k)).
      apply Rmult_lt_0_compat; auto. assert (0 < INR (S k)) by (apply lt_0_INR; lia). lra. }
  intros Hn. apply (H n Hn). Qed.

Lemma bessel_term_pos D kappa m : (1 <= D)%nat -> 0 < kappa -> 0 < bessel_term D kappa m.
Proof. intros HD Hk. unfold bessel_term, Rdiv. apply Rmult_lt_0_compat. apply exp_pos.
  apply Rinv_0_lt_compat, Rmult_lt_0_compat. apply lt_0_INR, lt_O_fact. apply gamma_half_pos. lia. Qed.

(* a convergent series of positive terms has a positive sum *)
Lemma is_series_pos (a : nat -> R) (l : R) : (forall n, 0 < a n) -> is_series a l -> 0 < l.
Proof. intros Ha Hs.
  assert (H : Rbar_le (Finite (a 0%nat)) (Finite l)).
  { apply (is_lim_seq_le (fun _ => a 0%nat) (sum_n a) (Finite (a 0%nat)) (Finite l)).
    - intros n. induction n. rewrite sum_O. lra. rewrite sum_Sn. unfold plus; simpl. pose proof (Ha (S n)). lra.
    - apply is_lim_seq_const.
    - exact Hs. }
  simpl in H. pose proof (Ha 0%nat). lra. Qed.

Section VMF.
Variables (D : nat) (mu y : nat -> R) (kappa ive tiny Iv : R).
Hypothesis HD : (1 <= D)%nat.
Hypothesis Hk : 0 < kappa.
Hypothesis Htiny : 0 < tiny.
Hypothesis Hnorm : tiny <= sqrt (rsum D (fun d => y d * y d)).
(* contract of scipy.special.ive: exponentially scaled modified Bessel function of the first kind *)
Hypothesis Hbessel : is_series (bessel_term D kappa) Iv.
Hypothesis Hive : ive = Iv * exp (- Rabs kappa).

Lemma bessel_pos : 0 < Iv.
Proof. apply (is_series_pos (bessel_term D kappa)); auto. intros; apply bessel_term_pos; auto. Qed.

Theorem vmf_logpdf_spec :
  vmf_logpdf RO PI D mu y kappa ive tiny
  = ln (vmf_pdf D mu kappa Iv (fun d => y d / sqrt (rsum D (fun d => y d * y d)))).
Proof.
  pose proof bessel_pos as HI. set (nrm := sqrt (rsum D (fun d => y d * y d))) in *.
  unfold vmf_pdf.
  assert (H1 : 0 < Rpower kappa (INR D / 2 - 1)) by apply exp_pos.
  assert (H2 : 0 < Rpower (2 * PI) (INR D / 2)) by apply exp_pos.
  rewrite ln_mult; [| apply Rdiv_lt_0_compat; auto; apply Rmult_lt_0_compat; auto | apply exp_pos].
  rewrite (ln_div (Rpower kappa (INR D / 2 - 1))) by (auto; apply Rmult_lt_0_compat; auto).
  rewrite (ln_mult (Rpower (2 * PI) (INR D / 2)) Iv) by auto. rewrite !ln_Rpower, ln_exp.
  unfold vmf_logpdf, vmf_lognorm, vmf_unit, halfD, osub, odiv. rewrite oabs_R, omax_RO, sumsq_R, two_R, onat_R, bsum_RO.
  cbn [oadd omul oopp oinv oln osqrt o1 RO]. fold nrm. rewrite Rmax_left by exact Hnorm.
  rewrite Hive. rewrite (ln_mult Iv (exp (- Rabs kappa))), ln_exp by (auto; apply exp_pos).
  rewrite (rsum_ext D (fun d => y d * / nrm * mu d) (fun d => mu d * (y d / nrm))) by (intros; unfold Rdiv; ring).
  unfold Rdiv. ring. Qed.
End VMF.

(* ================================================================= complex Watson *)
(* density of the complex Watson distribution w.r.t. surface measure on the unit sphere of C^D,
   M = 1F1(1; D; kappa):   (D-1)! / (2 pi^D M) * exp(kappa |mu^H z|^2) *)
Definition watson_pdf (D : nat) (mu : nat -> C) (kappa M : R) (z : nat -> C) : R :=
  INR (fact (D - 1)) / (2 * PI ^ D * M) * exp (kappa * (Cmod (dot D mu z)) ^ 2).
(* m-th term of Kummer's series 1F1(1; D; kappa) = sum_m kappa^m / (D)_m,  (D)_m = (D-1+m)!/(D-1)! *)
Definition kummer_term (D : nat) (kappa : R) (m : nat) : R :=
  kappa ^ m * INR (fact (D - 1)) / INR (fact (D - 1 + m)).

Section Watson.
Variables (D : nat) (mu y : nat -> C) (kappa h1f1 M : R).
Hypothesis Hkummer : is_series (kummer_term D kappa) M.
Hypothesis Hh : h1f1 = M.
Hypothesis HM : 0 < M.

Theorem watson_logpdf_spec :
  watson_logpdf RO PI D mu y kappa h1f1 = ln (watson_pdf D mu kappa M y).
Proof. unfold watson_pdf.
  assert (Hf : 0 < INR (fact (D - 1))) by apply lt_0_INR, lt_O_fact.
  assert (Hp : 0 < PI ^ D) by apply pow_lt, PI_RGT_0.
  assert (Hq : 0 < 2 * PI ^ D * M) by (apply Rmult_lt_0_compat; auto; lra).
  rewrite ln_mult; [| apply Rdiv_lt_0_compat; auto | apply exp_pos]. rewrite ln_exp, ln_div by auto.
  unfold watson_logpdf, watson_lognorm, osub, odiv. rewrite cabs2_RO, csumO_RO, two_R, opow_R, ofact_R.
  cbn [oadd omul oopp oinv oln RO]. rewrite Hh.
  replace (M * (2 * PI ^ D * / INR (fact (D - 1)))) with ((2 * PI ^ D * M) / INR (fact (D - 1))) by (unfold Rdiv; ring).
  rewrite ln_div by auto.
  replace (csum D (fun d => cmul RO (y d) (cconj RO (mu d)))) with (dot D mu y).
  2:{ unfold dot. apply csum_ext; intros. bridge. ring. }
  ring. Qed.
End Watson.

(* a convergent series with first term positive and all terms non-negative has a positive sum *)
Lemma kummer_pos D kappa M : 0 <= kappa -> is_series (kummer_term D kappa) M -> 0 < M.
Proof. intros Hk Hs.
  assert (H : Rbar_le (Finite 1) (Finite M)).
  { apply (is_lim_seq_le (fun _ => 1) (sum_n (kummer_term D kappa)) (Finite 1) (Finite M)).
    - assert (Hnn : forall m, 0 <= kummer_term D kappa m).
      { intros m. unfold kummer_term, Rdiv. apply Rmult_le_pos. apply Rmult_le_pos. apply pow_le; auto.
        apply pos_INR. left. apply Rinv_0_lt_compat, lt_0_INR, lt_O_fact. }
      intros n. induction n.
      + rewrite sum_O. unfold kummer_term. rewrite Nat.add_0_r. cbn [pow]. right. field. apply not_0_INR, fact_neq_0.
      + rewrite sum_Sn. unfold plus; simpl. pose proof (Hnn (S n)). lra.
    - apply is_lim_seq_const.
    - exact Hs. }
  simpl in H. lra. Qed.

(* Kummer's series in closed form (Mardia & Dryden 1999, eq. 3):
   1F1(1; D; kappa) = (D-1)! / kappa^(D-1) * (exp kappa - sum_{r < D-1} kappa^r / r!) *)
Lemma sum_n_rsum (a : nat -> R) n : sum_n a n = rsum (S n) a.
Proof. induction n. rewrite sum_O. cbn [rsum]. lra. rewrite sum_Sn, IHn. cbn [rsum]. reflexivity. Qed.

Theorem watson_series_closed_form D kappa : (1 <= D)%nat -> kappa <> 0 ->
  is_series (kummer_term D kappa)
    (INR (fact (D - 1)) / kappa ^ (D - 1) * (exp kappa - rsum (D - 1) (fun r => kappa ^ r / INR (fact r)))).
Proof. intros HD Hk.
  set (e := fun n : nat => kappa ^ n / INR (fact n)).
  assert (He : is_series e (exp kappa)).
  { pose proof (is_exp_Reals kappa) as H. unfold is_pseries in H.
    eapply is_series_ext; [| exact H]. intros n. unfold e, scal; simpl. unfold mult; simpl.
    rewrite pow_n_pow. unfold Rdiv. reflexivity. }
  set (n := (D - 1)%nat).
  assert (Hshift : is_series (fun k => e (n + k)%nat) (exp kappa - rsum n e)).
  { destruct n as [|n'] eqn:En.
    - cbn [rsum]. rewrite Rminus_0_r. exact He.
    - apply is_series_incr_n. lia. cbn [pred]. rewrite sum_n_rsum. unfold plus; simpl.
      replace (exp kappa - (rsum n' e + e n') + (rsum n' e + e n')) with (exp kappa) by ring. exact He. }
  assert (Hkn : kappa ^ n <> 0) by (apply pow_nonzero; auto).
  assert (Hsc := is_series_scal_l (INR (fact n) / kappa ^ n) _ _ Hshift).
  eapply is_series_ext; [| exact Hsc]. intros m. unfold scal; simpl. unfold mult; simpl.
  unfold kummer_term, e. fold n. rewrite pow_add. field. split; [apply not_0_INR, fact_neq_0 | auto]. Qed.

(* ================================================================= reindexing finite sums / products *)
Section Big.
Variables (op : R -> R -> R) (e : R).
Hypothesis op_comm : forall a b, op a b = op b a.
Hypothesis op_assoc : forall a b c, op a (op b c) = op (op a b) c.
Hypothesis op_e : forall a, op e a = a.
Fixpoint big (n : nat) (g : nat -> R) : R := match n with 0%nat => e | S k => op (big k g) (g k) end.
Definition lbig (l : list R) : R := fold_right op e l.
Lemma lbig_app l x : lbig (l ++ [x]) = op (lbig l) x.
Proof. induction l; cbn [app lbig fold_right]. rewrite op_e, op_comm, op_e. reflexivity.
  fold (lbig (l ++ [x])). rewrite IHl. fold (lbig l). apply op_assoc. Qed.
Lemma big_lbig n g : big n g = lbig (map g (seq 0 n)).
Proof. induction n. reflexivity. rewrite seq_S, map_app. cbn [map]. rewrite lbig_app, <- IHn. reflexivity. Qed.
Lemma lbig_perm l l' : Permutation l l' -> lbig l = lbig l'.
Proof. induction 1; cbn [lbig fold_right]; auto.
  - fold (lbig l) (lbig l'). rewrite IHPermutation. reflexivity.
  - fold (lbig l). rewrite !op_assoc. rewrite (op_comm y x). reflexivity.
  - congruence. Qed.
Lemma NoDup_map_bInj (f : nat -> nat) n : bInjective n f -> NoDup (map f (seq 0 n)).
Proof. intros Hi.
  assert (H : forall l, NoDup l -> (forall x, In x l -> (x < n)%nat) -> NoDup (map f l)).
  { induction l; intros Hn Hb; cbn [map]. constructor. inversion Hn; subst. constructor.
    - rewrite in_map_iff. intros (x & Hx & Hin). apply H1.
      assert (x = a) by (apply Hi; auto; apply Hb; [right; auto | left; auto]). subst; auto.
    - apply IHl; auto. intros; apply Hb; right; auto. }
  apply H. apply seq_NoDup. intros x Hx. apply in_seq in Hx. lia. Qed.
Lemma big_reindex n (f : nat -> nat) g : bFun n f -> bInjective n f -> big n (fun i => g (f i)) = big n g.
Proof. intros Hb Hi. rewrite !big_lbig. rewrite <- (map_map f g). apply lbig_perm. apply Permutation_map.
  apply NoDup_Permutation_bis. apply NoDup_map_bInj; auto. rewrite map_length; auto.
  intros x Hx. apply in_map_iff in Hx. destruct Hx as (k & <- & Hk). apply in_seq in Hk. apply in_seq.
  pose proof (Hb k). lia. Qed.
Lemma big_ext n g h : (forall k, (k < n)%nat -> g k = h k) -> big n g = big n h.
Proof. induction n; intros H; cbn [big]; auto. rewrite IHn, H; auto. Qed.
End Big.

Lemma rsum_big n g : rsum n g = big Rplus 0 n g.
Proof. induction n; cbn [rsum big]; auto; rewrite IHn; reflexivity. Qed.
Lemma bprod_big n g : bprod RO n g = big Rmult 1 n g.
Proof. induction n; cbn [bprod big]; auto; rewrite IHn; reflexivity. Qed.
Lemma rsum_reindex n f g : bFun n f -> bInjective n f -> rsum n (fun i => g (f i)) = rsum n g.
Proof. intros. rewrite !rsum_big. apply big_reindex; auto; intros; ring. Qed.
Lemma bprod_reindex n f g : bFun n f -> bInjective n f -> bprod RO n (fun i => g (f i)) = bprod RO n g.
Proof. intros. rewrite !bprod_big. apply big_reindex; auto; intros; ring. Qed.
Lemma bprod_ext n g h : (forall k, (k < n)%nat -> g k = h k) -> bprod RO n g = bprod RO n h.
Proof. intros. rewrite !bprod_big. apply big_ext; auto. Qed.

(* ================================================================= complex Bingham *)
(* Kent (1994): c(lam) = 2 pi^D sum_j exp(lam_j) / prod_{i <> j} (lam_j - lam_i);
   density  exp(z^H B z) / c(lam)  w.r.t. surface measure on the unit sphere of C^D *)
Definition kent_coeff (D : nat) (lam : nat -> R) (j : nat) : R :=
  / bprod RO D (fun i => if Nat.eqb i j then 1 else lam j - lam i).
Definition kent_normaliser (D : nat) (lam : nat -> R) : R :=
  2 * PI ^ D * rsum D (fun j => kent_coeff D lam j * exp (lam j)).
Definition bingham_pdf (D : nat) (B : nat -> nat -> C) (lam : nat -> R) (z : nat -> C) : R :=
  exp (fst (form D B z z)) / kent_normaliser D lam.
(* B = E diag(lam) E^H *)
Definition eig_compose (D : nat) (E : nat -> nat -> C) (lam : nat -> R) (w z : nat) : C :=
  csum D (fun x => E w x * RtoC (lam x) * Cconj (E z x))%C.

Lemma kent_normaliser_perm D lam lam' f : bFun D f -> bInjective D f ->
  (forall x, (x < D)%nat -> lam' x = lam (f x)) -> kent_normaliser D lam' = kent_normaliser D lam.
Proof. intros Hb Hi Hl. unfold kent_normaliser. f_equal.
  rewrite <- (rsum_reindex D f (fun j => kent_coeff D lam j * exp (lam j)) Hb Hi).
  apply rsum_ext; intros j Hj. rewrite (Hl j Hj). f_equal. unfold kent_coeff. f_equal.
  rewrite <- (bprod_reindex D f (fun i => if Nat.eqb i (f j) then 1 else lam (f j) - lam i) Hb Hi).
  apply bprod_ext; intros i Hi'. rewrite (Hl i Hi'), (Hl j Hj).
  destruct (Nat.eqb_spec i j) as [->|Hne]. rewrite Nat.eqb_refl; reflexivity.
  destruct (Nat.eqb_spec (f i) (f j)) as [Heq|]; [|reflexivity]. exfalso. apply Hne. apply Hi; auto. Qed.

(* --- sorting and the duplicate-eigenvalue spreading --- *)
Lemma oinsert_perm a l : Permutation (oinsert RO a l) (a :: l).
Proof. induction l; cbn [oinsert]. reflexivity. destruct (oleb RO a a0). reflexivity.
  rewrite IHl. apply perm_swap. Qed.
Lemma osort_perm l : Permutation (osort RO l) l.
Proof. induction l; cbn [osort]. constructor. rewrite oinsert_perm. constructor; auto. Qed.

Fixpoint chainG (eps prev : R) (l : list R) : Prop :=
  match l with [] => True | h :: t => eps <= h - prev /\ chainG eps h t end.
Definition sortedG (eps : R) (l : list R) : Prop := match l with [] => True | h :: t => chainG eps h t end.

Lemma spread_aux_id eps s0 l : forall acc prev, s0 + acc = prev -> chainG eps prev l ->
  spread_aux RO eps s0 acc prev l = l.
Proof. induction l; intros acc prev He Hc; cbn [spread_aux]. reflexivity. destruct Hc as [H1 H2].
  unfold osub. cbn [oadd oopp RO]. rewrite omax_RO. rewrite Rmax_left by lra.
  f_equal. lra. apply IHl; auto. lra. Qed.
Lemma spread_id eps l : sortedG eps l -> spread RO eps l = l.
Proof. destruct l; cbn [spread sortedG]; intros H. reflexivity. f_equal. apply spread_aux_id; auto. cbn [o0 RO]. lra. Qed.

Definition far (eps a b : R) : Prop := eps <= Rabs (a - b).
Lemma chainG_insert eps a : forall s p, chainG eps p s -> eps <= a - p -> List.Forall (far eps a) s ->
  chainG eps p (oinsert RO a s).
Proof. induction s; intros p Hc Ha Hf; cbn [oinsert]. cbn [chainG]. auto.
  destruct Hc as [H1 H2]. inversion Hf; subst. cbn [oleb RO]. destruct (Rleb a a0) eqn:El.
  - apply Rleb_true in El. cbn [chainG]. repeat split; auto. unfold far in H3.
    rewrite Rabs_left1 in H3 by lra. lra.
  - apply Rleb_false in El. cbn [chainG]. split; auto. apply IHs; auto. unfold far in H3.
    rewrite Rabs_right in H3 by lra. lra. Qed.
Lemma sortedG_insert eps a s : sortedG eps s -> List.Forall (far eps a) s -> sortedG eps (oinsert RO a s).
Proof. destruct s; intros Hs Hf; cbn [oinsert sortedG]. exact I.
  inversion Hf; subst. cbn [oleb RO]. destruct (Rleb a r) eqn:El.
  - apply Rleb_true in El. cbn [sortedG chainG]. split; auto. unfold far in H1. rewrite Rabs_left1 in H1 by lra. lra.
  - apply Rleb_false in El. cbn [sortedG]. apply chainG_insert; auto. unfold far in H1. rewrite Rabs_right in H1 by lra. lra. Qed.
Lemma Forall_insert (Q : R -> Prop) a s : Q a -> List.Forall Q s -> List.Forall Q (oinsert RO a s).
Proof. induction s; intros Ha Hs; cbn [oinsert]. auto. inversion Hs; subst. destruct (oleb RO a a0); auto. Qed.
Lemma Forall_osort (Q : R -> Prop) l : List.Forall Q l -> List.Forall Q (osort RO l).
Proof. induction l; intros H; cbn [osort]. auto. inversion H; subst. apply Forall_insert; auto. Qed.
(* pairwise gaps >= eps, in any order  ==>  the sorted list has consecutive gaps >= eps *)
Lemma osort_sortedG eps l : List.ForallOrdPairs (far eps) l -> sortedG eps (osort RO l).
Proof. induction 1; cbn [osort]. exact I. apply sortedG_insert; auto. apply Forall_osort; auto. Qed.

Lemma remove_duplicates_id eps l : List.ForallOrdPairs (far eps) l -> remove_duplicates RO eps l = osort RO l.
Proof. intros H. unfold remove_duplicates. apply spread_id. apply osort_sortedG; auto. Qed.

Section Bingham.
Variables (D : nat) (E : nat -> nat -> C) (lam : list R) (y : nat -> C) (eps : R).
Hypothesis Hlen : length lam = D.
(* the property's domain: pairwise eigenvalue gaps of at least eps (1e-8 in the code, 1e-3 in the property) *)
Hypothesis Hgap : List.ForallOrdPairs (far eps) lam.
Hypothesis Hnorm : 0 < kent_normaliser D (fun i => nth i lam 0).

Lemma herm_form_R (f : nat -> R) :
  herm_form RO D y (eig_matrix RO D E f) = form D (eig_compose D E f) y y.
Proof. unfold herm_form, form, dot, mv. rewrite csumO_RO. apply csum_ext; intros d Hd. rewrite csumO_RO.
  rewrite <- csum_scal. apply csum_ext; intros e He. bridge.
  replace (eig_matrix RO D E f d e) with (eig_compose D E f d e). ring.
  unfold eig_matrix, eig_compose. etransitivity; [| symmetry; apply csumO_RO].
  apply csum_ext; intros x Hx. bridge. rewrite cscale_RO. ring. Qed.

Lemma bingham_norm_R l' :
  bingham_norm RO PI D l' = kent_normaliser D l'.
Proof. unfold bingham_norm, kent_normaliser, kent_sum. rewrite two_R, opow_R, bsum_RO. cbn [omul RO]. reflexivity. Qed.

Theorem bingham_logpdf_spec :
  bingham_logpdf RO PI D E lam y eps
  = ln (bingham_pdf D (eig_compose D E (fun i => nth i lam 0)) (fun i => nth i lam 0) y).
Proof. unfold bingham_pdf. rewrite ln_div by (auto; apply exp_pos). rewrite ln_exp.
  unfold bingham_logpdf, bingham_lognorm, osub. cbn [oadd oopp oln RO].
  rewrite herm_form_R. unfold lam_at. cbn [o0 RO]. rewrite bingham_norm_R.
  rewrite remove_duplicates_id by auto.
  pose proof (osort_perm lam) as Hp. apply Permutation_sym in Hp.
  apply (Permutation_nth lam (osort RO lam) 0) in Hp. cbv zeta in Hp. destruct Hp as (Hl & f & Hb & Hi & Hf).
  rewrite Hlen in *.
  rewrite (kent_normaliser_perm D (fun i => nth i lam 0) (fun i => nth i (osort RO lam) 0) f Hb Hi Hf).
  reflexivity. Qed.
End Bingham.

(* ================================================================= complex angular central Gaussian *)
(* cACG density on the unit sphere of C^D:  (D-1)!/(2 pi^D) * 1/det B * (z^H B^-1 z)^(-D);
   log_pdf is documented (property C07) as the density TIMES the sphere area 2 pi^D/(D-1)!, i.e.
   1/det B * (z^H B^-1 z)^(-D), written here with Binv = B^-1 and detB = det B *)
Definition cacg_pdf_times_area (D : nat) (Binv : nat -> nat -> C) (detB : R) (z : nat -> C) : R :=
  / detB * / (fst (form D Binv z z)) ^ D.
Definition sphere_area (D : nat) : R := 2 * PI ^ D / INR (fact (D - 1)).
Definition cacg_pdf (D : nat) (Binv : nat -> nat -> C) (detB : R) (z : nat -> C) : R :=
  INR (fact (D - 1)) / (2 * PI ^ D) * cacg_pdf_times_area D Binv detB z.

Lemma cacg_pdf_area D Binv detB z : cacg_pdf_times_area D Binv detB z = cacg_pdf D Binv detB z * sphere_area D.
Proof. unfold cacg_pdf, sphere_area. field. split. apply not_0_INR, fact_neq_0.
  assert (0 < PI ^ D) by apply pow_lt, PI_RGT_0. lra. Qed.

Section CACG.
Variables (D : nat) (E : nat -> nat -> C) (lam : nat -> R) (y : nat -> C) (tiny detB : R).
Hypothesis Hlam : forall e, (e < D)%nat -> 0 < lam e.
(* eigen-decomposition contract: E unitary; det of B = E diag(lam) E^H is the product of the eigenvalues *)
Hypothesis HEE : forall a b, (a < D)%nat -> (b < D)%nat ->
  csum D (fun d => Cconj (E d a) * E d b)%C = if Nat.eqb a b then RtoC 1 else RtoC 0.
Hypothesis HEEt : forall a b, (a < D)%nat -> (b < D)%nat ->
  csum D (fun x => E a x * Cconj (E b x))%C = if Nat.eqb a b then RtoC 1 else RtoC 0.
Hypothesis Hdet : detB = bprod RO D lam.
Let nrm := sqrt (rsum D (fun d => Cmod (y d) * Cmod (y d))).
Hypothesis Hy : 0 < nrm.
Let z (d : nat) : C := (RtoC (/ nrm) * y d)%C.
Let Binv := eig_compose D E (fun e => / lam e).
Let B := eig_compose D E lam.
Hypothesis Htiny : tiny <= fst (form D Binv z z).
Hypothesis Htiny0 : 0 < tiny.

(* Binv is the inverse of the matrix B the class stands for *)
Lemma eig_inverse i k : (i < D)%nat -> (k < D)%nat ->
  csum D (fun j => Binv i j * B j k)%C = if Nat.eqb i k then RtoC 1 else RtoC 0.
Proof. intros Hi Hk. unfold Binv, B, eig_compose.
  transitivity (csum D (fun a => csum D (fun b =>
     (E i a * RtoC (/ lam a) * RtoC (lam b) * Cconj (E k b)) * csum D (fun j => Cconj (E j a) * E j b))))%C.
  { transitivity (csum D (fun j => csum D (fun a => csum D (fun b =>
        (E i a * RtoC (/ lam a) * RtoC (lam b) * Cconj (E k b)) * (Cconj (E j a) * E j b)))))%C.
    { apply csum_ext; intros j Hj. rewrite <- csum_scal_r. apply csum_ext; intros a Ha.
      rewrite <- csum_scal. apply csum_ext; intros b Hb. ring. }
    rewrite csum_swap. apply csum_ext; intros a Ha. rewrite csum_swap. apply csum_ext; intros b Hb.
    rewrite <- csum_scal. reflexivity. }
  transitivity (csum D (fun a => E i a * Cconj (E k a)))%C; [| apply HEEt; auto].
  apply csum_ext; intros a Ha.
  rewrite (csum_ext D _ (fun b => (if Nat.eqb a b then RtoC 1 else RtoC 0) * (E i a * RtoC (/ lam a) * RtoC (lam b) * Cconj (E k b))))%C.
  2:{ intros b Hb. rewrite HEE by auto. ring. }
  rewrite csum_delta_l by auto.
  assert (Hl1 : (RtoC (/ lam a) * RtoC (lam a) = 1)%C).
  { rewrite <- RtoC_mult, Rinv_l. reflexivity. pose proof (Hlam a Ha); lra. }
  transitivity (E i a * (RtoC (/ lam a) * RtoC (lam a)) * Cconj (E k a))%C. ring. rewrite Hl1. ring. Qed.

Lemma cacg_unit_R d : cacg_unit RO D y tiny d = z d.
Proof. unfold cacg_unit, cnorm. rewrite bsum_RO.
  rewrite (rsum_ext D _ (fun d => Cmod (y d) * Cmod (y d))) by (intros; apply cabs2_RO).
  cbn [osqrt oleb o0 oinv RO]. fold nrm.
  assert (El : Rleb nrm 0 = false) by (apply Rleb_false; auto). rewrite El. cbn [andb].
  rewrite cscale_RO. reflexivity. Qed.

Definition proj (e : nat) : C := csum D (fun g => Cconj (E g e) * z g)%C.

Lemma cacg_form_real :
  cacg_form_c RO D E lam y tiny = RtoC (rsum D (fun e => / lam e * (Cmod (proj e) * Cmod (proj e)))).
Proof. unfold cacg_form_c. rewrite csumO_RO. rewrite <- csum_RtoC. apply csum_ext; intros e He.
  rewrite cscale_RO.
  rewrite (csumO_RO D (fun d => cmul RO (cconj RO (cacg_unit RO D y tiny d)) (E d e))).
  rewrite (csumO_RO D (fun g => cmul RO (cconj RO (E g e)) (cacg_unit RO D y tiny g))).
  cbn [oinv RO]. bridge.
  rewrite (csum_ext D (fun g => Cconj (E g e) * cacg_unit RO D y tiny g)%C (fun g => Cconj (E g e) * z g)%C)
    by (intros; rewrite cacg_unit_R; reflexivity).
  rewrite (csum_ext D (fun d => Cconj (cacg_unit RO D y tiny d) * E d e)%C (fun d => Cconj (Cconj (E d e) * z d))%C).
  2:{ intros d Hd. rewrite cacg_unit_R, Cconj_mult, Cconj_conj. ring. }
  rewrite <- csum_conj. fold (proj e). rewrite conj_mul_self. rewrite <- RtoC_mult. reflexivity. Qed.

Lemma form_Binv : form D Binv z z = RtoC (rsum D (fun e => / lam e * (Cmod (proj e) * Cmod (proj e)))).
Proof. rewrite <- csum_RtoC. unfold form, dot, mv, Binv, eig_compose.
  transitivity (csum D (fun i => csum D (fun j => csum D (fun e =>
     RtoC (/ lam e) * (Cconj (Cconj (E i e) * z i) * (Cconj (E j e) * z j))))))%C.
  { apply csum_ext; intros i Hi. rewrite <- csum_scal. apply csum_ext; intros j Hj. rewrite <- csum_scal_r, <- csum_scal.
    apply csum_ext; intros e He. rewrite Cconj_mult, Cconj_conj. ring. }
  rewrite (csum_ext D _ (fun i => csum D (fun e => csum D (fun j =>
     RtoC (/ lam e) * (Cconj (Cconj (E i e) * z i) * (Cconj (E j e) * z j))))))%C by (intros; apply csum_swap).
  rewrite csum_swap. apply csum_ext; intros e He.
  rewrite (csum_ext D _ (fun i => RtoC (/ lam e) * Cconj (Cconj (E i e) * z i) * proj e))%C.
  2:{ intros i Hi. unfold proj. rewrite <- csum_scal. apply csum_ext; intros; ring. }
  rewrite csum_scal_r.
  rewrite csum_scal, <- csum_conj. fold (proj e). rewrite <- Cmult_assoc, conj_mul_self, <- RtoC_mult. reflexivity. Qed.

Theorem cacg_logpdf_spec :
  cacg_logpdf RO D E lam y tiny = ln (cacg_pdf_times_area D Binv detB z).
Proof.
  set (q := rsum D (fun e => / lam e * (Cmod (proj e) * Cmod (proj e)))).
  assert (Hq : form D Binv z z = RtoC q) by apply form_Binv.
  assert (Hqt : tiny <= q). { rewrite Hq in Htiny. exact Htiny. }
  assert (Hq0 : 0 < q) by lra.
  unfold cacg_pdf_times_area. rewrite Hq. cbn [fst RtoC].
  assert (Hd0 : 0 < detB). { rewrite Hdet. apply bprod_pos; auto. }
  rewrite ln_mult by (apply Rinv_0_lt_compat; auto; apply pow_lt; auto).
  rewrite !ln_Rinv by (auto; apply pow_lt; auto). rewrite ln_pow by auto.
  unfold cacg_logpdf, cacg_quadratic_form, cacg_logdet, osub. rewrite cacg_form_real. fold q.
  assert (Ea : cabs RO (RtoC q) = q).
  { unfold cabs. rewrite cabs2_RO. cbn [osqrt RO]. rewrite sqrt_square by apply Cmod_ge_0.
    rewrite Cmod_R. apply Rabs_right. lra. }
  rewrite Ea, omax_RO, Rmax_left by exact Hqt. rewrite onat_R, bsum_RO. cbn [oadd omul oopp oln RO].
  rewrite Hdet. rewrite <- rsum_ln_prod by auto. ring. Qed.
End CACG.

(* ================================================================= executable truncated series = partial sums *)
Lemma kummer_term_step D kappa m : (1 <= D)%nat ->
  kummer_term D kappa (S m) = kummer_term D kappa m * kappa / INR (D + m).
Proof. intros HD. unfold kummer_term.
  replace (D - 1 + S m)%nat with (S (D - 1 + m)) by lia.
  replace (D + m)%nat with (S (D - 1 + m)) by lia.
  rewrite fact_simpl, mult_INR. cbn [pow]. field. split. apply not_0_INR, fact_neq_0. apply not_0_INR. lia. Qed.

Lemma kummer_sum_aux_R D kappa : (1 <= D)%nat -> forall n m t acc,
  t = kummer_term D kappa m -> acc = rsum (S m) (kummer_term D kappa) ->
  kummer_sum_aux RO kappa D n m t acc = rsum (S (m + n)) (kummer_term D kappa).
Proof. intros HD. induction n; intros m t acc Ht Ha; cbn [kummer_sum_aux].
  - rewrite Nat.add_0_r. exact Ha.
  - replace (m + S n)%nat with (S m + n)%nat by lia. apply IHn.
    + unfold odiv. cbn [omul oinv RO]. rewrite onat_R, Ht, kummer_term_step by auto. reflexivity.
    + cbn [rsum]. unfold odiv. cbn [oadd omul oinv RO]. rewrite onat_R, Ht, Ha, kummer_term_step by auto.
      cbn [rsum]. reflexivity. Qed.

(* the executable Kummer sum is the n-th partial sum of the series in the Watson contract *)
Theorem kummer_sum_partial D kappa n : (1 <= D)%nat ->
  kummer_sum RO D kappa n = sum_n (kummer_term D kappa) n.
Proof. intros HD. rewrite sum_n_rsum. unfold kummer_sum.
  apply (kummer_sum_aux_R D kappa HD n 0%nat (o1 RO) (o1 RO)); cbn [o1 RO].
  - unfold kummer_term. rewrite Nat.add_0_r. cbn [pow]. field. apply not_0_INR, fact_neq_0.
  - cbn [rsum]. unfold kummer_term. rewrite Nat.add_0_r. cbn [pow]. field. apply not_0_INR, fact_neq_0. Qed.

Lemma gamma_half_step k : (1 <= k)%nat -> gamma_half (S (S k)) = INR k / 2 * gamma_half k.
Proof. intros Hk. destruct k; [lia|]. reflexivity. Qed.

Lemma bessel_term_step D kappa m : (1 <= D)%nat -> 0 < kappa ->
  bessel_term D kappa (S m)
  = bessel_term D kappa m * (kappa * kappa / (2 * 2)) / (INR (S m) * (INR D / 2 + INR m)).
Proof. intros HD Hk. unfold bessel_term.
  replace (2 * INR (S m) + INR D / 2 - 1) with ((2 * INR m + INR D / 2 - 1) + INR 2) by (rewrite (S_INR m); change (INR 2) with (1 + 1); lra).
  rewrite Rpower_plus. rewrite Rpower_pow by lra.
  replace (2 * S m + D)%nat with (S (S (2 * m + D))) by lia.
  rewrite gamma_half_step by lia. rewrite fact_simpl, mult_INR, plus_INR, mult_INR.
  assert (0 < gamma_half (2 * m + D)) by (apply gamma_half_pos; lia).
  assert (0 < INR (fact m)) by apply lt_0_INR, lt_O_fact.
  assert (0 < INR (S m)) by (apply lt_0_INR; lia).
  assert (0 < INR D) by (apply lt_0_INR; lia). pose proof (pos_INR m).
  simpl (INR 2). field. repeat split; try lra. Qed.

Lemma bessel_sum_aux_R D kappa : (1 <= D)%nat -> 0 < kappa -> forall n m t acc,
  t * bessel_term D kappa 0 = bessel_term D kappa m ->
  acc * bessel_term D kappa 0 = rsum (S m) (bessel_term D kappa) ->
  bessel_sum_aux RO (kappa * kappa / (2 * 2)) (INR D / 2) n m t acc * bessel_term D kappa 0
  = rsum (S (m + n)) (bessel_term D kappa).
Proof. intros HD Hk. induction n; intros m t acc Ht Ha; cbn [bessel_sum_aux].
  - rewrite Nat.add_0_r. exact Ha.
  - replace (m + S n)%nat with (S m + n)%nat by lia.
    assert (Hden : INR (S m) * (INR D / 2 + INR m) <> 0).
    { assert (0 < INR (S m)) by (apply lt_0_INR; lia). assert (0 < INR D) by (apply lt_0_INR; lia).
      pose proof (pos_INR m). apply Rgt_not_eq. apply Rmult_lt_0_compat; lra. }
    assert (Et : t * (kappa * kappa / (2 * 2)) / (INR (S m) * (INR D / 2 + INR m)) * bessel_term D kappa 0
                 = bessel_term D kappa (S m)).
    { rewrite bessel_term_step by auto. rewrite <- Ht. field.
      assert (0 < INR (S m)) by (apply lt_0_INR; lia). assert (0 < INR D) by (apply lt_0_INR; lia).
      pose proof (pos_INR m). split; lra. }
    apply IHn; unfold odiv; cbn [oadd omul oinv RO]; rewrite !onat_R.
    + exact Et.
    + cbn [rsum] in *. rewrite Rmult_plus_distr_r. rewrite Ha. f_equal. exact Et. Qed.

(* the executable Bessel sum times the leading term is the n-th partial sum of the series in the vMF contract *)
Theorem bessel_sum_partial D kappa n : (1 <= D)%nat -> 0 < kappa ->
  bessel_sum RO D kappa n * bessel_term D kappa 0 = sum_n (bessel_term D kappa) n.
Proof. intros HD Hk. rewrite sum_n_rsum. unfold bessel_sum, halfD, odiv. rewrite two_R, onat_R. cbn [omul oinv o1 RO].
  change (kappa * kappa * / (2 * 2)) with (kappa * kappa / (2 * 2)). change (INR D * / 2) with (INR D / 2).
  apply (bessel_sum_aux_R D kappa HD Hk n 0%nat 1 1). ring. cbn [rsum]. ring. Qed.

Lemma ogamma_half_R n : ogamma_half RO PI n = gamma_half n.
Proof.
  assert (H : forall k, ogamma_half RO PI k = gamma_half k /\ ogamma_half RO PI (S k) = gamma_half (S k)).
  { induction k. split; reflexivity. destruct IHk as [H1 H2]. split; auto.
    destruct k. reflexivity.
    change (ogamma_half RO PI (S (S (S k)))) with (omul RO (odiv RO (onat RO (S k)) (two RO)) (ogamma_half RO PI (S k))).
    change (gamma_half (S (S (S k)))) with (INR (S k) / 2 * gamma_half (S k)).
    rewrite H1. unfold odiv. rewrite two_R, onat_R. reflexivity. }
  apply (H n). Qed.

(* the series form of the vMF log-normaliser is the log-normaliser of the density with I replaced by
   the n-th partial sum of its series *)
Theorem vmf_lognorm_series_partial D kappa n : (1 <= D)%nat -> 0 < kappa ->
  vmf_lognorm_series RO PI D kappa n
  = ln (Rpower (2 * PI) (INR D / 2) * sum_n (bessel_term D kappa) n / Rpower kappa (INR D / 2 - 1)).
Proof. intros HD Hk. rewrite <- bessel_sum_partial by auto.
  assert (Hs : 0 < bessel_sum RO D kappa n * bessel_term D kappa 0).
  { rewrite bessel_sum_partial by auto. rewrite sum_n_rsum.
    assert (forall k, 0 < rsum (S k) (bessel_term D kappa)).
    { intros k; induction k as [|k IH]; cbn [rsum] in *.
      pose proof (bessel_term_pos D kappa 0 HD Hk); lra.
      pose proof (bessel_term_pos D kappa (S k) HD Hk); lra. }
    auto. }
  assert (Hb0 : 0 < bessel_term D kappa 0) by (apply bessel_term_pos; auto).
  assert (Hbs : 0 < bessel_sum RO D kappa n).
  { destruct (Rlt_or_le 0 (bessel_sum RO D kappa n)); auto. exfalso.
    assert (bessel_sum RO D kappa n * bessel_term D kappa 0 <= 0 * bessel_term D kappa 0)
      by (apply Rmult_le_compat_r; lra). lra. }
  rewrite ln_div; [| apply Rmult_lt_0_compat; auto; apply exp_pos | apply exp_pos].
  rewrite ln_mult by (auto; apply exp_pos). rewrite ln_mult by auto. rewrite !ln_Rpower.
  unfold bessel_term at 1. rewrite ln_div; [| apply exp_pos |].
  2:{ apply Rmult_lt_0_compat. apply lt_0_INR, lt_O_fact. apply gamma_half_pos. lia. }
  rewrite ln_Rpower. cbn [fact Nat.mul Nat.add]. rewrite (ln_mult (INR 1) (gamma_half D)); [| simpl; lra | apply gamma_half_pos; lia].
  simpl (INR 1). simpl (INR 0). rewrite ln_1.
  unfold vmf_lognorm_series, halfD, osub, odiv. rewrite ogamma_half_R, two_R, onat_R. cbn [oadd omul oopp oinv oln o1 RO].
  change (kappa * / 2) with (kappa / 2). change (INR D * / 2) with (INR D / 2). ring. Qed.

(* ================================================================= C03: spherical GMM, maximum-posterior class *)
Local Open Scope R_scope.
(* shared spherical covariance c: the class whose mean is nearer (after the weight offset 2 c ln(pik/pij)) has the larger
   weighted log-pdf, i.e. the maximum-posterior class of the spherical GMM is the (weight-adjusted) nearest prototype *)
Theorem gmm_sph_map (D : nat) (muj muk y : nat -> R) (c pij pik : R) : 0 < c -> 0 < pij -> 0 < pik ->
  rsum D (fun i => (y i - muj i) * (y i - muj i)) + 2 * c * ln (pik / pij)
    < rsum D (fun i => (y i - muk i) * (y i - muk i)) ->
  ln pik + gauss_sph_logpdf RO PI D muk y c < ln pij + gauss_sph_logpdf RO PI D muj y c.
Proof.
  intros Hc Hj Hk H. unfold gauss_sph_logpdf. rewrite !gauss_core_R.
  assert (E : forall mu, rsum D (fun k => pc_sph RO c * gdiff RO mu y k * (pc_sph RO c * gdiff RO mu y k))
                         = / c * rsum D (fun i => (y i - mu i) * (y i - mu i))).
  { intros mu. rewrite <- rsum_scale_l. apply rsum_ext; intros i Hi.
    unfold gdiff, osub. cbn [oadd oopp omul RO].
    transitivity ((pc_sph RO c * pc_sph RO c) * ((y i - mu i) * (y i - mu i))). ring.
    replace (pc_sph RO c * pc_sph RO c) with (/ c). reflexivity.
    unfold pc_sph. cbn [oinv osqrt RO]. rewrite <- Rinv_mult. rewrite sqrt_sqrt; auto. left; auto. }
  cbn [omul RO]. rewrite !E.
  unfold Rdiv in H. rewrite ln_mult in H by (auto; apply Rinv_0_lt_compat; auto). rewrite ln_Rinv in H by auto.
  set (dj := rsum D (fun i => (y i - muj i) * (y i - muj i))) in *.
  set (dk := rsum D (fun i => (y i - muk i) * (y i - muk i))) in *.
  assert (Hic : 0 < / c) by (apply Rinv_0_lt_compat; auto).
  assert (H2 : / c * (dj + 2 * c * (ln pik + - ln pij)) < / c * dk) by (apply Rmult_lt_compat_l; auto).
  replace (/ c * (dj + 2 * c * (ln pik + - ln pij))) with (/ c * dj + 2 * (ln pik - ln pij)) in H2 by (field; lra).
  lra.
Qed.

(* shared diagonal covariance: classes are ranked by the weight-adjusted Mahalanobis distance *)
Theorem gmm_diag_map (D : nat) (muj muk y cov : nat -> R) (pij pik : R) :
  (forall i, (i < D)%nat -> 0 < cov i) -> 0 < pij -> 0 < pik ->
  rsum D (fun i => / cov i * ((y i - muj i) * (y i - muj i))) + 2 * ln (pik / pij)
    < rsum D (fun i => / cov i * ((y i - muk i) * (y i - muk i))) ->
  ln pik + gauss_diag_logpdf RO PI D muk y cov < ln pij + gauss_diag_logpdf RO PI D muj y cov.
Proof.
  intros Hc Hj Hk H. unfold gauss_diag_logpdf. rewrite !gauss_core_R.
  assert (E : forall mu, rsum D (fun k => pc_diag RO cov k * gdiff RO mu y k * (pc_diag RO cov k * gdiff RO mu y k))
                         = rsum D (fun i => / cov i * ((y i - mu i) * (y i - mu i)))).
  { intros mu. apply rsum_ext; intros i Hi.
    unfold gdiff, osub. cbn [oadd oopp omul RO].
    transitivity ((pc_diag RO cov i * pc_diag RO cov i) * ((y i - mu i) * (y i - mu i))). ring.
    replace (pc_diag RO cov i * pc_diag RO cov i) with (/ cov i). reflexivity.
    unfold pc_diag. cbn [oinv osqrt RO]. rewrite <- Rinv_mult. rewrite sqrt_sqrt; auto. left; auto. }
  cbn [omul RO]. rewrite !E.
  unfold Rdiv in H. rewrite ln_mult in H by (auto; apply Rinv_0_lt_compat; auto). rewrite ln_Rinv in H by auto.
  lra.
Qed.
