(* Proofs/EMAscent.v -- C02: EM never decreases the mixture log-likelihood.
   em_point (Jensen / Gibbs, pointwise, any K), em_ascent (N observations with saliencies), the weight update
   maximises its part of Q, per-coordinate Gaussian M-step optimality, the cACG minoriser, and the induction
   over iterations (every prefix of the history) through fit_monotone_guarded. *)
From Coq Require Import Reals Lra Lia.
From Coquelicot Require Import Coquelicot.
From PB Require Import Ops CLin Model.EM Proofs.EM.
Open Scope R_scope.

Lemma rsum_sub n f g : rsum n (fun k => f k - g k) = rsum n f - rsum n g.
Proof. induction n; cbn [rsum]; [lra| rewrite IHn; lra]. Qed.
Lemma rsum_const_EM n c : rsum n (fun _ => c) = INR n * c.
Proof. induction n. cbn [rsum]. simpl. lra. cbn [rsum]. rewrite IHn, S_INR. lra. Qed.
Lemma rsum_pos n f : (0<n)%nat -> (forall k, (k<n)%nat -> 0 < f k) -> 0 < rsum n f.
Proof. intros Hn H. induction n. lia. cbn [rsum]. destruct n. cbn [rsum]. specialize (H 0%nat ltac:(lia)). lra.
  assert (0 < rsum (S n) f) by (apply IHn; [lia|intros; apply H; lia]). specialize (H (S n) ltac:(lia)). lra. Qed.
Lemma ln_le_sub1 x : 0 < x -> ln x <= x - 1.
Proof. intros Hx. pose proof (exp_ineq1_le (ln x)) as H. rewrite exp_ln in H by assumption. lra. Qed.
Lemma ln_div x y : 0 < x -> 0 < y -> ln (x / y) = ln x - ln y.
Proof. intros. unfold Rdiv. rewrite ln_mult; auto; [|apply Rinv_0_lt_compat; auto]. rewrite ln_Rinv; auto. Qed.

(* ---- pointwise EM inequality ---- *)
Section Point.
Variable K : nat. Hypothesis HK : (0 < K)%nat.
Variables p p' : nat -> R.     (* old and new joints pi_k f_k(y) *)
Hypothesis Hp : forall k, (k<K)%nat -> 0 < p k.
Hypothesis Hp' : forall k, (k<K)%nat -> 0 < p' k.
Lemma em_point : rsum K (fun k => p k / rsum K p * (ln (p' k) - ln (p k))) <= ln (rsum K p') - ln (rsum K p).
Proof.
  set (Sp := rsum K p). set (Sp' := rsum K p').
  assert (HS: 0 < Sp) by (apply rsum_pos; auto). assert (HS': 0 < Sp') by (apply rsum_pos; auto).
  set (c := ln Sp' - ln Sp).
  assert (Hg: rsum K (fun k => p k / Sp) = 1) by (unfold Rdiv; rewrite rsum_scale; fold Sp; field; lra).
  assert (Hg': rsum K (fun k => p' k / Sp') = 1) by (unfold Rdiv; rewrite rsum_scale; fold Sp'; field; lra).
  assert (Hk: rsum K (fun k => p k / Sp * (ln (p' k) - ln (p k)) - p k / Sp * c) <= rsum K (fun k => p' k / Sp' - p k / Sp)).
  { apply rsum_le. intros k Hk. pose proof (Hp k Hk) as H1. pose proof (Hp' k Hk) as H2.
    set (g := p k / Sp). assert (Hgp: 0 < g) by (apply Rdiv_lt_0_compat; auto).
    assert (Hq: 0 < p' k / Sp') by (apply Rdiv_lt_0_compat; auto).
    set (r := (p' k / Sp') / g). assert (Hr: 0 < r) by (apply Rdiv_lt_0_compat; auto).
    assert (Hl: ln r = (ln (p' k) - ln (p k)) - c) by (unfold r, g, c; rewrite !ln_div; auto; lra).
    pose proof (ln_le_sub1 r Hr).
    replace (p' k / Sp' - g) with (g * (r - 1)) by (unfold r; field; lra).
    replace (g * (ln (p' k) - ln (p k)) - g * c) with (g * ln r) by (rewrite Hl; ring).
    apply Rmult_le_compat_l; lra. }
  rewrite !rsum_sub in Hk. rewrite rsum_scale in Hk. rewrite Hg, Hg' in Hk. lra.
Qed.
End Point.

(* ---- EM ascent over N observations with saliencies ---- *)
Section Ascent.
Variables N K : nat. Hypothesis HK : (0 < K)%nat.
Variable sal : nat -> R. Hypothesis Hsal : forall n, (n<N)%nat -> 0 <= sal n.
(* observed-data log-likelihood of the joints q n k = pi_k(n) f_k(y_n) *)
Definition loglik (q : nat -> nat -> R) := rsum N (fun n => sal n * ln (rsum K (q n))).
(* posterior under p, and the auxiliary function Q(q | p) *)
Definition gamma (p : nat -> nat -> R) n k := p n k / rsum K (p n).
Definition Qfun (p q : nat -> nat -> R) := rsum N (fun n => sal n * rsum K (fun k => gamma p n k * ln (q n k))).
Variables p p' : nat -> nat -> R.   (* p n k *)
Hypothesis Hp : forall n k, (n<N)%nat -> (k<K)%nat -> 0 < p n k.
Hypothesis Hp' : forall n k, (n<N)%nat -> (k<K)%nat -> 0 < p' n k.
Theorem em_gap : Qfun p p' - Qfun p p <= loglik p' - loglik p.
Proof.
  unfold Qfun, loglik. rewrite <- !rsum_sub. apply rsum_le. intros n Hn.
  pose proof (em_point K HK (p n) (p' n) (fun k Hk => Hp n k Hn Hk) (fun k Hk => Hp' n k Hn Hk)) as E.
  pose proof (Hsal n Hn).
  replace (sal n * rsum K (fun k => gamma p n k * ln (p' n k)) - sal n * rsum K (fun k => gamma p n k * ln (p n k)))
     with (sal n * rsum K (fun k => p n k / rsum K (p n) * (ln (p' n k) - ln (p n k)))).
  2:{ rewrite <- Rmult_minus_distr_l. f_equal. rewrite <- rsum_sub. apply rsum_ext; intros; unfold gamma; ring. }
  nra.
Qed.
Theorem em_ascent : Qfun p p <= Qfun p p' -> loglik p <= loglik p'.
Proof. intros HQ. pose proof em_gap. lra. Qed.
End Ascent.

(* ---- Gibbs: the (saliency-weighted) mean affiliation maximises the weight part of Q ---- *)
Section Gibbs.
Variable K : nat.
Variables c pi : nat -> R.      (* c_k = sum_n s_n gamma_k(n) > 0 ; pi any positive weights summing to one *)
Hypothesis Hc : forall k, (k<K)%nat -> 0 < c k.
Hypothesis Hpi : forall k, (k<K)%nat -> 0 < pi k.
Hypothesis Hsum : rsum K pi = 1.
Hypothesis HK : (0<K)%nat.
Theorem weight_update_maximises :
  rsum K (fun k => c k * ln (pi k)) <= rsum K (fun k => c k * ln (c k / rsum K c)).
Proof.
  set (C := rsum K c). assert (HC: 0 < C) by (apply rsum_pos; auto).
  assert (H: rsum K (fun k => c k * ln (pi k) - c k * ln (c k / C)) <= rsum K (fun k => C * pi k - c k)).
  { apply rsum_le. intros k Hk. pose proof (Hc k Hk). pose proof (Hpi k Hk).
    assert (Hr: 0 < pi k * C / c k) by (apply Rdiv_lt_0_compat; auto; nra).
    pose proof (ln_le_sub1 _ Hr) as L.
    assert (E: ln (pi k * C / c k) = ln (pi k) - ln (c k / C)).
    { rewrite !ln_div; auto; try nra. rewrite ln_mult by auto. lra. }
    rewrite E in L.
    replace (c k * ln (pi k) - c k * ln (c k / C)) with (c k * (ln (pi k) - ln (c k / C))) by ring.
    replace (C * pi k - c k) with (c k * (pi k * C / c k - 1)) by (field; lra).
    apply Rmult_le_compat_l; lra. }
  rewrite !rsum_sub in H.
  assert (E2: rsum K (fun k => C * pi k) = C).
  { rewrite rsum_scale_l, Hsum. ring. }
  rewrite E2 in H. fold C in H. lra.
Qed.
End Gibbs.

(* ---- one coordinate of a diagonal / spherical Gaussian: weighted mean and variance are the maximisers ---- *)
Section Coord.
Variable N : nat. Variables g y : nat -> R.
Hypothesis Hg : forall n, (n<N)%nat -> 0 <= g n.
Let G := rsum N g.
Hypothesis HG : 0 < G.
Let mu_hat := rsum N (fun n => g n * y n) / G.
Let var_hat := rsum N (fun n => g n * (y n - mu_hat) * (y n - mu_hat)) / G.
Hypothesis Hvar : 0 < var_hat.
(* weighted log-likelihood of one coordinate, dropping the constant -G/2 ln(2 pi) *)
Definition ll (mu v : R) := rsum N (fun n => g n * (- / 2 * ln v - (y n - mu) * (y n - mu) / (2 * v))).
Lemma scatter_decomp mu :
  rsum N (fun n => g n * (y n - mu) * (y n - mu)) = G * var_hat + G * (mu_hat - mu) * (mu_hat - mu).
Proof.
  assert (E1: rsum N (fun n => g n * (y n - mu_hat)) = 0).
  { transitivity (rsum N (fun n => g n * y n + (- mu_hat) * g n)). apply rsum_ext; intros; ring.
    rewrite rsum_plus, rsum_scale_l. fold G. unfold mu_hat. field. lra. }
  transitivity (rsum N (fun n => g n * (y n - mu_hat) * (y n - mu_hat) + (2 * (mu_hat - mu)) * (g n * (y n - mu_hat)) + ((mu_hat - mu) * (mu_hat - mu)) * g n)).
  apply rsum_ext; intros; ring.
  rewrite !rsum_plus, !rsum_scale_l, E1. fold G. unfold var_hat. field. lra.
Qed.
Lemma ll_closed mu v : 0 < v ->
  ll mu v = - G / 2 * ln v - (G * var_hat + G * (mu_hat - mu) * (mu_hat - mu)) / (2 * v).
Proof. intros Hv. unfold ll.
  transitivity (rsum N (fun n => (- / 2 * ln v) * g n + (- / (2 * v)) * (g n * (y n - mu) * (y n - mu)))).
  apply rsum_ext; intros; field; lra.
  rewrite rsum_plus, !rsum_scale_l, scatter_decomp. fold G. field. lra. Qed.
Theorem gaussian_coord_mstep_max mu v : 0 < v -> ll mu v <= ll mu_hat var_hat.
Proof.
  intros Hv. rewrite (ll_closed mu v Hv), (ll_closed mu_hat var_hat Hvar).
  replace (mu_hat - mu_hat) with 0 by ring.
  assert (Hd: 0 <= (mu_hat - mu) * (mu_hat - mu)) by (apply Rle_0_sqr).
  assert (Hsq: 0 <= G * (mu_hat - mu) * (mu_hat - mu)) by (rewrite Rmult_assoc; apply Rmult_le_pos; lra).
  assert (Hr: 0 < var_hat / v) by (apply Rdiv_lt_0_compat; auto).
  pose proof (ln_le_sub1 _ Hr) as L.
  assert (El: ln (var_hat / v) = ln var_hat - ln v) by (apply ln_div; auto).
  rewrite El in L.
  assert (Hi: 0 < / v) by (apply Rinv_0_lt_compat; auto).
  assert (E1: (G * var_hat + G * (mu_hat - mu) * (mu_hat - mu)) / (2 * v) = G / 2 * (var_hat / v) + G * (mu_hat - mu) * (mu_hat - mu) * / v / 2) by (field; lra).
  assert (E2: (G * var_hat + G * 0 * 0) / (2 * var_hat) = G / 2) by (field; lra).
  rewrite E1, E2.
  assert (Hx: 0 <= G * (mu_hat - mu) * (mu_hat - mu) * / v / 2).
  { unfold Rdiv. apply Rmult_le_pos; [apply Rmult_le_pos; lra | lra]. }
  assert (Hy: G / 2 * (ln var_hat - ln v) <= G / 2 * (var_hat / v - 1)) by (apply Rmult_le_compat_l; lra).
  lra.
Qed.
End Coord.

(* ---- cACG: the surrogate -D ln q0 - D (q/q0 - 1) touches -D ln q at q0 and minorises it (Tyler / Ito MM step) ---- *)
Theorem cacg_minorise (Dn q q0 : R) : 0 <= Dn -> 0 < q -> 0 < q0 ->
  - Dn * ln q0 - Dn * (q / q0 - 1) <= - Dn * ln q /\ (q = q0 -> - Dn * ln q0 - Dn * (q / q0 - 1) = - Dn * ln q).
Proof. intros HD Hq Hq0. split.
  - assert (Hr : 0 < q / q0) by (apply Rdiv_lt_0_compat; auto).
    pose proof (ln_le_sub1 _ Hr) as L. rewrite ln_div in L by auto. nra.
  - intros ->. replace (q0 / q0) with 1 by (field; lra). ring. Qed.

(* ---- induction over iterations: every prefix of the history has non-decreasing log-likelihood ---- *)
Section Monotone.
Variables Theta Gamma : Type.
Variables (E : Theta -> Gamma) (M : Gamma -> Theta).
Variables N K : nat. Hypothesis HK : (0 < K)%nat.
Variable sal : nat -> R. Hypothesis Hsal : forall n, (n<N)%nat -> 0 <= sal n.
Variable J : Theta -> nat -> nat -> R.         (* joints pi_k(n) f_k(y_n) of a model *)
Variable Guard : Theta -> Prop.                (* "no numerical guard active" region *)
Hypothesis HJ : forall t n k, Guard t -> (n<N)%nat -> (k<K)%nat -> 0 < J t n k.
Hypothesis HJ' : forall t n k, Guard t -> (n<N)%nat -> (k<K)%nat -> 0 < J (step E M t) n k.
(* each M-step does not decrease the auxiliary function (exact or minorise-maximise M-step) *)
Hypothesis HQ : forall t, Guard t -> Qfun N K sal (J t) (J t) <= Qfun N K sal (J t) (J (step E M t)).
Theorem em_monotone j t : (forall i, (i < j)%nat -> Guard (fit_from E M i t)) ->
  loglik N K sal (J t) <= loglik N K sal (J (fit_from E M j t)).
Proof. intros HG.
  apply (fit_monotone_guarded Theta Gamma E M (fun th => loglik N K sal (J th)) Guard); auto.
  intros th Hth. apply em_ascent; auto. Qed.
End Monotone.

(* ---- full-covariance Gaussian / cACG matrix M-step, in the eigenbasis of Sigma^-1 S ----
   For a class with mass c > 0 and weighted scatter S (positive definite), the class part of Q as a function of the
   covariance Sigma is  -c/2 (ln det Sigma + tr(Sigma^-1 S)).  With lam_1..lam_D > 0 the eigenvalues of Sigma^-1 S
   (contract of the eigen-decomposition: det(Sigma^-1 S) = prod lam_i, tr(Sigma^-1 S) = sum lam_i) this is
   -c/2 (ln det S - sum ln lam_i + sum lam_i), and Sigma = S (all lam_i = 1) maximises it: *)
Theorem spectral_logdet_trace (D : nat) (lam : nat -> R) :
  (forall i, (i < D)%nat -> 0 < lam i) -> rsum D (fun i => ln (lam i)) <= rsum D lam - INR D.
Proof. intros H. rewrite <- (Rmult_1_r (INR D)). rewrite <- (rsum_const_EM D 1) .
  rewrite <- rsum_sub. apply rsum_le; intros i Hi. apply ln_le_sub1. apply H; exact Hi. Qed.
Theorem full_covariance_mstep_spectral (D : nat) (c ldS : R) (lam : nat -> R) :
  0 <= c -> (forall i, (i < D)%nat -> 0 < lam i) ->
  - c / 2 * (ldS - rsum D (fun i => ln (lam i)) + rsum D lam) <= - c / 2 * (ldS + INR D).
Proof. intros Hc H. pose proof (spectral_logdet_trace D lam H). nra. Qed.
