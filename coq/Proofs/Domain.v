(* Proofs/Domain.v -- C09: what one M-step of every trainer guarantees about the DOMAIN of the fitted parameters, for all
   sizes and all inputs (also the degenerate ones: the floored / totalised branches are stated as they are), instance RO.
   By fit_invariant(_valid) the statements hold after any number of EM iterations.
   Oracles (eigh, the Watson spline, least_squares) enter through their written contracts as hypotheses. *)
From Coq Require Import Reals List Lra Lia Bool Arith.
From Coquelicot Require Import Coquelicot.
From PB Require Import Ops CLin Model.Posterior Model.Trainers Model.PSD Model.EM Model.Domain Proofs.Posterior Proofs.PSD Proofs.EM.
Import ListNotations.
Open Scope R_scope.

(* ------------------------------------------------------------------ weights *)
Section Weights.
Variables (K' G : nat) (a : nat -> nat -> R).
Let K := S K'.
Hypothesis HG : (0 < G)%nat.
Hypothesis Ha : forall k g, (k<K)%nat -> (g<G)%nat -> 0 <= a k g.

Lemma weight_mean_nonneg k : (k<K)%nat -> 0 <= weight_mean RO G a k.
Proof. intros Hk. unfold weight_mean. cbn [omul oinv RO]. rewrite onat_R, bsum_RO.
  apply Rmult_le_pos. apply rsum_nonneg; intros; apply Ha; auto. left; apply Rinv_0_lt_compat, lt_0_INR; auto. Qed.

(* saliency None: mean over the tied cells of affiliations whose columns sum to one within K*eps0
   (eps0 = affiliation_eps; eps0 = 0 gives exact normalisation) *)
Theorem weights_domain_mean eps0 :
  (forall g, (g<G)%nat -> Rabs (rsum K (fun k => a k g) - 1) <= INR K * eps0) ->
  (forall k, (k<K)%nat -> 0 <= weight_mean RO G a k) /\
  Rabs (rsum K (weight_mean RO G a) - 1) <= INR K * eps0.
Proof. intros Hn. split. apply weight_mean_nonneg. apply (weight_mean_clipped K' G a HG eps0 Hn). Qed.

Variables (s : nat -> R) (eps : R).
Hypothesis Hs : forall g, (g<G)%nat -> 0 <= s g.

Lemma wsum_nonneg k : (k<K)%nat -> 0 <= wsum RO G a s k.
Proof. intros Hk. unfold wsum. rewrite bsum_RO. apply rsum_nonneg; intros g Hg. cbn [omul RO]. apply Rmult_le_pos; auto. Qed.

(* saliency given: L1 normalisation; exact distribution whenever some tied cell carries mass *)
Theorem weights_domain_sal :
  0 < rsum K (wsum RO G a s) ->
  (forall k, (k<K)%nat -> 0 <= weight_sal RO K' G a s eps k) /\ rsum K (weight_sal RO K' G a s eps) = 1.
Proof. apply (weight_sal_valid K' G a s eps Ha Hs). Qed.

(* ... and the totalised branch (no mass in the whole tied group): all weights are exactly 0, never NaN *)
Theorem weights_domain_sal_degenerate :
  rsum K (wsum RO G a s) = 0 -> forall k, (k<K)%nat -> weight_sal RO K' G a s eps k = 0.
Proof. intros Hz k Hk.
  assert (Hall : forall j, (j<K)%nat -> wsum RO G a s j = 0).
  { intros j Hj. pose proof (term_le_rsum K (wsum RO G a s) j wsum_nonneg Hj). pose proof (wsum_nonneg j Hj). lra. }
  unfold weight_sal. cbn [omul RO]. rewrite (Hall k Hk). ring. Qed.

(* integration models: sum / sum without a guard *)
Theorem weights_domain_int :
  0 < rsum K (wsum RO G a s) ->
  (forall k, (k<K)%nat -> 0 <= weight_int RO K' G a s k) /\ rsum K (weight_int RO K' G a s) = 1.
Proof. intros Hpos. unfold weight_int. cbn [omul oinv RO]. rewrite bsum_RO.
  assert (E : forall j, bsum RO G (fun g => a j g * s g) = wsum RO G a s j) by reflexivity.
  rewrite (rsum_ext (S K') _ (wsum RO G a s)) by (intros; apply E). fold K.
  assert (Hi : 0 < / rsum K (wsum RO G a s)) by (apply Rinv_0_lt_compat; auto).
  split. intros k Hk. rewrite E. apply Rmult_le_pos; [apply wsum_nonneg; auto | lra].
  rewrite (rsum_ext K _ (fun k => wsum RO G a s k * / rsum K (wsum RO G a s))) by (intros; rewrite E; reflexivity).
  rewrite rsum_scale. field. lra. Qed.
End Weights.

(* class axis tied: the constant 1/K *)
Theorem weights_domain_uniform K : (0 < K)%nat ->
  0 < weight_uniform RO K /\ rsum K (fun _ => weight_uniform RO K) = 1.
Proof. intros HK. unfold weight_uniform. cbn [oinv RO]. rewrite onat_R. assert (0 < INR K) by (apply lt_0_INR; auto).
  split. apply Rinv_0_lt_compat; auto. rewrite rsum_const. field. lra. Qed.

(* "constant along the tied axes" is structural: the update returns ONE number per class and tied group (the stored
   array has a singleton / no axis there); the weight used at cell g of the group is that number for every g *)
Theorem weights_tied_constant G (a : nat -> nat -> R) (k g g' : nat) :
  (fun (k g : nat) => weight_mean RO G a k) k g = (fun (k g : nat) => weight_mean RO G a k) k g'.
Proof. reflexivity. Qed.

(* documented shape: keepdims puts 1 on the tied axes and keeps every other extent *)
Lemma keepdims_from_length pos sh axes : length (keepdims_from pos sh axes) = length sh.
Proof. revert pos. induction sh; intros; simpl; auto. Qed.
Lemma keepdims_from_nth sh axes : forall pos i, (i < length sh)%nat ->
  nth i (keepdims_from pos sh axes) 0%nat = if mem_nat (pos + i) axes then 1%nat else nth i sh 0%nat.
Proof. induction sh as [|n r IH]; intros pos i Hi; simpl in Hi. lia.
  destruct i; simpl. rewrite Nat.add_0_r. reflexivity.
  rewrite IH by lia. replace (S pos + i)%nat with (pos + S i)%nat by lia. reflexivity. Qed.
Theorem weight_shape_documented sh axes i : (i < length sh)%nat ->
  length (weight_shape_keepdims sh axes false) = length sh /\
  nth i (weight_shape_keepdims sh axes false) 0%nat = if mem_nat i axes then 1%nat else nth i sh 0%nat.
Proof. intros Hi. unfold weight_shape_keepdims. split. apply keepdims_from_length. apply (keepdims_from_nth sh axes 0 i Hi). Qed.
(* ------------------------------------------------------------------ cACG eigenvalues *)
Section Eig.
Variables (D' : nat) (ev : nat -> R) (tiny floor : R).
Hypothesis Ht : 0 < tiny.
Let M := bmax RO D' ev.
Let post := eig_post_eigenvalue RO tiny D' floor ev.
Let other := eig_post_other RO tiny D' floor ev.

Lemma post_RO i : post i = Rmax (ev i / Rmax M tiny) floor.
Proof. unfold post, eig_post_eigenvalue, odiv. rewrite !omax_RO. reflexivity. Qed.
Lemma other_RO i : other i = Rmax (ev i) (Rmax (M * floor) tiny).
Proof. unfold other, eig_post_other. rewrite !omax_RO. reflexivity. Qed.

(* for ANY real spectrum (also negative / all-zero ones): inside [floor, 1] as soon as floor <= 1 *)
Theorem cacg_eig_range : floor <= 1 -> forall i, (i <= D')%nat -> floor <= post i <= 1.
Proof. intros Hf i Hi. rewrite post_RO. split. apply Rmax_r. apply Rmax_lub; [|lra].
  pose proof (bmax_ge D' ev i Hi) as Hge. fold M in Hge.
  assert (Hp : 0 < Rmax M tiny) by (eapply Rlt_le_trans; [exact Ht | apply Rmax_r]).
  apply Rmult_le_reg_r with (Rmax M tiny); auto. unfold Rdiv. rewrite Rmult_assoc, Rinv_l by lra.
  pose proof (Rmax_l M tiny). lra. Qed.

(* regular case: the largest raw eigenvalue is at least tiny: maximum exactly 1 *)
Theorem cacg_eig_domain : tiny <= M -> floor <= 1 ->
  (forall i, (i <= D')%nat -> floor <= post i <= 1) /\ exists i, (i <= D')%nat /\ post i = 1.
Proof. intros Hm Hf. split. apply cacg_eig_range; auto.
  destruct (bmax_attained D' ev) as [k [Hk E]]. exists k. split; auto. rewrite post_RO. fold M in E. rewrite <- E.
  rewrite (Rmax_left M tiny) by lra. unfold Rdiv. rewrite Rinv_r by lra. apply Rmax_left. lra. Qed.

(* degenerate case (largest raw eigenvalue below tiny, e.g. the all-zero scatter of a class whose frames are all zero):
   what comes out is max(ev/tiny, floor), every value is < 1, so the maximum is NOT 1 *)
Theorem cacg_eig_degenerate : M < tiny -> floor < 1 ->
  (forall i, (i <= D')%nat -> post i = Rmax (ev i / tiny) floor /\ post i < 1) /\
  (M <= 0 -> 0 <= floor -> forall i, (i <= D')%nat -> post i = floor).
Proof. intros Hm Hf.
  assert (E : forall i, post i = Rmax (ev i / tiny) floor).
  { intros i. rewrite post_RO. rewrite (Rmax_right M tiny) by lra. reflexivity. }
  assert (Hi : 0 < / tiny) by (apply Rinv_0_lt_compat; auto).
  split.
  - intros i Hk. split. apply E. rewrite E. pose proof (bmax_ge D' ev i Hk) as Hge. fold M in Hge.
    apply Rmax_lub_lt; [|lra]. apply Rmult_lt_reg_r with tiny; auto. unfold Rdiv. rewrite Rmult_assoc, Rinv_l by lra. lra.
  - intros Hz Hf0 i Hk. rewrite E. apply Rmax_right. pose proof (bmax_ge D' ev i Hk) as Hge. fold M in Hge.
    assert (ev i / tiny <= 0). { unfold Rdiv. nra. } lra. Qed.

(* covariance_norm = 'trace' / False: absolute flooring by max(max ev * floor, tiny) > 0 *)
Theorem cacg_eig_other_domain : forall i, (i <= D')%nat ->
  Rmax (M * floor) tiny <= other i /\ 0 < other i /\ ev i <= other i /\
  (Rmax (M * floor) tiny <= ev i -> other i = ev i).
Proof. intros i Hi. rewrite other_RO.
  assert (Hp : 0 < Rmax (M * floor) tiny) by (eapply Rlt_le_trans; [exact Ht | apply Rmax_r]).
  repeat split. apply Rmax_r. eapply Rlt_le_trans; [exact Hp | apply Rmax_r]. apply Rmax_l.
  intros H. apply Rmax_left; auto. Qed.

(* unit trace "up to flooring": the floored spectrum of a non-negative spectrum adds at most D * max(M*floor, tiny) *)
Theorem cacg_eig_other_sum : (forall i, (i <= D')%nat -> 0 <= ev i) ->
  rsum (S D') ev <= rsum (S D') other <= rsum (S D') ev + INR (S D') * Rmax (M * floor) tiny.
Proof. intros Hnn. split.
  - apply rsum_le. intros i Hi. rewrite other_RO. apply Rmax_l.
  - rewrite <- rsum_const, <- rsum_plus. apply rsum_le. intros i Hi. rewrite other_RO.
    assert (Hp : 0 < Rmax (M * floor) tiny) by (eapply Rlt_le_trans; [exact Ht | apply Rmax_r]).
    specialize (Hnn i ltac:(lia)). apply Rmax_lub; lra. Qed.
End Eig.

(* the clause "maximum 1" is FALSE for the faithful model on a valid spectrum: zero scatter *)
Theorem cacg_eig_max_one_refuted :
  exists (D' : nat) (ev : nat -> R) (tiny floor : R), 0 < tiny /\ 0 < floor <= 1 /\ (forall i, 0 <= ev i) /\
    ~ (exists i, (i <= D')%nat /\ eig_post_eigenvalue RO tiny D' floor ev i = 1).
Proof. exists 2%nat, (fun _ => 0), (/ 4), (/ 2). split; [lra|]. split; [lra|]. split; [intros; lra|]. intros [i [Hi E]].
  assert (Hm : bmax RO 2 (fun _ => 0) = 0). { cbn [bmax]. rewrite !omax_RO. unfold Rmax. repeat destruct (Rle_dec _ _); lra. }
  unfold eig_post_eigenvalue, odiv in E. rewrite !omax_RO in E. rewrite Hm in E. cbn [omul oinv RO] in E.
  rewrite Rmult_0_l in E. rewrite (Rmax_right 0 (/ 2)) in E by lra. lra. Qed.

(* trace normalisation before eigh: unit trace whenever the trace is at least tiny; zero matrix stays zero *)
Theorem cacg_trace_normalise_unit D tiny (A : nat -> nat -> C) :
  0 < tiny -> tiny <= trace_re RO D A -> trace_re RO D (trace_normalise RO D tiny A) = 1.
Proof. intros Ht Hm. remember (trace_re RO D A) as t eqn:Et.
  assert (E1 : forall d, fst (trace_normalise RO D tiny A d d) = fst (A d d) * / t).
  { intros d. unfold trace_normalise, cscale. cbn [fst omul oinv RO]. rewrite omax_RO, <- Et. rewrite (Rmax_left t tiny) by lra. ring. }
  unfold trace_re. rewrite bsum_RO. rewrite (rsum_ext D _ (fun d => fst (A d d) * / t)) by (intros; apply E1).
  rewrite rsum_scale.
  assert (E : rsum D (fun d => fst (A d d)) = t). { rewrite Et. unfold trace_re. symmetry. apply bsum_RO. }
  rewrite E. field. lra. Qed.
(* ------------------------------------------------------------------ cACG covariance U diag(lambda) U^H *)
Lemma csum_pick n (c : C) j : (j < n)%nat ->
  csum n (fun i => if Nat.eqb i j then c else RtoC 0) = c.
Proof. induction n; intros Hj; [lia|]. cbn [csum]. destruct (Nat.eq_dec j n) as [->|Hne].
  - rewrite Nat.eqb_refl. rewrite csum_zero. ring. intros i Hi. destruct (Nat.eqb_spec i n); [lia|reflexivity].
  - rewrite IHn by lia. destruct (Nat.eqb_spec n j); [lia|ring]. Qed.

Section CovHPD.
Variables (D : nat) (U : nat -> nat -> C) (lam : nat -> R).
Definition norm2 (v : vec) : R := rsum D (fun d => Cmod (v d) * Cmod (v d)).
(* eigh contract used here: U U^H = I (rows orthonormal; for the square U of eigh the same as U^H U = I) *)
Definition rows_orthonormal := forall d e, (d < D)%nat -> (e < D)%nat ->
  csum D (fun t => U d t * Cconj (U e t))%C = if Nat.eqb d e then RtoC 1 else RtoC 0.

Lemma cov_of_eig_is_psd d e : cov_of_eig RO D U lam d e = psd_masked RO D U lam 0 false d e.
Proof. reflexivity. Qed.

Theorem cacg_cov_hermitian : hermitian (cov_of_eig RO D U lam).
Proof. intros i j. rewrite !cov_of_eig_is_psd. apply (psd_hermitian D U lam 0 false). Qed.

Lemma cov_of_eig_form (v : vec) :
  form D (cov_of_eig RO D U lam) v v
  = RtoC (rsum D (fun t => lam t * (Cmod (dot D v (fun d => U d t)) * Cmod (dot D v (fun d => U d t))))).
Proof. rewrite (form_ext D _ (psd_masked RO D U lam 0 false) v) by (intros; apply cov_of_eig_is_psd).
  rewrite (psd_quadratic_form D D U lam 0 false v). reflexivity. Qed.

Lemma parseval (v : vec) : rows_orthonormal ->
  rsum D (fun t => Cmod (dot D v (fun d => U d t)) * Cmod (dot D v (fun d => U d t))) = norm2 v.
Proof. intros HU. apply (f_equal fst (x := RtoC _) (y := RtoC _)).
  unfold norm2. rewrite <- !csum_RtoC.
  transitivity (csum D (fun t => csum D (fun d => csum D (fun e => (Cconj (v d) * v e) * (U d t * Cconj (U e t)))))%C).
  { apply csum_ext; intros t Ht. rewrite <- mul_conj_self. unfold dot. rewrite csum_conj.
    rewrite <- csum_scal_r. apply csum_ext; intros d Hd. rewrite <- csum_scal. apply csum_ext; intros e He.
    rewrite Cconj_mult, Cconj_conj. ring. }
  rewrite csum_swap.
  apply csum_ext; intros d Hd. rewrite csum_swap.
  transitivity (csum D (fun e => if Nat.eqb e d then (Cconj (v d) * v d)%C else RtoC 0)).
  { apply csum_ext; intros e He. rewrite csum_scal. rewrite (HU d e Hd He).
    rewrite (Nat.eqb_sym e d). destruct (Nat.eqb_spec d e) as [->|Hne]; ring. }
  rewrite csum_pick by auto. rewrite conj_mul_self. reflexivity. Qed.

(* Hermitian positive definite: v^H C v is real and >= floor * |v|^2 (so > 0 for v <> 0) *)
Theorem cacg_cov_hpd (floor : R) (v : vec) :
  rows_orthonormal -> 0 < floor -> (forall t, (t < D)%nat -> floor <= lam t) ->
  hermitian (cov_of_eig RO D U lam) /\
  snd (form D (cov_of_eig RO D U lam) v v) = 0 /\
  floor * norm2 v <= fst (form D (cov_of_eig RO D U lam) v v).
Proof. intros HU Hf Hl. split. apply cacg_cov_hermitian. rewrite cov_of_eig_form. cbn [fst snd RtoC]. split. reflexivity.
  rewrite <- (parseval v HU). rewrite <- rsum_scale_l. apply rsum_le. intros t Ht.
  pose proof (Cmod_ge_0 (dot D v (fun d => U d t))). specialize (Hl t Ht). nra. Qed.

(* under the eigh contract the eigenvalue sum is the trace: sum_d C[d,d] = sum_t lam_t |u_t|^2 *)
Theorem cacg_cov_trace : (forall t, (t < D)%nat -> rsum D (fun d => Cmod (U d t) * Cmod (U d t)) = 1) ->
  csum D (fun d => cov_of_eig RO D U lam d d) = RtoC (rsum D lam).
Proof. intros Hc. rewrite <- csum_RtoC.
  transitivity (csum D (fun d => csum D (fun t => RtoC (lam t) * (U d t * Cconj (U d t))))%C).
  { apply csum_ext; intros d Hd. unfold cov_of_eig. rewrite csumO_RO. apply csum_ext; intros t Ht.
    bridge. rewrite cscale_RO. ring. }
  rewrite csum_swap. apply csum_ext; intros t Ht. rewrite csum_scal.
  rewrite (csum_ext D _ (fun d => RtoC (Cmod (U d t) * Cmod (U d t)))) by (intros; apply mul_conj_self).
  rewrite csum_RtoC, (Hc t Ht). ring. Qed.
End CovHPD.
Lemma clip_range x lo hi : lo <= hi -> lo <= Rmin (Rmax x lo) hi <= hi.
Proof. intros H. unfold Rmin, Rmax. destruct (Rle_dec x lo); destruct (Rle_dec _ hi); lra. Qed.
Lemma clip_inverted x lo hi : hi < lo -> Rmin (Rmax x lo) hi = hi.
Proof. intros H. unfold Rmin, Rmax. destruct (Rle_dec x lo); destruct (Rle_dec _ hi); lra. Qed.

(* ------------------------------------------------------------------ von Mises-Fisher *)
Section VMF.
Variables (D N : nat) (tiny : R) (y : nat -> nat -> R) (s : nat -> R).
Hypothesis Htiny : 0 < tiny.
Let r := vmf_r RO N y s.
Let nr := rnorm RO D r.

Lemma rnorm_sq (v : nat -> R) : rsum D (fun d => v d * v d) = rnorm RO D v * rnorm RO D v.
Proof. unfold rnorm, rnorm2. cbn [osqrt RO omul]. rewrite (bsum_RO D (fun d => v d * v d)). rewrite sqrt_sqrt; [reflexivity|].
  apply rsum_nonneg; intros; nra. Qed.
Lemma rnorm_nonneg (v : nat -> R) : 0 <= rnorm RO D v.
Proof. unfold rnorm. cbn [osqrt RO]. apply sqrt_pos. Qed.

(* the norm of the stored mean is |r| / max(|r|, tiny) *)
Lemma vmf_mean_norm : rnorm RO D (vmf_mean RO D N tiny y s) = nr / Rmax nr tiny.
Proof. assert (Hp : 0 < Rmax nr tiny) by (eapply Rlt_le_trans; [exact Htiny | apply Rmax_r]).
  assert (Hn : 0 <= nr) by apply rnorm_nonneg.
  assert (Hq : 0 <= nr / Rmax nr tiny). { unfold Rdiv. apply Rmult_le_pos; auto. left; apply Rinv_0_lt_compat; auto. }
  apply Rsqr_inj; auto. apply rnorm_nonneg. unfold Rsqr. rewrite <- rnorm_sq.
  unfold vmf_mean, odiv. rewrite omax_RO. cbn [omul oinv RO]. fold r. fold nr.
  rewrite (rsum_ext D _ (fun d => (r d * r d) * (/ Rmax nr tiny * / Rmax nr tiny))) by (intros; ring).
  rewrite rsum_scale, (rnorm_sq r). fold nr. field. lra. Qed.

Theorem vmf_domain kmin kmax :
  (tiny <= nr -> rnorm RO D (vmf_mean RO D N tiny y s) = 1) /\
  (nr < tiny -> rnorm RO D (vmf_mean RO D N tiny y s) = nr / tiny /\ rnorm RO D (vmf_mean RO D N tiny y s) < 1) /\
  (kmin <= kmax -> kmin <= vmf_kappa RO D N kmin kmax y s <= kmax) /\
  (kmax < kmin -> vmf_kappa RO D N kmin kmax y s = kmax).
Proof. assert (Hn : 0 <= nr) by apply rnorm_nonneg. repeat split.
  - intros H. rewrite vmf_mean_norm, (Rmax_left nr tiny) by lra. field. lra.
  - rewrite vmf_mean_norm, (Rmax_right nr tiny) by lra. reflexivity.
  - rewrite vmf_mean_norm, (Rmax_right nr tiny) by lra. apply Rmult_lt_reg_r with tiny; auto.
    unfold Rdiv. rewrite Rmult_assoc, Rinv_l by lra. lra.
  - unfold vmf_kappa. rewrite omin_RO, omax_RO. apply clip_range; auto.
  - unfold vmf_kappa. rewrite omin_RO, omax_RO. apply clip_range; auto.
  - intros H. unfold vmf_kappa. rewrite omin_RO, omax_RO. apply clip_inverted; auto. Qed.

(* the zero resultant (zero frames, antipodal frames, a class without mass) keeps the zero vector as "mean" *)
Theorem vmf_mean_zero_resultant d : (forall e, r e = 0) -> vmf_mean RO D N tiny y s d = 0.
Proof. intros Hz. unfold vmf_mean, odiv. cbn [omul RO]. fold r. rewrite Hz. ring. Qed.

(* Banerjee (4.4) away from the pole, for reading the clipped value *)
Theorem vmf_kappa_formula kmin kmax :
  let rb := vmf_rbar RO D N y s in
  vmf_kappa RO D N kmin kmax y s = Rmin (Rmax ((rb * INR D - rb * (rb * rb)) / (1 - rb * rb)) kmin) kmax.
Proof. intros rb. unfold vmf_kappa. rewrite omin_RO, omax_RO. fold rb. unfold vmf_kappa_raw, odiv, osub.
  cbn [omul oinv oadd oopp o1 RO]. rewrite onat_R. reflexivity. Qed.
End VMF.

(* ------------------------------------------------------------------ complex Watson *)
Section Watson.
Variables (D' : nat) (U : nat -> nat -> C) (ev : nat -> R) (lo hi maxc : R) (inner : R -> R).
(* eigh contract: the columns of U have unit norm;  ratio_inv contract: the spline maps its knot range into [0, max] *)
Theorem watson_domain :
  rsum (S D') (fun d => Cmod (U d D') * Cmod (U d D')) = 1 -> 0 <= maxc ->
  (forall x, lo <= x <= hi -> 0 <= inner x <= maxc) ->
  rsum (S D') (fun d => Cmod (watson_mode D' U d) * Cmod (watson_mode D' U d)) = 1 /\
  0 <= watson_conc RO D' lo hi maxc inner ev <= maxc.
Proof. intros HU Hm Hin. split. exact HU. unfold watson_conc, interp_fill, oltb. cbn [oleb o0 RO].
  destruct (Rleb lo (ev D')) eqn:E1; cbn [negb]. 2: lra.
  destruct (Rleb (ev D') hi) eqn:E2; cbn [negb]. 2: lra.
  apply Rleb_true in E1. apply Rleb_true in E2. apply Hin. lra. Qed.
End Watson.

(* ------------------------------------------------------------------ Gaussian *)
Section Gauss.
Variables (D N : nat) (tiny : R) (y : nat -> nat -> R) (s : nat -> R).
Hypothesis Htiny : 0 < tiny.
Hypothesis Hs : forall n, (n < N)%nat -> 0 <= s n.
Let m := g_mean RO N tiny y s.
Let den := g_den RO N tiny s.

Lemma g_den_pos : 0 < den.
Proof. unfold den, g_den. rewrite omax_RO. eapply Rlt_le_trans; [exact Htiny | apply Rmax_r]. Qed.

Lemma g_cov_full_RO d e :
  g_cov_full RO N tiny y s d e = rsum N (fun n => s n * ((y n d - m d) * (y n e - m e))) * / den.
Proof. unfold g_cov_full, odiv, osub. cbn [omul oinv oadd oopp RO]. rewrite bsum_RO. reflexivity. Qed.

Theorem gaussian_cov_sym d e : g_cov_full RO N tiny y s d e = g_cov_full RO N tiny y s e d.
Proof. rewrite !g_cov_full_RO. f_equal. apply rsum_ext; intros; ring. Qed.

(* v^T C v = sum_n s_n (v . (y_n - m))^2 / den, for the floored denominator too *)
Theorem gaussian_cov_form (v : nat -> R) :
  rsum D (fun d => rsum D (fun e => v d * g_cov_full RO N tiny y s d e * v e))
  = rsum N (fun n => s n * (rsum D (fun d => v d * (y n d - m d)) * rsum D (fun d => v d * (y n d - m d)))) * / den.
Proof.
  set (u := fun n d => v d * (y n d - m d)).
  transitivity (rsum D (fun d => rsum D (fun e => rsum N (fun n => s n * (u n d * u n e)) * / den))).
  { apply rsum_ext; intros d Hd. apply rsum_ext; intros e He. rewrite g_cov_full_RO.
    rewrite (rsum_ext N (fun n => s n * (u n d * u n e)) (fun n => s n * ((y n d - m d) * (y n e - m e)) * (v d * v e)))
      by (intros; unfold u; ring).
    rewrite rsum_scale. ring. }
  rewrite (rsum_ext D _ (fun d => rsum D (fun e => rsum N (fun n => s n * (u n d * u n e))) * / den))
    by (intros; apply rsum_scale).
  rewrite rsum_scale. f_equal.
  transitivity (rsum D (fun d => rsum N (fun n => rsum D (fun e => s n * (u n d * u n e))))).
  { apply rsum_ext; intros d Hd. apply rsum_swap. }
  rewrite rsum_swap. apply rsum_ext; intros n Hn.
  rewrite (rsum_ext D _ (fun d => (s n * u n d) * rsum D (u n))).
  2:{ intros d Hd. rewrite <- rsum_scale_l. apply rsum_ext; intros; ring. }
  rewrite rsum_scale. rewrite rsum_scale_l. unfold u. ring. Qed.

Theorem gaussian_cov_psd (v : nat -> R) :
  0 <= rsum D (fun d => rsum D (fun e => v d * g_cov_full RO N tiny y s d e * v e)).
Proof. rewrite gaussian_cov_form. pose proof g_den_pos. apply Rmult_le_pos.
  apply rsum_nonneg; intros n Hn. specialize (Hs n Hn). nra. left; apply Rinv_0_lt_compat; auto. Qed.

(* positive in every direction that some frame with positive weight leaves: definite exactly when the weighted,
   centred frames span the space (N <= D, duplicated or collinear frames do not: Cholesky then raises) *)
Theorem gaussian_cov_pos (v : nat -> R) :
  (exists n, (n < N)%nat /\ 0 < s n /\ rsum D (fun d => v d * (y n d - m d)) <> 0) ->
  0 < rsum D (fun d => rsum D (fun e => v d * g_cov_full RO N tiny y s d e * v e)).
Proof. intros [n [Hn [Hsn Hne]]]. rewrite gaussian_cov_form. pose proof g_den_pos. apply Rmult_lt_0_compat.
  2: apply Rinv_0_lt_compat; auto.
  set (f := fun n => s n * (rsum D (fun d => v d * (y n d - m d)) * rsum D (fun d => v d * (y n d - m d)))).
  assert (Hf : forall j, (j < N)%nat -> 0 <= f j). { intros j Hj. unfold f. specialize (Hs j Hj). nra. }
  eapply Rlt_le_trans; [| apply (term_le_rsum N f n Hf Hn)]. unfold f.
  apply Rmult_lt_0_compat; auto.
  assert (Hq : forall q, q <> 0 -> 0 < q * q) by (intros q Hq; destruct (Rtotal_order q 0) as [H1|[H1|H1]]; [nra|contradiction|nra]).
  apply Hq; auto. Qed.

Theorem gaussian_cov_diag_nonneg d : 0 <= g_cov_diag RO N tiny y s d.
Proof. unfold g_cov_diag. rewrite g_cov_full_RO. pose proof g_den_pos. apply Rmult_le_pos.
  apply rsum_nonneg; intros n Hn. specialize (Hs n Hn). apply Rmult_le_pos; [auto | apply Rle_0_sqr].
  left; apply Rinv_0_lt_compat; auto. Qed.

Theorem gaussian_cov_sph_nonneg : 0 <= g_cov_sph RO D N tiny y s.
Proof. unfold g_cov_sph, odiv, osub. cbn [omul oinv oadd oopp RO]. rewrite onat_R, bsum_RO. fold den.
  pose proof g_den_pos. apply Rmult_le_pos.
  - apply rsum_nonneg; intros n Hn. specialize (Hs n Hn). apply Rmult_le_pos; auto. rewrite bsum_RO.
    apply rsum_nonneg; intros d Hd. apply Rle_0_sqr.
  - destruct D. simpl. rewrite Rmult_0_r, Rinv_0. lra.
    left. apply Rinv_0_lt_compat. apply Rmult_lt_0_compat; auto. apply lt_0_INR; lia. Qed.
End Gauss.
(* ------------------------------------------------------------------ complex Bingham *)
Section Bingham.
Variables (D' : nat) (x : nat -> R) (c maxc : R).
(* least_squares contract: every increment lies inside its bounds (-max_concentration, -1e-8) = [-maxc, -c] *)
Hypothesis Hc : 0 < c.
Hypothesis Hx : forall j, (j < D')%nat -> - maxc <= x j <= - c.
Let est := bing_est RO D' x.

Lemma bing_est_top : est D' = 0.
Proof. unfold est, bing_est. rewrite Nat.sub_diag. reflexivity. Qed.
Lemma bing_est_step i : (i < D')%nat -> est i = est (S i) + x i.
Proof. intros Hi. unfold est, bing_est. replace (D' - i)%nat with (S (D' - S i)) by lia. cbn [bing_tail oadd RO].
  replace (D' - S (D' - S i))%nat with i by lia. reflexivity. Qed.
Lemma bing_est_bounds i : (i <= D')%nat -> - maxc * INR (D' - i) <= est i <= - c * INR (D' - i).
Proof. intros Hi. remember (D' - i)%nat as k eqn:Ek. revert i Hi Ek. induction k; intros i Hi Ek.
  - assert (i = D') by lia. subst i. rewrite bing_est_top. simpl. lra.
  - rewrite bing_est_step by lia. specialize (IHk (S i) ltac:(lia) ltac:(lia)). specialize (Hx i ltac:(lia)).
    rewrite S_INR. lra. Qed.

(* max_concentration = inf (the CBMMTrainer default): maximum exactly 0, everything else negative, strictly ordered *)
Theorem bingham_domain :
  est D' = 0 /\
  (forall i, (i < D')%nat -> est i <= - c * INR (D' - i) /\ est i < 0) /\
  (forall i, (i < D')%nat -> est i + c <= est (S i)) /\
  (forall i, (i <= D')%nat -> - maxc * INR D' <= est i <= 0).
Proof. split. apply bing_est_top. split; [|split].
  - intros i Hi. destruct (bing_est_bounds i ltac:(lia)) as [_ H]. split; auto.
    assert (1 <= INR (D' - i)) by (change 1 with (INR 1); apply le_INR; lia). nra.
  - intros i Hi. rewrite (bing_est_step i Hi). specialize (Hx i Hi). lra.
  - intros i Hi. destruct (bing_est_bounds i Hi) as [H1 H2].
    assert (0 <= INR (D' - i)) by apply pos_INR. assert (INR (D' - i) <= INR D') by (apply le_INR; lia).
    destruct (Nat.eq_dec D' 0) as [E0|E0].
    + assert (i = D') by lia. subst i. rewrite bing_est_top. rewrite E0. simpl. lra.
    + assert (0 <= maxc) by (specialize (Hx 0%nat ltac:(lia)); lra). split; nra. Qed.
End Bingham.

(* ---- _remove_duplicate_eigenvalues on a weakly ascending vector ---- *)
Section Spread.
Variables (D' : nat) (v : nat -> R) (eps : R).
Hypothesis He : 0 <= eps.
Hypothesis Hv : forall i, (i < D')%nat -> v i <= v (S i).
Let g := spread RO eps v.

Lemma spread_diff_RO i : spread_diff RO eps v i = Rmax (v (S i) - v i) eps.
Proof. unfold spread_diff, osub. rewrite omax_RO. reflexivity. Qed.
Lemma spread_step i : g (S i) = g i + Rmax (v (S i) - v i) eps.
Proof. unfold g. destruct i. cbn [spread spread_cum oadd RO]. rewrite spread_diff_RO. reflexivity.
  cbn [spread spread_cum oadd RO]. rewrite spread_diff_RO. ring. Qed.

(* anchored at the smallest value: nothing moves down, entry i moves up by at most i*eps, gaps are at least eps *)
Theorem spread_bounds i : (i <= D')%nat -> v i <= g i <= v i + INR i * eps.
Proof. induction i; intros Hi. unfold g. cbn [spread]. simpl. lra.
  rewrite spread_step, S_INR. specialize (IHi ltac:(lia)). specialize (Hv i ltac:(lia)).
  pose proof (Rmax_l (v (S i) - v i) eps). assert (Rmax (v (S i) - v i) eps <= (v (S i) - v i) + eps) by (apply Rmax_lub; lra). lra. Qed.
Theorem spread_gap i : g i + eps <= g (S i).
Proof. rewrite spread_step. pose proof (Rmax_r (v (S i) - v i) eps). lra. Qed.
End Spread.

Section BinghamFinite.
Variables (D' : nat) (x : nat -> R) (c maxc eps : R).
Hypothesis Hc : 0 < c.
Hypothesis Hm : 0 < maxc.
Hypothesis He : 0 <= eps.
Hypothesis Hx : forall j, (j < D')%nat -> - maxc <= x j <= - c.
Let v := bing_clip RO maxc (bing_est RO D' x).
Let post := bing_post RO true D' maxc eps x.

Lemma bing_clip_RO i : v i = Rmax (bing_est RO D' x i) (- maxc).
Proof. unfold v, bing_clip. rewrite omax_RO. reflexivity. Qed.
Lemma bing_clip_ascending i : (i < D')%nat -> v i <= v (S i).
Proof. intros Hi. rewrite !bing_clip_RO. destruct (bingham_domain D' x c maxc Hc Hx) as [_ [_ [H _]]]. specialize (H i Hi).
  apply Rmax_lub. eapply Rle_trans; [|apply Rmax_l]. lra. apply Rmax_r. Qed.
Lemma bing_clip_range i : (i <= D')%nat -> - maxc <= v i <= 0.
Proof. intros Hi. rewrite bing_clip_RO. destruct (bingham_domain D' x c maxc Hc Hx) as [_ [_ [_ H]]]. specialize (H i Hi).
  split. apply Rmax_r. apply Rmax_lub; lra. Qed.

(* finite max_concentration, stated as the code is: the spreading is anchored at the SMALLEST value, so the values lie
   in [-max, D'*eps]; the top one is >= 0 and can exceed 0 by up to D'*eps = (D-1)*eps *)
Theorem bingham_domain_finite :
  (forall i, (i <= D')%nat -> - maxc <= post i <= INR D' * eps) /\
  0 <= post D' <= INR D' * eps /\
  (forall i, post i + eps <= post (S i)).
Proof. unfold post, bing_post. fold v. split; [|split].
  - intros i Hi. destruct (spread_bounds D' v eps He bing_clip_ascending i Hi) as [H1 H2].
    destruct (bing_clip_range i Hi) as [H3 H4]. assert (INR i <= INR D') by (apply le_INR; lia). split. lra. nra.
  - destruct (spread_bounds D' v eps He bing_clip_ascending D' (le_n _)) as [H1 H2].
    assert (E : v D' = 0). { rewrite bing_clip_RO. unfold bing_est. rewrite Nat.sub_diag. cbn [bing_tail o0 RO]. apply Rmax_left. lra. }
    rewrite E in *. lra.
  - intros i. apply spread_gap. Qed.
End BinghamFinite.

(* "Bingham eigenvalues are <= 0 with maximum 0" is FALSE for the faithful model with a finite max_concentration:
   two fitted values clipped at -max are spread upwards and push the top eigenvalue to +eps.
   D = 3, increments (-1, -1) inside the bounds [-1, -1/100], max_concentration = 1, eps = 1/100 *)
Theorem bingham_max_zero_refuted :
  exists (D' : nat) (x : nat -> R) (c maxc eps : R),
    0 < c /\ 0 < maxc /\ 0 < eps /\ (forall j, (j < D')%nat -> - maxc <= x j <= - c) /\
    0 < bing_post RO true D' maxc eps x D'.
Proof. exists 2%nat, (fun _ => -1), (/ 100), 1, (/ 100). repeat split; try lra.
  unfold bing_post, spread, spread_cum, spread_diff, bing_clip, bing_est, osub. cbn [Nat.sub bing_tail oadd oopp o0 RO].
  rewrite !omax_RO. unfold Rmax. repeat destruct (Rle_dec _ _); lra. Qed.

(* the caller's order is a rearrangement (est[inverse_permutation]): range and attained values do not depend on it *)
Theorem domain_any_order (D' : nat) (f : nat -> R) (sigma : nat -> nat) (Pr : R -> Prop) (top : R) :
  (forall j, (j <= D')%nat -> (sigma j <= D')%nat) -> (forall i, (i <= D')%nat -> exists j, (j <= D')%nat /\ sigma j = i) ->
  (forall i, (i <= D')%nat -> Pr (f i)) -> (exists i, (i <= D')%nat /\ f i = top) ->
  (forall j, (j <= D')%nat -> Pr (f (sigma j))) /\ (exists j, (j <= D')%nat /\ f (sigma j) = top).
Proof. intros Hr Hs HP [i [Hi E]]. split. intros j Hj. apply HP, Hr, Hj.
  destruct (Hs i Hi) as [j [Hj Ej]]. exists j. split; auto. rewrite Ej. exact E. Qed.

(* ------------------------------------------------------------------ along the EM loop *)
Section FitValid.
Variables Theta Gamma : Type.
Variables (E : Theta -> Gamma) (M : Gamma -> Theta).
(* fit_invariant with a precondition on the E-step output (valid affiliations: C01) *)
Theorem fit_invariant_valid (Valid : Gamma -> Prop) (Inv : Theta -> Prop) :
  (forall g, Valid g -> Inv (M g)) -> (forall t, Valid (E t)) ->
  forall n g0, Valid g0 -> Inv (fit E M n g0).
Proof. intros HM HE n g0 H0. unfold fit, fit_from. destruct (n - 1)%nat as [|k]; simpl. apply HM, H0. apply HM, HE. Qed.
(* every domain statement that one M-step establishes for ANY input holds after any number of iterations *)
Theorem domain_along_fit (Inv : Theta -> Prop) : (forall g, Inv (M g)) -> forall n g0, Inv (fit E M n g0).
Proof. apply fit_invariant. Qed.
End FitValid.

(* the cACGMM loop, one leading index, covariance_norm='eigenvalue', saliency None: E is any routine returning valid
   affiliations (C01: non-negative, columns sum to one within K*affiliation_eps), eigh any routine meeting U U^H = I *)
Section CacgmmFit.
Variables (K' D' N : nat) (tiny floor eps0 : R) (herm : bool) (z : nat -> nat -> C).
Variable eigh : (nat -> nat -> C) -> (nat -> R) * (nat -> nat -> C).
Hypothesis Heigh : forall A, rows_orthonormal (S D') (snd (eigh A)).
Hypothesis Ht : 0 < tiny.
Hypothesis Hf : 0 < floor <= 1.
Hypothesis HN : (0 < N)%nat.
Record gam := { aff : nat -> nat -> R; qf : nat -> nat -> R }.
Record theta := { wt : nat -> R; lam : nat -> nat -> R; vecs : nat -> nat -> nat -> C }.
Definition class_cov (g : gam) (k : nat) := cacg_cov RO (S D') N tiny herm z (aff g k) (qf g k).
Definition Mstep (g : gam) : theta :=
  {| wt := weight_mean RO N (aff g);
     lam := fun k => eig_post_eigenvalue RO tiny D' floor (fst (eigh (class_cov g k)));
     vecs := fun k => snd (eigh (class_cov g k)) |}.
Variable Estep : theta -> gam.
Definition valid (g : gam) :=
  (forall k n, (k < S K')%nat -> (n < N)%nat -> 0 <= aff g k n) /\
  (forall n, (n < N)%nat -> Rabs (rsum (S K') (fun k => aff g k n) - 1) <= INR (S K') * eps0).
Hypothesis HE : forall t, valid (Estep t).
Definition in_domain (t : theta) :=
  (forall k, (k < S K')%nat -> 0 <= wt t k) /\ Rabs (rsum (S K') (wt t) - 1) <= INR (S K') * eps0 /\
  forall k, (forall i, (i <= D')%nat -> floor <= lam t k i <= 1) /\
            hermitian (cov_of_eig RO (S D') (vecs t k) (lam t k)) /\
            forall v, floor * norm2 (S D') v <= fst (form (S D') (cov_of_eig RO (S D') (vecs t k) (lam t k)) v v).

Lemma Mstep_domain g : valid g -> in_domain (Mstep g).
Proof. intros [Ha Hn]. destruct (weights_domain_mean K' N (aff g) HN Ha eps0 Hn) as [W1 W2].
  split; [exact W1 | split; [exact W2|]]. intros k. cbn [lam vecs Mstep].
  set (ev := fst (eigh (class_cov g k))). set (U := snd (eigh (class_cov g k))).
  assert (R1 : forall i, (i <= D')%nat -> floor <= eig_post_eigenvalue RO tiny D' floor ev i <= 1).
  { apply cacg_eig_range; [exact Ht | apply Hf]. }
  split; [exact R1|]. split. apply cacg_cov_hermitian. intros v.
  apply (cacg_cov_hpd (S D') U _ floor v (Heigh _) (proj1 Hf)). intros i Hi. apply R1. lia. Qed.

Theorem cacgmm_fit_domain n g0 : valid g0 -> in_domain (fit Estep Mstep n g0).
Proof. apply (fit_invariant_valid theta gam Estep Mstep valid in_domain Mstep_domain HE). Qed.
End CacgmmFit.

(* the vMF mixture loop: E is ANY routine producing the per-class weights of the next M-step (no validity needed) *)
Section VmfFit.
Variables (D N : nat) (kmin kmax : R) (y : nat -> nat -> R).
Variable Estep : (nat -> R) -> (nat -> nat -> R).
Definition vmf_Mstep (g : nat -> nat -> R) : nat -> R := fun k => vmf_kappa RO D N kmin kmax y (g k).
Theorem vmfmm_fit_kappa_domain : kmin <= kmax ->
  forall n g0 k, kmin <= fit Estep vmf_Mstep n g0 k <= kmax.
Proof. intros Hk n g0. apply (domain_along_fit _ _ Estep vmf_Mstep (fun t => forall k, kmin <= t k <= kmax)).
  intros g k. unfold vmf_Mstep. destruct (vmf_domain D N 1 y (g k) Rlt_0_1 kmin kmax) as [_ [_ [H _]]]. apply H, Hk. Qed.
End VmfFit.
