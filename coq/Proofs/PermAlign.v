(* Proofs/PermAlign.v -- C14/C15/C16: corollaries assembled from PermAlignAssign / PermAlignLoop /
   PermAlignOracle in the form the property theorems quote them. *)
From Coq Require Import List Arith Lia Bool Permutation.
From PB Require Import Ops Model.PermAlign Proofs.PermAlignAssign Proofs.PermAlignLoop.
Import ListNotations.

Lemma Forall2_perm_len {A} K (maps : list (list nat)) (bins : list (list A)) :
  Forall (is_perm K) maps -> Forall (fun b => length b = K) bins -> length maps = length bins ->
  Forall2 (fun p b => is_perm (length b) p) maps bins.
Proof. revert bins; induction maps as [|p maps IH]; intros bins Hm Hb Hl; destruct bins as [|b bins];
  simpl in Hl; try lia; constructor; inversion Hm; inversion Hb; subst; auto. Qed.

(* a mapping that is a permutation per bin only rearranges the rows of each bin *)
Theorem aligned_rows_preserved {A} K (maps : list (list nat)) (bins : list (list (list A))) :
  Forall (is_perm K) maps -> Forall (fun b => length b = K) bins -> length maps = length bins ->
  Forall2 (@Permutation _) (apply_bins maps bins) bins.
Proof. intros. apply apply_bins_multiset. apply (Forall2_perm_len K); auto. Qed.

Section Corollaries.
Context {T : Type} (P : ops T).
Hypothesis lt_irrefl : forall x, oltb P x x = false.
Hypothesis lt_trans : forall x y z, oltb P x y = true -> oltb P y z = true -> oltb P x z = true.
Hypothesis lt_negtrans : forall x y z, oltb P x y = false -> oltb P y z = false -> oltb P x z = false.
Variable tiny : T.
Local Notation bin := (@bin T).

Theorem dhtv_rows_preserved m g K Tn pl (mask : list bin) :
  Forall (fun b => length b = K) mask ->
  Forall2 (@Permutation _) (apply_bins (dhtv P tiny m g K Tn pl mask) mask) mask.
Proof. intros H. destruct (dhtv_is_perm P lt_irrefl lt_trans lt_negtrans tiny m g K Tn pl mask H) as [H1 H2].
  apply (aligned_rows_preserved K); auto. Qed.
Theorem greedy_chain_rows_preserved m K Tn (mask : list bin) :
  Forall (fun b => length b = K) mask ->
  Forall2 (@Permutation _) (apply_bins (greedy_chain P tiny m K Tn mask) mask) mask.
Proof. intros H. apply (aligned_rows_preserved K); auto.
  apply (greedy_chain_is_perm P lt_irrefl lt_trans lt_negtrans). apply greedy_chain_length. Qed.
Theorem oracle_rows_preserved m g K Tn (mask ref : list bin) :
  Forall (fun b => length b = K) mask -> length ref = length mask ->
  Forall2 (@Permutation _) (apply_bins (oracle P tiny m g K Tn mask ref) mask) mask.
Proof. intros H Hl. apply (aligned_rows_preserved K); auto.
  apply (oracle_is_perm P lt_irrefl lt_trans lt_negtrans). rewrite oracle_length, Hl. apply Nat.min_id. Qed.

(* inline EM alignment with a blind aligner: both outputs are the inputs reordered per bin by one
   and the same permutation *)
Theorem inline_align_dhtv m g K Tn pl (aff quad : list bin) :
  Forall (fun b => length b = K) aff ->
  let mp := dhtv P tiny m g K Tn pl aff in
  inline_align (dhtv P tiny m g K Tn pl) aff quad = (apply_bins mp aff, apply_bins mp quad) /\
  Forall (is_perm K) mp /\ length mp = length aff.
Proof. intros H mp. split. reflexivity. apply (dhtv_is_perm P lt_irrefl lt_trans lt_negtrans); auto. Qed.
Theorem inline_align_greedy_chain m K Tn (aff quad : list bin) :
  let mp := greedy_chain P tiny m K Tn aff in
  inline_align (greedy_chain P tiny m K Tn) aff quad = (apply_bins mp aff, apply_bins mp quad) /\
  Forall (is_perm K) mp /\ length mp = length aff.
Proof. intros mp. split. reflexivity. split.
  apply (greedy_chain_is_perm P lt_irrefl lt_trans lt_negtrans). apply greedy_chain_length. Qed.

(* ---- consistent masks: identity ---- *)
Lemma adjacent_identity m K Tn r0 rs :
  adj_dominant P tiny m K Tn r0 rs -> adjacent P tiny m K Tn r0 rs = map (fun _ => seq 0 K) rs.
Proof. revert r0; induction rs as [|r1 rs IH]; intros r0 H; cbn [adjacent map]; auto.
  destruct H as [HD H]. f_equal; auto.
  unfold score_bins. apply (diag_dominant_identity P lt_irrefl lt_trans lt_negtrans). exact HD. Qed.
Lemma chain_identity K (l : list bin) :
  chain (seq 0 K) (map (fun _ => seq 0 K) l) = map (fun _ => seq 0 K) l.
Proof. assert (E: permute 0 (seq 0 K) (seq 0 K) = seq 0 K).
  { pose proof (permute_id 0 (seq 0 K)) as H. rewrite seq_length in H. exact H. }
  induction l as [|b l IH]; cbn [map chain]; auto. rewrite E. f_equal. exact IH. Qed.
Theorem greedy_chain_identity m K Tn r0 rs :
  adj_dominant P tiny m K Tn r0 rs ->
  greedy_chain P tiny m K Tn (r0 :: rs) = map (fun _ => seq 0 K) (r0 :: rs).
Proof. intros H. unfold greedy_chain. rewrite (adjacent_identity m K Tn r0 rs H). rewrite chain_identity. reflexivity. Qed.

Theorem dhtv_dominant_identity m K Tn pl (mask : list bin) :
  let st0 := dhtv_init P tiny m K Tn mask in
  (forall n s e idx, In (n, s, e) pl -> idx < length mask -> s <= idx < e ->
     dominant P K (score_fn P Tn tiny (dhtv_metric m) (rget P (fst (nth idx st0 ([], []))))
                                                      (rget P (dhtv_cent P tiny m K Tn s e st0)))) ->
  dhtv P tiny m true K Tn pl mask = map (fun _ => seq 0 K) mask.
Proof. intros st0 H. apply dhtv_fixed_identity. intros n s e idx Hin Hi Hr.
  unfold score_bins. apply (diag_dominant_identity P lt_irrefl lt_trans lt_negtrans).
  exact (H n s e idx Hin Hi Hr). Qed.
End Corollaries.
