(* Proofs/Beamformer.v -- C11: MVDR / LCMV / Souden MVDR / WMWF / reference channel.
   Everything is about the RO instance of Model/Beamformer.v; the solve results are universally
   quantified and constrained by their contract (A x = b on the index range 0..D-1). *)
From Coq Require Import Reals Lra Lia Classical FunctionalExtensionality.
From Coquelicot Require Import Coquelicot.
From PB Require Import Ops CLin Model.Beamformer.
Open Scope C_scope.

(* ---------------- bridge: model operations on RO are Coquelicot's ---------------- *)
Lemma cinv_RO (y : C) : cinv RO y = / y.
Proof. destruct y as [a b]. unfold cinv, cscale, cconj, cabs2, Cinv; cbn [fst snd omul oadd oinv oopp RO].
  f_equal; unfold Rdiv; replace (a ^ 2 + b ^ 2)%R with (a * a + b * b)%R by ring; ring. Qed.
Lemma cdiv_RO (x y : C) : cdiv RO x y = x / y.
Proof. unfold cdiv. rewrite cinv_RO. reflexivity. Qed.
Lemma cabs_RO (z : C) : cabs RO z = Cmod z.
Proof. unfold cabs. rewrite cabs2_RO. cbn [osqrt RO]. apply sqrt_square. apply Cmod_ge_0. Qed.
Lemma half_RO : half RO = (/ 2)%R.
Proof. unfold half; cbn [oinv oadd o1 RO]. f_equal. Qed.

Definition tr (D : nat) (A : mat) : C := csum D (fun i => A i i).

Lemma bf_dot_RO D u v : bf_dot RO D u v = dot D u v.
Proof. unfold bf_dot, dot. rewrite csumO_RO. reflexivity. Qed.
Lemma bf_mv_RO D A x i : bf_mv RO D A x i = mv D A x i.
Proof. unfold bf_mv, mv. rewrite csumO_RO. reflexivity. Qed.
Lemma bf_trace_RO D A : bf_trace RO D A = tr D A.
Proof. unfold bf_trace, tr. rewrite csumO_RO. reflexivity. Qed.
Lemma bf_form_RO D A u v : bf_form RO D A u v = form D A u v.
Proof. unfold bf_form, form. rewrite bf_dot_RO. apply dot_ext; auto. Qed.

(* ---------------- small facts about C ---------------- *)
Lemma Cconj_0 : Cconj 0 = 0. Proof. unfold Cconj, RtoC; simpl. f_equal; ring. Qed.
Lemma Cconj_1 : Cconj 1 = 1. Proof. unfold Cconj, RtoC; simpl. f_equal; ring. Qed.
Lemma Cconj_inv (c : C) : Cconj (/ c) = / Cconj c.
Proof. destruct c as [a b]. unfold Cconj, Cinv; simpl. f_equal; unfold Rdiv;
  replace (a * (a * 1) + - b * (- b * 1))%R with (a * (a * 1) + b * (b * 1))%R by ring; ring. Qed.
Lemma C_real_eq (z : C) : snd z = 0%R -> z = RtoC (fst z).
Proof. destruct z as [a b]; simpl; intros ->. reflexivity. Qed.
Lemma Cconj_fix_real (z : C) : Cconj z = z -> snd z = 0%R.
Proof. destruct z as [a b]. unfold Cconj; simpl. intros E. inversion E. lra. Qed.
Lemma fst_Cmult_R (r : R) (z : C) : fst (RtoC r * z) = (r * fst z)%R.
Proof. destruct z; unfold Cmult, RtoC; simpl. ring. Qed.
Lemma snd_Cmult_R (r : R) (z : C) : snd (RtoC r * z) = (r * snd z)%R.
Proof. destruct z; unfold Cmult, RtoC; simpl. ring. Qed.
Lemma RtoC_neq0 (r : R) : r <> 0%R -> RtoC r <> 0.
Proof. intros H E. apply RtoC_inj in E. auto. Qed.

(* vectors / matrices matter on the index range only *)
Definition veq (D : nat) (u v : vec) := forall i, (i < D)%nat -> u i = v i.
Definition nonzero (D : nat) (u : vec) := exists i, (i < D)%nat /\ u i <> 0.
(* Hermitian positive definite: u^H A u real > 0 for every vector that is non-zero on the range *)
Definition posdef (D : nat) (A : mat) :=
  hermitian A /\ forall u, nonzero D u -> (0 < fst (form D A u u))%R.
Definition possemidef (D : nat) (A : mat) :=
  hermitian A /\ forall u, (0 <= fst (form D A u u))%R.

Lemma form_ext2 D A u u' v v' : veq D u u' -> veq D v v' -> form D A u v = form D A u' v'.
Proof. intros H1 H2. unfold form. apply dot_ext; auto. intros i Hi. apply mv_ext; auto. Qed.
Lemma form_real D A u : hermitian A -> snd (form D A u u) = 0%R.
Proof. intros HA. apply Cconj_fix_real. symmetry. apply form_herm; auto. Qed.
Lemma all_zero_or_nonzero D (u : vec) : veq D u (fun _ => 0) \/ nonzero D u.
Proof. destruct (classic (nonzero D u)) as [H|H]; [right; auto|left].
  intros i Hi. destruct (classic (u i = 0)); auto. exfalso. apply H. exists i; auto. Qed.
Lemma dot_zero_r D u : dot D u (fun _ => 0) = 0.
Proof. unfold dot. apply csum_zero; intros; ring. Qed.
Lemma mv_zero D A i : mv D A (fun _ => 0) i = 0.
Proof. unfold mv. apply csum_zero; intros; ring. Qed.
Lemma form_zero D A : form D A (fun _ => 0) (fun _ => 0) = 0.
Proof. unfold form. unfold dot. apply csum_zero; intros. rewrite Cconj_0. ring. Qed.
Lemma posdef_semidef D A : posdef D A -> possemidef D A.
Proof. intros [HA Hp]. split; auto. intros u. destruct (all_zero_or_nonzero D u) as [Hz|Hn].
  - rewrite (form_ext2 D A u (fun _ => 0) u (fun _ => 0)); auto. rewrite form_zero. simpl. lra.
  - left. apply Hp; auto. Qed.
(* a positive definite matrix has a trivial kernel: solutions of A x = b are unique *)
Lemma posdef_kernel D A u : posdef D A -> (forall i, (i < D)%nat -> mv D A u i = 0) -> veq D u (fun _ => 0).
Proof. intros [HA Hp] Hk. destruct (all_zero_or_nonzero D u) as [Hz|Hn]; auto. exfalso.
  specialize (Hp u Hn). unfold form in Hp.
  rewrite (dot_ext D u u (mv D A u) (fun _ => 0)) in Hp; auto. rewrite dot_zero_r in Hp. simpl in Hp. lra. Qed.
Lemma mv_minus D A x y i : mv D A (fun j => x j - y j) i = mv D A x i - mv D A y i.
Proof. unfold mv. transitivity (csum D (fun j => A i j * x j + (-(1)) * (A i j * y j))).
  apply csum_ext; intros; ring. rewrite csum_plus, csum_scal. ring. Qed.
Lemma posdef_solve_unique D A x y :
  posdef D A -> (forall i, (i < D)%nat -> mv D A x i = mv D A y i) -> veq D x y.
Proof. intros HA H i Hi. assert (Hz : veq D (fun j => x j - y j) (fun _ => 0)).
  { apply (posdef_kernel D A); auto. intros k Hk. rewrite mv_minus, H by auto. ring. }
  specialize (Hz i Hi). cbv beta in Hz. replace (x i) with ((x i - y i) + y i) by ring. rewrite Hz. ring. Qed.

(* ---------------- the symmetrisation get_mvdr_vector applies ---------------- *)
Lemma herm_sym_RO A i j : herm_sym RO A i j = RtoC (/ 2) * (A i j + Cconj (A j i)).
Proof. unfold herm_sym. rewrite cscale_RO, half_RO. reflexivity. Qed.
Lemma herm_sym_hermitian A : hermitian (herm_sym RO A).
Proof. intros i j. rewrite !herm_sym_RO. rewrite Cconj_mult, Cconj_plus, Cconj_conj, Cconj_R. ring. Qed.
Lemma herm_sym_id A i j : hermitian A -> herm_sym RO A i j = A i j.
Proof. intros HA. rewrite herm_sym_RO. rewrite <- (HA i j).
  destruct (A i j) as [p q]. unfold Cmult, Cplus, RtoC; simpl. f_equal; field. Qed.

(* ---------------- MVDR ---------------- *)
Section MVDR.
Variable D : nat.
Variables (A : mat) (a x : vec).
Hypothesis Hx : forall i, (i < D)%nat -> mv D A x i = a i.        (* solve contract *)

Lemma mvdr_RO i : mvdr RO D a x i = x i / dot D a x.
Proof. unfold mvdr. rewrite cdiv_RO, bf_dot_RO. reflexivity. Qed.

Theorem mvdr_distortionless : dot D a x <> 0 -> dot D (mvdr RO D a x) a = 1.
Proof.
  intros Hc. set (c := dot D a x) in *.
  rewrite (dot_ext D _ (fun i => / c * x i) a a); auto.
  2:{ intros i Hi. rewrite mvdr_RO. fold c. unfold Cdiv. ring. }
  rewrite dot_scal_l. rewrite <- (dot_conj D a x). fold c. rewrite <- Cconj_mult.
  replace (/ c * c) with (RtoC 1) by (field; exact Hc). apply Cconj_1.
Qed.

(* a^H x = x^H A x is real and positive for Hermitian positive definite A and a <> 0 *)
Theorem mvdr_denominator_pos : posdef D A -> nonzero D a ->
  snd (dot D a x) = 0%R /\ (0 < fst (dot D a x))%R.
Proof.
  intros HA Ha. pose proof HA as [Hh Hp].
  assert (E : dot D a x = Cconj (form D A x x)).
  { unfold form. rewrite dot_conj. apply dot_ext; auto. intros; symmetry; auto. }
  assert (Hxn : nonzero D x).
  { destruct (all_zero_or_nonzero D x) as [Hz|]; auto. exfalso.
    destruct Ha as [i [Hi Hai]]. apply Hai. rewrite <- Hx by auto.
    rewrite (mv_ext D A A x (fun _ => 0) i); auto. apply mv_zero. }
  pose proof (Hp x Hxn) as Hpos. pose proof (form_real D A x Hh) as Hre.
  rewrite E. destruct (form D A x x) as [p q]. simpl in *. subst q. split; [ring | lra].
Qed.

Theorem mvdr_optimal v :
  hermitian A -> (forall u, 0 <= fst (form D A u u))%R -> dot D a x <> 0 ->
  dot D v a = 1 ->
  form D A v v = form D A (mvdr RO D a x) (mvdr RO D a x)
                 + form D A (fun i => v i - mvdr RO D a x i) (fun i => v i - mvdr RO D a x i)
  /\ (fst (form D A (mvdr RO D a x) (mvdr RO D a x)) <= fst (form D A v v))%R.
Proof.
  intros HA Hpsd Hc Hv. set (c := dot D a x) in *. set (w := mvdr RO D a x).
  set (d := fun i => v i - w i).
  assert (Hw : dot D w a = 1) by (apply mvdr_distortionless; auto).
  assert (Hda : dot D d a = 0). { unfold d. rewrite dot_minus_l, Hv, Hw. ring. }
  assert (HAw : forall i, (i < D)%nat -> mv D A w i = a i / c).
  { intros i Hi. rewrite (mv_ext D A A w (fun j => / c * x j) i); auto.
    2:{ intros j Hj. unfold w. rewrite mvdr_RO. fold c. unfold Cdiv. ring. }
    rewrite mv_scal, Hx by auto. unfold Cdiv. ring. }
  assert (Hdw : form D A d w = 0).
  { unfold form. rewrite (dot_ext D d d (mv D A w) (fun i => / c * a i)); auto.
    2:{ intros i Hi. rewrite HAw by auto. unfold Cdiv. ring. }
    rewrite dot_scal_r, Hda. ring. }
  assert (Hwd : form D A w d = 0). { rewrite form_herm by auto. rewrite Hdw. apply Cconj_0. }
  assert (E : form D A v v = form D A w w + form D A d d).
  { transitivity (form D A (fun i => w i + d i) (fun i => w i + d i)).
    - apply form_ext2; intros i Hi; unfold d; ring.
    - rewrite form_expand, Hwd, Hdw. ring. }
  split; [exact E|]. rewrite E. pose proof (Hpsd d). destruct (form D A w w), (form D A d d). simpl in *. lra.
Qed.
End MVDR.

(* the vector get_mvdr_vector returns: solve on the symmetrised matrix *)
Theorem mvdr_code_distortionless D (Pn : mat) (a x : vec) :
  (forall i, (i < D)%nat -> mv D (herm_sym RO Pn) x i = a i) -> posdef D (herm_sym RO Pn) -> nonzero D a ->
  dot D (mvdr RO D a x) a = 1.
Proof. intros Hx Hp Ha. apply (mvdr_distortionless D).
  destruct (mvdr_denominator_pos D _ a x Hx Hp Ha) as [H1 H2]. intros E. rewrite E in H2. simpl in H2. lra. Qed.

(* ---------------- LCMV ---------------- *)
Section LCMV.
Variables (D K : nat) (a X : nat -> vec) (t r : vec).
(* second solve contract: gram t = r with gram[k,l] = a_k^H X_l *)
Hypothesis Ht : forall k, (k < K)%nat -> csum K (fun l => lcmv_gram RO D a X k l * t l) = r k.

Lemma lcmv_RO d : lcmv RO K X t d = csum K (fun k => X k d * t k).
Proof. unfold lcmv. rewrite csumO_RO. reflexivity. Qed.

Theorem lcmv_constraints k : (k < K)%nat ->
  dot D (a k) (lcmv RO K X t) = r k /\ dot D (lcmv RO K X t) (a k) = Cconj (r k).
Proof.
  intros Hk. assert (E : dot D (a k) (lcmv RO K X t) = r k).
  { rewrite <- Ht by auto. unfold dot.
    transitivity (csum D (fun i => csum K (fun l => Cconj (a k i) * X l i * t l))).
    { apply csum_ext; intros i Hi. rewrite lcmv_RO, <- csum_scal. apply csum_ext; intros; ring. }
    rewrite csum_swap. apply csum_ext; intros l Hl. unfold lcmv_gram. rewrite bf_dot_RO. unfold dot.
    rewrite <- csum_scal_r. apply csum_ext; intros; ring. }
  split; auto. rewrite <- dot_conj, E. reflexivity.
Qed.
End LCMV.

(* ---------------- Souden MVDR and WMWF ---------------- *)
Definition solves (D : nat) (A phi B : mat) :=
  forall i j, (i < D)%nat -> (j < D)%nat -> csum D (fun k => A i k * phi k j) = B i j.

Lemma souden_RO D phi eps r i :
  souden RO D phi eps r i = RtoC (/ Rmax (Cmod (tr D phi)) eps) * phi i r.
Proof. unfold souden. rewrite cscale_RO, omax_RO, cabs_RO, bf_trace_RO. reflexivity. Qed.
Lemma wmwf_RO D phi mu r i : wmwf RO D phi mu r i = phi i r / (RtoC mu + tr D phi).
Proof. unfold wmwf. rewrite cdiv_RO, bf_trace_RO. reflexivity. Qed.

Lemma tr_ext D (A B : mat) : (forall i, (i < D)%nat -> A i i = B i i) -> tr D A = tr D B.
Proof. intros H. unfold tr. apply csum_ext; auto. Qed.

(* solutions of (c Pn) phi' = d Px are (d/c) times the solutions of Pn phi = Px *)
Lemma solve_scale D (Pn Px phi phi' : mat) (c d : R) :
  posdef D Pn -> (0 < c)%R -> solves D Pn phi Px ->
  solves D (fun i k => RtoC c * Pn i k) phi' (fun i j => RtoC d * Px i j) ->
  forall i j, (i < D)%nat -> (j < D)%nat -> phi' i j = RtoC (d / c) * phi i j.
Proof.
  intros HP Hc H1 H2 i j Hi Hj.
  assert (Hc0 : RtoC c <> 0) by (apply RtoC_neq0; lra).
  refine (posdef_solve_unique D Pn (fun i => phi' i j) (fun i => RtoC (d / c) * phi i j) HP _ i Hi).
  intros k Hk. rewrite mv_scal. unfold mv. rewrite (H1 k j Hk Hj).
  specialize (H2 k j Hk Hj). cbv beta in H2.
  rewrite (csum_ext D _ (fun q => RtoC c * (Pn k q * phi' q j))) in H2 by (intros; ring).
  rewrite csum_scal in H2. unfold Rdiv. rewrite RtoC_mult, RtoC_inv by lra.
  transitivity (/ RtoC c * (RtoC c * csum D (fun q => Pn k q * phi' q j))). field; exact Hc0.
  rewrite H2. field; exact Hc0.
Qed.

Theorem souden_scale_inv D (Pn Px phi phi' : mat) (c d eps : R) r i :
  posdef D Pn -> (0 < c)%R -> (0 < d)%R -> solves D Pn phi Px ->
  solves D (fun i k => RtoC c * Pn i k) phi' (fun i j => RtoC d * Px i j) ->
  (0 < Cmod (tr D phi))%R -> (eps <= Cmod (tr D phi))%R -> (eps <= d / c * Cmod (tr D phi))%R ->
  (i < D)%nat -> (r < D)%nat ->
  souden RO D phi' eps r i = souden RO D phi eps r i.
Proof.
  intros HP Hc Hd H1 H2 Ht He1 He2 Hi Hr. rewrite !souden_RO.
  assert (Hk : (0 < d / c)%R) by (apply Rdiv_lt_0_compat; lra).
  assert (Etr : tr D phi' = RtoC (d / c) * tr D phi).
  { unfold tr. rewrite <- csum_scal. apply csum_ext; intros k Hk'. apply (solve_scale D Pn Px phi phi' c d); auto. }
  rewrite Etr, Cmod_mult, Cmod_R, (Rabs_pos_eq (d / c)) by lra. rewrite (solve_scale D Pn Px phi phi' c d) by auto.
  rewrite !Rmax_left by lra. set (t := Cmod (tr D phi)) in *.
  rewrite Rinv_mult, RtoC_mult. rewrite !RtoC_inv by lra.
  asC. field. split; apply RtoC_neq0; lra.
Qed.

Theorem wmwf_joint_scale_inv D (Pn Px phi phi' : mat) (c mu : R) r i :
  posdef D Pn -> (0 < c)%R -> solves D Pn phi Px ->
  solves D (fun i k => RtoC c * Pn i k) phi' (fun i j => RtoC c * Px i j) ->
  (i < D)%nat -> (r < D)%nat ->
  wmwf RO D phi' mu r i = wmwf RO D phi mu r i.
Proof.
  intros HP Hc H1 H2 Hi Hr. rewrite !wmwf_RO.
  assert (E : forall p q, (p < D)%nat -> (q < D)%nat -> phi' p q = phi p q).
  { intros p q Hp Hq. rewrite (solve_scale D Pn Px phi phi' c c) by auto.
    replace (c / c)%R with 1%R by (field; lra). ring. }
  rewrite (tr_ext D phi' phi) by (intros; apply E; auto). rewrite E by auto. reflexivity.
Qed.

Theorem wmwf_mu0_is_souden D (phi : mat) (eps : R) r i :
  snd (tr D phi) = 0%R -> (0 < eps)%R -> (eps <= fst (tr D phi))%R ->
  wmwf RO D phi 0 r i = souden RO D phi eps r i.
Proof.
  intros Hre He Ht. rewrite wmwf_RO, souden_RO.
  rewrite (C_real_eq (tr D phi) Hre) at 2. rewrite Cmod_R, Rabs_pos_eq by lra. rewrite Rmax_left by lra.
  rewrite (C_real_eq (tr D phi) Hre) at 1. rewrite <- RtoC_plus, Rplus_0_l.
  unfold Cdiv. rewrite <- RtoC_inv by lra. asC. ring.
Qed.

Section Rank1.
Variables (D : nat) (Pn : mat) (a x : vec) (sigma : R) (phi : mat).
Definition r1psd : mat := fun i j => RtoC sigma * a i * Cconj (a j).       (* sigma a a^H *)
Hypothesis HPn : posdef D Pn.
Hypothesis Hsig : (0 < sigma)%R.
Hypothesis Ha : nonzero D a.
Hypothesis Hx : forall i, (i < D)%nat -> mv D Pn x i = a i.                 (* x = Pn^-1 a *)
Hypothesis Hphi : solves D Pn phi r1psd.                                    (* phi = Pn^-1 Px *)

Lemma rank1_phi i j : (i < D)%nat -> (j < D)%nat -> phi i j = RtoC sigma * x i * Cconj (a j).
Proof.
  intros Hi Hj.
  transitivity ((RtoC sigma * Cconj (a j)) * x i); [|ring].
  refine (posdef_solve_unique D Pn (fun i => phi i j) (fun i => (RtoC sigma * Cconj (a j)) * x i) HPn _ i Hi).
  intros k Hk. rewrite mv_scal, Hx by auto. unfold mv. rewrite (Hphi k j Hk Hj). unfold r1psd. ring.
Qed.
Lemma rank1_den : dot D a x = RtoC (fst (dot D a x)) /\ (0 < fst (dot D a x))%R.
Proof. destruct (mvdr_denominator_pos D Pn a x Hx HPn Ha) as [H1 H2]. split; auto. apply C_real_eq; auto. Qed.
Lemma rank1_tr : tr D phi = RtoC (sigma * fst (dot D a x)).
Proof. destruct rank1_den as [E _]. rewrite RtoC_mult, <- E. unfold tr, dot. rewrite <- csum_scal.
  apply csum_ext; intros i Hi. rewrite rank1_phi by auto. ring. Qed.

(* w = conj(a_ref) * w_mvdr *)
Theorem souden_rank1 eps r i : (eps <= sigma * fst (dot D a x))%R -> (r < D)%nat -> (i < D)%nat ->
  souden RO D phi eps r i = Cconj (a r) * mvdr RO D a x i.
Proof.
  intros He Hr Hi. destruct rank1_den as [E Hpos]. rewrite souden_RO, mvdr_RO, rank1_tr, rank1_phi by auto.
  assert (0 < sigma * fst (dot D a x))%R by (apply Rmult_lt_0_compat; auto).
  rewrite Cmod_R, Rabs_pos_eq by lra. rewrite Rmax_left by lra. rewrite E at 2. set (c := fst (dot D a x)) in *.
  rewrite RtoC_inv, RtoC_mult by lra. asC. field. split; apply RtoC_neq0; lra.
Qed.
(* it reproduces the target at the reference channel: w^H a = a_ref *)
Theorem souden_rank1_reference eps r : (eps <= sigma * fst (dot D a x))%R -> (r < D)%nat ->
  dot D (souden RO D phi eps r) a = a r.
Proof.
  intros He Hr. destruct rank1_den as [E Hpos].
  rewrite (dot_ext D _ (fun i => Cconj (a r) * mvdr RO D a x i) a a); auto.
  2:{ intros i Hi. apply souden_rank1; auto. }
  rewrite dot_scal_l, Cconj_conj, (mvdr_distortionless D a x). ring.
  intros E0. rewrite E0 in Hpos. simpl in Hpos. lra.
Qed.

(* (Phi_xx + mu Phi_nn) w = Phi_xx e_ref *)
Theorem wmwf_rank1_normal_eq (mu : R) r i : (0 <= mu)%R -> (r < D)%nat -> (i < D)%nat ->
  mv D (fun p q => r1psd p q + RtoC mu * Pn p q) (wmwf RO D phi mu r) i = r1psd i r.
Proof.
  intros Hmu Hr Hi. destruct rank1_den as [E Hpos]. set (c := fst (dot D a x)) in *.
  assert (0 < sigma * c)%R by (apply Rmult_lt_0_compat; auto).
  assert (Hd : RtoC mu + RtoC (sigma * c) <> 0). { rewrite <- RtoC_plus. apply RtoC_neq0. lra. }
  unfold mv.
  rewrite (csum_ext D _ (fun j => (RtoC sigma * a i * (Cconj (a j) * x j)) * (RtoC sigma * Cconj (a r) / (RtoC mu + RtoC (sigma * c)))
                                + (Pn i j * x j) * (RtoC mu * RtoC sigma * Cconj (a r) / (RtoC mu + RtoC (sigma * c))))).
  2:{ intros j Hj. rewrite wmwf_RO, rank1_tr, rank1_phi by auto. fold c. unfold r1psd. field. exact Hd. }
  rewrite csum_plus, !csum_scal_r, csum_scal. fold (dot D a x). fold (mv D Pn x i). rewrite Hx by auto.
  rewrite E. unfold r1psd. rewrite RtoC_mult. rewrite RtoC_mult in Hd. field. exact Hd.
Qed.
End Rank1.

(* sigma a a^H is Hermitian positive semidefinite: u^H Px u = sigma |a^H u|^2 *)
Lemma r1psd_hermitian (a : vec) sigma : hermitian (r1psd a sigma).
Proof. intros i j. unfold r1psd. rewrite !Cconj_mult, Cconj_conj, Cconj_R. ring. Qed.
Lemma r1psd_form D (a : vec) sigma u :
  form D (r1psd a sigma) u u = RtoC (sigma * (Cmod (dot D a u) * Cmod (dot D a u))).
Proof.
  rewrite RtoC_mult, <- conj_mul_self, dot_conj. unfold form, dot at 1, mv, r1psd.
  rewrite (csum_ext D _ (fun i => (Cconj (u i) * a i) * (RtoC sigma * dot D a u))).
  2:{ intros i Hi. unfold dot.
      rewrite (csum_ext D (fun j => RtoC sigma * a i * Cconj (a j) * u j)
                          (fun j => (RtoC sigma * a i) * (Cconj (a j) * u j))) by (intros; ring).
      rewrite csum_scal. ring. }
  rewrite csum_scal_r. unfold dot. ring.
Qed.
Lemma form_plus_scaled D (A B : mat) (mu : R) u :
  form D (fun p q => A p q + RtoC mu * B p q) u u = form D A u u + RtoC mu * form D B u u.
Proof.
  unfold form. rewrite <- dot_scal_r, <- dot_plus_r. apply dot_ext; auto. intros i Hi.
  unfold mv. rewrite <- csum_scal, <- csum_plus. apply csum_ext; intros; ring.
Qed.

(* for mu > 0 the normal equations have one solution: WMWF is THE minimiser (Px + mu Pn)^-1 Px e_ref *)
Theorem wmwf_rank1_unique D (Pn : mat) (a x : vec) sigma phi (mu : R) r (w' : vec) :
  posdef D Pn -> (0 < sigma)%R -> nonzero D a -> (forall i, (i < D)%nat -> mv D Pn x i = a i) ->
  solves D Pn phi (r1psd a sigma) -> (0 < mu)%R -> (r < D)%nat ->
  (forall i, (i < D)%nat -> mv D (fun p q => r1psd a sigma p q + RtoC mu * Pn p q) w' i = r1psd a sigma i r) ->
  veq D w' (wmwf RO D phi mu r).
Proof.
  intros HP Hs Ha Hx Hphi Hmu Hr Hw'.
  apply (posdef_solve_unique D (fun p q => r1psd a sigma p q + RtoC mu * Pn p q)).
  - destruct HP as [Hh Hp]. split.
    + intros i j. rewrite Cconj_plus, Cconj_mult, Cconj_R, <- (Hh i j), <- (r1psd_hermitian a sigma i j). reflexivity.
    + intros u Hu. rewrite form_plus_scaled, r1psd_form. specialize (Hp u Hu).
      pose proof (Cmod_ge_0 (dot D a u)). destruct (form D Pn u u) as [p q]. simpl in *.
      assert (0 <= sigma * (Cmod (dot D a u) * Cmod (dot D a u)))%R by (apply Rmult_le_pos; nra).
      assert (0 < mu * p)%R by (apply Rmult_lt_0_compat; auto). lra.
  - intros i Hi. rewrite Hw' by auto. symmetry.
    apply (wmwf_rank1_normal_eq D Pn a x sigma phi HP Hs Ha Hx Hphi mu r i); auto. lra.
Qed.

(* ---------------- reference channel: first arg-max of the library's own SNR criterion ---------------- *)
Lemma oltb_RO a b : oltb RO a b = true <-> (a < b)%R.
Proof. unfold oltb; cbn [oleb RO]. rewrite Bool.negb_true_iff, Rleb_false. tauto. Qed.
Lemma argmax_upto_le (f : nat -> R) n : (argmax_upto (oltb RO) f n <= n)%nat.
Proof. induction n; cbn [argmax_upto]; [lia|]. destruct (oltb RO _ _); lia. Qed.
Lemma argmax_upto_max (f : nat -> R) n i : (i <= n)%nat -> (f i <= f (argmax_upto (oltb RO) f n))%R.
Proof. induction n; intros Hi; cbn [argmax_upto].
  - replace i with 0%nat by lia. lra.
  - destruct (oltb RO (f (argmax_upto (oltb RO) f n)) (f (S n))) eqn:E.
    + apply oltb_RO in E. destruct (Nat.eq_dec i (S n)) as [->|]; [lra|]. specialize (IHn ltac:(lia)). lra.
    + assert (f (S n) <= f (argmax_upto (oltb RO) f n))%R.
      { destruct (Rle_dec (f (S n)) (f (argmax_upto (oltb RO) f n))); auto.
        exfalso. assert (oltb RO (f (argmax_upto (oltb RO) f n)) (f (S n)) = true) by (apply oltb_RO; lra). congruence. }
      destruct (Nat.eq_dec i (S n)) as [->|]; [lra|]. apply IHn; lia. Qed.
(* first occurrence: everything before the selected index is strictly smaller *)
Lemma argmax_upto_first (f : nat -> R) n i :
  (i < argmax_upto (oltb RO) f n)%nat -> (f i < f (argmax_upto (oltb RO) f n))%R.
Proof. induction n; cbn [argmax_upto]; [lia|].
  destruct (oltb RO (f (argmax_upto (oltb RO) f n)) (f (S n))) eqn:E; auto.
  intros Hi. apply oltb_RO in E. pose proof (argmax_upto_max f n i ltac:(lia)). lra. Qed.

Theorem ref_channel_argmax D Fn (Wm Px Pn : nat -> nat -> nat -> C) eps r :
  (r < D)%nat ->
  (ref_channel RO D Fn Wm Px Pn eps < D)%nat /\
  (ref_snr RO D Fn Wm Px Pn eps r <= ref_snr RO D Fn Wm Px Pn eps (ref_channel RO D Fn Wm Px Pn eps))%R.
Proof. intros Hr. unfold ref_channel, argmax_first. split.
  - pose proof (argmax_upto_le (ref_snr RO D Fn Wm Px Pn eps) (D - 1)). lia.
  - apply argmax_upto_max. lia. Qed.

(* what the criterion is: Re( sum_f w^H Px w / max_lex(sum_f w^H Pn w, eps) ) *)
Lemma ref_snr_RO D Fn (Wm Px Pn : nat -> nat -> nat -> C) eps r :
  ref_snr RO D Fn Wm Px Pn eps r
  = fst (csum Fn (fun f => form D (Px f) (fun d => Wm f d r) (fun d => Wm f d r))
         / cmax_lex RO (csum Fn (fun f => form D (Pn f) (fun d => Wm f d r) (fun d => Wm f d r))) (RtoC eps)).
Proof. unfold ref_snr. rewrite cdiv_RO, !csumO_RO.
  rewrite (csum_ext Fn _ (fun f => form D (Px f) (fun d => Wm f d r) (fun d => Wm f d r))) by (intros; apply bf_form_RO).
  rewrite (csum_ext Fn (fun f => bf_form RO D (Pn f) _ _) (fun f => form D (Pn f) (fun d => Wm f d r) (fun d => Wm f d r))) by (intros; apply bf_form_RO).
  reflexivity. Qed.

(* ---------------- get_mvdr_vector as written: symmetrise, solve, normalise ---------------- *)
Theorem mvdr_code_optimal D (Pn : mat) (a x v : vec) :
  (forall i, (i < D)%nat -> mv D (herm_sym RO Pn) x i = a i) -> posdef D (herm_sym RO Pn) -> nonzero D a ->
  dot D v a = 1 ->
  (fst (form D (herm_sym RO Pn) (mvdr RO D a x) (mvdr RO D a x)) <= fst (form D (herm_sym RO Pn) v v))%R.
Proof. intros Hx Hp Ha Hv. destruct (posdef_semidef D _ Hp) as [Hh Hs].
  destruct (mvdr_denominator_pos D _ a x Hx Hp Ha) as [H1 H2].
  apply (mvdr_optimal D (herm_sym RO Pn) a x Hx v Hh Hs); auto.
  intros E. rewrite E in H2. simpl in H2. lra. Qed.
(* on a Hermitian matrix the symmetrisation is the identity *)
Lemma herm_sym_fix (Pn : mat) : hermitian Pn -> herm_sym RO Pn = Pn.
Proof. intros H. apply functional_extensionality; intros i. apply functional_extensionality; intros j.
  apply herm_sym_id; auto. Qed.
