(* Proofs/Pipeline.v -- C17: what can be proved about the documented chain.
   (1) class bookkeeping: applying the frequency mapping and then the global mapping is applying their composition,
       per bin, to the ORIGINAL rows (so class k stays attached to source k through alignment);
   (2) MVDR leakage bound: with noise PSD  sum_j sig_j a_j a_j^H + nu I  and any distortionless zero-forcing
       competitor v, every interferer's output power under the MVDR vector is at most nu |v|^2. *)
From Coq Require Import Reals Lra Lia.
From Coquelicot Require Import Coquelicot.
From PB Require Import Ops CLin Model.PSD Proofs.PSD Model.Beamformer Proofs.Beamformer.
Open Scope C_scope.

(* ---- (1) bookkeeping, discrete ---- *)
Section Book.
Variable X : Type.
Definition apply_map (mask : nat -> nat -> X) (mapping : nat -> nat -> nat) : nat -> nat -> X :=
  fun k f => mask (mapping k f) f.
Theorem apply_map_compose mask m1 m2 k f :
  apply_map (apply_map mask m1) m2 k f = apply_map mask (fun k f => m1 (m2 k f) f) k f.
Proof. reflexivity. Qed.
(* a mapping that undoes the injected permutation field restores the original rows *)
Theorem apply_map_inverse mask (pi m : nat -> nat -> nat) K :
  (forall k f, (k < K)%nat -> pi (m k f) f = k) ->
  forall k f, (k < K)%nat -> apply_map (fun k f => mask (pi k f) f) m k f = mask k f.
Proof. intros H k f Hk. unfold apply_map. rewrite H; auto. Qed.
End Book.

(* ---- (2) leakage bound ---- *)
Lemma form_add D (A B : mat) u v : form D (fun i k => A i k + B i k) u v = form D A u v + form D B u v.
Proof. unfold form, dot, mv. rewrite <- csum_plus. apply csum_ext; intros i Hi.
  rewrite (csum_ext D _ (fun j => A i j * v j + B i j * v j)) by (intros; ring). rewrite csum_plus. ring. Qed.

Definition scaled_id (nu : R) : mat := fun i k => if Nat.eqb i k then RtoC nu else 0.
Lemma csum_pick n (f : nat -> C) i : (i < n)%nat -> csum n (fun j => (if Nat.eqb i j then f j else 0)) = f i.
Proof. induction n; intros Hi; [lia|]. cbn [csum]. destruct (Nat.eq_dec i n) as [->|Hne].
  - rewrite Nat.eqb_refl. rewrite csum_zero. ring. intros j Hj. destruct (Nat.eqb_spec n j); [lia|reflexivity].
  - rewrite IHn by lia. destruct (Nat.eqb_spec i n); [lia|ring]. Qed.
Lemma form_scaled_id D nu u : form D (scaled_id nu) u u = RtoC nu * dot D u u.
Proof. unfold form, dot. rewrite <- csum_scal. apply csum_ext; intros i Hi. unfold mv, scaled_id.
  rewrite (csum_ext D _ (fun j => if Nat.eqb i j then RtoC nu * u j else 0)) by (intros j Hj; destruct (Nat.eqb i j); ring).
  rewrite csum_pick by auto. ring. Qed.

Section Leak.
Variables (D J : nat) (sig : nat -> R) (aj : nat -> vec) (nu : R).
Hypothesis Hsig : forall j, (j < J)%nat -> (0 <= sig j)%R.
Hypothesis Hnu : (0 <= nu)%R.
(* noise PSD of source k: the other sources' rank-one PSDs plus white sensor noise *)
Definition noise_psd : mat := fun i k => wpsd J (fun d t => aj t d) sig i k + scaled_id nu i k.

Lemma dot_self_real u : dot D u u = RtoC (rsum D (fun i => Cmod (u i) * Cmod (u i))%R).
Proof. unfold dot. rewrite <- csum_RtoC. apply csum_ext; intros. apply conj_mul_self. Qed.

Theorem noise_form u :
  form D noise_psd u u = RtoC (rsum J (fun j => sig j * (Cmod (dot D u (aj j)) * Cmod (dot D u (aj j))))%R
                               + nu * rsum D (fun i => Cmod (u i) * Cmod (u i))%R)%R.
Proof. unfold noise_psd. rewrite form_add, form_scaled_id, dot_self_real.
  rewrite (wpsd_quadratic_form D J (fun d t => aj t d) sig u). rewrite <- RtoC_mult, <- RtoC_plus. reflexivity. Qed.

Lemma noise_hermitian : hermitian noise_psd.
Proof. intros i k. unfold noise_psd. rewrite Cconj_plus. rewrite <- (wpsd_hermitian J (fun d t => aj t d) sig i k).
  f_equal. unfold scaled_id. rewrite (Nat.eqb_sym k i). destruct (Nat.eqb i k). rewrite Cconj_R; reflexivity.
  unfold Cconj, RtoC; simpl; f_equal; ring. Qed.

Lemma noise_psd_nonneg u : (0 <= fst (form D noise_psd u u))%R.
Proof. rewrite noise_form. cbn [fst RtoC].
  assert (0 <= rsum J (fun j => sig j * (Cmod (dot D u (aj j)) * Cmod (dot D u (aj j)))))%R.
  { apply rsum_nonneg; intros j Hj. pose proof (Hsig j Hj). pose proof (Cmod_ge_0 (dot D u (aj j))). nra. }
  assert (0 <= rsum D (fun i => Cmod (u i) * Cmod (u i)))%R.
  { apply rsum_nonneg; intros i Hi. pose proof (Cmod_ge_0 (u i)). nra. }
  nra. Qed.

(* MVDR vector for steering vector a (solve contract Pn x = a), zero-forcing distortionless competitor v *)
Variables (a x v : vec).
Hypothesis Hx : forall i, (i < D)%nat -> mv D noise_psd x i = a i.
Hypothesis Hc : dot D a x <> 0.
Hypothesis Hv1 : dot D v a = 1.
Hypothesis Hv0 : forall j, (j < J)%nat -> dot D v (aj j) = 0.

Theorem mvdr_leakage_bound j : (j < J)%nat ->
  (sig j * (Cmod (dot D (mvdr RO D a x) (aj j)) * Cmod (dot D (mvdr RO D a x) (aj j)))
   <= nu * rsum D (fun i => Cmod (v i) * Cmod (v i)))%R.
Proof. intros Hj. set (w := mvdr RO D a x).
  destruct (mvdr_optimal D noise_psd a x Hx v noise_hermitian noise_psd_nonneg Hc Hv1) as [_ Hopt]. fold w in Hopt.
  rewrite !noise_form in Hopt. cbn [fst RtoC] in Hopt.
  (* competitor: all interferer terms vanish *)
  assert (Ev : rsum J (fun j => sig j * (Cmod (dot D v (aj j)) * Cmod (dot D v (aj j))))%R = 0%R).
  { apply rsum_zero; intros t Ht. rewrite Hv0 by auto. rewrite Cmod_0. ring. }
  rewrite Ev in Hopt.
  (* MVDR: the j-th interferer term is one of the non-negative summands *)
  assert (Ht : (sig j * (Cmod (dot D w (aj j)) * Cmod (dot D w (aj j)))
               <= rsum J (fun j => sig j * (Cmod (dot D w (aj j)) * Cmod (dot D w (aj j)))))%R).
  { apply (term_le_rsum J (fun j => sig j * (Cmod (dot D w (aj j)) * Cmod (dot D w (aj j))))%R j); auto.
    intros t Ht. pose proof (Hsig t Ht). pose proof (Cmod_ge_0 (dot D w (aj t))). nra. }
  assert (0 <= rsum D (fun i => Cmod (w i) * Cmod (w i)))%R.
  { apply rsum_nonneg; intros i Hi. pose proof (Cmod_ge_0 (w i)). nra. }
  nra. Qed.

(* total output interference-plus-noise of the MVDR vector (all J interferers together, plus the white-noise term)
   is bounded by the white-noise gain of the zero-forcing competitor *)
Theorem mvdr_total_leakage_bound :
  (rsum J (fun j => sig j * (Cmod (dot D (mvdr RO D a x) (aj j)) * Cmod (dot D (mvdr RO D a x) (aj j))))
   + nu * rsum D (fun i => Cmod (mvdr RO D a x i) * Cmod (mvdr RO D a x i))
   <= nu * rsum D (fun i => Cmod (v i) * Cmod (v i)))%R.
Proof. set (w := mvdr RO D a x).
  destruct (mvdr_optimal D noise_psd a x Hx v noise_hermitian noise_psd_nonneg Hc Hv1) as [_ Hopt]. fold w in Hopt.
  rewrite !noise_form in Hopt. cbn [fst RtoC] in Hopt.
  assert (Ev : rsum J (fun j => sig j * (Cmod (dot D v (aj j)) * Cmod (dot D v (aj j))))%R = 0%R).
  { apply rsum_zero; intros t Ht. rewrite Hv0 by auto. rewrite Cmod_0. ring. }
  rewrite Ev in Hopt. lra. Qed.

(* threshold form: a target of power sk whose level exceeds T times the competitor's noise gain leaves the MVDR output
   with signal-to-interference(-plus-noise) ratio >= T (T = 1000 is the 30 dB of the property); the target passes
   undistorted (|w^H a| = 1) *)
Theorem mvdr_sir_threshold (T sk : R) : (0 <= T)%R ->
  (T * (nu * rsum D (fun i => Cmod (v i) * Cmod (v i))) <= sk)%R ->
  (T * (rsum J (fun j => sig j * (Cmod (dot D (mvdr RO D a x) (aj j)) * Cmod (dot D (mvdr RO D a x) (aj j))))
        + nu * rsum D (fun i => Cmod (mvdr RO D a x i) * Cmod (mvdr RO D a x i)))
   <= sk * (Cmod (dot D (mvdr RO D a x) a) * Cmod (dot D (mvdr RO D a x) a)))%R.
Proof. intros HT Hlev. pose proof mvdr_total_leakage_bound as Htot.
  rewrite (mvdr_distortionless D a x Hc). rewrite Cmod_1.
  set (I := (rsum J _ + nu * rsum D _)%R) in *. set (V := (nu * rsum D _)%R) in *.
  assert (T * I <= T * V)%R by (apply Rmult_le_compat_l; assumption). lra. Qed.
End Leak.
