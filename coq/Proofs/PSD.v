(* Proofs/PSD.v -- C10: the PSD estimate is the mask-weighted mean outer product; Hermitian,
   positive semidefinite, scale invariant; condition_covariance keeps trace / Hermitian / PSD. *)
From Coq Require Import Reals Lra Lia.
From Coquelicot Require Import Coquelicot.
From PB Require Import Ops CLin Model.PSD.
Open Scope C_scope.

Lemma onat_RO n : onat RO n = INR n.
Proof. induction n. reflexivity. cbn [onat]. rewrite IHn. rewrite S_INR. reflexivity. Qed.

Section PSDproofs.
Variables (D Tn : nat) (x : nat -> nat -> C) (m : nat -> R) (floor : R).

(* the weighted form every variant reduces to *)
Definition wpsd (w : nat -> R) (d e : nat) : C := csum Tn (fun t => RtoC (w t) * x d t * Cconj (x e t)).

Lemma psd_masked_RO nz d e :
  psd_masked RO Tn x m floor nz d e = wpsd (mask_norm RO Tn m floor nz) d e.
Proof. unfold psd_masked, wpsd. rewrite csumO_RO. apply csum_ext; intros t Ht.
  bridge. rewrite cscale_RO. reflexivity. Qed.

Lemma psd_nomask_RO d e :
  psd_nomask RO Tn x d e = wpsd (fun _ => / INR Tn)%R d e.
Proof. unfold psd_nomask, wpsd. rewrite cscale_RO, csumO_RO. rewrite <- csum_scal.
  apply csum_ext; intros t Ht. bridge. cbn [oinv RO]. rewrite onat_RO. ring. Qed.

(* ---- the defining formula ---- *)
Theorem psd_formula d e :
  (floor <= rsum Tn m)%R -> (0 < floor)%R ->
  psd_masked RO Tn x m floor true d e
  = csum Tn (fun t => RtoC (m t) * x d t * Cconj (x e t)) / RtoC (rsum Tn m).
Proof. intros Hs Hf. rewrite psd_masked_RO. unfold wpsd, mask_norm.
  rewrite omax_RO, bsum_RO. rewrite Rmax_left by lra.
  unfold Cdiv. rewrite <- csum_scal_r. apply csum_ext; intros t Ht.
  unfold odiv; cbn [omul oinv RO]. rewrite RtoC_mult, RtoC_inv by lra. ring. Qed.

Theorem psd_formula_unnormalised d e :
  psd_masked RO Tn x m floor false d e = csum Tn (fun t => RtoC (m t) * x d t * Cconj (x e t)).
Proof. rewrite psd_masked_RO. reflexivity. Qed.

Theorem psd_formula_nomask d e :
  psd_nomask RO Tn x d e = RtoC (/ INR Tn) * csum Tn (fun t => x d t * Cconj (x e t)).
Proof. unfold psd_nomask. rewrite cscale_RO, csumO_RO. cbn [oinv RO]. rewrite onat_RO.
  f_equal. Qed.

(* ---- Hermitian ---- *)
Lemma wpsd_hermitian w d e : wpsd w d e = Cconj (wpsd w e d).
Proof. unfold wpsd. rewrite csum_conj. apply csum_ext; intros t Ht.
  rewrite !Cconj_mult, Cconj_conj, Cconj_R. ring. Qed.

Theorem psd_hermitian nz : hermitian (psd_masked RO Tn x m floor nz).
Proof. intros d e. rewrite !psd_masked_RO. apply wpsd_hermitian. Qed.
Theorem psd_nomask_hermitian : hermitian (psd_nomask RO Tn x).
Proof. intros d e. rewrite !psd_nomask_RO. apply wpsd_hermitian. Qed.

(* ---- v^H Phi v = sum_t w_t |v^H x_t|^2 ---- *)
Lemma wpsd_quadratic_form w v :
  form D (wpsd w) v v
  = RtoC (rsum Tn (fun t => w t * (Cmod (dot D v (fun d => x d t)) * Cmod (dot D v (fun d => x d t))))%R).
Proof.
  rewrite <- csum_RtoC.
  unfold form, dot, mv, wpsd.
  transitivity (csum D (fun i => csum D (fun j => csum Tn (fun t => Cconj (v i) * (RtoC (w t) * x i t * Cconj (x j t)) * v j)))).
  { apply csum_ext; intros i Hi. rewrite <- csum_scal. apply csum_ext; intros j Hj. rewrite <- csum_scal_r.
    rewrite <- csum_scal. apply csum_ext; intros; ring. }
  transitivity (csum D (fun i => csum Tn (fun t => csum D (fun j => Cconj (v i) * (RtoC (w t) * x i t * Cconj (x j t)) * v j)))).
  { apply csum_ext; intros i Hi. apply csum_swap. }
  rewrite csum_swap. apply csum_ext; intros t Ht.
  set (a := csum D (fun d => Cconj (v d) * x d t)).
  transitivity (RtoC (w t) * (a * Cconj a)).
  { unfold a. rewrite csum_conj.
    rewrite <- csum_scal_r. rewrite <- csum_scal. apply csum_ext; intros i Hi.
    rewrite <- csum_scal. rewrite <- csum_scal. apply csum_ext; intros j Hj.
    rewrite Cconj_mult, Cconj_conj. ring. }
  rewrite (Cmult_comm a), conj_mul_self. rewrite <- RtoC_mult. reflexivity.
Qed.

Lemma wpsd_psd w v : (forall t, (t < Tn)%nat -> 0 <= w t)%R ->
  (0 <= fst (form D (wpsd w) v v))%R /\ snd (form D (wpsd w) v v) = 0%R.
Proof. intros Hw. rewrite wpsd_quadratic_form. cbn [fst snd RtoC]. split; [|reflexivity].
  apply rsum_nonneg; intros t Ht. pose proof (Hw t Ht). pose proof (Cmod_ge_0 (dot D v (fun d => x d t))). nra. Qed.

Lemma form_ext (A B : mat) v : (forall i j, A i j = B i j) -> form D A v v = form D B v v.
Proof. intros H. unfold form. apply dot_ext; auto. intros i Hi. apply mv_ext; auto. Qed.

Lemma mask_norm_nonneg nz t : (0 < floor)%R -> (forall t, (t < Tn)%nat -> 0 <= m t)%R -> (t < Tn)%nat ->
  (0 <= mask_norm RO Tn m floor nz t)%R.
Proof. intros Hf Hm Ht. unfold mask_norm. destruct nz; [|auto].
  unfold odiv; cbn [omul oinv RO]. rewrite omax_RO.
  assert (0 < Rmax (bsum RO Tn m) floor)%R by (eapply Rlt_le_trans; [exact Hf | apply Rmax_r]).
  apply Rmult_le_pos; [auto | left; apply Rinv_0_lt_compat; auto]. Qed.

Theorem psd_psd nz v : (0 < floor)%R -> (forall t, (t < Tn)%nat -> 0 <= m t)%R ->
  (0 <= fst (form D (psd_masked RO Tn x m floor nz) v v))%R /\
  snd (form D (psd_masked RO Tn x m floor nz) v v) = 0%R.
Proof. intros Hf Hm.
  rewrite (form_ext _ (wpsd (mask_norm RO Tn m floor nz)) v) by (intros; apply psd_masked_RO).
  apply wpsd_psd. intros; apply mask_norm_nonneg; auto. Qed.

Theorem psd_nomask_psd v :
  (0 <= fst (form D (psd_nomask RO Tn x) v v))%R /\ snd (form D (psd_nomask RO Tn x) v v) = 0%R.
Proof. rewrite (form_ext _ (wpsd (fun _ => / INR Tn)%R) v) by (intros; apply psd_nomask_RO).
  apply wpsd_psd. intros t Ht. left. apply Rinv_0_lt_compat. apply lt_0_INR. lia. Qed.

(* the quadratic form is exactly the mask-weighted output power *)
Theorem psd_quadratic_form nz v :
  form D (psd_masked RO Tn x m floor nz) v v
  = RtoC (rsum Tn (fun t => mask_norm RO Tn m floor nz t *
        (Cmod (dot D v (fun d => x d t)) * Cmod (dot D v (fun d => x d t))))%R).
Proof. rewrite (form_ext _ (wpsd (mask_norm RO Tn m floor nz)) v) by (intros; apply psd_masked_RO).
  apply wpsd_quadratic_form. Qed.

(* ---- all-zero mask: finite, zero matrix ---- *)
Theorem psd_zero_mask nz d e : (0 < floor)%R -> (forall t, (t < Tn)%nat -> m t = 0%R) ->
  psd_masked RO Tn x m floor nz d e = RtoC 0.
Proof. intros Hf Hz. rewrite psd_masked_RO. unfold wpsd. refine (csum_zero _ _ _); intros t Ht.
  assert (E: mask_norm RO Tn m floor nz t = 0%R).
  { unfold mask_norm. destruct nz; [|auto]. unfold odiv; cbn [omul oinv RO]. rewrite (Hz t Ht). ring. }
  rewrite E. ring. Qed.
End PSDproofs.

(* ---- invariance to positive rescaling of a normalised mask ---- *)
Theorem psd_mask_scale_inv Tn (x : nat -> nat -> C) (m : nat -> R) floor c d e :
  (0 < floor)%R -> (0 < c)%R -> (floor <= rsum Tn m)%R -> (floor <= c * rsum Tn m)%R ->
  psd_masked RO Tn x (fun t => c * m t)%R floor true d e = psd_masked RO Tn x m floor true d e.
Proof. intros Hf Hc H1 H2. rewrite !psd_masked_RO. unfold wpsd. apply csum_ext; intros t Ht.
  assert (E : mask_norm RO Tn (fun t => c * m t)%R floor true t = mask_norm RO Tn m floor true t).
  { unfold mask_norm, odiv; cbn [omul oinv RO]. rewrite !omax_RO.
    rewrite (bsum_RO Tn m), (bsum_RO Tn (fun t => c * m t)%R).
    rewrite rsum_scale_l. rewrite (Rmax_left (c * rsum Tn m) floor), (Rmax_left (rsum Tn m) floor) by lra.
    field. split; lra. }
  rewrite E. reflexivity. Qed.

(* ---- condition_covariance ---- *)
Section CondProofs.
Variables (D : nat) (A : nat -> nat -> C) (gamma : R).
Hypothesis HD : (0 < D)%nat.
Hypothesis Hg : (0 <= gamma)%R.

Definition ctr (B : mat) : C := csum D (fun i => B i i).

Lemma condition_cov_RO i j :
  condition_cov RO D A gamma i j
  = (A i j + (if Nat.eqb i j then RtoC gamma * ctr A / RtoC (INR D) else 0)) / RtoC (1 + gamma).
Proof. unfold condition_cov, ctrace. rewrite !cscale_RO, cadd_RO, csumO_RO. cbn [oinv oadd o1 RO]. rewrite onat_RO.
  fold (ctr A). unfold Cdiv. rewrite !RtoC_inv; [| apply not_0_INR; lia | lra].
  asC. destruct (Nat.eqb i j); rewrite ?cscale_RO, ?c0_RO; ring. Qed.

Lemma csum_delta n (f : nat -> C) (c : C) j : (j < n)%nat ->
  csum n (fun i => if Nat.eqb i j then c else 0) = c.
Proof. induction n; intros Hj; [lia|]. cbn [csum]. destruct (Nat.eq_dec j n) as [->|Hne].
  - rewrite Nat.eqb_refl. rewrite csum_zero. ring. intros i Hi. destruct (Nat.eqb_spec i n); [lia|reflexivity].
  - rewrite IHn by lia. destruct (Nat.eqb_spec n j); [lia|ring]. Qed.

Lemma csum_const n (c : C) : csum n (fun _ => c) = RtoC (INR n) * c.
Proof. induction n. cbn [csum]. simpl. ring. cbn [csum]. rewrite IHn, S_INR, RtoC_plus. ring. Qed.

(* (Phi + gamma tr(Phi)/D I)/(1+gamma) preserves the trace *)
Theorem condition_cov_trace : ctr (condition_cov RO D A gamma) = ctr A.
Proof. unfold ctr at 1.
  rewrite (csum_ext D _ (fun i => / RtoC (1+gamma) * A i i + / RtoC (1+gamma) * (RtoC gamma * ctr A / RtoC (INR D)))).
  2:{ intros i Hi. rewrite condition_cov_RO, Nat.eqb_refl. unfold Cdiv. ring. }
  rewrite csum_plus, csum_scal, csum_const. fold (ctr A).
  assert (H1 : RtoC (INR D) <> 0). { intros E. apply RtoC_inj in E. apply not_0_INR in E; auto; lia. }
  assert (H2 : RtoC (1 + gamma) <> 0). { intros E. apply RtoC_inj in E. lra. }
  rewrite RtoC_plus in *. field. split; auto. Qed.

Theorem condition_cov_hermitian : hermitian A -> (snd (ctr A) = 0)%R -> hermitian (condition_cov RO D A gamma).
Proof. intros HA Htr i j. rewrite !condition_cov_RO. rewrite (Nat.eqb_sym j i).
  assert (Ec : Cconj (ctr A) = ctr A). { destruct (ctr A) as [p q]. simpl in Htr. subst q. unfold Cconj; simpl. f_equal; ring. }
  unfold Cdiv. rewrite Cconj_mult, Cconj_plus. rewrite <- (HA i j).
  rewrite <- !RtoC_inv; [| lra | apply not_0_INR; lia]. rewrite !Cconj_R.
  destruct (Nat.eqb i j).
  - rewrite !Cconj_mult, Ec, !Cconj_R. reflexivity.
  - rewrite Cconj_R. reflexivity. Qed.

(* v^H cond(Phi) v = (v^H Phi v + gamma tr(Phi)/D |v|^2)/(1+gamma) *)
Theorem condition_cov_form v :
  form D (condition_cov RO D A gamma) v v
  = (form D A v v + RtoC gamma * ctr A / RtoC (INR D) * dot D v v) / RtoC (1 + gamma).
Proof.
  unfold form at 1. unfold dot at 1, mv.
  transitivity (csum D (fun i => Cconj (v i) * (/ RtoC (1+gamma) * (mv D A v i + RtoC gamma * ctr A / RtoC (INR D) * v i)))).
  { apply csum_ext; intros i Hi. f_equal.
    rewrite (csum_ext D _ (fun j => / RtoC (1+gamma) * (A i j * v j) + / RtoC (1+gamma) * ((if Nat.eqb j i then RtoC gamma * ctr A / RtoC (INR D) * v i else 0)))).
    2:{ intros j Hj. rewrite condition_cov_RO. rewrite (Nat.eqb_sym j i). destruct (Nat.eqb_spec i j); [subst j|]; unfold Cdiv; ring. }
    rewrite csum_plus, !csum_scal. rewrite (csum_delta D (fun _ => 0)) by auto. unfold mv. ring. }
  unfold form, dot, Cdiv.
  rewrite (csum_ext D _ (fun i => / RtoC (1+gamma) * (Cconj (v i) * mv D A v i) + / RtoC (1+gamma) * (RtoC gamma * ctr A * / RtoC (INR D)) * (Cconj (v i) * v i))).
  2:{ intros; ring. }
  rewrite csum_plus, !csum_scal. ring. Qed.

Theorem condition_cov_psd v :
  (0 <= fst (form D A v v))%R -> snd (form D A v v) = 0%R ->
  (0 <= fst (ctr A))%R -> snd (ctr A) = 0%R ->
  (0 <= fst (form D (condition_cov RO D A gamma) v v))%R /\ snd (form D (condition_cov RO D A gamma) v v) = 0%R.
Proof. intros Hf1 Hf2 Ht1 Ht2. rewrite condition_cov_form.
  assert (Ev : dot D v v = RtoC (rsum D (fun i => Cmod (v i) * Cmod (v i))%R)).
  { unfold dot. rewrite <- csum_RtoC. apply csum_ext; intros. apply conj_mul_self. }
  assert (Hn : (0 <= rsum D (fun i => Cmod (v i) * Cmod (v i)))%R).
  { apply rsum_nonneg; intros. pose proof (Cmod_ge_0 (v k)). nra. }
  rewrite Ev. destruct (form D A v v) as [f1 f2]. destruct (ctr A) as [t1 t2]. cbn [fst snd] in *. subst f2 t2.
  set (n2 := rsum D _) in *.
  assert (HD' : (0 < INR D)%R) by (apply lt_0_INR; lia).
  replace ((f1, 0%R) + RtoC gamma * (t1, 0%R) / RtoC (INR D) * RtoC n2)%C
     with (RtoC (f1 + gamma * t1 / INR D * n2)%R).
  2:{ unfold Cdiv. rewrite <- RtoC_inv by lra. unfold RtoC, Cplus, Cmult; simpl. f_equal; field; lra. }
  unfold Cdiv. rewrite <- RtoC_inv by lra. rewrite <- RtoC_mult. cbn [fst snd RtoC]. split; [|reflexivity].
  apply Rmult_le_pos. 2:{ left. apply Rinv_0_lt_compat. lra. }
  assert (0 <= gamma * t1 / INR D * n2)%R.
  { apply Rmult_le_pos; auto. apply Rmult_le_pos. nra. left. apply Rinv_0_lt_compat; auto. }
  lra. Qed.
End CondProofs.
