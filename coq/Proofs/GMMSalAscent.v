(* Proofs/GMMSalAscent.v -- C02 "for every ... saliency": the diagonal-covariance GMM step of Proofs/GMMAscent.v with an
   arbitrary strictly positive saliency s_n.  The monotone quantity is sum_n s_n ln sum_k pi_k N(y_n; mu_k, diag v_k)
   (observation n counted s_n times, as in C08); the M-step is the model's: weight_sal on (posterior, saliency), g_mean and
   g_cov_diag on the masked affiliation posterior * saliency - exactly what GMMTrainer hands to its sub-trainers. *)
From Coq Require Import Reals Lra Lia.
From PB Require Import Ops CLin Model.Posterior Model.Trainers Proofs.Posterior Proofs.Trainers Proofs.EMAscent Proofs.GMMAscent.
Open Scope R_scope.

Section GMMSal.
Variables (K' D N : nat) (tiny epsw : R) (y : nat -> nat -> R) (sal : nat -> R).
Let K := S K'.
Hypothesis HN : (0 < N)%nat.
Hypothesis Hsal : forall n, (n < N)%nat -> 0 < sal n.
Variables (w : nat -> R) (mu v : nat -> nat -> R).
Hypothesis Hw : forall k, (k < K)%nat -> 0 < w k.
Hypothesis Hwsum : rsum K w = 1.
Hypothesis Hv : forall k d, (k < K)%nat -> (d < D)%nat -> 0 < v k d.

Let p := joint D y w mu v.
Let g (n k : nat) : R := gam K' D y w mu v n k.
(* masked affiliation and class masses *)
Let a (k n : nat) : R := g n k * sal n.
Let c (k : nat) : R := rsum N (a k).
Let Stot := rsum N sal.

Definition ws' (k : nat) : R := weight_sal RO K' N (fun k n => g n k) sal epsw k.
Definition mus' (k d : nat) : R := g_mean RO N tiny y (a k) d.
Definition vs_' (k d : nat) : R := g_cov_diag RO N tiny y (a k) d.
Hypothesis Hmass : forall k, (k < K)%nat -> tiny <= c k.
Hypothesis Hv' : forall k d, (k < K)%nat -> (d < D)%nat -> 0 < vs_' k d.

Lemma g_pos n k : (k < K)%nat -> 0 < g n k.
Proof. intros Hk. apply (gam_pos K' D N y HN w mu v Hw n k Hk). Qed.
Lemma a_pos k n : (k < K)%nat -> (n < N)%nat -> 0 < a k n.
Proof. intros Hk Hn. unfold a. apply Rmult_lt_0_compat. apply g_pos; auto. apply Hsal; auto. Qed.
Lemma cs_pos k : (k < K)%nat -> 0 < c k.
Proof. intros Hk. unfold c. apply rsum_pos; auto. intros; apply a_pos; auto. Qed.
Lemma S_pos : 0 < Stot.
Proof. unfold Stot. apply rsum_pos; auto. Qed.
Lemma cs_total : rsum K c = Stot.
Proof. unfold c, a, Stot. rewrite rsum_swap. apply rsum_ext; intros n Hn. rewrite rsum_scale.
  pose proof (gam_sum K' D N y HN w mu v Hw n) as E. unfold g. fold K in E.
  change (rsum K (fun k => gam K' D y w mu v n k)) with (rsum K (gam K' D y w mu v n)). rewrite E. ring. Qed.

Lemma ws'_spec k : (k < K)%nat -> ws' k = c k / rsum K c.
Proof. intros Hk. unfold ws', weight_sal.
  assert (Ews : forall j, wsum RO N (fun k n => g n k) sal j = c j).
  { intros j. unfold wsum. rewrite bsum_RO. unfold c, a. apply rsum_ext; intros; cbn [omul RO]; ring. }
  assert (En : wnorm1 RO K' N (fun k n => g n k) sal = rsum K c).
  { unfold wnorm1. rewrite bsum_RO. apply rsum_ext; intros j Hj. rewrite Ews.
    unfold oabs. cbn [oleb o0 oopp RO]. destruct (Rleb 0 (c j)) eqn:E; auto. apply Rleb_false in E. pose proof (cs_pos j Hj). lra. }
  rewrite En, Ews. cbn [oleb o0 omul oinv RO]. rewrite cs_total. pose proof S_pos as HS.
  assert (Ef : Rleb Stot 0 = false) by (apply Rleb_false; auto). rewrite Ef. cbn [andb]. reflexivity. Qed.
Lemma ws'_pos k : (k < K)%nat -> 0 < ws' k.
Proof. intros Hk. rewrite ws'_spec by auto. apply Rdiv_lt_0_compat. apply cs_pos; auto. rewrite cs_total. apply S_pos. Qed.

Let p' := joint D y ws' mus' vs_'.

(* Q(p | q) with saliency, split into the weight part and the (class, coordinate) parts *)
Lemma Qs_split ww mm vv :
  (forall k, (k < K)%nat -> 0 < ww k) -> (forall k d, (k < K)%nat -> (d < D)%nat -> 0 < vv k d) ->
  Qfun N K sal p (joint D y ww mm vv)
  = rsum K (fun k => c k * ln (ww k))
    + rsum K (fun k => c k * (- / 2 * INR D * ln (2 * PI)))
    + rsum K (fun k => rsum D (fun d => ll N (a k) (fun n => y n d) (mm k d) (vv k d))).
Proof. intros Hww Hvv. unfold Qfun.
  rewrite (rsum_ext N _ (fun n => rsum K (fun k => a k n * ln (ww k))
                                 + rsum K (fun k => a k n * (- / 2 * INR D * ln (2 * PI)))
                                 + rsum K (fun k => rsum D (fun d => a k n * (- / 2 * ln (vv k d) - (y n d - mm k d) * (y n d - mm k d) / (2 * vv k d)))))).
  2:{ intros n Hn. rewrite <- !rsum_plus. rewrite <- rsum_scale_l. apply rsum_ext; intros k Hk.
      change (gamma K p n k) with (g n k).
      rewrite (ln_joint D y ww mm vv n k (Hww k Hk)). rewrite (glp_closed D y mm vv k n) by (intros; apply Hvv; auto).
      rewrite (rsum_scale_l D (fun d => - / 2 * ln (vv k d) - (y n d - mm k d) * (y n d - mm k d) / (2 * vv k d)) (a k n)).
      unfold a. ring. }
  rewrite !rsum_plus. f_equal; [f_equal|].
  - rewrite rsum_swap. apply rsum_ext; intros k Hk. unfold c. rewrite <- rsum_scale. reflexivity.
  - rewrite rsum_swap. apply rsum_ext; intros k Hk. unfold c. rewrite <- rsum_scale. reflexivity.
  - rewrite rsum_swap. apply rsum_ext; intros k Hk. rewrite rsum_swap. apply rsum_ext; intros d Hd.
    unfold ll. reflexivity. Qed.

Lemma coords_opt k d : (k < K)%nat -> (d < D)%nat ->
  ll N (a k) (fun n => y n d) (mu k d) (v k d) <= ll N (a k) (fun n => y n d) (mus' k d) (vs_' k d).
Proof. intros Hk Hd.
  assert (HG : 0 < rsum N (a k)) by (apply cs_pos; auto).
  assert (Hden : tiny <= rsum N (a k)) by (apply Hmass; auto).
  assert (Em : mus' k d = rsum N (fun n => a k n * y n d) / rsum N (a k)).
  { unfold mus'. apply g_mean_spec; auto. }
  assert (Ev : vs_' k d = rsum N (fun n => a k n * (y n d - mus' k d) * (y n d - mus' k d)) / rsum N (a k)).
  { unfold vs_'. rewrite g_cov_diag_spec by auto. fold (mus' k d). f_equal. apply rsum_ext; intros; ring. }
  pose proof (Hv' k d Hk Hd) as Hvp. rewrite Ev in Hvp. rewrite Em in Hvp.
  pose proof (gaussian_coord_mstep_max N (a k) (fun n => y n d) HG Hvp (mu k d) (v k d) (Hv k d Hk Hd)) as H.
  rewrite Ev, Em. exact H. Qed.

Theorem gmm_sal_Q_ascent : Qfun N K sal p p <= Qfun N K sal p p'.
Proof. unfold p at 2, p'. rewrite (Qs_split w mu v Hw Hv). rewrite (Qs_split ws' mus' vs_' ws'_pos Hv').
  assert (H1 : rsum K (fun k => c k * ln (w k)) <= rsum K (fun k => c k * ln (ws' k))).
  { rewrite (rsum_ext K (fun k => c k * ln (ws' k)) (fun k => c k * ln (c k / rsum K c)))
      by (intros; rewrite ws'_spec; auto).
    apply weight_update_maximises; auto. intros; apply cs_pos; auto. unfold K; lia. }
  assert (H2 : rsum K (fun k => rsum D (fun d => ll N (a k) (fun n => y n d) (mu k d) (v k d)))
            <= rsum K (fun k => rsum D (fun d => ll N (a k) (fun n => y n d) (mus' k d) (vs_' k d)))).
  { apply rsum_le; intros k Hk. apply rsum_le; intros d Hd. apply coords_opt; auto. }
  lra. Qed.

(* one EM step with saliency never decreases sum_n s_n ln sum_k pi_k N(y_n; mu_k, diag v_k) *)
Theorem gmm_sal_em_step_ascent : loglik N K sal p <= loglik N K sal p'.
Proof. apply em_ascent; try (unfold K; lia).
  - intros n Hn. left. apply Hsal; auto.
  - intros n k _ Hk. apply (p_pos K' D y w mu v Hw n k Hk).
  - intros n k _ Hk. unfold p', joint. apply Rmult_lt_0_compat. apply ws'_pos; auto. apply exp_pos.
  - apply gmm_sal_Q_ascent. Qed.
End GMMSal.
