(* Proofs/GMMAscent.v -- C02 for a CONCRETE model without any oracle: one EM step of the diagonal-covariance GMM
   (E-step = Bayes posterior of the current model, M-step = Model/Posterior.weight_sal with the all-ones saliency +
   Model/Trainers.g_mean / g_cov_diag) never decreases the observed-data log-likelihood.  Every hypothesis of
   em_ascent is discharged here: the weight part of Q by weight_update_maximises, every (class, coordinate) part by
   gaussian_coord_mstep_max. *)
From Coq Require Import Reals Lra Lia.
From Coquelicot Require Import Coquelicot.
From PB Require Import Ops CLin Model.Posterior Model.Trainers Proofs.Posterior Proofs.Trainers Proofs.EMAscent.
Open Scope R_scope.

Lemma ln_inv_sqrt v : 0 < v -> ln (/ sqrt v) = - / 2 * ln v.
Proof. intros Hv. rewrite ln_Rinv by (apply sqrt_lt_R0; auto).
  assert (E : ln v = 2 * ln (sqrt v)).
  { rewrite <- (sqrt_sqrt v) at 1 by lra. rewrite ln_mult by (apply sqrt_lt_R0; auto). ring. }
  lra. Qed.
Lemma sq_inv_sqrt v x : 0 < v -> (/ sqrt v * x) * (/ sqrt v * x) = x * x / v.
Proof. intros Hv. assert (Hs : 0 < sqrt v) by (apply sqrt_lt_R0; auto).
  replace ((/ sqrt v * x) * (/ sqrt v * x)) with (x * x * / (sqrt v * sqrt v)) by (field; lra).
  rewrite sqrt_sqrt by lra. reflexivity. Qed.

Section GMM.
Variables (K' D N : nat) (tiny epsw : R) (y : nat -> nat -> R).   (* y n d *)
Let K := S K'.
Hypothesis Htiny : 0 < tiny.
Hypothesis HN : (0 < N)%nat.

(* a diagonal GMM: weights w k, means mu k d, variances v k d *)
Definition glp (mu v : nat -> nat -> R) (k n : nat) : R :=
  - / 2 * INR D * ln (2 * PI) + rsum D (fun d => ln (/ sqrt (v k d)))
  - / 2 * rsum D (fun d => (/ sqrt (v k d) * (y n d - mu k d)) * (/ sqrt (v k d) * (y n d - mu k d))).
Definition joint (w : nat -> R) (mu v : nat -> nat -> R) (n k : nat) : R := w k * exp (glp mu v k n).

(* the closed form of the log-density used below *)
Lemma glp_closed mu v k n : (forall d, (d < D)%nat -> 0 < v k d) ->
  glp mu v k n = - / 2 * INR D * ln (2 * PI)
                 + rsum D (fun d => - / 2 * ln (v k d) - (y n d - mu k d) * (y n d - mu k d) / (2 * v k d)).
Proof. intros Hv. unfold glp.
  rewrite (rsum_ext D (fun d => ln (/ sqrt (v k d))) (fun d => - / 2 * ln (v k d))) by (intros; apply ln_inv_sqrt; auto).
  rewrite (rsum_ext D (fun d => (/ sqrt (v k d) * (y n d - mu k d)) * (/ sqrt (v k d) * (y n d - mu k d)))
                     (fun d => (y n d - mu k d) * (y n d - mu k d) / v k d)) by (intros; apply sq_inv_sqrt; auto).
  assert (E : rsum D (fun d => - / 2 * ln (v k d) - (y n d - mu k d) * (y n d - mu k d) / (2 * v k d))
            = rsum D (fun d => - / 2 * ln (v k d)) + (- / 2) * rsum D (fun d => (y n d - mu k d) * (y n d - mu k d) / v k d)).
  { rewrite <- rsum_scale_l, <- rsum_plus. apply rsum_ext; intros d Hd. specialize (Hv d Hd). field. lra. }
  rewrite E. ring. Qed.

(* ---- one EM step ---- *)
Variables (w : nat -> R) (mu v : nat -> nat -> R).          (* current model *)
Hypothesis Hw : forall k, (k < K)%nat -> 0 < w k.
Hypothesis Hwsum : rsum K w = 1.
Hypothesis Hv : forall k d, (k < K)%nat -> (d < D)%nat -> 0 < v k d.

Let p := joint w mu v.
Lemma p_pos n k : (k < K)%nat -> 0 < p n k.
Proof. intros Hk. unfold p, joint. apply Rmult_lt_0_compat. apply Hw; auto. apply exp_pos. Qed.
(* E-step: Bayes posterior gam n k (this is what Model/Posterior.posterior computes when the floor is inactive:
   theorem C01_posterior_is_bayes) *)
Definition gam (n k : nat) : R := gamma K p n k.
Lemma gam_pos n k : (k < K)%nat -> 0 < gam n k.
Proof. intros Hk. unfold gam, gamma. apply Rdiv_lt_0_compat. apply p_pos; auto.
  apply rsum_pos. unfold K; lia. intros; apply p_pos; auto. Qed.
Lemma gam_sum n : rsum K (gam n) = 1.
Proof. unfold gam, gamma. unfold Rdiv. rewrite rsum_scale.
  assert (0 < rsum K (p n)) by (apply rsum_pos; [unfold K; lia | intros; apply p_pos; auto]). field. lra. Qed.

(* M-step of the model: affiliation rows a k n = gam n k, all-ones saliency *)
Let a (k n : nat) : R := gam n k.
Definition w' (k : nat) : R := weight_sal RO K' N a (fun _ => 1) epsw k.
Definition mu' (k d : nat) : R := g_mean RO N tiny y (a k) d.
Definition v' (k d : nat) : R := g_cov_diag RO N tiny y (a k) d.
(* class masses *)
Let c (k : nat) : R := rsum N (a k).
Lemma c_pos k : (k < K)%nat -> 0 < c k.
Proof. intros Hk. unfold c, a. apply rsum_pos; auto. intros; apply gam_pos; auto. Qed.
Lemma c_total : rsum K c = INR N.
Proof. unfold c, a. rewrite rsum_swap. rewrite (rsum_ext N _ (fun _ => 1)) by (intros; apply gam_sum).
  rewrite rsum_const. ring. Qed.

(* guards of the M-step that must be inactive (the property's "no numerical guard active") *)
Hypothesis Hmass : forall k, (k < K)%nat -> tiny <= c k.
Hypothesis Hv' : forall k d, (k < K)%nat -> (d < D)%nat -> 0 < v' k d.

Lemma w'_spec k : (k < K)%nat -> w' k = c k / INR N.
Proof. intros Hk. unfold w', weight_sal.
  assert (Ews : forall j, wsum RO N a (fun _ => 1) j = c j).
  { intros j. unfold wsum. rewrite bsum_RO. unfold c. apply rsum_ext; intros; cbn [omul RO]; ring. }
  assert (En : wnorm1 RO K' N a (fun _ => 1) = INR N).
  { unfold wnorm1. rewrite bsum_RO. rewrite <- c_total. apply rsum_ext; intros j Hj. rewrite Ews.
    unfold oabs. cbn [oleb o0 oopp RO]. destruct (Rleb 0 (c j)) eqn:E; auto. apply Rleb_false in E. pose proof (c_pos j Hj). lra. }
  rewrite En, Ews. cbn [oleb o0 omul oinv RO].
  assert (HNr : 0 < INR N) by (apply lt_0_INR; auto).
  assert (Ef : Rleb (INR N) 0 = false) by (apply Rleb_false; auto). rewrite Ef. cbn [andb]. reflexivity. Qed.
Lemma w'_pos k : (k < K)%nat -> 0 < w' k.
Proof. intros Hk. rewrite w'_spec by auto. apply Rdiv_lt_0_compat. apply c_pos; auto. apply lt_0_INR; auto. Qed.
Lemma w'_is_normalised_mass k : (k < K)%nat -> w' k = c k / rsum K c.
Proof. intros Hk. rewrite w'_spec by auto. rewrite c_total. reflexivity. Qed.

Let p' := joint w' mu' v'.
Lemma p'_pos n k : (k < K)%nat -> 0 < p' n k.
Proof. intros Hk. unfold p', joint. apply Rmult_lt_0_compat. apply w'_pos; auto. apply exp_pos. Qed.

(* ln of a joint *)
Lemma ln_joint ww mm vv n k : 0 < ww k -> ln (joint ww mm vv n k) = ln (ww k) + glp mm vv k n.
Proof. intros H. unfold joint. rewrite ln_mult by (auto; apply exp_pos). rewrite ln_exp. reflexivity. Qed.

(* Q(p | q) for joints q = joint ww mm vv, split into the weight part and the (class, coordinate) parts *)
Lemma Q_split ww mm vv :
  (forall k, (k < K)%nat -> 0 < ww k) -> (forall k d, (k < K)%nat -> (d < D)%nat -> 0 < vv k d) ->
  Qfun N K (fun _ => 1) p (joint ww mm vv)
  = rsum K (fun k => c k * ln (ww k))
    + rsum K (fun k => c k * (- / 2 * INR D * ln (2 * PI)))
    + rsum K (fun k => rsum D (fun d => ll N (a k) (fun n => y n d) (mm k d) (vv k d))).
Proof. intros Hww Hvv. unfold Qfun.
  rewrite (rsum_ext N _ (fun n => rsum K (fun k => gam n k * ln (ww k))
                                 + rsum K (fun k => gam n k * (- / 2 * INR D * ln (2 * PI)))
                                 + rsum K (fun k => rsum D (fun d => gam n k * (- / 2 * ln (vv k d) - (y n d - mm k d) * (y n d - mm k d) / (2 * vv k d)))))).
  2:{ intros n Hn. rewrite Rmult_1_l. rewrite <- !rsum_plus. apply rsum_ext; intros k Hk. fold (gam n k).
      rewrite ln_joint by (apply Hww; auto). rewrite glp_closed by (intros; apply Hvv; auto).
      rewrite (rsum_scale_l D (fun d => - / 2 * ln (vv k d) - (y n d - mm k d) * (y n d - mm k d) / (2 * vv k d)) (gam n k)). ring. }
  rewrite !rsum_plus. f_equal; [f_equal|].
  - rewrite rsum_swap. apply rsum_ext; intros k Hk. unfold c, a. rewrite <- rsum_scale. reflexivity.
  - rewrite rsum_swap. apply rsum_ext; intros k Hk. unfold c, a. rewrite <- rsum_scale. reflexivity.
  - rewrite rsum_swap. apply rsum_ext; intros k Hk. rewrite rsum_swap. apply rsum_ext; intros d Hd.
    unfold ll, a. reflexivity. Qed.

(* g_mean / g_cov_diag of the model are the maximisers of gaussian_coord_mstep_max *)
Lemma coord_opt k d : (k < K)%nat -> (d < D)%nat ->
  ll N (a k) (fun n => y n d) (mu k d) (v k d) <= ll N (a k) (fun n => y n d) (mu' k d) (v' k d).
Proof. intros Hk Hd.
  assert (Hg : forall n, (n < N)%nat -> 0 <= a k n) by (intros; unfold a; left; apply gam_pos; auto).
  assert (HG : 0 < rsum N (a k)) by (apply c_pos; auto).
  assert (Hden : tiny <= rsum N (a k)) by (apply Hmass; auto).
  assert (Em : mu' k d = rsum N (fun n => a k n * y n d) / rsum N (a k)).
  { unfold mu'. apply g_mean_spec; auto. }
  assert (Ev : v' k d = rsum N (fun n => a k n * (y n d - mu' k d) * (y n d - mu' k d)) / rsum N (a k)).
  { unfold v'. rewrite g_cov_diag_spec by auto. fold (mu' k d). f_equal. apply rsum_ext; intros; ring. }
  pose proof (Hv' k d Hk Hd) as Hvp. rewrite Ev in Hvp. rewrite Em in Hvp.
  pose proof (gaussian_coord_mstep_max N (a k) (fun n => y n d) HG Hvp (mu k d) (v k d) (Hv k d Hk Hd)) as H.
  rewrite Ev, Em. exact H. Qed.

(* the M-step does not decrease the auxiliary function ... *)
Theorem gmm_diag_Q_ascent : Qfun N K (fun _ => 1) p p <= Qfun N K (fun _ => 1) p p'.
Proof. unfold p at 2, p'. rewrite (Q_split w mu v Hw Hv). rewrite (Q_split w' mu' v' w'_pos Hv').
  assert (H1 : rsum K (fun k => c k * ln (w k)) <= rsum K (fun k => c k * ln (w' k))).
  { rewrite (rsum_ext K (fun k => c k * ln (w' k)) (fun k => c k * ln (c k / rsum K c)))
      by (intros; rewrite w'_is_normalised_mass; auto).
    apply weight_update_maximises; auto. intros; apply c_pos; auto. unfold K; lia. }
  assert (H2 : rsum K (fun k => rsum D (fun d => ll N (a k) (fun n => y n d) (mu k d) (v k d)))
            <= rsum K (fun k => rsum D (fun d => ll N (a k) (fun n => y n d) (mu' k d) (v' k d)))).
  { apply rsum_le; intros k Hk. apply rsum_le; intros d Hd. apply coord_opt; auto. }
  lra. Qed.

(* ... hence one EM step of the diagonal GMM never decreases the observed-data log-likelihood *)
Theorem gmm_diag_em_step_ascent : loglik N K (fun _ => 1) p <= loglik N K (fun _ => 1) p'.
Proof. apply em_ascent; try (unfold K; lia).
  - intros; lra.
  - intros n k _ Hk. apply p_pos; auto.
  - intros n k _ Hk. apply p'_pos; auto.
  - apply gmm_diag_Q_ascent. Qed.

(* the new weights are again a distribution, so the step can be iterated *)
Theorem gmm_diag_new_weights_distribution : (forall k, (k < K)%nat -> 0 < w' k) /\ rsum K w' = 1.
Proof. split. intros; apply w'_pos; auto.
  rewrite (rsum_ext K w' (fun k => c k * / INR N)) by (intros; rewrite w'_spec; auto).
  rewrite rsum_scale, c_total. field. apply not_0_INR. lia. Qed.
End GMM.

(* ---- every prefix of the iteration history ---- *)
Section GMMIter.
Variables (K' D N : nat) (tiny epsw : R) (y : nat -> nat -> R).
Hypothesis HN : (0 < N)%nat.
Definition theta := ((nat -> R) * (nat -> nat -> R) * (nat -> nat -> R))%type.
Definition tw (t : theta) := fst (fst t).
Definition tmu (t : theta) := snd (fst t).
Definition tv (t : theta) := snd t.
(* one E-step followed by one M-step of the model *)
Definition gmm_step (t : theta) : theta :=
  (w' K' D N epsw y (tw t) (tmu t) (tv t), mu' K' D N tiny y (tw t) (tmu t) (tv t), v' K' D N tiny y (tw t) (tmu t) (tv t)).
Definition gmm_loglik (t : theta) : R := loglik N (S K') (fun _ => 1) (joint D y (tw t) (tmu t) (tv t)).
(* "no numerical guard active" at a model: valid parameters, class masses of its E-step above the floor, and the
   variances of the following M-step positive *)
Definition gmm_guard (t : theta) : Prop :=
  (forall k, (k < S K')%nat -> 0 < tw t k) /\ rsum (S K') (tw t) = 1 /\
  (forall k d, (k < S K')%nat -> (d < D)%nat -> 0 < tv t k d) /\
  (forall k, (k < S K')%nat -> tiny <= rsum N (fun n => gam K' D y (tw t) (tmu t) (tv t) n k)) /\
  (forall k d, (k < S K')%nat -> (d < D)%nat -> 0 < tv (gmm_step t) k d).

Lemma gmm_step_ascent t : gmm_guard t -> gmm_loglik t <= gmm_loglik (gmm_step t).
Proof. intros [Hw [Hs [Hv [Hm Hv2]]]]. unfold gmm_loglik, gmm_step, tw, tmu, tv. cbn [fst snd].
  apply (gmm_diag_em_step_ascent K' D N tiny epsw y HN (fst (fst t)) (snd (fst t)) (snd t)); auto. Qed.

Theorem gmm_diag_em_monotone j t :
  (forall i, (i < j)%nat -> gmm_guard (Nat.iter i gmm_step t)) ->
  gmm_loglik t <= gmm_loglik (Nat.iter j gmm_step t).
Proof. induction j as [|j IH]; intros HG. simpl. lra.
  eapply Rle_trans. apply IH. intros i Hi. apply HG. lia.
  simpl. apply gmm_step_ascent. apply (HG j). lia. Qed.
End GMMIter.

(* ---- the guard is satisfiable (non-vacuity) ---- *)
(* two classes with equal parameters on y = (0, 2): gam = 1/2, the next variances are 1 > 0, masses 1 >= 1/2 *)
Definition ex_y (n d : nat) : R := match n with 0%nat => 0 | _ => 2 end.
Definition ex_t : theta := (fun _ => / 2, fun _ _ => 1, fun _ _ => 1).
Lemma ex_gam n k : (k < 2)%nat -> gam 1 1 ex_y (tw ex_t) (tmu ex_t) (tv ex_t) n k = / 2.
Proof. intros Hk. unfold gam, gamma, joint, ex_t, tw, tmu, tv. cbn [fst snd rsum].
  set (x := exp (glp 1 ex_y (fun _ _ => 1) (fun _ _ => 1) 0 n)).
  assert (E : forall j, exp (glp 1 ex_y (fun _ _ : nat => 1) (fun _ _ : nat => 1) j n) = x) by (intros j; reflexivity).
  rewrite !E. assert (0 < x) by apply exp_pos. field. lra. Qed.
Local Notation a_ k := (fun n => gam 1 1 ex_y (tw ex_t) (tmu ex_t) (tv ex_t) n k).
Lemma ex_den k : (k < 2)%nat -> g_den RO 2 (/ 2) (a_ k) = 1.
Proof. intros Hk. unfold g_den. rewrite omax_RO. cbn [bsum oadd o0 RO]. rewrite !ex_gam by exact Hk.
  replace (0 + / 2 + / 2) with 1 by lra. apply Rmax_left. lra. Qed.
Lemma ex_mean k : (k < 2)%nat -> g_mean RO 2 (/ 2) ex_y (a_ k) 0 = 1.
Proof. intros Hk. unfold g_mean. rewrite ex_den by exact Hk. cbn [bsum oadd omul odiv oinv o0 RO]. rewrite !ex_gam by exact Hk.
  unfold ex_y. lra. Qed.
Lemma ex_var k : (k < 2)%nat -> g_cov_diag RO 2 (/ 2) ex_y (a_ k) 0 = 1.
Proof. intros Hk. unfold g_cov_diag, g_cov_full. rewrite ex_den, ex_mean by exact Hk.
  cbn [bsum oadd omul odiv oinv osub oopp o0 RO]. rewrite !ex_gam by exact Hk. unfold ex_y. lra. Qed.
Example gmm_guard_satisfiable : gmm_guard 1 1 2 (/ 2) (/ 2) ex_y ex_t.
Proof. unfold gmm_guard. repeat split.
  - intros; unfold ex_t, tw; cbn; lra.
  - unfold ex_t, tw; cbn [fst snd rsum]. lra.
  - intros; unfold ex_t, tv; cbn; lra.
  - intros k Hk. cbn [rsum]. rewrite !ex_gam by exact Hk. lra.
  - intros k d Hk Hd. assert (d = 0%nat) by lia. subst d. unfold gmm_step, tv at 1. cbn [snd]. unfold v'.
    rewrite (ex_var k Hk). lra. Qed.
