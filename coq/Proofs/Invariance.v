(* Proofs/Invariance.v -- C04: the directional models depend only on the direction of each observation.
   Instance RO.  Step lemmas (normalisation of a scaled vector, phase invariance of scatter / quadratic form /
   log-densities), the one-step E/M facts, and -- through fit_simulation of Proofs/EM.v -- equality of the whole
   EM trajectory for every iteration count, for the generic class-wise mixture of Model/Mixture.v and its
   cACGMM / integration-model / cWMM / cBMM / vMFMM instances.  Oracles (eigh, spline, least_squares, log-normalisers)
   are Section variables: they receive EQUAL arguments in the two runs, hence return equal results. *)
From Coq Require Import Reals Lra Lia List Bool FunctionalExtensionality.
From Coquelicot Require Import Coquelicot.
From PB Require Import Ops CLin Model.EM Model.Posterior Model.Trainers Model.Mixture Proofs.EM.
Open Scope C_scope.

(* ------------------------------------------------------------------ norms of scaled vectors *)
Lemma cnorm2_RO D (z : nat -> C) : cnorm2 RO D z = rsum D (fun d => (Cmod (z d) * Cmod (z d))%R).
Proof. unfold cnorm2. rewrite bsum_RO. apply rsum_ext; intros. apply cabs2_RO. Qed.
Lemma cnorm2_nonneg D (z : nat -> C) : (0 <= cnorm2 RO D z)%R.
Proof. rewrite cnorm2_RO. apply rsum_nonneg; intros. pose proof (Cmod_ge_0 (z k)). nra. Qed.
Lemma cnorm_nonneg D (z : nat -> C) : (0 <= cnorm RO D z)%R.
Proof. unfold cnorm. cbn [osqrt RO]. apply sqrt_pos. Qed.
Lemma cnorm2_scale D (c : C) (z : nat -> C) :
  cnorm2 RO D (fun d => c * z d) = (Cmod c * Cmod c * cnorm2 RO D z)%R.
Proof. rewrite !cnorm2_RO. rewrite <- rsum_scale_l. apply rsum_ext; intros. rewrite Cmod_mult. ring. Qed.
Lemma cnorm_scale D (c : C) (z : nat -> C) : cnorm RO D (fun d => c * z d) = (Cmod c * cnorm RO D z)%R.
Proof. unfold cnorm. cbn [osqrt RO]. rewrite cnorm2_scale.
  rewrite sqrt_mult; [| pose proof (Cmod_ge_0 c); nra | apply cnorm2_nonneg].
  rewrite sqrt_square by apply Cmod_ge_0. reflexivity. Qed.

(* the unit phasor of a non-zero gain *)
Definition phasor (c : C) : C := c / RtoC (Cmod c).
Lemma Cmod_neq_0 (c : C) : c <> 0 -> Cmod c <> 0%R.
Proof. intros Hc H. apply Hc. apply Cmod_eq_0. exact H. Qed.
Lemma phasor_mod (c : C) : c <> 0 -> Cmod (phasor c) = 1%R.
Proof. intros Hc. unfold phasor. pose proof (Cmod_neq_0 c Hc) as Hm.
  rewrite Cmod_div. rewrite Cmod_R. rewrite Rabs_pos_eq by apply Cmod_ge_0. field. exact Hm.
  intro H. apply RtoC_inj in H. auto. Qed.
Lemma phasor_unit (u : C) : Cmod u = 1%R -> phasor u = u.
Proof. intros H. unfold phasor. rewrite H. field. intro E. apply RtoC_inj in E. lra. Qed.

Lemma iszero_false (n : R) : n <> 0%R -> andb (Rleb n 0) (Rleb 0 n) = false.
Proof. intros H. destruct (Rleb n 0) eqn:E1; destruct (Rleb 0 n) eqn:E2; auto.
  apply Rleb_true in E1. apply Rleb_true in E2. exfalso. apply H. lra. Qed.

(* C04 unit_norm_scale, eps_style='where' (cACG): unit(c z) = (c/|c|) unit(z) *)
Theorem cunit_where_scale D tiny (c : C) (z : nat -> C) d :
  c <> 0 -> cnorm RO D z <> 0%R ->
  cunit_where RO D tiny (fun d => c * z d) d = phasor c * cunit_where RO D tiny z d.
Proof. intros Hc Hz. pose proof (Cmod_neq_0 c Hc) as Hm. unfold cunit_where. rewrite cnorm_scale.
  cbn [oleb o0 oinv RO]. rewrite (iszero_false (cnorm RO D z) Hz).
  rewrite (iszero_false (Cmod c * cnorm RO D z)%R) by (apply Rmult_integral_contrapositive_currified; auto).
  rewrite !cscale_RO. unfold phasor. rewrite Rinv_mult. rewrite RtoC_mult. rewrite !RtoC_inv by auto.
  asC. field. split; intro E; apply RtoC_inj in E; auto. Qed.

(* C04 unit_norm_scale, y / max(||y||, tiny) (Watson, Bingham, integration models): the same, when neither
   norm is below the guard *)
Theorem cunit_max_scale D tiny (c : C) (z : nat -> C) d :
  c <> 0 -> (0 < tiny)%R -> (tiny <= cnorm RO D z)%R -> (tiny <= Cmod c * cnorm RO D z)%R ->
  cunit_max RO D tiny (fun d => c * z d) d = phasor c * cunit_max RO D tiny z d.
Proof. intros Hc Ht H1 H2. pose proof (Cmod_neq_0 c Hc) as Hm. unfold cunit_max. rewrite cnorm_scale.
  rewrite !omax_RO. rewrite (Rmax_left _ _ H1), (Rmax_left _ _ H2). cbn [oinv RO].
  assert (Hz : cnorm RO D z <> 0%R) by lra.
  rewrite !cscale_RO. unfold phasor. rewrite Rinv_mult. rewrite RtoC_mult. rewrite !RtoC_inv by auto.
  asC. field. split; intro E; apply RtoC_inj in E; auto. Qed.

(* a vector normalised with the max-guard has norm one *)
Lemma cnorm_cunit_max D tiny (z : nat -> C) :
  (0 < tiny)%R -> (tiny <= cnorm RO D z)%R -> cnorm RO D (cunit_max RO D tiny z) = 1%R.
Proof. intros Ht H1. unfold cunit_max. rewrite omax_RO, (Rmax_left _ _ H1). cbn [oinv RO].
  rewrite (functional_extensionality _ (fun d => RtoC (/ cnorm RO D z) * z d)) by (intros; apply cscale_RO).
  rewrite cnorm_scale. rewrite Cmod_R. rewrite Rabs_pos_eq. field. lra.
  left. apply Rinv_0_lt_compat. lra. Qed.

(* ------------------------------------------------------------------ phase invariance of the statistics *)
Theorem outer_phase_inv (u : C) (a b : C) : Cmod u = 1%R -> (u * a) * Cconj (u * b) = a * Cconj b.
Proof. intros Hu. rewrite Cconj_mult.
  transitivity ((Cconj u * u) * (a * Cconj b)). ring. rewrite conj_mul_self, Hu. rewrite Rmult_1_l. ring. Qed.

(* weighted scatter sum_n w_n y_n y_n^H: unchanged by a unit phasor per observation *)
Theorem scatter_phase_inv N (y y' : nat -> nat -> C) (w w' : nat -> R) (u : nat -> C) d e :
  (forall n, (n < N)%nat -> Cmod (u n) = 1%R) ->
  (forall n d, (n < N)%nat -> y' n d = u n * y n d) ->
  (forall n, (n < N)%nat -> w' n = w n) ->
  scatter RO N y' w' d e = scatter RO N y w d e.
Proof. intros Hu Hy Hw. unfold scatter. rewrite !csumO_RO. apply csum_ext; intros n Hn.
  rewrite !cscale_RO. bridge. rewrite !(Hy n) by auto. rewrite (Hw n) by auto.
  rewrite (outer_phase_inv (u n)) by auto. reflexivity. Qed.

(* hence the covariance steps of the complex Gaussian, Watson / Bingham and cACG trainers *)
Theorem cov_steps_phase_inv N D tiny (y : nat -> nat -> C) (s q : nat -> R) (u : nat -> C) (herm : bool) d e :
  (forall n, (n < N)%nat -> Cmod (u n) = 1%R) ->
  ccsg_cov RO N tiny (fun n d => u n * y n d) s d e = ccsg_cov RO N tiny y s d e /\
  watson_cov RO N (fun n d => u n * y n d) s d e = watson_cov RO N y s d e /\
  cacg_cov RO D N tiny herm (fun n d => u n * y n d) s q d e = cacg_cov RO D N tiny herm y s q d e.
Proof. intros Hu.
  assert (Es : forall w d e, scatter RO N (fun n d => u n * y n d) w d e = scatter RO N y w d e).
  { intros w d0 e0. apply (scatter_phase_inv N y _ w w u d0 e0 Hu); auto. }
  repeat split.
  - unfold ccsg_cov. rewrite Es. reflexivity.
  - unfold watson_cov. rewrite Es. reflexivity.
  - unfold cacg_cov, hermitize, cacg_cov_raw. destruct herm; rewrite !Es; reflexivity. Qed.

Lemma cabs2_phase (u x : C) : Cmod u = 1%R -> cabs2 RO (u * x) = cabs2 RO x.
Proof. intros Hu. rewrite !cabs2_RO, Cmod_mult, Hu. ring. Qed.

(* z^H U diag(1/lam) U^H z floored by tiny *)
Theorem cacg_quad_phase_inv D tiny (U : nat -> nat -> C) (lam : nat -> R) (u : C) (y : nat -> C) :
  Cmod u = 1%R -> cacg_quad RO D tiny U lam (fun d => u * y d) = cacg_quad RO D tiny U lam y.
Proof. intros Hu. unfold cacg_quad. f_equal. f_equal. rewrite !bsum_RO. apply rsum_ext; intros e He.
  unfold odiv. f_equal. rewrite !csumO_RO. bridge.
  rewrite (csum_ext D _ (fun d => u * (Cconj (U d e) * y d))) by (intros; ring).
  rewrite csum_scal. apply cabs2_phase; auto. Qed.
Theorem cacg_log_pdf_phase_inv D tiny (U : nat -> nat -> C) (lam : nat -> R) (u : C) (y : nat -> C) :
  Cmod u = 1%R -> cacg_log_pdf RO D tiny U lam (fun d => u * y d) = cacg_log_pdf RO D tiny U lam y.
Proof. intros Hu. unfold cacg_log_pdf. rewrite cacg_quad_phase_inv by auto. reflexivity. Qed.

(* kappa |mode^H z|^2 - log-normaliser *)
Theorem watson_log_pdf_phase_inv D (mode : nat -> C) (kappa lognorm : R) (u : C) (y : nat -> C) :
  Cmod u = 1%R -> watson_log_pdf RO D mode kappa lognorm (fun d => u * y d) = watson_log_pdf RO D mode kappa lognorm y.
Proof. intros Hu. unfold watson_log_pdf. f_equal. f_equal. rewrite !csumO_RO. bridge.
  rewrite (csum_ext D _ (fun d => u * (y d * Cconj (mode d)))) by (intros; ring).
  rewrite csum_scal. apply cabs2_phase; auto. Qed.

(* Re(z^H B z) - log-normaliser *)
Theorem bingham_quad_phase_inv D (B : nat -> nat -> C) (u : C) (y : nat -> C) :
  Cmod u = 1%R -> bingham_quad RO D B (fun d => u * y d) = bingham_quad RO D B y.
Proof. intros Hu. unfold bingham_quad. f_equal. rewrite !csumO_RO.
  transitivity ((Cconj u * u) * csum D (fun d => csumO RO D (fun e => cmul RO (cconj RO (y d)) (cmul RO (B d e) (y e))))).
  - rewrite <- csum_scal. apply csum_ext; intros d Hd. rewrite !csumO_RO. rewrite <- csum_scal.
    apply csum_ext; intros e He. bridge. rewrite Cconj_mult. ring.
  - rewrite conj_mul_self, Hu. rewrite Rmult_1_l. apply Cmult_1_l. Qed.
Theorem bingham_log_pdf_phase_inv D (U : nat -> nat -> C) (lam : nat -> R) (lognorm : R) (u : C) (y : nat -> C) :
  Cmod u = 1%R -> bingham_log_pdf RO D U lam lognorm (fun d => u * y d) = bingham_log_pdf RO D U lam lognorm y.
Proof. intros Hu. unfold bingham_log_pdf. rewrite bingham_quad_phase_inv by auto. reflexivity. Qed.

(* ------------------------------------------------------------------ the normalising entry points: any non-zero gain *)
Theorem cacg_log_pdf_gain_inv D tiny (U : nat -> nat -> C) (lam : nat -> R) (c : C) (z : nat -> C) :
  c <> 0 -> cnorm RO D z <> 0%R ->
  cacg_log_pdf RO D tiny U lam (cunit_where RO D tiny (fun d => c * z d))
  = cacg_log_pdf RO D tiny U lam (cunit_where RO D tiny z) /\
  cacg_quad RO D tiny U lam (cunit_where RO D tiny (fun d => c * z d))
  = cacg_quad RO D tiny U lam (cunit_where RO D tiny z).
Proof. intros Hc Hz.
  rewrite (functional_extensionality (cunit_where RO D tiny (fun d => c * z d)) (fun d => phasor c * cunit_where RO D tiny z d))
    by (intros; apply cunit_where_scale; auto).
  split; [apply cacg_log_pdf_phase_inv | apply cacg_quad_phase_inv]; apply phasor_mod; auto. Qed.

(* ------------------------------------------------------------------ vMF: positive real gains *)
Lemma rnorm2_nonneg D (v : nat -> R) : (0 <= rnorm2 RO D v)%R.
Proof. unfold rnorm2. rewrite bsum_RO. apply rsum_nonneg; intros. cbn [omul RO]. nra. Qed.
Lemma rnorm_scale D (c : R) (v : nat -> R) : (0 < c)%R -> rnorm RO D (fun d => c * v d)%R = (c * rnorm RO D v)%R.
Proof. intros Hc. unfold rnorm, rnorm2. cbn [osqrt omul RO]. rewrite !bsum_RO.
  rewrite (rsum_ext D _ (fun d => (c * c) * (v d * v d))%R) by (intros; ring). rewrite rsum_scale_l.
  rewrite sqrt_mult; [| nra | ]. rewrite sqrt_square by lra. reflexivity.
  apply rsum_nonneg; intros; nra. Qed.
Theorem runit_max_scale D tiny (c : R) (v : nat -> R) d :
  (0 < c)%R -> (0 < tiny)%R -> (tiny <= rnorm RO D v)%R -> (tiny <= c * rnorm RO D v)%R ->
  runit_max RO D tiny (fun d => c * v d)%R d = runit_max RO D tiny v d.
Proof. intros Hc Ht H1 H2. unfold runit_max, odiv. rewrite rnorm_scale by auto.
  rewrite !omax_RO. rewrite (Rmax_left _ _ H1), (Rmax_left _ _ H2). cbn [omul oinv RO]. field. split; lra. Qed.

(* ------------------------------------------------------------------ generic: two mixtures whose class-wise maps agree *)
(* Two instances of the mixture EM of Model/Mixture.v with the same weight rule, masks and options; their per-class
   M-step, log-pdf and quadratic form may be different FUNCTIONS (they close over different data) but agree on all cells
   n < N.  Then E and M preserve "equal on the cells", and so does the whole loop, for every iteration count. *)
Section GainGeneric.
Variables (Par : Type) (K' N : nat) (tiny eps : R) (clip : bool) (b : nat -> nat -> bool).
Variable wfun : (nat -> nat -> R) -> nat -> nat -> R.
Variables (mstep_c mstep_c' : (nat -> R) -> (nat -> R) -> Par).
Variables (logpdf_c logpdf_c' quad_c quad_c' : Par -> nat -> R).
(* the weight rule reads the affiliation at cells < N only (true of every tying option: Proofs/Relabel.v) *)
Hypothesis wfun_local : forall a a', (forall k n, (n < N)%nat -> a k n = a' k n) ->
  forall k n, (n < N)%nat -> wfun a k n = wfun a' k n.
Hypothesis Hm : forall r r' q q', (forall n, (n < N)%nat -> r n = r' n) -> (forall n, (n < N)%nat -> q n = q' n) ->
  mstep_c r q = mstep_c' r' q'.
Hypothesis Hl : forall p n, (n < N)%nat -> logpdf_c p n = logpdf_c' p n.
Hypothesis Hq : forall p n, (n < N)%nat -> quad_c p n = quad_c' p n.

Definition RGn (g g' : mgamma (T:=R)) : Prop :=
  forall k n, (n < N)%nat -> fst g k n = fst g' k n /\ snd g k n = snd g' k n.
Definition RTn (t t' : mtheta (T:=R) Par) : Prop :=
  (forall k n, (n < N)%nat -> fst t k n = fst t' k n) /\ (forall k, snd t k = snd t' k).

Let E1 := mix_E RO Par K' tiny eps clip b logpdf_c quad_c.
Let E2 := mix_E RO Par K' tiny eps clip b logpdf_c' quad_c'.
Let M1 := mix_M Par wfun mstep_c.
Let M2 := mix_M Par wfun mstep_c'.

Theorem mstep_gain_sim g g' : RGn g g' -> RTn (M1 g) (M2 g').
Proof. intros H. unfold M1, M2, mix_M. split; cbn [fst snd].
  - intros k n Hn. apply wfun_local; auto. intros k0 n0 Hn0. apply (H k0 n0 Hn0).
  - intros k. apply Hm; intros n Hn; apply (H k n Hn). Qed.

Theorem estep_gain_sim t t' : RTn t t' -> RGn (E1 t) (E2 t').
Proof. intros [Hw Hp] k n Hn. unfold E1, E2, mix_E. cbn [fst snd]. split.
  - unfold mix_post.
    rewrite (functional_extensionality (fun j => fst t j n) (fun j => fst t' j n)) by (intros j; apply Hw; auto).
    rewrite (functional_extensionality (fun j => logpdf_c (snd t j) n) (fun j => logpdf_c' (snd t' j) n))
      by (intros j; rewrite Hp; apply Hl; auto).
    reflexivity.
  - rewrite Hp. apply Hq; auto. Qed.

(* the whole trajectory: fitted weights (on the cells) and class parameters are EQUAL after every number of iterations *)
Theorem fit_gain_inv n g0 g0' : RGn g0 g0' -> RTn (fit E1 M1 n g0) (fit E2 M2 n g0').
Proof. apply (fit_simulation _ _ _ _ E1 M1 E2 M2 RGn RTn mstep_gain_sim estep_gain_sim). Qed.
Theorem fit_from_gain_inv n t t' : RTn t t' -> RTn (fit_from E1 M1 n t) (fit_from E2 M2 n t').
Proof. apply (fit_from_simulation _ _ _ _ E1 M1 E2 M2 RGn RTn mstep_gain_sim estep_gain_sim). Qed.
(* ... hence so are the posteriors / quadratic forms predict computes from the fitted model, and the log-likelihood *)
Theorem predict_gain_inv n g0 g0' : RGn g0 g0' -> RGn (E1 (fit E1 M1 n g0)) (E2 (fit E2 M2 n g0')).
Proof. intros H. apply estep_gain_sim, fit_gain_inv, H. Qed.
Theorem loglik_gain_inv n g0 g0' : RGn g0 g0' ->
  mix_loglik RO Par K' logpdf_c N (snd (fit E1 M1 n g0)) = mix_loglik RO Par K' logpdf_c' N (snd (fit E2 M2 n g0')).
Proof. intros H. destruct (fit_gain_inv n g0 g0' H) as [_ Hp]. unfold mix_loglik. rewrite !bsum_RO.
  apply rsum_ext; intros m Hm0. f_equal. apply functional_extensionality; intros k. rewrite Hp. apply Hl; auto. Qed.
End GainGeneric.

Lemma RGn_refl N g : RGn N g g.
Proof. intros k n Hn. split; reflexivity. Qed.

(* ------------------------------------------------------------------ cACGMM and the spatial stream of the integration models *)
Section CACGGain.
Variables (D' N : nat) (tiny : R) (sal : nat -> R) (style_where herm : bool) (cov_norm : nat) (floor : R).
Variable eigh : (nat -> nat -> C) -> (nat -> nat -> C) * (nat -> R).
Variables (z : nat -> nat -> C) (c : nat -> C).
Let D := S D'.
Let z' : nat -> nat -> C := fun n d => c n * z n d.
(* every gain non-zero; no zero frame ('where' style) / no frame below the guard before or after scaling ('max' style) *)
Definition gain_ok (n : nat) : Prop :=
  c n <> 0 /\ if style_where then cnorm RO D (z n) <> 0%R
              else (0 < tiny)%R /\ (tiny <= cnorm RO D (z n))%R /\ (tiny <= Cmod (c n) * cnorm RO D (z n))%R.
Hypothesis Hok : forall n, (n < N)%nat -> gain_ok n.

Lemma sp_unit_scale n d : (n < N)%nat ->
  sp_unit RO D' tiny style_where z' n d = phasor (c n) * sp_unit RO D' tiny style_where z n d.
Proof. intros Hn. destruct (Hok n Hn) as [Hc Hz]. unfold sp_unit. destruct style_where.
  - apply cunit_where_scale; auto.
  - destruct Hz as [Ht [H1 H2]]. apply cunit_max_scale; auto. Qed.
Lemma sp_unit_scale_fun n : (n < N)%nat ->
  sp_unit RO D' tiny style_where z' n = (fun d => phasor (c n) * sp_unit RO D' tiny style_where z n d).
Proof. intros Hn. apply functional_extensionality; intros d. apply sp_unit_scale; auto. Qed.
Lemma gain_phasor n : (n < N)%nat -> Cmod (phasor (c n)) = 1%R.
Proof. intros Hn. apply phasor_mod. apply (Hok n Hn). Qed.

(* the matrix handed to eigh is the same matrix *)
Theorem cacgmm_cov_gain_inv r r' q q' :
  (forall n, (n < N)%nat -> r n = r' n) -> (forall n, (n < N)%nat -> q n = q' n) ->
  cacgmm_cov RO D' N tiny sal style_where herm cov_norm z' r' q' = cacgmm_cov RO D' N tiny sal style_where herm cov_norm z r q.
Proof. intros Hr Hq.
  assert (Eraw : cacg_cov_raw RO D N tiny (sp_unit RO D' tiny style_where z') (fun n => omul RO (r' n) (sal n)) q'
               = cacg_cov_raw RO D N tiny (sp_unit RO D' tiny style_where z) (fun n => omul RO (r n) (sal n)) q).
  { apply functional_extensionality; intros d. apply functional_extensionality; intros e. unfold cacg_cov_raw.
    assert (Eden : bsum RO N (fun n => omul RO (r' n) (sal n)) = bsum RO N (fun n => omul RO (r n) (sal n))).
    { rewrite (bsum_RO N (fun n => omul RO (r' n) (sal n))), (bsum_RO N (fun n => omul RO (r n) (sal n))).
      apply rsum_ext; intros n Hn. rewrite Hr; auto. }
    assert (Esc : scatter RO N (sp_unit RO D' tiny style_where z')
                    (fun n => odiv RO (omul RO (r' n) (sal n)) (cacg_qfloor RO tiny q' n)) d e
                = scatter RO N (sp_unit RO D' tiny style_where z)
                    (fun n => odiv RO (omul RO (r n) (sal n)) (cacg_qfloor RO tiny q n)) d e).
    { apply (scatter_phase_inv N _ _ _ _ (fun n => phasor (c n))).
      + intros n Hn. apply gain_phasor; auto.
      + intros n d0 Hn. apply sp_unit_scale; auto.
      + intros n Hn. unfold odiv, cacg_qfloor. rewrite Hr, Hq; auto. }
    rewrite Eden, Esc. reflexivity. }
  unfold cacgmm_cov, cacg_cov. fold D. rewrite Eraw. reflexivity. Qed.

Theorem cacgmm_mstep_gain_inv r r' q q' :
  (forall n, (n < N)%nat -> r n = r' n) -> (forall n, (n < N)%nat -> q n = q' n) ->
  cacgmm_mstep_c RO D' N tiny sal style_where herm cov_norm floor eigh z r q
  = cacgmm_mstep_c RO D' N tiny sal style_where herm cov_norm floor eigh z' r' q'.
Proof. intros Hr Hq. unfold cacgmm_mstep_c. rewrite (cacgmm_cov_gain_inv r r' q q' Hr Hq). reflexivity. Qed.

Theorem cacgmm_logpdf_gain_inv p n : (n < N)%nat ->
  cacgmm_logpdf_c RO D' tiny style_where z p n = cacgmm_logpdf_c RO D' tiny style_where z' p n.
Proof. intros Hn. unfold cacgmm_logpdf_c. rewrite (sp_unit_scale_fun n Hn). symmetry.
  apply cacg_log_pdf_phase_inv. apply gain_phasor; auto. Qed.
Theorem cacgmm_quad_gain_inv p n : (n < N)%nat ->
  cacgmm_quad_c RO D' tiny style_where z p n = cacgmm_quad_c RO D' tiny style_where z' p n.
Proof. intros Hn. unfold cacgmm_quad_c. rewrite (sp_unit_scale_fun n Hn). symmetry.
  apply cacg_quad_phase_inv. apply gain_phasor; auto. Qed.

(* cACGMM: equal trajectories for y and c.y *)
Section Loop.
Variables (K' : nat) (eps : R) (clip : bool) (b : nat -> nat -> bool).
Variable wfun : (nat -> nat -> R) -> nat -> nat -> R.
Hypothesis wfun_local : forall a a', (forall k n, (n < N)%nat -> a k n = a' k n) ->
  forall k n, (n < N)%nat -> wfun a k n = wfun a' k n.
Let Ec (zz : nat -> nat -> C) := mix_E RO (cacg_par (T:=R)) K' tiny eps clip b
    (cacgmm_logpdf_c RO D' tiny style_where zz) (cacgmm_quad_c RO D' tiny style_where zz).
Let Mc (zz : nat -> nat -> C) := mix_M (cacg_par (T:=R)) wfun
    (cacgmm_mstep_c RO D' N tiny sal style_where herm cov_norm floor eigh zz).

Let ms (zz : nat -> nat -> C) := cacgmm_mstep_c RO D' N tiny sal style_where herm cov_norm floor eigh zz.
Let lp (zz : nat -> nat -> C) := cacgmm_logpdf_c RO D' tiny style_where zz.
Let qf (zz : nat -> nat -> C) := cacgmm_quad_c RO D' tiny style_where zz.
Theorem fit_gain_inv_cacgmm n g0 :
  RTn (cacg_par (T:=R)) N (fit (Ec z) (Mc z) n g0) (fit (Ec z') (Mc z') n g0).
Proof. exact (fit_gain_inv _ K' N tiny eps clip b wfun (ms z) (ms z') (lp z) (lp z') (qf z) (qf z') wfun_local
    cacgmm_mstep_gain_inv cacgmm_logpdf_gain_inv cacgmm_quad_gain_inv n g0 g0 (RGn_refl N g0)). Qed.
Theorem predict_gain_inv_cacgmm n g0 :
  RGn N (Ec z (fit (Ec z) (Mc z) n g0)) (Ec z' (fit (Ec z') (Mc z') n g0)).
Proof. exact (predict_gain_inv _ K' N tiny eps clip b wfun (ms z) (ms z') (lp z) (lp z') (qf z) (qf z') wfun_local
    cacgmm_mstep_gain_inv cacgmm_logpdf_gain_inv cacgmm_quad_gain_inv n g0 g0 (RGn_refl N g0)). Qed.
Theorem loglik_gain_inv_cacgmm n g0 :
  mix_loglik RO _ K' (cacgmm_logpdf_c RO D' tiny style_where z) N (snd (fit (Ec z) (Mc z) n g0))
  = mix_loglik RO _ K' (cacgmm_logpdf_c RO D' tiny style_where z') N (snd (fit (Ec z') (Mc z') n g0)).
Proof. exact (loglik_gain_inv _ K' N tiny eps clip b wfun (ms z) (ms z') (lp z) (lp z') (qf z) (qf z') wfun_local
    cacgmm_mstep_gain_inv cacgmm_logpdf_gain_inv cacgmm_quad_gain_inv n g0 g0 (RGn_refl N g0)). Qed.

(* integration models (GCACGMM, vMF-cACGMM): gains on the spatial stream, second stream untouched *)
Variable ParE : Type.
Variables (mstep_e : (nat -> R) -> ParE) (logpdf_e : ParE -> nat -> R) (sw cw : R).
Hypothesis mstep_e_local : forall s s', (forall n, (n < N)%nat -> s n = s' n) -> mstep_e s = mstep_e s'.
Let Ei (zz : nat -> nat -> C) := mix_E RO (cacg_par (T:=R) * ParE)%type K' tiny eps clip b
    (integ_logpdf_c RO D' tiny style_where zz ParE logpdf_e sw cw) (integ_quad_c RO D' tiny style_where zz ParE).
Let Mi (zz : nat -> nat -> C) := mix_M (cacg_par (T:=R) * ParE)%type wfun
    (integ_mstep_c RO D' N tiny sal style_where herm cov_norm floor eigh zz ParE mstep_e).
Theorem fit_gain_inv_integration n g0 :
  RTn (cacg_par (T:=R) * ParE)%type N (fit (Ei z) (Mi z) n g0) (fit (Ei z') (Mi z') n g0) /\
  RGn N (Ei z (fit (Ei z) (Mi z) n g0)) (Ei z' (fit (Ei z') (Mi z') n g0)).
Proof.
  assert (A1 : forall r r' q q', (forall n, (n < N)%nat -> r n = r' n) -> (forall n, (n < N)%nat -> q n = q' n) ->
     integ_mstep_c RO D' N tiny sal style_where herm cov_norm floor eigh z ParE mstep_e r q
     = integ_mstep_c RO D' N tiny sal style_where herm cov_norm floor eigh z' ParE mstep_e r' q').
  { intros r r' q q' Hr Hq. unfold integ_mstep_c. f_equal. apply cacgmm_mstep_gain_inv; auto.
    apply mstep_e_local. intros m Hm0. rewrite Hr; auto. }
  assert (A2 : forall p n, (n < N)%nat -> integ_logpdf_c RO D' tiny style_where z ParE logpdf_e sw cw p n
                                       = integ_logpdf_c RO D' tiny style_where z' ParE logpdf_e sw cw p n).
  { intros p m Hm0. unfold integ_logpdf_c. rewrite (cacgmm_logpdf_gain_inv (fst p) m Hm0). reflexivity. }
  assert (A3 : forall p n, (n < N)%nat -> integ_quad_c RO D' tiny style_where z ParE p n
                                       = integ_quad_c RO D' tiny style_where z' ParE p n).
  { intros p m Hm0. unfold integ_quad_c. apply cacgmm_quad_gain_inv; auto. }
  split.
  - exact (fit_gain_inv _ K' N tiny eps clip b wfun _ _ _ _ _ _ wfun_local A1 A2 A3 n g0 g0 (RGn_refl N g0)).
  - exact (predict_gain_inv _ K' N tiny eps clip b wfun _ _ _ _ _ _ wfun_local A1 A2 A3 n g0 g0 (RGn_refl N g0)). Qed.
End Loop.
End CACGGain.

(* ------------------------------------------------------------------ cWMM and cBMM *)
Section WatsonGain.
Variables (D' N : nat) (tiny : R) (sal : nat -> R).
Variables (z : nat -> nat -> C) (c : nat -> C).
Let D := S D'.
Let z' : nat -> nat -> C := fun n d => c n * z n d.
Hypothesis Ht : (0 < tiny <= 1)%R.
Hypothesis Hc : forall n, (n < N)%nat -> c n <> 0.
Hypothesis Hz : forall n, (n < N)%nat -> (tiny <= cnorm RO D (z n))%R /\ (tiny <= Cmod (c n) * cnorm RO D (z n))%R.

Lemma wat_unit_scale n d : (n < N)%nat -> wat_unit RO D' tiny z' n d = phasor (c n) * wat_unit RO D' tiny z n d.
Proof. intros Hn. unfold wat_unit. destruct (Hz n Hn). apply cunit_max_scale; auto. lra. Qed.
(* predict normalises the already normalised observation once more: still only a unit phasor apart *)
Lemma wat_unit2_scale n d : (n < N)%nat -> wat_unit2 RO D' tiny z' n d = phasor (c n) * wat_unit2 RO D' tiny z n d.
Proof. intros Hn. unfold wat_unit2. destruct (Hz n Hn) as [H1 H2]. unfold D in H1, H2.
  rewrite (functional_extensionality (wat_unit RO D' tiny z' n) (fun d => phasor (c n) * wat_unit RO D' tiny z n d))
    by (intros; apply wat_unit_scale; auto).
  assert (E1 : cnorm RO (S D') (wat_unit RO D' tiny z n) = 1%R) by (apply cnorm_cunit_max; lra).
  pose proof (phasor_mod (c n) (Hc n Hn)) as Hp.
  rewrite cunit_max_scale.
  - rewrite (phasor_unit _ Hp). reflexivity.
  - intro E. rewrite E, Cmod_0 in Hp. lra.
  - lra.
  - rewrite E1. lra.
  - rewrite E1, Hp. lra. Qed.

Theorem cwmm_cov_gain_inv r r' : (forall n, (n < N)%nat -> r n = r' n) ->
  cwmm_cov RO D' N tiny sal z' r' = cwmm_cov RO D' N tiny sal z r.
Proof. intros Hr. apply functional_extensionality; intros d. apply functional_extensionality; intros e.
  unfold cwmm_cov, watson_cov. f_equal.
  - f_equal. rewrite !bsum_RO. apply rsum_ext; intros n Hn. rewrite Hr; auto.
  - apply (scatter_phase_inv N _ _ _ _ (fun n => phasor (c n))).
    + intros n Hn. apply phasor_mod; auto.
    + intros n d0 Hn. apply wat_unit_scale; auto.
    + intros n Hn. rewrite Hr; auto. Qed.

Variable wat_oracle : (nat -> nat -> C) -> (nat -> C) * (R * R).
Variable bing_oracle : (nat -> nat -> C) -> (nat -> nat -> C) * ((nat -> R) * R).

Theorem cwmm_mstep_gain_inv r r' (q q' : nat -> R) : (forall n, (n < N)%nat -> r n = r' n) ->
  cwmm_mstep_c RO D' N tiny sal wat_oracle z r q = cwmm_mstep_c RO D' N tiny sal wat_oracle z' r' q'.
Proof. intros Hr. unfold cwmm_mstep_c. rewrite (cwmm_cov_gain_inv r r' Hr). reflexivity. Qed.
Theorem cbmm_mstep_gain_inv r r' (q q' : nat -> R) : (forall n, (n < N)%nat -> r n = r' n) ->
  cbmm_mstep_c RO D' N tiny sal z bing_oracle r q = cbmm_mstep_c RO D' N tiny sal z' bing_oracle r' q'.
Proof. intros Hr. unfold cbmm_mstep_c, cbmm_cov. rewrite (cwmm_cov_gain_inv r r' Hr). reflexivity. Qed.
Theorem cwmm_logpdf_gain_inv p n : (n < N)%nat ->
  cwmm_logpdf_c RO D' tiny z p n = cwmm_logpdf_c RO D' tiny z' p n.
Proof. intros Hn. unfold cwmm_logpdf_c.
  rewrite (functional_extensionality (wat_unit2 RO D' tiny z' n) (fun d => phasor (c n) * wat_unit2 RO D' tiny z n d))
    by (intros; apply wat_unit2_scale; auto).
  symmetry. apply watson_log_pdf_phase_inv. apply phasor_mod; auto. Qed.
Theorem cbmm_logpdf_gain_inv p n : (n < N)%nat ->
  cbmm_logpdf_c RO D' tiny z p n = cbmm_logpdf_c RO D' tiny z' p n.
Proof. intros Hn. unfold cbmm_logpdf_c.
  rewrite (functional_extensionality (wat_unit2 RO D' tiny z' n) (fun d => phasor (c n) * wat_unit2 RO D' tiny z n d))
    by (intros; apply wat_unit2_scale; auto).
  symmetry. apply bingham_log_pdf_phase_inv. apply phasor_mod; auto. Qed.

Section Loop.
Variables (K' : nat) (eps : R) (clip : bool) (b : nat -> nat -> bool).
Variable wfun : (nat -> nat -> R) -> nat -> nat -> R.
Hypothesis wfun_local : forall a a', (forall k n, (n < N)%nat -> a k n = a' k n) ->
  forall k n, (n < N)%nat -> wfun a k n = wfun a' k n.
Let noq : ((nat -> C) * (R * R)) -> nat -> R := fun _ _ => 0%R.
Let Ew (zz : nat -> nat -> C) := mix_E RO _ K' tiny eps clip b (cwmm_logpdf_c RO D' tiny zz) noq.
Let Mw (zz : nat -> nat -> C) := mix_M _ wfun (cwmm_mstep_c RO D' N tiny sal wat_oracle zz).
Theorem fit_gain_inv_cwmm n g0 :
  RTn _ N (fit (Ew z) (Mw z) n g0) (fit (Ew z') (Mw z') n g0) /\
  RGn N (Ew z (fit (Ew z) (Mw z) n g0)) (Ew z' (fit (Ew z') (Mw z') n g0)).
Proof.
  assert (A1 : forall r r' q q', (forall n, (n < N)%nat -> r n = r' n) -> (forall n, (n < N)%nat -> q n = q' n) ->
     cwmm_mstep_c RO D' N tiny sal wat_oracle z r q = cwmm_mstep_c RO D' N tiny sal wat_oracle z' r' q')
    by (intros; apply cwmm_mstep_gain_inv; auto).
  assert (A3 : forall p m, (m < N)%nat -> noq p m = noq p m) by reflexivity.
  split.
  - exact (fit_gain_inv _ K' N tiny eps clip b wfun _ _ _ _ _ _ wfun_local A1 cwmm_logpdf_gain_inv A3 n g0 g0 (RGn_refl N g0)).
  - exact (predict_gain_inv _ K' N tiny eps clip b wfun _ _ _ _ _ _ wfun_local A1 cwmm_logpdf_gain_inv A3 n g0 g0 (RGn_refl N g0)). Qed.
Let noqb : ((nat -> nat -> C) * ((nat -> R) * R)) -> nat -> R := fun _ _ => 0%R.
Let Eb (zz : nat -> nat -> C) := mix_E RO _ K' tiny eps clip b (cbmm_logpdf_c RO D' tiny zz) noqb.
Let Mb (zz : nat -> nat -> C) := mix_M _ wfun (cbmm_mstep_c RO D' N tiny sal zz bing_oracle).
Theorem fit_gain_inv_cbmm n g0 :
  RTn _ N (fit (Eb z) (Mb z) n g0) (fit (Eb z') (Mb z') n g0) /\
  RGn N (Eb z (fit (Eb z) (Mb z) n g0)) (Eb z' (fit (Eb z') (Mb z') n g0)).
Proof.
  assert (A1 : forall r r' q q', (forall n, (n < N)%nat -> r n = r' n) -> (forall n, (n < N)%nat -> q n = q' n) ->
     cbmm_mstep_c RO D' N tiny sal z bing_oracle r q = cbmm_mstep_c RO D' N tiny sal z' bing_oracle r' q')
    by (intros; apply cbmm_mstep_gain_inv; auto).
  assert (A3 : forall p m, (m < N)%nat -> noqb p m = noqb p m) by reflexivity.
  split.
  - exact (fit_gain_inv _ K' N tiny eps clip b wfun _ _ _ _ _ _ wfun_local A1 cbmm_logpdf_gain_inv A3 n g0 g0 (RGn_refl N g0)).
  - exact (predict_gain_inv _ K' N tiny eps clip b wfun _ _ _ _ _ _ wfun_local A1 cbmm_logpdf_gain_inv A3 n g0 g0 (RGn_refl N g0)). Qed.
End Loop.
End WatsonGain.

(* ------------------------------------------------------------------ vMF / vMFMM / embedding stream of vMF-cACGMM *)
Section VMFGain.
Variables (D N : nat) (tiny kmin kmax : R) (sal : nat -> R) (lognorm : R -> R).
Variables (v : nat -> nat -> R) (c : nat -> R).
Let v' : nat -> nat -> R := fun n d => (c n * v n d)%R.
Hypothesis Ht : (0 < tiny)%R.
Hypothesis Hc : forall n, (n < N)%nat -> (0 < c n)%R.
Hypothesis Hv : forall n, (n < N)%nat -> (tiny <= rnorm RO D (v n))%R /\ (tiny <= c n * rnorm RO D (v n))%R.

(* the projected embedding is EQUAL, not merely equal up to a phase *)
Theorem vmf_unit1_gain_inv n : (n < N)%nat -> vmf_unit1 RO D tiny v' n = vmf_unit1 RO D tiny v n.
Proof. intros Hn. apply functional_extensionality; intros d. unfold vmf_unit1. destruct (Hv n Hn).
  apply runit_max_scale; auto. Qed.

Lemma vmf_r_local (y y' : nat -> nat -> R) s s' :
  (forall n, (n < N)%nat -> y' n = y n) -> (forall n, (n < N)%nat -> s' n = s n) ->
  vmf_r RO N y' s' = vmf_r RO N y s.
Proof. intros Hy Hs. apply functional_extensionality; intros d. unfold vmf_r. rewrite !bsum_RO.
  apply rsum_ext; intros n Hn. rewrite Hy, Hs; auto. Qed.
Lemma vmf_fit_local (y y' : nat -> nat -> R) s s' :
  (forall n, (n < N)%nat -> y' n = y n) -> (forall n, (n < N)%nat -> s' n = s n) ->
  vmf_mean RO D N tiny y' s' = vmf_mean RO D N tiny y s /\ vmf_kappa RO D N kmin kmax y' s' = vmf_kappa RO D N kmin kmax y s.
Proof. intros Hy Hs. pose proof (vmf_r_local y y' s s' Hy Hs) as Er. split.
  - apply functional_extensionality; intros d. unfold vmf_mean. rewrite Er. reflexivity.
  - assert (Es : bsum RO N s' = bsum RO N s) by (rewrite !bsum_RO; apply rsum_ext; intros n Hn; apply Hs; auto).
    unfold vmf_kappa, vmf_rbar. rewrite Er, Es. reflexivity. Qed.

Theorem vmfmm_mstep_gain_inv r r' (q q' : nat -> R) : (forall n, (n < N)%nat -> r n = r' n) ->
  vmfmm_mstep_c RO D N tiny kmin kmax sal v r q = vmfmm_mstep_c RO D N tiny kmin kmax sal v' r' q'.
Proof. intros Hr. unfold vmfmm_mstep_c.
  destruct (vmf_fit_local (vmf_unit1 RO D tiny v) (vmf_unit1 RO D tiny v') (fun n => omul RO (r n) (sal n)) (fun n => omul RO (r' n) (sal n)))
    as [E1 E2]. apply vmf_unit1_gain_inv. intros n Hn; rewrite Hr; auto. rewrite E1, E2. reflexivity. Qed.
Theorem vmfmm_logpdf_gain_inv p n : (n < N)%nat ->
  vmfmm_logpdf_c RO D tiny lognorm v p n = vmfmm_logpdf_c RO D tiny lognorm v' p n.
Proof. intros Hn. unfold vmfmm_logpdf_c, vmf_unit3, vmf_unit2. rewrite (vmf_unit1_gain_inv n Hn). reflexivity. Qed.

(* embedding stream of vMF-cACGMM as repaired (fit normalises on entry) *)
Theorem vmfcacg_emb_gain_inv s s' : (forall n, (n < N)%nat -> s' n = s n) ->
  vmfcacg_emb_mstep RO D N tiny kmin kmax v' s' = vmfcacg_emb_mstep RO D N tiny kmin kmax v s /\
  forall p n, (n < N)%nat -> vmfcacg_emb_logpdf RO D tiny lognorm v' p n = vmfcacg_emb_logpdf RO D tiny lognorm v p n.
Proof. intros Hs. split.
  - unfold vmfcacg_emb_mstep. destruct (vmf_fit_local (vmf_unit1 RO D tiny v) (vmf_unit1 RO D tiny v') s s') as [E1 E2]; auto.
    apply vmf_unit1_gain_inv. rewrite E1, E2. reflexivity.
  - intros p n Hn. unfold vmfcacg_emb_logpdf, vmf_unit2. rewrite (vmf_unit1_gain_inv n Hn). reflexivity. Qed.

Section Loop.
Variables (K' : nat) (eps : R) (clip : bool) (b : nat -> nat -> bool).
Variable wfun : (nat -> nat -> R) -> nat -> nat -> R.
Hypothesis wfun_local : forall a a', (forall k n, (n < N)%nat -> a k n = a' k n) ->
  forall k n, (n < N)%nat -> wfun a k n = wfun a' k n.
Let noq : ((nat -> R) * R) -> nat -> R := fun _ _ => 0%R.
Let Ev (vv : nat -> nat -> R) := mix_E RO _ K' tiny eps clip b (vmfmm_logpdf_c RO D tiny lognorm vv) noq.
Let Mv (vv : nat -> nat -> R) := mix_M _ wfun (vmfmm_mstep_c RO D N tiny kmin kmax sal vv).
Theorem fit_gain_inv_vmfmm n g0 :
  RTn _ N (fit (Ev v) (Mv v) n g0) (fit (Ev v') (Mv v') n g0) /\
  RGn N (Ev v (fit (Ev v) (Mv v) n g0)) (Ev v' (fit (Ev v') (Mv v') n g0)).
Proof.
  assert (A1 : forall r r' q q', (forall n, (n < N)%nat -> r n = r' n) -> (forall n, (n < N)%nat -> q n = q' n) ->
     vmfmm_mstep_c RO D N tiny kmin kmax sal v r q = vmfmm_mstep_c RO D N tiny kmin kmax sal v' r' q')
    by (intros; apply vmfmm_mstep_gain_inv; auto).
  assert (A3 : forall p m, (m < N)%nat -> noq p m = noq p m) by reflexivity.
  split.
  - exact (fit_gain_inv _ K' N tiny eps clip b wfun _ _ _ _ _ _ wfun_local A1 vmfmm_logpdf_gain_inv A3 n g0 g0 (RGn_refl N g0)).
  - exact (predict_gain_inv _ K' N tiny eps clip b wfun _ _ _ _ _ _ wfun_local A1 vmfmm_logpdf_gain_inv A3 n g0 g0 (RGn_refl N g0)). Qed.
End Loop.
End VMFGain.

(* the former VMFCACGMMTrainer.fit (M-step on the raw embedding) was NOT invariant: one frame, one coordinate 1/2,
   gain 1/2 gives concentration 1/4 instead of 1/2 *)
Theorem vmfcacg_emb_raw_not_invariant :
  exists (v : nat -> nat -> R) (c : R) (s : nat -> R), (0 < c)%R /\
    snd (vmfcacg_emb_mstep_raw RO 1 1 (/ 1000)%R 0%R 500%R (fun n d => c * v n d)%R s)
    <> snd (vmfcacg_emb_mstep_raw RO 1 1 (/ 1000)%R 0%R 500%R v s).
Proof. exists (fun _ _ => / 2)%R, (/ 2)%R, (fun _ => 1%R). split. lra.
  unfold vmfcacg_emb_mstep_raw. cbn [snd]. unfold vmf_kappa, vmf_rbar, vmf_kappa_raw, rnorm, rnorm2, vmf_r, odiv, osub.
  cbn [bsum onat omul oadd oopp oinv osqrt o0 o1 RO]. rewrite !omin_RO, !omax_RO.
  replace (0 + (0 + 1 * (/ 2 * / 2)) * (0 + 1 * (/ 2 * / 2)))%R with ((/ 4) * (/ 4))%R by field.
  replace (0 + (0 + 1 * / 2) * (0 + 1 * / 2))%R with ((/ 2) * (/ 2))%R by field.
  rewrite !sqrt_square by lra.
  replace (/ 4 * / (0 + 1))%R with (/ 4)%R by field. replace (/ 2 * / (0 + 1))%R with (/ 2)%R by field.
  rewrite (Rmin_left (/ 4) 1) by lra. rewrite (Rmin_left (/ 2) 1) by lra.
  replace ((/ 4 * (0 + 1) + - (/ 4 * (/ 4 * / 4))) * / (1 + - (/ 4 * / 4)))%R with (/ 4)%R by field.
  replace ((/ 2 * (0 + 1) + - (/ 2 * (/ 2 * / 2))) * / (1 + - (/ 2 * / 2)))%R with (/ 2)%R by field.
  unfold Rmin, Rmax. repeat (destruct (Rle_dec _ _)); lra. Qed.

(* ------------------------------------------------------------------ every weight rule reads the affiliation on the cells only *)
Section WeightLocal.
Variables (K' G N : nat) (cells : nat -> nat -> nat) (s : nat -> R) (eps : R).
Hypothesis Hcells : forall n g, (n < N)%nat -> (g < G)%nat -> (cells n g < N)%nat.
Variables a a' : nat -> nat -> R.
Hypothesis Ha : forall k n, (n < N)%nat -> a k n = a' k n.

Lemma wsum_local k n : (n < N)%nat ->
  wsum RO G (fun j g => a j (cells n g)) (fun g => s (cells n g)) k
  = wsum RO G (fun j g => a' j (cells n g)) (fun g => s (cells n g)) k.
Proof. intros Hn. unfold wsum. rewrite !bsum_RO. apply rsum_ext; intros g Hg. rewrite Ha; auto. Qed.
Theorem w_mean_local k n : (n < N)%nat -> w_mean RO G cells a k n = w_mean RO G cells a' k n.
Proof. intros Hn. unfold w_mean, weight_mean. f_equal. rewrite !bsum_RO. apply rsum_ext; intros g Hg. apply Ha; auto. Qed.
Theorem w_const_local k n : (n < N)%nat -> w_const RO K' a k n = w_const RO K' a' k n.
Proof. reflexivity. Qed.
Theorem w_sal_local k n : (n < N)%nat -> w_sal RO K' G cells s eps a k n = w_sal RO K' G cells s eps a' k n.
Proof. intros Hn. unfold w_sal, weight_sal.
  assert (E : wnorm1 RO K' G (fun j g => a j (cells n g)) (fun g => s (cells n g))
            = wnorm1 RO K' G (fun j g => a' j (cells n g)) (fun g => s (cells n g))).
  { unfold wnorm1. rewrite !bsum_RO. apply rsum_ext; intros j Hj. rewrite wsum_local; auto. }
  rewrite E, wsum_local; auto. Qed.
Theorem w_integ_local k n : (n < N)%nat -> w_integ RO K' G cells s a k n = w_integ RO K' G cells s a' k n.
Proof. intros Hn. unfold w_integ. rewrite wsum_local by auto. f_equal. f_equal. rewrite !bsum_RO.
  apply rsum_ext; intros j Hj. apply wsum_local; auto. Qed.
End WeightLocal.
