(* Proofs/Posterior.v -- C01: the shared posterior routine is a valid distribution and Bayes' rule;
   mixture-weight update and initializer tails are normalised. Instance RO. *)
From Coq Require Import Reals List Lra Lia Bool.
From Coquelicot Require Import Coquelicot.
From PB Require Import Ops CLin Model.Posterior.
Open Scope R_scope.

Lemma onat_R n : onat RO n = INR n.
Proof. induction n. reflexivity. cbn [onat]. rewrite IHn. rewrite S_INR. reflexivity. Qed.

(* the maximum is attained and dominates *)
Lemma bmax_ge n f k : (k <= n)%nat -> f k <= bmax RO n f.
Proof. induction n; cbn [bmax]; intros Hk. replace k with 0%nat by lia; lra.
  rewrite omax_RO. destruct (Nat.eq_dec k (S n)) as [->|Hne]. apply Rmax_r.
  eapply Rle_trans; [apply IHn; lia| apply Rmax_l]. Qed.
Lemma bmax_attained n f : exists k, (k <= n)%nat /\ bmax RO n f = f k.
Proof. induction n; cbn [bmax]. exists 0%nat; split; auto.
  destruct IHn as [k [Hk E]]. rewrite omax_RO. unfold Rmax. destruct (Rle_dec (bmax RO n f) (f (S n))).
  exists (S n); split; auto. exists k; split; [lia|auto]. Qed.

Lemma rsum_abs_le n f g e : (forall k, (k<n)%nat -> Rabs (f k - g k) <= e) ->
  Rabs (rsum n f - rsum n g) <= INR n * e.
Proof. induction n; intros H. cbn [rsum]. simpl. rewrite Rminus_0_r, Rabs_R0. lra.
  cbn [rsum]. rewrite S_INR.
  replace (rsum n f + f n - (rsum n g + g n)) with ((rsum n f - rsum n g) + (f n - g n)) by ring.
  eapply Rle_trans; [apply Rabs_triang|]. specialize (IHn ltac:(intros; apply H; lia)). specialize (H n ltac:(lia)). lra. Qed.

(* overflow guard: every shifted exponential is in (0,1], one of them equals 1 *)
Theorem shifted_exp_in_unit (K' : nat) (l : nat -> R) :
  (forall k, (k < S K')%nat -> 0 < shifted RO K' l k <= 1) /\ exists k, (k < S K')%nat /\ shifted RO K' l k = 1.
Proof. split.
  - intros k Hk. unfold shifted; cbn [oexp oadd oopp RO]. split. apply exp_pos.
    rewrite <- exp_0. pose proof (bmax_ge K' l k ltac:(lia)) as Hge.
    destruct (Rle_lt_or_eq_dec _ _ Hge) as [Hlt|Heq].
    + left. apply exp_increasing. lra.
    + right. f_equal. lra.
  - destruct (bmax_attained K' l) as [k [Hk E]]. exists k. split. lia.
    unfold shifted; cbn [oexp oadd oopp RO]. rewrite E. replace (l k + - l k) with 0 by ring. apply exp_0. Qed.

(* ---- the maximum over the ACTIVE classes (source_activity_mask) ---- *)
Section ActiveMax.
Variables (l : nat -> R) (b : nat -> bool).
Lemma amax_opt_none n : amax_opt RO l b n = None -> forall k, (k <= n)%nat -> b k = false.
Proof. induction n; cbn [amax_opt]; intros H k Hk.
  - replace k with 0%nat by lia. destruct (b 0%nat); congruence.
  - destruct (amax_opt RO l b n) eqn:E.
    + destruct (b (S n)); discriminate.
    + destruct (Nat.eq_dec k (S n)) as [->|Hne]. destruct (b (S n)); congruence. apply IHn; auto. lia. Qed.
Lemma amax_opt_some n v : amax_opt RO l b n = Some v ->
  (forall k, (k <= n)%nat -> b k = true -> l k <= v) /\ exists k, (k <= n)%nat /\ b k = true /\ l k = v.
Proof. revert v. induction n; cbn [amax_opt]; intros v H.
  - destruct (b 0%nat) eqn:B; [|discriminate]. injection H as <-. split.
    intros k Hk _. replace k with 0%nat by lia. lra. exists 0%nat. auto.
  - destruct (amax_opt RO l b n) as [u|] eqn:E.
    + destruct (IHn u eq_refl) as [Hge [j [Hj [Bj Ej]]]]. destruct (b (S n)) eqn:B; injection H as <-.
      * rewrite omax_RO. split.
        intros k Hk Bk. destruct (Nat.eq_dec k (S n)) as [->|Hne]. apply Rmax_r.
        eapply Rle_trans; [apply Hge; auto; lia | apply Rmax_l].
        unfold Rmax. destruct (Rle_dec u (l (S n))). exists (S n). auto. exists j. repeat split; auto.
      * split. intros k Hk Bk. destruct (Nat.eq_dec k (S n)) as [->|Hne]. congruence. apply Hge; auto. lia.
        exists j. repeat split; auto.
    + destruct (b (S n)) eqn:B; [|discriminate]. injection H as <-. split.
      intros k Hk Bk. destruct (Nat.eq_dec k (S n)) as [->|Hne]. lra.
      pose proof (amax_opt_none n E k ltac:(lia)). congruence.
      exists (S n). auto. Qed.
Lemma amax_opt_active n k : (k <= n)%nat -> b k = true -> exists v, amax_opt RO l b n = Some v.
Proof. intros Hk Bk. destruct (amax_opt RO l b n) eqn:E. eauto. pose proof (amax_opt_none n E k Hk). congruence. Qed.

Variable K' : nat.
(* the masked log-pdfs have the active maximum as their maximum *)
Lemma bmax_lmask : bmax RO K' (lmask RO K' l b) = amax RO K' l b.
Proof. unfold amax. destruct (amax_opt RO l b K') as [v|] eqn:E.
  - destruct (amax_opt_some K' v E) as [Hge [j [Hj [Bj Ej]]]]. apply Rle_antisym.
    + destruct (bmax_attained K' (lmask RO K' l b)) as [k [Hk Ek]]. rewrite Ek. unfold lmask, amax. rewrite E.
      destruct (b k) eqn:Bk. apply Hge; auto. lra.
    + rewrite <- Ej. replace (l j) with (lmask RO K' l b j) by (unfold lmask; rewrite Bj; reflexivity). apply bmax_ge. lia.
  - destruct (bmax_attained K' (lmask RO K' l b)) as [k [Hk Ek]]. rewrite Ek. unfold lmask, amax. rewrite E.
    rewrite (amax_opt_none K' E k Hk). reflexivity. Qed.
(* an active class with the largest log-pdf among the active ones carries the scaling *)
Lemma amax_of_best k : (k <= K')%nat -> b k = true -> (forall j, (j <= K')%nat -> b j = true -> l j <= l k) ->
  amax RO K' l b = l k.
Proof. intros Hk Bk Hbest. unfold amax. destruct (amax_opt_active K' k Hk Bk) as [v E]. rewrite E.
  destruct (amax_opt_some K' v E) as [Hge [j [Hj [Bj Ej]]]]. apply Rle_antisym. rewrite <- Ej. apply Hbest; auto. apply Hge; auto. Qed.
End ActiveMax.

Section Thm.
Variables (K':nat) (tiny:R) (w l:nat->R) (b:nat->bool).
Let K := S K'.
Hypothesis Htiny : 0 < tiny.
Hypothesis Hw : forall k, (k<K)%nat -> 0 <= w k.

Lemma unnorm_nonneg k : (k<K)%nat -> 0 <= unnorm RO K' w l b k.
Proof. intros Hk. unfold unnorm. destruct (shifted_exp_in_unit K' (lmask RO K' l b)) as [H _]. specialize (H k Hk). specialize (Hw k Hk).
  cbn [omul RO]. destruct (b k); cbn [obool o0 o1 RO]; nra. Qed.

Lemma den_pos : 0 < den RO K' tiny w l b.
Proof. unfold den. rewrite omax_RO. eapply Rlt_le_trans; [exact Htiny | apply Rmax_r]. Qed.

Theorem posterior_valid :
  tiny <= rsum K (unnorm RO K' w l b) ->
  (forall k, (k<K)%nat -> 0 <= posterior RO K' tiny w l b k <= 1) /\
  rsum K (posterior RO K' tiny w l b) = 1 /\
  (forall k, b k = false -> posterior RO K' tiny w l b k = 0).
Proof.
  intros Hden. unfold posterior, den. rewrite omax_RO, (bsum_RO (S K')). fold K. rewrite (Rmax_left _ _ Hden). cbn [omul oinv RO].
  set (a := unnorm RO K' w l b) in *. set (Sm := rsum K a) in *.
  assert (HS: 0 < Sm) by lra. assert (Hi: 0 < / Sm) by (apply Rinv_0_lt_compat; auto).
  assert (Ha: forall j, (j<K)%nat -> 0 <= a j) by (intros j Hj; apply unnorm_nonneg; auto).
  split; [|split].
  - intros k Hk. pose proof (Ha k Hk) as H0. pose proof (term_le_rsum K a k Ha Hk) as H1. fold Sm in H1.
    split. apply Rmult_le_pos; lra.
    replace 1 with (Sm * / Sm) by (field; lra). apply Rmult_le_compat_r; lra.
  - rewrite rsum_scale. fold Sm. field. lra.
  - intros k Hk. unfold a, unnorm. rewrite Hk. cbn [obool omul o0 RO]. ring.
Qed.

(* inactive classes get exactly zero whatever the floor does; all inactive => all-zero column *)
Theorem posterior_inactive_zero k : b k = false -> posterior RO K' tiny w l b k = 0.
Proof. intros Hk. unfold posterior, unnorm. rewrite Hk. cbn [obool omul o0 RO]. ring. Qed.

(* when the floor IS taken the column is still non-negative, below one, and sums to less than one *)
Theorem posterior_floored :
  rsum K (unnorm RO K' w l b) < tiny ->
  (forall k, (k<K)%nat -> 0 <= posterior RO K' tiny w l b k < 1) /\
  0 <= rsum K (posterior RO K' tiny w l b) < 1.
Proof.
  intros Hden. unfold posterior, den. rewrite omax_RO, (bsum_RO (S K')). fold K. rewrite Rmax_right by lra. cbn [omul oinv RO].
  set (a := unnorm RO K' w l b) in *.
  assert (Ha: forall j, (j<K)%nat -> 0 <= a j) by (intros j Hj; apply unnorm_nonneg; auto).
  assert (Hi: 0 < / tiny) by (apply Rinv_0_lt_compat; auto).
  assert (HS: 0 <= rsum K a) by (apply rsum_nonneg; auto).
  split.
  - intros k Hk. pose proof (Ha k Hk). pose proof (term_le_rsum K a k Ha Hk). split. apply Rmult_le_pos; lra.
    replace 1 with (tiny * / tiny) by (field; lra). apply Rmult_lt_compat_r; lra.
  - rewrite rsum_scale. split. apply Rmult_le_pos; lra.
    replace 1 with (tiny * / tiny) by (field; lra). apply Rmult_lt_compat_r; lra.
Qed.

(* the floor is not taken when the best ACTIVE class (largest log-pdf among the active ones) has weight >= tiny -
   whatever the log-pdfs of the inactive classes are *)
Theorem posterior_floor_inactive :
  (exists k, (k<K)%nat /\ b k = true /\ tiny <= w k /\ forall j, (j<K)%nat -> b j = true -> l j <= l k) ->
  tiny <= rsum K (unnorm RO K' w l b).
Proof. intros [k [Hk [Hb [Hwk Hbest]]]].
  eapply Rle_trans; [| apply (term_le_rsum K _ k (fun j Hj => unnorm_nonneg j Hj) Hk)].
  unfold unnorm, shifted. rewrite bmax_lmask.
  rewrite (amax_of_best l b K' k ltac:(unfold K in Hk; lia) Hb ltac:(intros j Hj; apply Hbest; unfold K; lia)).
  unfold lmask. rewrite Hb. cbn [omul oexp oadd oopp obool o1 RO].
  replace (l k + - l k) with 0 by ring. rewrite exp_0. lra. Qed.

(* Bayes' rule *)
Theorem posterior_is_bayes k :
  tiny <= rsum K (unnorm RO K' w l b) ->
  posterior RO K' tiny w l b k
  = (w k * (if b k then 1 else 0) * exp (l k)) / rsum K (fun j => w j * (if b j then 1 else 0) * exp (l j)).
Proof.
  intros Hden. unfold posterior, den. rewrite omax_RO, (bsum_RO (S K')). fold K. rewrite (Rmax_left _ _ Hden). cbn [omul oinv RO].
  set (m := bmax RO K' (lmask RO K' l b)).
  assert (E: forall j, unnorm RO K' w l b j = (w j * (if b j then 1 else 0) * exp (l j)) * exp (- m)).
  { intros j. unfold unnorm, shifted. fold m. cbn [omul oexp oadd oopp RO]. rewrite exp_plus. unfold lmask.
    destruct (b j); cbn [obool o0 o1 RO]; ring. }
  assert (ES: rsum K (unnorm RO K' w l b) = rsum K (fun j => w j * (if b j then 1 else 0) * exp (l j)) * exp (- m)).
  { rewrite (rsum_ext K _ _ (fun j _ => E j)). apply rsum_scale. }
  rewrite ES in *. rewrite E. pose proof (exp_pos (- m)).
  assert (rsum K (fun j => w j * (if b j then 1 else 0) * exp (l j)) <> 0) by nra.
  field. split; lra.
Qed.

(* clipping to [eps, 1-eps]: range, and the column sum moves by at most K*eps *)
Theorem posterior_clip eps :
  0 < eps < / 2 -> tiny <= rsum K (unnorm RO K' w l b) ->
  (forall k, (k<K)%nat -> eps <= posterior_clipped RO K' tiny eps w l b k <= 1 - eps) /\
  Rabs (rsum K (posterior_clipped RO K' tiny eps w l b) - 1) <= INR K * eps.
Proof.
  intros He Hden. destruct (posterior_valid Hden) as [Hr [Hs _]].
  assert (Hc : forall k, (k<K)%nat -> eps <= posterior_clipped RO K' tiny eps w l b k <= 1 - eps /\
             Rabs (posterior_clipped RO K' tiny eps w l b k - posterior RO K' tiny w l b k) <= eps).
  { intros k Hk. specialize (Hr k Hk). unfold posterior_clipped. rewrite omin_RO, omax_RO. cbn [oadd oopp o1 RO].
    set (p := posterior RO K' tiny w l b k) in *.
    unfold Rmin, Rmax. destruct (Rle_dec p eps); destruct (Rle_dec _ (1 + - eps)); split; try split; try lra;
      apply Rabs_le; lra. }
  split. intros k Hk; apply Hc; auto.
  rewrite <- Hs. apply rsum_abs_le. intros k Hk. apply Hc; auto.
Qed.
End Thm.

(* ---- mixture weights ---- *)
Section WeightThm.
Variables (K' G : nat) (a : nat -> nat -> R) (s : nat -> R) (eps : R).
Let K := S K'.
Hypothesis HG : (0 < G)%nat.
Hypothesis Ha : forall k g, (k<K)%nat -> (g<G)%nat -> 0 <= a k g.

(* mean of normalised affiliations is a distribution over classes *)
Theorem weight_mean_valid :
  (forall g, (g<G)%nat -> rsum K (fun k => a k g) = 1) ->
  (forall k, (k<K)%nat -> 0 <= weight_mean RO G a k) /\ rsum K (weight_mean RO G a) = 1.
Proof. intros Hn. unfold weight_mean. cbn [omul oinv RO]. rewrite onat_R.
  assert (HGr : 0 < INR G) by (apply lt_0_INR; auto).
  split.
  - intros k Hk. rewrite bsum_RO. apply Rmult_le_pos. apply rsum_nonneg; intros; apply Ha; auto. left; apply Rinv_0_lt_compat; auto.
  - rewrite rsum_scale. rewrite (rsum_ext K _ (fun k => rsum G (a k))) by (intros; apply bsum_RO).
    rewrite rsum_swap. rewrite (rsum_ext G _ (fun _ => 1)) by (intros; apply Hn; auto).
    assert (E : rsum G (fun _ => 1) = INR G). { clear. induction G. reflexivity. cbn [rsum]. rewrite IHn, S_INR. ring. }
    rewrite E. field. lra. Qed.

(* clipped affiliations: each column sums to 1 up to K*eps0, so do the weights *)
Theorem weight_mean_clipped eps0 :
  (forall g, (g<G)%nat -> Rabs (rsum K (fun k => a k g) - 1) <= INR K * eps0) ->
  Rabs (rsum K (weight_mean RO G a) - 1) <= INR K * eps0.
Proof. intros Hn. unfold weight_mean. cbn [omul oinv RO]. rewrite onat_R.
  assert (HGr : 0 < INR G) by (apply lt_0_INR; auto).
  rewrite rsum_scale. rewrite (rsum_ext K _ (fun k => rsum G (a k))) by (intros; apply bsum_RO).
  rewrite rsum_swap.
  assert (E : rsum G (fun _ => 1) = INR G). { clear. induction G. reflexivity. cbn [rsum]. rewrite IHn, S_INR. ring. }
  replace (rsum G (fun j => rsum K (fun i => a i j)) * / INR G - 1)
     with ((rsum G (fun j => rsum K (fun i => a i j)) - rsum G (fun _ => 1)) * / INR G) by (rewrite E; field; lra).
  rewrite Rabs_mult. rewrite (Rabs_right (/ INR G)) by (left; apply Rinv_0_lt_compat; auto).
  pose proof (rsum_abs_le G (fun j => rsum K (fun i => a i j)) (fun _ => 1) (INR K * eps0) Hn) as H.
  apply Rmult_le_reg_r with (INR G); auto. rewrite Rmult_assoc, Rinv_l by lra. lra. Qed.

Hypothesis Hs : forall g, (g<G)%nat -> 0 <= s g.

Theorem weight_sal_valid :
  0 < rsum K (wsum RO G a s) ->
  (forall k, (k<K)%nat -> 0 <= weight_sal RO K' G a s eps k) /\ rsum K (weight_sal RO K' G a s eps) = 1.
Proof. intros Hpos.
  assert (Hws : forall k, (k<K)%nat -> 0 <= wsum RO G a s k).
  { intros k Hk. unfold wsum. rewrite bsum_RO. apply rsum_nonneg; intros g Hg. cbn [omul RO]. apply Rmult_le_pos; auto. }
  assert (En : wnorm1 RO K' G a s = rsum K (wsum RO G a s)).
  { unfold wnorm1. rewrite bsum_RO. apply rsum_ext; intros k Hk. unfold oabs. cbn [oleb o0 oopp RO].
    destruct (Rleb 0 (wsum RO G a s k)) eqn:E; auto. apply Rleb_false in E. specialize (Hws k Hk). lra. }
  unfold weight_sal. rewrite En. cbn [oleb o0 omul oinv RO].
  assert (Ef : Rleb (rsum K (wsum RO G a s)) 0 = false) by (apply Rleb_false; auto).
  rewrite Ef. cbn [andb].
  assert (Hi : 0 < / rsum K (wsum RO G a s)) by (apply Rinv_0_lt_compat; auto).
  split. intros k Hk. apply Rmult_le_pos; [apply Hws; auto | lra].
  rewrite rsum_scale. field. lra. Qed.
End WeightThm.

(* ---- initializers ---- *)
Lemma rsum_const n c : rsum n (fun _ => c) = INR n * c.
Proof. induction n. cbn [rsum]. simpl. ring. cbn [rsum]. rewrite IHn, S_INR. ring. Qed.

Theorem iid_normalised K (u : nat -> R) :
  (forall k, (k<K)%nat -> 0 <= u k) -> 0 < rsum K u ->
  (forall k, (k<K)%nat -> 0 <= iid_norm RO K u k <= 1) /\ rsum K (iid_norm RO K u) = 1.
Proof. intros Hu Hs. unfold iid_norm. cbn [omul oinv RO]. rewrite bsum_RO.
  assert (Hi : 0 < / rsum K u) by (apply Rinv_0_lt_compat; auto). split.
  - intros k Hk. pose proof (Hu k Hk). pose proof (term_le_rsum K u k Hu Hk). split. apply Rmult_le_pos; lra.
    replace 1 with (rsum K u * / rsum K u) by (field; lra). apply Rmult_le_compat_r; lra.
  - rewrite rsum_scale. field. lra. Qed.

(* sum over k<K of (if k = lab then x else y) = x + (K-1) y *)
Lemma rsum_onehot K lab x y : (lab < K)%nat ->
  rsum K (fun k => if Nat.eqb k lab then x else y) = x + (INR K - 1) * y.
Proof. induction K; intros Hl. lia. cbn [rsum]. rewrite S_INR. destruct (Nat.eq_dec lab K) as [->|Hne].
  - rewrite Nat.eqb_refl. rewrite (rsum_ext K _ (fun _ => y)). rewrite rsum_const. ring.
    intros k Hk. destruct (Nat.eqb_spec k K); [lia|reflexivity].
  - rewrite IHK by lia. destruct (Nat.eqb_spec K lab); [lia|]. ring. Qed.

(* flag initializer: every minimum in (0, 1/K): non-assigned classes get exactly m, the assigned one the rest *)
Theorem flag_exact K m lab : (1 <= K)%nat -> 0 < m < / INR K -> (lab < K)%nat ->
  forall k, (k < K)%nat ->
  flag_column RO K m lab k = if Nat.eqb k lab then 1 - (INR K - 1) * m else m.
Proof. intros HK [Hm0 Hm1] Hl k Hk.
  assert (HKr : 1 <= INR K) by (change 1 with (INR 1); apply le_INR; auto).
  assert (Hlt : (INR K - 1) * m < 1).
  { assert (INR K * m < 1). { replace 1 with (INR K * / INR K) by (field; lra). apply Rmult_lt_compat_l; lra. } nra. }
  set (d := 1 - (INR K - 1) * m). assert (Hd : 0 < d) by (unfold d; lra).
  assert (Ef : flag_floor RO K m = m / d).
  { unfold flag_floor. cbn [omul oinv oadd oopp o1 RO]. rewrite onat_R. unfold d, Rdiv. apply f_equal. apply f_equal. ring. }
  assert (Hfl : 0 < m / d < 1).
  { split. apply Rdiv_lt_0_compat; auto. apply Rmult_lt_reg_r with d; auto. unfold Rdiv. rewrite Rmult_assoc, Rinv_l by lra.
    unfold d. assert (INR K * m < 1). { replace 1 with (INR K * / INR K) by (field; lra). apply Rmult_lt_compat_l; lra. } lra. }
  assert (Eraw : forall j, flag_raw RO K m lab j = if Nat.eqb j lab then 1 else m / d).
  { intros j. unfold flag_raw. rewrite omax_RO, Ef. cbn [o0 o1 RO]. destruct (Nat.eqb j lab).
    rewrite Rmax_left; lra. rewrite Rmax_right; lra. }
  unfold flag_column. cbn [omul oinv RO]. rewrite bsum_RO.
  rewrite (rsum_ext K _ (fun j => if Nat.eqb j lab then 1 else m / d)) by (intros; apply Eraw).
  rewrite rsum_onehot by auto. rewrite Eraw.
  assert (Es : 1 + (INR K - 1) * (m / d) = / d). { unfold d. field. fold d. lra. }
  rewrite Es. rewrite Rinv_inv. destruct (Nat.eqb k lab). ring. field. lra. Qed.

(* deflation tail: the normaliser is >= 1 for non-negative similarities, so the final division is safe *)
Theorem deflation_normaliser_ge_1 K' eps (sim : nat -> R) :
  0 <= eps -> (forall k, (k < K')%nat -> 0 <= sim k) ->
  1 <= rsum (S K') (defl_raw RO K' eps sim).
Proof. intros He Hs. cbn [rsum].
  assert (Elast : defl_raw RO K' eps sim K' = Rmax (1 - rsum K' sim) eps).
  { unfold defl_raw. rewrite Nat.eqb_refl. rewrite omax_RO. rewrite (bsum_RO K' sim). reflexivity. }
  rewrite Elast.
  assert (H1 : rsum K' sim <= rsum K' (defl_raw RO K' eps sim)).
  { apply rsum_le. intros k Hk. unfold defl_raw. destruct (Nat.eqb_spec k K'); [lia|]. rewrite omax_RO. apply Rmax_l. }
  pose proof (Rmax_l (1 - rsum K' sim) eps). lra. Qed.

Theorem deflation_column_valid K' eps (sim : nat -> R) :
  0 <= eps -> (forall k, (k < K')%nat -> 0 <= sim k) ->
  (forall k, (k < S K')%nat -> 0 <= defl_column RO K' eps sim k <= 1) /\ rsum (S K') (defl_column RO K' eps sim) = 1.
Proof. intros He Hs. pose proof (deflation_normaliser_ge_1 K' eps sim He Hs) as Hn.
  assert (Hr : forall k, (k < S K')%nat -> 0 <= defl_raw RO K' eps sim k).
  { intros k Hk. unfold defl_raw. rewrite omax_RO. eapply Rle_trans; [exact He | apply Rmax_r]. }
  unfold defl_column. cbn [omul oinv RO]. rewrite bsum_RO.
  set (Z := rsum (S K') (defl_raw RO K' eps sim)) in *. assert (Hi : 0 < / Z) by (apply Rinv_0_lt_compat; lra).
  split.
  - intros k Hk. pose proof (Hr k Hk). pose proof (term_le_rsum (S K') _ k Hr Hk). fold Z in H0. split. apply Rmult_le_pos; lra.
    replace 1 with (Z * / Z) by (field; lra). apply Rmult_le_compat_r; lra.
  - rewrite rsum_scale. fold Z. field. lra. Qed.

(* ---- source_activity_mask: what must NOT matter, and validity from the property's own precondition ---- *)
(* the posterior column does not depend on the log-pdfs of the classes the source-activity mask declares inactive *)
Section MaskIndep.
Variables (l l' : nat -> R) (b : nat -> bool).
Lemma amax_opt_ext n : (forall k, (k <= n)%nat -> b k = true -> l k = l' k) -> amax_opt RO l b n = amax_opt RO l' b n.
Proof. induction n; intros H; cbn [amax_opt].
  - destruct (b 0%nat) eqn:B; [|reflexivity]. rewrite (H 0%nat ltac:(lia) B). reflexivity.
  - rewrite (IHn ltac:(intros k Hk; apply H; lia)). destruct (b (S n)) eqn:B.
    + rewrite (H (S n) ltac:(lia) B). reflexivity.
    + reflexivity. Qed.
Variables (K' : nat) (tiny : R) (w : nat -> R).
Hypothesis Hact : forall k, (k <= K')%nat -> b k = true -> l k = l' k.
Lemma amax_ext : amax RO K' l b = amax RO K' l' b.
Proof. unfold amax. rewrite (amax_opt_ext K' Hact). reflexivity. Qed.
Lemma unnorm_mask_indep k : (k <= K')%nat -> unnorm RO K' w l b k = unnorm RO K' w l' b k.
Proof. intros Hk. unfold unnorm, shifted. rewrite !bmax_lmask, amax_ext. unfold lmask. rewrite amax_ext.
  destruct (b k) eqn:B; [rewrite (Hact k Hk B)|]; reflexivity. Qed.
Theorem posterior_mask_indep k : (k <= K')%nat -> posterior RO K' tiny w l b k = posterior RO K' tiny w l' b k.
Proof. intros Hk. unfold posterior, den. rewrite (unnorm_mask_indep k Hk). rewrite !(bsum_RO (S K')).
  rewrite (rsum_ext (S K') (unnorm RO K' w l b) (unnorm RO K' w l' b)) by (intros j Hj; apply unnorm_mask_indep; lia).
  reflexivity. Qed.
End MaskIndep.

(* validity from the property's own precondition: the best ACTIVE class has mass *)
Theorem posterior_valid_best_active (K' : nat) (tiny : R) (w l : nat -> R) (b : nat -> bool) :
  0 < tiny -> (forall k, (k < S K')%nat -> 0 <= w k) ->
  (exists k, (k < S K')%nat /\ b k = true /\ tiny <= w k /\ forall j, (j < S K')%nat -> b j = true -> l j <= l k) ->
  (forall k, (k < S K')%nat -> 0 <= posterior RO K' tiny w l b k <= 1) /\
  rsum (S K') (posterior RO K' tiny w l b) = 1 /\
  (forall k, b k = false -> posterior RO K' tiny w l b k = 0).
Proof. intros Ht Hw He. apply posterior_valid; auto. apply posterior_floor_inactive; auto. Qed.
