(* Proofs/BeamformerEig.v -- C12: GEV / PCA maximise their Rayleigh quotients (under the eigen-solver
   contract), PCA scalings, rank-one PSD estimates, blind analytic normalisation.  Instance RO. *)
From Coq Require Import Reals Lra Lia Classical FunctionalExtensionality.
From Coquelicot Require Import Coquelicot.
From PB Require Import Ops CLin Model.Beamformer Proofs.Beamformer.
Open Scope C_scope.

Definition comb (D : nat) (W : mat) (c : vec) : vec := fun d => csum D (fun i => W d i * c i).   (* W c *)
Definition col (W : mat) (i : nat) : vec := fun d => W d i.
Definition delta (i j : nat) : C := if Nat.eqb i j then 1 else 0.
Definition idm : mat := fun i j => delta i j.

Lemma csum_delta_l n (f : nat -> C) i : (i < n)%nat -> csum n (fun j => delta i j * f j) = f i.
Proof. induction n; intros Hi. lia. cbn [csum]. destruct (Nat.eq_dec i n) as [->|Hne].
  - rewrite (csum_zero n). 2:{ intros j Hj. unfold delta. destruct (Nat.eqb_spec n j). lia. ring. }
    unfold delta. rewrite Nat.eqb_refl. ring.
  - rewrite IHn by lia. unfold delta. destruct (Nat.eqb_spec i n). contradiction. ring. Qed.
Lemma delta_sym i j : delta i j = delta j i.
Proof. unfold delta. rewrite Nat.eqb_sym. reflexivity. Qed.
Lemma Cconj_delta i j : Cconj (delta i j) = delta i j.
Proof. unfold delta. destruct (Nat.eqb i j); [apply Cconj_1 | apply Cconj_0]. Qed.

(* sesquilinear expansion over a combination of columns *)
Lemma form_comb D A W c :
  form D A (comb D W c) (comb D W c)
  = csum D (fun i => csum D (fun j => Cconj (c i) * c j * form D A (col W i) (col W j))).
Proof.
  unfold form, dot, mv, comb, col.
  transitivity (csum D (fun d => csum D (fun i => csum D (fun e => csum D (fun j =>
       Cconj (W d i) * Cconj (c i) * (A d e * (W e j * c j))))))).
  { apply csum_ext; intros d Hd. rewrite csum_conj. rewrite <- csum_scal_r. apply csum_ext; intros i Hi.
    rewrite <- csum_scal. apply csum_ext; intros e He. rewrite <- csum_scal. rewrite <- csum_scal.
    apply csum_ext; intros j Hj. rewrite Cconj_mult. ring. }
  transitivity (csum D (fun i => csum D (fun d => csum D (fun e => csum D (fun j =>
       Cconj (W d i) * Cconj (c i) * (A d e * (W e j * c j))))))).
  { apply csum_swap. }
  apply csum_ext; intros i Hi.
  transitivity (csum D (fun d => csum D (fun j => csum D (fun e =>
       Cconj (W d i) * Cconj (c i) * (A d e * (W e j * c j)))))).
  { apply csum_ext; intros d Hd. apply csum_swap. }
  rewrite csum_swap. apply csum_ext; intros j Hj.
  rewrite <- csum_scal. apply csum_ext; intros d Hd. rewrite <- csum_scal. rewrite <- csum_scal.
  apply csum_ext; intros e He. ring.
Qed.

Lemma rsum_pos_term n (f : nat -> R) k :
  (forall j, (j < n)%nat -> 0 <= f j)%R -> (k < n)%nat -> (0 < f k)%R -> (0 < rsum n f)%R.
Proof. intros Hf Hk Hp. pose proof (term_le_rsum n f k Hf Hk). lra. Qed.
Lemma dot_self D (u : vec) : dot D u u = RtoC (rsum D (fun i => Cmod (u i) * Cmod (u i))%R).
Proof. unfold dot. rewrite <- csum_RtoC. apply csum_ext; intros. apply conj_mul_self. Qed.
Lemma dot_self_nonneg D (u : vec) : (0 <= fst (dot D u u))%R /\ snd (dot D u u) = 0%R.
Proof. rewrite dot_self. simpl. split; auto. apply rsum_nonneg; intros. pose proof (Cmod_ge_0 (u k)). nra. Qed.
Lemma dot_self_pos D (u : vec) : nonzero D u -> (0 < fst (dot D u u))%R.
Proof. intros [i [Hi Hu]]. rewrite dot_self. simpl.
  apply (rsum_pos_term D _ i); auto.
  - intros j Hj. pose proof (Cmod_ge_0 (u j)). nra.
  - pose proof (proj1 (Cmod_gt_0 (u i)) Hu). nra. Qed.

(* ============ generalised Rayleigh bound under the eigen-solver contract A W = B W diag(lam) ============ *)
Section Rayleigh.
Variable D : nat.
Variables (Px Pn W : mat) (lam : nat -> R).
Hypothesis HPx : hermitian Px.
Hypothesis HPn : possemidef D Pn.
(* eigen-equation, column by column:  Px w_j = lam_j Pn w_j *)
Hypothesis Heig : forall j d, (j < D)%nat -> (d < D)%nat ->
  mv D Px (col W j) d = RtoC (lam j) * mv D Pn (col W j) d.
(* W is invertible: its columns span *)
Hypothesis Hspan : forall v : vec, exists c : vec, veq D v (comb D W c).

Let G (i j : nat) : C := form D Pn (col W i) (col W j).

Lemma gram_x i j : (i < D)%nat -> (j < D)%nat -> form D Px (col W i) (col W j) = RtoC (lam j) * G i j.
Proof. intros Hi Hj. unfold G, form. rewrite <- dot_scal_r. apply dot_ext; auto. Qed.
Lemma gram_herm i j : G i j = Cconj (G j i).
Proof. unfold G. apply form_herm. apply HPn. Qed.
(* eigenvectors of different eigenvalues are Pn-orthogonal *)
Lemma gram_orth i j : (i < D)%nat -> (j < D)%nat -> lam i <> lam j -> G i j = 0.
Proof.
  intros Hi Hj Hne.
  assert (E : RtoC (lam j) * G i j = RtoC (lam i) * G i j).
  { rewrite <- gram_x by auto. rewrite (form_herm D Px _ _ HPx). rewrite gram_x by auto.
    rewrite Cconj_mult, Cconj_R, <- gram_herm. reflexivity. }
  destruct (classic (G i j = 0)) as [|Hg]; auto. exfalso.
  assert (Hz : RtoC (lam j - lam i) * G i j = 0). { rewrite RtoC_minus. unfold Cminus. rewrite Cmult_plus_distr_r, E. ring. }
  revert Hz. apply Cmult_neq_0; auto. apply RtoC_neq0. lra.
Qed.

Theorem rayleigh_bound lmax v :
  (forall i, (i < D)%nat -> lam i <= lmax)%R ->
  (fst (form D Px v v) <= lmax * fst (form D Pn v v))%R.
Proof.
  intros Hmax. destruct (Hspan v) as [c Hc].
  rewrite (form_ext2 D Px v (comb D W c) v (comb D W c)), (form_ext2 D Pn v (comb D W c) v (comb D W c)); auto.
  set (s := fun i => sqrt (lmax - lam i)).
  set (c' := fun i => RtoC (s i) * c i).
  assert (Key : RtoC lmax * form D Pn (comb D W c) (comb D W c) - form D Px (comb D W c) (comb D W c)
                = form D Pn (comb D W c') (comb D W c')).
  { rewrite !form_comb. unfold Cminus.
    rewrite <- csum_scal. rewrite <- (Cmult_1_l (csum D (fun i => csum D (fun j => Cconj (c i) * c j * form D Px (col W i) (col W j))))).
    replace (- (1 * csum D (fun i => csum D (fun j => Cconj (c i) * c j * form D Px (col W i) (col W j)))))
      with ((- (1)) * csum D (fun i => csum D (fun j => Cconj (c i) * c j * form D Px (col W i) (col W j)))) by ring.
    rewrite <- csum_scal, <- csum_plus. apply csum_ext; intros i Hi.
    rewrite <- !csum_scal, <- csum_plus. apply csum_ext; intros j Hj.
    rewrite gram_x by auto. fold (G i j). unfold c'. rewrite Cconj_mult, Cconj_R.
    destruct (Req_dec (lam i) (lam j)) as [Eq|Ne].
    - assert (Es : (s i * s j = lmax - lam j)%R).
      { unfold s. rewrite Eq. apply sqrt_sqrt. specialize (Hmax j Hj). lra. }
      transitivity (RtoC (lmax - lam j) * (Cconj (c i) * c j * G i j)). rewrite RtoC_minus; ring.
      rewrite <- Es, RtoC_mult. ring.
    - rewrite (gram_orth i j Hi Hj Ne). ring. }
  destruct HPn as [_ Hps]. specialize (Hps (comb D W c')). rewrite <- Key in Hps.
  destruct (form D Pn (comb D W c) (comb D W c)) as [p1 p2], (form D Px (comb D W c) (comb D W c)) as [q1 q2].
  unfold Cminus, Cplus, Cmult, Copp, RtoC in Hps; simpl in *. lra.
Qed.

(* every column attains its own eigenvalue *)
Theorem rayleigh_attained k : (k < D)%nat ->
  form D Px (col W k) (col W k) = RtoC (lam k) * form D Pn (col W k) (col W k).
Proof. intros Hk. apply gram_x; auto. Qed.
End Rayleigh.

(* ---- get_gev_vector: the column of the first arg-max eigenvalue ---- *)
Theorem gev_rayleigh D (Px Pn W : mat) (lam : nat -> R) :
  (0 < D)%nat -> hermitian Px -> possemidef D Pn ->
  (forall j d, (j < D)%nat -> (d < D)%nat -> mv D Px (col W j) d = RtoC (lam j) * mv D Pn (col W j) d) ->
  (forall v : vec, exists c : vec, veq D v (comb D W c)) ->
  let k := argmax_first (oltb RO) D lam in
  let w := gev_vec RO D W lam in
  (forall i, (i < D)%nat -> lam i <= lam k)%R /\
  form D Px w w = RtoC (lam k) * form D Pn w w /\
  (forall v, fst (form D Px v v) <= lam k * fst (form D Pn v v))%R.
Proof.
  intros HD HPx HPn Heig Hspan k w.
  assert (Hk : (k < D)%nat). { unfold k, argmax_first. pose proof (argmax_upto_le lam (D - 1)). lia. }
  assert (Hmax : (forall i, (i < D)%nat -> lam i <= lam k)%R).
  { intros i Hi. unfold k, argmax_first. apply argmax_upto_max. lia. }
  split; [exact Hmax|]. split.
  - change w with (col W k). apply (rayleigh_attained D Px Pn W lam Heig k Hk).
  - intros v. apply (rayleigh_bound D Px Pn W lam HPx HPn Heig Hspan); auto.
Qed.

(* ---- PCA: np.linalg.eigh contract  Phi U = U diag lam, U^H U = U U^H = I, lam ascending ---- *)
Lemma mv_idm D (v : vec) d : (d < D)%nat -> mv D idm v d = v d.
Proof. intros Hd. unfold mv, idm. apply csum_delta_l; auto. Qed.
Lemma form_idm D (u v : vec) : form D idm u v = dot D u v.
Proof. unfold form. apply dot_ext; auto. intros; apply mv_idm; auto. Qed.
Lemma idm_psd D : possemidef D idm.
Proof. split. intros i j. unfold idm. rewrite Cconj_delta. apply delta_sym.
  intros u. rewrite form_idm. apply dot_self_nonneg. Qed.

Section PCA.
Variable D : nat.
Variables (Phi U : mat) (lam : nat -> R).
Hypothesis HD : (0 < D)%nat.
Hypothesis HPhi : hermitian Phi.
Hypothesis Heig : forall j d, (j < D)%nat -> (d < D)%nat -> mv D Phi (col U j) d = RtoC (lam j) * U d j.
Hypothesis Horth : forall i j, (i < D)%nat -> (j < D)%nat -> dot D (col U i) (col U j) = delta i j.
Hypothesis Hcompl : forall i j, (i < D)%nat -> (j < D)%nat -> csum D (fun k => U i k * Cconj (U j k)) = delta i j.
Hypothesis Hasc : forall i j, (i <= j)%nat -> (j < D)%nat -> (lam i <= lam j)%R.

Lemma pca_span (v : vec) : exists c : vec, veq D v (comb D U c).
Proof.
  exists (fun k => csum D (fun j => Cconj (U j k) * v j)). intros d Hd. unfold comb.
  transitivity (csum D (fun j => csum D (fun k => U d k * Cconj (U j k) * v j))).
  2:{ rewrite csum_swap. apply csum_ext; intros k Hk. rewrite <- csum_scal. apply csum_ext; intros; ring. }
  rewrite (csum_ext D _ (fun j => delta d j * v j)).
  2:{ intros j Hj. rewrite csum_scal_r, Hcompl by auto. reflexivity. }
  rewrite csum_delta_l; auto.
Qed.

Theorem pca_rayleigh :
  let w := pca_vec D U in
  dot D w w = 1 /\
  form D Phi w w = RtoC (pca_val D lam) /\
  (forall v, fst (form D Phi v v) <= pca_val D lam * fst (dot D v v))%R.
Proof.
  intros w. assert (Hk : (D - 1 < D)%nat) by lia.
  assert (Heig' : forall j d, (j < D)%nat -> (d < D)%nat ->
             mv D Phi (col U j) d = RtoC (lam j) * mv D idm (col U j) d).
  { intros j d Hj Hd. rewrite mv_idm by auto. apply Heig; auto. }
  assert (Hn : dot D w w = 1).
  { change w with (col U (D - 1)). rewrite Horth by auto. unfold delta. rewrite Nat.eqb_refl. reflexivity. }
  split; [exact Hn|]. split.
  - change w with (col U (D - 1)).
    rewrite (rayleigh_attained D Phi idm U lam Heig' (D - 1) Hk). rewrite form_idm.
    change (col U (D - 1)) with w. rewrite Hn. unfold pca_val. ring.
  - intros v. rewrite <- form_idm.
    apply (rayleigh_bound D Phi idm U lam HPhi (idm_psd D) Heig' pca_span).
    intros i Hi. unfold pca_val. apply Hasc; lia.
Qed.
End PCA.

(* ---- scalings of get_pca_vector ---- *)
Lemma csqrt_RO_real t : (0 < t)%R -> csqrt RO (RtoC t) = RtoC (sqrt t).
Proof.
  intros Ht. unfold csqrt. rewrite cabs2_RO, cabs_RO, Cmod_R, half_RO. rewrite Rabs_pos_eq by lra.
  cbn [fst snd RtoC oleb o0 RO omul oadd odiv oinv osqrt].
  assert (H1 : Rleb (t * t) 0 = false) by (apply Rleb_false; nra). rewrite H1.
  assert (H2 : Rleb 0 t = true) by (apply Rleb_true; lra). rewrite H2.
  unfold RtoC. f_equal. f_equal; field. unfold odiv; cbn [omul oinv RO]. ring.
Qed.
Lemma bf_norm_unit D (w : vec) : dot D w w = 1 -> bf_norm RO D w = 1%R.
Proof. intros H. unfold bf_norm. rewrite bsum_RO. cbn [osqrt RO].
  rewrite (rsum_ext D _ (fun i => Cmod (w i) * Cmod (w i))%R) by (intros; apply cabs2_RO).
  rewrite dot_self in H. apply RtoC_inj in H. rewrite H. apply sqrt_1. Qed.
Lemma tr_real_of_hermitian D (A : mat) : hermitian A -> snd (tr D A) = 0%R.
Proof. intros HA. apply Cconj_fix_real. unfold tr. rewrite csum_conj. apply csum_ext; intros. symmetry. apply HA. Qed.

Theorem pca_scalings D (Phi U : mat) (lam : nat -> R) d :
  hermitian Phi -> (0 < fst (tr D Phi))%R -> dot D (pca_vec D U) (pca_vec D U) = 1 ->
  pca_scaled RO D ScNone Phi U lam d = pca_vec D U d /\
  pca_scaled RO D ScTrace Phi U lam d = RtoC (sqrt (fst (tr D Phi))) * pca_vec D U d /\
  (0 < sqrt (fst (tr D Phi)))%R /\
  pca_scaled RO D ScEig Phi U lam d = RtoC (pca_val D lam) * pca_vec D U d.
Proof.
  intros HPhi Ht Hn. split; [reflexivity|]. split; [|split].
  - unfold pca_scaled. rewrite (bf_norm_unit D _ Hn). rewrite bf_trace_RO.
    rewrite (C_real_eq (tr D Phi) (tr_real_of_hermitian D Phi HPhi)) at 1.
    rewrite csqrt_RO_real by auto. bridge. rewrite cscale_RO. cbn [oinv RO]. rewrite Rinv_1. asC. ring.
  - apply sqrt_lt_R0; auto.
  - unfold pca_scaled. rewrite (bf_norm_unit D _ Hn). rewrite cscale_RO. unfold odiv; cbn [omul oinv RO].
    rewrite Rinv_1, Rmult_1_r. reflexivity.
Qed.

(* positive definite Phi: the largest eigenvalue (the 'eigenvalue' scaling factor) is positive *)
Theorem pca_val_pos D (Phi U : mat) (lam : nat -> R) :
  posdef D Phi -> dot D (pca_vec D U) (pca_vec D U) = 1 ->
  form D Phi (pca_vec D U) (pca_vec D U) = RtoC (pca_val D lam) -> (0 < pca_val D lam)%R.
Proof.
  intros [_ Hp] Hn Hf.
  assert (Hnz : nonzero D (pca_vec D U)).
  { destruct (all_zero_or_nonzero D (pca_vec D U)) as [Hz|]; auto. exfalso.
    rewrite (dot_ext D _ (pca_vec D U) _ (fun _ => 0)) in Hn; auto. rewrite dot_zero_r in Hn.
    apply RtoC_inj in Hn. lra. }
  specialize (Hp _ Hnz). rewrite Hf in Hp. exact Hp.
Qed.

(* ============ rank-one PSD estimates (beamformer_wrapper.py) ============ *)
Lemma bf_outer_RO (a : vec) i j : bf_outer RO a i j = a i * Cconj (a j).
Proof. reflexivity. Qed.
Lemma tr_outer D (a : vec) : tr D (bf_outer RO a) = dot D a a.
Proof. unfold tr, dot. apply csum_ext; intros. rewrite bf_outer_RO. ring. Qed.
Lemma rank1_est_RO D (cov : mat) (a : vec) i j :
  rank1_est RO D cov a i j = tr D cov / dot D a a * (a i * Cconj (a j)).
Proof. unfold rank1_est. bridge. rewrite cdiv_RO, !bf_trace_RO, tr_outer. reflexivity. Qed.

Theorem rank1_hermitian D (cov : mat) (a : vec) :
  snd (tr D cov) = 0%R -> hermitian (rank1_est RO D cov a).
Proof.
  intros Ht i j. rewrite !rank1_est_RO. rewrite !Cconj_mult, Cconj_conj. unfold Cdiv.
  rewrite Cconj_mult, Cconj_inv, dot_conj.
  rewrite (C_real_eq (tr D cov) Ht), Cconj_R. ring.
Qed.
(* rank one: every column is a multiple of a *)
Theorem rank1_rank_one D (cov : mat) (a : vec) :
  exists b : vec, forall i j, rank1_est RO D cov a i j = a i * b j.
Proof. exists (fun j => tr D cov / dot D a a * Cconj (a j)). intros i j. rewrite rank1_est_RO. asC. ring. Qed.
Theorem rank1_trace D (cov : mat) (a : vec) :
  nonzero D a -> tr D (rank1_est RO D cov a) = tr D cov.
Proof.
  intros Ha. pose proof (dot_self_pos D a Ha) as Hp.
  assert (Hn : dot D a a <> 0). { intros E. rewrite E in Hp. simpl in Hp. lra. }
  unfold tr at 1. rewrite (csum_ext D _ (fun i => tr D cov / dot D a a * (Cconj (a i) * a i))).
  2:{ intros i Hi. rewrite rank1_est_RO. ring. }
  rewrite csum_scal. fold (dot D a a). field. exact Hn.
Qed.

(* an eigenvector (eigenvalue <> 0) of sigma b b^H, or Pn w for a generalised one, is a multiple of b *)
Lemma r1psd_mv D (b : vec) sigma (v : vec) d :
  mv D (r1psd b sigma) v d = (RtoC sigma * dot D b v) * b d.
Proof. unfold mv, r1psd, dot.
  rewrite (csum_ext D _ (fun j => (RtoC sigma * b d) * (Cconj (b j) * v j))) by (intros; ring).
  rewrite csum_scal. ring. Qed.
Theorem rank1_eigvec_parallel D (b : vec) sigma (v : vec) (lam : R) :
  lam <> 0%R -> (forall d, (d < D)%nat -> mv D (r1psd b sigma) v d = RtoC lam * v d) ->
  veq D v (fun d => (RtoC sigma * dot D b v / RtoC lam) * b d).
Proof. intros Hl He d Hd. specialize (He d Hd). rewrite r1psd_mv in He.
  assert (RtoC lam <> 0) by (apply RtoC_neq0; auto).
  transitivity (/ RtoC lam * (RtoC lam * v d)). field; auto. rewrite <- He. field; auto. Qed.
Theorem rank1_gev_atf_parallel D (b : vec) sigma (Pn : mat) (w : vec) (lam : R) :
  lam <> 0%R -> (forall d, (d < D)%nat -> mv D (r1psd b sigma) w d = RtoC lam * mv D Pn w d) ->
  veq D (gev_atf RO D Pn w) (fun d => (RtoC sigma * dot D b w / RtoC lam) * b d).
Proof. intros Hl He d Hd. specialize (He d Hd). rewrite r1psd_mv in He.
  assert (RtoC lam <> 0) by (apply RtoC_neq0; auto).
  unfold gev_atf. rewrite bf_mv_RO.
  transitivity (/ RtoC lam * (RtoC lam * mv D Pn w d)). field; auto. rewrite <- He. field; auto. Qed.

(* ... hence the estimate built from it IS the rank-one target *)
Theorem rank1_recovers D (b : vec) sigma (a : vec) (c : C) i j :
  nonzero D b -> c <> 0 -> veq D a (fun d => c * b d) -> (i < D)%nat -> (j < D)%nat ->
  rank1_est RO D (r1psd b sigma) a i j = r1psd b sigma i j.
Proof.
  intros Hb Hc Ha Hi Hj. rewrite rank1_est_RO. rewrite (Ha i Hi), (Ha j Hj).
  rewrite (dot_ext D a (fun d => c * b d) a (fun d => c * b d)) by auto.
  rewrite dot_scal_l, dot_scal_r.
  assert (Etr : tr D (r1psd b sigma) = RtoC sigma * dot D b b).
  { unfold tr, dot, r1psd. rewrite <- csum_scal. apply csum_ext; intros; ring. }
  rewrite Etr. pose proof (dot_self_pos D b Hb) as Hp.
  assert (Hn : dot D b b <> 0). { intros E. rewrite E in Hp. simpl in Hp. lra. }
  assert (Hcc : Cconj c <> 0). { intros E. apply Hc. rewrite <- (Cconj_conj c), E. apply Cconj_0. }
  unfold r1psd. rewrite Cconj_mult. asC. field. repeat split; auto.
Qed.

(* ============ blind analytic normalisation ============ *)
Definition ban_nom D (Pn : mat) (w : vec) : C := dot D w (mv D Pn (mv D Pn w)).
Lemma ban_factor_RO D (Pn : mat) (w : vec) :
  ban_factor RO D Pn w
  = if Rleb (Cmod (form D Pn w w)) 0 then 0%R else (sqrt (Cmod (ban_nom D Pn w)) / Cmod (form D Pn w w))%R.
Proof.
  assert (E : forall x : vec, bf_mv RO D Pn x = mv D Pn x).
  { intros x. apply functional_extensionality; intros i. apply bf_mv_RO. }
  unfold ban_factor. rewrite !cabs_RO. rewrite !bf_dot_RO. rewrite !E. reflexivity.
Qed.
Lemma ban_RO D Pn (w : vec) d : ban RO D Pn w d = RtoC (ban_factor RO D Pn w) * w d.
Proof. unfold ban. apply cscale_RO. Qed.

(* w^H Pn Pn w = ||Pn w||^2 for Hermitian Pn *)
Lemma ban_nom_herm D (Pn : mat) (w : vec) :
  hermitian Pn -> ban_nom D Pn w = dot D (mv D Pn w) (mv D Pn w).
Proof. intros H. unfold ban_nom. fold (form D Pn w (mv D Pn w)). rewrite form_herm by auto.
  unfold form. rewrite dot_conj. reflexivity. Qed.

Theorem ban_factor_pos D (Pn : mat) (w : vec) :
  posdef D Pn -> nonzero D w ->
  snd (ban_nom D Pn w) = 0%R /\ (0 < fst (ban_nom D Pn w))%R /\
  snd (form D Pn w w) = 0%R /\ (0 < fst (form D Pn w w))%R /\
  ban_factor RO D Pn w = (sqrt (fst (ban_nom D Pn w)) / fst (form D Pn w w))%R /\
  (0 < ban_factor RO D Pn w)%R.
Proof.
  intros HP Hw. pose proof HP as [Hh Hp]. specialize (Hp w Hw). pose proof (form_real D Pn w Hh) as Hr.
  assert (Hy : nonzero D (mv D Pn w)).
  { destruct (all_zero_or_nonzero D (mv D Pn w)) as [Hz|]; auto. exfalso.
    pose proof (posdef_kernel D Pn w HP Hz) as Hw0. destruct Hw as [i [Hi Hwi]]. apply Hwi. apply Hw0; auto. }
  rewrite (ban_nom_herm D Pn w Hh) in *. destruct (dot_self_nonneg D (mv D Pn w)) as [_ Hn2].
  pose proof (dot_self_pos D _ Hy) as Hn1.
  assert (Ef : ban_factor RO D Pn w = (sqrt (fst (dot D (mv D Pn w) (mv D Pn w))) / fst (form D Pn w w))%R).
  { rewrite ban_factor_RO. rewrite (ban_nom_herm D Pn w Hh).
    rewrite (C_real_eq _ Hr), (C_real_eq _ Hn2). rewrite !Cmod_R. cbn [fst RtoC]. rewrite !Rabs_pos_eq by lra.
    assert (E : Rleb (fst (form D Pn w w)) 0 = false) by (apply Rleb_false; lra). rewrite E. reflexivity. }
  repeat split; auto. rewrite Ef. apply Rdiv_lt_0_compat; auto. apply sqrt_lt_R0; auto.
Qed.

(* homogeneity: the result depends on the input vector only through its direction and phase *)
Lemma form_scal D (A : mat) (s : C) (w : vec) :
  form D A (fun d => s * w d) (fun d => s * w d) = RtoC (Cmod s * Cmod s) * form D A w w.
Proof. unfold form. rewrite (dot_ext D _ (fun d => s * w d) _ (fun i => s * mv D A w i)); auto.
  2:{ intros; apply mv_scal. } rewrite dot_scal_l, dot_scal_r. rewrite <- conj_mul_self. ring. Qed.
Lemma ban_nom_scal D (Pn : mat) (s : C) (w : vec) :
  ban_nom D Pn (fun d => s * w d) = RtoC (Cmod s * Cmod s) * ban_nom D Pn w.
Proof. unfold ban_nom.
  rewrite (dot_ext D _ (fun d => s * w d) _ (fun i => s * mv D Pn (mv D Pn w) i)); auto.
  2:{ intros i Hi. rewrite (mv_ext D Pn Pn _ (fun j => s * mv D Pn w j) i); auto. apply mv_scal. intros; apply mv_scal. }
  rewrite dot_scal_l, dot_scal_r. rewrite <- conj_mul_self. ring. Qed.

Theorem ban_homogeneous D (Pn : mat) (s : C) (w : vec) d :
  s <> 0 ->
  ban RO D Pn (fun k => s * w k) d = (s / RtoC (Cmod s)) * ban RO D Pn w d.
Proof.
  intros Hs. pose proof (proj1 (Cmod_gt_0 s) Hs) as Hm. set (m := Cmod s) in *.
  assert (Hm0 : RtoC m <> 0) by (apply RtoC_neq0; lra).
  rewrite !ban_RO.
  assert (Ef : ban_factor RO D Pn (fun k => s * w k) = (ban_factor RO D Pn w / m)%R).
  { rewrite !ban_factor_RO. rewrite form_scal, ban_nom_scal. fold m.
    rewrite !Cmod_mult, Cmod_R. rewrite Rabs_pos_eq by nra.
    pose proof (Cmod_ge_0 (form D Pn w w)) as Hd. pose proof (Cmod_ge_0 (ban_nom D Pn w)) as Hn.
    destruct (Rle_lt_or_eq_dec _ _ Hd) as [Hpos|Hz].
    - assert (E1 : Rleb (m * m * Cmod (form D Pn w w)) 0 = false).
      { apply Rleb_false. apply Rmult_lt_0_compat; auto. nra. }
      assert (E2 : Rleb (Cmod (form D Pn w w)) 0 = false) by (apply Rleb_false; lra).
      rewrite E1, E2. rewrite sqrt_mult by nra. rewrite sqrt_square by lra. field. split; lra.
    - rewrite <- Hz. rewrite Rmult_0_r. assert (E : Rleb 0 0 = true) by (apply Rleb_true; lra). rewrite E.
      unfold Rdiv. ring. }
  rewrite Ef. unfold Rdiv. rewrite RtoC_mult, RtoC_inv by lra. asC. field. exact Hm0.
Qed.

(* the output SNR (any Rayleigh quotient) is untouched: both forms are multiplied by the same factor^2 *)
Theorem ban_keeps_snr D (Px Pn : mat) (w : vec) :
  let g := ban_factor RO D Pn w in
  form D Px (ban RO D Pn w) (ban RO D Pn w) = RtoC (g * g) * form D Px w w /\
  form D Pn (ban RO D Pn w) (ban RO D Pn w) = RtoC (g * g) * form D Pn w w /\
  (fst (form D Px (ban RO D Pn w) (ban RO D Pn w)) * fst (form D Pn w w)
   = fst (form D Px w w) * fst (form D Pn (ban RO D Pn w) (ban RO D Pn w)))%R.
Proof.
  intros g.
  assert (E : forall A : mat, form D A (ban RO D Pn w) (ban RO D Pn w) = RtoC (g * g) * form D A w w).
  { intros A. rewrite (form_ext2 D A _ (fun d => RtoC g * w d) _ (fun d => RtoC g * w d)) by (intros i Hi; apply ban_RO).
    rewrite form_scal, Cmod_R. f_equal. f_equal. rewrite <- Rabs_mult. apply Rabs_pos_eq. nra. }
  split; [apply E|]. split; [apply E|]. rewrite !E, !fst_Cmult_R. ring.
Qed.

(* "W is invertible" in checkable form: a right inverse V (W V = I) makes the columns span *)
Lemma span_of_right_inverse D (W V : mat) :
  (forall i j, (i < D)%nat -> (j < D)%nat -> csum D (fun k => W i k * V k j) = delta i j) ->
  forall v : vec, exists c : vec, veq D v (comb D W c).
Proof.
  intros HV v. exists (fun k => csum D (fun j => V k j * v j)). intros d Hd. unfold comb.
  transitivity (csum D (fun j => csum D (fun k => W d k * V k j * v j))).
  2:{ rewrite csum_swap. apply csum_ext; intros k Hk. rewrite <- csum_scal. apply csum_ext; intros; ring. }
  rewrite (csum_ext D _ (fun j => delta d j * v j)).
  2:{ intros j Hj. rewrite csum_scal_r, HV by auto. reflexivity. }
  rewrite csum_delta_l; auto.
Qed.
Theorem gev_rayleigh_inv D (Px Pn W V : mat) (lam : nat -> R) :
  (0 < D)%nat -> hermitian Px -> possemidef D Pn ->
  (forall j d, (j < D)%nat -> (d < D)%nat -> mv D Px (col W j) d = RtoC (lam j) * mv D Pn (col W j) d) ->
  (forall i j, (i < D)%nat -> (j < D)%nat -> csum D (fun k => W i k * V k j) = delta i j) ->
  let k := argmax_first (oltb RO) D lam in
  let w := gev_vec RO D W lam in
  (forall i, (i < D)%nat -> lam i <= lam k)%R /\
  form D Px w w = RtoC (lam k) * form D Pn w w /\
  (forall v, fst (form D Px v v) <= lam k * fst (form D Pn v v))%R.
Proof. intros HD HPx HPn Heig HV. apply gev_rayleigh; auto. apply (span_of_right_inverse D W V HV). Qed.
