(* Proofs/Shape.v -- lemmas about Model/Shape.v, for every rank (induction over the shape list), and the slice law of
   the EM loop (C06): ravel/unravel round trips, reshape(-1, ...) pipelines act per leading index, a broadcast view of
   singleton axes is the materialised repetition, flat ellipsis contractions are the nested sums of one slice, and the
   trajectory of a stack at a leading index is the trajectory of that slice. *)
From Coq Require Import List Arith Lia Reals Lra FunctionalExtensionality.
From PB Require Import Ops CLin Model.Shape Model.EM Proofs.EM.
Import ListNotations.

(* ------------------------------------------------------------------ ravel / unravel *)
Lemma prod_app a b : prod (a ++ b) = prod a * prod b.
Proof. induction a as [|s a IH]; simpl. lia. rewrite IH. ring. Qed.

Lemma in_shape_length sh idx : in_shape sh idx -> length idx = length sh.
Proof. revert idx; induction sh as [|s sr IH]; intros [|i ir]; simpl; try tauto. intros [_ H]. f_equal. auto. Qed.

Lemma in_shapeb_spec sh idx : in_shapeb sh idx = true <-> in_shape sh idx.
Proof. revert idx; induction sh as [|s sr IH]; intros [|i ir]; simpl; try tauto; try (split; [discriminate | tauto]).
  rewrite Bool.andb_true_iff, Nat.ltb_lt, IH. tauto. Qed.

Lemma ravel_lt sh idx : in_shape sh idx -> ravel sh idx < prod sh.
Proof. revert idx; induction sh as [|s sr IH]; intros [|i ir]; simpl; try tauto. lia.
  intros [Hi H]. specialize (IH ir H). nia. Qed.

Lemma prod_pos_of_lt sh k : k < prod sh -> 0 < prod sh.
Proof. lia. Qed.

Theorem unravel_ravel sh idx : in_shape sh idx -> unravel sh (ravel sh idx) = idx.
Proof. revert idx; induction sh as [|s sr IH]; intros [|i ir]; simpl; try tauto.
  intros [Hi H]. pose proof (ravel_lt sr ir H) as Hl.
  assert (Hd : (i * prod sr + ravel sr ir) / prod sr = i).
  { symmetry. apply (Nat.div_unique _ _ i (ravel sr ir)); lia. }
  assert (Hm : (i * prod sr + ravel sr ir) mod prod sr = ravel sr ir).
  { symmetry. apply (Nat.mod_unique _ _ i (ravel sr ir)); lia. }
  rewrite Hd, Hm, IH; auto. Qed.

Theorem unravel_in_shape sh k : k < prod sh -> in_shape sh (unravel sh k).
Proof. revert k; induction sh as [|s sr IH]; intros k Hk; simpl in *. exact I.
  assert (Hp : 0 < prod sr) by nia. split.
  - apply Nat.div_lt_upper_bound; lia.
  - apply IH. apply Nat.mod_upper_bound. lia. Qed.

Theorem ravel_unravel sh k : k < prod sh -> ravel sh (unravel sh k) = k.
Proof. revert k; induction sh as [|s sr IH]; intros k Hk; simpl in *. lia.
  assert (Hp : 0 < prod sr) by nia.
  rewrite IH by (apply Nat.mod_upper_bound; lia).
  pose proof (Nat.div_mod k (prod sr) ltac:(lia)). lia. Qed.

(* a leading block and a trailing block: offset = (offset of the leading index) * (size of a slice) + offset in the slice *)
Theorem ravel_app lead tr idx j : length idx = length lead ->
  ravel (lead ++ tr) (idx ++ j) = ravel lead idx * prod tr + ravel tr j.
Proof. revert idx; induction lead as [|s sr IH]; intros [|i ir] Hl; simpl in *; try discriminate. reflexivity.
  rewrite prod_app, IH by lia. ring. Qed.

Lemma in_shape_app lead tr idx j : in_shape lead idx -> in_shape tr j -> in_shape (lead ++ tr) (idx ++ j).
Proof. revert idx; induction lead as [|s sr IH]; intros [|i ir]; simpl; try tauto. intros [Hi H] Hj. split; auto. Qed.

Lemma ravel_strides sh idx : ravel sh idx = offset (strides sh) idx.
Proof. revert idx; induction sh as [|s sr IH]; intros [|i ir]; simpl; auto. Qed.

(* ------------------------------------------------------------------ reshape(-1, *tr) ; per-row helper ; reshape back *)
Section Batched.
Variables A B : Type.
Lemma row_is_slice lead tr (buf : nat -> A) idx : length idx = length lead ->
  row tr buf (ravel lead idx) = slice lead tr buf idx.
Proof. intros Hl. unfold row, slice. apply functional_extensionality; intro j. rewrite ravel_app by auto. reflexivity. Qed.

(* the flattened pipeline, read back at leading index idx and trailing index j, is the helper applied to slice idx *)
Theorem batched_slice lead tr tr' (h : (list nat -> A) -> list nat -> B) (buf : nat -> A) idx j :
  length idx = length lead -> in_shape tr' j ->
  batched tr tr' h buf (ravel (lead ++ tr') (idx ++ j)) = h (slice lead tr buf idx) j.
Proof. intros Hl Hj. unfold batched. rewrite ravel_app by auto. pose proof (ravel_lt tr' j Hj) as Hlt.
  assert (Hd : (ravel lead idx * prod tr' + ravel tr' j) / prod tr' = ravel lead idx).
  { symmetry. apply (Nat.div_unique _ _ _ (ravel tr' j)); lia. }
  assert (Hm : (ravel lead idx * prod tr' + ravel tr' j) mod prod tr' = ravel tr' j).
  { symmetry. apply (Nat.mod_unique _ _ (ravel lead idx) _); lia. }
  rewrite Hd, Hm, unravel_ravel, row_is_slice; auto. Qed.
End Batched.

(* reshape(-1, D, D) and back without a helper: the identity on every element (h = id) *)
Corollary reshape_roundtrip (A : Type) lead tr (buf : nat -> A) idx j :
  length idx = length lead -> in_shape tr j ->
  batched tr tr (fun u => u) buf (ravel (lead ++ tr) (idx ++ j)) = buf (ravel (lead ++ tr) (idx ++ j)).
Proof. intros Hl Hj. rewrite (batched_slice A A lead tr tr (fun u => u) buf idx j Hl Hj). reflexivity. Qed.

(* ------------------------------------------------------------------ broadcasting of singleton axes *)
Lemma offset_bstrides src idx : offset (bstrides src) idx = ravel src (bidx src idx).
Proof. revert idx; induction src as [|s sr IH]; intros [|i ir]; simpl; auto.
  rewrite IH. destruct (Nat.eqb s 1); lia. Qed.

Lemma bidx_in_shape src tgt idx : bcompat src tgt -> in_shape tgt idx -> in_shape src (bidx src idx).
Proof. revert tgt idx; induction src as [|s sr IH]; intros [|t tr] [|i ir]; simpl; try tauto.
  intros [Hs Hc] [Hi H]. split; [|eapply IH; eauto].
  destruct (Nat.eqb_spec s 1); lia. Qed.

(* element idx of the broadcast view = element idx of the repeated (materialised) array *)
Theorem broadcast_singleton_is_repeat (A : Type) src tgt (buf : nat -> A) idx :
  in_shape tgt idx -> bview src buf idx = repeat_buf src tgt buf (ravel tgt idx).
Proof. intros H. unfold bview, repeat_buf. rewrite unravel_ravel by auto. rewrite offset_bstrides. reflexivity. Qed.

(* ... and it reads inside the source *)
Theorem broadcast_reads_source src tgt idx :
  bcompat src tgt -> in_shape tgt idx -> offset (bstrides src) idx < prod src.
Proof. intros Hc H. rewrite offset_bstrides. apply ravel_lt. eapply bidx_in_shape; eauto. Qed.

(* the value does not depend on the position along a singleton leading axis: every slice is the one slice given *)
Theorem broadcast_singleton_axis_constant (A : Type) sr (buf : nat -> A) i ir :
  bview (1 :: sr) buf (i :: ir) = bview (1 :: sr) buf (0 :: ir).
Proof. unfold bview. simpl. f_equal. lia. Qed.

(* all leading axes singletons: slice idx of the broadcast stack is the single given slice, whatever idx *)
Lemma bidx_ones_app lead tr idx j : length idx = length lead -> Forall (fun s => s = 1) lead ->
  ravel (lead ++ tr) (bidx (lead ++ tr) (idx ++ j)) = ravel tr (bidx tr j).
Proof. revert idx; induction lead as [|s sr IH]; intros [|i ir] Hl Hf; simpl in *; try discriminate. reflexivity.
  inversion Hf; subst. simpl. rewrite IH by (auto; lia). lia. Qed.

Theorem broadcast_all_singleton_leading (A : Type) lead tr (buf : nat -> A) idx j :
  length idx = length lead -> Forall (fun s => s = 1) lead ->
  bview (lead ++ tr) buf (idx ++ j) = bview tr buf j.
Proof. intros Hl Hf. unfold bview. rewrite !offset_bstrides. rewrite bidx_ones_app; auto. Qed.

(* ------------------------------------------------------------------ ellipsis contractions *)
Lemma rsum_add a b (F : nat -> R) : rsum (a + b) F = (rsum a F + rsum b (fun j => F (a + j)%nat))%R.
Proof. induction b as [|b IH]. rewrite Nat.add_0_r. cbn [rsum]. lra.
  replace (a + S b) with (S (a + b)) by lia. cbn [rsum]. rewrite IH. lra. Qed.

Lemma rsum_mul n m (F : nat -> R) : rsum (n * m) F = rsum n (fun i => rsum m (fun j => F (i * m + j)%nat)).
Proof. induction n as [|n IH]. reflexivity.
  replace (S n * m) with (n * m + m) by lia. rewrite rsum_add, IH. cbn [rsum]. reflexivity. Qed.

Lemma tsum_ext_RO tr (g g' : list nat -> R) : (forall j, g j = g' j) -> tsum RO tr g = tsum RO tr g'.
Proof. revert g g'; induction tr as [|s r IH]; intros g g' H; cbn [tsum]. apply H.
  etransitivity; [apply bsum_RO|]. symmetry. etransitivity; [apply bsum_RO|]. symmetry.
  apply rsum_ext. intros i _. apply IH. intros j. apply H. Qed.

(* a flat sum over prod tr consecutive elements is the nested sum over the multi-index *)
Lemma rsum_flat_nested tr (G : nat -> R) : rsum (prod tr) G = tsum RO tr (fun j => G (ravel tr j)).
Proof. revert G; induction tr as [|s r IH]; intros G; cbn [prod tsum ravel].
  - cbn [rsum]. lra.
  - rewrite rsum_mul. symmetry. etransitivity; [apply bsum_RO|]. symmetry.
    apply rsum_ext. intros i _. rewrite (IH (fun p => G (i * prod r + p)%nat)).
    apply tsum_ext_RO. intros j. reflexivity. Qed.

(* einsum('...<tr> -> ...') on the flat buffer of the stack, at the flat position of leading index idx,
   is the nested contraction of slice idx alone *)
Theorem ellipsis_sum_slices lead tr (f : nat -> R) idx : length idx = length lead ->
  esum_flat RO (prod tr) f (ravel lead idx) = tsum RO tr (slice lead tr f idx).
Proof. intros Hl. unfold esum_flat. etransitivity; [apply bsum_RO|].
  rewrite (rsum_flat_nested tr (fun p => f (ravel lead idx * prod tr + p)%nat)).
  apply tsum_ext_RO. intros j. unfold slice. rewrite ravel_app by auto. reflexivity. Qed.

(* two operands with different trailing shapes (e.g. '...n,...nd->...d'): the stack's contraction at idx only reads
   the two slices at idx *)
Theorem einsum2_slices lead tx ty tr ax ay (x y : nat -> R) idx :
  einsum2_stack RO lead tx ty tr ax ay x y idx = einsum2_slice RO tx ty tr ax ay (slice lead tx x idx) (slice lead ty y idx).
Proof. reflexivity. Qed.
(* ... and those slices are contiguous blocks of the stacked buffers *)
Theorem slice_is_block (A : Type) lead tr (buf : nat -> A) idx j : length idx = length lead ->
  slice lead tr buf idx j = buf (ravel lead idx * prod tr + ravel tr j).
Proof. intros Hl. unfold slice. rewrite ravel_app by auto. reflexivity. Qed.

(* ------------------------------------------------------------------ the slice law of the EM loop *)
(* generic form: any stack-level E/M and slice-level E'/M' with the two one-step hypotheses, restriction to index b *)
Section FitSlice.
Variables ThetaS GammaS Theta Gamma : Type.
Variables (ES : ThetaS -> GammaS) (MS : GammaS -> ThetaS) (E : Theta -> Gamma) (M : Gamma -> Theta).
Variables (at_t : ThetaS -> Theta) (at_g : GammaS -> Gamma).      (* "restricted to leading index b" *)
Hypothesis HM : forall g, at_t (MS g) = M (at_g g).
Hypothesis HE : forall t, at_g (ES t) = E (at_t t).
Theorem fit_slice n g0 : at_t (fit ES MS n g0) = fit E M n (at_g g0).
Proof.
  assert (H := fit_simulation ThetaS GammaS Theta Gamma ES MS E M (fun g g' => at_g g = g') (fun t t' => at_t t = t')).
  apply H; auto.
  - intros g g' <-. apply HM.
  - intros t t' <-. apply HE. Qed.
Theorem fit_from_slice n t : at_t (fit_from ES MS n t) = fit_from E M n (at_t t).
Proof.
  assert (H := fit_from_simulation ThetaS GammaS Theta Gamma ES MS E M (fun g g' => at_g g = g') (fun t t' => at_t t = t')).
  apply H; auto.
  - intros g g' <-. apply HM.
  - intros u u' <-. apply HE. Qed.
End FitSlice.

(* structural form: a stack that is a family of slices (index-function model, weights tied inside a slice) *)
Section FitFamily.
Variables Ix Theta Gamma : Type.
Variables (E : Ix -> Theta -> Gamma) (M : Ix -> Gamma -> Theta).
Definition Estack (t : Ix -> Theta) : Ix -> Gamma := fun b => E b (t b).
Definition Mstack (g : Ix -> Gamma) : Ix -> Theta := fun b => M b (g b).
Theorem fit_slice_family n g0 b : fit Estack Mstack n g0 b = fit (E b) (M b) n (g0 b).
Proof. apply (fit_slice (Ix -> Theta) (Ix -> Gamma) Theta Gamma Estack Mstack (E b) (M b) (fun t => t b) (fun g => g b));
  reflexivity. Qed.
End FitFamily.

(* flat-buffer form: E and M implemented as reshape(-1, ...) pipelines of per-slice routines e, m that only read
   entries inside their shape; trT / trG = trailing shapes of the parameter / E-step tensors *)
Section FitFlat.
Variables A G : Type.
Variables (lead trT trG : list nat).
Variables (e : (list nat -> A) -> list nat -> G) (m : (list nat -> G) -> list nat -> A).
Hypothesis e_local : forall u v, (forall j, in_shape trT j -> u j = v j) -> forall j', in_shape trG j' -> e u j' = e v j'.
Hypothesis m_local : forall u v, (forall j, in_shape trG j -> u j = v j) -> forall j', in_shape trT j' -> m u j' = m v j'.
Theorem fit_slice_flat n (g0 : nat -> G) idx : length idx = length lead ->
  forall j, in_shape trT j ->
  slice lead trT (fit (batched trT trG e) (batched trG trT m) n g0) idx j = fit e m n (slice lead trG g0 idx) j.
Proof. intros Hl.
  assert (H := fit_simulation (nat -> A) (nat -> G) (list nat -> A) (list nat -> G)
                 (batched trT trG e) (batched trG trT m) e m
                 (fun g g' => forall j, in_shape trG j -> slice lead trG g idx j = g' j)
                 (fun t t' => forall j, in_shape trT j -> slice lead trT t idx j = t' j)).
  apply H.
  - intros g g' Hg j Hj. unfold slice at 1. rewrite (batched_slice G A lead trG trT m g idx j Hl Hj).
    apply m_local; auto.
  - intros t t' Ht j Hj. unfold slice at 1. rewrite (batched_slice A G lead trT trG e t idx j Hl Hj).
    apply e_local; auto.
  - intros j _. reflexivity. Qed.
End FitFlat.

(* an initial affiliation with singleton leading axes, broadcast (a stride-0 view), starts the same trajectory as the
   materialised repeated one, for every M-step that only reads entries inside the affiliation shape *)
Theorem fit_broadcast_init_is_repeated (Theta A : Type) (E : Theta -> (list nat -> A)) (M : (list nat -> A) -> Theta)
    src tgt (buf : nat -> A) n :
  (forall u v, (forall idx, in_shape tgt idx -> u idx = v idx) -> M u = M v) ->
  fit E M n (bview src buf) = fit E M n (fun idx => repeat_buf src tgt buf (ravel tgt idx)).
Proof. intros HMl. unfold fit. f_equal. apply HMl. intros idx H. apply broadcast_singleton_is_repeat; auto. Qed.
