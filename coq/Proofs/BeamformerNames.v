(* Proofs/BeamformerNames.v -- C13: get_bf_vector's name grammar.  Discrete: by computation over the finite
   name table, plus an inductive argument for the infinite family ch<digits>. *)
From Coq Require Import Lia List String Ascii Bool Arith DecimalString DecimalNat.
From PB Require Import Ops Model.Beamformer.

(* ======================= name grammar ======================= *)
Section Names.
Local Open Scope string_scope.
Variables (Mat Vec : Type).
Variables (f_pca : Mat -> Vec) (f_gev_atf : Mat -> Mat -> Vec) (f_mvdr : Vec -> Mat -> Vec)
          (f_rank1_pca : Mat -> Mat) (f_rank1_gev : Mat -> Mat -> Mat)
          (f_souden f_gev f_wmwf : Mat -> Mat -> Vec) (f_unit : nat -> Mat -> Vec)
          (f_ban : Vec -> Mat -> Vec).
Notation GET := (get_bf_vector Mat Vec f_pca f_gev_atf f_mvdr f_rank1_pca f_rank1_gev f_souden f_gev f_wmwf f_unit f_ban).
Notation COMPOSE := (compose Mat Vec f_pca f_gev_atf f_mvdr f_rank1_pca f_rank1_gev f_souden f_gev f_wmwf f_unit f_ban).

(* every name of the table dispatches to the composition it spells, for arbitrary primitives *)
Theorem bf_name_table_dispatch (Px Pn : Mat) :
  forall e, In e bf_name_table -> GET (fst e) Px Pn = Some (COMPOSE (snd e) Px Pn).
Proof.
  intros e H. vm_compute in H.
  repeat (destruct H as [<-|H]; [vm_compute; reflexivity|]). contradiction.
Qed.

(* ---- the family ch<digits> for every channel number ---- *)
Lemma all_digits_uint d : all_digits (NilEmpty.string_of_uint d) = true.
Proof. induction d; cbn [NilEmpty.string_of_uint all_digits]; try rewrite IHd; reflexivity. Qed.
Lemma to_uint_nonnil n : Nat.to_uint n <> Decimal.Nil.
Proof. intros E. pose proof (Unsigned.of_to n) as H. rewrite E in H. cbn in H. subst n. discriminate E. Qed.
Lemma isdigit_str_of_nat n : str_isdigit (str_of_nat n) = true.
Proof. unfold str_isdigit, str_of_nat. pose proof (to_uint_nonnil n). pose proof (all_digits_uint (Nat.to_uint n)).
  destruct (Nat.to_uint n); try contradiction; exact H0. Qed.
Lemma tail_mul_10 a : Nat.tail_mul 10 a = 10 * a.
Proof. apply Nat.tail_mul_spec. Qed.
Lemma nat_of_digits_uint d acc : nat_of_digits_acc (NilEmpty.string_of_uint d) acc = Nat.of_uint_acc d acc.
Proof. revert acc. induction d; intros acc; cbn [NilEmpty.string_of_uint nat_of_digits_acc Nat.of_uint_acc]; auto;
  rewrite IHd; f_equal; rewrite tail_mul_10; cbn [nat_of_ascii]; vm_compute (nat_of_ascii _ - 48); lia. Qed.
Lemma str_int_of_nat n : str_int (str_of_nat n) = n.
Proof. unfold str_int, str_of_nat. rewrite nat_of_digits_uint. apply (Unsigned.of_to n). Qed.

(* strings of digits contain no letters and no '+' *)
Lemma digit_first_ne c (s pat : string) p :
  is_digit c = true -> is_digit p = false -> prefix (String p pat) (String c s) = false.
Proof. intros Hc Hp. cbn [prefix]. destruct (ascii_dec p c) as [->|]; [congruence|reflexivity]. Qed.
Lemma digit_eqb_ne c (s pat : string) p :
  is_digit c = true -> is_digit p = false -> String.eqb (String c s) (String p pat) = false.
Proof. intros Hc Hp. cbn [String.eqb]. destruct (Ascii.eqb_spec c p) as [->|]; [congruence|reflexivity]. Qed.
Lemma digits_no_lcmv s : all_digits s = true -> str_contains "lcmv" s = false.
Proof. induction s as [|c s IH]; intros H; [reflexivity|]. cbn [all_digits] in H. apply andb_prop in H as [Hc Hs].
  cbn [str_contains]. rewrite (digit_first_ne c s "cmv" "l" Hc eq_refl). auto. Qed.
Lemma digits_no_ban_suffix s : all_digits s = true -> str_endswith s "+ban" = false.
Proof. induction s as [|c s IH]; intros H; [reflexivity|]. cbn [all_digits] in H. apply andb_prop in H as [Hc Hs].
  cbn [str_endswith]. rewrite (digit_eqb_ne c s "ban" "+" Hc eq_refl). auto. Qed.

Notation CORE := (bf_core Mat Vec f_pca f_gev_atf f_mvdr f_rank1_pca f_rank1_gev f_souden f_gev f_wmwf f_unit).
Lemma bf_core_ch (s : string) (Px Pn : Mat) :
  str_isdigit s = true -> CORE ("ch" ++ s) Px Pn = Some (f_unit (str_int s) Px).
Proof.
  intros Hd. unfold bf_core. cbn [append String.eqb Ascii.eqb Bool.eqb str_in existsb orb str_contains prefix str_drop andb].
  rewrite Hd. destruct (ascii_dec "c" "c"); [|congruence]. destruct (ascii_dec "h" "h"); [|congruence].
  replace (prefix "" s) with true by (destruct s; reflexivity). reflexivity.
Qed.

Theorem bf_ch_family (n : nat) (Px Pn : Mat) :
  GET ("ch" ++ str_of_nat n) Px Pn = Some (f_unit n Px).
Proof.
  pose proof (isdigit_str_of_nat n) as Hd. pose proof (str_int_of_nat n) as Hi.
  set (s := str_of_nat n) in *.
  assert (Ha : all_digits s = true). { unfold str_isdigit in Hd. destruct s; [discriminate|exact Hd]. }
  unfold get_bf_vector.
  assert (E0 : str_contains "lcmv" ("ch" ++ s) = false).
  { cbn [append str_contains prefix].
    replace (if ascii_dec "l" "c" then _ else false) with false by reflexivity.
    replace (if ascii_dec "l" "h" then prefix "cmv" s else false) with false by reflexivity.
    apply digits_no_lcmv; auto. }
  assert (E2 : str_endswith ("ch" ++ s) "+ban" = false).
  { cbn [append str_endswith String.eqb Ascii.eqb Bool.eqb]. apply digits_no_ban_suffix; auto. }
  rewrite E0, E2, (bf_core_ch s Px Pn Hd), Hi. reflexivity.
Qed.

(* ... and with the '+ban' suffix *)
Lemma length_app (a b : string) : String.length (a ++ b) = String.length a + String.length b.
Proof. induction a; cbn [append String.length Nat.add]; [reflexivity | rewrite IHa; reflexivity]. Qed.
Lemma str_take_app (a b : string) : str_take (String.length a) (a ++ b) = a.
Proof. induction a; cbn [append String.length str_take]. destruct b; reflexivity. rewrite IHa. reflexivity. Qed.
Lemma drop_right_app (a b : string) : str_drop_right (a ++ b) (String.length b) = a.
Proof. unfold str_drop_right. rewrite length_app. replace (String.length a + String.length b - String.length b) with (String.length a) by lia.
  apply str_take_app. Qed.
Lemma endswith_app (a suf : string) : str_endswith (a ++ suf) suf = true.
Proof. induction a; cbn [append str_endswith].
  - destruct suf; cbn [str_endswith]; rewrite String.eqb_refl; reflexivity.
  - destruct (String.eqb (String a (a0 ++ suf)) suf); auto. Qed.
Lemma digits_ban_no_lcmv s : all_digits s = true -> str_contains "lcmv" (s ++ "+ban") = false.
Proof. induction s as [|c s IH]; intros H; [reflexivity|]. cbn [all_digits] in H. apply andb_prop in H as [Hc Hs].
  cbn [append str_contains]. rewrite (digit_first_ne c (s ++ "+ban") "cmv" "l" Hc eq_refl). auto. Qed.

Theorem bf_ch_family_ban (n : nat) (Px Pn : Mat) :
  GET ("ch" ++ str_of_nat n ++ "+ban") Px Pn = Some (f_ban (f_unit n Px) Pn).
Proof.
  pose proof (isdigit_str_of_nat n) as Hd. pose proof (str_int_of_nat n) as Hi.
  set (s := str_of_nat n) in *.
  assert (Ha : all_digits s = true). { unfold str_isdigit in Hd. destruct s; [discriminate|exact Hd]. }
  unfold get_bf_vector.
  assert (E0 : str_contains "lcmv" ("ch" ++ s ++ "+ban") = false).
  { cbn [append str_contains prefix].
    replace (if ascii_dec "l" "c" then _ else false) with false by reflexivity.
    replace (if ascii_dec "l" "h" then prefix "cmv" (s ++ "+ban") else false) with false by reflexivity.
    apply digits_ban_no_lcmv; auto. }
  assert (E2 : str_endswith ("ch" ++ s ++ "+ban") "+ban" = true).
  { change ("ch" ++ s ++ "+ban") with (("ch" ++ s) ++ "+ban"). apply endswith_app. }
  assert (E3 : str_drop_right ("ch" ++ s ++ "+ban") 4 = "ch" ++ s).
  { change ("ch" ++ s ++ "+ban") with (("ch" ++ s) ++ "+ban"). apply (drop_right_app ("ch" ++ s) "+ban"). }
  rewrite E0, E2, E3, (bf_core_ch s Px Pn Hd), Hi. reflexivity.
Qed.
End Names.

(* the recorded structure of every table name (what the correspondence check compares against) *)
Theorem bf_name_table_parse : forall e, In e bf_name_table -> parse_bf (fst e) = Some (snd e).
Proof. intros e H. vm_compute in H. repeat (destruct H as [<-|H]; [vm_compute; reflexivity|]). contradiction. Qed.
