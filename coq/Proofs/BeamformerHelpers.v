(* Proofs/BeamformerHelpers.v -- C13: apply_beamforming_vector is w^H x; phase_correction keeps magnitudes and
   aligns consecutive bins for every leading index.  Instance RO. *)
From Coq Require Import Reals Lra Lia.
From Coquelicot Require Import Coquelicot.
From PB Require Import Ops CLin Model.Beamformer Proofs.Beamformer Proofs.BeamformerEig.
Open Scope C_scope.

Theorem apply_bf_is_inner D (w : vec) (x : nat -> nat -> C) t :
  apply_bf RO D w x t = dot D w (fun a => x a t).
Proof. unfold apply_bf, dot. rewrite csumO_RO. reflexivity. Qed.

(* ---- unit phasor: exp(1j * angle(s)) = s / |s|, and 1 at s = 0 ---- *)
Lemma phasor_RO_zero : phasor RO (RtoC 0) = RtoC 1.
Proof. unfold phasor. rewrite cabs2_RO, Cmod_0. cbn [oleb o0 RO].
  assert (E : Rleb (0 * 0) 0 = true) by (apply Rleb_true; lra). rewrite E. reflexivity. Qed.
Lemma phasor_RO_nz (s : C) : s <> 0 -> phasor RO s = s / RtoC (Cmod s).
Proof. intros Hs. pose proof (proj1 (Cmod_gt_0 s) Hs) as Hm. unfold phasor. rewrite cabs2_RO, cabs_RO. cbn [oleb o0 oinv RO].
  assert (E : Rleb (Cmod s * Cmod s) 0 = false) by (apply Rleb_false; nra). rewrite E.
  rewrite cscale_RO, RtoC_inv by lra. unfold Cdiv. asC. ring. Qed.
Lemma C_zero_dec (s : C) : {s = 0} + {s <> 0}.
Proof. destruct s as [a b]. destruct (Req_EM_T a 0), (Req_EM_T b 0); subst.
  left; reflexivity. all: right; intro H; inversion H; contradiction. Qed.
Lemma Cmod_phasor (s : C) : Cmod (phasor RO s) = 1%R.
Proof. destruct (C_zero_dec s) as [->|Hs]. rewrite phasor_RO_zero. apply Cmod_1.
  rewrite phasor_RO_nz by auto. pose proof (proj1 (Cmod_gt_0 s) Hs).
  rewrite Cmod_div by (apply RtoC_neq0; lra). rewrite Cmod_R, Rabs_pos_eq by lra. field. lra. Qed.
Lemma conj_phasor_mul (s : C) : Cconj (phasor RO s) * s = RtoC (Cmod s).
Proof. destruct (C_zero_dec s) as [->|Hs]. rewrite Cmod_0. ring.
  rewrite phasor_RO_nz by auto. pose proof (proj1 (Cmod_gt_0 s) Hs).
  assert (Hm : RtoC (Cmod s) <> 0) by (apply RtoC_neq0; lra).
  unfold Cdiv. rewrite Cconj_mult, Cconj_inv, Cconj_R.
  transitivity (Cconj s * s * / RtoC (Cmod s)). ring. rewrite conj_mul_self, RtoC_mult. field. exact Hm. Qed.

Section Phase.
Variable D : nat.
Variable w : nat -> vec.                                   (* w f d : bin f, sensor d, ONE leading index *)

Lemma pc_s_RO g : pc_s RO D w g = dot D (w (S g)) (w g).
Proof. unfold pc_s. apply bf_dot_RO. Qed.
Lemma Cmod_pc_cum f : Cmod (pc_cum RO D w f) = 1%R.
Proof. induction f; cbn [pc_cum]. apply Cmod_1. bridge. rewrite Cmod_mult, IHf, Cmod_phasor. ring. Qed.
Lemma phase_corr_RO f d : phase_corr RO D w f d = pc_cum RO D w f * w f d.
Proof. destruct f; unfold phase_corr. cbn [pc_cum]. bridge. asC. ring. bridge. asC. ring. Qed.

Theorem phase_corr_magnitudes f d : Cmod (phase_corr RO D w f d) = Cmod (w f d).
Proof. rewrite phase_corr_RO, Cmod_mult, Cmod_pc_cum. ring. Qed.

(* out_{f+1}^H out_f = |w_{f+1}^H w_f|: real and non-negative *)
Theorem phase_corr_aligned f :
  dot D (phase_corr RO D w (S f)) (phase_corr RO D w f) = RtoC (Cmod (dot D (w (S f)) (w f))).
Proof.
  rewrite (dot_ext D _ (fun d => pc_cum RO D w (S f) * w (S f) d) _ (fun d => pc_cum RO D w f * w f d))
    by (intros; apply phase_corr_RO).
  rewrite dot_scal_l, dot_scal_r. cbn [pc_cum]. bridge. rewrite pc_s_RO. set (s := dot D (w (S f)) (w f)).
  rewrite Cconj_mult.
  transitivity ((Cconj (pc_cum RO D w f) * pc_cum RO D w f) * (Cconj (phasor RO s) * s)). ring.
  rewrite conj_mul_self, Cmod_pc_cum, conj_phasor_mul. rewrite Rmult_1_r. ring.
Qed.
Theorem phase_corr_aligned_real f :
  snd (dot D (phase_corr RO D w (S f)) (phase_corr RO D w f)) = 0%R /\
  (0 <= fst (dot D (phase_corr RO D w (S f)) (phase_corr RO D w f)))%R.
Proof. rewrite phase_corr_aligned. simpl. split; [reflexivity | apply Cmod_ge_0]. Qed.
(* the first bin is untouched *)
Theorem phase_corr_first d : phase_corr RO D w 0 d = w 0%nat d.
Proof. reflexivity. Qed.
End Phase.

(* stacks: the result at leading index l is the result on slice l, hence aligned for every leading index *)
Theorem phase_corr_stack_slices D (w : nat -> nat -> vec) l f d :
  phase_corr_stack RO D w l f d = phase_corr RO D (w l) f d.
Proof. reflexivity. Qed.
Theorem phase_corr_stack_aligned D (w : nat -> nat -> vec) l f :
  dot D (phase_corr_stack RO D w l (S f)) (phase_corr_stack RO D w l f)
  = RtoC (Cmod (dot D (w l (S f)) (w l f))).
Proof. exact (phase_corr_aligned D (w l) f). Qed.
