(* Proofs/Relabel.v -- C05: mixture training is equivariant under relabelling of the classes.  Instance RO.
   sigma : nat -> nat is a permutation of the class indices 0..K-1 (is_perm).  Reductions over the class axis (sum,
   maximum) do not depend on the labelling; the posterior column, every weight rule and the class-wise M-step commute
   with sigma; by simulation (Proofs/EM.v) so does the whole EM loop of Model/Mixture.v for every iteration count. *)
From Coq Require Import Reals Lra Lia List Bool Permutation FunctionalExtensionality.
From Coquelicot Require Import Coquelicot.
From PB Require Import Ops CLin Model.EM Model.Posterior Model.Trainers Model.Mixture Proofs.EM Proofs.Posterior.
Import ListNotations.
Open Scope R_scope.

(* ------------------------------------------------------------------ permutations of the class indices *)
Definition is_perm (K : nat) (sigma : nat -> nat) : Prop := Permutation (map sigma (seq 0 K)) (seq 0 K).

Lemma perm_range K sigma k : is_perm K sigma -> (k < K)%nat -> (sigma k < K)%nat.
Proof. intros H Hk. assert (In (sigma k) (seq 0 K)).
  { eapply Permutation_in; [exact H|]. apply in_map. apply in_seq. lia. }
  apply in_seq in H0. lia. Qed.
Lemma perm_surj K sigma j : is_perm K sigma -> (j < K)%nat -> exists k, (k < K)%nat /\ sigma k = j.
Proof. intros H Hj. assert (In j (map sigma (seq 0 K))).
  { eapply Permutation_in; [apply Permutation_sym; exact H|]. apply in_seq. lia. }
  apply in_map_iff in H0. destruct H0 as [k [E Hin]]. exists k. apply in_seq in Hin. split; [lia|auto]. Qed.
Lemma is_perm_id K : is_perm K (fun k => k).
Proof. unfold is_perm. rewrite map_id. apply Permutation_refl. Qed.

(* ------------------------------------------------------------------ class-axis reductions *)
Definition rsuml (l : list R) : R := fold_right Rplus 0 l.
Lemma rsuml_perm l l' : Permutation l l' -> rsuml l = rsuml l'.
Proof. induction 1; simpl; lra. Qed.
Lemma rsuml_app a b : rsuml (a ++ b) = rsuml a + rsuml b.
Proof. induction a; simpl; [lra| rewrite IHa; lra]. Qed.
Lemma rsum_list n f : rsum n f = rsuml (map f (seq 0 n)).
Proof. induction n; [reflexivity|]. cbn [rsum]. rewrite seq_S, map_app, rsuml_app, <- IHn. simpl. lra. Qed.

(* the sum over the class axis does not depend on the labelling *)
Theorem rsum_relabel K sigma (f : nat -> R) : is_perm K sigma -> rsum K (fun k => f (sigma k)) = rsum K f.
Proof. intros H. rewrite !rsum_list. rewrite <- (map_map sigma f). apply rsuml_perm. apply Permutation_map. exact H. Qed.

(* neither does the maximum *)
Theorem bmax_relabel K' sigma (f : nat -> R) : is_perm (S K') sigma ->
  bmax RO K' (fun k => f (sigma k)) = bmax RO K' f.
Proof. intros H. apply Rle_antisym.
  - destruct (bmax_attained K' (fun k => f (sigma k))) as [k [Hk E]]. rewrite E.
    apply bmax_ge. pose proof (perm_range (S K') sigma k H). lia.
  - destruct (bmax_attained K' f) as [j [Hj E]]. rewrite E.
    destruct (perm_surj (S K') sigma j H) as [k [Hk Es]]. lia. rewrite <- Es.
    apply (bmax_ge K' (fun k => f (sigma k)) k). lia. Qed.

(* nor does the maximum over the ACTIVE classes (source_activity_mask relabelled with the classes) *)
Theorem amax_relabel K' sigma (l : nat -> R) (b : nat -> bool) : is_perm (S K') sigma ->
  amax RO K' (fun k => l (sigma k)) (fun k => b (sigma k)) = amax RO K' l b.
Proof. intros H. unfold amax.
  destruct (amax_opt RO (fun k => l (sigma k)) (fun k => b (sigma k)) K') as [v'|] eqn:E';
  destruct (amax_opt RO l b K') as [v|] eqn:E.
  - destruct (amax_opt_some _ _ K' v' E') as [Hge' [j' [Hj' [Bj' Ej']]]].
    destruct (amax_opt_some _ _ K' v E) as [Hge [j [Hj [Bj Ej]]]].
    apply Rle_antisym.
    + rewrite <- Ej'. apply Hge; auto. pose proof (perm_range (S K') sigma j' H). lia.
    + rewrite <- Ej. destruct (perm_surj (S K') sigma j H) as [k [Hk Es]]. lia. rewrite <- Es.
      apply Hge'. lia. rewrite Es. exact Bj.
  - destruct (amax_opt_some _ _ K' v' E') as [_ [j' [Hj' [Bj' _]]]].
    pose proof (perm_range (S K') sigma j' H ltac:(lia)) as Hr.
    pose proof (amax_opt_none l b K' E (sigma j') ltac:(lia)). congruence.
  - destruct (amax_opt_some _ _ K' v E) as [_ [j [Hj [Bj _]]]].
    destruct (perm_surj (S K') sigma j H) as [k [Hk Es]]. lia.
    pose proof (amax_opt_none _ _ K' E' k ltac:(lia)) as Hn. cbv beta in Hn. rewrite Es in Hn. congruence.
  - reflexivity. Qed.

(* ------------------------------------------------------------------ the posterior column *)
Section PosteriorPerm.
Variables (K' : nat) (tiny eps : R) (w l : nat -> R) (b : nat -> bool) (sigma : nat -> nat).
Hypothesis Hs : is_perm (S K') sigma.
Let w' := fun k => w (sigma k). Let l' := fun k => l (sigma k). Let b' := fun k => b (sigma k).

Lemma unnorm_perm k : unnorm RO K' w' l' b' k = unnorm RO K' w l b (sigma k).
Proof. unfold unnorm, shifted. rewrite !bmax_lmask. unfold w', l', b'. rewrite (amax_relabel K' sigma l b Hs).
  unfold lmask. rewrite (amax_relabel K' sigma l b Hs). reflexivity. Qed.
Lemma den_perm : den RO K' tiny w' l' b' = den RO K' tiny w l b.
Proof. unfold den. f_equal. rewrite !bsum_RO.
  rewrite (rsum_ext (S K') _ (fun k => unnorm RO K' w l b (sigma k))) by (intros; apply unnorm_perm).
  apply (rsum_relabel (S K') sigma (unnorm RO K' w l b) Hs). Qed.
(* posterior of the relabelled (weights, log-pdfs, mask) = relabelled posterior *)
Theorem posterior_perm k : posterior RO K' tiny w' l' b' k = posterior RO K' tiny w l b (sigma k).
Proof. unfold posterior. rewrite unnorm_perm, den_perm. reflexivity. Qed.
Theorem posterior_clipped_perm k :
  posterior_clipped RO K' tiny eps w' l' b' k = posterior_clipped RO K' tiny eps w l b (sigma k).
Proof. unfold posterior_clipped. rewrite posterior_perm. reflexivity. Qed.
End PosteriorPerm.

(* ------------------------------------------------------------------ the weight rules *)
Section WeightsPerm.
Variables (K' G : nat) (cells : nat -> nat -> nat) (s : nat -> R) (eps : R) (sigma : nat -> nat).
Hypothesis Hs : is_perm (S K') sigma.
Variable a : nat -> nat -> R.
Let a' := fun k n => a (sigma k) n.

Theorem w_mean_perm k n : w_mean RO G cells a' k n = w_mean RO G cells a (sigma k) n.
Proof. reflexivity. Qed.
Theorem w_const_perm k n : w_const RO K' a' k n = w_const RO K' a (sigma k) n.
Proof. reflexivity. Qed.
Theorem w_sal_perm k n : w_sal RO K' G cells s eps a' k n = w_sal RO K' G cells s eps a (sigma k) n.
Proof. unfold w_sal, weight_sal.
  assert (E : wnorm1 RO K' G (fun j g => a' j (cells n g)) (fun g => s (cells n g))
            = wnorm1 RO K' G (fun j g => a j (cells n g)) (fun g => s (cells n g))).
  { unfold wnorm1. rewrite !bsum_RO.
    apply (rsum_relabel (S K') sigma (fun k => oabs RO (wsum RO G (fun j g => a j (cells n g)) (fun g => s (cells n g)) k)) Hs). }
  rewrite E. reflexivity. Qed.
Theorem w_integ_perm k n : w_integ RO K' G cells s a' k n = w_integ RO K' G cells s a (sigma k) n.
Proof. unfold w_integ. f_equal. f_equal. rewrite !bsum_RO.
  apply (rsum_relabel (S K') sigma (wsum RO G (fun j g => a j (cells n g)) (fun g => s (cells n g))) Hs). Qed.
End WeightsPerm.

(* ------------------------------------------------------------------ the loop *)
(* guarded simulation: the E-steps only need to preserve the relation from states satisfying Good (used for inline
   aligners: Good = every score matrix met is tie-free) *)
Section GuardSim.
Variables Theta Gamma Theta' Gamma' : Type.
Variables (E : Theta -> Gamma) (M : Gamma -> Theta) (E' : Theta' -> Gamma') (M' : Gamma' -> Theta').
Variables (RG : Gamma -> Gamma' -> Prop) (RT : Theta -> Theta' -> Prop) (Good : Theta -> Prop).
Hypothesis HM : forall g g', RG g g' -> RT (M g) (M' g').
Hypothesis HE : forall t t', Good t -> RT t t' -> RG (E t) (E' t').
Theorem fit_from_simulation_guarded n t t' :
  (forall i, (i < n)%nat -> Good (fit_from E M i t)) -> RT t t' -> RT (fit_from E M n t) (fit_from E' M' n t').
Proof. induction n as [|n IH]; intros HG H. exact H.
  change (RT (M (E (fit_from E M n t))) (M' (E' (fit_from E' M' n t')))). apply HM, HE.
  - apply (HG n). lia.
  - apply IH; auto. Qed.
Theorem fit_simulation_guarded n g0 g0' :
  (forall i, (i < n - 1)%nat -> Good (fit_from E M i (M g0))) -> RG g0 g0' -> RT (fit E M n g0) (fit E' M' n g0').
Proof. intros HG H. unfold fit. apply fit_from_simulation_guarded; auto. Qed.
End GuardSim.

Section MixPerm.
Variables (Par : Type) (K' : nat) (tiny eps : R) (clip : bool) (b : nat -> nat -> bool).
Variable wfun : (nat -> nat -> R) -> nat -> nat -> R.
Variable mstep_c : (nat -> R) -> (nat -> R) -> Par.
Variables (logpdf_c quad_c : Par -> nat -> R).
Variable sigma : nat -> nat.
Hypothesis Hs : is_perm (S K') sigma.
(* the weight rule commutes with relabelling (w_mean_perm, w_sal_perm, w_const_perm, w_integ_perm) *)
Hypothesis wfun_perm : forall a k n, wfun (fun j m => a (sigma j) m) k n = wfun a (sigma k) n.
Let b' : nat -> nat -> bool := fun k n => b (sigma k) n.

(* gamma' = sigma . gamma  and  theta' = sigma . theta *)
Definition RGs (g g' : mgamma (T:=R)) : Prop :=
  forall k n, fst g' k n = fst g (sigma k) n /\ snd g' k n = snd g (sigma k) n.
Definition RTs (t t' : mtheta (T:=R) Par) : Prop :=
  (forall k n, fst t' k n = fst t (sigma k) n) /\ (forall k, snd t' k = snd t (sigma k)).

Let E1 := mix_E RO Par K' tiny eps clip b logpdf_c quad_c.
Let E2 := mix_E RO Par K' tiny eps clip b' logpdf_c quad_c.
Let M0 := mix_M Par wfun mstep_c.

(* per-class M-steps are applied class-wise: relabelling the affiliation (and quadratic form) relabels the fitted
   parameters, and the weights follow by wfun_perm *)
Theorem mstep_perm g g' : RGs g g' -> RTs (M0 g) (M0 g').
Proof. intros H. unfold M0, mix_M. split; cbn [fst snd].
  - intros k n. rewrite <- wfun_perm. f_equal.
    apply functional_extensionality; intros j. apply functional_extensionality; intros m. apply (H j m).
  - intros k. f_equal; apply functional_extensionality; intros m; apply (H k m). Qed.

Theorem estep_perm t t' : RTs t t' -> RGs (E1 t) (E2 t').
Proof. intros [Hw Hp] k n. unfold E1, E2, mix_E. cbn [fst snd]. split.
  - unfold mix_post.
    rewrite (functional_extensionality (fun j => fst t' j n) (fun j => fst t (sigma j) n)) by (intros j; apply Hw).
    rewrite (functional_extensionality (fun j => logpdf_c (snd t' j) n) (fun j => logpdf_c (snd t (sigma j)) n))
      by (intros j; rewrite Hp; reflexivity).
    unfold b'. destruct clip.
    + apply (posterior_clipped_perm K' tiny eps (fun j => fst t j n) (fun j => logpdf_c (snd t j) n) (fun j => b j n) sigma Hs).
    + apply (posterior_perm K' tiny (fun j => fst t j n) (fun j => logpdf_c (snd t j) n) (fun j => b j n) sigma Hs).
  - rewrite Hp. reflexivity. Qed.

(* fit n (sigma . gamma0, sigma . mask) = sigma . fit n (gamma0, mask), for every n *)
Theorem fit_perm n g0 g0' : RGs g0 g0' -> RTs (fit E1 M0 n g0) (fit E2 M0 n g0').
Proof. apply (fit_simulation _ _ _ _ E1 M0 E2 M0 RGs RTs mstep_perm estep_perm). Qed.
Theorem fit_from_perm n t t' : RTs t t' -> RTs (fit_from E1 M0 n t) (fit_from E2 M0 n t').
Proof. apply (fit_from_simulation _ _ _ _ E1 M0 E2 M0 RGs RTs mstep_perm estep_perm). Qed.
(* ... and the posteriors predict computes from the fitted models *)
Theorem predict_perm n g0 g0' : RGs g0 g0' -> RGs (E1 (fit E1 M0 n g0)) (E2 (fit E2 M0 n g0')).
Proof. intros H. apply estep_perm, fit_perm, H. Qed.

(* inline permutation aligner (or the inline alignment of the integration models): an E-step Ea that commutes with
   relabelling only from states satisfying Good (every score matrix met is tie-free, so no tie is broken by class
   order).  The statement holds along every run that stays inside Good. *)
Variables (Ea Ea' : mtheta (T:=R) Par -> mgamma (T:=R)) (Good : mtheta (T:=R) Par -> Prop).
Hypothesis HEa : forall t t', Good t -> RTs t t' -> RGs (Ea t) (Ea' t').
Theorem fit_perm_aligner n g0 g0' :
  (forall i, (i < n - 1)%nat -> Good (fit_from Ea M0 i (M0 g0))) -> RGs g0 g0' ->
  RTs (fit Ea M0 n g0) (fit Ea' M0 n g0').
Proof. apply (fit_simulation_guarded _ _ _ _ Ea M0 Ea' M0 RGs RTs Good mstep_perm HEa). Qed.
End MixPerm.

(* an aligner applied after the E-step: if it commutes with relabelling on the E-step outputs of Good states, the
   aligned E-step satisfies the hypothesis of fit_perm_aligner *)
Theorem aligned_estep_perm (Par : Type) (K' : nat) (tiny eps : R) (clip : bool) (b : nat -> nat -> bool)
    (logpdf_c quad_c : Par -> nat -> R) (sigma : nat -> nat) (align : mgamma (T:=R) -> mgamma (T:=R))
    (Good : mtheta (T:=R) Par -> Prop) :
  is_perm (S K') sigma ->
  (forall t g', Good t -> RGs sigma (mix_E RO Par K' tiny eps clip b logpdf_c quad_c t) g' ->
                RGs sigma (align (mix_E RO Par K' tiny eps clip b logpdf_c quad_c t)) (align g')) ->
  forall t t', Good t -> RTs Par sigma t t' ->
  RGs sigma (mix_E_aligned RO Par K' tiny eps clip b logpdf_c quad_c align t)
            (mix_E_aligned RO Par K' tiny eps clip (fun k n => b (sigma k) n) logpdf_c quad_c align t').
Proof. intros Hs Hal t t' HG HT. unfold mix_E_aligned. apply Hal; auto.
  apply (estep_perm Par K' tiny eps clip b logpdf_c quad_c sigma Hs t t' HT). Qed.
