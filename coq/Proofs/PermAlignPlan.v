(* Proofs/PermAlignPlan.v -- C16: the DHTV alignment plan (Model/PermAlign.v, Section Plan) covers
   every frequency bin for every F, start >= 0, 1 <= shift <= width, start + width <= F; the shipped
   512 / 1024 defaults overlap the already aligned band by at least two thirds (by computation). *)
From Coq Require Import ZArith List Lia Bool.
From PB Require Import Model.PermAlign.
Import ListNotations.
Open Scope Z_scope.
Ltac Zify.zify_post_hook ::= Z.to_euclidean_division_equations.

Lemma in_interleave x a b : In x (interleave a b) <-> In x a \/ In x b.
Proof. revert b; induction a as [|y a IH]; intros b; simpl. tauto.
  destruct b as [|z b]; simpl. tauto. rewrite IH. tauto. Qed.

Definition covers (f : Z) (g : seg) : Prop := let '(_, s, e) := g in s <= f < e.

Section PlanProofs.
Variables F start width shift main sub : Z.
Hypothesis Hstart : 0 <= start.
Hypothesis Hshift : 1 <= shift <= width.
Hypothesis HF : start + width <= F.
Local Notation n_up := (n_up F start width shift).
Local Notation n_dn := (n_dn start shift).

Theorem plan_covers f : 0 <= f < F -> exists g, In g (plan F start width shift main sub) /\ covers f g.
Proof.
  intros Hf. unfold plan.
  destruct (Z_lt_ge_dec f start) as [Hlo|Hge].
  - (* below the main segment *)
    destruct (0 <? n_dn) eqn:En.
    + apply Z.ltb_lt in En.
      assert (Hnd: n_dn = (start - shift + shift - 1) / shift /\ 0 < start - shift).
      { unfold PermAlign.n_dn in *. destruct (0 <? start - shift) eqn:E; [apply Z.ltb_lt in E; auto|lia]. }
      destruct Hnd as [Hnd Hpos].
      set (j0 := (start - 1 - f) / shift).
      set (j := Z.min j0 (n_dn - 1)).
      assert (Hj: 0 <= j < n_dn) by (unfold j, j0; nia).
      exists (sub, (if j =? n_dn - 1 then 0 else start - shift - j * shift), start - shift - j * shift + width).
      split.
      * right. apply in_interleave. right. unfold dn. apply in_map_iff. exists (Z.to_nat j).
        rewrite Z2Nat.id by lia. split; [reflexivity|]. apply in_seq. lia.
      * unfold covers. destruct (j =? n_dn - 1) eqn:Ej; [apply Z.eqb_eq in Ej|apply Z.eqb_neq in Ej].
        -- unfold j, j0 in *. nia.
        -- unfold j, j0 in *. nia.
    + apply Z.ltb_ge in En. eexists; split; [left; reflexivity|]. unfold covers.
      destruct (0 <? n_up); lia.
  - destruct (Z_lt_ge_dec f (start + width)) as [Hmid|Hhi].
    + eexists; split; [left; reflexivity|]. unfold covers. destruct (0 <? n_dn), (0 <? n_up); lia.
    + (* above the main segment *)
      destruct (0 <? n_up) eqn:En.
      * apply Z.ltb_lt in En.
        assert (Hnu: n_up = (F - width - (start + shift) + shift - 1) / shift /\ start + shift < F - width).
        { unfold PermAlign.n_up in *. destruct (start + shift <? F - width) eqn:E; [apply Z.ltb_lt in E; auto|lia]. }
        destruct Hnu as [Hnu Hlt].
        set (i0 := (f - start - shift) / shift).
        set (i := Z.min i0 (n_up - 1)).
        assert (Hi: 0 <= i < n_up) by (unfold i, i0; nia).
        exists (sub, start + shift + i * shift, if i =? n_up - 1 then F else start + shift + i * shift + width).
        split.
        -- right. apply in_interleave. left. unfold up. apply in_map_iff. exists (Z.to_nat i).
           rewrite Z2Nat.id by lia. split; [reflexivity|]. apply in_seq. lia.
        -- unfold covers. destruct (i =? n_up - 1) eqn:Ei; [apply Z.eqb_eq in Ei|apply Z.eqb_neq in Ei];
           unfold i, i0 in *; nia.
      * apply Z.ltb_ge in En. eexists; split; [left; reflexivity|]. unfold covers.
        destruct (0 <? n_dn); lia.
Qed.

(* every segment of the plan lies inside [0, F) and is non-empty *)
Theorem plan_in_range g : In g (plan F start width shift main sub) -> let '(_, s, e) := g in 0 <= s < e /\ e <= F.
Proof.
  unfold plan. intros [<-|Hin].
  - destruct (0 <? n_dn), (0 <? n_up); lia.
  - apply in_interleave in Hin as [Hin|Hin].
    + unfold up in Hin. apply in_map_iff in Hin as [i [<- Hi]]. apply in_seq in Hi.
      assert (Hn: 0 < n_up) by lia.
      assert (Hnu: n_up = (F - width - (start + shift) + shift - 1) / shift /\ start + shift < F - width).
      { unfold PermAlign.n_up in *. destruct (start + shift <? F - width) eqn:E; [apply Z.ltb_lt in E; auto|lia]. }
      destruct Hnu as [Hnu Hlt].
      destruct (Z.of_nat i =? n_up - 1) eqn:Ei; [apply Z.eqb_eq in Ei|apply Z.eqb_neq in Ei]; nia.
    + unfold dn in Hin. apply in_map_iff in Hin as [i [<- Hi]]. apply in_seq in Hi.
      assert (Hn: 0 < n_dn) by lia.
      assert (Hnd: n_dn = (start - shift + shift - 1) / shift /\ 0 < start - shift).
      { unfold PermAlign.n_dn in *. destruct (0 <? start - shift) eqn:E; [apply Z.ltb_lt in E; auto|lia]. }
      destruct Hnd as [Hnd Hpos].
      destruct (Z.of_nat i =? n_dn - 1) eqn:Ei; [apply Z.eqb_eq in Ei|apply Z.eqb_neq in Ei]; nia.
Qed.
End PlanProofs.

(* ---- the shipped defaults: each later segment overlaps the band aligned so far by >= 2/3 ---- *)
Fixpoint overlap_ok (lo hi : Z) (l : list seg) : bool :=
  match l with
  | [] => true
  | (_, s, e) :: r =>
      (2 * (e - s) <=? 3 * (Z.min e hi - Z.max s lo)) && overlap_ok (Z.min lo s) (Z.max hi e) r
  end.
Definition plan_overlap_ok (l : list seg) : bool :=
  match l with [] => true | (_, s, e) :: r => overlap_ok s e r end.

Theorem plan_defaults_overlap :
  plan_overlap_ok (plan (stft_bins 512) 70 100 20 20 2) = true /\
  plan_overlap_ok (plan (stft_bins 1024) 100 100 20 20 2) = true.
Proof. split; vm_compute; reflexivity. Qed.

(* the docstring plan of stft size 512 *)
Theorem plan_512_docstring :
  plan (stft_bins 512) 70 100 20 20 2 =
  [(20, 70, 170); (2, 90, 190); (2, 50, 150); (2, 110, 210); (2, 30, 130); (2, 130, 230); (2, 0, 110); (2, 150, 257)].
Proof. vm_compute. reflexivity. Qed.
