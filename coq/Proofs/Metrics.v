(* Proofs/Metrics.v -- C19: SI-SDR and invasive SXR identities over the real instance RO. *)
From Coq Require Import String.
From Coq Require Import Reals Lra Lia List Bool Arith Permutation.
From Coquelicot Require Import Coquelicot.
From PB Require Import Ops CLin Model.Metrics.
Import ListNotations.
Open Scope R_scope.

Lemma onat_RO_m n : onat RO n = INR n.
Proof. induction n. reflexivity. cbn [onat]. rewrite IHn. rewrite S_INR. reflexivity. Qed.

(* ------------------------------------------------------------ log10 / dB / pow10 on R *)
Definition Rlog10 (x : R) : R := ln x / ln 10.
Definition RdB (x : R) : R := 10 * Rlog10 x.
Definition Rpow10 (y : R) : R := exp (y * ln 10).

Lemma ten_RO : ten RO = 10.
Proof. unfold ten. rewrite onat_RO_m. simpl. lra. Qed.
Lemma twenty_RO : twenty RO = 20.
Proof. unfold twenty. rewrite onat_RO_m. simpl. lra. Qed.
Lemma dB_RO x : dB RO x = RdB x.
Proof. unfold dB, log10, odiv, RdB, Rlog10. cbn [omul oinv oln RO]. rewrite ten_RO. reflexivity. Qed.
Lemma pow10_RO y : pow10 RO y = Rpow10 y.
Proof. unfold pow10, Rpow10. cbn [omul oexp oln RO]. rewrite ten_RO. reflexivity. Qed.
Lemma mean_RO n f : mean RO n f = rsum n f / INR n.
Proof. unfold mean, odiv. cbn [omul oinv RO]. rewrite bsum_RO, onat_RO_m. reflexivity. Qed.
Lemma power_RO Tn x : power RO Tn x = rsum Tn (fun t => x t * x t) / INR Tn.
Proof. unfold power. rewrite mean_RO. reflexivity. Qed.
Lemma ip_RO Tn a b : ip RO Tn a b = rsum Tn (fun t => a t * b t).
Proof. unfold ip. rewrite bsum_RO. reflexivity. Qed.

Lemma ln10_pos : 0 < ln 10.
Proof. rewrite <- ln_1. apply ln_increasing; lra. Qed.
Lemma ln_div x y : 0 < x -> 0 < y -> ln (x / y) = ln x - ln y.
Proof. intros. unfold Rdiv. rewrite ln_mult; auto; [|apply Rinv_0_lt_compat; auto]. rewrite ln_Rinv; auto. Qed.
Lemma RdB_mult x y : 0 < x -> 0 < y -> RdB (x * y) = RdB x + RdB y.
Proof. intros. unfold RdB, Rlog10. pose proof ln10_pos. rewrite ln_mult by auto. field. lra. Qed.
Lemma RdB_sq c : 0 < c -> RdB (c * c) = 20 * Rlog10 c.
Proof. intros. rewrite RdB_mult by auto. unfold RdB. lra. Qed.
Lemma RdB_pow10 y : RdB (Rpow10 y) = 10 * y.
Proof. unfold RdB, Rlog10, Rpow10. pose proof ln10_pos. rewrite ln_exp. field. lra. Qed.
Lemma RdB_increasing x y : 0 < x -> x <= y -> RdB x <= RdB y.
Proof. intros Hx Hxy. unfold RdB, Rlog10. pose proof ln10_pos.
  assert (ln x <= ln y). { destruct Hxy as [Hlt | ->]; [left; apply ln_increasing; auto|lra]. }
  apply Rmult_le_compat_l; [lra|]. apply Rmult_le_compat_r; [left; apply Rinv_0_lt_compat; auto|auto]. Qed.

(* ------------------------------------------------------------ SI-SDR *)
Section SiSdrProofs.
Variable Tn : nat.
Definition rip (a b : nat -> R) : R := rsum Tn (fun t => a t * b t).

Lemma rip_scale_l c a b : rip (fun t => c * a t) b = c * rip a b.
Proof. unfold rip. rewrite <- rsum_scale_l. apply rsum_ext; intros; ring. Qed.
Lemma rip_scale_r c a b : rip a (fun t => c * b t) = c * rip a b.
Proof. unfold rip. rewrite <- rsum_scale_l. apply rsum_ext; intros; ring. Qed.
Lemma rip_nonneg a : 0 <= rip a a.
Proof. unfold rip. apply rsum_nonneg; intros. nra. Qed.
(* |e - a s|^2 = |e|^2 - 2 a <s,e> + a^2 |s|^2 *)
Lemma rip_quad s e a :
  rip (fun t => e t - a * s t) (fun t => e t - a * s t) = rip e e - 2 * a * rip s e + a * a * rip s s.
Proof. unfold rip.
  rewrite (rsum_ext Tn _ (fun t => (e t * e t + (- (2 * a)) * (s t * e t)) + (a * a) * (s t * s t))).
  2:{ intros; ring. }
  rewrite !rsum_plus, !rsum_scale_l. ring. Qed.

(* the ratio of the model, written with real sums *)
Definition r_alpha (s e : nat -> R) : R := rip s e / rip s s.
Definition r_ratio (s e : nat -> R) : R :=
  rip (fun t => r_alpha s e * s t) (fun t => r_alpha s e * s t)
  / rip (fun t => e t - r_alpha s e * s t) (fun t => e t - r_alpha s e * s t).

Lemma si_alpha_RO s e : si_alpha RO Tn s e = r_alpha s e.
Proof. unfold si_alpha, r_alpha, odiv. cbn [omul oinv RO]. rewrite !ip_RO. reflexivity. Qed.
Lemma si_ratio_RO s e : si_ratio RO Tn s e = r_ratio s e.
Proof. reflexivity. Qed.

(* the defining formula: 10 log10 (|alpha s|^2 / |s_hat - alpha s|^2), alpha = <s,s_hat>/<s,s> *)
Theorem si_sdr_def s e :
  si_sdr RO Tn s e
  = 10 * Rlog10 (rsum Tn (fun t => (r_alpha s e * s t) * (r_alpha s e * s t))
                 / rsum Tn (fun t => (e t - r_alpha s e * s t) * (e t - r_alpha s e * s t)))
  /\ r_alpha s e = rsum Tn (fun t => s t * e t) / rsum Tn (fun t => s t * s t).
Proof. split; [|reflexivity]. unfold si_sdr. rewrite dB_RO, si_ratio_RO. reflexivity. Qed.

(* alpha minimises the residual energy over all scalings of the reference *)
Theorem si_alpha_optimal s e a : 0 < rip s s ->
  rip (fun t => e t - r_alpha s e * s t) (fun t => e t - r_alpha s e * s t)
  <= rip (fun t => e t - a * s t) (fun t => e t - a * s t).
Proof. intros Hs. rewrite !rip_quad. unfold r_alpha. set (ss := rip s s) in *. set (se := rip s e).
  assert (E : ss * (a - se / ss) * (a - se / ss)
              = (- 2 * a * se + a * a * ss) - (- 2 * (se / ss) * se + se / ss * (se / ss) * ss)).
  { field. lra. }
  assert (0 <= ss * (a - se / ss) * (a - se / ss)).
  { rewrite Rmult_assoc. apply Rmult_le_pos; [lra|]. apply Rle_0_sqr. }
  lra. Qed.
(* ... and is the only minimiser *)
Theorem si_alpha_unique s e a : 0 < rip s s ->
  rip (fun t => e t - a * s t) (fun t => e t - a * s t)
  = rip (fun t => e t - r_alpha s e * s t) (fun t => e t - r_alpha s e * s t) -> a = r_alpha s e.
Proof. intros Hs. rewrite !rip_quad. unfold r_alpha. set (ss := rip s s) in *. set (se := rip s e). intros E.
  assert (E2 : ss * ((a - se / ss) * (a - se / ss)) = 0).
  { transitivity ((- 2 * a * se + a * a * ss) - (- 2 * (se / ss) * se + se / ss * (se / ss) * ss)).
    field; lra. lra. }
  apply Rmult_integral in E2. destruct E2 as [E2|E2]; [lra|].
  apply Rmult_integral in E2. destruct E2; lra. Qed.

Theorem si_ratio_scale_est s e c : c <> 0 -> rip s s <> 0 ->
  rip (fun t => e t - r_alpha s e * s t) (fun t => e t - r_alpha s e * s t) <> 0 ->
  r_ratio s (fun t => c * e t) = r_ratio s e.
Proof.
  intros Hc Hs Hn. unfold r_ratio, r_alpha in *. rewrite (rip_scale_r c s e).
  set (a := rip s e / rip s s) in *.
  replace (c * rip s e / rip s s) with (c * a) by (unfold a; field; auto).
  assert (E1: rip (fun t => c * a * s t) (fun t => c * a * s t) = c * c * rip (fun t => a * s t) (fun t => a * s t)).
  { unfold rip. rewrite <- rsum_scale_l. apply rsum_ext; intros; ring. }
  assert (E2: rip (fun t => c * e t - c * a * s t) (fun t => c * e t - c * a * s t)
              = c * c * rip (fun t => e t - a * s t) (fun t => e t - a * s t)).
  { unfold rip. rewrite <- rsum_scale_l. apply rsum_ext; intros; ring. }
  rewrite E1, E2. field. split; auto. Qed.

Theorem si_ratio_scale_ref s e c : c <> 0 -> rip s s <> 0 ->
  r_ratio (fun t => c * s t) e = r_ratio s e.
Proof.
  intros Hc Hs. unfold r_ratio, r_alpha.
  rewrite (rip_scale_l c s e), (rip_scale_l c s (fun t => c * s t)), (rip_scale_r c s s).
  set (a := rip s e / rip s s).
  assert (Ea: c * rip s e / (c * (c * rip s s)) = a / c) by (unfold a; field; auto).
  rewrite Ea.
  assert (E: forall t, a / c * (c * s t) = a * s t) by (intros; field; auto).
  f_equal; unfold rip; apply rsum_ext; intros; rewrite !E; reflexivity. Qed.

Theorem si_sdr_scale_est s e c : c <> 0 -> rip s s <> 0 ->
  rip (fun t => e t - r_alpha s e * s t) (fun t => e t - r_alpha s e * s t) <> 0 ->
  si_sdr RO Tn s (fun t => c * e t) = si_sdr RO Tn s e.
Proof. intros. unfold si_sdr. rewrite !si_ratio_RO, si_ratio_scale_est; auto. Qed.
Theorem si_sdr_scale_ref s e c : c <> 0 -> rip s s <> 0 ->
  si_sdr RO Tn (fun t => c * s t) e = si_sdr RO Tn s e.
Proof. intros. unfold si_sdr. rewrite !si_ratio_RO, si_ratio_scale_ref; auto. Qed.
End SiSdrProofs.

(* ------------------------------------------------------------ S / I / N algebra *)
Lemma sxr_harmonic_lin S I N : 0 < S -> 0 < I -> 0 < N ->
  / (S / (I + N)) = / (S / I) + / (S / N).
Proof. intros. field. repeat split; lra. Qed.
Lemma sxr_sdr_le_min_lin S I N : 0 < S -> 0 < I -> 0 < N ->
  S / (I + N) <= Rmin (S / I) (S / N).
Proof. intros. apply Rmin_glb; apply Rmult_le_compat_l; try lra; apply Rinv_le_contravar; lra. Qed.
Lemma ratio_common_scale a S X : a <> 0 -> X <> 0 -> (a * S) / (a * X) = S / X.
Proof. intros. field. split; auto. Qed.

Lemma power_scale Tn x c : power RO Tn (fun t => c * x t) = c * c * power RO Tn x.
Proof. rewrite !power_RO. rewrite (rsum_ext Tn _ (fun t => (c * c) * (x t * x t))). 2:{ intros; ring. }
  rewrite rsum_scale_l. unfold Rdiv. ring. Qed.
Lemma power_nonneg Tn x : 0 <= power RO Tn x.
Proof. rewrite power_RO. unfold Rdiv. apply Rmult_le_pos.
  apply rsum_nonneg; intros; nra.
  destruct Tn. simpl. rewrite Rinv_0. lra. left. apply Rinv_0_lt_compat. apply lt_0_INR. lia. Qed.
Lemma mean_scale n f c : mean RO n (fun k => c * f k) = c * mean RO n f.
Proof. rewrite !mean_RO. rewrite rsum_scale_l. unfold Rdiv. ring. Qed.
Lemma mean_ext n f g : (forall k, (k < n)%nat -> f k = g k) -> mean RO n f = mean RO n g.
Proof. intros H. rewrite !mean_RO. f_equal. apply rsum_ext; auto. Qed.

(* ------------------------------------------------------------ input_sxr *)
Section InputProofs.
Variables (K D : nat) (Sp : nat -> nat -> R) (Np : nat -> R).

Theorem input_harmonic avgc k d :
  0 < in_Sa RO D Sp avgc k d -> 0 < in_Ia RO K D Sp avgc k d -> 0 < in_Na RO D Np avgc d ->
  / in_sdr_lin RO K D Sp Np avgc k d
  = / in_sir_lin RO K D Sp avgc k d + / in_snr_lin RO D Sp Np avgc k d.
Proof. intros. unfold in_sdr_lin, in_sir_lin, in_snr_lin, odiv. cbn [omul oinv oadd RO].
  apply sxr_harmonic_lin; auto. Qed.

Theorem input_sdr_le_min avgc k d :
  0 < in_Sa RO D Sp avgc k d -> 0 < in_Ia RO K D Sp avgc k d -> 0 < in_Na RO D Np avgc d ->
  in_sdr_lin RO K D Sp Np avgc k d
  <= Rmin (in_sir_lin RO K D Sp avgc k d) (in_snr_lin RO D Sp Np avgc k d).
Proof. intros. unfold in_sdr_lin, in_sir_lin, in_snr_lin, odiv. cbn [omul oinv oadd RO].
  apply sxr_sdr_le_min_lin; auto. Qed.

(* the dB values returned without source averaging inherit the order *)
Theorem input_sdr_le_min_dB avgc k d :
  0 < in_Sa RO D Sp avgc k d -> 0 < in_Ia RO K D Sp avgc k d -> 0 < in_Na RO D Np avgc d ->
  in_sdr RO K D Sp Np avgc false k d
  <= Rmin (in_sir RO K D Sp avgc false k d) (in_snr RO K D Sp Np avgc false k d).
Proof. intros HS HI HN. unfold in_sdr, in_sir, in_snr, avg_src. rewrite !dB_RO.
  pose proof (input_sdr_le_min avgc k d HS HI HN) as Hle.
  assert (Hp : 0 < in_sdr_lin RO K D Sp Np avgc k d).
  { unfold in_sdr_lin, odiv. cbn [omul oinv oadd RO]. apply Rmult_lt_0_compat; auto.
    apply Rinv_0_lt_compat. lra. }
  apply Rmin_glb; apply RdB_increasing; auto.
  eapply Rle_trans; [exact Hle | apply Rmin_l]. eapply Rle_trans; [exact Hle | apply Rmin_r]. Qed.

(* scaling laws on the powers: signal powers times a, noise powers times b *)
Lemma in_I_scale a k d : in_I RO K (fun k d => a * Sp k d) k d = a * in_I RO K Sp k d.
Proof. unfold in_I. rewrite !bsum_RO, <- rsum_scale_l. apply rsum_ext; intros n Hn.
  destruct (Nat.eqb n k); cbn [o0 RO]; ring. Qed.
Lemma avg_ch_scale avgc f c d : avg_ch RO D avgc (fun d => c * f d) d = c * avg_ch RO D avgc f d.
Proof. unfold avg_ch. destruct avgc; [apply mean_scale|reflexivity]. Qed.
Lemma avg_ch_ext avgc f g d : (forall d, f d = g d) -> avg_ch RO D avgc f d = avg_ch RO D avgc g d.
Proof. intros H. unfold avg_ch. destruct avgc; [apply mean_ext; auto|auto]. Qed.
Lemma in_Sa_scale a avgc k d : in_Sa RO D (fun k d => a * Sp k d) avgc k d = a * in_Sa RO D Sp avgc k d.
Proof. unfold in_Sa. apply avg_ch_scale. Qed.
Lemma in_Ia_scale a avgc k d : in_Ia RO K D (fun k d => a * Sp k d) avgc k d = a * in_Ia RO K D Sp avgc k d.
Proof. unfold in_Ia. rewrite <- avg_ch_scale. apply avg_ch_ext. intros; apply in_I_scale. Qed.
Lemma in_Na_scale b avgc d : in_Na RO D (fun d => b * Np d) avgc d = b * in_Na RO D Np avgc d.
Proof. unfold in_Na. apply avg_ch_scale. Qed.

Theorem input_common_scale_pw a avgc k d : a <> 0 ->
  in_Ia RO K D Sp avgc k d + in_Na RO D Np avgc d <> 0 ->
  in_Ia RO K D Sp avgc k d <> 0 -> in_Na RO D Np avgc d <> 0 ->
  in_sdr_lin RO K D (fun k d => a * Sp k d) (fun d => a * Np d) avgc k d = in_sdr_lin RO K D Sp Np avgc k d /\
  in_sir_lin RO K D (fun k d => a * Sp k d) avgc k d = in_sir_lin RO K D Sp avgc k d /\
  in_snr_lin RO D (fun k d => a * Sp k d) (fun d => a * Np d) avgc k d = in_snr_lin RO D Sp Np avgc k d.
Proof. intros Ha H1 H2 H3. unfold in_sdr_lin, in_sir_lin, in_snr_lin, odiv. cbn [omul oinv oadd RO].
  rewrite in_Sa_scale, in_Ia_scale, in_Na_scale.
  rewrite <- Rmult_plus_distr_l. repeat split; apply ratio_common_scale; auto. Qed.

Theorem input_image_scale_pw a avgc k d : a <> 0 -> in_Ia RO K D Sp avgc k d <> 0 ->
  in_snr_lin RO D (fun k d => a * Sp k d) Np avgc k d = a * in_snr_lin RO D Sp Np avgc k d /\
  in_sir_lin RO K D (fun k d => a * Sp k d) avgc k d = in_sir_lin RO K D Sp avgc k d.
Proof. intros Ha HI. unfold in_sir_lin, in_snr_lin, odiv. cbn [omul oinv RO].
  rewrite in_Sa_scale, in_Ia_scale. split; [ring | apply ratio_common_scale; auto]. Qed.
End InputProofs.

(* ---- the same laws for the signals: images scaled by c, noise by c (common) or left alone ---- *)
Lemma in_S_scale Tn (img : nat -> nat -> nat -> R) c :
  in_S RO Tn (fun k d t => c * img k d t) = fun k d => c * c * in_S RO Tn img k d.
Proof. apply FunctionalExtensionality.functional_extensionality; intros k.
  apply FunctionalExtensionality.functional_extensionality; intros d. unfold in_S. apply power_scale. Qed.
Lemma in_N_scale Tn (noi : nat -> nat -> R) c :
  in_N RO Tn (fun d t => c * noi d t) = fun d => c * c * in_N RO Tn noi d.
Proof. apply FunctionalExtensionality.functional_extensionality; intros d. unfold in_N. apply power_scale. Qed.

Section InputScale.
Variables (K D Tn : nat) (img : nat -> nat -> nat -> R) (noi : nat -> nat -> R) (c : R).
Let imgc := fun k d t => c * img k d t.
Let noic := fun d t => c * noi d t.
Let Sp := in_S RO Tn img.
Let Np := in_N RO Tn noi.
Let Spc := in_S RO Tn imgc.
Let Npc := in_N RO Tn noic.

(* common rescaling of images and noise: all three linear ratios unchanged (hence all dB values) *)
Theorem input_common_scale avgc k d : c <> 0 ->
  in_Ia RO K D Sp avgc k d + in_Na RO D Np avgc d <> 0 ->
  in_Ia RO K D Sp avgc k d <> 0 -> in_Na RO D Np avgc d <> 0 ->
  in_sdr_lin RO K D Spc Npc avgc k d = in_sdr_lin RO K D Sp Np avgc k d /\
  in_sir_lin RO K D Spc avgc k d = in_sir_lin RO K D Sp avgc k d /\
  in_snr_lin RO D Spc Npc avgc k d = in_snr_lin RO D Sp Np avgc k d.
Proof. intros Hc H1 H2 H3. unfold Spc, Npc, imgc, noic. rewrite in_S_scale, in_N_scale.
  assert (c * c <> 0) by (apply Rmult_integral_contrapositive; auto).
  apply (input_common_scale_pw K D Sp Np (c * c)); auto. Qed.

Theorem input_common_scale_dB avgc avgs k d : c <> 0 ->
  (forall k, in_Ia RO K D Sp avgc k d + in_Na RO D Np avgc d <> 0) ->
  (forall k, in_Ia RO K D Sp avgc k d <> 0) -> in_Na RO D Np avgc d <> 0 ->
  in_sdr RO K D Spc Npc avgc avgs k d = in_sdr RO K D Sp Np avgc avgs k d /\
  in_sir RO K D Spc avgc avgs k d = in_sir RO K D Sp avgc avgs k d /\
  in_snr RO K D Spc Npc avgc avgs k d = in_snr RO K D Sp Np avgc avgs k d.
Proof. intros Hc H1 H2 H3. unfold in_sdr, in_sir, in_snr, avg_src.
  assert (E : forall k, in_sdr_lin RO K D Spc Npc avgc k d = in_sdr_lin RO K D Sp Np avgc k d /\
      in_sir_lin RO K D Spc avgc k d = in_sir_lin RO K D Sp avgc k d /\
      in_snr_lin RO D Spc Npc avgc k d = in_snr_lin RO D Sp Np avgc k d).
  { intros k'. apply input_common_scale; auto. }
  destruct avgs.
  - repeat split; apply mean_ext; intros k' _; destruct (E k') as [E1 [E2 E3]]; rewrite ?E1, ?E2, ?E3; reflexivity.
  - destruct (E k) as [E1 [E2 E3]]. rewrite E1, E2, E3. auto. Qed.

(* images scaled by c, noise untouched: SNR (linear) is multiplied by c^2, SIR unchanged *)
Theorem input_image_scale avgc k d : c <> 0 -> in_Ia RO K D Sp avgc k d <> 0 ->
  in_snr_lin RO D Spc Np avgc k d = c * c * in_snr_lin RO D Sp Np avgc k d /\
  in_sir_lin RO K D Spc avgc k d = in_sir_lin RO K D Sp avgc k d.
Proof. intros Hc HI. unfold Spc, imgc. rewrite in_S_scale.
  assert (c * c <> 0) by (apply Rmult_integral_contrapositive; auto).
  apply (input_image_scale_pw K D Sp Np (c * c)); auto. Qed.

(* in dB: SNR moves by exactly 20 log10 c *)
Theorem input_image_scale_dB avgc k d : 0 < c ->
  0 < in_Sa RO D Sp avgc k d -> 0 < in_Na RO D Np avgc d ->
  in_snr RO K D Spc Np avgc false k d = in_snr RO K D Sp Np avgc false k d + 20 * Rlog10 c.
Proof. intros Hc HS HN. unfold in_snr, avg_src. rewrite !dB_RO.
  unfold in_snr_lin, odiv, Spc, imgc. cbn [omul oinv RO]. rewrite in_S_scale, in_Sa_scale.
  assert (0 < / in_Na RO D Np avgc d) by (apply Rinv_0_lt_compat; auto).
  rewrite Rmult_assoc. rewrite RdB_mult; [| nra | apply Rmult_lt_0_compat; auto].
  rewrite RdB_sq by auto. fold Sp. lra. Qed.

(* source-averaged SNR in dB also moves by exactly 20 log10 c (mean of shifted values) *)
Theorem input_image_scale_dB_avg avgc d : 0 < c -> (0 < K)%nat ->
  (forall k, 0 < in_Sa RO D Sp avgc k d) -> 0 < in_Na RO D Np avgc d ->
  in_snr RO K D Spc Np avgc true 0 d = in_snr RO K D Sp Np avgc true 0 d + 20 * Rlog10 c.
Proof. intros Hc HK HS HN. unfold in_snr, avg_src.
  rewrite (mean_ext K _ (fun k => dB RO (in_snr_lin RO D Sp Np avgc k d) + 20 * Rlog10 c)).
  2:{ intros k _. pose proof (input_image_scale_dB avgc k d Hc (HS k) HN) as E.
      unfold in_snr, avg_src in E. exact E. }
  rewrite !mean_RO, rsum_plus.
  assert (Ec : forall n x, rsum n (fun _ => x) = INR n * x).
  { induction n; intros; cbn [rsum]. simpl; ring. rewrite IHn, S_INR. ring. }
  rewrite Ec. field. apply not_0_INR. lia. Qed.
End InputScale.

(* ------------------------------------------------------------ get_snr / set_snr *)
Theorem set_get_snr_lin PX PN snr : 0 < PX -> 0 < PN ->
  let cur := RdB (PX / PN) in let f := Rpow10 (- (snr - cur) / 20) in
  RdB (PX / (f * f * PN)) = snr.
Proof. intros HX HN cur f. pose proof ln10_pos as H10.
  assert (Hf: 0 < f) by apply exp_pos.
  assert (Hlf: ln f = - (snr - cur) / 20 * ln 10) by (unfold f, Rpow10; apply ln_exp).
  assert (Ec: cur = 10 * ((ln PX - ln PN) / ln 10)) by (unfold cur, RdB, Rlog10; rewrite ln_div by lra; reflexivity).
  assert (Hff: 0 < f*f) by (apply Rmult_lt_0_compat; auto).
  assert (HffN: 0 < f*f*PN) by (apply Rmult_lt_0_compat; auto).
  unfold RdB, Rlog10. rewrite ln_div by auto. rewrite (ln_mult (f*f) PN) by auto. rewrite (ln_mult f f) by auto.
  rewrite Hlf. rewrite Ec. field. lra. Qed.

Theorem set_get_snr n (x nz : nat -> R) snr :
  0 < power RO n x -> 0 < power RO n nz ->
  get_snr RO n x (set_snr_noise RO n x nz snr) = snr.
Proof. intros HX HN. unfold get_snr at 1. rewrite dB_RO. unfold odiv. cbn [omul oinv RO].
  unfold set_snr_noise.
  rewrite (power_RO n (fun t => omul RO (nz t) _)). cbn [omul RO].
  set (f := snr_factor RO snr (get_snr RO n x nz)).
  rewrite (rsum_ext n _ (fun t => (f * f) * (nz t * nz t))). 2:{ intros; ring. }
  rewrite rsum_scale_l.
  replace (f * f * rsum n (fun t => nz t * nz t) / INR n) with (f * f * power RO n nz)
    by (rewrite power_RO; unfold Rdiv; ring).
  assert (Ef : f = Rpow10 (- (snr - RdB (power RO n x / power RO n nz)) / 20)).
  { unfold f, snr_factor. rewrite pow10_RO. unfold get_snr. rewrite dB_RO. unfold odiv, osub.
    cbn [omul oinv oadd oopp RO]. rewrite twenty_RO. reflexivity. }
  rewrite Ef. apply set_get_snr_lin; auto. Qed.

(* ------------------------------------------------------------ selections = itertools.permutations(range(Kt), r) *)
Lemma in_remove_iff (x y : nat) l : In y (remove Nat.eq_dec x l) <-> In y l /\ y <> x.
Proof. split. apply in_remove. intros [H1 H2]. apply in_in_remove; auto. Qed.
Lemma NoDup_remove_nat x (l : list nat) : NoDup l -> NoDup (remove Nat.eq_dec x l).
Proof. induction 1; simpl. constructor. destruct (Nat.eq_dec x x0); auto. constructor; auto.
  intros Hin. apply in_remove in Hin. tauto. Qed.

Theorem sels_spec r avail l : NoDup avail ->
  (In l (sels r avail) <-> (length l = r /\ NoDup l /\ incl l avail)).
Proof.
  revert avail l. induction r as [|r IH]; intros avail l Hnd; cbn [sels].
  - split.
    + intros [<-|[]]. repeat split. constructor. intros x [].
    + intros [Hl _]. destruct l; [left; reflexivity | discriminate].
  - rewrite in_flat_map. split.
    + intros [x [Hx Hin]]. apply in_map_iff in Hin as [q [<- Hq]].
      apply IH in Hq; [|apply NoDup_remove_nat; auto]. destruct Hq as [Hl [Hn Hi]].
      repeat split. simpl; lia.
      constructor; auto. intros Hxq. apply Hi in Hxq. apply in_remove in Hxq. tauto.
      intros y [<-|Hy]; auto. apply Hi in Hy. apply in_remove in Hy. tauto.
    + intros [Hl [Hn Hi]]. destruct l as [|x q]; [discriminate|].
      exists x. split. apply Hi; left; auto.
      apply in_map. apply IH. apply NoDup_remove_nat; auto.
      inversion Hn; subst. repeat split. simpl in Hl; lia. auto.
      intros y Hy. apply in_in_remove. intros ->; auto. apply Hi; right; auto.
Qed.

Lemma sels_nonempty r avail : NoDup avail -> (r <= length avail)%nat -> sels r avail <> [].
Proof. revert avail. induction r as [|r IH]; intros avail Hnd Hle; cbn [sels]. discriminate.
  destruct avail as [|a av]; [simpl in Hle; lia|].
  cbn [flat_map]. intros E. apply app_eq_nil in E as [E _]. apply map_eq_nil in E.
  revert E. apply IH. apply NoDup_remove_nat; auto.
  simpl. destruct (Nat.eq_dec a a); [|congruence].
  inversion Hnd; subst. rewrite notin_remove by auto. simpl in Hle. lia. Qed.

(* ------------------------------------------------------------ argmax scan *)
Section ArgmaxProofs.
Context {A : Type}.
Variable score : A -> R.
Lemma oltb_RO a b : oltb RO a b = true <-> a < b.
Proof. unfold oltb. cbn [oleb RO]. rewrite negb_true_iff, Rleb_false. tauto. Qed.
Lemma oltb_RO_false a b : oltb RO a b = false <-> b <= a.
Proof. unfold oltb. cbn [oleb RO]. rewrite negb_false_iff, Rleb_true. tauto. Qed.

Lemma best_from_ge_start l b : score b <= score (best_from RO score l b).
Proof. revert b; induction l as [|c r IH]; intros b; cbn [best_from]; [lra|].
  destruct (oltb RO (score b) (score c)) eqn:E.
  - apply oltb_RO in E. specialize (IH c). lra.
  - apply IH. Qed.
Lemma best_from_max l b x : In x (b :: l) -> score x <= score (best_from RO score l b).
Proof. revert b x; induction l as [|c r IH]; intros b x Hin; cbn [best_from].
  - destruct Hin as [<-|[]]; lra.
  - destruct (oltb RO (score b) (score c)) eqn:E; [apply oltb_RO in E|apply oltb_RO_false in E].
    + destruct Hin as [<-|[<-|Hin]].
      * pose proof (best_from_ge_start r c); lra.
      * apply best_from_ge_start.
      * apply IH; right; auto.
    + destruct Hin as [<-|[<-|Hin]].
      * apply best_from_ge_start.
      * pose proof (best_from_ge_start r b); lra.
      * apply IH; right; auto.
Qed.
Lemma best_from_in l b : In (best_from RO score l b) (b :: l).
Proof. revert b; induction l as [|c r IH]; intros b; cbn [best_from]. left; auto.
  destruct (oltb RO (score b) (score c)).
  - right. apply IH.
  - destruct (IH b) as [H|H]; [left; auto | right; right; auto]. Qed.
Lemma argmax_list_in l d : l <> [] -> In (argmax_list RO score l d) l.
Proof. destruct l as [|b r]; [congruence|]. intros _. apply best_from_in. Qed.
Lemma argmax_list_max l d x : In x l -> score x <= score (argmax_list RO score l d).
Proof. destruct l as [|b r]; [intros []|]. apply best_from_max. Qed.
End ArgmaxProofs.

(* the scan only looks at comparisons: scores with the same order give the same winner *)
Lemma best_from_same_order {A} (s1 s2 : A -> R) l b :
  (forall x y, s1 x < s1 y <-> s2 x < s2 y) -> best_from RO s1 l b = best_from RO s2 l b.
Proof. intros H. revert b. induction l as [|c r IH]; intros b; cbn [best_from]; auto.
  assert (E : oltb RO (s1 b) (s1 c) = oltb RO (s2 b) (s2 c)).
  { destruct (oltb RO (s2 b) (s2 c)) eqn:E2.
    - apply oltb_RO. apply H. apply oltb_RO. auto.
    - apply oltb_RO_false. apply oltb_RO_false in E2.
      destruct (Rle_lt_dec (s1 c) (s1 b)); auto. apply H in r0. lra. }
  rewrite E. destruct (oltb RO (s2 b) (s2 c)); apply IH. Qed.

(* ------------------------------------------------------------ output selection *)
Section OutputProofs.
Variables (Ks Kt : nat) (Sm : nat -> nat -> R) (Nv : nat -> R).

Definition valid_sel (l : list nat) : Prop := length l = Ks /\ NoDup l /\ forall j, In j l -> (j < Kt)%nat.

Lemma valid_sel_iff l : In l (sels Ks (seq 0 Kt)) <-> valid_sel l.
Proof. rewrite sels_spec by apply seq_NoDup. unfold valid_sel, incl.
  split; intros [H1 [H2 H3]]; repeat split; auto; intros j Hj; specialize (H3 j Hj).
  apply in_seq in H3; lia. apply in_seq; lia. Qed.

Lemma out_select_valid : (Ks <= Kt)%nat -> valid_sel (out_select RO Ks Kt Sm).
Proof. intros Hle. apply valid_sel_iff. unfold out_select. apply argmax_list_in.
  apply sels_nonempty. apply seq_NoDup. rewrite seq_length. auto. Qed.

(* the selected outputs capture at least as much source power as any other injective selection *)
Theorem out_select_max l : valid_sel l ->
  mutual RO Ks Sm l <= mutual RO Ks Sm (out_select RO Ks Kt Sm).
Proof. intros Hl. unfold out_select. apply (argmax_list_max (mutual RO Ks Sm)). apply valid_sel_iff; auto. Qed.

Theorem output_harmonic sel k :
  0 < out_SS Sm sel k -> 0 < out_II RO Ks Sm sel k -> 0 < out_NN Nv sel k ->
  / out_sdr_lin RO Ks Sm Nv sel k = / out_sir_lin RO Ks Sm sel k + / out_snr_lin RO Sm Nv sel k.
Proof. intros. unfold out_sdr_lin, out_sir_lin, out_snr_lin, odiv. cbn [omul oinv oadd RO].
  apply sxr_harmonic_lin; auto. Qed.
Theorem output_sdr_le_min sel k :
  0 < out_SS Sm sel k -> 0 < out_II RO Ks Sm sel k -> 0 < out_NN Nv sel k ->
  out_sdr_lin RO Ks Sm Nv sel k <= Rmin (out_sir_lin RO Ks Sm sel k) (out_snr_lin RO Sm Nv sel k).
Proof. intros. unfold out_sdr_lin, out_sir_lin, out_snr_lin, odiv. cbn [omul oinv oadd RO].
  apply sxr_sdr_le_min_lin; auto. Qed.
End OutputProofs.

(* positive rescaling of the power matrix does not move the selection *)
Lemma mutual_scale Ks (Sm : nat -> nat -> R) a l :
  mutual RO Ks (fun k j => a * Sm k j) l = a * mutual RO Ks Sm l.
Proof. unfold mutual. rewrite !bsum_RO. apply rsum_scale_l. Qed.
Theorem out_select_scale Ks Kt (Sm : nat -> nat -> R) a : 0 < a ->
  out_select RO Ks Kt (fun k j => a * Sm k j) = out_select RO Ks Kt Sm.
Proof. intros Ha. unfold out_select, argmax_list. destruct (sels Ks (seq 0 Kt)) as [|b r]; auto.
  apply best_from_same_order. intros x y. rewrite !mutual_scale. split; intros; nra. Qed.

(* output order: outputs renamed by a bijection sigma of {0..Kt-1} (tau its inverse).
   S' k j = S k (sigma j), N' j = N (sigma j). *)
Section OutputPerm.
Variables (Ks Kt : nat) (Sm : nat -> nat -> R) (Nv : nat -> R) (sigma tau : nat -> nat).
Hypothesis Hsig : forall j, (j < Kt)%nat -> (sigma j < Kt)%nat.
Hypothesis Htau : forall j, (j < Kt)%nat -> (tau j < Kt)%nat.
Hypothesis Hst : forall j, (j < Kt)%nat -> sigma (tau j) = j.
Hypothesis Hts : forall j, (j < Kt)%nat -> tau (sigma j) = j.
Hypothesis HK : (Ks <= Kt)%nat.
Let Sm' := fun k j => Sm k (sigma j).
Let Nv' := fun j => Nv (sigma j).

Lemma map_valid f g l : (forall j, (j < Kt)%nat -> (f j < Kt)%nat) -> (forall j, (j < Kt)%nat -> g (f j) = j) ->
  valid_sel Ks Kt l -> valid_sel Ks Kt (map f l).
Proof. intros Hf Hgf [H1 [H2 H3]]. repeat split.
  - rewrite map_length; auto.
  - clear H1. induction l as [|x q IH]; simpl; constructor.
    + inversion H2; subst. intros Hin. apply in_map_iff in Hin as [y [Ey Hy]].
      assert (y = x). { rewrite <- (Hgf y), <- (Hgf x), Ey; auto. apply H3; left; auto. apply H3; right; auto. }
      subst; auto.
    + inversion H2; subst. apply IH; auto. intros j Hj. apply H3; right; auto.
  - intros j Hj. apply in_map_iff in Hj as [y [<- Hy]]. apply Hf. apply H3; auto. Qed.

Lemma nth_map_valid (f : nat -> nat) (l : list nat) k : (k < length l)%nat -> nth k (map f l) 0%nat = f (nth k l 0%nat).
Proof. intros Hk. rewrite (nth_indep _ 0%nat (f 0%nat)) by (rewrite map_length; auto). apply map_nth. Qed.

Lemma mutual_perm l : length l = Ks -> mutual RO Ks Sm' l = mutual RO Ks Sm (map sigma l).
Proof. intros Hl. unfold mutual. rewrite !bsum_RO. apply rsum_ext; intros k Hk.
  unfold Sm'. rewrite nth_map_valid by lia. reflexivity. Qed.

Lemma map_map_id (f g : nat -> nat) (l : list nat) : (forall j, In j l -> g (f j) = j) -> map g (map f l) = l.
Proof. intros H. rewrite map_map. induction l as [|x q IH]; simpl; auto. rewrite H, IH; auto.
  intros; apply H; right; auto. left; auto. Qed.

(* if the best selection of the original problem is the unique maximiser, the permuted problem
   selects exactly the renamed outputs ... *)
Theorem out_select_perm :
  (forall l, valid_sel Ks Kt l -> l <> out_select RO Ks Kt Sm ->
             mutual RO Ks Sm l < mutual RO Ks Sm (out_select RO Ks Kt Sm)) ->
  map sigma (out_select RO Ks Kt Sm') = out_select RO Ks Kt Sm.
Proof. intros Huniq.
  set (best := out_select RO Ks Kt Sm). set (best' := out_select RO Ks Kt Sm').
  assert (Hb : valid_sel Ks Kt best) by (apply out_select_valid; auto).
  assert (Hb' : valid_sel Ks Kt best') by (apply out_select_valid; auto).
  assert (Hm : valid_sel Ks Kt (map sigma best')) by (apply (map_valid sigma tau); auto).
  assert (Ht : valid_sel Ks Kt (map tau best)) by (apply (map_valid tau sigma); auto).
  destruct (list_eq_dec Nat.eq_dec (map sigma best') best) as [E|Hne]; auto.
  exfalso. specialize (Huniq _ Hm Hne). fold best in Huniq.
  pose proof (out_select_max Ks Kt Sm' _ Ht) as Hmax. fold best' in Hmax.
  rewrite (mutual_perm best') in Hmax by (destruct Hb'; auto).
  rewrite (mutual_perm (map tau best)) in Hmax by (destruct Ht; auto).
  rewrite (map_map_id tau sigma) in Hmax. lra.
  intros j Hj. apply Hst. destruct Hb as [_ [_ Hb]]. auto. Qed.

(* ... and therefore returns the same signal, interference and noise powers per source *)
Theorem output_perm_invariant k : (k < Ks)%nat ->
  (forall l, valid_sel Ks Kt l -> l <> out_select RO Ks Kt Sm ->
             mutual RO Ks Sm l < mutual RO Ks Sm (out_select RO Ks Kt Sm)) ->
  out_SS Sm' (out_select RO Ks Kt Sm') k = out_SS Sm (out_select RO Ks Kt Sm) k /\
  out_II RO Ks Sm' (out_select RO Ks Kt Sm') k = out_II RO Ks Sm (out_select RO Ks Kt Sm) k /\
  out_NN Nv' (out_select RO Ks Kt Sm') k = out_NN Nv (out_select RO Ks Kt Sm) k.
Proof. intros Hk Huniq. pose proof (out_select_perm Huniq) as E.
  assert (Hl : length (out_select RO Ks Kt Sm') = Ks) by (apply out_select_valid; auto).
  assert (En : sigma (nth k (out_select RO Ks Kt Sm') 0%nat) = nth k (out_select RO Ks Kt Sm) 0%nat).
  { rewrite <- E. rewrite nth_map_valid by lia. reflexivity. }
  unfold out_SS, out_II, out_NN. set (j' := nth k (out_select RO Ks Kt Sm') 0%nat) in *. unfold Sm', Nv'. cbv beta. rewrite En. auto. Qed.
End OutputPerm.

(* image contributions scaled by c: selection unchanged, SNR x c^2, SIR unchanged; common scale: all unchanged *)
Section OutputScale.
Variables (Ks Kt Tn : nat) (img : nat -> nat -> nat -> R) (noi : nat -> nat -> R) (c : R).
Hypothesis Hc : c <> 0.
Let imgc := fun k j t => c * img k j t.
Let noic := fun j t => c * noi j t.

Lemma out_S_scale k j : out_S RO Tn imgc k j = c * c * out_S RO Tn img k j.
Proof. unfold out_S, imgc. apply power_scale. Qed.
Lemma out_N_scale j : out_N RO Tn noic j = c * c * out_N RO Tn noi j.
Proof. unfold out_N, noic. apply power_scale. Qed.
Lemma cc_pos : 0 < c * c. Proof. nra. Qed.

Theorem out_sel_scale : out_sel RO Ks Kt Tn imgc = out_sel RO Ks Kt Tn img.
Proof. unfold out_sel. rewrite <- (out_select_scale Ks Kt (out_S RO Tn img) (c * c) cc_pos).
  unfold out_select. f_equal. unfold mutual.
  apply FunctionalExtensionality.functional_extensionality. intros l.
  rewrite !bsum_RO. apply rsum_ext; intros; apply out_S_scale. Qed.

Lemma out_II_scale sel k :
  out_II RO Ks (out_S RO Tn imgc) sel k = c * c * out_II RO Ks (out_S RO Tn img) sel k.
Proof. unfold out_II. rewrite !bsum_RO, <- rsum_scale_l. apply rsum_ext; intros j Hj.
  destruct (Nat.eqb j k); cbn [o0 RO]. ring. apply out_S_scale. Qed.

Theorem output_image_scale k :
  out_II RO Ks (out_S RO Tn img) (out_sel RO Ks Kt Tn img) k <> 0 ->
  out_snr_lin RO (out_S RO Tn imgc) (out_N RO Tn noi) (out_sel RO Ks Kt Tn imgc) k
  = c * c * out_snr_lin RO (out_S RO Tn img) (out_N RO Tn noi) (out_sel RO Ks Kt Tn img) k /\
  out_sir_lin RO Ks (out_S RO Tn imgc) (out_sel RO Ks Kt Tn imgc) k
  = out_sir_lin RO Ks (out_S RO Tn img) (out_sel RO Ks Kt Tn img) k.
Proof. intros HI. rewrite out_sel_scale. unfold out_snr_lin, out_sir_lin, odiv. cbn [omul oinv RO].
  rewrite out_II_scale. unfold out_SS, out_NN. rewrite out_S_scale.
  pose proof cc_pos. split; [ring | field; split; auto; lra]. Qed.

Theorem output_common_scale k :
  out_II RO Ks (out_S RO Tn img) (out_sel RO Ks Kt Tn img) k <> 0 ->
  out_NN (out_N RO Tn noi) (out_sel RO Ks Kt Tn img) k <> 0 ->
  out_II RO Ks (out_S RO Tn img) (out_sel RO Ks Kt Tn img) k
    + out_NN (out_N RO Tn noi) (out_sel RO Ks Kt Tn img) k <> 0 ->
  out_sdr_lin RO Ks (out_S RO Tn imgc) (out_N RO Tn noic) (out_sel RO Ks Kt Tn imgc) k
  = out_sdr_lin RO Ks (out_S RO Tn img) (out_N RO Tn noi) (out_sel RO Ks Kt Tn img) k /\
  out_sir_lin RO Ks (out_S RO Tn imgc) (out_sel RO Ks Kt Tn imgc) k
  = out_sir_lin RO Ks (out_S RO Tn img) (out_sel RO Ks Kt Tn img) k /\
  out_snr_lin RO (out_S RO Tn imgc) (out_N RO Tn noic) (out_sel RO Ks Kt Tn imgc) k
  = out_snr_lin RO (out_S RO Tn img) (out_N RO Tn noi) (out_sel RO Ks Kt Tn img) k.
Proof. intros HI HN HIN. rewrite out_sel_scale.
  unfold out_sdr_lin, out_snr_lin, out_sir_lin, odiv. cbn [omul oinv oadd RO].
  rewrite out_II_scale. unfold out_SS, out_NN in *. rewrite out_S_scale, out_N_scale.
  pose proof cc_pos. assert (c * c <> 0) by lra.
  rewrite <- Rmult_plus_distr_l. repeat split; apply ratio_common_scale; auto. Qed.
End OutputScale.

(* ------------------------------------------------------------ kind of the returned value *)
Open Scope string_scope.
Definition nonempty (p : string) : Prop := p <> "".
Lemma eqb_nonempty p : nonempty p -> String.eqb p "" = false.
Proof. intros H. apply String.eqb_neq. exact H. Qed.

(* the documented table: False -> tuple, True -> plain keys, non-empty prefix -> prefixed keys *)
Definition documented_kind (rd : rdarg) : option rkind :=
  match rd with
  | RdBool false => Some KTuple
  | RdBool true => Some (KDict "sdr" "sir" "snr")
  | RdStr p => if String.eqb p "" then None else Some (KDict (p ++ "sdr") (p ++ "sir") (p ++ "snr"))
  | RdOther _ => None
  end.

(* any outer test that agrees with Python truthiness yields the documented table *)
Theorem rk_table_truthy outer rd k : (forall r, outer r = rd_truthy r) ->
  documented_kind rd = Some k -> rk_table outer rd = k.
Proof. intros Ho Hd. unfold rk_table. rewrite Ho. destruct rd as [[|]|p|t]; cbn in *.
  - inversion Hd; reflexivity.
  - inversion Hd; reflexivity.
  - destruct (String.eqb p "") eqn:E; [discriminate|]. cbn. inversion Hd; reflexivity.
  - discriminate. Qed.

Theorem input_return_kind_table rd k : documented_kind rd = Some k -> input_return_kind rd = k.
Proof. apply rk_table_truthy. reflexivity. Qed.

(* the `is True` test keeps the table for booleans ... *)
Theorem rk_table_is_true_bool b k : documented_kind (RdBool b) = Some k -> rk_table rd_is_true (RdBool b) = k.
Proof. destruct b; cbn; intros H; inversion H; reflexivity. Qed.
(* ... and returns the tuple for every prefix string *)
Theorem rk_table_is_true_str p : rk_table rd_is_true (RdStr p) = KTuple.
Proof. reflexivity. Qed.
