(* Proofs/PermAlignOracle.v -- C14/C15 over the reals (instance RO): column sums are preserved by
   apply_mapping; for a reference whose (normalised, for 'cos') class rows are pairwise distinct the
   score matrix of any row-permuted copy against the reference is dominated by the true matching
   (euclidean: 0 on the matching, < 0 elsewhere; multiply / cos: 2 G_ij < G_ii + G_jj because
   |r_i - r_j|^2 > 0), so the greedy and the optimal assignment both return the inverse permutation
   and applying it reproduces the reference exactly. *)
From Coq Require Import Reals Lra Lia List Arith Bool Permutation.
From PB Require Import Ops CLin Model.PermAlign Proofs.PermAlignAssign Proofs.PermAlignLoop.
Import ListNotations.
Open Scope R_scope.

(* ---- oltb RO is the strict order of R ---- *)
Lemma oltb_RO_true a b : oltb RO a b = true <-> a < b.
Proof. unfold oltb. cbn [oleb RO]. rewrite negb_true_iff. apply Rleb_false. Qed.
Lemma oltb_RO_false a b : oltb RO a b = false <-> b <= a.
Proof. unfold oltb. cbn [oleb RO]. rewrite negb_false_iff. apply Rleb_true. Qed.
Lemma lt_irrefl_RO x : oltb RO x x = false. Proof. apply oltb_RO_false. lra. Qed.
Lemma lt_trans_RO x y z : oltb RO x y = true -> oltb RO y z = true -> oltb RO x z = true.
Proof. rewrite !oltb_RO_true. lra. Qed.
Lemma lt_negtrans_RO x y z : oltb RO x y = false -> oltb RO y z = false -> oltb RO x z = false.
Proof. rewrite !oltb_RO_false. lra. Qed.

(* ---- list sums ---- *)
Fixpoint lsum (l : list R) : R := match l with [] => 0 | x :: r => x + lsum r end.
Lemma lsum_app a b : lsum (a ++ b) = lsum a + lsum b.
Proof. induction a; simpl; lra. Qed.
Lemma lsum_perm l l' : Permutation l l' -> lsum l = lsum l'.
Proof. induction 1; simpl; lra. Qed.
Lemma fold_left_Rplus l a : fold_left Rplus l a = a + lsum l.
Proof. revert a; induction l as [|x r IH]; intros a; simpl. lra. rewrite IH. lra. Qed.
Lemma rsum_lsum n f : rsum n f = lsum (map f (seq 0 n)).
Proof. induction n; cbn [rsum]. reflexivity. rewrite seq_S, map_app, lsum_app, IHn. simpl. lra. Qed.
Lemma lsum_map_le {A} (f g : A -> R) l : (forall x, In x l -> f x <= g x) -> lsum (map f l) <= lsum (map g l).
Proof. induction l as [|a l IH]; intros H; simpl. lra.
  pose proof (H a (or_introl eq_refl)). assert (lsum (map f l) <= lsum (map g l)) by (apply IH; intros; apply H; simpl; auto). lra. Qed.
Lemma lsum_map_lt {A} (f g : A -> R) l x0 :
  (forall x, In x l -> f x <= g x) -> In x0 l -> f x0 < g x0 -> lsum (map f l) < lsum (map g l).
Proof. induction l as [|a l IH]; intros H Hin Hlt; [inversion Hin|]. simpl.
  pose proof (H a (or_introl eq_refl)).
  assert (Hle: lsum (map f l) <= lsum (map g l)) by (apply lsum_map_le; intros; apply H; simpl; auto).
  destruct Hin as [->|Hin]. lra.
  assert (lsum (map f l) < lsum (map g l)) by (apply IH; auto; intros; apply H; simpl; auto). lra. Qed.

(* C14: sums over the class axis are preserved by apply_mapping *)
Theorem apply_mapping_colsum K (mask : nat -> nat -> nat -> R) mapping f t :
  is_perm K (map (fun k => mapping k f) (seq 0 K)) ->
  bsum RO K (fun k => apply_mapping mask mapping k f t) = bsum RO K (fun k => mask k f t).
Proof. intros H. repeat (rewrite bsum_RO). repeat (rewrite rsum_lsum). unfold apply_mapping.
  rewrite <- (map_map (fun k => mapping k f) (fun j => mask j f t)). apply lsum_perm.
  apply Permutation_map. exact H. Qed.

Lemma NoDup_map_inj_in {A B} (f : A -> B) (l : list A) :
  (forall a b, In a l -> In b l -> f a = f b -> a = b) -> NoDup l -> NoDup (map f l).
Proof. induction l as [|a l IH]; intros Hinj Hnd; simpl. constructor.
  inversion Hnd; subst. constructor.
  - intros Hin. apply in_map_iff in Hin as [b [Hb Hbl]].
    assert (b = a) by (apply Hinj; simpl; auto). subst. contradiction.
  - apply IH; auto. intros; apply Hinj; simpl; auto. Qed.

(* ---- combine (range(K), q) ---- *)
Lemma combine_seq_nth (q : list nat) a :
  combine (seq a (length q)) q = map (fun k => (k, nth (k - a) q 0%nat)) (seq a (length q)).
Proof. revert a; induction q as [|x q IH]; intros a; simpl; auto.
  rewrite Nat.sub_diag. f_equal. rewrite IH. apply map_ext_in. intros k Hk. apply in_seq in Hk.
  f_equal. replace (k - a)%nat with (S (k - S a)) by lia. reflexivity. Qed.
Lemma perm_score_lsum K (Sc : nat -> nat -> R) q : length q = K ->
  perm_score K Sc Rplus 0 q = lsum (map (fun k => Sc k (nth k q 0%nat)) (seq 0 K)).
Proof. intros H. unfold perm_score. rewrite fold_left_Rplus. subst K. rewrite combine_seq_nth, map_map.
  rewrite Rplus_0_l. f_equal. apply map_ext. intros k. simpl. rewrite Nat.sub_0_r. reflexivity. Qed.

(* ---- "half" dominance: 2 G_ij <= G_ii + G_jj, strictly off the diagonal ---- *)
Definition half_dominant (K : nat) (G : nat -> nat -> R) : Prop :=
  forall i j, (i < K)%nat -> (j < K)%nat ->
    2 * G i j <= G i i + G j j /\ (i <> j -> 2 * G i j < G i i + G j j).

Lemma half_dominant_dominant K G : half_dominant K G -> dominant RO K G.
Proof. intros H i j Hi Hj Hne. destruct (H i j Hi Hj) as [_ Hs]. specialize (Hs (fun E => Hne (eq_sym E))).
  rewrite !oltb_RO_true. destruct (Rlt_le_dec (G i j) (G i i)); [left; auto|right; lra]. Qed.

(* any non-identity permutation of the columns has a strictly smaller total than the diagonal *)
Lemma half_dominant_sum K G t : half_dominant K G -> is_perm K t -> t <> seq 0 K ->
  lsum (map (fun k => G k (nth k t 0%nat)) (seq 0 K)) < lsum (map (fun k => G k k) (seq 0 K)).
Proof. intros H Ht Hne.
  pose proof (is_perm_length K t Ht) as Hl.
  (* some position is moved *)
  assert (Hex: exists k, (k < K)%nat /\ nth k t 0%nat <> k).
  { destruct (forallb (fun k => Nat.eqb (nth k t 0%nat) k) (seq 0 K)) eqn:E.
    - exfalso. apply Hne. rewrite forallb_forall in E.
      apply (nth_ext _ _ 0%nat 0%nat). rewrite seq_length; auto.
      intros k Hk. rewrite Hl in Hk. rewrite seq_nth by auto. simpl.
      apply Nat.eqb_eq. apply E. apply in_seq. lia.
    - assert (Hn: ~ (forall x, In x (seq 0 K) -> Nat.eqb (nth x t 0%nat) x = true)).
      { intros Hall. apply forallb_forall in Hall. congruence. }
      destruct (existsb (fun k => negb (Nat.eqb (nth k t 0%nat) k)) (seq 0 K)) eqn:E2.
      + apply existsb_exists in E2 as [k [Hk Hb]]. apply in_seq in Hk. exists k. split; [lia|].
        apply negb_true_iff in Hb. apply Nat.eqb_neq in Hb. exact Hb.
      + exfalso. apply Hn. intros x Hx. destruct (Nat.eqb (nth x t 0%nat) x) eqn:E3; auto.
        assert (existsb (fun k => negb (Nat.eqb (nth k t 0%nat) k)) (seq 0 K) = true).
        { apply existsb_exists. exists x. split; auto. rewrite E3. reflexivity. }
        congruence. }
  destruct Hex as [k0 [Hk0 Hmv]].
  assert (Hb: forall k, (k < K)%nat -> (nth k t 0%nat < K)%nat) by (intros; apply is_perm_nth; auto).
  (* 2 * lhs < sum G_kk + sum G_(tk)(tk) = 2 * rhs *)
  assert (H2: lsum (map (fun k => 2 * G k (nth k t 0%nat)) (seq 0 K))
              < lsum (map (fun k => G k k + G (nth k t 0%nat) (nth k t 0%nat)) (seq 0 K))).
  { apply (lsum_map_lt _ _ _ k0).
    - intros k Hk. apply in_seq in Hk. apply H; [lia|apply Hb; lia].
    - apply in_seq. lia.
    - apply H; auto. }
  assert (E1: lsum (map (fun k => 2 * G k (nth k t 0%nat)) (seq 0 K))
              = 2 * lsum (map (fun k => G k (nth k t 0%nat)) (seq 0 K))).
  { generalize (seq 0 K). induction l; simpl; lra. }
  assert (E2: lsum (map (fun k => G k k + G (nth k t 0%nat) (nth k t 0%nat)) (seq 0 K))
              = lsum (map (fun k => G k k) (seq 0 K)) + lsum (map (fun k => G (nth k t 0%nat) (nth k t 0%nat)) (seq 0 K))).
  { generalize (seq 0 K). induction l; simpl; lra. }
  assert (E3: lsum (map (fun k => G (nth k t 0%nat) (nth k t 0%nat)) (seq 0 K)) = lsum (map (fun k => G k k) (seq 0 K))).
  { rewrite <- (map_map (fun k => nth k t 0%nat) (fun j => G j j)). apply lsum_perm. apply Permutation_map.
    replace (map (fun k => nth k t 0%nat) (seq 0 K)) with t; auto.
    rewrite <- Hl. clear. induction t as [|a t IH]; simpl; auto. f_equal. rewrite <- seq_shift, map_map. exact IH. }
  lra. Qed.

(* ---- the three scores on R ---- *)
Section Pair.
Variable Tn : nat.
Definition rdistinct (x y : nat -> R) : Prop := exists t, (t < Tn)%nat /\ x t <> y t.

Lemma pair_multiply_RO x r : pair_multiply RO Tn x r = rsum Tn (fun t => x t * r t).
Proof. unfold pair_multiply. rewrite bsum_RO. reflexivity. Qed.
Lemma sqdist_nonneg x y : 0 <= rsum Tn (fun t => (x t - y t) * (x t - y t)).
Proof. apply rsum_nonneg. intros k Hk. cbv beta. pose proof (Rle_0_sqr (x k - y k)) as H. unfold Rsqr in H. lra. Qed.
Lemma sqdist_pos x y : rdistinct x y -> 0 < rsum Tn (fun t => (x t - y t) * (x t - y t)).
Proof. intros [t [Ht Hne]].
  assert (Hnn: forall j, (j < Tn)%nat -> 0 <= (fun t => (x t - y t) * (x t - y t)) j).
  { intros j _. cbv beta. pose proof (Rle_0_sqr (x j - y j)) as H. unfold Rsqr in H. lra. }
  pose proof (term_le_rsum Tn (fun t => (x t - y t) * (x t - y t)) t Hnn Ht) as H.
  cbv beta in H. assert (0 < (x t - y t) * (x t - y t)) by (assert (x t - y t <> 0) by lra; nra). lra. Qed.
Lemma sqdist_expand x y :
  rsum Tn (fun t => (x t - y t) * (x t - y t))
  = rsum Tn (fun t => x t * x t) + rsum Tn (fun t => y t * y t) - 2 * rsum Tn (fun t => x t * y t).
Proof. induction Tn as [|n IH]; cbn [rsum]. lra. rewrite IH. lra. Qed.

Lemma multiply_half (x y : nat -> R) :
  2 * pair_multiply RO Tn x y <= pair_multiply RO Tn x x + pair_multiply RO Tn y y /\
  (rdistinct x y -> 2 * pair_multiply RO Tn x y < pair_multiply RO Tn x x + pair_multiply RO Tn y y).
Proof. unfold pair_multiply. change (@bsum R RO) with rsum. cbn [omul RO].
  pose proof (sqdist_expand x y) as E. pose proof (sqdist_nonneg x y) as H0. split. lra.
  intros Hd. pose proof (sqdist_pos x y Hd). lra. Qed.

Lemma pair_euclid_RO x r : pair_euclid RO Tn x r = - sqrt (rsum Tn (fun t => (x t - r t) * (x t - r t))).
Proof. unfold pair_euclid. rewrite bsum_RO. reflexivity. Qed.
Lemma pair_euclid_self x : pair_euclid RO Tn x x = 0.
Proof. rewrite pair_euclid_RO. rewrite (rsum_zero Tn) by (intros; lra). rewrite sqrt_0. lra. Qed.
Lemma pair_euclid_le0 x r : pair_euclid RO Tn x r <= 0.
Proof. rewrite pair_euclid_RO. pose proof (sqrt_pos (rsum Tn (fun t => (x t - r t) * (x t - r t)))). lra. Qed.
Lemma pair_euclid_neg x r : rdistinct x r -> pair_euclid RO Tn x r < 0.
Proof. intros H. rewrite pair_euclid_RO. pose proof (sqrt_lt_R0 _ (sqdist_pos x r H)). lra. Qed.

(* the rows the metric actually compares: normalised for 'cos' *)
Definition mrow (tiny : R) (m : metric) (x : nat -> R) : nat -> R :=
  match m with Cos => vnorm RO Tn tiny x | _ => x end.

Lemma pair_score_half tiny m (x y : nat -> R) :
  2 * pair_score RO Tn tiny m x y <= pair_score RO Tn tiny m x x + pair_score RO Tn tiny m y y /\
  (rdistinct (mrow tiny m x) (mrow tiny m y) ->
   2 * pair_score RO Tn tiny m x y < pair_score RO Tn tiny m x x + pair_score RO Tn tiny m y y).
Proof. destruct m; cbn [pair_score mrow].
  - unfold pair_cos. apply multiply_half.
  - rewrite !pair_euclid_self. pose proof (pair_euclid_le0 x y). split. lra.
    intros Hd. pose proof (pair_euclid_neg x y Hd). lra.
  - apply multiply_half. Qed.
End Pair.

(* ---- the inverse of a permutation list ---- *)
Definition inverse_of (K : nat) (p : list nat) : list nat := map (fun i => index_of i p) (seq 0 K).
Lemma inverse_of_perm K p : is_perm K p -> is_perm K (inverse_of K p) /\ permute 0%nat (inverse_of K p) p = seq 0 K.
Proof. intros Hp. assert (E: permute 0%nat (inverse_of K p) p = seq 0 K).
  { unfold permute, inverse_of. rewrite map_map. rewrite <- (map_id (seq 0 K)) at 2. apply map_ext_in.
    intros k Hk. apply in_seq in Hk. apply index_of_in. apply (is_perm_in K); auto. lia. }
  split; auto. unfold is_perm. apply nodup_bounded_perm.
  - unfold inverse_of. apply NoDup_map_inj_in; [|apply seq_NoDup].
    intros a b Ha Hb Hab. apply in_seq in Ha, Hb.
    destruct (index_of_in a p) as [_ E1]. apply (is_perm_in K); auto; lia.
    destruct (index_of_in b p) as [_ E2]. apply (is_perm_in K); auto; lia.
    rewrite <- E1, <- E2, Hab. reflexivity.
  - unfold inverse_of. rewrite map_length, seq_length. reflexivity.
  - intros x Hx. unfold inverse_of in Hx. apply in_map_iff in Hx as [i [<- Hi]]. apply in_seq in Hi.
    rewrite <- (is_perm_length K p Hp). apply index_of_in. apply (is_perm_in K); auto. lia. Qed.


(* ---- one bin: estimate = reference rows in the order pi ---- *)
Section OracleBin.
Variables (tiny : R) (m : metric) (K Tn : nat) (r : @bin R).
Hypothesis Hlen : length r = K.
(* the class rows (normalised for 'cos') are pairwise distinct *)
Hypothesis Hdist : forall i j, (i < K)%nat -> (j < K)%nat -> i <> j ->
  rdistinct Tn (mrow Tn tiny m (rowfn RO (nth i r []))) (mrow Tn tiny m (rowfn RO (nth j r []))).

Let G := adj_score RO tiny m Tn r r.
Lemma gram_half : half_dominant K G.
Proof. intros i j Hi Hj. unfold G, adj_score.
  destruct (pair_score_half Tn tiny m (rowfn RO (nth j r [])) (rowfn RO (nth i r []))) as [H1 H2].
  split. lra. intros Hne. specialize (H2 (Hdist j i Hj Hi (fun E => Hne (eq_sym E)))). lra. Qed.

Theorem oracle_bin_inverts g p : is_perm K p ->
  assign RO g K (score_bins RO tiny m K Tn (permute [] p r) r) = inverse_of K p.
Proof. intros Hp. pose proof gram_half as HG. destruct g.
  - (* greedy: follows the dominated matching *)
    assert (Er: permute [] (seq 0 K) r = r) by (rewrite <- Hlen; apply permute_id).
    pose proof (adjacent_recovered RO lt_irrefl_RO lt_trans_RO lt_negtrans_RO tiny m K Tn (seq 0 K) p r r
                  (is_perm_id K) Hp (half_dominant_dominant K G HG)) as HA.
    rewrite Er in HA. rewrite HA.
    unfold inverse_of. apply map_ext_in. intros i Hi. apply in_seq in Hi. rewrite seq_nth by lia. reflexivity.
  - (* optimal: the matching is the unique maximiser of the total *)
    unfold score_bins. rewrite (assign_mtab_optimal RO).
    rewrite (optimal_assign_ext (oltb RO) K _ (oadd RO) (o0 RO) (fun i j => G i (nth j p 0%nat))).
    2:{ intros i j Hi Hj. unfold score_fn, G, adj_score.
        rewrite (rget_permute RO p r j) by (rewrite (is_perm_length K p Hp); auto). reflexivity. }
    destruct (inverse_of_perm K p Hp) as [Hs Es].
    apply (optimal_unique_max (oltb RO) lt_irrefl_RO lt_trans_RO lt_negtrans_RO); auto.
    intros q Hq Hne. apply oltb_RO_true. cbn [oadd o0 RO].
    rewrite !perm_score_lsum by (apply is_perm_length; auto).
    assert (Et: forall s, is_perm K s ->
              map (fun k => G k (nth (nth k s 0%nat) p 0%nat)) (seq 0 K)
              = map (fun k => G k (nth k (permute 0%nat s p) 0%nat)) (seq 0 K)).
    { intros s Hs'. apply map_ext_in. intros k Hk. apply in_seq in Hk.
      rewrite permute_nth by (rewrite (is_perm_length K s Hs'); lia). reflexivity. }
    rewrite (Et q Hq), (Et _ Hs), Es.
    replace (map (fun k => G k (nth k (seq 0 K) 0%nat)) (seq 0 K)) with (map (fun k => G k k) (seq 0 K)).
    2:{ apply map_ext_in. intros k Hk. apply in_seq in Hk. rewrite seq_nth by lia. reflexivity. }
    apply half_dominant_sum; auto.
    + apply permute_is_perm; auto.
    + intros E. apply Hne.
      (* q is determined by p[q] = identity *)
      pose proof (is_perm_length K q Hq) as Lq.
      apply (nth_ext _ _ 0%nat 0%nat).
      { unfold inverse_of. rewrite map_length, seq_length. auto. }
      intros k Hk. rewrite Lq in Hk. unfold inverse_of. rewrite nth_map_seq by auto.
      assert (Ek: nth (nth k q 0%nat) p 0%nat = k).
      { rewrite <- (permute_nth 0%nat q p k) by lia. rewrite E. apply seq_nth. auto. }
      transitivity (index_of (nth (nth k q 0%nat) p 0%nat) p); [|rewrite Ek; reflexivity].
      symmetry. apply index_of_nth. apply (is_perm_nodup K); auto.
      rewrite (is_perm_length K p Hp). apply is_perm_nth; auto. Qed.

(* applying the oracle's mapping to the permuted rows gives back the reference rows *)
Theorem oracle_bin_restores g p : is_perm K p ->
  permute [] (assign RO g K (score_bins RO tiny m K Tn (permute [] p r) r)) (permute [] p r) = r.
Proof. intros Hp. rewrite oracle_bin_inverts by auto. destruct (inverse_of_perm K p Hp) as [Hs Es].
  rewrite permute_permute. rewrite Es. rewrite <- Hlen. apply permute_id.
  intros x Hx. rewrite (is_perm_length K p Hp). apply (is_perm_bound K (inverse_of K p)); auto. Qed.
End OracleBin.

(* ---- all bins: OraclePermutationAlignment undoes every per-frequency permutation field ---- *)
Definition bin_ok (tiny : R) (m : metric) (K Tn : nat) (p : list nat) (r : @bin R) : Prop :=
  is_perm K p /\ length r = K /\
  forall i j, (i < K)%nat -> (j < K)%nat -> i <> j ->
    rdistinct Tn (mrow Tn tiny m (rowfn RO (nth i r []))) (mrow Tn tiny m (rowfn RO (nth j r []))).

Theorem oracle_inverts tiny m g K Tn (ps : list (list nat)) (ref : list (@bin R)) :
  Forall2 (bin_ok tiny m K Tn) ps ref ->
  let mask := apply_bins ps ref in
  oracle RO tiny m g K Tn mask ref = map (inverse_of K) ps /\
  apply_bins (oracle RO tiny m g K Tn mask ref) mask = ref.
Proof. intros H mask. unfold mask. clear mask. induction H as [|p r ps ref [Hp [Hl Hd]] H IH].
  - split; reflexivity.
  - destruct IH as [I1 I2]. rewrite (apply_bins_cons (A:=R)). unfold oracle in *. cbn [combine map fst snd].
    rewrite (apply_bins_cons (A:=R)).
    rewrite (oracle_bin_inverts tiny m K Tn r Hl Hd g p Hp) at 1.
    rewrite (oracle_bin_restores tiny m K Tn r Hl Hd g p Hp).
    split; [rewrite I1|rewrite I2]; reflexivity. Qed.

(* ---- a purely global permutation, frequency and time joined ---- *)
Lemma map_nth_seq {A} (t : list A) d : map (fun k => nth k t d) (seq 0 (length t)) = t.
Proof. induction t as [|a t IH]; simpl; auto. f_equal. rewrite <- seq_shift, map_map. exact IH. Qed.
Lemma flatten_length {A} K (bins : list (list (list A))) : length (flatten_bins K bins) = K.
Proof. unfold flatten_bins. rewrite map_length, seq_length. reflexivity. Qed.
Lemma flatten_permute {A} K p (bins : list (list (list A))) : is_perm K p ->
  flatten_bins K (map (permute [] p) bins) = permute [] p (flatten_bins K bins).
Proof. intros Hp. pose proof (is_perm_length K p Hp) as Lp. unfold permute at 2.
  transitivity (map (fun j => concat (map (fun b => nth j b []) bins)) p).
  - rewrite <- (map_nth_seq p 0%nat) at 2. rewrite Lp, map_map. unfold flatten_bins.
    apply map_ext_in. intros k Hk. apply in_seq in Hk. f_equal. rewrite map_map. apply map_ext. intros b.
    apply permute_nth. lia.
  - apply map_ext_in. intros j Hj. unfold flatten_bins. rewrite nth_map_seq; auto.
    apply (is_perm_bound K p); auto. Qed.

Theorem oracle_global tiny m g K Tn p (ref : list (@bin R)) :
  is_perm K p -> Forall (fun b => length b = K) ref ->
  (forall i j, (i < K)%nat -> (j < K)%nat -> i <> j ->
     rdistinct Tn (mrow Tn tiny m (rowfn RO (nth i (flatten_bins K ref) [])))
                  (mrow Tn tiny m (rowfn RO (nth j (flatten_bins K ref) [])))) ->
  let mask := map (permute [] p) ref in
  let mp := assign RO g K (score_bins RO tiny m K Tn (flatten_bins K mask) (flatten_bins K ref)) in
  mp = inverse_of K p /\ map (permute [] mp) mask = ref.
Proof. intros Hp Hlen Hd mask mp.
  assert (E: mp = inverse_of K p).
  { unfold mp, mask. rewrite flatten_permute by auto.
    apply oracle_bin_inverts; auto. apply flatten_length. }
  split; auto. rewrite E. unfold mask. rewrite map_map.
  destruct (inverse_of_perm K p Hp) as [Hs Es].
  rewrite <- (map_id ref) at 2. apply map_ext_in. intros b Hb.
  rewrite permute_permute. rewrite Es. rewrite Forall_forall in Hlen. rewrite <- (Hlen b Hb). apply permute_id.
  intros x Hx. rewrite (is_perm_length K p Hp). apply (is_perm_bound K (inverse_of K p)); auto. Qed.

(* optimality spelled out over the reals: total(optimal) >= total(q), total = sum_k Sc k q[k] *)
Theorem optimal_is_max_real (K : nat) (Sc : nat -> nat -> R) (q : list nat) :
  is_perm K q ->
  lsum (map (fun k => Sc k (nth k q 0%nat)) (seq 0 K))
  <= lsum (map (fun k => Sc k (nth k (optimal_assign (oltb RO) K Sc Rplus 0) 0%nat)) (seq 0 K)).
Proof. intros Hq.
  pose proof (optimal_is_max (oltb RO) lt_irrefl_RO lt_trans_RO lt_negtrans_RO K Sc Rplus 0 q Hq) as H.
  apply oltb_RO_false in H.
  rewrite (perm_score_lsum K Sc q (is_perm_length K q Hq)) in H.
  rewrite (perm_score_lsum K Sc _ (is_perm_length K _
             (optimal_assign_is_perm (oltb RO) lt_irrefl_RO lt_trans_RO lt_negtrans_RO K Sc Rplus 0))) in H.
  exact H. Qed.
