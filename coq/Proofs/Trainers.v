(* Proofs/Trainers.v -- C08: the trainers' estimators are the documented weighted estimators; an integer
   saliency acts like physical repetition; the eigenvalue normalisation of the cACG step is scale free. *)
From Coq Require Import Reals Lra Lia List Arith.
From Coquelicot Require Import Coquelicot.
From PB Require Import Ops CLin Model.Trainers Proofs.Posterior.
Import ListNotations.
Open Scope R_scope.

(* ---------- integer saliency = repetition, for every weighted sum ---------- *)
Definition rsuml (l : list R) := fold_right Rplus 0 l.
Lemma rsuml_app a b : rsuml (a ++ b) = rsuml a + rsuml b.
Proof. induction a; simpl; [lra| rewrite IHa; lra]. Qed.

Section Rep.
Variable A : Type.              (* an observation (vector, frame, ...) *)
Definition expand (obs : list A) (sal : list nat) : list A :=
  flat_map (fun p => repeat (fst p) (snd p)) (combine obs sal).
(* any per-observation statistic phi (a moment, an outer-product entry, a posterior-weighted term ...) *)
Theorem wsum_repeat (phi : A -> R) obs sal : length obs = length sal ->
  rsuml (map phi (expand obs sal)) = rsuml (map (fun p => INR (snd p) * phi (fst p)) (combine obs sal)).
Proof.
  revert sal; induction obs as [|o obs IH]; intros [|s sal] Hl; simpl in *; try lia; auto.
  unfold expand in *. simpl. rewrite map_app, rsuml_app. rewrite IH by lia.
  f_equal. clear. induction s. simpl; lra. change (repeat o (S s)) with (o :: repeat o s). simpl map. simpl rsuml. rewrite IHs, S_INR. lra. Qed.
(* hence every estimator that is a function of finitely many weighted sums (mean, scatter entry / total weight,
   resultant, mixture weight, cACG numerator and denominator) is the same on both sides *)
Corollary estimator_repeat (B : Type) (F : list R -> B) (phis : list (A -> R)) obs sal : length obs = length sal ->
  F (map (fun phi => rsuml (map phi (expand obs sal))) phis)
  = F (map (fun phi => rsuml (map (fun p => INR (snd p) * phi (fst p)) (combine obs sal))) phis).
Proof. intros H. f_equal. apply map_ext. intros phi. apply wsum_repeat; auto. Qed.
Corollary ratio_repeat (num den : A -> R) obs sal : length obs = length sal ->
  rsuml (map num (expand obs sal)) / rsuml (map den (expand obs sal))
  = rsuml (map (fun p => INR (snd p) * num (fst p)) (combine obs sal))
    / rsuml (map (fun p => INR (snd p) * den (fst p)) (combine obs sal)).
Proof. intros H. rewrite !wsum_repeat by auto. reflexivity. Qed.
End Rep.

(* the index-function sums of the model are these list sums *)
Lemma rsum_as_list n f : rsum n f = rsuml (map f (seq 0 n)).
Proof. induction n. reflexivity. cbn [rsum]. rewrite seq_S, map_app, rsuml_app, IHn. simpl. lra. Qed.

(* small sum helpers *)
Lemma rsum_scale_ext n f g c : (forall k, (k<n)%nat -> g k = f k * c) -> rsum n g = rsum n f * c.
Proof. intros H. rewrite (rsum_ext n g (fun k => f k * c)) by auto. apply rsum_scale. Qed.
Lemma rsum2_scale n m (f : nat -> nat -> R) c :
  rsum n (fun d => rsum m (fun e => f d e * c)) = rsum n (fun d => rsum m (f d)) * c.
Proof. rewrite (rsum_ext n _ (fun d => rsum m (f d) * c)) by (intros; apply rsum_scale). apply rsum_scale. Qed.
Lemma rsum3_rot n m k (t : nat -> nat -> nat -> R) :
  rsum n (fun d => rsum m (fun e => rsum k (fun i => t i d e)))
  = rsum k (fun i => rsum n (fun d => rsum m (fun e => t i d e))).
Proof. rewrite (rsum_ext n _ (fun d => rsum k (fun i => rsum m (fun e => t i d e))))
    by (intros; apply (rsum_swap m k (fun e i => t i _ e))).
  apply (rsum_swap n k (fun d i => rsum m (fun e => t i d e))). Qed.
Lemma rsum_sq n c (a : nat -> R) :
  rsum n (fun d => rsum n (fun e => c * a d * a e)) = c * (rsum n a) ^ 2.
Proof. rewrite (rsum_ext n _ (fun d => (c * a d) * rsum n a)) by (intros; rewrite <- rsum_scale_l; reflexivity).
  rewrite rsum_scale. rewrite rsum_scale_l. ring. Qed.

(* ---------- Gaussian trainer ---------- *)
Section Gauss.
Variables (D N : nat) (tiny : R) (y : nat -> nat -> R) (s : nat -> R).
Hypothesis Htiny : 0 < tiny.
Hypothesis Hden : tiny <= rsum N s.

Lemma g_den_RO : g_den RO N tiny s = rsum N s.
Proof. unfold g_den. rewrite omax_RO, bsum_RO. apply Rmax_left; lra. Qed.

(* weighted sample mean *)
Theorem g_mean_spec d : g_mean RO N tiny y s d = rsum N (fun n => s n * y n d) / rsum N s.
Proof. unfold g_mean, odiv. rewrite g_den_RO. cbn [omul oinv RO]. rewrite bsum_RO. reflexivity. Qed.
(* ... characterised by: the weighted residuals sum to zero *)
Theorem g_mean_centered d : rsum N (fun n => s n * (y n d - g_mean RO N tiny y s d)) = 0.
Proof. rewrite g_mean_spec. set (m := _ / _).
  rewrite (rsum_ext N _ (fun n => s n * y n d + (- m) * s n)) by (intros; ring).
  rewrite rsum_plus, rsum_scale_l. unfold m. field. lra. Qed.
(* pooled weighted scatter *)
Theorem g_cov_full_spec d e :
  g_cov_full RO N tiny y s d e
  = rsum N (fun n => s n * ((y n d - g_mean RO N tiny y s d) * (y n e - g_mean RO N tiny y s e))) / rsum N s.
Proof. unfold g_cov_full, odiv, osub. rewrite g_den_RO. cbn [omul oinv oadd oopp RO]. rewrite bsum_RO. reflexivity. Qed.
Theorem g_cov_full_sym d e : g_cov_full RO N tiny y s d e = g_cov_full RO N tiny y s e d.
Proof. rewrite !g_cov_full_spec. f_equal. apply rsum_ext; intros; ring. Qed.
Theorem g_cov_diag_spec d :
  g_cov_diag RO N tiny y s d = rsum N (fun n => s n * (y n d - g_mean RO N tiny y s d) ^ 2) / rsum N s.
Proof. unfold g_cov_diag. rewrite g_cov_full_spec. f_equal. apply rsum_ext; intros; ring. Qed.
(* spherical variance = mean of the diagonal variances *)
Theorem g_cov_sph_spec : (0 < D)%nat ->
  g_cov_sph RO D N tiny y s = rsum D (fun d => g_cov_diag RO N tiny y s d) / INR D.
Proof. intros HD. unfold g_cov_sph, odiv, osub. rewrite g_den_RO. cbn [omul oinv oadd oopp RO]. rewrite onat_R, bsum_RO.
  rewrite (rsum_ext D _ (fun d => rsum N (fun n => s n * (y n d - g_mean RO N tiny y s d) ^ 2) * / rsum N s))
    by (intros; rewrite g_cov_diag_spec; reflexivity).
  rewrite rsum_scale.
  assert (E : rsum N (fun n => s n * bsum RO D (fun d => (y n d + - g_mean RO N tiny y s d) * (y n d + - g_mean RO N tiny y s d)))
              = rsum D (fun d => rsum N (fun n => s n * (y n d - g_mean RO N tiny y s d) ^ 2))).
  { rewrite rsum_swap. apply rsum_ext; intros n Hn. rewrite bsum_RO. rewrite <- rsum_scale_l. apply rsum_ext; intros; ring. }
  rewrite E. assert (0 < INR D) by (apply lt_0_INR; auto). field. split; lra. Qed.
(* positive semidefinite: v^T C v = sum_n s_n (v . (y_n - m))^2 / sum s *)
Theorem g_cov_full_quadratic_form (v : nat -> R) :
  rsum D (fun d => rsum D (fun e => v d * g_cov_full RO N tiny y s d e * v e))
  = rsum N (fun n => s n * (rsum D (fun d => v d * (y n d - g_mean RO N tiny y s d))) ^ 2) / rsum N s.
Proof. set (m := g_mean RO N tiny y s). set (u := fun n d => y n d - m d).
  set (t := fun n d e => s n * (v d * u n d) * (v e * u n e)).
  assert (EA : forall d e, v d * g_cov_full RO N tiny y s d e * v e = rsum N (fun n => t n d e) * / rsum N s).
  { intros d e. rewrite g_cov_full_spec. fold m. unfold Rdiv.
    rewrite (rsum_scale_ext N (fun n => s n * (u n d * u n e)) (fun n => t n d e) (v d * v e)) by (intros; unfold t; ring).
    unfold u. ring. }
  rewrite (rsum_ext D _ (fun d => rsum D (fun e => rsum N (fun n => t n d e) * / rsum N s)))
    by (intros d Hd; apply rsum_ext; intros e He; apply EA).
  rewrite rsum2_scale. unfold Rdiv. f_equal.
  rewrite rsum3_rot. apply rsum_ext; intros n Hn. unfold t. rewrite rsum_sq. reflexivity. Qed.

Theorem g_cov_full_psd (v : nat -> R) : (forall n, (n < N)%nat -> 0 <= s n) ->
  0 <= rsum D (fun d => rsum D (fun e => v d * g_cov_full RO N tiny y s d e * v e)).
Proof. intros Hs. rewrite g_cov_full_quadratic_form.
  apply Rmult_le_pos. apply rsum_nonneg; intros n Hn. apply Rmult_le_pos; auto. apply pow2_ge_0.
  left. apply Rinv_0_lt_compat. lra. Qed.
End Gauss.

(* ---------- von Mises-Fisher trainer ---------- *)
Section VMF.
Variables (D N : nat) (tiny : R) (y : nat -> nat -> R) (s : nat -> R).
Hypothesis Htiny : 0 < tiny.
(* normalised weighted resultant: unit norm whenever the resultant is not below tiny *)
Theorem vmf_mean_unit : tiny <= rnorm RO D (vmf_r RO N y s) ->
  rsum D (fun d => vmf_mean RO D N tiny y s d * vmf_mean RO D N tiny y s d) = 1.
Proof. intros Hn. unfold vmf_mean, odiv. rewrite omax_RO, Rmax_left by lra. cbn [omul oinv RO].
  set (r := vmf_r RO N y s) in *. set (nr := rnorm RO D r) in *.
  assert (Hn2 : rsum D (fun d => r d * r d) = nr * nr).
  { unfold nr, rnorm, rnorm2. cbn [osqrt RO omul]. rewrite (bsum_RO D (fun d => r d * r d)). rewrite sqrt_sqrt; [reflexivity|].
    apply rsum_nonneg; intros; nra. }
  rewrite (rsum_ext D _ (fun d => (r d * r d) * (/ nr * / nr))) by (intros; ring).
  rewrite rsum_scale, Hn2. field. lra. Qed.
(* Banerjee (4.4) and the clip *)
Theorem vmf_kappa_spec kmin kmax : kmin <= kmax ->
  let rb := vmf_rbar RO D N y s in
  vmf_kappa RO D N kmin kmax y s = Rmin (Rmax ((rb * INR D - rb ^ 3) / (1 - rb ^ 2)) kmin) kmax
  /\ kmin <= vmf_kappa RO D N kmin kmax y s <= kmax.
Proof. intros Hk rb. unfold vmf_kappa. rewrite omin_RO, omax_RO. fold rb. split.
  - unfold vmf_kappa_raw, odiv, osub. cbn [omul oinv oadd oopp o1 RO]. rewrite onat_R. f_equal. f_equal. unfold Rdiv. f_equal; [ring|]. f_equal. ring.
  - set (x := vmf_kappa_raw RO D rb). unfold Rmin, Rmax. destruct (Rle_dec x kmin); destruct (Rle_dec _ kmax); lra. Qed.
End VMF.

(* ---------- cACG: eigenvalue normalisation is scale free (the "eigenvalue-normalised" Tyler update) ---------- *)
Lemma bmax_scale n (f : nat -> R) c : 0 <= c -> bmax RO n (fun i => c * f i) = c * bmax RO n f.
Proof. intros Hc. induction n; cbn [bmax]. reflexivity. rewrite !omax_RO, IHn. rewrite RmaxRmult by auto. reflexivity. Qed.

Theorem eig_post_eigenvalue_scale D' tiny floor (ev : nat -> R) c i :
  0 < c -> tiny <= bmax RO D' ev -> tiny <= c * bmax RO D' ev -> 0 < tiny ->
  eig_post_eigenvalue RO tiny D' floor (fun j => c * ev j) i = eig_post_eigenvalue RO tiny D' floor ev i.
Proof. intros Hc H1 H2 Ht. unfold eig_post_eigenvalue, odiv. rewrite !omax_RO. cbn [omul oinv RO].
  rewrite bmax_scale by lra. rewrite (Rmax_left (c * _)), (Rmax_left (bmax RO D' ev)) by lra.
  f_equal. field. split; lra. Qed.

(* the normalised spectrum lies in [floor, 1] and its maximum is 1 *)
Theorem eig_post_eigenvalue_domain D' tiny floor (ev : nat -> R) :
  0 < tiny -> tiny <= bmax RO D' ev -> 0 <= floor <= 1 ->
  (forall i, (i <= D')%nat -> floor <= eig_post_eigenvalue RO tiny D' floor ev i <= 1) /\
  exists i, (i <= D')%nat /\ eig_post_eigenvalue RO tiny D' floor ev i = 1.
Proof. intros Ht Hm Hf. set (mx := bmax RO D' ev) in *. split.
  - intros i Hi. unfold eig_post_eigenvalue, odiv. rewrite !omax_RO. cbn [omul oinv RO]. fold mx. rewrite (Rmax_left mx) by lra.
    pose proof (bmax_ge D' ev i Hi) as Hge. fold mx in Hge. split. apply Rmax_r.
    apply Rmax_lub; [|lra]. apply Rmult_le_reg_r with mx; [lra|]. rewrite Rmult_assoc, Rinv_l by lra. lra.
  - destruct (bmax_attained D' ev) as [i [Hi E]]. exists i. split; auto.
    unfold eig_post_eigenvalue, odiv. rewrite !omax_RO. cbn [omul oinv RO]. fold mx. rewrite (Rmax_left mx) by lra.
    fold mx in E. rewrite <- E. rewrite Rinv_r by lra. apply Rmax_left. lra. Qed.

(* ---------- complex scatter estimators are Hermitian ---------- *)
Section Scatter.
Variables (N : nat) (z : nat -> nat -> C) (c : nat -> R).
Lemma scatter_RO d e : scatter RO N z c d e = csum N (fun n => RtoC (c n) * (z n d * Cconj (z n e)))%C.
Proof. unfold scatter. rewrite csumO_RO. apply csum_ext; intros n Hn. rewrite cscale_RO. bridge. reflexivity. Qed.
Theorem scatter_hermitian : hermitian (scatter RO N z c).
Proof. intros d e. rewrite !scatter_RO. rewrite csum_conj. apply csum_ext; intros n Hn.
  rewrite !Cconj_mult, Cconj_conj, Cconj_R. ring. Qed.
End Scatter.
