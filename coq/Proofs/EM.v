(* Proofs/EM.v -- generic lemmas about the EM loop of Model/EM.v; they carry every "for all iteration counts /
   histories" quantifier (C02, C04, C05, C06, C08, C09, C20) so that each property only needs ONE-STEP lemmas. *)
From Coq Require Import Arith Lia Reals Lra List.
From PB Require Import Model.EM.

Section EM.
Variables Theta Gamma : Type.
Variables (E : Theta -> Gamma) (M : Gamma -> Theta).

Lemma fit_from_add n m t : fit_from E M (n + m) t = fit_from E M m (fit_from E M n t).
Proof. unfold fit_from. induction m as [|m IH]; simpl. rewrite Nat.add_0_r. reflexivity.
  rewrite Nat.add_succ_r. simpl. rewrite IH. reflexivity. Qed.

(* a fit of n1+n2 iterations = n1 iterations, then n2 more continued from the returned model *)
Theorem fit_split n1 n2 g0 : 1 <= n1 -> fit E M (n1 + n2) g0 = fit_from E M n2 (fit E M n1 g0).
Proof. intros H. unfold fit. replace (n1 + n2 - 1) with ((n1 - 1) + n2) by lia. apply fit_from_add. Qed.

(* a fit of n iterations is exactly M o (E;M)^(n-1): n alternations *)
Theorem fit_is_alternation n g0 : fit E M (S n) g0 = Nat.iter n (fun t => M (E t)) (M g0).
Proof. unfold fit, fit_from, step. simpl. rewrite Nat.sub_0_r. reflexivity. Qed.

Theorem fit_succ n g0 : 1 <= n -> fit E M (S n) g0 = M (E (fit E M n g0)).
Proof. intros H. unfold fit, fit_from. replace (S n - 1) with (S (n - 1)) by lia. reflexivity. Qed.

Theorem fit_invariant (Inv : Theta -> Prop) :
  (forall g, Inv (M g)) -> forall n g0, Inv (fit E M n g0).
Proof. intros H n g0. unfold fit, fit_from. destruct (n - 1) as [|k]; simpl; [apply H | apply H]. Qed.

(* every E-step output along the loop satisfies a predicate that E always establishes *)
Theorem estep_invariant (Valid : Gamma -> Prop) :
  (forall t, Valid (E t)) -> forall n g0, Valid (E (fit E M n g0)).
Proof. intros H n g0. apply H. Qed.

Theorem fit_monotone (L : Theta -> R) :
  (forall t, (L t <= L (step E M t))%R) -> forall i j t, (L (fit_from E M i t) <= L (fit_from E M (i + j) t))%R.
Proof. intros H i j t. rewrite fit_from_add. generalize (fit_from E M i t) as u. intro u.
  induction j as [|j IH]; simpl. lra. unfold fit_from in *. simpl. eapply Rle_trans; [apply IH | apply H]. Qed.

(* conditional version: monotone along every prefix on which a guard-free condition G holds *)
Theorem fit_monotone_guarded (L : Theta -> R) (G : Theta -> Prop) :
  (forall t, G t -> (L t <= L (step E M t))%R) ->
  forall j t, (forall i, i < j -> G (fit_from E M i t)) -> (L t <= L (fit_from E M j t))%R.
Proof. intros H j. induction j as [|j IH]; intros t HG; simpl. unfold fit_from; simpl; lra.
  eapply Rle_trans. apply IH. intros i Hi. apply HG. lia.
  unfold fit_from in *. simpl. apply H. apply (HG j). lia. Qed.
End EM.

Section Sim.
Variables Theta Gamma Theta' Gamma' : Type.
Variables (E : Theta -> Gamma) (M : Gamma -> Theta) (E' : Theta' -> Gamma') (M' : Gamma' -> Theta').
Variables (RG : Gamma -> Gamma' -> Prop) (RT : Theta -> Theta' -> Prop).
Hypothesis HM : forall g g', RG g g' -> RT (M g) (M' g').
Hypothesis HE : forall t t', RT t t' -> RG (E t) (E' t').
(* two EM instances whose steps preserve a relation stay related for every iteration count *)
Theorem fit_simulation n g0 g0' : RG g0 g0' -> RT (fit E M n g0) (fit E' M' n g0').
Proof. intros H. unfold fit, fit_from. induction (n - 1) as [|k IH]; simpl. apply HM; auto. unfold step. apply HM, HE, IH. Qed.
Theorem fit_from_simulation n t t' : RT t t' -> RT (fit_from E M n t) (fit_from E' M' n t').
Proof. intros H. unfold fit_from. induction n as [|k IH]; simpl; auto. unfold step. apply HM, HE, IH. Qed.
End Sim.

(* C20: a trainer that caches its dimension (and tables depending only on it) is history-free *)
Section Trainer.
Variables Args Res Table : Type.
Variable dim_of : Args -> nat.
Variable mk_table : nat -> Table.
Variable compute : Table -> Args -> Res.
Let tfit := tfit Args Res Table dim_of mk_table compute.
Let trun := trun Args Res Table dim_of mk_table compute.
Definition tinv (st : tstate Table) := match st with None => True | Some (d, t) => t = mk_table d end.
Lemma tfit_inv st a : tinv st -> tinv (fst (tfit st a)).
Proof. destruct st as [[d t]|]; simpl; intros H. destruct (Nat.eqb d (dim_of a)); simpl; auto. reflexivity. Qed.
Lemma trun_inv h : tinv (trun h).
Proof. unfold trun, EM.trun. assert (G: forall st, tinv st -> tinv (fold_left (fun st a => fst (tfit st a)) h st)).
  { induction h as [|a h IH]; simpl; intros st H; auto. apply IH, tfit_inv; auto. }
  apply G. exact I. Qed.
Theorem trainer_history_free h a :
  snd (tfit (trun h) a) = snd (tfit None a)
  \/ (snd (tfit (trun h) a) = None /\ exists d t, trun h = Some (d, t) /\ d <> dim_of a).
Proof.
  pose proof (trun_inv h) as H. destruct (trun h) as [[d t]|] eqn:E; simpl in *.
  - destruct (Nat.eqb_spec d (dim_of a)) as [->|Hne]; simpl. left. rewrite H. reflexivity.
    right. split; auto. exists d, t. auto.
  - left. reflexivity. Qed.
End Trainer.
