(* Proofs/Singular.v -- C13, last clause: Souden MVDR and WMWF on singular / zero PSD matrices.  The solve result phi is
   universally quantified (whatever stable_solve returned: the LAPACK solution, the per-matrix solution or the lstsq
   fallback); what the code adds on top - the clamp of |trace|, the division by mu + trace, the selection of a column -
   is bounded here, and a bin depends on its own matrices only. *)
From Coq Require Import Reals Lra Lia.
From Coquelicot Require Import Coquelicot.
From PB Require Import Ops CLin Model.Beamformer Proofs.Beamformer.
Open Scope C_scope.

Lemma Cmod_RtoC_pos (x : R) : (0 < x)%R -> Cmod (RtoC x) = x.
Proof. intros H. rewrite Cmod_R. apply Rabs_pos_eq. lra. Qed.

(* Souden: |w_i| <= |phi_{i,ref}| / eps for every solve result - finite whenever the solve result is *)
Theorem souden_bound D (phi : mat) (eps : R) r i : (0 < eps)%R ->
  (Cmod (souden RO D phi eps r i) <= Cmod (phi i r) / eps)%R.
Proof. intros He. rewrite souden_RO, Cmod_mult.
  assert (Hm : (0 < Rmax (Cmod (tr D phi)) eps)%R) by (pose proof (Rmax_r (Cmod (tr D phi)) eps); lra).
  rewrite Cmod_RtoC_pos by (apply Rinv_0_lt_compat; exact Hm).
  unfold Rdiv. rewrite Rmult_comm. apply Rmult_le_compat_l. apply Cmod_ge_0.
  apply Rinv_le_contravar; auto. apply Rmax_r. Qed.

(* ... and never larger than the unclamped normalisation *)
Theorem souden_clamp_shrinks D (phi : mat) (eps : R) r i : (0 < eps)%R -> (0 < Cmod (tr D phi))%R ->
  (Cmod (souden RO D phi eps r i) <= Cmod (phi i r) / Cmod (tr D phi))%R.
Proof. intros He Ht. rewrite souden_RO, Cmod_mult.
  assert (Hm : (0 < Rmax (Cmod (tr D phi)) eps)%R) by (pose proof (Rmax_r (Cmod (tr D phi)) eps); lra).
  rewrite Cmod_RtoC_pos by (apply Rinv_0_lt_compat; exact Hm).
  unfold Rdiv. rewrite Rmult_comm. apply Rmult_le_compat_l. apply Cmod_ge_0.
  apply Rinv_le_contravar; auto. apply Rmax_l. Qed.

(* a zero column of the solve result (zero target PSD, or the zero returned for a zero system) gives a zero filter *)
Theorem souden_zero D (phi : mat) (eps : R) r i : phi i r = 0 -> souden RO D phi eps r i = RtoC 0.
Proof. intros E. rewrite souden_RO, E. apply Cmult_0_r. Qed.
Theorem wmwf_zero D (phi : mat) (mu : R) r i : phi i r = 0 -> wmwf RO D phi mu r i = RtoC 0.
Proof. intros E. rewrite wmwf_RO, E. unfold Cdiv. apply Cmult_0_l. Qed.

(* WMWF with a positive distortion weight and a solve result whose trace has a non-negative real part (Phi_nn^-1 Phi_xx of
   positive semidefinite matrices): |w_i| <= |phi_{i,ref}| / mu *)
Lemma Cmod_ge_re (z : C) : (fst z <= Cmod z)%R.
Proof. pose proof (Cmod_ge_0 z). destruct (Rle_dec 0 (fst z)) as [H0|H0]; [|lra].
  unfold Cmod. rewrite <- (sqrt_square (fst z)) at 1 by exact H0. apply sqrt_le_1_alt.
  pose proof (pow2_ge_0 (snd z)). simpl in *. nra. Qed.

Theorem wmwf_bound D (phi : mat) (mu : R) r i : (0 < mu)%R -> (0 <= fst (tr D phi))%R ->
  (Cmod (wmwf RO D phi mu r i) <= Cmod (phi i r) / mu)%R.
Proof. intros Hmu Ht. rewrite wmwf_RO.
  assert (Hd : (mu <= Cmod (RtoC mu + tr D phi)%C)%R).
  { pose proof (Cmod_ge_re (RtoC mu + tr D phi)) as H. simpl in H. lra. }
  assert (Hn : RtoC mu + tr D phi <> 0). { intros E. rewrite E, Cmod_0 in Hd. lra. }
  rewrite Cmod_div by exact Hn. unfold Rdiv. apply Rmult_le_compat_l. apply Cmod_ge_0.
  apply Rinv_le_contravar; auto. Qed.

(* per leading index / per bin: the filter of a bin is a function of that bin's solve result - neighbours (singular or
   not) cannot enter.  Stacks are index functions f |-> phi f. *)
Definition souden_stack D (phi : nat -> mat) (eps : R) (r f i : nat) : C := souden RO D (phi f) eps r i.
Definition wmwf_stack D (phi : nat -> mat) (mu : R) (r f i : nat) : C := wmwf RO D (phi f) mu r i.
Theorem souden_stack_local D (phi phi' : nat -> mat) eps r f i :
  (forall p q, phi f p q = phi' f p q) -> souden_stack D phi eps r f i = souden_stack D phi' eps r f i.
Proof. intros E. unfold souden_stack. rewrite !souden_RO. rewrite (tr_ext D (phi f) (phi' f)) by (intros; apply E).
  rewrite E. reflexivity. Qed.
Theorem wmwf_stack_local D (phi phi' : nat -> mat) mu r f i :
  (forall p q, phi f p q = phi' f p q) -> wmwf_stack D phi mu r f i = wmwf_stack D phi' mu r f i.
Proof. intros E. unfold wmwf_stack. rewrite !wmwf_RO. rewrite (tr_ext D (phi f) (phi' f)) by (intros; apply E).
  rewrite E. reflexivity. Qed.
