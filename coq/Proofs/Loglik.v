(* Proofs/Loglik.v -- the log_likelihood method is the mixture log-likelihood sum_n ln sum_k pi_k p_k(y_n). *)
From Coq Require Import Reals Lra Lia.
From Coquelicot Require Import Coquelicot.
From PB Require Import Ops CLin Model.Loglik Proofs.EMAscent.
Open Scope R_scope.

Theorem lse_spec K' (b a : nat -> R) :
  0 < rsum (S K') (fun k => b k * exp (a k)) ->
  lse RO K' b a = ln (rsum (S K') (fun k => b k * exp (a k))).
Proof. intros Hpos. unfold lse, osub. cbn [oadd oln omul oexp oopp RO]. rewrite bsum_RO.
  set (m := bmax RO K' a).
  rewrite (rsum_ext (S K') _ (fun k => (b k * exp (a k)) * exp (- m))) by (intros; rewrite exp_plus; ring).
  rewrite rsum_scale. rewrite ln_mult; auto; [|apply exp_pos]. rewrite ln_exp. ring. Qed.

(* with joints q n k = w n k * exp (l n k): the method equals the observed-data log-likelihood of C02 *)
Theorem mix_loglik_spec N K' (w l : nat -> nat -> R) :
  (forall n, (n < N)%nat -> 0 < rsum (S K') (fun k => w n k * exp (l n k))) ->
  mix_loglik RO K' N w l = loglik N (S K') (fun _ => 1) (fun n k => w n k * exp (l n k)).
Proof. intros H. unfold mix_loglik, loglik. rewrite bsum_RO. apply rsum_ext; intros n Hn.
  rewrite lse_spec by (apply H; auto). ring. Qed.
