(* Proofs/PermAlignLoop.v -- C14/C16: the aligners of Model/PermAlign.v on lists.
   Every mapping produced by the oracle, the greedy chain and the DHTV loop is a permutation per bin
   (for every input, ties included); the DHTV state obeys features = initial[mapping] (the mapping
   is the accumulated net reordering); consistent inputs give the identity; the greedy chain undoes
   every per-frequency permutation field of a reference whose adjacent-bin score matrices are
   (row-or-column) diagonally dominant.  Any scalar carrier whose `oltb` is a strict weak order. *)
From Coq Require Import List Arith Lia Bool Permutation.
From PB Require Import Ops Model.PermAlign Proofs.PermAlignAssign.
Import ListNotations.

(* ---------------------------------------------------------------- apply_mapping, index form *)
Theorem apply_mapping_spec {A} (mask : nat -> nat -> A) mapping k f :
  apply_mapping mask mapping k f = mask (mapping k f) f.
Proof. reflexivity. Qed.

Theorem apply_mapping_multiset {A} K (mask : nat -> nat -> A) mapping f :
  is_perm K (map (fun k => mapping k f) (seq 0 K)) ->
  Permutation (map (fun k => apply_mapping mask mapping k f) (seq 0 K)) (map (fun k => mask k f) (seq 0 K)).
Proof. intros H. unfold apply_mapping.
  rewrite <- (map_map (fun k => mapping k f) (fun j => mask j f)). apply Permutation_map. exact H. Qed.

(* ---------------------------------------------------------------- apply_bins *)
Lemma apply_bins_length {A} maps (bins : list (list (list A))) :
  length (apply_bins maps bins) = Nat.min (length maps) (length bins).
Proof. unfold apply_bins. rewrite map_length. apply combine_length. Qed.
Lemma apply_bins_cons {A} p maps b (bins : list (list (list A))) :
  apply_bins (p :: maps) (b :: bins) = permute [] p b :: apply_bins maps bins.
Proof. reflexivity. Qed.
(* aligned[f][k] = mask[f][mapping[f][k]] *)
Theorem apply_bins_nth {A} maps (bins : list (list (list A))) f k :
  f < length maps -> f < length bins -> k < length (nth f maps []) ->
  nth k (nth f (apply_bins maps bins) []) [] = nth (nth k (nth f maps []) 0) (nth f bins []) [].
Proof. revert bins f. induction maps as [|p maps IH]; intros bins f Hf Hb Hk; simpl in Hf; [lia|].
  destruct bins as [|b bins]; simpl in Hb; [lia|]. rewrite apply_bins_cons.
  destruct f as [|f]; simpl in *. apply permute_nth; auto. apply IH; lia. Qed.
(* per bin, the aligned rows are a rearrangement of the input rows *)
Theorem apply_bins_multiset {A} maps (bins : list (list (list A))) :
  Forall2 (fun p b => is_perm (length b) p) maps bins ->
  Forall2 (@Permutation _) (apply_bins maps bins) bins.
Proof. induction 1; [constructor|]. rewrite apply_bins_cons. constructor; auto. apply permute_perm; auto. Qed.

(* ---------------------------------------------------------------- inverse of a permutation list *)
Fixpoint index_of (j : nat) (p : list nat) : nat :=
  match p with [] => 0 | x :: r => if Nat.eqb x j then 0 else S (index_of j r) end.
Lemma index_of_in j p : In j p -> index_of j p < length p /\ nth (index_of j p) p 0 = j.
Proof. induction p as [|x r IH]; intros H; [inversion H|]. simpl.
  destruct (Nat.eqb x j) eqn:E. apply Nat.eqb_eq in E. split; [lia|auto].
  destruct H as [->|H]. rewrite Nat.eqb_refl in E; discriminate.
  destruct (IH H). split; [lia|auto]. Qed.
Lemma index_of_nth k p : NoDup p -> k < length p -> index_of (nth k p 0) p = k.
Proof. revert k; induction p as [|x r IH]; intros k Hnd Hk; simpl in Hk; [lia|].
  inversion Hnd; subst. destruct k as [|k]; simpl. rewrite Nat.eqb_refl; auto.
  destruct (Nat.eqb x (nth k r 0)) eqn:E.
  - apply Nat.eqb_eq in E. exfalso. apply H1. rewrite E. apply nth_In. lia.
  - f_equal. apply IH; auto. lia. Qed.

Lemma Forall2_len {A B} (R : A -> B -> Prop) l1 l2 : Forall2 R l1 l2 -> length l1 = length l2.
Proof. induction 1; simpl; auto. Qed.

Lemma nth_map_seq {A} K (f : nat -> A) j d : j < K -> nth j (map f (seq 0 K)) d = f j.
Proof. intros H. rewrite (nth_indep _ d (f 0)) by (rewrite map_length, seq_length; auto).
  rewrite (map_nth f). rewrite seq_nth by auto. reflexivity. Qed.

Section AlignersP.
Context {T : Type} (P : ops T).
Hypothesis lt_irrefl : forall x, oltb P x x = false.
Hypothesis lt_trans : forall x y z, oltb P x y = true -> oltb P y z = true -> oltb P x z = true.
Hypothesis lt_negtrans : forall x y z, oltb P x y = false -> oltb P y z = false -> oltb P x z = false.
Variable tiny : T.
Local Notation bin := (@bin T).

(* ---- _mapping_from_score_matrix on a table ---- *)
Theorem assign_is_perm g K (M : list (list T)) : is_perm K (assign P g K M).
Proof. unfold assign. destruct g.
  - apply (greedy_assign_is_perm (oltb P)); auto.
  - apply (optimal_assign_is_perm (oltb P)); auto. Qed.

Lemma mget_mtab K (f : nat -> nat -> T) i j : i < K -> j < K -> mget P (mtab K f) i j = f i j.
Proof. intros Hi Hj. unfold mget, mtab.
  rewrite (nth_indep _ [] (map (f 0) (seq 0 K))) by (rewrite map_length, seq_length; auto).
  rewrite (map_nth (fun i => map (f i) (seq 0 K))). rewrite seq_nth by auto. simpl.
  rewrite (nth_indep _ (o0 P) (f i 0)) by (rewrite map_length, seq_length; auto).
  rewrite (map_nth (f i)). rewrite seq_nth by auto. reflexivity. Qed.
Lemma assign_mtab_greedy K (f : nat -> nat -> T) : assign P true K (mtab K f) = greedy_assign (oltb P) K f.
Proof. unfold assign. apply greedy_assign_ext. intros; apply mget_mtab; auto. Qed.
Lemma assign_mtab_optimal K (f : nat -> nat -> T) :
  assign P false K (mtab K f) = optimal_assign (oltb P) K f (oadd P) (o0 P).
Proof. unfold assign. apply (optimal_assign_ext (oltb P)). intros; apply mget_mtab; auto. Qed.

(* a matrix whose off-diagonal cells are strictly below the diagonal cell of their row or of their
   column is assigned the identity by the greedy algorithm *)
Definition dominant (K : nat) (f : nat -> nat -> T) : Prop :=
  forall i j, i < K -> j < K -> j <> i -> oltb P (f i j) (f i i) = true \/ oltb P (f i j) (f j j) = true.
Theorem diag_dominant_identity K f : dominant K f -> assign P true K (mtab K f) = seq 0 K.
Proof. intros H. rewrite assign_mtab_greedy.
  rewrite (greedy_follows_matching (oltb P) lt_irrefl lt_trans lt_negtrans K f (fun i => i) (fun i => i)); auto.
  apply map_id. Qed.
(* rows relabelled by alpha, columns by beta: the greedy assignment is beta^-1 o alpha *)
Theorem permuted_dominant_recovered K D (alpha beta alpha' beta' : nat -> nat) :
  (forall i, i < K -> alpha i < K) -> (forall i, i < K -> beta i < K) ->
  (forall i, i < K -> alpha' i < K) -> (forall i, i < K -> beta' i < K) ->
  (forall i, i < K -> alpha' (alpha i) = i) -> (forall i, i < K -> alpha (alpha' i) = i) ->
  (forall i, i < K -> beta' (beta i) = i) -> (forall i, i < K -> beta (beta' i) = i) ->
  dominant K D ->
  assign P true K (mtab K (fun i j => D (alpha i) (beta j))) = map (fun i => beta' (alpha i)) (seq 0 K).
Proof. intros Ha Hb Ha' Hb' Haa Haa' Hbb Hbb' HD. rewrite assign_mtab_greedy.
  apply (greedy_follows_matching (oltb P) lt_irrefl lt_trans lt_negtrans K _
           (fun i => beta' (alpha i)) (fun j => alpha' (beta j))); auto.
  - intros i Hi. rewrite Hbb' by auto. apply Haa; auto.
  - intros j Hj. rewrite Haa' by auto. apply Hbb; auto.
  - intros i j Hi Hj Hne. cbv beta. rewrite Hbb' by auto. rewrite Haa' by auto.
    apply HD; auto. intros E. apply Hne. rewrite <- E. symmetry. apply Hbb; auto. Qed.

(* ---- oracle ---- *)
Theorem oracle_is_perm m g K Tn mask ref : Forall (is_perm K) (oracle P tiny m g K Tn mask ref).
Proof. unfold oracle. apply Forall_forall. intros p Hp. apply in_map_iff in Hp as [x [<- _]]. apply assign_is_perm. Qed.
Lemma oracle_length m g K Tn mask ref :
  length (oracle P tiny m g K Tn mask ref) = Nat.min (length mask) (length ref).
Proof. unfold oracle. rewrite map_length. apply combine_length. Qed.

(* ---- greedy chain ---- *)
Lemma adjacent_is_perm m K Tn prev rest : Forall (is_perm K) (adjacent P tiny m K Tn prev rest).
Proof. revert prev; induction rest as [|b r IH]; intros prev; cbn [adjacent]; constructor; auto. apply assign_is_perm. Qed.
Lemma adjacent_length m K Tn prev rest : length (adjacent P tiny m K Tn prev rest) = length rest.
Proof. revert prev; induction rest as [|b r IH]; intros prev; simpl; auto. Qed.
Lemma chain_is_perm K prev ms : is_perm K prev -> Forall (is_perm K) ms -> Forall (is_perm K) (chain prev ms).
Proof. revert prev; induction ms as [|m r IH]; intros prev Hp Hm; simpl; constructor; inversion Hm; subst.
  - apply permute_is_perm; auto.
  - apply IH; auto. apply permute_is_perm; auto. Qed.
Lemma chain_length prev ms : length (chain prev ms) = length ms.
Proof. revert prev; induction ms as [|m r IH]; intros prev; simpl; auto. Qed.
Theorem greedy_chain_is_perm m K Tn mask : Forall (is_perm K) (greedy_chain P tiny m K Tn mask).
Proof. unfold greedy_chain. destruct mask as [|b0 rest]; constructor. apply is_perm_id.
  apply chain_is_perm. apply is_perm_id. apply adjacent_is_perm. Qed.
Lemma greedy_chain_length m K Tn mask : length (greedy_chain P tiny m K Tn mask) = length mask.
Proof. unfold greedy_chain. destruct mask as [|b0 rest]; simpl; auto. rewrite chain_length, adjacent_length. auto. Qed.
(* the returned mapping is the running composition of the adjacent-bin assignments:
   mapping[:, 0] = identity, mapping[:, f+1] = assignment_f[mapping[:, f]] *)
Theorem greedy_chain_net_reordering m K Tn b0 rest f :
  f < length rest ->
  let ms := adjacent P tiny m K Tn b0 rest in
  let mp := greedy_chain P tiny m K Tn (b0 :: rest) in
  nth 0 mp [] = seq 0 K /\ nth (S f) mp [] = permute 0 (nth f mp []) (nth f ms []).
Proof. intros Hf ms mp. unfold mp, greedy_chain. fold ms. split; [reflexivity|].
  assert (Hl: f < length ms) by (unfold ms; rewrite adjacent_length; auto). clearbody ms. clear Hf mp.
  generalize (seq 0 K) as prev. revert f Hl. induction ms as [|m1 r IH]; intros f Hl prev; simpl in Hl; [lia|].
  destruct f as [|f]. reflexivity.
  change (nth (S (S f)) (prev :: chain prev (m1 :: r)) []) with (nth (S f) (permute 0 prev m1 :: chain (permute 0 prev m1) r) []).
  rewrite (IH f ltac:(lia) (permute 0 prev m1)). reflexivity. Qed.

(* ---- DHTV ---- *)
Definition feat (m : metric) (Tn : nat) (b : bin) : bin := match m with Cos => normalize_bin P tiny Tn b | _ => b end.
Definition binv (K : nat) (sm : bin * list nat) (b0 : bin) : Prop :=
  is_perm K (snd sm) /\ fst sm = permute [] (snd sm) b0.

Lemma dhtv_bin_inv m g K Tn cent s e idx sm b0 :
  binv K sm b0 -> binv K (fst (dhtv_bin P tiny m g K Tn cent s e (idx, sm))) b0.
Proof. destruct sm as [ft mp]. intros [Hp Hf]. simpl in Hp, Hf. unfold dhtv_bin.
  destruct ((s <=? idx) && (idx <? e)); [|split; auto].
  set (p := assign P g K _). assert (Hpp: is_perm K p) by apply assign_is_perm.
  destruct (is_id K p); cbn [fst snd]; [split; auto|]. split.
  - apply permute_is_perm; auto.
  - subst ft. apply permute_permute. intros x Hx. rewrite (is_perm_length K mp Hp).
    apply (is_perm_bound K p); auto. Qed.

Lemma map_step_inv {A B} (R : A -> B -> Prop) (step : nat * A -> A * bool) (st : list A) (f0 : list B) a :
  (forall idx x y, R x y -> R (fst (step (idx, x))) y) ->
  Forall2 R st f0 -> Forall2 R (map fst (map step (combine (seq a (length st)) st))) f0.
Proof. intros Hs H. revert a. induction H; intros a; simpl; constructor; auto. Qed.

Lemma dhtv_pass_inv m g K Tn s e st f0 :
  Forall2 (binv K) st f0 -> Forall2 (binv K) (fst (dhtv_pass P tiny m g K Tn s e st)) f0.
Proof. intros H. unfold dhtv_pass. cbv zeta. cbn [fst]. apply map_step_inv; auto.
  intros idx x y. apply dhtv_bin_inv. Qed.
Lemma dhtv_iter_inv m g K Tn n s e st f0 :
  Forall2 (binv K) st f0 -> Forall2 (binv K) (dhtv_iter P tiny m g K Tn n s e st) f0.
Proof. revert st; induction n as [|n IH]; intros st H; cbn [dhtv_iter]; auto.
  pose proof (dhtv_pass_inv m g K Tn s e st f0 H) as H1.
  destruct (dhtv_pass P tiny m g K Tn s e st) as [st' ch]. cbn [fst] in H1. destruct ch; [apply IH|]; auto. Qed.
Lemma dhtv_init_inv m K Tn mask :
  Forall (fun b => length b = K) mask ->
  Forall2 (binv K) (dhtv_init P tiny m K Tn mask) (map (feat m Tn) mask).
Proof. intros H. unfold dhtv_init. induction H as [|b r Hb Hr IH]; simpl; constructor; auto.
  split; cbn [fst snd]. apply is_perm_id.
  assert (Hl: length (feat m Tn b) = K) by (unfold feat, normalize_bin; destruct m; try rewrite map_length; auto).
  rewrite <- Hl. symmetry. apply permute_id. Qed.
Lemma dhtv_run_inv m g K Tn pl mask :
  Forall (fun b => length b = K) mask ->
  Forall2 (binv K) (dhtv_run P tiny m g K Tn pl mask) (map (feat m Tn) mask).
Proof. intros H. unfold dhtv_run. pose proof (dhtv_init_inv m K Tn mask H) as H0.
  revert H0. generalize (dhtv_init P tiny m K Tn mask) as st.
  induction pl as [|[[n s] e] r IH]; intros st H0; simpl; auto.
  apply IH. apply dhtv_iter_inv; auto. Qed.

(* C14: every DHTV mapping is a permutation, for every mask (ties included), plan, metric, algorithm *)
Theorem dhtv_is_perm m g K Tn pl mask :
  Forall (fun b => length b = K) mask ->
  Forall (is_perm K) (dhtv P tiny m g K Tn pl mask) /\ length (dhtv P tiny m g K Tn pl mask) = length mask.
Proof. intros H. pose proof (dhtv_run_inv m g K Tn pl mask H) as H1. unfold dhtv.
  split.
  - induction H1; simpl; constructor; auto. destruct H0; auto.
  - rewrite map_length. rewrite (Forall2_len _ _ _ H1). apply map_length. Qed.
(* C16: the loop invariant -- the features the procedure converged to are the initial features
   reordered by the returned mapping *)
Theorem dhtv_net_reordering m g K Tn pl mask :
  Forall (fun b => length b = K) mask ->
  map fst (dhtv_run P tiny m g K Tn pl mask) = apply_bins (dhtv P tiny m g K Tn pl mask) (map (feat m Tn) mask).
Proof. intros H. pose proof (dhtv_run_inv m g K Tn pl mask H) as H1. unfold dhtv.
  revert H1. generalize (map (feat m Tn) mask) as f0. generalize (dhtv_run P tiny m g K Tn pl mask) as st.
  intros st f0 H1.
  induction H1 as [|sm b0 st f0 Hb H1 IH]; [reflexivity|]. cbn [map]. rewrite (apply_bins_cons (A:=T)).
  destruct Hb as [_ Hb]. rewrite Hb. f_equal. exact IH. Qed.

(* ---- nothing to do: every visited bin already agrees with its segment centroid ---- *)
Definition dhtv_cent (m : metric) (K Tn s e : nat) (st : dstate) : bin :=
  match m with Cos => normalize_bin P tiny Tn (centroid P K Tn s e st) | _ => centroid P K Tn s e st end.
Lemma map_step_fix {A} (step : nat * A -> A * bool) (d : A) (l : list A) a :
  (forall i, i < length l -> step (a + i, nth i l d) = (nth i l d, false)) ->
  map fst (map step (combine (seq a (length l)) l)) = l /\
  existsb snd (map step (combine (seq a (length l)) l)) = false.
Proof. revert a; induction l as [|x r IH]; intros a H; simpl; auto.
  pose proof (H 0 ltac:(simpl; lia)) as H0. rewrite Nat.add_0_r in H0. simpl in H0. rewrite H0. simpl.
  destruct (IH (S a)) as [I1 I2].
  { intros i Hi. specialize (H (S i) ltac:(simpl; lia)). simpl in H. rewrite <- H. f_equal. f_equal. lia. }
  rewrite I1, I2. auto. Qed.
Lemma dhtv_bin_fix m g K Tn cent s e idx (sm : bin * list nat) :
  (s <= idx < e -> assign P g K (score_bins P tiny (dhtv_metric m) K Tn (fst sm) cent) = seq 0 K) ->
  dhtv_bin P tiny m g K Tn cent s e (idx, sm) = (sm, false).
Proof. destruct sm as [ft mp]. cbn [fst]. intros H. unfold dhtv_bin.
  destruct ((s <=? idx) && (idx <? e)) eqn:Eb; auto.
  apply andb_true_iff in Eb as [E1 E2]. apply Nat.leb_le in E1. apply Nat.ltb_lt in E2.
  rewrite H by lia. unfold is_id.
  destruct (list_eq_dec Nat.eq_dec (seq 0 K) (seq 0 K)); [reflexivity|contradiction]. Qed.
Lemma dhtv_pass_fix m g K Tn s e st :
  (forall idx, idx < length st -> s <= idx < e ->
     assign P g K (score_bins P tiny (dhtv_metric m) K Tn (fst (nth idx st ([], []))) (dhtv_cent m K Tn s e st)) = seq 0 K) ->
  dhtv_pass P tiny m g K Tn s e st = (st, false).
Proof. intros H. unfold dhtv_pass. cbv zeta. fold (dhtv_cent m K Tn s e st).
  destruct (map_step_fix (dhtv_bin P tiny m g K Tn (dhtv_cent m K Tn s e st) s e) ([], []) st 0) as [H1 H2].
  - intros i Hi. cbn [Nat.add]. apply dhtv_bin_fix. intros Hr. apply H; auto.
  - rewrite H1, H2. reflexivity. Qed.
Theorem dhtv_fixed_identity m g K Tn pl mask :
  let st0 := dhtv_init P tiny m K Tn mask in
  (forall n s e idx, In (n, s, e) pl -> idx < length mask -> s <= idx < e ->
     assign P g K (score_bins P tiny (dhtv_metric m) K Tn (fst (nth idx st0 ([], []))) (dhtv_cent m K Tn s e st0)) = seq 0 K) ->
  dhtv P tiny m g K Tn pl mask = map (fun _ => seq 0 K) mask.
Proof. intros st0 H. unfold dhtv, dhtv_run. fold st0.
  assert (Hl: length st0 = length mask) by (unfold st0, dhtv_init; apply map_length).
  assert (E: fold_left (fun st sg => let '(n, s, e) := sg in dhtv_iter P tiny m g K Tn n s e st) pl st0 = st0).
  { induction pl as [|[[n s] e] r IH]; simpl; auto.
    assert (E1: dhtv_iter P tiny m g K Tn n s e st0 = st0).
    { destruct n as [|n]; cbn [dhtv_iter]; auto. rewrite dhtv_pass_fix; auto.
      intros idx Hi Hr. apply (H (S n) s e idx); [left; reflexivity | rewrite <- Hl; exact Hi | exact Hr]. }
    rewrite E1. apply IH. intros n0 s0 e0 idx Hin Hi Hr.
    apply (H n0 s0 e0 idx); [right; exact Hin | exact Hi | exact Hr]. }
  rewrite E. unfold st0, dhtv_init. rewrite map_map. reflexivity. Qed.

(* ---- inline EM alignment: one mapping, applied to affiliation and quadratic form alike ---- *)
Theorem inline_align_same_mapping (calc : list bin -> list (list nat)) aff quad :
  inline_align calc aff quad = (apply_bins (calc aff) aff, apply_bins (calc aff) quad).
Proof. reflexivity. Qed.

(* ---- integration models: the permutation search returns a permutation that is not worse than
   the identity under its own criterion ---- *)
Lemma ipa_select_spec K Tn spatial spectral :
  let aux := ipa_aux P tiny K Tn spatial spectral in
  let p := ipa_select P tiny K Tn spatial spectral in
  In p (all_perms (seq 0 K)) /\ forall q, In q (all_perms (seq 0 K)) -> oltb P (aux p) (aux q) = false.
Proof. intros aux p. unfold p, ipa_select. fold aux. destruct (all_perms_head (seq 0 K)) as [r E]. rewrite E.
  destruct (scan_none (oltb P) lt_irrefl lt_trans lt_negtrans aux r (seq 0 K)) as [q [H1 [H2 H3]]].
  rewrite H1. auto. Qed.
Theorem ipa_select_is_perm K Tn spatial spectral : is_perm K (ipa_select P tiny K Tn spatial spectral).
Proof. destruct (ipa_select_spec K Tn spatial spectral) as [H _]. unfold is_perm. symmetry. apply all_perms_sound; auto. Qed.
Theorem ipa_not_worse K Tn spatial spectral q : is_perm K q ->
  oltb P (ipa_aux P tiny K Tn spatial spectral (ipa_select P tiny K Tn spatial spectral))
         (ipa_aux P tiny K Tn spatial spectral q) = false.
Proof. intros Hq. destruct (ipa_select_spec K Tn spatial spectral) as [_ H]. apply H.
  apply all_perms_complete. symmetry. exact Hq. Qed.

(* ---- greedy chain restores a frequency-consistent order ---- *)
Section Restore.
Variables (m : metric) (K Tn : nat).
(* adjacent-bin score of reference class j in the upper bin against class i in the lower bin *)
Definition adj_score (r0 r1 : bin) (i j : nat) : T :=
  pair_score P Tn tiny m (rowfn P (nth j r1 [])) (rowfn P (nth i r0 [])).
Fixpoint adj_dominant (r0 : bin) (rs : list bin) : Prop :=
  match rs with [] => True | r1 :: rs' => dominant K (adj_score r0 r1) /\ adj_dominant r1 rs' end.

Lemma rget_permute p (b : bin) k : k < length p -> rget P (permute [] p b) k = rowfn P (nth (nth k p 0) b []).
Proof. intros H. unfold rget, rowfn. pose proof (permute_nth (A:=list T) [] p b k H) as E.
  change (@nth row) with (@nth (list T)). rewrite E. reflexivity. Qed.

Lemma score_bins_permuted p0 p1 r0 r1 :
  is_perm K p0 -> is_perm K p1 ->
  assign P true K (score_bins P tiny m K Tn (permute [] p1 r1) (permute [] p0 r0))
  = assign P true K (mtab K (fun i j => adj_score r0 r1 (nth i p0 0) (nth j p1 0))).
Proof. intros H0 H1. unfold score_bins. rewrite !assign_mtab_greedy. apply greedy_assign_ext.
  intros i j Hi Hj. unfold score_fn, adj_score.
  rewrite (rget_permute p1 r1 j) by (rewrite (is_perm_length K p1 H1); auto).
  rewrite (rget_permute p0 r0 i) by (rewrite (is_perm_length K p0 H0); auto). reflexivity. Qed.

Lemma adjacent_recovered p0 p1 r0 r1 :
  is_perm K p0 -> is_perm K p1 -> dominant K (adj_score r0 r1) ->
  assign P true K (score_bins P tiny m K Tn (permute [] p1 r1) (permute [] p0 r0))
  = map (fun i => index_of (nth i p0 0) p1) (seq 0 K).
Proof. intros H0 H1 HD. rewrite score_bins_permuted by auto.
  pose proof (is_perm_length K p0 H0) as L0. pose proof (is_perm_length K p1 H1) as L1.
  apply (permuted_dominant_recovered K (adj_score r0 r1) (fun i => nth i p0 0) (fun j => nth j p1 0)
           (fun x => index_of x p0) (fun x => index_of x p1)); auto.
  - intros i Hi. apply is_perm_nth; auto.
  - intros i Hi. apply is_perm_nth; auto.
  - intros i Hi. rewrite <- L0. apply index_of_in. apply (is_perm_in K); auto.
  - intros i Hi. rewrite <- L1. apply index_of_in. apply (is_perm_in K); auto.
  - intros i Hi. apply index_of_nth. apply (is_perm_nodup K); auto. lia.
  - intros i Hi. apply index_of_in. apply (is_perm_in K); auto.
  - intros i Hi. apply index_of_nth. apply (is_perm_nodup K); auto. lia.
  - intros i Hi. apply index_of_in. apply (is_perm_in K); auto. Qed.

Lemma chain_restores rs : forall ps r0 p0 prev,
  is_perm K p0 -> is_perm K prev -> Forall2 (fun p (_ : bin) => is_perm K p) ps rs -> adj_dominant r0 rs ->
  Forall2 (fun M p => permute 0 M p = permute 0 prev p0)
          (chain prev (adjacent P tiny m K Tn (permute [] p0 r0) (apply_bins ps rs))) ps.
Proof. induction rs as [|r1 rs IH]; intros ps r0 p0 prev H0 Hprev Hps Hdom; inversion Hps; subst.
  - simpl. constructor.
  - rename x into p1, l into ps'. rewrite (apply_bins_cons (A:=T)). cbn [adjacent chain]. destruct Hdom as [HD Hdom].
    rewrite (adjacent_recovered p0 p1 r0 r1) by auto.
    set (m1 := map (fun i => index_of (nth i p0 0) p1) (seq 0 K)).
    assert (Hcur: permute 0 (permute 0 prev m1) p1 = permute 0 prev p0).
    { unfold permute. rewrite map_map. apply map_ext_in. intros j Hj.
      assert (Hjk: j < K) by (apply (is_perm_bound K prev); auto).
      unfold m1. rewrite nth_map_seq by auto.
      apply index_of_in. apply (is_perm_in K); auto. apply is_perm_nth; auto. }
    assert (Hm1: is_perm K m1).
    { unfold m1. rewrite <- (adjacent_recovered p0 p1 r0 r1) by auto. apply assign_is_perm. }
    constructor; auto.
    rewrite <- Hcur. apply IH; auto. apply permute_is_perm; auto. Qed.

Lemma apply_bins_compose_const (q : list nat) Ms : forall pl (bins : list bin),
  Forall2 (fun M p => permute 0 M p = q) Ms pl -> Forall (is_perm K) Ms ->
  Forall2 (fun p (_ : bin) => is_perm K p) pl bins ->
  apply_bins Ms (apply_bins pl bins) = map (permute [] q) bins.
Proof. induction Ms as [|M Ms IH]; intros pl bins HA Hperm Hps; inversion HA; subst; inversion Hps; subst.
  - reflexivity.
  - inversion Hperm; subst. rewrite !(apply_bins_cons (A:=T)). cbn [map]. f_equal.
    + rewrite permute_permute. reflexivity.
      intros x Hx. rewrite (is_perm_length K y) by auto. apply (is_perm_bound K M); auto.
    + apply IH; auto. Qed.

(* the mask is the reference with class order ps[f] in bin f; after alignment every bin carries the
   class order of bin 0 *)
Theorem greedy_chain_restores r0 rs p0 ps :
  is_perm K p0 -> Forall2 (fun p (_ : bin) => is_perm K p) ps rs -> adj_dominant r0 rs ->
  let mask := apply_bins (p0 :: ps) (r0 :: rs) in
  Forall2 (fun M p => permute 0 M p = p0) (greedy_chain P tiny m K Tn mask) (p0 :: ps) /\
  apply_bins (greedy_chain P tiny m K Tn mask) mask = map (permute [] p0) (r0 :: rs).
Proof. intros H0 Hps Hdom mask.
  assert (Hid: permute 0 (seq 0 K) p0 = p0).
  { rewrite <- (is_perm_length K p0 H0). apply permute_id. }
  assert (HA: Forall2 (fun M p => permute 0 M p = p0) (greedy_chain P tiny m K Tn mask) (p0 :: ps)).
  { unfold mask. rewrite (apply_bins_cons (A:=T)). unfold greedy_chain. constructor; auto.
    pose proof (chain_restores rs ps r0 p0 (seq 0 K) H0 (is_perm_id K) Hps Hdom) as H. rewrite Hid in H. exact H. }
  split; auto. unfold mask at 2. apply apply_bins_compose_const; auto.
  apply greedy_chain_is_perm. Qed.
End Restore.
End AlignersP.
