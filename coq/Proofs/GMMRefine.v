(* Proofs/GMMRefine.v -- C02: the executable whole-loop model of GMMTrainer (Model/GMMLoop.v, the very functions the
   correspondence check runs on binary64 against fit(..., iterations=n)) read on the real-number instance IS the EM
   iteration of Proofs/GMMAscent.v; hence the mixture log-likelihood of gmm_fit is non-decreasing in the iteration count
   along every guard-free prefix -- with no hypothesis about E- or M-step left. *)
From Coq Require Import Reals Lra Lia List.
From PB Require Import Ops CLin Model.Posterior Model.Trainers Model.EM Model.GMMLoop
     Proofs.EM Proofs.EMAscent Proofs.Posterior Proofs.GMMAscent Proofs.GMMSphAscent.
Import ListNotations.
Open Scope R_scope.

Lemma nth_tabl {A} n (f : nat -> A) i d : (i < n)%nat -> nth i (tabl n f) d = f i.
Proof. intros Hi. unfold tabl. rewrite (nth_indep _ d (f 0%nat)) by (rewrite map_length, seq_length; exact Hi).
  rewrite map_nth. rewrite seq_nth by exact Hi. reflexivity. Qed.

Lemma bsum_ext_RO n f g : (forall k, (k < n)%nat -> f k = g k) -> bsum RO n f = bsum RO n g.
Proof. intros H. rewrite !bsum_RO. apply rsum_ext; exact H. Qed.

Section Refine.
Variables (K' D N : nat) (tiny tinyw : R) (y : nat -> nat -> R).
Let K := S K'.
Hypothesis Htiny : 0 < tiny.
Hypothesis HN : (0 < N)%nat.
Notation gmmR := (@gmm R).
Notation E_ := (gmm_E RO K' D N tiny (2 * PI) y).
Notation M_ := (gmm_M RO K' D N tiny tinyw y).

(* parameters of a fitted model as index functions *)
Definition mw (m : gmmR) (k : nat) : R := nthT RO (gw m) k.
Definition mmu (m : gmmR) (k d : nat) : R := nth2T RO (gmean m) k d.
Definition mv (m : gmmR) (k d : nat) : R := nth2T RO (gvar m) k d.
Definition mtheta (m : gmmR) : theta := (mw m, mmu m, mv m).
(* the mixture log-likelihood of a model, written with the model's own log-density *)
Definition mloglik (m : gmmR) : R :=
  loglik N K (fun _ => 1) (fun n k => mw m k * exp (diag_log_pdf RO D (2 * PI) y m k n)).

Lemma diag_log_pdf_glp m k n : diag_log_pdf RO D (2 * PI) y m k n = glp D y (mmu m) (mv m) k n.
Proof. unfold diag_log_pdf, glp, mmu, mv. rewrite !bsum_RO, onat_R. cbn [oadd oopp omul oinv oln osqrt osub o1 RO].
  replace (/ (1 + 1)) with (/ 2) by (f_equal; ring).
  match goal with |- context [bsum RO D ?f] => rewrite (bsum_RO D f) end.
  match goal with |- context [rsum D ?f] => match f with context [Rplus] =>
    rewrite (rsum_ext D f (fun d => / sqrt (nth2T RO (gvar m) k d) * (y n d - nth2T RO (gmean m) k d) *
       (/ sqrt (nth2T RO (gvar m) k d) * (y n d - nth2T RO (gmean m) k d)))) by (intros; ring) end end.
  ring. Qed.

Lemma mloglik_theta m : mloglik m = gmm_loglik K' D N y (mtheta m).
Proof. unfold mloglik, gmm_loglik, loglik, mtheta, tw, tmu, tv. cbn [fst snd]. apply rsum_ext; intros n Hn. f_equal. f_equal.
  apply rsum_ext; intros k Hk. unfold joint. rewrite diag_log_pdf_glp. reflexivity. Qed.

(* E-step entries *)
Lemma E_entry m k n : (k < K)%nat -> (n < N)%nat ->
  nth2T RO (E_ m) k n = posterior RO K' tiny (mw m) (fun j => diag_log_pdf RO D (2 * PI) y m j n) (fun _ => true) k.
Proof. intros Hk Hn. unfold gmm_E, nth2T. fold K. rewrite (nth_tabl K) by exact Hk. rewrite (nth_tabl N) by exact Hn.
  unfold nth2T. rewrite (nth_tabl N) by exact Hn. rewrite (nth_tabl K) by exact Hk. reflexivity. Qed.

(* "the floor of log_pdf_to_affiliation is not active" *)
Definition floor_inactive (m : gmmR) : Prop :=
  forall n, (n < N)%nat ->
  tiny <= rsum K (unnorm RO K' (mw m) (fun j => diag_log_pdf RO D (2 * PI) y m j n) (fun _ => true)).

Lemma E_is_gam m k n : (forall j, (j < K)%nat -> 0 <= mw m j) -> floor_inactive m -> (k < K)%nat -> (n < N)%nat ->
  nth2T RO (E_ m) k n = gam K' D y (mw m) (mmu m) (mv m) n k.
Proof. intros Hw Hfl Hk Hn. rewrite E_entry by assumption.
  rewrite (posterior_is_bayes K' tiny (mw m) _ (fun _ => true) Htiny k (Hfl n Hn)).
  unfold gam, gamma, joint. fold K. rewrite diag_log_pdf_glp. unfold Rdiv. f_equal. ring. f_equal.
  apply rsum_ext; intros j Hj. rewrite diag_log_pdf_glp. ring. Qed.

(* the M-step only reads the affiliation at k < K, n < N *)
Lemma weight_sal_ext (a a' : nat -> nat -> R) eps k :
  (forall j n, (j < K)%nat -> (n < N)%nat -> a j n = a' j n) -> (k < K)%nat ->
  weight_sal RO K' N a (fun _ => 1) eps k = weight_sal RO K' N a' (fun _ => 1) eps k.
Proof. intros H Hk. unfold weight_sal.
  assert (Ews : forall j, (j < K)%nat -> wsum RO N a (fun _ => 1) j = wsum RO N a' (fun _ => 1) j).
  { intros j Hj. unfold wsum. apply bsum_ext_RO; intros n Hn. rewrite (H j n Hj Hn). reflexivity. }
  assert (En : wnorm1 RO K' N a (fun _ => 1) = wnorm1 RO K' N a' (fun _ => 1)).
  { unfold wnorm1. apply bsum_ext_RO; intros j Hj. rewrite (Ews j Hj). reflexivity. }
  rewrite En, (Ews k Hk). reflexivity. Qed.
Lemma g_den_ext (s s' : nat -> R) : (forall n, (n < N)%nat -> s n = s' n) -> g_den RO N tiny s = g_den RO N tiny s'.
Proof. intros H. unfold g_den. f_equal. apply bsum_ext_RO; exact H. Qed.
Lemma g_mean_ext (s s' : nat -> R) d : (forall n, (n < N)%nat -> s n = s' n) -> g_mean RO N tiny y s d = g_mean RO N tiny y s' d.
Proof. intros H. unfold g_mean. rewrite (g_den_ext s s' H). f_equal. apply bsum_ext_RO; intros n Hn. rewrite (H n Hn). reflexivity. Qed.
Lemma g_cov_diag_ext (s s' : nat -> R) d : (forall n, (n < N)%nat -> s n = s' n) ->
  g_cov_diag RO N tiny y s d = g_cov_diag RO N tiny y s' d.
Proof. intros H. unfold g_cov_diag, g_cov_full. rewrite (g_den_ext s s' H). f_equal. apply bsum_ext_RO; intros n Hn.
  rewrite (H n Hn), (g_mean_ext s s' d H). reflexivity. Qed.

(* M o E of the executable model = gmm_step of Proofs/GMMAscent.v, parameter by parameter *)
Lemma step_refines m : (forall j, (j < K)%nat -> 0 <= mw m j) -> floor_inactive m ->
  let m' := M_ (E_ m) in let t' := gmm_step K' D N tiny tinyw y (mtheta m) in
  (forall k, (k < K)%nat -> mw m' k = tw t' k) /\
  (forall k d, (k < K)%nat -> (d < D)%nat -> mmu m' k d = tmu t' k d) /\
  (forall k d, (k < K)%nat -> (d < D)%nat -> mv m' k d = tv t' k d).
Proof. intros Hw Hfl m' t'.
  assert (Ea : forall j n, (j < K)%nat -> (n < N)%nat ->
            nth2T RO (E_ m) j n = gam K' D y (mw m) (mmu m) (mv m) n j) by (intros; apply E_is_gam; assumption).
  unfold m', t', gmm_step, mtheta, tw, tmu, tv, mw, mmu, mv, gmm_M, nthT, nth2T. cbn [fst snd gw gmean gvar]. fold K.
  split; [|split].
  - intros k Hk. rewrite (nth_tabl K) by exact Hk. unfold w'. apply weight_sal_ext; [|exact Hk]. intros j n Hj Hn. apply (Ea j n Hj Hn).
  - intros k d Hk Hd. rewrite (nth_tabl K) by exact Hk. rewrite (nth_tabl D) by exact Hd. unfold mu'.
    apply g_mean_ext. intros n Hn. apply (Ea k n Hk Hn).
  - intros k d Hk Hd. rewrite (nth_tabl K) by exact Hk. rewrite (nth_tabl D) by exact Hd. unfold v'.
    apply g_cov_diag_ext. intros n Hn. apply (Ea k n Hk Hn). Qed.

(* the log-likelihood only reads the parameters at k < K, d < D *)
Lemma gmm_loglik_ext (t t' : theta) :
  (forall k, (k < K)%nat -> tw t k = tw t' k) ->
  (forall k d, (k < K)%nat -> (d < D)%nat -> tmu t k d = tmu t' k d) ->
  (forall k d, (k < K)%nat -> (d < D)%nat -> tv t k d = tv t' k d) ->
  gmm_loglik K' D N y t = gmm_loglik K' D N y t'.
Proof. intros Hw Hm Hv. unfold gmm_loglik, loglik. apply rsum_ext; intros n Hn. f_equal. f_equal. apply rsum_ext; intros k Hk.
  unfold joint. fold K in Hk. rewrite (Hw k Hk). f_equal. f_equal. unfold glp. f_equal. f_equal.
  - apply rsum_ext; intros d Hd. rewrite (Hv k d Hk Hd). reflexivity.
  - f_equal. apply rsum_ext; intros d Hd. rewrite (Hv k d Hk Hd), (Hm k d Hk Hd). reflexivity. Qed.

(* "no numerical guard active" at a model of the executable loop *)
Definition model_guard (m : gmmR) : Prop := floor_inactive m /\ gmm_guard K' D N tiny tinyw y (mtheta m).

Theorem gmm_model_step_ascent m : model_guard m -> mloglik m <= mloglik (M_ (E_ m)).
Proof. intros [Hfl HG]. rewrite !mloglik_theta.
  eapply Rle_trans. apply (gmm_step_ascent K' D N tiny tinyw y HN (mtheta m) HG).
  assert (Hw : forall j, (j < K)%nat -> 0 <= mw m j).
  { destruct HG as [Hw _]. intros j Hj. left. apply (Hw j Hj). }
  destruct (step_refines m Hw Hfl) as [A [B C]].
  right. symmetry. apply gmm_loglik_ext; assumption. Qed.

(* the whole fit: for every start affiliation g0 and every iteration count, the log-likelihood after 1 + j iterations is
   at least the one after the first M-step, provided no guard was active on the way *)
Theorem gmm_fit_monotone g0 j :
  (forall i, (i < j)%nat -> model_guard (gmm_fit RO K' D N tiny tinyw (2 * PI) y (S i) g0)) ->
  mloglik (gmm_fit RO K' D N tiny tinyw (2 * PI) y 1 g0) <= mloglik (gmm_fit RO K' D N tiny tinyw (2 * PI) y (S j) g0).
Proof. intros HG. unfold gmm_fit, fit in *.
  replace (S j - 1)%nat with j by lia. replace (1 - 1)%nat with 0%nat by lia. change (fit_from E_ M_ 0 (M_ g0)) with (M_ g0).
  apply (fit_monotone_guarded _ _ E_ M_ mloglik model_guard).
  - intros t Ht. apply gmm_model_step_ascent; exact Ht.
  - intros i Hi. specialize (HG i Hi). replace (S i - 1)%nat with i in HG by lia. exact HG. Qed.
(* ---------------- the spherical loop: gmm_fit_sph ---------------- *)
Hypothesis HD : (0 < D)%nat.
Notation Ms_ := (gmm_M_sph RO K' D N tiny tinyw y).
(* the variance rows of a model are constant (every model gmm_M_sph returns is) *)
Definition tied (m : gmmR) : Prop := forall k d, (k < K)%nat -> (d < D)%nat -> mv m k d = mv m k 0%nat.
Definition vsm (m : gmmR) (k : nat) : R := mv m k 0%nat.
Definition tsph (m : gmmR) : theta := (mw m, mmu m, fun k _ => vsm m k).

Lemma mloglik_tied m : tied m -> mloglik m = gmm_loglik K' D N y (tsph m).
Proof. intros Ht. rewrite mloglik_theta. apply gmm_loglik_ext; unfold mtheta, tsph, tw, tmu, tv; cbn [fst snd].
  - intros; reflexivity.
  - intros; reflexivity.
  - intros k d Hk Hd. unfold vsm. apply Ht; assumption. Qed.

Lemma joint_ext (ww : nat -> R) (mm v1 v2 : nat -> nat -> R) n k :
  (forall d, (d < D)%nat -> v1 k d = v2 k d) -> joint D y ww mm v1 n k = joint D y ww mm v2 n k.
Proof. intros H. unfold joint, glp. f_equal. f_equal. f_equal. f_equal.
  - apply rsum_ext; intros d Hd. rewrite (H d Hd). reflexivity.
  - f_equal. apply rsum_ext; intros d Hd. rewrite (H d Hd). reflexivity. Qed.
Lemma gam_ext (ww : nat -> R) (mm v1 v2 : nat -> nat -> R) n k :
  (forall j d, (j < K)%nat -> (d < D)%nat -> v1 j d = v2 j d) -> (k < K)%nat ->
  gam K' D y ww mm v1 n k = gam K' D y ww mm v2 n k.
Proof. intros H Hk. unfold gam, gamma. fold K.
  assert (E : rsum K (joint D y ww mm v1 n) = rsum K (joint D y ww mm v2 n)).
  { apply rsum_ext; intros j Hj. apply joint_ext. intros d Hd. apply H; assumption. }
  rewrite E. rewrite (joint_ext ww mm v1 v2 n k) by (intros d Hd; apply H; assumption). reflexivity. Qed.
Lemma g_cov_sph_ext (s s' : nat -> R) : (forall n, (n < N)%nat -> s n = s' n) ->
  g_cov_sph RO D N tiny y s = g_cov_sph RO D N tiny y s'.
Proof. intros H. unfold g_cov_sph. rewrite (g_den_ext s s' H). f_equal. apply bsum_ext_RO; intros n Hn.
  rewrite (H n Hn). f_equal. apply bsum_ext_RO; intros d Hd. rewrite (g_mean_ext s s' d H). reflexivity. Qed.

Lemma Ms_tied g : tied (Ms_ g).
Proof. intros k d Hk Hd. unfold mv, gmm_M_sph, nth2T. cbn [gvar]. fold K. rewrite (nth_tabl K) by exact Hk.
  rewrite (nth_tabl D) by exact Hd. rewrite (nth_tabl D) by exact HD. reflexivity. Qed.

Definition model_guard_sph (m : gmmR) : Prop :=
  floor_inactive m /\ tied m /\
  (forall k, (k < K)%nat -> 0 < mw m k) /\ rsum K (mw m) = 1 /\ (forall k, (k < K)%nat -> 0 < vsm m k) /\
  (forall k, (k < K)%nat -> tiny <= rsum N (fun n => gam K' D y (mw m) (mmu m) (fun k0 _ => vsm m k0) n k)) /\
  (forall k, (k < K)%nat -> 0 < vs' K' D N tiny y (mw m) (mmu m) (vsm m) k).

Theorem gmm_model_step_ascent_sph m : model_guard_sph m -> mloglik m <= mloglik (Ms_ (E_ m)).
Proof. intros [Hfl [Ht [Hw [Hs [Hv [Hm Hv2]]]]]].
  rewrite (mloglik_tied m Ht). rewrite (mloglik_tied _ (Ms_tied (E_ m))).
  pose proof (gmm_sph_em_step_ascent K' D N tiny tinyw y Htiny HN HD (mw m) (mmu m) (vsm m) Hw Hs Hv Hm Hv2) as A.
  eapply Rle_trans. exact A. right.
  assert (Hw0 : forall j, (j < K)%nat -> 0 <= mw m j) by (intros j Hj; left; apply Hw; exact Hj).
  (* the affiliation the model's E-step returns is the posterior of the tied model *)
  assert (Ea : forall j n, (j < K)%nat -> (n < N)%nat ->
            nth2T RO (E_ m) j n = gam K' D y (mw m) (mmu m) (fun k0 _ => vsm m k0) n j).
  { intros j n Hj Hn. rewrite (E_is_gam m j n Hw0 Hfl Hj Hn). apply gam_ext; [|exact Hj].
    intros j0 d Hj0 Hd. unfold vsm. apply Ht; assumption. }
  symmetry. unfold gmm_loglik at 1. unfold tsph, tw, tmu, tv. cbn [fst snd].
  change (loglik N (S K') (fun _ : nat => 1)
            (joint D y (mw (Ms_ (E_ m))) (mmu (Ms_ (E_ m))) (fun k _ => vsm (Ms_ (E_ m)) k)))
    with (gmm_loglik K' D N y (mw (Ms_ (E_ m)), mmu (Ms_ (E_ m)), fun k (_ : nat) => vsm (Ms_ (E_ m)) k)).
  change (loglik N (S K') (fun _ : nat => 1) ?q) with (loglik N (S K') (fun _ : nat => 1) q).
  match goal with |- _ = loglik N (S K') (fun _ => 1) (joint D y ?a ?b ?c) =>
    change (loglik N (S K') (fun _ : nat => 1) (joint D y a b c)) with (gmm_loglik K' D N y (a, b, c)) end.
  apply gmm_loglik_ext; unfold tw, tmu, tv; cbn [fst snd].
  - intros k Hk. unfold mw, gmm_M_sph, nthT. cbn [gw]. fold K. rewrite (nth_tabl K) by exact Hk. unfold w'.
    apply weight_sal_ext; [|exact Hk]. intros j n Hj Hn. apply (Ea j n Hj Hn).
  - intros k d Hk Hd. unfold mmu, gmm_M_sph, nth2T. cbn [gmean]. fold K. rewrite (nth_tabl K) by exact Hk.
    rewrite (nth_tabl D) by exact Hd. unfold mu'. apply g_mean_ext. intros n Hn. apply (Ea k n Hk Hn).
  - intros k d Hk Hd. unfold vsm, mv, gmm_M_sph, nth2T. cbn [gvar]. fold K. rewrite (nth_tabl K) by exact Hk.
    rewrite (nth_tabl D) by exact HD. unfold vs'. apply g_cov_sph_ext. intros n Hn. apply (Ea k n Hk Hn). Qed.

(* the whole spherical fit *)
Theorem gmm_fit_sph_monotone g0 j :
  (forall i, (i < j)%nat -> model_guard_sph (gmm_fit_sph RO K' D N tiny tinyw (2 * PI) y (S i) g0)) ->
  mloglik (gmm_fit_sph RO K' D N tiny tinyw (2 * PI) y 1 g0) <= mloglik (gmm_fit_sph RO K' D N tiny tinyw (2 * PI) y (S j) g0).
Proof. intros HG. unfold gmm_fit_sph, fit in *.
  replace (S j - 1)%nat with j by lia. replace (1 - 1)%nat with 0%nat by lia. change (fit_from E_ Ms_ 0 (Ms_ g0)) with (Ms_ g0).
  apply (fit_monotone_guarded _ _ E_ Ms_ mloglik model_guard_sph).
  - intros t Ht. apply gmm_model_step_ascent_sph; exact Ht.
  - intros i Hi. specialize (HG i Hi). replace (S i - 1)%nat with i in HG by lia. exact HG. Qed.
End Refine.
