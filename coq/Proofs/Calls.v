(* Proofs/Calls.v -- C20 lemmas on Model/Calls.v: the split law for any list of budgets, determinism of a call in
   its arguments and the explicit generator state, and what a call does to the generator. *)
From Coq Require Import Arith Lia List.
From PB Require Import Model.EM Proofs.EM Model.Calls.
Import ListNotations.

Section Calls.
Variables Seed Theta Gamma : Type.
Variables (E : Theta -> Gamma) (M : Gamma -> Theta).
Variable draw : Seed -> Gamma * Seed.

Lemma fit_from_chain (rest : list nat) t :
  fold_left (fun t n => fit_from E M n t) rest t = fit_from E M (fold_right Nat.add 0 rest) t.
Proof. revert t; induction rest as [|n rest IH]; intros t; simpl. reflexivity.
  rewrite IH. rewrite fit_from_add. reflexivity. Qed.

(* fit(n1 + n2 + ... + nj) = fit(n1), then fit(n2) continued from its model, ..., then fit(nj) *)
Theorem fit_split_list n1 rest g0 : 1 <= n1 ->
  fit E M (n1 + fold_right Nat.add 0 rest) g0 = fit_chain E M n1 rest g0.
Proof. intros H. unfold fit_chain. rewrite fit_from_chain. apply fit_split; auto. Qed.

(* any two ways of splitting the same total agree *)
Corollary fit_split_any n1 rest m1 rest' g0 : 1 <= n1 -> 1 <= m1 ->
  n1 + fold_right Nat.add 0 rest = m1 + fold_right Nat.add 0 rest' ->
  fit_chain E M n1 rest g0 = fit_chain E M m1 rest' g0.
Proof. intros H1 H2 Hs. rewrite <- !fit_split_list by auto. rewrite Hs. reflexivity. Qed.

(* a continued fit is itself splittable *)
Theorem fit_from_split n1 n2 t : fit_from E M (n1 + n2) t = fit_from E M n2 (fit_from E M n1 t).
Proof. apply fit_from_add. Qed.

(* a call is a function of (budget, start, generator state): equal arguments, equal result and equal state after *)
Theorem fit_deterministic n n' s s' seed seed' : n = n' -> s = s' -> seed = seed' ->
  fit_call E M draw n s seed = fit_call E M draw n' s' seed'.
Proof. intros -> -> ->. reflexivity. Qed.

(* with an explicit start the generator is neither read nor advanced *)
Theorem fit_explicit_start_ignores_rng n s seed seed' : s <> FromNumClasses ->
  fst (fit_call E M draw n s seed) = fst (fit_call E M draw n s seed') /\ snd (fit_call E M draw n s seed) = seed.
Proof. destruct s; simpl; intros H; auto. congruence. Qed.

(* with num_classes the result depends on the generator only through the one draw, and the state advances by that draw *)
Theorem fit_num_classes_one_draw n seed seed' : fst (draw seed) = fst (draw seed') ->
  fst (fit_call E M draw n FromNumClasses seed) = fst (fit_call E M draw n FromNumClasses seed').
Proof. simpl. intros ->. reflexivity. Qed.
Theorem fit_num_classes_advances n seed : snd (fit_call E M draw n FromNumClasses seed) = snd (draw seed).
Proof. reflexivity. Qed.

(* num_classes start = affiliation start with the drawn affiliation (what re-seeding reproduces) *)
Theorem fit_num_classes_is_affiliation n seed :
  fst (fit_call E M draw n FromNumClasses seed) = fst (fit_call E M draw n (FromAffiliation (fst (draw seed))) seed).
Proof. reflexivity. Qed.
End Calls.

(* the word instance: a fit of n >= 1 iterations runs M, then (E, M) n-1 times; a continued fit runs (E, M) n times *)
Lemma fit_from_word n t : fit_from Eword Mword n t = t ++ concat (repeat [false; true] n).
Proof. revert t; induction n as [|n IH]; intros t. unfold fit_from; simpl. rewrite app_nil_r. reflexivity.
  change (S n) with (1 + n). rewrite fit_from_add. rewrite IH.
  unfold fit_from, step, Eword, Mword. simpl. rewrite <- !app_assoc. reflexivity. Qed.
Theorem fit_word n g0 : 1 <= n -> fit Eword Mword n g0 = g0 ++ true :: concat (repeat [false; true] (n - 1)).
Proof. intros H. unfold fit. rewrite fit_from_word. unfold Mword. rewrite <- app_assoc. reflexivity. Qed.
