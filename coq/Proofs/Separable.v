(* Proofs/Separable.v -- C03 (exact case): for observations lying exactly on K prototype lines / directions and a hard
   true partition, one M-step points every class at its prototype (rank-one scatter) and the following E-step keeps
   every observation in its true class (MAP) -- cACG, complex Watson, vMF. *)
From Coq Require Import Reals Lra Lia.
From Coquelicot Require Import Coquelicot.
From PB Require Import Ops CLin Model.Trainers Proofs.Trainers Proofs.EMAscent.
Open Scope C_scope.

(* ---------- M-step: the scatter of a class whose observations are unit multiples of one prototype is rank one ---------- *)
Section RankOne.
Variables (N : nat) (a : nat -> C) (u : nat -> C) (c : nat -> R).
Hypothesis Hu : forall n, (n < N)%nat -> (Cmod (u n) = 1)%R.
(* observations z_n = u_n a  (per-frame complex gains of unit modulus after normalisation) *)
Theorem scatter_rank_one d e :
  scatter RO N (fun n d => u n * a d) c d e = RtoC (rsum N c) * (a d * Cconj (a e)).
Proof. rewrite scatter_RO. rewrite <- csum_RtoC. rewrite <- csum_scal_r. apply csum_ext; intros n Hn.
  rewrite Cconj_mult.
  transitivity (RtoC (c n) * ((u n * Cconj (u n)) * (a d * Cconj (a e)))). ring.
  rewrite mul_conj_self, (Hu n Hn). replace (1 * 1)%R with 1%R by ring. ring. Qed.
(* the prototype is an eigenvector of that scatter with eigenvalue (sum c) |a|^2 ... *)
Theorem scatter_rank_one_eigen D :
  forall d, mv D (scatter RO N (fun n d => u n * a d) c) a d = RtoC (rsum N c) * dot D a a * a d.
Proof. intros d. unfold mv, dot.
  rewrite (csum_ext D _ (fun j => (RtoC (rsum N c) * a d) * (Cconj (a j) * a j))).
  2:{ intros j Hj. rewrite scatter_rank_one. ring. }
  rewrite csum_scal. ring. Qed.
(* ... and everything orthogonal to it is in the kernel (all other eigenvalues are zero, hence floored) *)
Theorem scatter_rank_one_kernel D (v : nat -> C) : dot D a v = 0 ->
  forall d, mv D (scatter RO N (fun n d => u n * a d) c) v d = 0.
Proof. intros Hv d. unfold mv.
  rewrite (csum_ext D _ (fun j => (RtoC (rsum N c) * a d) * (Cconj (a j) * v j))).
  2:{ intros j Hj. rewrite scatter_rank_one. ring. }
  rewrite csum_scal. fold (dot D a v). rewrite Hv. ring. Qed.
End RankOne.

(* ---------- Parseval for a unitary eigenbasis ---------- *)
Section Parseval.
Variables (D : nat) (U : nat -> nat -> C).
(* rows orthonormal: sum_e U_ge conj(U_de) = delta_gd   (U U^H = I) *)
Hypothesis HU : forall g d, (g < D)%nat -> (d < D)%nat ->
  csum D (fun e => U g e * Cconj (U d e)) = if Nat.eqb g d then 1 else 0.
Definition coef (z : nat -> C) (e : nat) : C := csum D (fun d => Cconj (U d e) * z d).
Lemma csum_delta_r n (f : nat -> C) g : (g < n)%nat -> csum n (fun d => (if Nat.eqb g d then 1 else 0) * f d) = f g.
Proof. induction n; intros Hg; [lia|]. cbn [csum]. destruct (Nat.eq_dec g n) as [->|Hne].
  - rewrite Nat.eqb_refl. rewrite csum_zero. ring. intros i Hi. destruct (Nat.eqb_spec n i); [lia|ring].
  - rewrite IHn by lia. destruct (Nat.eqb_spec g n); [lia|ring]. Qed.
Theorem parseval (z : nat -> C) :
  csum D (fun e => coef z e * Cconj (coef z e)) = csum D (fun d => z d * Cconj (z d)).
Proof. unfold coef.
  transitivity (csum D (fun e => csum D (fun d => csum D (fun g => (z d * Cconj (z g)) * (U g e * Cconj (U d e)))))).
  { apply csum_ext; intros e He. rewrite csum_conj. rewrite <- csum_scal_r. apply csum_ext; intros d Hd.
    rewrite <- csum_scal. apply csum_ext; intros g Hg. rewrite Cconj_mult, Cconj_conj. ring. }
  rewrite csum_swap. apply csum_ext; intros d Hd.
  rewrite csum_swap.
  rewrite (csum_ext D _ (fun g => (if Nat.eqb g d then 1 else 0) * (z d * Cconj (z g)))).
  2:{ intros g Hg. rewrite csum_scal. rewrite HU by auto. ring. }
  rewrite (csum_ext D _ (fun g => (if Nat.eqb d g then 1 else 0) * (z d * Cconj (z g))))
    by (intros; rewrite Nat.eqb_sym; reflexivity).
  apply csum_delta_r; auto. Qed.
End Parseval.

(* ---------- E-step: MAP stays at the true class ---------- *)
Open Scope R_scope.

(* cACG with spectrum (1, eps, ..., eps) around prototype a_k: the quadratic form of a unit vector with squared
   cosine c2 to the prototype is c2 + (1 - c2)/eps; own class: 1 *)
Definition qform_rank1 (eps c2 : R) : R := c2 + (1 - c2) / eps.
Theorem cacg_rank1_quadratic eps c2 : 0 < eps < 1 -> 0 <= c2 < 1 ->
  qform_rank1 eps 1 = 1 /\ 1 < qform_rank1 eps c2.
Proof. intros He Hc. unfold qform_rank1. split. field. lra.
  assert (1 < / eps). { rewrite <- Rinv_1 at 1. apply Rinv_lt_contravar; lra. }
  unfold Rdiv. nra. Qed.

(* log-posterior comparison: equal log-determinants ((D-1) ln eps for every class), so class j beats class k
   for an observation on line j whenever pi_k / pi_j < q_k ^ D *)
Theorem cacg_rank1_map (Dn : nat) eps c2 pij pik ld : 0 < eps < 1 -> 0 <= c2 < 1 -> 0 < pij -> 0 < pik ->
  pik / pij < qform_rank1 eps c2 ^ Dn ->
  ln pik + (- INR Dn * ln (qform_rank1 eps c2) - ld) < ln pij + (- INR Dn * ln (qform_rank1 eps 1) - ld).
Proof. intros He Hc Hj Hk Hw. destruct (cacg_rank1_quadratic eps c2 He Hc) as [E1 Hq]. rewrite E1, ln_1.
  set (q := qform_rank1 eps c2) in *. assert (Hq0 : 0 < q) by lra.
  assert (Hp : 0 < q ^ Dn) by (apply pow_lt; auto).
  assert (L : ln (pik / pij) < ln (q ^ Dn)) by (apply ln_increasing; auto; apply Rdiv_lt_0_compat; auto).
  rewrite ln_div in L by auto. rewrite ln_pow in L by auto. lra. Qed.
(* in particular with equal weights, or whenever pi_k <= pi_j, for every D >= 1 *)
Corollary cacg_rank1_map_equal_weights (Dn : nat) eps c2 pij pik ld : (1 <= Dn)%nat ->
  0 < eps < 1 -> 0 <= c2 < 1 -> 0 < pik <= pij ->
  ln pik + (- INR Dn * ln (qform_rank1 eps c2) - ld) < ln pij + (- INR Dn * ln (qform_rank1 eps 1) - ld).
Proof. intros HD He Hc Hw. apply cacg_rank1_map; try lra.
  destruct (cacg_rank1_quadratic eps c2 He Hc) as [_ Hq].
  assert (pik / pij <= 1). { apply Rmult_le_reg_r with pij; [lra|]. unfold Rdiv. rewrite Rmult_assoc, Rinv_l by lra. lra. }
  assert (1 < qform_rank1 eps c2 ^ Dn).
  { destruct Dn; [lia|]. clear HD. induction Dn. simpl; lra. change (qform_rank1 eps c2 ^ S (S Dn)) with (qform_rank1 eps c2 * qform_rank1 eps c2 ^ S Dn). nra. }
  lra. Qed.

(* complex Watson / vMF with a common concentration kappa and common log-normaliser: class j wins for an observation
   with alignment 1 to its own mode and al < 1 to mode k whenever kappa (1 - al) > ln (pi_k / pi_j) *)
Theorem watson_vmf_map kappa al pij pik lognorm : 0 < pij -> 0 < pik ->
  ln (pik / pij) < kappa * (1 - al) ->
  ln pik + (kappa * al - lognorm) < ln pij + (kappa * 1 - lognorm).
Proof. intros Hj Hk H. rewrite ln_div in H by auto. lra. Qed.

(* ---------- the model's cACG quadratic form under a unitary eigenbasis with spectrum (1, eps, ..., eps) ---------- *)
Lemma rsum_shift n (f : nat -> R) : rsum (S n) f = f 0%nat + rsum n (fun i => f (S i)).
Proof. induction n. cbn [rsum]. ring. cbn [rsum] in *. rewrite IHn. ring. Qed.

Lemma spectrum_rank1_sum D' (p : nat -> R) eps : eps <> 0 -> rsum (S D') p = 1 ->
  rsum (S D') (fun e => p e / (if Nat.eqb e 0 then 1 else eps)) = qform_rank1 eps (p 0%nat).
Proof. intros He Hs. rewrite rsum_shift in *. cbn [Nat.eqb].
  rewrite (rsum_ext D' _ (fun i => p (S i) * / eps)) by (intros; reflexivity).
  rewrite rsum_scale. unfold qform_rank1. replace (rsum D' (fun i => p (S i))) with (1 - p 0%nat) by lra. field. auto. Qed.

Section QuadRank1.
Variables (D' : nat) (U : nat -> nat -> C) (z : nat -> C) (eps tiny : R).
Let D := S D'.
Hypothesis HU : forall g d, (g < D)%nat -> (d < D)%nat ->
  csum D (fun e => (U g e * Cconj (U d e))%C) = if Nat.eqb g d then RtoC 1 else RtoC 0.
Hypothesis Hz : rsum D (fun d => Cmod (z d) * Cmod (z d)) = 1.      (* unit observation *)
Hypothesis Heps : 0 < eps < 1.
Hypothesis Htiny : 0 < tiny <= 1.
(* squared cosine between the observation and the top eigenvector (column 0 of U) *)
Definition cos2 : R := Cmod (coef D U z 0%nat) * Cmod (coef D U z 0%nat).

Lemma coef_energy : rsum D (fun e => Cmod (coef D U z e) * Cmod (coef D U z e)) = 1.
Proof. pose proof (parseval D U HU z) as P.
  rewrite (csum_ext D _ (fun e => RtoC (Cmod (coef D U z e) * Cmod (coef D U z e)))) in P by (intros; apply mul_conj_self).
  rewrite (csum_ext D (fun d => (z d * Cconj (z d))%C) (fun d => RtoC (Cmod (z d) * Cmod (z d)))) in P by (intros; apply mul_conj_self).
  rewrite !csum_RtoC in P. apply RtoC_inj in P. rewrite P. exact Hz. Qed.

Theorem cacg_quad_rank1 :
  cacg_quad RO D tiny U (fun e => if Nat.eqb e 0 then 1 else eps) z = qform_rank1 eps cos2.
Proof. unfold cacg_quad. rewrite omax_RO.
  assert (E : bsum RO D (fun e => odiv RO (cabs2 RO (csumO RO D (fun d => cmul RO (cconj RO (U d e)) (z d)))) (if Nat.eqb e 0 then 1 else eps))
            = rsum D (fun e => (Cmod (coef D U z e) * Cmod (coef D U z e)) / (if Nat.eqb e 0 then 1 else eps))).
  { rewrite bsum_RO. apply rsum_ext; intros e He. unfold odiv. cbn [omul oinv RO]. rewrite cabs2_RO. rewrite csumO_RO.
    bridge. reflexivity. }
  rewrite E. pose proof coef_energy as Hen. unfold D in *.
  rewrite (spectrum_rank1_sum D' (fun e => Cmod (coef (S D') U z e) * Cmod (coef (S D') U z e)) eps) by (try lra; exact Hen).
  fold D. fold cos2.
  assert (Hc : 0 <= cos2 <= 1).
  { unfold cos2. split. pose proof (Cmod_ge_0 (coef D U z 0%nat)); nra.
    rewrite <- Hen. apply (term_le_rsum (S D') (fun e => Cmod (coef (S D') U z e) * Cmod (coef (S D') U z e)) 0%nat).
    intros j Hj. pose proof (Cmod_ge_0 (coef (S D') U z j)); nra. lia. }
  assert (Hq : 1 <= qform_rank1 eps cos2).
  { unfold qform_rank1. assert (1 < / eps). { rewrite <- Rinv_1 at 1. apply Rinv_lt_contravar; lra. } unfold Rdiv. nra. }
  unfold oabs. cbn [oleb o0 oopp RO]. destruct (Rleb 0 (qform_rank1 eps cos2)) eqn:Hb.
  apply Rmax_left; lra. apply Rleb_false in Hb. lra. Qed.
End QuadRank1.
