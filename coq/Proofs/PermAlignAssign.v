(* Proofs/PermAlignAssign.v -- C14/C15/C16, discrete core: the greedy and the optimal assignment
   computed from a K x K score matrix (Model/PermAlign.v, Section Assign) are permutations of 0..K-1
   for every K and every matrix; the model of itertools.permutations is sound and complete; the
   strict-improvement scan keeps a maximiser; the greedy loop follows a dominating matching.
   Scores live in any carrier with a strict weak order (irreflexive, transitive, negatively
   transitive): all instances (Z, R, binary64 without NaN) at once. *)
From Coq Require Import List Arith Lia Bool Permutation.
From PB Require Import Model.PermAlign.
Import ListNotations.

Definition is_perm (K : nat) (p : list nat) : Prop := Permutation p (seq 0 K).

(* ---------------------------------------------------------------- generic list facts *)
Lemma nodup_bounded_perm (K : nat) (l : list nat) :
  NoDup l -> length l = K -> (forall x, In x l -> x < K) -> Permutation l (seq 0 K).
Proof. intros Hnd Hlen Hb. apply NoDup_Permutation_bis; auto.
  - rewrite seq_length; lia.
  - intros x Hx. apply in_seq. specialize (Hb x Hx). lia. Qed.

Lemma is_perm_length K p : is_perm K p -> length p = K.
Proof. intros H. rewrite (Permutation_length H). apply seq_length. Qed.
Lemma is_perm_bound K p x : is_perm K p -> In x p -> x < K.
Proof. intros H Hx. apply (Permutation_in _ H) in Hx. apply in_seq in Hx. lia. Qed.
Lemma is_perm_nodup K p : is_perm K p -> NoDup p.
Proof. intros H. apply (Permutation_NoDup (Permutation_sym H)). apply seq_NoDup. Qed.
Lemma is_perm_in K p x : is_perm K p -> x < K -> In x p.
Proof. intros H Hx. apply (Permutation_in _ (Permutation_sym H)). apply in_seq. lia. Qed.
Lemma is_perm_id K : is_perm K (seq 0 K). Proof. apply Permutation_refl. Qed.
Lemma is_perm_nth K p k : is_perm K p -> k < K -> nth k p 0 < K.
Proof. intros H Hk. apply (is_perm_bound K p); auto. apply nth_In. rewrite (is_perm_length K p H). exact Hk. Qed.

(* x[p] is a rearrangement of x when p is a permutation of the positions of x *)
Lemma permute_perm {A} (d : A) (l : list A) (p : list nat) :
  is_perm (length l) p -> Permutation (permute d p l) l.
Proof. intros H. unfold permute.
  transitivity (map (fun j => nth j l d) (seq 0 (length l))).
  - apply Permutation_map. exact H.
  - clear. replace (map (fun j => nth j l d) (seq 0 (length l))) with l; [apply Permutation_refl|].
    induction l as [|a l IH]; simpl; auto. f_equal. rewrite <- seq_shift, map_map. exact IH. Qed.
Lemma permute_length {A} (d : A) p l : length (permute d p l) = length p.
Proof. unfold permute. apply map_length. Qed.
Lemma permute_nth {A} (d : A) p l k : k < length p -> nth k (permute d p l) d = nth (nth k p 0) l d.
Proof. intros Hk. unfold permute.
  rewrite (nth_indep _ d ((fun j => nth j l d) 0)) by (rewrite map_length; exact Hk).
  rewrite (map_nth (fun j => nth j l d)). reflexivity. Qed.
Lemma permute_id {A} (d : A) (l : list A) : permute d (seq 0 (length l)) l = l.
Proof. unfold permute. induction l as [|a l IH]; simpl; auto. f_equal. rewrite <- seq_shift, map_map. exact IH. Qed.
(* composition: (x[q])[p] = x[q[p]] *)
Lemma permute_permute {A} (d : A) p q (l : list A) :
  (forall x, In x p -> x < length q) -> permute d p (permute d q l) = permute d (permute 0 p q) l.
Proof. intros H. unfold permute. rewrite map_map. apply map_ext_in. intros j Hj.
  exact (permute_nth d q l j (H j Hj)). Qed.
(* composition of permutations is a permutation *)
Lemma permute_is_perm K p q : is_perm K p -> is_perm K q -> is_perm K (permute 0 p q).
Proof. intros Hp Hq. unfold is_perm. transitivity q; [|exact Hq].
  apply permute_perm. rewrite (is_perm_length K q Hq). exact Hp. Qed.

(* ---------------------------------------------------------------- itertools.permutations *)
Lemma picks_perm {A} (l : list A) x r : In (x, r) (picks l) -> Permutation l (x :: r).
Proof. revert x r; induction l as [|y l IH]; simpl; intros x r H; [contradiction|].
  destruct H as [H|H]. inversion H; subst; auto.
  apply in_map_iff in H as [[x' r'] [E Hin]]. simpl in E. inversion E; subst.
  specialize (IH _ _ Hin). rewrite IH. apply perm_swap. Qed.
Lemma picks_length {A} (l : list A) x r : In (x, r) (picks l) -> length l = S (length r).
Proof. intros H. apply picks_perm in H. rewrite (Permutation_length H). reflexivity. Qed.
Lemma picks_complete {A} (l : list A) x r :
  Permutation l (x :: r) -> exists r', In (x, r') (picks l) /\ Permutation r' r.
Proof.
  revert x r. induction l as [|y l IH]; intros x r H.
  - apply Permutation_nil in H. discriminate.
  - destruct (Permutation_vs_cons_inv H) as [l1 [l2 E]].
    destruct l1 as [|z l1]; simpl in E; inversion E; subst.
    + exists l2. split. simpl; auto. apply Permutation_cons_inv with x. exact H.
    + assert (Hp: Permutation (l1 ++ x :: l2) (x :: l1 ++ l2)) by (symmetry; apply Permutation_middle).
      destruct (IH x (l1 ++ l2) Hp) as [r' [Hin Hr']].
      exists (z :: r'). split.
      * simpl. right. apply in_map_iff. exists (x, r'). split; auto.
      * assert (H0: Permutation (z :: l1 ++ x :: l2) (x :: z :: l1 ++ l2)).
        { rewrite Hp. apply perm_swap. }
        rewrite H0 in H. apply Permutation_cons_inv in H. rewrite <- H. constructor. exact Hr'.
Qed.

Theorem all_perms_sound {A} (l p : list A) : In p (all_perms l) -> Permutation l p.
Proof.
  unfold all_perms. remember (length l) as n eqn:Hn. revert l p Hn.
  induction n as [|n IH]; intros l p Hn H; simpl in H.
  - destruct l; [|discriminate]. destruct H as [<-|[]]. constructor.
  - destruct l as [|a l']; [discriminate|].
    apply in_flat_map in H as [[x r] [Hpick Hin]]. simpl in Hin.
    apply in_map_iff in Hin as [q [<- Hq]].
    pose proof (picks_perm _ _ _ Hpick) as Hp. pose proof (picks_length _ _ _ Hpick) as Hl.
    rewrite Hp. constructor. apply IH; auto. simpl in Hn, Hl. lia.
Qed.

Theorem all_perms_complete {A} (l p : list A) : Permutation l p -> In p (all_perms l).
Proof.
  unfold all_perms. remember (length l) as n eqn:Hn. revert l p Hn.
  induction n as [|n IH]; intros l p Hn H.
  - destruct l; [|discriminate]. apply Permutation_nil in H. subst. simpl; auto.
  - destruct l as [|a l']; [discriminate|]. destruct p as [|x q].
    { symmetry in H. apply Permutation_nil in H. discriminate. }
    destruct (picks_complete _ _ _ H) as [r' [Hin Hr']].
    cbn [perms_fuel]. apply in_flat_map. exists (x, r'). split; auto. simpl.
    apply in_map. apply IH; auto. apply picks_length in Hin. simpl in Hn, Hin. lia.
Qed.

(* the first candidate produced is the identity arrangement (itertools order) *)
Lemma all_perms_head {A} (l : list A) : exists r, all_perms l = l :: r.
Proof. unfold all_perms. induction l as [|a l [r IH]]; simpl. eexists; reflexivity.
  rewrite IH. simpl. eexists; reflexivity. Qed.

Section Order.
Context {T : Type}.
Variable ltb : T -> T -> bool.
Hypothesis ltb_irrefl : forall x, ltb x x = false.
Hypothesis ltb_trans : forall x y z, ltb x y = true -> ltb y z = true -> ltb x z = true.
Hypothesis ltb_negtrans : forall x y z, ltb x y = false -> ltb y z = false -> ltb x z = false.

Local Notation clt := (clt ltb).
Lemma clt_negtrans a b c : clt a b = false -> clt b c = false -> clt a c = false.
Proof. destruct a, b, c; simpl; auto; try discriminate. apply ltb_negtrans. Qed.
Lemma clt_trans a b c : clt a b = true -> clt b c = true -> clt a c = true.
Proof. destruct a, b, c; simpl; auto; try discriminate. apply ltb_trans. Qed.
Lemma clt_irrefl a : clt a a = false. Proof. destruct a; simpl; auto. Qed.
(* mixed transitivity *)
Lemma ltb_lt_le x y z : ltb x y = true -> ltb z y = false -> ltb x z = true.
Proof. intros H1 H2. destruct (ltb x z) eqn:E; auto.
  pose proof (ltb_negtrans _ _ _ E H2). congruence. Qed.
Lemma ltb_le_lt x y z : ltb y x = false -> ltb y z = true -> ltb x z = true.
Proof. intros H1 H2. destruct (ltb x z) eqn:E; auto.
  pose proof (ltb_negtrans _ _ _ H1 E). congruence. Qed.

(* ---- np.argmax: first maximum ---- *)
Lemma argmax_from_in {A} key (l : list A) b : In (argmax_from ltb key l b) (b :: l).
Proof. revert b; induction l as [|c r IH]; intros b; simpl; auto.
  destruct (clt (key b) (key c)); [specialize (IH c)|specialize (IH b)]; simpl in IH; intuition. Qed.
Lemma argmax_from_ge_best {A} key (l : list A) b : clt (key (argmax_from ltb key l b)) (key b) = false.
Proof. revert b; induction l as [|c r IH]; intros b; simpl. apply clt_irrefl.
  destruct (clt (key b) (key c)) eqn:E.
  - specialize (IH c). destruct (clt (key (argmax_from ltb key r c)) (key b)) eqn:E2; auto.
    pose proof (clt_trans _ _ _ E2 E) as H. congruence.
  - apply IH. Qed.
Lemma argmax_from_max {A} key (l : list A) b x :
  In x (b :: l) -> clt (key (argmax_from ltb key l b)) (key x) = false.
Proof. revert b; induction l as [|c r IH]; intros b Hin; simpl.
  - destruct Hin as [<-|[]]. apply clt_irrefl.
  - destruct (clt (key b) (key c)) eqn:E.
    + destruct Hin as [<-|[<-|Hin]].
      * pose proof (argmax_from_ge_best key r c). destruct (clt (key (argmax_from ltb key r c)) (key b)) eqn:E2; auto.
        pose proof (clt_trans _ _ _ E2 E). congruence.
      * apply argmax_from_ge_best.
      * apply IH. right; auto.
    + destruct Hin as [<-|[<-|Hin]].
      * apply argmax_from_ge_best.
      * eapply clt_negtrans; [apply argmax_from_ge_best | exact E].
      * apply IH. right; auto.
Qed.
Lemma argmax_from_ext {A} key key' (l : list A) b :
  (forall x, In x (b :: l) -> key x = key' x) -> argmax_from ltb key l b = argmax_from ltb key' l b.
Proof. revert b; induction l as [|c r IH]; intros b H; simpl; auto.
  rewrite <- (H b), <- (H c) by (simpl; auto).
  destruct (clt (key b) (key c)); apply IH; intros x [<-|Hx]; apply H; simpl; auto. Qed.

(* ---- the strict-improvement scan keeps a maximiser ---- *)
Section Scan.
Context {A : Type} (score : A -> T).
Lemma scan_some (l : list A) b :
  exists p, scan_best ltb score l (Some (b, score b)) = Some (p, score p) /\ In p (b :: l) /\
            ltb (score p) (score b) = false /\
            (forall x, In x (b :: l) -> ltb (score p) (score x) = false).
Proof. revert b; induction l as [|c r IH]; intros b; cbn [scan_best].
  - exists b. repeat split; simpl; auto. intros x [<-|[]]; auto.
  - destruct (ltb (score b) (score c)) eqn:E.
    + destruct (IH c) as [p [H1 [H2 [H3 H4]]]]. exists p. split; [exact H1|]. split; [simpl in *; tauto|].
      assert (Hb: ltb (score p) (score b) = false).
      { destruct (ltb (score p) (score b)) eqn:E2; auto. pose proof (ltb_trans _ _ _ E2 E). congruence. }
      split; [exact Hb|]. intros x [<-|Hx]; auto.
    + destruct (IH b) as [p [H1 [H2 [H3 H4]]]]. exists p. split; [exact H1|]. split; [simpl in *; tauto|].
      split; [exact H3|]. intros x [<-|[<-|Hx]]; auto.
      * eapply ltb_negtrans; eauto.
      * apply H4; simpl; auto.
Qed.
Lemma scan_none (l : list A) c :
  exists p, scan_best ltb score (c :: l) None = Some (p, score p) /\ In p (c :: l) /\
            (forall x, In x (c :: l) -> ltb (score p) (score x) = false).
Proof. cbn [scan_best]. destruct (scan_some l c) as [p [H1 [H2 [_ H4]]]]. exists p; auto. Qed.
Lemma scan_best_ext (score' : A -> T) (l : list A) best :
  (forall x, In x l -> score x = score' x) -> scan_best ltb score l best = scan_best ltb score' l best.
Proof. revert best; induction l as [|c r IH]; intros best H; cbn [scan_best]; auto.
  rewrite <- (H c) by (simpl; auto). apply IH. intros; apply H; simpl; auto. Qed.
End Scan.

(* ---------------------------------------------------------------- one K x K matrix *)
Variable K : nat.
Variable Sc : nat -> nat -> T.
Local Notation key := (key Sc).
Local Notation pick := (pick ltb K Sc).
Local Notation greedy := (greedy ltb K Sc).

Lemma not_memb_in x l : memb x l = false <-> ~ In x l.
Proof. unfold memb. split.
  - intros H Hin. assert (existsb (Nat.eqb x) l = true) by (apply existsb_exists; exists x; split; auto; apply Nat.eqb_refl). congruence.
  - intros H. destruct (existsb (Nat.eqb x) l) eqn:E; auto. apply existsb_exists in E as [y [Hy Heq]]. apply Nat.eqb_eq in Heq; subst. contradiction. Qed.

Lemma free_index (L : list nat) : NoDup L -> (forall x, In x L -> x < K) -> length L < K -> exists i, i < K /\ ~ In i L.
Proof.
  intros Hnd Hb Hlen.
  destruct (existsb (fun i => negb (memb i L)) (seq 0 K)) eqn:E.
  - apply existsb_exists in E as [i [Hi Hn]]. apply in_seq in Hi. exists i; split; [lia|].
    apply negb_true_iff in Hn. apply not_memb_in; auto.
  - exfalso. assert (incl (seq 0 K) L).
    { intros i Hi. destruct (in_dec Nat.eq_dec i L) as [|Hn]; auto.
      assert (existsb (fun i => negb (memb i L)) (seq 0 K) = true).
      { apply existsb_exists. exists i; split; auto. apply negb_true_iff. apply not_memb_in; auto. }
      congruence. }
    pose proof (NoDup_incl_length (seq_NoDup K 0) H) as Hl. rewrite seq_length in Hl. lia. Qed.

Lemma key_avail R C i j : ~ In i R -> ~ In j C -> key R C (i,j) = Some (Sc i j).
Proof. intros Hi Hj. unfold PermAlign.key, avail; simpl.
  rewrite (proj2 (not_memb_in i R) Hi), (proj2 (not_memb_in j C) Hj). reflexivity. Qed.

Lemma pick_max R C x : In x (cells K) -> clt (key R C (pick R C)) (key R C x) = false.
Proof. intros Hx. unfold PermAlign.pick. destruct (cells K) as [|c r] eqn:Ec; [inversion Hx|]. apply argmax_from_max; auto. Qed.
Lemma in_cells a b : a < K -> b < K -> In (a, b) (cells K).
Proof. intros. unfold cells. apply in_prod; apply in_seq; lia. Qed.

Lemma pick_avail R C : NoDup R -> NoDup C -> (forall x, In x R -> x < K) -> (forall x, In x C -> x < K) ->
  length R < K -> length C < K ->
  let p := pick R C in fst p < K /\ snd p < K /\ ~ In (fst p) R /\ ~ In (snd p) C.
Proof.
  intros HR HC HbR HbC HlR HlC p.
  destruct (free_index R HR HbR HlR) as [i [Hi HiR]].
  destruct (free_index C HC HbC HlC) as [j [Hj HjC]].
  assert (Hin: In (i,j) (cells K)) by (apply in_cells; auto).
  assert (Hk: key R C (i,j) = Some (Sc i j)) by (apply key_avail; auto).
  assert (Hmax: clt (key R C p) (key R C (i,j)) = false) by (apply pick_max; auto).
  assert (Hp: In p (cells K)).
  { unfold p, PermAlign.pick. destruct (cells K) as [|c r] eqn:Ec; [inversion Hin|]. apply argmax_from_in. }
  unfold cells in Hp. clearbody p. destruct p as [a b]. apply in_prod_iff in Hp as [Ha Hb]. apply in_seq in Ha, Hb.
  rewrite Hk in Hmax. unfold PermAlign.key in Hmax. destruct (avail R C (a,b)) eqn:Ea; [|simpl in Hmax; discriminate].
  unfold avail in Ea; simpl in Ea. apply andb_true_iff in Ea as [E1 E2]. apply negb_true_iff in E1, E2.
  simpl. repeat split; try lia; apply not_memb_in; auto.
Qed.

(* invariant: acc is a partial injection with rows R and columns C *)
Theorem greedy_is_perm_raw fuel R C acc :
  NoDup R -> NoDup C -> (forall x, In x R -> x < K) -> (forall x, In x C -> x < K) ->
  length R = length C -> length R + fuel <= K ->
  map fst acc = R -> map snd acc = C ->
  let res := greedy fuel R C acc in
  NoDup (map fst res) /\ NoDup (map snd res) /\ length res = length R + fuel /\
  (forall p, In p res -> fst p < K /\ snd p < K).
Proof.
  revert R C acc; induction fuel as [|f IH]; intros R C acc HR HC HbR HbC Hlen Hf Hfst Hsnd; simpl.
  - rewrite Hfst, Hsnd. split; [auto|split; [auto|split]].
    + rewrite <- Hfst, map_length; lia.
    + intros q Hq. split; [apply HbR; rewrite <- Hfst|apply HbC; rewrite <- Hsnd]; apply in_map; auto.
  - destruct (pick_avail R C HR HC HbR HbC) as [H1 [H2 [H3 H4]]]; try lia.
    set (p := pick R C) in *.
    specialize (IH (fst p :: R) (snd p :: C) (p :: acc)).
    destruct IH as [I1 [I2 [I3 I4]]]; simpl; auto; try lia.
    + constructor; auto. + constructor; auto.
    + intros x [<-|Hx]; auto. + intros x [<-|Hx]; auto.
    + f_equal; auto. + f_equal; auto.
    + split; [auto|split; [auto|split; [simpl in I3; lia|auto]]].
Qed.

Lemma lookup_in (l : list (nat * nat)) p : NoDup (map fst l) -> In p l -> lookup (fst p) l = snd p.
Proof. induction l as [|q l IH]; intros Hnd Hin; [inversion Hin|].
  unfold lookup. cbn [find]. inversion Hnd as [|? ? Hq Hnd']; subst.
  destruct Hin as [->|Hin].
  - rewrite Nat.eqb_refl. reflexivity.
  - destruct (Nat.eqb (fst q) (fst p)) eqn:E.
    + apply Nat.eqb_eq in E. exfalso. apply Hq. rewrite E. apply in_map; auto.
    + apply IH; auto. Qed.
Lemma map_lookup (l : list (nat * nat)) : NoDup (map fst l) -> map (fun i => lookup i l) (map fst l) = map snd l.
Proof. intros H. rewrite map_map. apply map_ext_in. intros p Hp. apply lookup_in; auto. Qed.

(* C14: the greedy assignment is a permutation of 0..K-1, for every K and every matrix *)
Theorem greedy_assign_is_perm : is_perm K (greedy_assign ltb K Sc).
Proof.
  destruct (greedy_is_perm_raw K [] [] []) as [H1 [H2 [H3 H4]]]; simpl; auto; try constructor;
    try (intros x []); try lia.
  unfold greedy_assign. set (res := greedy K [] [] []) in *. simpl in H3.
  assert (P1: Permutation (map fst res) (seq 0 K)).
  { apply nodup_bounded_perm; auto. rewrite map_length; auto.
    intros x Hx. apply in_map_iff in Hx as [p [<- Hp]]. apply H4; auto. }
  assert (P2: Permutation (map snd res) (seq 0 K)).
  { apply nodup_bounded_perm; auto. rewrite map_length; auto.
    intros x Hx. apply in_map_iff in Hx as [p [<- Hp]]. apply H4; auto. }
  unfold is_perm. transitivity (map snd res); [|exact P2]. rewrite <- (map_lookup res H1).
  apply Permutation_map. symmetry. exact P1.
Qed.

Lemma pick_ext Sc' R C : (forall i j, i < K -> j < K -> Sc i j = Sc' i j) ->
  pick R C = PermAlign.pick ltb K Sc' R C.
Proof. intros H. unfold PermAlign.pick. destruct (cells K) as [|c r] eqn:Ec; auto.
  apply argmax_from_ext. intros [a b] Hx. rewrite <- Ec in Hx. unfold cells in Hx.
  apply in_prod_iff in Hx as [Ha Hb]. apply in_seq in Ha, Hb.
  unfold PermAlign.key. simpl. rewrite H by lia. reflexivity. Qed.
Lemma greedy_ext Sc' fuel R C acc : (forall i j, i < K -> j < K -> Sc i j = Sc' i j) ->
  greedy fuel R C acc = PermAlign.greedy ltb K Sc' fuel R C acc.
Proof. intros H. revert R C acc; induction fuel as [|f IH]; intros; simpl; auto.
  rewrite <- (pick_ext Sc' R C H). apply IH. Qed.
Theorem greedy_assign_ext Sc' : (forall i j, i < K -> j < K -> Sc i j = Sc' i j) ->
  greedy_assign ltb K Sc = greedy_assign ltb K Sc'.
Proof. intros H. unfold greedy_assign. rewrite (greedy_ext Sc' K [] [] [] H). reflexivity. Qed.

(* ---------- greedy follows a strictly dominating matching (C15 / C16) ---------- *)
Section Matching.
Variable sigma tau : nat -> nat.            (* the matching row -> column and its inverse *)
Hypothesis sigma_K : forall i, i < K -> sigma i < K.
Hypothesis tau_K : forall j, j < K -> tau j < K.
Hypothesis tau_sigma : forall i, i < K -> tau (sigma i) = i.
Hypothesis sigma_tau : forall j, j < K -> sigma (tau j) = j.
(* every cell off the matching is strictly below the matching cell of its row or of its column *)
Hypothesis dominated : forall i j, i < K -> j < K -> j <> sigma i ->
  ltb (Sc i j) (Sc i (sigma i)) = true \/ ltb (Sc i j) (Sc (tau j) j) = true.

Definition consistent (R C : list nat) := forall i, i < K -> (In i R <-> In (sigma i) C).

Lemma pick_good R C : NoDup R -> NoDup C -> (forall x, In x R -> x < K) -> (forall x, In x C -> x < K) ->
  length R < K -> length C < K -> consistent R C ->
  snd (pick R C) = sigma (fst (pick R C)).
Proof.
  intros HR HC HbR HbC HlR HlC Hcons.
  destruct (pick_avail R C HR HC HbR HbC HlR HlC) as [Hi [Hj [HiR HjC]]].
  set (p := pick R C) in *. destruct p as [i j] eqn:Ep. simpl in *.
  destruct (Nat.eq_dec j (sigma i)) as [|Hne]; auto. exfalso.
  assert (HsC: ~ In (sigma i) C) by (intro H; apply HiR; apply (Hcons i Hi); auto).
  assert (HtR: ~ In (tau j) R).
  { intro H. apply HjC. pose proof (proj1 (Hcons (tau j) (tau_K j Hj)) H) as H'. rewrite sigma_tau in H'; auto. }
  assert (Hmax: forall x, In x (cells K) -> clt (key R C (i,j)) (key R C x) = false).
  { intros x Hx. rewrite <- Ep. unfold p. apply pick_max; auto. }
  rewrite (key_avail R C i j HiR HjC) in Hmax.
  destruct (dominated i j Hi Hj Hne) as [Hd|Hd].
  - specialize (Hmax (i, sigma i) (in_cells _ _ Hi (sigma_K i Hi))). rewrite (key_avail R C i (sigma i) HiR HsC) in Hmax. simpl in Hmax. congruence.
  - specialize (Hmax (tau j, j) (in_cells _ _ (tau_K j Hj) Hj)). rewrite (key_avail R C (tau j) j HtR HjC) in Hmax. simpl in Hmax. congruence.
Qed.

Theorem greedy_follows_matching_raw fuel R C acc :
  NoDup R -> NoDup C -> (forall x, In x R -> x < K) -> (forall x, In x C -> x < K) ->
  length R = length C -> length R + fuel <= K -> consistent R C ->
  (forall p, In p acc -> snd p = sigma (fst p)) ->
  forall p, In p (greedy fuel R C acc) -> snd p = sigma (fst p).
Proof.
  revert R C acc; induction fuel as [|f IH]; intros R C acc HR HC HbR HbC Hlen Hf Hcons Hacc; simpl; auto.
  destruct (pick_avail R C HR HC HbR HbC) as [H1 [H2 [H3 H4]]]; try lia.
  pose proof (pick_good R C HR HC HbR HbC ltac:(lia) ltac:(lia) Hcons) as Hg.
  set (p := pick R C) in *.
  apply IH; simpl; auto; try lia.
  - constructor; auto. - constructor; auto.
  - intros x [<-|Hx]; auto. - intros x [<-|Hx]; auto.
  - intros i Hi. split.
    + intros [<-|Hin]. left; auto. right. apply Hcons; auto.
    + intros [E|Hin].
      * left. rewrite Hg in E. rewrite <- (tau_sigma (fst p) H1), E, tau_sigma; auto.
      * right. apply Hcons; auto.
  - intros q [<-|Hq]; auto.
Qed.

(* the greedy assignment IS the matching *)
Theorem greedy_follows_matching : greedy_assign ltb K Sc = map sigma (seq 0 K).
Proof.
  destruct (greedy_is_perm_raw K [] [] []) as [H1 [H2 [H3 H4]]]; simpl; auto; try constructor;
    try (intros x []); try lia.
  assert (Hm: forall p, In p (greedy K [] [] []) -> snd p = sigma (fst p)).
  { apply greedy_follows_matching_raw; simpl; try lia; try (apply NoDup_nil); try (intros x []); auto.
    all: unfold consistent; simpl; tauto. }
  unfold greedy_assign. set (res := greedy K [] [] []) in *. simpl in H3.
  assert (P1: Permutation (map fst res) (seq 0 K)).
  { apply nodup_bounded_perm; auto. rewrite map_length; auto.
    intros x Hx. apply in_map_iff in Hx as [p [<- Hp]]. apply H4; auto. }
  apply map_ext_in. intros i Hi.
  apply (Permutation_in _ (Permutation_sym P1)) in Hi. apply in_map_iff in Hi as [p [<- Hp]].
  rewrite (lookup_in res p H1 Hp). apply Hm; auto.
Qed.
End Matching.

(* ---------------------------------------------------------------- optimal assignment *)
Variables (add : T -> T -> T) (zero : T).
Local Notation pscore := (perm_score K Sc add zero).

Lemma optimal_in : exists p, optimal_assign ltb K Sc add zero = p /\ In p (all_perms (seq 0 K)) /\
  forall q, In q (all_perms (seq 0 K)) -> ltb (pscore p) (pscore q) = false.
Proof. unfold optimal_assign. destruct (all_perms_head (seq 0 K)) as [r E]. rewrite E.
  destruct (scan_none pscore r (seq 0 K)) as [p [H1 [H2 H3]]]. rewrite H1. exists p; auto. Qed.

(* C14: the optimal assignment is a permutation of 0..K-1 *)
Theorem optimal_assign_is_perm : is_perm K (optimal_assign ltb K Sc add zero).
Proof. destruct optimal_in as [p [-> [Hin _]]]. unfold is_perm. symmetry. apply all_perms_sound; auto. Qed.

(* C15: no permutation scores strictly higher than the optimal assignment *)
Theorem optimal_is_max q : is_perm K q -> ltb (pscore (optimal_assign ltb K Sc add zero)) (pscore q) = false.
Proof. intros Hq. destruct optimal_in as [p [-> [_ Hmax]]]. apply Hmax.
  apply all_perms_complete. symmetry. exact Hq. Qed.
Theorem optimal_ge_greedy :
  ltb (pscore (optimal_assign ltb K Sc add zero)) (pscore (greedy_assign ltb K Sc)) = false.
Proof. apply optimal_is_max. apply greedy_assign_is_perm. Qed.
(* never worse than the identity, the first candidate *)
Theorem optimal_ge_identity : ltb (pscore (optimal_assign ltb K Sc add zero)) (pscore (seq 0 K)) = false.
Proof. apply optimal_is_max. apply is_perm_id. Qed.

(* if one permutation strictly beats every other one, it is the result *)
Theorem optimal_unique_max p : is_perm K p ->
  (forall q, is_perm K q -> q <> p -> ltb (pscore q) (pscore p) = true) ->
  optimal_assign ltb K Sc add zero = p.
Proof. intros Hp Hbest. set (o := optimal_assign ltb K Sc add zero).
  destruct (list_eq_dec Nat.eq_dec o p) as [|Hne]; auto. exfalso.
  pose proof (Hbest o optimal_assign_is_perm Hne) as H1.
  pose proof (optimal_is_max p Hp) as H2. fold o in H2. congruence. Qed.

Lemma perm_score_ext Sc' p : (forall i j, i < K -> j < K -> Sc i j = Sc' i j) ->
  (forall x, In x p -> x < K) -> pscore p = perm_score K Sc' add zero p.
Proof. intros H Hp. unfold perm_score. f_equal. apply map_ext_in. intros [k pk] Hin.
  pose proof (in_combine_l _ _ _ _ Hin) as H1. pose proof (in_combine_r _ _ _ _ Hin) as H2.
  apply in_seq in H1. simpl. apply H; [lia|auto]. Qed.
Theorem optimal_assign_ext Sc' : (forall i j, i < K -> j < K -> Sc i j = Sc' i j) ->
  optimal_assign ltb K Sc add zero = optimal_assign ltb K Sc' add zero.
Proof. intros H. unfold optimal_assign. rewrite (scan_best_ext pscore (perm_score K Sc' add zero)); auto.
  intros p Hp. apply perm_score_ext; auto. intros x Hx.
  apply all_perms_sound in Hp. apply (is_perm_bound K p); auto. unfold is_perm. symmetry; auto. Qed.
End Order.

(* ---------------------------------------------------------------- integer matrices *)
(* with every entry above the dtype minimum the integer variant is the -inf variant ... *)
Section IntBottom.
Variables (K : nat) (Sc : nat -> nat -> BinNums.Z) (bottom : BinNums.Z).
Hypothesis above : forall i j, i < K -> j < K -> BinInt.Z.lt bottom (Sc i j).

Lemma argmax_int_agrees R C (l : list (nat * nat)) b :
  (forall p, In p (b :: l) -> fst p < K /\ snd p < K) ->
  argmax_int (key_int Sc bottom R C) l b = argmax_from BinInt.Z.ltb (key Sc R C) l b.
Proof. revert b; induction l as [|c r IH]; intros b H; simpl; auto.
  assert (E: BinInt.Z.ltb (key_int Sc bottom R C b) (key_int Sc bottom R C c) = clt BinInt.Z.ltb (key Sc R C b) (key Sc R C c)).
  { unfold key_int, key. destruct (H b (or_introl eq_refl)) as [B1 B2]. destruct (H c (or_intror (or_introl eq_refl))) as [C1 C2].
    destruct (avail R C b), (avail R C c); simpl; auto.
    - apply BinInt.Z.ltb_ge. apply BinInt.Z.lt_le_incl. apply above; auto.
    - apply BinInt.Z.ltb_lt. apply above; auto.
    - apply BinInt.Z.ltb_irrefl. }
  rewrite E. destruct (clt BinInt.Z.ltb (key Sc R C b) (key Sc R C c)); apply IH; intros p [<-|Hp]; apply H; simpl; auto. Qed.
Lemma pick_int_agrees R C : pick_int K Sc bottom R C = pick BinInt.Z.ltb K Sc R C.
Proof. unfold pick_int, pick. destruct (cells K) as [|c r] eqn:Ec; auto. apply argmax_int_agrees.
  intros p Hp. rewrite <- Ec in Hp. unfold cells in Hp. destruct p as [a b]. apply in_prod_iff in Hp as [Ha Hb].
  apply in_seq in Ha, Hb. simpl. lia. Qed.
Lemma greedy_int_agrees fuel R C acc : greedy_int K Sc bottom fuel R C acc = greedy BinInt.Z.ltb K Sc fuel R C acc.
Proof. revert R C acc; induction fuel as [|f IH]; intros; simpl; auto. rewrite pick_int_agrees. apply IH. Qed.
Theorem greedy_assign_int_agrees : greedy_assign_int K Sc bottom = greedy_assign BinInt.Z.ltb K Sc.
Proof. unfold greedy_assign_int, greedy_assign. rewrite greedy_int_agrees. reflexivity. Qed.
Theorem greedy_assign_int_is_perm : is_perm K (greedy_assign_int K Sc bottom).
Proof. rewrite greedy_assign_int_agrees. apply greedy_assign_is_perm.
  - apply BinInt.Z.ltb_irrefl.
  - intros x y z H1 H2. apply BinInt.Z.ltb_lt in H1, H2. apply BinInt.Z.ltb_lt. lia.
  - intros x y z H1 H2. apply BinInt.Z.ltb_ge in H1, H2. apply BinInt.Z.ltb_ge. lia. Qed.
End IntBottom.

(* ... but a matrix that contains the dtype minimum defeats the masking *)
Theorem greedy_int_min_refuted :
  exists (K : nat) (Sc : nat -> nat -> BinNums.Z) (bottom : BinNums.Z), ~ is_perm K (greedy_assign_int K Sc bottom).
Proof. exists 2, (fun _ _ => BinNums.Z0), BinNums.Z0. intros H.
  assert (E: greedy_assign_int 2 (fun _ _ => BinNums.Z0) BinNums.Z0 = [0; 0]) by (vm_compute; reflexivity).
  rewrite E in H. unfold is_perm in H. simpl in H.
  assert (Hin: In 1 [0; 0]) by (apply (Permutation_in _ (Permutation_sym H)); simpl; auto).
  simpl in Hin. destruct Hin as [Hc|[Hc|[]]]; discriminate. Qed.
