(* Proofs/Masks.v -- C18: oracle mask identities over the real instance RO with true division
   dv := odiv RO (definitionally Rdiv), and the discrete moveaxis round trip. *)
From Coq Require Import Reals Lra Lia List Bool Arith Permutation Sorted.
From Coquelicot Require Import Coquelicot.
From PB Require Import Ops CLin Model.Masks Model.Metrics Proofs.Metrics.
Import ListNotations.
Open Scope R_scope.

Notation dvR := (odiv RO).

Lemma sltb_RO a b : sltb RO a b = true <-> a < b.
Proof. unfold sltb. cbn [oleb RO]. rewrite andb_true_iff, negb_true_iff, Rleb_true, Rleb_false. lra. Qed.
Lemma sltb_RO_false a b : sltb RO a b = false <-> b <= a.
Proof. destruct (sltb RO a b) eqn:E.
  - apply sltb_RO in E. split; [discriminate | lra].
  - split; auto. intros _. destruct (Rle_lt_dec b a); auto. apply sltb_RO in r. congruence. Qed.
Lemma is0_RO a : is0 RO a = true <-> a = 0.
Proof. unfold is0. cbn [oleb o0 RO]. rewrite andb_true_iff, !Rleb_true. lra. Qed.
Lemma cis0_RO z : cis0 RO z = true <-> z = (0, 0).
Proof. unfold cis0. rewrite andb_true_iff, !is0_RO. destruct z as [a b]; cbn [fst snd]. split.
  intros [-> ->]; reflexivity. intros E; inversion E; auto. Qed.
Lemma cabs2_nonneg (z : R * R) : 0 <= cabs2 RO z.
Proof. unfold cabs2. cbn [omul oadd RO]. nra. Qed.
Lemma cabs_nonneg (z : R * R) : 0 <= cabs RO z.
Proof. unfold cabs. cbn [osqrt RO]. apply sqrt_pos. Qed.
Lemma cabs_sq (z : R * R) : cabs RO z * cabs RO z = fst z * fst z + snd z * snd z.
Proof. unfold cabs. cbn [osqrt RO]. rewrite sqrt_sqrt. reflexivity. apply cabs2_nonneg. Qed.
Lemma cabs_pos (z : R * R) : z <> (0, 0) -> 0 < cabs RO z.
Proof. intros H. unfold cabs. cbn [osqrt RO]. apply sqrt_lt_R0. unfold cabs2. cbn [omul oadd RO].
  destruct z as [a b]; cbn [fst snd]. destruct (Req_dec a 0) as [->|Ha].
  - destruct (Req_dec b 0) as [->|Hb]; [congruence | nra].
  - nra. Qed.
Lemma cabs_zero : cabs RO (0, 0) = 0.
Proof. unfold cabs, cabs2. cbn [fst snd omul oadd osqrt RO]. replace (0 * 0 + 0 * 0) with 0 by ring. apply sqrt_0. Qed.
Lemma obool_RO b : obool RO b = if b then 1 else 0. Proof. reflexivity. Qed.

(* ------------------------------------------------------------ ideal binary mask *)
Lemma argmax_upto_le n f : (argmax_upto RO n f <= n)%nat.
Proof. induction n; cbn [argmax_upto]; [lia|]. destruct (sltb RO _ _); lia. Qed.
Lemma argmax_upto_spec n f :
  (forall k, (k <= n)%nat -> f k <= f (argmax_upto RO n f)) /\
  (forall k, (k < argmax_upto RO n f)%nat -> f k < f (argmax_upto RO n f)).
Proof. induction n as [|n [IH1 IH2]]; cbn [argmax_upto].
  - split; intros k Hk; [replace k with 0%nat by lia; lra | lia].
  - pose proof (argmax_upto_le n f) as Hle.
    destruct (sltb RO (f (argmax_upto RO n f)) (f (S n))) eqn:E.
    + apply sltb_RO in E. split; intros k Hk.
      * destruct (Nat.eq_dec k (S n)) as [->|]; [lra|]. specialize (IH1 k ltac:(lia)). lra.
      * specialize (IH1 k ltac:(lia)). lra.
    + apply sltb_RO_false in E. split; intros k Hk.
      * destruct (Nat.eq_dec k (S n)) as [->|]; [lra|]. apply IH1; lia.
      * apply IH2; auto. Qed.

Lemma rsum_delta n j : (j < n)%nat -> rsum n (fun k => if Nat.eqb k j then 1 else 0) = 1.
Proof. induction n; intros Hj; [lia|]. cbn [rsum]. destruct (Nat.eq_dec j n) as [->|Hne].
  - rewrite Nat.eqb_refl. rewrite rsum_zero; [lra|]. intros k Hk. destruct (Nat.eqb_spec k n); [lia|reflexivity].
  - rewrite IHn by lia. destruct (Nat.eqb_spec n j); [lia|lra]. Qed.

Section IBM.
Variables (K D : nat) (x : nat -> nat -> R * R).
Hypothesis HK : (0 < K)%nat.
Let j := argmax_upto RO (pred K) (pooled RO D x).

(* one-hot at j, the FIRST source of maximal sensor-pooled power *)
Theorem ibm_one_hot_argmax :
  (j < K)%nat /\ ibm RO K D x j = 1 /\ (forall k, k <> j -> ibm RO K D x k = 0) /\
  rsum K (ibm RO K D x) = 1 /\
  (forall k, (k < K)%nat -> pooled RO D x k <= pooled RO D x j) /\
  (forall k, (k < j)%nat -> pooled RO D x k < pooled RO D x j).
Proof. pose proof (argmax_upto_le (pred K) (pooled RO D x)) as Hle. fold j in Hle.
  destruct (argmax_upto_spec (pred K) (pooled RO D x)) as [H1 H2]. fold j in H1, H2.
  assert (Hj : (j < K)%nat) by lia.
  repeat split; auto.
  - unfold ibm. fold j. rewrite Nat.eqb_refl. reflexivity.
  - intros k Hk. unfold ibm. fold j. destruct (Nat.eqb_spec k j); [congruence | reflexivity].
  - rewrite (rsum_ext K _ (fun k => if Nat.eqb k j then 1 else 0)). apply rsum_delta; auto.
    intros k _. unfold ibm. fold j. destruct (Nat.eqb k j); reflexivity.
  - intros k Hk. apply H1. lia. Qed.
End IBM.

(* ------------------------------------------------------------ ratio masks *)
Section Ratio.
Variables (K : nat) (A : nat -> R) (eps : R).
Hypothesis HA : forall k, (k < K)%nat -> 0 <= A k.
Hypothesis He : 0 < eps.
Let r k := dvR (A k) (rsum K A + eps).
Theorem ratio_range_sum :
  (forall k, (k < K)%nat -> 0 <= r k <= 1) /\ rsum K r = rsum K A / (rsum K A + eps) /\
  (0 < rsum K A -> 0 <= 1 - rsum K r <= eps / rsum K A).
Proof. pose proof (rsum_nonneg K A HA) as HS. assert (Hd: 0 < rsum K A + eps) by lra.
  assert (Hi: 0 < / (rsum K A + eps)) by (apply Rinv_0_lt_compat; auto).
  assert (Esum : rsum K r = rsum K A / (rsum K A + eps)).
  { unfold r, odiv. cbn [omul oinv RO]. apply rsum_scale. }
  split; [|split; auto].
  - intros k Hk. unfold r, odiv. cbn [omul oinv RO]. pose proof (HA k Hk). pose proof (term_le_rsum K A k HA Hk). split. nra.
    replace 1 with ((rsum K A + eps) * / (rsum K A + eps)) by (field; lra). apply Rmult_le_compat_r; lra.
  - intros HP. rewrite Esum.
    replace (1 - rsum K A / (rsum K A + eps)) with (eps / (rsum K A + eps)) by (field; lra).
    split. unfold Rdiv. nra.
    unfold Rdiv. apply Rmult_le_compat_l; [lra|]. apply Rinv_le_contravar; lra. Qed.
End Ratio.

Lemma pooled_nonneg D (x : nat -> nat -> R * R) k : 0 <= pooled RO D x k.
Proof. unfold pooled. rewrite bsum_RO. apply rsum_nonneg; intros. apply cabs2_nonneg. Qed.

Theorem wiener_range_sum K D (x : nat -> nat -> R * R) eps : 0 < eps ->
  let P := rsum K (pooled RO D x) in
  (forall k, (k < K)%nat -> 0 <= wiener RO dvR K D x eps k <= 1) /\
  rsum K (wiener RO dvR K D x eps) = P / (P + eps) /\
  (0 < P -> 0 <= 1 - rsum K (wiener RO dvR K D x eps) <= eps / P).
Proof. intros He P.
  pose proof (ratio_range_sum K (pooled RO D x) eps (fun k _ => pooled_nonneg D x k) He) as H.
  unfold wiener. cbn [oadd RO]. rewrite (bsum_RO K (pooled RO D x)). exact H. Qed.

Theorem irm_range_sum K (s : nat -> R * R) eps : 0 < eps ->
  let P := rsum K (mag RO s) in
  (forall k, (k < K)%nat -> 0 <= irm RO dvR K s eps k <= 1) /\
  rsum K (irm RO dvR K s eps) = P / (P + eps) /\
  (0 < P -> 0 <= 1 - rsum K (irm RO dvR K s eps) <= eps / P).
Proof. intros He P.
  pose proof (ratio_range_sum K (mag RO s) eps (fun k _ => cabs_nonneg (s k)) He) as H.
  unfold irm. cbn [oadd RO]. rewrite (bsum_RO K (mag RO s)). exact H. Qed.

(* ------------------------------------------------------------ complex and phase-sensitive masks *)
Lemma cdivt_mul (a b : R * R) : b <> (0, 0) -> cmul RO (cdivt RO dvR a b) b = a.
Proof. intros Hb. destruct a as [a1 a2], b as [b1 b2].
  assert (Hn : b1 * b1 + b2 * b2 <> 0).
  { intros E. apply Hb. assert (b1 = 0) by nra. assert (b2 = 0) by nra. subst; reflexivity. }
  unfold cdivt, cmul, cconj, cabs2, odiv. cbn [fst snd omul oadd oopp oinv RO]. f_equal; field; auto. Qed.

Theorem icm_reconstructs K (s : nat -> R * R) k : mix RO K s <> (0, 0) ->
  cmul RO (icm RO dvR K s k) (mix RO K s) = s k.
Proof. intros H. unfold icm. apply cdivt_mul; auto. Qed.

(* psm = Re(icm) * |y| / (|y| + eps): the real part of the complex mask up to the eps guard *)
Theorem psm_is_re_icm K (s : nat -> R * R) eps k : 0 <= eps -> mix RO K s <> (0, 0) ->
  psm RO dvR K s eps k
  = fst (icm RO dvR K s k) * (cabs RO (mix RO K s) / (cabs RO (mix RO K s) + eps)).
Proof. intros He Hy.
  destruct (cis0 RO (s k)) eqn:Es.
  - apply cis0_RO in Es.
    assert (E1 : psm RO dvR K s eps k = 0).
    { unfold psm, mag. rewrite Es, cabs_zero. unfold odiv. cbn [omul oinv RO]. ring. }
    assert (E2 : fst (icm RO dvR K s k) = 0).
    { unfold icm, cdivt. rewrite Es. unfold cmul, odiv. cbn [fst snd omul oadd oopp oinv RO]. ring. }
    rewrite E1, E2. ring.
  - unfold psm, icm, mag. set (y := mix RO K s) in *.
    pose proof (cabs_pos y Hy) as Hmy. pose proof (cabs_sq y) as Hsq.
    assert (Hcy : cis0 RO y = false).
    { destruct (cis0 RO y) eqn:E; auto. apply cis0_RO in E. congruence. }
    assert (Hs : s k <> (0, 0)). { intros E. apply cis0_RO in E. congruence. }
    pose proof (cabs_pos (s k) Hs) as Hms.
    unfold cosdiff, cunit. rewrite Hcy, Es.
    destruct (s k) as [s1 s2]. destruct y as [y1 y2].
    set (ms := cabs RO (s1, s2)) in *. set (my := cabs RO (y1, y2)) in *. cbn [fst snd] in Hsq.
    unfold cdivt, cmul, cconj, cabs2, odiv. cbn [fst snd omul oadd oopp oinv RO].
    rewrite <- Hsq. field. repeat split; lra. Qed.

(* ------------------------------------------------------------ zero input *)
Lemma bsum_zero_RO n f : (forall k, (k < n)%nat -> f k = 0) -> bsum RO n f = 0.
Proof. intros H. rewrite bsum_RO. apply rsum_zero; auto. Qed.
Lemma csumO_zero n (f : nat -> R * R) : (forall k, f k = (0, 0)) -> csumO RO n f = (0, 0).
Proof. intros H. induction n; cbn [csumO]. reflexivity. rewrite IHn, H. unfold cadd. cbn [fst snd oadd RO].
  f_equal; ring. Qed.

Theorem masks_zero_input K D (x : nat -> nat -> R * R) (s : nat -> R * R) eps k :
  0 < eps -> (0 < K)%nat -> (forall k d, x k d = (0, 0)) -> (forall k, s k = (0, 0)) ->
  wiener RO dvR K D x eps k = 0 /\ irm RO dvR K s eps k = 0 /\ iam RO dvR K s eps k = 0 /\
  psm RO dvR K s eps k = 0 /\
  (* every denominator equals eps, which is not zero *)
  bsum RO K (pooled RO D x) + eps = eps /\ bsum RO K (mag RO s) + eps = eps /\ cabs RO (mix RO K s) + eps = eps /\
  (* the binary mask is still one-hot (at source 0) *)
  ibm RO K D x k = if Nat.eqb k 0 then 1 else 0.
Proof. intros He HK Hx Hs.
  assert (Hp : forall k, pooled RO D x k = 0).
  { intros k'. unfold pooled. apply bsum_zero_RO. intros d _. rewrite Hx. unfold cabs2. cbn [fst snd omul oadd RO]. ring. }
  assert (Hm : forall k, mag RO s k = 0) by (intros k'; unfold mag; rewrite Hs; apply cabs_zero).
  assert (Hy : mix RO K s = (0, 0)) by (apply csumO_zero; auto).
  assert (S1 : bsum RO K (pooled RO D x) = 0) by (apply bsum_zero_RO; auto).
  assert (S2 : bsum RO K (mag RO s) = 0) by (apply bsum_zero_RO; auto).
  unfold wiener, irm, iam, psm, odiv. cbn [omul oinv oadd RO]. rewrite Hp, !Hm, Hy, S1, S2, cabs_zero.
  repeat split; try ring.
  unfold ibm.
  assert (Ej : forall n, argmax_upto RO n (pooled RO D x) = 0%nat).
  { induction n; cbn [argmax_upto]; auto. rewrite IHn, !Hp.
    destruct (sltb RO 0 0) eqn:E; auto. apply sltb_RO in E. lra. }
  rewrite Ej. reflexivity. Qed.

(* ------------------------------------------------------------ sorting and order statistics *)
Lemma insert_sorted_perm a l : Permutation (insert_sorted RO a l) (a :: l).
Proof. induction l as [|b r IH]; cbn [insert_sorted]. reflexivity.
  destruct (oleb RO a b). reflexivity. rewrite IH. apply perm_swap. Qed.
Lemma sort_asc_perm l : Permutation (sort_asc RO l) l.
Proof. induction l as [|a r IH]; cbn [sort_asc fold_right]. reflexivity.
  fold (sort_asc RO r). rewrite insert_sorted_perm. constructor. exact IH. Qed.
Lemma sort_asc_length l : length (sort_asc RO l) = length l.
Proof. apply Permutation_length, sort_asc_perm. Qed.

Lemma insert_sorted_sorted a l : Sorted Rle l -> Sorted Rle (insert_sorted RO a l).
Proof. induction l as [|b r IH]; intros Hs; cbn [insert_sorted].
  - constructor; constructor.
  - destruct (oleb RO a b) eqn:E; cbn [oleb RO] in E.
    + apply Rleb_true in E. constructor; auto.
    + apply Rleb_false in E. inversion Hs as [|? ? Hs' Hd]; subst. constructor. apply IH; auto.
      destruct r as [|c r']; cbn [insert_sorted].
      * constructor. lra.
      * destruct (oleb RO a c); constructor; [lra|]. inversion Hd; auto. Qed.
Lemma sort_asc_sorted l : Sorted Rle (sort_asc RO l).
Proof. induction l as [|a r IH]; cbn [sort_asc fold_right]. constructor.
  fold (sort_asc RO r). apply insert_sorted_sorted; auto. Qed.
Lemma Rle_trans' : Relations_1.Transitive Rle.
Proof. intros a b c; apply Rle_trans. Qed.
Lemma sorted_nth_le l i j : Sorted Rle l -> (i <= j)%nat -> (j < length l)%nat -> nth i l 0 <= nth j l 0.
Proof. intros Hs. apply Sorted_StronglySorted in Hs; [|exact Rle_trans'].
  revert i j. induction Hs as [|a l Hs IH Hall]; intros i j Hij Hj; simpl in Hj; [lia|].
  destruct i, j; simpl; try lia; try lra.
  - rewrite Forall_forall in Hall. apply Hall. apply nth_In. lia.
  - apply IH; lia. Qed.

Lemma onat_R n : onat RO n = INR n.
Proof. apply onat_RO_m. Qed.

Lemma bfloor_full n v : INR n <= v -> bfloor RO n v = n.
Proof. induction n; intros H; cbn [bfloor]; auto. rewrite onat_R.
  assert (E : oleb RO (INR (S n)) v = true) by (cbn [oleb RO]; apply Rleb_true; auto). rewrite E.
  rewrite IHn; [lia|]. rewrite S_INR in H. lra. Qed.
Lemma bfloor_spec n v : 0 <= v ->
  (bfloor RO n v <= n)%nat /\ INR (bfloor RO n v) <= v /\ ((bfloor RO n v < n)%nat -> v < INR (bfloor RO n v) + 1).
Proof. intros Hv. induction n as [|n [I1 [I2 I3]]]; cbn [bfloor].
  - simpl. repeat split; try lia; lra.
  - rewrite onat_R. destruct (oleb RO (INR (S n)) v) eqn:E; cbn [oleb RO] in E.
    + apply Rleb_true in E. rewrite bfloor_full by (rewrite S_INR in E; lra).
      replace (1 + n)%nat with (S n) by lia. repeat split; try lia; auto.
    + apply Rleb_false in E. cbn [Nat.add]. repeat split; try lia; auto.
      intros _. destruct (Nat.eq_dec (bfloor RO n v) n) as [En|Hn].
      * rewrite En. rewrite S_INR in E. lra.
      * apply I3. lia. Qed.

Lemma half_RO : half RO dvR = / 2.
Proof. unfold half, odiv. cbn [omul oinv o1 RO]. rewrite onat_R. simpl. field. Qed.
Lemma lerp_between a b t : a <= b -> 0 <= t <= 1 -> a <= lerp RO dvR a b t <= b.
Proof. intros Hab Ht. unfold lerp, osub. cbn [oadd omul oopp o1 RO]. destruct (oleb RO (half RO dvR) t); split; nra. Qed.
Lemma lerp_zero a b : lerp RO dvR a b 0 = a.
Proof. unfold lerp, osub. rewrite half_RO. cbn [oadd omul oopp o1 oleb RO].
  assert (E : Rleb (/ 2) 0 = false) by (apply Rleb_false; lra). rewrite E. ring. Qed.

(* virtual index of numpy's linear method *)
Definition vidx (n : nat) (qp : R) : R := INR (n - 1) * (qp / 100).
Lemma hundred_RO : hundred RO = 100.
Proof. unfold hundred. rewrite onat_R. rewrite INR_IZR_INZ. simpl. reflexivity. Qed.

(* the linear percentile lies between the order statistics floor(v) and floor(v)+1 of the sorted sample,
   v = (n-1) qp/100; it IS the order statistic when v is an integer *)
Theorem percentile_bracket l qp : l <> [] -> 0 <= qp <= 100 ->
  let a := sort_asc RO l in let n := length l in let lo := bfloor RO (n - 1) (vidx n qp) in
  (lo <= n - 1)%nat /\ INR lo <= vidx n qp /\ ((lo < n - 1)%nat -> vidx n qp < INR lo + 1) /\
  nth lo a 0 <= percentile RO dvR l qp <= nth (Nat.min (S lo) (n - 1)) a 0 /\
  (vidx n qp = INR lo -> percentile RO dvR l qp = nth lo a 0).
Proof. intros Hne Hq a n lo.
  assert (Hn : (0 < n)%nat) by (unfold n; destruct l; [congruence | simpl; lia]).
  assert (Hv : 0 <= vidx n qp). { unfold vidx. apply Rmult_le_pos. apply pos_INR. lra. }
  assert (Hvn : vidx n qp <= INR (n - 1)).
  { unfold vidx. pose proof (pos_INR (n - 1)). replace (INR (n - 1)) with (INR (n - 1) * 1) at 2 by ring.
    apply Rmult_le_compat_l; auto. lra. }
  destruct (bfloor_spec (n - 1) (vidx n qp) Hv) as [B1 [B2 B3]]. fold lo in B1, B2, B3.
  assert (Ev : omul RO (onat RO (n - 1)) (dvR qp (hundred RO)) = vidx n qp).
  { unfold vidx, odiv. cbn [omul oinv RO]. rewrite onat_R, hundred_RO. reflexivity. }
  assert (Hsort : Sorted Rle a) by apply sort_asc_sorted.
  assert (Hlen : length a = n) by apply sort_asc_length.
  repeat split; auto.
  - unfold percentile. fold a n. rewrite Ev, onat_R. cbn [oleb RO o0].
    destruct (Rleb (INR (n - 1)) (vidx n qp)) eqn:E.
    + apply Rleb_true in E. apply sorted_nth_le; auto; lia.
    + apply Rleb_false in E. fold lo.
      assert (Hlo : (lo < n - 1)%nat). { apply INR_lt. lra. }
      specialize (B3 Hlo). apply lerp_between.
      apply sorted_nth_le; auto; lia. unfold osub. cbn [oadd oopp RO]. rewrite onat_R. lra.
  - unfold percentile. fold a n. rewrite Ev, onat_R. cbn [oleb RO o0].
    destruct (Rleb (INR (n - 1)) (vidx n qp)) eqn:E.
    + apply Rleb_true in E. assert (El : lo = (n - 1)%nat) by (apply bfloor_full; auto).
      rewrite El, Nat.min_r by lia. lra.
    + apply Rleb_false in E. fold lo.
      assert (Hlo : (lo < n - 1)%nat). { apply INR_lt. lra. }
      specialize (B3 Hlo). rewrite Nat.min_l by lia. apply lerp_between.
      apply sorted_nth_le; auto; lia. unfold osub. cbn [oadd oopp RO]. rewrite onat_R. lra.
  - intros Eint. unfold percentile. fold a n. rewrite Ev, onat_R. cbn [oleb RO o0].
    destruct (Rleb (INR (n - 1)) (vidx n qp)) eqn:E.
    + apply Rleb_true in E. assert (lo = n - 1)%nat. { apply INR_eq. lra. } subst lo. f_equal. auto.
    + fold lo. unfold osub. cbn [oadd oopp RO]. rewrite onat_R, Eint.
      replace (INR lo + - INR lo) with 0 by ring. apply lerp_zero. Qed.

(* ------------------------------------------------------------ levels *)
Lemma level_RO w b : level RO dvR w b = if b then / 2 + w / 2 else / 2 - w / 2.
Proof. unfold level, osub. rewrite half_RO, obool_RO. cbn [oadd omul oopp RO]. destruct b; field. Qed.

Theorem quantile_levels l q w i : (i < length l)%nat ->
  let thr := quantile_threshold RO dvR l q in let xi := nth i l 0 in
  nth i (quantile_mask RO dvR l q w) 0
  = (if quantile_hit RO dvR l q xi then / 2 + w / 2 else / 2 - w / 2) /\
  (0 <= q -> thr = percentile RO dvR l ((1 - q) * 100) /\ (quantile_hit RO dvR l q xi = true <-> thr < xi)) /\
  (q < 0 -> thr = percentile RO dvR l (Rabs q * 100) /\ (quantile_hit RO dvR l q xi = true <-> xi < thr)).
Proof. intros Hi thr xi. split; [|split].
  - unfold quantile_mask. rewrite (nth_indep _ 0 (level RO dvR w (quantile_hit RO dvR l q 0)))
      by (rewrite map_length; auto).
    rewrite (map_nth (fun xi => level RO dvR w (quantile_hit RO dvR l q xi))). apply level_RO.
  - intros Hq. assert (E : oleb RO (o0 RO) q = true) by (cbn [oleb o0 RO]; apply Rleb_true; auto).
    unfold thr, quantile_hit, quantile_threshold. rewrite E. rewrite hundred_RO.
    unfold osub. cbn [oadd omul oopp o1 RO]. split; [reflexivity | apply sltb_RO].
  - intros Hq. assert (E : oleb RO (o0 RO) q = false) by (cbn [oleb o0 RO]; apply Rleb_false; auto).
    unfold thr, quantile_hit, quantile_threshold. rewrite E. rewrite hundred_RO.
    assert (Ea : oabs RO q = Rabs q).
    { unfold oabs. rewrite E. cbn [oopp RO]. rewrite Rabs_left; auto. }
    rewrite Ea. cbn [omul RO]. split; [reflexivity | apply sltb_RO]. Qed.

(* ------------------------------------------------------------ Lorenz threshold *)
Section FoldMin.
Variable frac : R.
Let step (m : option R) (pq : R * R) : option R :=
  if sltb RO (snd pq) frac then omin_opt RO m (fst pq) else m.
Lemma omin_RO a b : omin RO a b = Rmin a b. Proof. apply CLin.omin_RO. Qed.

Lemma fold_min_spec (l : list (R * R)) (m0 : option R) :
  match fold_left step l m0 with
  | None => m0 = None /\ forall pq, In pq l -> ~ snd pq < frac
  | Some t =>
      (m0 = Some t \/ exists pq, In pq l /\ snd pq < frac /\ fst pq = t) /\
      (forall b, m0 = Some b -> t <= b) /\
      (forall pq, In pq l -> snd pq < frac -> t <= fst pq)
  end.
Proof. revert m0. induction l as [|pq r IH]; intros m0; cbn [fold_left].
  - destruct m0 as [b|].
    + split; [left; reflexivity | split]. intros b' E; inversion E; lra. intros ? [].
    + split; auto.
  - specialize (IH (step m0 pq)). destruct (fold_left step r (step m0 pq)) as [t|].
    + destruct IH as [I1 [I2 I3]]. unfold step in I1, I2. destruct (sltb RO (snd pq) frac) eqn:E.
      * apply sltb_RO in E. destruct m0 as [b|]; cbn [omin_opt] in I1, I2.
        -- rewrite omin_RO in I1, I2. specialize (I2 _ eq_refl).
           split; [|split].
           ++ destruct I1 as [I1|[pq' [Hin [Hs Hf]]]].
              ** injection I1 as Et. destruct (Rle_dec b (fst pq)) as [Hle|Hgt].
                 { left. rewrite <- Et, Rmin_left by auto. reflexivity. }
                 { right. exists pq. split; [left; auto|]. split; auto. rewrite <- Et. symmetry. apply Rmin_right. lra. }
              ** right. exists pq'. split; [right; auto | auto].
           ++ intros b' Eb. injection Eb as <-. pose proof (Rmin_l b (fst pq)). lra.
           ++ intros pq' [<-|Hin] Hs. pose proof (Rmin_r b (fst pq)). lra. apply I3; auto.
        -- specialize (I2 _ eq_refl). split; [|split].
           ++ destruct I1 as [I1|[pq' [Hin [Hs Hf]]]].
              ** inversion I1. right. exists pq. split; [left; auto|]. split; auto.
              ** right. exists pq'. split; [right; auto | auto].
           ++ intros b' Eb; discriminate.
           ++ intros pq' [<-|Hin] Hs. lra. apply I3; auto.
      * apply sltb_RO_false in E. split; [|split].
        -- destruct I1 as [I1|[pq' [Hin [Hs Hf]]]]; [left; auto|]. right. exists pq'. split; [right; auto|auto].
        -- auto.
        -- intros pq' [<-|Hin] Hs. lra. apply I3; auto.
    + destruct IH as [I1 I2]. unfold step in I1. destruct (sltb RO (snd pq) frac) eqn:E.
      * destruct m0; cbn [omin_opt] in I1; discriminate.
      * apply sltb_RO_false in E. split; auto. intros pq' [<-|Hin]. lra. apply I2; auto. Qed.
End FoldMin.

(* the Lorenz table: powers in descending order paired with their cumulative share of the total *)
Definition lorenz_table (l : list R) : list (R * R) :=
  let sorted := rev (sort_asc RO l) in
  combine sorted (map (fun c => dvR c (lsum RO sorted)) (cumsum_from RO 0 sorted)).

Theorem lorenz_levels l frac w thr i : lorenz_threshold RO dvR l frac = Some thr -> (i < length l)%nat ->
  (* thr is the power of a listed point whose cumulative share is below the fraction, and the weakest such *)
  (exists pq, In pq (lorenz_table l) /\ snd pq < frac /\ fst pq = thr) /\
  (forall pq, In pq (lorenz_table l) -> snd pq < frac -> thr <= fst pq) /\
  (* levels: high exactly at the points strictly stronger than thr *)
  exists m, lorenz_mask RO dvR l frac w = Some m /\
    nth i m 0 = if Rlt_dec thr (nth i l 0) then / 2 + w / 2 else / 2 - w / 2.
Proof. intros Ht Hi. unfold lorenz_threshold in Ht. cbn [o0 RO] in Ht.
  pose proof (fold_min_spec frac (lorenz_table l) None) as H. unfold lorenz_table in H. cbv zeta in H.
  rewrite Ht in H. destruct H as [H1 [_ H3]].
  split; [|split].
  - destruct H1 as [H1|H1]; [discriminate | exact H1].
  - exact H3.
  - unfold lorenz_mask. unfold lorenz_threshold. cbn [o0 RO]. rewrite Ht. eexists; split; [reflexivity|].
    rewrite (nth_indep _ 0 (level RO dvR w (sltb RO thr 0))) by (rewrite map_length; auto).
    rewrite (map_nth (fun p => level RO dvR w (sltb RO thr p))). rewrite level_RO.
    destruct (Rlt_dec thr (nth i l 0)) as [Hlt|Hnl].
    + apply sltb_RO in Hlt. rewrite Hlt. reflexivity.
    + destruct (sltb RO thr (nth i l 0)) eqn:E; auto. apply sltb_RO in E. contradiction. Qed.

(* no threshold exactly when no listed point has a share below the fraction (numpy raises on the empty selection) *)
Theorem lorenz_no_threshold l frac : lorenz_threshold RO dvR l frac = None ->
  forall pq, In pq (lorenz_table l) -> ~ snd pq < frac.
Proof. intros Ht. unfold lorenz_threshold in Ht. cbn [o0 RO] in Ht.
  pose proof (fold_min_spec frac (lorenz_table l) None) as H. unfold lorenz_table in H. cbv zeta in H.
  rewrite Ht in H. exact (proj2 H). Qed.

(* the table really lists the powers of the group, strongest first *)
Theorem lorenz_table_sorted l :
  Permutation (rev (sort_asc RO l)) l /\ Sorted Rle (sort_asc RO l).
Proof. split. rewrite <- Permutation_rev. apply sort_asc_perm. apply sort_asc_sorted. Qed.

(* the share column of the table is the cumulative sum of the descending powers over their total *)
Fixpoint lsumR (l : list R) : R := match l with [] => 0 | a :: r => a + lsumR r end.
Lemma fold_left_Rplus l a : fold_left Rplus l a = a + lsumR l.
Proof. revert a. induction l as [|b r IH]; intros a; cbn [fold_left lsumR]. lra. rewrite IH. lra. Qed.
Lemma lsum_RO l : lsum RO l = lsumR l.
Proof. unfold lsum. cbn [oadd o0 RO]. rewrite fold_left_Rplus. lra. Qed.
Lemma cumsum_from_length acc l : length (cumsum_from RO acc l) = length l.
Proof. revert acc. induction l as [|a r IH]; intros acc; cbn [cumsum_from length]; auto. Qed.
Lemma cumsum_from_nth acc l i : (i < length l)%nat ->
  nth i (cumsum_from RO acc l) 0 = acc + lsumR (firstn (S i) l).
Proof. revert acc i. induction l as [|a r IH]; intros acc i Hi; [simpl in Hi; lia|].
  cbn [cumsum_from]. cbv zeta. destruct i as [|i].
  - cbn [nth firstn lsumR oadd RO]. lra.
  - cbn [nth]. rewrite IH by (simpl in Hi; lia). cbn [oadd RO]. cbn [firstn lsumR]. lra. Qed.

Theorem lorenz_table_spec l i : (i < length l)%nat ->
  let sorted := rev (sort_asc RO l) in
  nth i (lorenz_table l) (0, 0) = (nth i sorted 0, lsumR (firstn (S i) sorted) / lsumR sorted).
Proof. intros Hi sorted. unfold lorenz_table. fold sorted.
  assert (Hl : length sorted = length l) by (unfold sorted; rewrite rev_length; apply sort_asc_length).
  rewrite combine_nth by (rewrite map_length, cumsum_from_length; reflexivity).
  f_equal.
  rewrite (nth_indep _ 0 (dvR 0 (lsum RO sorted))) by (rewrite map_length, cumsum_from_length; lia).
  rewrite (map_nth (fun c => dvR c (lsum RO sorted))). rewrite cumsum_from_nth by lia. rewrite lsum_RO.
  unfold odiv. cbn [omul oinv RO]. unfold Rdiv. f_equal. lra. Qed.

(* ------------------------------------------------------------ how many points can be high *)
Definition count_if (f : R -> bool) (l : list R) : nat := length (filter f l).
Lemma count_if_perm f l l' : Permutation l l' -> count_if f l = count_if f l'.
Proof. unfold count_if. induction 1; cbn [filter]; auto.
  - destruct (f x); cbn [length]; auto.
  - destruct (f x), (f y); cbn [length]; auto.
  - congruence. Qed.
Lemma count_if_none f l : (forall x, In x l -> f x = false) -> count_if f l = 0%nat.
Proof. unfold count_if. induction l as [|a r IH]; intros H; cbn [filter]; auto.
  rewrite (H a) by (left; auto). apply IH. intros; apply H; right; auto. Qed.
Lemma count_if_le f l : (count_if f l <= length l)%nat.
Proof. unfold count_if. induction l as [|a r IH]; cbn [filter length]; auto. destruct (f a); cbn [length]; lia. Qed.
Lemma count_if_app f a b : count_if f (a ++ b) = (count_if f a + count_if f b)%nat.
Proof. unfold count_if. rewrite filter_app, app_length. reflexivity. Qed.

Lemma nth_firstn_lt (l : list R) i j : (i < j)%nat -> nth i (firstn j l) 0 = nth i l 0.
Proof. revert i j. induction l as [|a r IH]; intros i j H. rewrite firstn_nil. reflexivity.
  destruct j; [lia|]. destruct i; cbn [firstn nth]; auto. apply IH. lia. Qed.
Lemma nth_skipn_add (l : list R) i j : nth i (skipn j l) 0 = nth (j + i) l 0.
Proof. revert l. induction j as [|j IH]; intros l; cbn [skipn Nat.add]; auto.
  destruct l as [|a r]. destruct i; reflexivity. cbn [nth]. apply IH. Qed.
(* in an ascending list, everything strictly above a value that is >= the entry at position j sits after j *)
Lemma count_above_sorted a j c : Sorted Rle a -> (j < length a)%nat -> nth j a 0 <= c ->
  (count_if (fun x => sltb RO c x) a <= length a - S j)%nat.
Proof. intros Hs Hj Hc. rewrite <- (firstn_skipn (S j) a) at 1. rewrite count_if_app.
  rewrite count_if_none.
  - pose proof (count_if_le (fun x => sltb RO c x) (skipn (S j) a)). rewrite skipn_length in H. lia.
  - intros x Hx. apply sltb_RO_false. apply (In_nth _ _ 0) in Hx. destruct Hx as [i [Hi <-]].
    rewrite firstn_length in Hi. rewrite nth_firstn_lt by lia.
    eapply Rle_trans; [|exact Hc]. apply sorted_nth_le; auto; lia. Qed.
(* ... and everything strictly below a value that is <= the entry at position j sits before j *)
Lemma count_below_sorted a j c : Sorted Rle a -> (j < length a)%nat -> c <= nth j a 0 ->
  (count_if (fun x => sltb RO x c) a <= j)%nat.
Proof. intros Hs Hj Hc. rewrite <- (firstn_skipn j a) at 1. rewrite count_if_app.
  rewrite (count_if_none _ (skipn j a)).
  - pose proof (count_if_le (fun x => sltb RO x c) (firstn j a)). rewrite firstn_length in H. lia.
  - intros x Hx. apply sltb_RO_false. apply (In_nth _ _ 0) in Hx. destruct Hx as [i [Hi <-]].
    rewrite skipn_length in Hi. rewrite nth_skipn_add.
    eapply Rle_trans; [exact Hc|]. apply sorted_nth_le; auto; lia. Qed.

(* q >= 0: at most n-1-floor((n-1)(1-q)) points get the high level;  q < 0: at most floor((n-1)|q|)+1 *)
Theorem quantile_high_count l q : l <> [] -> -1 <= q <= 1 ->
  let n := length l in
  (0 <= q -> (count_if (fun x => quantile_hit RO dvR l q x) l
              <= n - 1 - bfloor RO (n - 1) (vidx n ((1 - q) * 100)))%nat) /\
  (q < 0 -> (count_if (fun x => quantile_hit RO dvR l q x) l
              <= Nat.min (S (bfloor RO (n - 1) (vidx n (Rabs q * 100)))) (n - 1))%nat).
Proof. intros Hne Hq n.
  assert (Hsort : Sorted Rle (sort_asc RO l)) by apply sort_asc_sorted.
  assert (Hlen : length (sort_asc RO l) = n) by apply sort_asc_length.
  assert (Hn : (0 < n)%nat) by (unfold n; destruct l; [congruence | simpl; lia]).
  split; intros Hs.
  - assert (Hqp : 0 <= (1 - q) * 100 <= 100) by lra.
    destruct (percentile_bracket l _ Hne Hqp) as [B1 [_ [_ [[B4 _] _]]]]. fold n in B1, B4.
    destruct (quantile_levels l q 0 0 Hn) as [_ [Hpos _]]. destruct (Hpos Hs) as [Ethr _].
    rewrite (count_if_perm _ l (sort_asc RO l)) by (symmetry; apply sort_asc_perm).
    assert (Ef : forall x, quantile_hit RO dvR l q x = sltb RO (quantile_threshold RO dvR l q) x).
    { intros x. unfold quantile_hit. assert (E : oleb RO (o0 RO) q = true) by (cbn [oleb o0 RO]; apply Rleb_true; auto).
      rewrite E. reflexivity. }
    unfold count_if. rewrite (filter_ext _ _ Ef). fold (count_if (fun x => sltb RO (quantile_threshold RO dvR l q) x) (sort_asc RO l)).
    pose proof (count_above_sorted (sort_asc RO l) (bfloor RO (n - 1) (vidx n ((1 - q) * 100))) (quantile_threshold RO dvR l q) Hsort) as H.
    rewrite Hlen in H. rewrite Ethr in *. specialize (H ltac:(lia) B4). eapply Nat.le_trans; [exact H | lia].
  - assert (Hqp : 0 <= Rabs q * 100 <= 100). { rewrite Rabs_left by auto. lra. }
    destruct (percentile_bracket l _ Hne Hqp) as [B1 [_ [_ [[_ B5] _]]]]. fold n in B1, B5.
    destruct (quantile_levels l q 0 0 Hn) as [_ [_ Hneg]]. destruct (Hneg Hs) as [Ethr _].
    rewrite (count_if_perm _ l (sort_asc RO l)) by (symmetry; apply sort_asc_perm).
    assert (Ef : forall x, quantile_hit RO dvR l q x = sltb RO x (quantile_threshold RO dvR l q)).
    { intros x. unfold quantile_hit. assert (E : oleb RO (o0 RO) q = false) by (cbn [oleb o0 RO]; apply Rleb_false; auto).
      rewrite E. reflexivity. }
    unfold count_if. rewrite (filter_ext _ _ Ef). fold (count_if (fun x => sltb RO x (quantile_threshold RO dvR l q)) (sort_asc RO l)).
    apply count_below_sorted; auto. rewrite Hlen. apply Nat.min_lt_iff. right. lia.
    rewrite Ethr. exact B5. Qed.

(* ------------------------------------------------------------ numpy.moveaxis round trip (discrete) *)
Definition natlist_eqb (a b : list nat) : bool := if list_eq_dec Nat.eq_dec a b then true else false.
Lemma natlist_eqb_eq a b : natlist_eqb a b = true -> a = b.
Proof. unfold natlist_eqb. destruct (list_eq_dec Nat.eq_dec a b); [auto | discriminate]. Qed.

(* moving [src] to the last axes (-1, -2, ...) and back is the identity transposition, both ways round *)
Definition roundtrip_ok (nd : nat) (src : list nat) : bool :=
  let tmp := tmp_axes nd (length src) in
  let o1 := moveaxis_order nd src tmp in let o2 := moveaxis_order nd tmp src in
  natlist_eqb (compose_order o1 o2) (seq 0 nd) && natlist_eqb (compose_order o2 o1) (seq 0 nd).
(* the moved axes land where they are sent, the others keep their order *)
Definition places_ok (nd : nat) (src : list nat) : bool :=
  let tmp := tmp_axes nd (length src) in
  let o1 := moveaxis_order nd src tmp in
  natlist_eqb (map (fun d => nth d o1 0%nat) tmp) src &&
  natlist_eqb (firstn (nd - length src) o1) (filter (fun n => negb (mem_nat n src)) (seq 0 nd)).

Definition all_sources_ok (test : nat -> list nat -> bool) (bound : nat) : bool :=
  forallb (fun nd => forallb (fun m => forallb (test nd) (sels m (seq 0 nd))) (seq 0 (S nd))) (seq 0 (S bound)).

Lemma all_sources_ok_6 : all_sources_ok (fun nd s => roundtrip_ok nd s && places_ok nd s) 6 = true.
Proof. vm_compute. reflexivity. Qed.

Theorem moveaxis_roundtrip nd src : (nd <= 6)%nat -> NoDup src -> (forall a, In a src -> (a < nd)%nat) ->
  roundtrip_ok nd src = true /\ places_ok nd src = true.
Proof. intros Hnd Hnodup Hin.
  assert (Hlen : (length src <= nd)%nat).
  { rewrite <- (seq_length nd 0). apply NoDup_incl_length; auto. intros a Ha. apply in_seq. specialize (Hin a Ha). lia. }
  pose proof all_sources_ok_6 as H. unfold all_sources_ok in H.
  assert (H1 := proj1 (forallb_forall _ _) H nd ltac:(apply in_seq; lia)). cbv beta in H1.
  assert (H2 := proj1 (forallb_forall _ _) H1 (length src) ltac:(apply in_seq; lia)). cbv beta in H2.
  assert (H3 := proj1 (forallb_forall _ _) H2 src). cbv beta in H3.
  apply andb_true_iff. apply H3.
  apply (valid_sel_iff (length src) nd). repeat split; auto. Qed.
