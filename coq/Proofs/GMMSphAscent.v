(* Proofs/GMMSphAscent.v -- C02 for the SPHERICAL-covariance GMM: one EM step (Bayes posterior, then the model's M-step
   weight_sal / g_mean / g_cov_sph) never decreases the mixture log-likelihood.  The spherical density is the diagonal
   density of Proofs/GMMAscent.v with the D variances of a class tied, so its E-step, weight and mean updates are the ones
   proved there; what is new is that the POOLED variance (mean of the coordinate variances) maximises the class part of Q. *)
From Coq Require Import Reals Lra Lia.
From PB Require Import Ops CLin Model.Posterior Model.Trainers Proofs.EMAscent Proofs.Posterior Proofs.Trainers Proofs.GMMAscent.
Open Scope R_scope.

(* the scalar inequality behind the pooled variance: D coordinates with weighted scatters G*V_d around the weighted means,
   any means (squared offsets delta2_d >= 0), any common variance vs, against the pooled variance vs' = sum_d V_d / D *)
Lemma sph_sum_ineq (D : nat) (G vs vs' : R) (V delta2 : nat -> R) :
  0 < G -> 0 < vs -> 0 < vs' -> (forall d, (d < D)%nat -> 0 <= delta2 d) -> rsum D V = INR D * vs' ->
  rsum D (fun d => - G / 2 * ln vs - (G * V d + G * delta2 d) / (2 * vs))
  <= rsum D (fun d => - G / 2 * ln vs' - (G * V d) / (2 * vs')).
Proof. intros HG Hvs Hvs' Hd HV.
  assert (EL : rsum D (fun d => - G / 2 * ln vs - (G * V d + G * delta2 d) / (2 * vs))
             = INR D * (- G / 2 * ln vs) - G / (2 * vs) * rsum D V - G / (2 * vs) * rsum D delta2).
  { rewrite <- (rsum_const D (- G / 2 * ln vs)), <- !rsum_scale_l, <- !rsum_sub. apply rsum_ext; intros d _. field. lra. }
  assert (ER : rsum D (fun d => - G / 2 * ln vs' - (G * V d) / (2 * vs'))
             = INR D * (- G / 2 * ln vs') - G / (2 * vs') * rsum D V).
  { rewrite <- (rsum_const D (- G / 2 * ln vs')), <- rsum_scale_l, <- rsum_sub. apply rsum_ext; intros d _. field. lra. }
  rewrite EL, ER, HV.
  assert (Hs : 0 <= rsum D delta2) by (apply rsum_nonneg; exact Hd).
  assert (Hq : 0 <= G / (2 * vs) * rsum D delta2).
  { apply Rmult_le_pos; [|exact Hs]. apply Rlt_le. apply Rdiv_lt_0_compat; lra. }
  assert (Hr : 0 < vs' / vs) by (apply Rdiv_lt_0_compat; assumption).
  pose proof (ln_le_sub1 _ Hr) as L. rewrite (ln_div vs' vs Hvs' Hvs) in L.
  assert (HD : 0 <= INR D) by apply pos_INR.
  assert (E1 : G / (2 * vs) * (INR D * vs') = INR D * G / 2 * (vs' / vs)) by (field; lra).
  assert (E2 : G / (2 * vs') * (INR D * vs') = INR D * G / 2) by (field; lra).
  rewrite E1, E2.
  assert (Hm : INR D * G / 2 * (ln vs' - ln vs) <= INR D * G / 2 * (vs' / vs - 1)).
  { apply Rmult_le_compat_l; [|exact L]. apply Rmult_le_pos; [apply Rmult_le_pos; lra | lra]. }
  lra. Qed.

Section Sph.
Variables (K' D N : nat) (tiny epsw : R) (y : nat -> nat -> R).
Let K := S K'.
Hypothesis Htiny : 0 < tiny.
Hypothesis HN : (0 < N)%nat.
Hypothesis HD : (0 < D)%nat.
Variables (w : nat -> R) (mu : nat -> nat -> R) (vs : nat -> R).         (* current model: one variance per class *)
Let v : nat -> nat -> R := fun k _ => vs k.
Hypothesis Hw : forall k, (k < K)%nat -> 0 < w k.
Hypothesis Hwsum : rsum K w = 1.
Hypothesis Hvs : forall k, (k < K)%nat -> 0 < vs k.

Let a (k n : nat) : R := gam K' D y w mu v n k.
Let c (k : nat) : R := rsum N (a k).
Let w1 := w' K' D N epsw y w mu v.
Let mu1 := mu' K' D N tiny y w mu v.
Definition vs' (k : nat) : R := g_cov_sph RO D N tiny y (a k).
Hypothesis Hmass : forall k, (k < K)%nat -> tiny <= c k.
Hypothesis Hvs' : forall k, (k < K)%nat -> 0 < vs' k.

Let p := joint D y w mu v.
Let p1 := joint D y w1 mu1 (fun k _ => vs' k).

Lemma Hv : forall k d, (k < K)%nat -> (d < D)%nat -> 0 < v k d.
Proof. intros k d Hk _. unfold v. apply Hvs; exact Hk. Qed.

(* class part of Q: the pooled variance is optimal *)
Lemma class_opt k : (k < K)%nat ->
  rsum D (fun d => ll N (a k) (fun n => y n d) (mu k d) (vs k))
  <= rsum D (fun d => ll N (a k) (fun n => y n d) (mu1 k d) (vs' k)).
Proof. intros Hk.
  assert (HG : 0 < rsum N (a k)) by (apply (c_pos K' D N y HN w mu v Hw k Hk)).
  assert (Hden : tiny <= rsum N (a k)) by (apply Hmass; exact Hk).
  set (G := rsum N (a k)) in *.
  set (mh := fun d => rsum N (fun n => a k n * y n d) / G).
  set (V := fun d => rsum N (fun n => a k n * (y n d - mh d) * (y n d - mh d)) / G).
  assert (Em : forall d, mu1 k d = mh d).
  { intros d. unfold mu1, mu'. fold (a k). rewrite (g_mean_spec N tiny y (a k) Hden d). reflexivity. }
  assert (EV : forall d, g_cov_diag RO N tiny y (a k) d = V d).
  { intros d. rewrite (g_cov_diag_spec N tiny y (a k) Hden d). rewrite (g_mean_spec N tiny y (a k) Hden d). unfold V, mh. fold G.
    f_equal. apply rsum_ext; intros n _. ring. }
  assert (HV : rsum D V = INR D * vs' k).
  { unfold vs'. rewrite (g_cov_sph_spec D N tiny y (a k) Htiny Hden HD).
    rewrite (rsum_ext D (fun d => g_cov_diag RO N tiny y (a k) d) V) by (intros; apply EV). assert (0 < INR D) by (apply lt_0_INR; exact HD). field. lra. }
  rewrite (rsum_ext D (fun d => ll N (a k) (fun n => y n d) (mu k d) (vs k))
             (fun d => - G / 2 * ln (vs k) - (G * V d + G * ((mh d - mu k d) * (mh d - mu k d))) / (2 * vs k))).
  2:{ intros d _. rewrite (ll_closed N (a k) (fun n => y n d) HG (mu k d) (vs k) (Hvs k Hk)). fold G. fold (mh d). fold (V d).
      field. pose proof (Hvs k Hk). lra. }
  rewrite (rsum_ext D (fun d => ll N (a k) (fun n => y n d) (mu1 k d) (vs' k))
             (fun d => - G / 2 * ln (vs' k) - (G * V d) / (2 * vs' k))).
  2:{ intros d _. rewrite (ll_closed N (a k) (fun n => y n d) HG (mu1 k d) (vs' k) (Hvs' k Hk)). fold G. fold (mh d). fold (V d).
      rewrite Em. field. pose proof (Hvs' k Hk). lra. }
  apply sph_sum_ineq; auto.
  intros d _. apply Rle_0_sqr. Qed.

Theorem gmm_sph_Q_ascent : Qfun N K (fun _ => 1) p p <= Qfun N K (fun _ => 1) p p1.
Proof. unfold p, p1, K.
  assert (Hw1 : forall k, (k < K)%nat -> 0 < w1 k) by (intros k Hk; apply (w'_pos K' D N epsw y HN w mu v Hw k Hk)).
  rewrite (Q_split K' D N y w mu v w mu v Hw Hv).
  rewrite (Q_split K' D N y w mu v w1 mu1 (fun k _ => vs' k) Hw1 (fun k d Hk _ => Hvs' k Hk)).
  assert (H1 : rsum K (fun k => c k * ln (w k)) <= rsum K (fun k => c k * ln (w1 k))).
  { rewrite (rsum_ext K (fun k => c k * ln (w1 k)) (fun k => c k * ln (c k / rsum K c))).
    2:{ intros k Hk. unfold w1. rewrite (w'_is_normalised_mass K' D N epsw y HN w mu v Hw k Hk). reflexivity. }
    apply weight_update_maximises; auto. intros k Hk. apply (c_pos K' D N y HN w mu v Hw k Hk). unfold K; lia. }
  assert (H2 : rsum K (fun k => rsum D (fun d => ll N (a k) (fun n => y n d) (mu k d) (v k d)))
            <= rsum K (fun k => rsum D (fun d => ll N (a k) (fun n => y n d) (mu1 k d) (vs' k)))).
  { apply rsum_le; intros k Hk. apply class_opt; exact Hk. }
  unfold c, a, v, K in *. lra. Qed.

(* one EM step of the spherical GMM never decreases the observed-data log-likelihood *)
Theorem gmm_sph_em_step_ascent : loglik N K (fun _ => 1) p <= loglik N K (fun _ => 1) p1.
Proof. apply em_ascent; try (unfold K; lia).
  - intros; lra.
  - intros n k _ Hk. apply (p_pos K' D y w mu v Hw n k Hk).
  - intros n k _ Hk. unfold p1, joint. apply Rmult_lt_0_compat; [|apply exp_pos].
    apply (w'_pos K' D N epsw y HN w mu v Hw k Hk).
  - apply gmm_sph_Q_ascent. Qed.
End Sph.
