(* C13 -- beamforming helpers agree with their primitives and act per leading index.
   Model: Model/Beamformer.v (get_bf_vector on Coq strings over abstract primitives, compose, parse_bf,
   bf_name_table, apply_bf, phasor, phase_corr, phase_corr_stack); proofs: Proofs/BeamformerNames.v (discrete,
   by computation) and Proofs/BeamformerHelpers.v (instance RO).
   Every model function is defined for ONE leading index; a stack is the function applied slice by slice
   (phase_corr_stack), which is what "stack = stack of slices" says; that the implementation really acts
   this way is the correspondence check's business.  Souden/WMWF under singular PSDs: what stable_solve returns
   is LAPACK behaviour (explored on every run); what the code builds on top of ANY solve result is bounded here
   (Proofs/Singular.v): |w| <= |phi| / eps resp. |phi| / mu, zero columns give zero filters, a bin sees only its
   own solve result. *)
From Coq Require Import Reals Lra List String.
From Coquelicot Require Import Coquelicot.
From PB Require Import Ops CLin Model.Beamformer Proofs.Beamformer Proofs.BeamformerNames Proofs.BeamformerHelpers Proofs.Singular.

(* every name of the table (12 cores + ch0..ch29, each with and without "+ban") dispatches to the
   composition of primitives it spells -- for arbitrary primitives, i.e. whatever the keyword arguments do *)
Theorem C13_bf_name_table (Mat Vec : Type)
    (f_pca : Mat -> Vec) (f_gev_atf : Mat -> Mat -> Vec) (f_mvdr : Vec -> Mat -> Vec)
    (f_rank1_pca : Mat -> Mat) (f_rank1_gev : Mat -> Mat -> Mat)
    (f_souden f_gev f_wmwf : Mat -> Mat -> Vec) (f_unit : nat -> Mat -> Vec) (f_ban : Vec -> Mat -> Vec)
    (Px Pn : Mat) :
  forall e, In e bf_name_table ->
  get_bf_vector Mat Vec f_pca f_gev_atf f_mvdr f_rank1_pca f_rank1_gev f_souden f_gev f_wmwf f_unit f_ban (fst e) Px Pn
  = Some (compose Mat Vec f_pca f_gev_atf f_mvdr f_rank1_pca f_rank1_gev f_souden f_gev f_wmwf f_unit f_ban (snd e) Px Pn).
Proof. exact (bf_name_table_dispatch Mat Vec f_pca f_gev_atf f_mvdr f_rank1_pca f_rank1_gev f_souden f_gev f_wmwf f_unit f_ban Px Pn). Qed.
Print Assumptions C13_bf_name_table.

Theorem C13_bf_name_table_parse : forall e, In e bf_name_table -> parse_bf (fst e) = Some (snd e).
Proof. exact bf_name_table_parse. Qed.
Print Assumptions C13_bf_name_table_parse.

(* the unbounded family "ch<decimal n>" for every channel number n, with and without "+ban" *)
Theorem C13_bf_ch_family (Mat Vec : Type)
    (f_pca : Mat -> Vec) (f_gev_atf : Mat -> Mat -> Vec) (f_mvdr : Vec -> Mat -> Vec)
    (f_rank1_pca : Mat -> Mat) (f_rank1_gev : Mat -> Mat -> Mat)
    (f_souden f_gev f_wmwf : Mat -> Mat -> Vec) (f_unit : nat -> Mat -> Vec) (f_ban : Vec -> Mat -> Vec)
    (n : nat) (Px Pn : Mat) :
  get_bf_vector Mat Vec f_pca f_gev_atf f_mvdr f_rank1_pca f_rank1_gev f_souden f_gev f_wmwf f_unit f_ban
                ("ch" ++ str_of_nat n)%string Px Pn = Some (f_unit n Px) /\
  get_bf_vector Mat Vec f_pca f_gev_atf f_mvdr f_rank1_pca f_rank1_gev f_souden f_gev f_wmwf f_unit f_ban
                ("ch" ++ str_of_nat n ++ "+ban")%string Px Pn = Some (f_ban (f_unit n Px) Pn).
Proof. exact (conj (bf_ch_family Mat Vec f_pca f_gev_atf f_mvdr f_rank1_pca f_rank1_gev f_souden f_gev f_wmwf f_unit f_ban n Px Pn)
                   (bf_ch_family_ban Mat Vec f_pca f_gev_atf f_mvdr f_rank1_pca f_rank1_gev f_souden f_gev f_wmwf f_unit f_ban n Px Pn)). Qed.
Print Assumptions C13_bf_ch_family.

Open Scope C_scope.
(* apply_beamforming_vector(w, x)[t] = w^H x[:, t] *)
Theorem C13_apply_bf_is_inner (D : nat) (w : vec) (x : nat -> nat -> C) (t : nat) :
  apply_bf RO D w x t = dot D w (fun a => x a t).
Proof. exact (apply_bf_is_inner D w x t). Qed.
Print Assumptions C13_apply_bf_is_inner.

(* phase_correction does not change magnitudes ... *)
Theorem C13_phase_corr_magnitudes (D : nat) (w : nat -> nat -> vec) (l f d : nat) :
  Cmod (phase_corr_stack RO D w l f d) = Cmod (w l f d).
Proof. exact (phase_corr_magnitudes D (w l) f d). Qed.
Print Assumptions C13_phase_corr_magnitudes.

(* ... and for every leading index l and every bin: out_{f+1}^H out_f = |w_{f+1}^H w_f|, real and >= 0 *)
Theorem C13_phase_corr_aligned (D : nat) (w : nat -> nat -> vec) (l f : nat) :
  dot D (phase_corr_stack RO D w l (S f)) (phase_corr_stack RO D w l f) = RtoC (Cmod (dot D (w l (S f)) (w l f))).
Proof. exact (phase_corr_stack_aligned D w l f). Qed.
Print Assumptions C13_phase_corr_aligned.

Theorem C13_phase_corr_aligned_real (D : nat) (w : nat -> nat -> vec) (l f : nat) :
  snd (dot D (phase_corr_stack RO D w l (S f)) (phase_corr_stack RO D w l f)) = 0%R /\
  (0 <= fst (dot D (phase_corr_stack RO D w l (S f)) (phase_corr_stack RO D w l f)))%R.
Proof. exact (phase_corr_aligned_real D (w l) f). Qed.
Print Assumptions C13_phase_corr_aligned_real.

(* stack = stack of slices (structural in the model: the stacked function is the per-slice function) *)
Theorem C13_phase_corr_stack_slices (D : nat) (w : nat -> nat -> vec) (l f d : nat) :
  phase_corr_stack RO D w l f d = phase_corr RO D (w l) f d.
Proof. exact (phase_corr_stack_slices D w l f d). Qed.
Print Assumptions C13_phase_corr_stack_slices.

(* Souden MVDR on singular / zero PSD matrices: for EVERY solve result phi the returned vector is bounded by the solve
   result over the clamp (|trace| is clamped below by eps = tiny > 0) ... *)
Theorem C13_souden_bounded_by_solve (D : nat) (phi : mat) (eps : R) (r i : nat) : (0 < eps)%R ->
  (Cmod (souden RO D phi eps r i) <= Cmod (phi i r) / eps)%R.
Proof. exact (souden_bound D phi eps r i). Qed.
Print Assumptions C13_souden_bounded_by_solve.

(* ... the clamp only ever shrinks the filter ... *)
Theorem C13_souden_clamp_shrinks (D : nat) (phi : mat) (eps : R) (r i : nat) : (0 < eps)%R -> (0 < Cmod (tr D phi))%R ->
  (Cmod (souden RO D phi eps r i) <= Cmod (phi i r) / Cmod (tr D phi))%R.
Proof. exact (souden_clamp_shrinks D phi eps r i). Qed.
Print Assumptions C13_souden_clamp_shrinks.

(* ... and a zero column of the solve result (zero target PSD; the zero returned for an all-zero system) is a zero filter *)
Theorem C13_souden_zero_column (D : nat) (phi : mat) (eps : R) (r i : nat) :
  phi i r = RtoC 0 -> souden RO D phi eps r i = RtoC 0.
Proof. exact (souden_zero D phi eps r i). Qed.
Print Assumptions C13_souden_zero_column.

Theorem C13_wmwf_zero_column (D : nat) (phi : mat) (mu : R) (r i : nat) :
  phi i r = RtoC 0 -> wmwf RO D phi mu r i = RtoC 0.
Proof. exact (wmwf_zero D phi mu r i). Qed.
Print Assumptions C13_wmwf_zero_column.

(* WMWF with a positive distortion weight: bounded by the solve result over mu whenever the trace of the solve result has a
   non-negative real part (Phi_nn^-1 Phi_xx of positive semidefinite matrices) *)
Theorem C13_wmwf_bounded_by_solve (D : nat) (phi : mat) (mu : R) (r i : nat) : (0 < mu)%R -> (0 <= fst (tr D phi))%R ->
  (Cmod (wmwf RO D phi mu r i) <= Cmod (phi i r) / mu)%R.
Proof. exact (wmwf_bound D phi mu r i). Qed.
Print Assumptions C13_wmwf_bounded_by_solve.

(* bins with regular matrices are unaffected by singular neighbours: with an explicit reference channel the filter of bin
   f is a function of the solve result of bin f alone *)
Theorem C13_souden_bin_local (D : nat) (phi phi' : nat -> mat) (eps : R) (r f i : nat) :
  (forall p q, phi f p q = phi' f p q) -> souden_stack D phi eps r f i = souden_stack D phi' eps r f i.
Proof. exact (souden_stack_local D phi phi' eps r f i). Qed.
Print Assumptions C13_souden_bin_local.

Theorem C13_wmwf_bin_local (D : nat) (phi phi' : nat -> mat) (mu : R) (r f i : nat) :
  (forall p q, phi f p q = phi' f p q) -> wmwf_stack D phi mu r f i = wmwf_stack D phi' mu r f i.
Proof. exact (wmwf_stack_local D phi phi' mu r f i). Qed.
Print Assumptions C13_wmwf_bin_local.

(* the automatic reference channel is a channel, and one with the largest broadband SNR (first on ties) *)
Theorem C13_ref_channel_argmax (D Fn : nat) (Wm Px Pn : nat -> nat -> nat -> C) (eps : R) (r : nat) :
  (r < D)%nat ->
  (ref_channel RO D Fn Wm Px Pn eps < D)%nat /\
  (ref_snr RO D Fn Wm Px Pn eps r <= ref_snr RO D Fn Wm Px Pn eps (ref_channel RO D Fn Wm Px Pn eps))%R.
Proof. exact (ref_channel_argmax D Fn Wm Px Pn eps r). Qed.
Print Assumptions C13_ref_channel_argmax.

(* non-vacuity: the table is not empty and contains the documented example name *)
Example C13_hypotheses_satisfiable :
  In ("rank1_gev+mvdr_souden+ban"%string, {| sp_pre := PreRank1Gev; sp_core := CoreSouden; sp_ban := true |}) bf_name_table
  /\ List.length bf_name_table = 84%nat.
Proof. split; [vm_compute; tauto | reflexivity]. Qed.
