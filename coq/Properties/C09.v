(* C09 -- fitted parameters stay inside their documented domain, for degenerate data too.
   Model: Model/Posterior.v (weight updates), Model/Trainers.v (cACG eigenvalue post-processing, vMF, Gaussian),
   Model/Domain.v (Bingham post-processing, U diag(lambda) U^H, Watson fill, integration-model weights, shapes),
   instance RO; proofs: Proofs/Domain.v.  tiny = np.finfo(dtype).tiny, floor = eigenvalue_floor,
   eps0 = affiliation_eps, c = 1e-8 (upper bound of the least_squares increments), eps = eignevalue_eps.
   Oracle contracts are hypotheses: eigh (U U^H = I, unit columns), the Watson spline (knot range -> [0, max]),
   least_squares (result inside its bounds).  Two clauses are FALSE of the faithful model and carry _refuted. *)
From Coq Require Import Reals Lra List Arith.
From Coquelicot Require Import Coquelicot.
From PB Require Import Ops CLin Model.Posterior Model.Trainers Model.EM Model.Domain Proofs.Domain.
Open Scope R_scope.

(* ---------------------------------------------------------------- mixture weights *)
(* saliency None: mean over the tied cells; columns of the affiliation sum to one within K*eps0 (C01_posterior_clip) *)
Theorem C09_weights_domain (K' G : nat) (a : nat -> nat -> R) (eps0 : R) :
  (0 < G)%nat -> (forall k g, (k < S K')%nat -> (g < G)%nat -> 0 <= a k g) ->
  (forall g, (g < G)%nat -> Rabs (rsum (S K') (fun k => a k g) - 1) <= INR (S K') * eps0) ->
  (forall k, (k < S K')%nat -> 0 <= weight_mean RO G a k) /\
  Rabs (rsum (S K') (weight_mean RO G a) - 1) <= INR (S K') * eps0.
Proof. exact (fun HG Ha => weights_domain_mean K' G a HG Ha eps0). Qed.
Print Assumptions C09_weights_domain.

(* saliency given: L1 normalisation, exact whenever the tied group carries mass *)
Theorem C09_weights_domain_saliency (K' G : nat) (a : nat -> nat -> R) (s : nat -> R) (eps : R) :
  (forall k g, (k < S K')%nat -> (g < G)%nat -> 0 <= a k g) -> (forall g, (g < G)%nat -> 0 <= s g) ->
  0 < rsum (S K') (wsum RO G a s) ->
  (forall k, (k < S K')%nat -> 0 <= weight_sal RO K' G a s eps k) /\ rsum (S K') (weight_sal RO K' G a s eps) = 1.
Proof. exact (fun Ha Hs => weights_domain_sal K' G a Ha s eps Hs). Qed.
Print Assumptions C09_weights_domain_saliency.

(* ... the totalised branch, stated as it is: a tied group without any mass gets all-zero weights (never NaN) *)
Theorem C09_weights_domain_saliency_degenerate (K' G : nat) (a : nat -> nat -> R) (s : nat -> R) (eps : R) :
  (forall k g, (k < S K')%nat -> (g < G)%nat -> 0 <= a k g) -> (forall g, (g < G)%nat -> 0 <= s g) ->
  rsum (S K') (wsum RO G a s) = 0 -> forall k, (k < S K')%nat -> weight_sal RO K' G a s eps k = 0.
Proof. exact (fun Ha Hs => weights_domain_sal_degenerate K' G a Ha s eps Hs). Qed.
Print Assumptions C09_weights_domain_saliency_degenerate.

(* integration models (GCACGMM, VMFCACGMM): sum / sum *)
Theorem C09_weights_domain_integration (K' G : nat) (a : nat -> nat -> R) (s : nat -> R) :
  (forall k g, (k < S K')%nat -> (g < G)%nat -> 0 <= a k g) -> (forall g, (g < G)%nat -> 0 <= s g) ->
  0 < rsum (S K') (wsum RO G a s) ->
  (forall k, (k < S K')%nat -> 0 <= weight_int RO K' G a s k) /\ rsum (S K') (weight_int RO K' G a s) = 1.
Proof. exact (fun Ha Hs => weights_domain_int K' G a Ha s Hs). Qed.
Print Assumptions C09_weights_domain_integration.

(* class axis tied: 1/K each *)
Theorem C09_weights_domain_uniform (K : nat) :
  (0 < K)%nat -> 0 < weight_uniform RO K /\ rsum K (fun _ => weight_uniform RO K) = 1.
Proof. exact (weights_domain_uniform K). Qed.
Print Assumptions C09_weights_domain_uniform.

(* constant along the tied axes: structural -- the update yields one number per class and tied group (index k only);
   the value used at any two cells g, g' of the group is the same number *)
Theorem C09_weights_tied_constant (G : nat) (a : nat -> nat -> R) (k g g' : nat) :
  (fun (k g : nat) => weight_mean RO G a k) k g = (fun (k g : nat) => weight_mean RO G a k) k g'.
Proof. exact (weights_tied_constant G a k g g'). Qed.
Print Assumptions C09_weights_tied_constant.

(* documented shape: same rank as the affiliation, extent 1 on every tied axis, unchanged elsewhere *)
Theorem C09_weight_shape_documented (sh axes : list nat) (i : nat) :
  (i < length sh)%nat ->
  length (weight_shape_keepdims sh axes false) = length sh /\
  nth i (weight_shape_keepdims sh axes false) 0%nat = if mem_nat i axes then 1%nat else nth i sh 0%nat.
Proof. exact (weight_shape_documented sh axes i). Qed.
Print Assumptions C09_weight_shape_documented.

(* ---------------------------------------------------------------- cACG eigenvalues *)
(* any real spectrum, degenerate or not: inside [floor, 1] *)
Theorem C09_cacg_eig_range (D' : nat) (ev : nat -> R) (tiny floor : R) :
  0 < tiny -> floor <= 1 -> forall i, (i <= D')%nat -> floor <= eig_post_eigenvalue RO tiny D' floor ev i <= 1.
Proof. exact (cacg_eig_range D' ev tiny floor). Qed.
Print Assumptions C09_cacg_eig_range.

(* largest raw eigenvalue >= tiny: maximum exactly 1 *)
Theorem C09_cacg_eig_domain (D' : nat) (ev : nat -> R) (tiny floor : R) :
  0 < tiny -> tiny <= bmax RO D' ev -> floor <= 1 ->
  (forall i, (i <= D')%nat -> floor <= eig_post_eigenvalue RO tiny D' floor ev i <= 1) /\
  exists i, (i <= D')%nat /\ eig_post_eigenvalue RO tiny D' floor ev i = 1.
Proof. exact (cacg_eig_domain D' ev tiny floor). Qed.
Print Assumptions C09_cacg_eig_domain.

(* largest raw eigenvalue < tiny (all-zero scatter of a class): what comes out, explicitly *)
Theorem C09_cacg_eig_degenerate (D' : nat) (ev : nat -> R) (tiny floor : R) :
  0 < tiny -> bmax RO D' ev < tiny -> floor < 1 ->
  (forall i, (i <= D')%nat -> eig_post_eigenvalue RO tiny D' floor ev i = Rmax (ev i / tiny) floor /\
                            eig_post_eigenvalue RO tiny D' floor ev i < 1) /\
  (bmax RO D' ev <= 0 -> 0 <= floor -> forall i, (i <= D')%nat -> eig_post_eigenvalue RO tiny D' floor ev i = floor).
Proof. exact (cacg_eig_degenerate D' ev tiny floor). Qed.
Print Assumptions C09_cacg_eig_degenerate.

(* hence "maximum 1" does not hold for every valid (positive semidefinite) spectrum: the zero scatter *)
Theorem C09_cacg_eig_max_one_refuted :
  exists (D' : nat) (ev : nat -> R) (tiny floor : R), 0 < tiny /\ 0 < floor <= 1 /\ (forall i, 0 <= ev i) /\
    ~ (exists i, (i <= D')%nat /\ eig_post_eigenvalue RO tiny D' floor ev i = 1).
Proof. exact cacg_eig_max_one_refuted. Qed.
Print Assumptions C09_cacg_eig_max_one_refuted.

(* covariance_norm 'trace' / False: eigenvalues >= max(max ev * floor, tiny) > 0, untouched above that level *)
Theorem C09_cacg_eig_other_domain (D' : nat) (ev : nat -> R) (tiny floor : R) :
  0 < tiny -> forall i, (i <= D')%nat ->
  Rmax (bmax RO D' ev * floor) tiny <= eig_post_other RO tiny D' floor ev i /\
  0 < eig_post_other RO tiny D' floor ev i /\ ev i <= eig_post_other RO tiny D' floor ev i /\
  (Rmax (bmax RO D' ev * floor) tiny <= ev i -> eig_post_other RO tiny D' floor ev i = ev i).
Proof. exact (cacg_eig_other_domain D' ev tiny floor). Qed.
Print Assumptions C09_cacg_eig_other_domain.

(* 'trace': the matrix handed to eigh has unit trace (trace >= tiny), eigh's eigenvalue sum is the trace
   (C09_cacg_cov_trace), and flooring adds at most D * max(max ev * floor, tiny): unit trace up to flooring *)
Theorem C09_cacg_trace_normalise_unit (D : nat) (tiny : R) (A : nat -> nat -> C) :
  0 < tiny -> tiny <= trace_re RO D A -> trace_re RO D (trace_normalise RO D tiny A) = 1.
Proof. exact (cacg_trace_normalise_unit D tiny A). Qed.
Print Assumptions C09_cacg_trace_normalise_unit.

Theorem C09_cacg_eig_other_sum (D' : nat) (ev : nat -> R) (tiny floor : R) :
  0 < tiny -> (forall i, (i <= D')%nat -> 0 <= ev i) ->
  rsum (S D') ev <= rsum (S D') (eig_post_other RO tiny D' floor ev)
                 <= rsum (S D') ev + INR (S D') * Rmax (bmax RO D' ev * floor) tiny.
Proof. exact (cacg_eig_other_sum D' ev tiny floor). Qed.
Print Assumptions C09_cacg_eig_other_sum.

Theorem C09_cacg_cov_trace (D : nat) (U : nat -> nat -> C) (lam : nat -> R) :
  (forall t, (t < D)%nat -> rsum D (fun d => Cmod (U d t) * Cmod (U d t)) = 1) ->
  csum D (fun d => cov_of_eig RO D U lam d d) = RtoC (rsum D lam).
Proof. exact (cacg_cov_trace D U lam). Qed.
Print Assumptions C09_cacg_cov_trace.

(* unitary U (eigh contract U U^H = I) and lambda >= floor > 0: Hermitian positive definite, v^H C v >= floor |v|^2 *)
Theorem C09_cacg_cov_hpd (D : nat) (U : nat -> nat -> C) (lam : nat -> R) (floor : R) (v : vec) :
  rows_orthonormal D U -> 0 < floor -> (forall t, (t < D)%nat -> floor <= lam t) ->
  hermitian (cov_of_eig RO D U lam) /\
  snd (form D (cov_of_eig RO D U lam) v v) = 0 /\
  floor * norm2 D v <= fst (form D (cov_of_eig RO D U lam) v v).
Proof. exact (cacg_cov_hpd D U lam floor v). Qed.
Print Assumptions C09_cacg_cov_hpd.

(* ---------------------------------------------------------------- von Mises-Fisher *)
(* unit mean iff the resultant reaches tiny (otherwise norm |r|/tiny < 1, zero for a zero resultant); the
   concentration is inside [min, max] whatever Banerjee's ratio evaluates to (r_bar = 1 and r_bar > 1 included);
   inverted bounds give max *)
Theorem C09_vmf_domain (D N : nat) (tiny : R) (y : nat -> nat -> R) (s : nat -> R) (kmin kmax : R) :
  0 < tiny ->
  (tiny <= rnorm RO D (vmf_r RO N y s) -> rnorm RO D (vmf_mean RO D N tiny y s) = 1) /\
  (rnorm RO D (vmf_r RO N y s) < tiny ->
     rnorm RO D (vmf_mean RO D N tiny y s) = rnorm RO D (vmf_r RO N y s) / tiny /\
     rnorm RO D (vmf_mean RO D N tiny y s) < 1) /\
  (kmin <= kmax -> kmin <= vmf_kappa RO D N kmin kmax y s <= kmax) /\
  (kmax < kmin -> vmf_kappa RO D N kmin kmax y s = kmax).
Proof. exact (fun Ht => vmf_domain D N tiny y s Ht kmin kmax). Qed.
Print Assumptions C09_vmf_domain.

Theorem C09_vmf_mean_zero_resultant (D N : nat) (tiny : R) (y : nat -> nat -> R) (s : nat -> R) (d : nat) :
  (forall e, vmf_r RO N y s e = 0) -> vmf_mean RO D N tiny y s d = 0.
Proof. exact (vmf_mean_zero_resultant D N tiny y s d). Qed.
Print Assumptions C09_vmf_mean_zero_resultant.

(* ---------------------------------------------------------------- complex Watson *)
Theorem C09_watson_domain (D' : nat) (U : nat -> nat -> C) (ev : nat -> R) (lo hi maxc : R) (inner : R -> R) :
  rsum (S D') (fun d => Cmod (U d D') * Cmod (U d D')) = 1 -> 0 <= maxc ->
  (forall x, lo <= x <= hi -> 0 <= inner x <= maxc) ->
  rsum (S D') (fun d => Cmod (watson_mode D' U d) * Cmod (watson_mode D' U d)) = 1 /\
  0 <= watson_conc RO D' lo hi maxc inner ev <= maxc.
Proof. exact (watson_domain D' U ev lo hi maxc inner). Qed.
Print Assumptions C09_watson_domain.

(* ---------------------------------------------------------------- Gaussian *)
Theorem C09_gaussian_cov_sym (N : nat) (tiny : R) (y : nat -> nat -> R) (s : nat -> R) (d e : nat) :
  g_cov_full RO N tiny y s d e = g_cov_full RO N tiny y s e d.
Proof. exact (gaussian_cov_sym N tiny y s d e). Qed.
Print Assumptions C09_gaussian_cov_sym.

(* v^T C v = sum_n s_n (v.(y_n - m))^2 / max(sum s, tiny) >= 0 -- with the floored denominator too *)
Theorem C09_gaussian_cov_psd (D N : nat) (tiny : R) (y : nat -> nat -> R) (s v : nat -> R) :
  0 < tiny -> (forall n, (n < N)%nat -> 0 <= s n) ->
  rsum D (fun d => rsum D (fun e => v d * g_cov_full RO N tiny y s d e * v e))
  = rsum N (fun n => s n * (rsum D (fun d => v d * (y n d - g_mean RO N tiny y s d)) *
                            rsum D (fun d => v d * (y n d - g_mean RO N tiny y s d)))) * / g_den RO N tiny s
  /\ 0 <= rsum D (fun d => rsum D (fun e => v d * g_cov_full RO N tiny y s d e * v e)).
Proof. exact (fun Ht Hs => conj (gaussian_cov_form D N tiny y s v) (gaussian_cov_psd D N tiny y s Ht Hs v)). Qed.
Print Assumptions C09_gaussian_cov_psd.

(* positive definiteness is exactly a spanning condition on the data: positive in every direction v that a frame
   with positive weight leaves its mean along (fails for N <= D, duplicated, collinear frames: there the
   implementation's Cholesky raises, an explicit exception) *)
Theorem C09_gaussian_cov_pd_partial (D N : nat) (tiny : R) (y : nat -> nat -> R) (s v : nat -> R) :
  0 < tiny -> (forall n, (n < N)%nat -> 0 <= s n) ->
  (exists n, (n < N)%nat /\ 0 < s n /\ rsum D (fun d => v d * (y n d - g_mean RO N tiny y s d)) <> 0) ->
  0 < rsum D (fun d => rsum D (fun e => v d * g_cov_full RO N tiny y s d e * v e)).
Proof. exact (fun Ht Hs => gaussian_cov_pos D N tiny y s Ht Hs v). Qed.
Print Assumptions C09_gaussian_cov_pd_partial.

Theorem C09_gaussian_cov_diag_spherical_nonneg (D N : nat) (tiny : R) (y : nat -> nat -> R) (s : nat -> R) :
  0 < tiny -> (forall n, (n < N)%nat -> 0 <= s n) ->
  (forall d, 0 <= g_cov_diag RO N tiny y s d) /\ 0 <= g_cov_sph RO D N tiny y s.
Proof. exact (fun Ht Hs => conj (gaussian_cov_diag_nonneg N tiny y s Ht Hs) (gaussian_cov_sph_nonneg D N tiny y s Ht Hs)). Qed.
Print Assumptions C09_gaussian_cov_diag_spherical_nonneg.

(* ---------------------------------------------------------------- complex Bingham *)
(* max_concentration = inf: maximum exactly 0, all others negative, strictly ordered (gaps >= c) *)
Theorem C09_bingham_domain (D' : nat) (x : nat -> R) (c maxc : R) :
  0 < c -> (forall j, (j < D')%nat -> - maxc <= x j <= - c) ->
  bing_est RO D' x D' = 0 /\
  (forall i, (i < D')%nat -> bing_est RO D' x i <= - c * INR (D' - i) /\ bing_est RO D' x i < 0) /\
  (forall i, (i < D')%nat -> bing_est RO D' x i + c <= bing_est RO D' x (S i)) /\
  (forall i, (i <= D')%nat -> - maxc * INR D' <= bing_est RO D' x i <= 0).
Proof. exact (bingham_domain D' x c maxc). Qed.
Print Assumptions C09_bingham_domain.

(* finite max_concentration, as the code is: inside [-max, (D-1)*eps], top eigenvalue in [0, (D-1)*eps] *)
Theorem C09_bingham_domain_finite (D' : nat) (x : nat -> R) (c maxc eps : R) :
  0 < c -> 0 < maxc -> 0 <= eps -> (forall j, (j < D')%nat -> - maxc <= x j <= - c) ->
  (forall i, (i <= D')%nat -> - maxc <= bing_post RO true D' maxc eps x i <= INR D' * eps) /\
  0 <= bing_post RO true D' maxc eps x D' <= INR D' * eps /\
  (forall i, bing_post RO true D' maxc eps x i + eps <= bing_post RO true D' maxc eps x (S i)).
Proof. exact (bingham_domain_finite D' x c maxc eps). Qed.
Print Assumptions C09_bingham_domain_finite.

(* "<= 0 with maximum 0" is false of the faithful model with a finite max_concentration *)
Theorem C09_bingham_max_zero_refuted :
  exists (D' : nat) (x : nat -> R) (c maxc eps : R),
    0 < c /\ 0 < maxc /\ 0 < eps /\ (forall j, (j < D')%nat -> - maxc <= x j <= - c) /\
    0 < bing_post RO true D' maxc eps x D'.
Proof. exact bingham_max_zero_refuted. Qed.
Print Assumptions C09_bingham_max_zero_refuted.

(* the stored order is a rearrangement of the ascending one: ranges and attained values carry over *)
Theorem C09_domain_any_order (D' : nat) (f : nat -> R) (sigma : nat -> nat) (Pr : R -> Prop) (top : R) :
  (forall j, (j <= D')%nat -> (sigma j <= D')%nat) -> (forall i, (i <= D')%nat -> exists j, (j <= D')%nat /\ sigma j = i) ->
  (forall i, (i <= D')%nat -> Pr (f i)) -> (exists i, (i <= D')%nat /\ f i = top) ->
  (forall j, (j <= D')%nat -> Pr (f (sigma j))) /\ (exists j, (j <= D')%nat /\ f (sigma j) = top).
Proof. exact (domain_any_order D' f sigma Pr top). Qed.
Print Assumptions C09_domain_any_order.

(* ---------------------------------------------------------------- every iteration count *)
Theorem C09_domain_along_fit (Theta Gamma : Type) (E : Theta -> Gamma) (M : Gamma -> Theta) (Inv : Theta -> Prop) :
  (forall g, Inv (M g)) -> forall n g0, Inv (fit E M n g0).
Proof. exact (domain_along_fit Theta Gamma E M Inv). Qed.
Print Assumptions C09_domain_along_fit.

Theorem C09_domain_along_fit_valid (Theta Gamma : Type) (E : Theta -> Gamma) (M : Gamma -> Theta)
    (Valid : Gamma -> Prop) (Inv : Theta -> Prop) :
  (forall g, Valid g -> Inv (M g)) -> (forall t, Valid (E t)) -> forall n g0, Valid g0 -> Inv (fit E M n g0).
Proof. exact (fit_invariant_valid Theta Gamma E M Valid Inv). Qed.
Print Assumptions C09_domain_along_fit_valid.

(* the cACGMM loop (covariance_norm='eigenvalue', one leading index): after ANY number of iterations, from ANY valid
   initial affiliation, with ANY E-step returning valid affiliations and ANY eigh meeting U U^H = I: weights are a
   distribution within K*eps0, eigenvalues inside [floor,1], covariance Hermitian with v^H C v >= floor |v|^2 *)
Theorem C09_cacgmm_fit_domain (K' D' N : nat) (tiny floor eps0 : R) (herm : bool) (z : nat -> nat -> C)
    (eigh : (nat -> nat -> C) -> (nat -> R) * (nat -> nat -> C)) (Estep : theta -> gam) :
  (forall A, rows_orthonormal (S D') (snd (eigh A))) -> 0 < tiny -> 0 < floor <= 1 -> (0 < N)%nat ->
  (forall t, valid K' N eps0 (Estep t)) ->
  forall n g0, valid K' N eps0 g0 ->
  in_domain K' D' floor eps0 (fit Estep (Mstep D' N tiny floor herm z eigh) n g0).
Proof. exact (fun He Ht Hf HN => cacgmm_fit_domain K' D' N tiny floor eps0 herm z eigh He Ht Hf HN Estep). Qed.
Print Assumptions C09_cacgmm_fit_domain.

(* the vMF mixture loop: concentrations inside [min, max] after any number of iterations, for any E-step at all *)
Theorem C09_vmfmm_fit_kappa_domain (D N : nat) (kmin kmax : R) (y : nat -> nat -> R)
    (Estep : (nat -> R) -> nat -> nat -> R) :
  kmin <= kmax -> forall n g0 k, kmin <= fit Estep (vmf_Mstep D N kmin kmax y) n g0 k <= kmax.
Proof. exact (vmfmm_fit_kappa_domain D N kmin kmax y Estep). Qed.
Print Assumptions C09_vmfmm_fit_kappa_domain.

(* non-vacuity: a spectrum, bounds and an identity eigenbasis meeting the hypotheses used above *)
Example C09_hypotheses_satisfiable :
  (/ 1000 <= bmax RO 1 (fun i => match i with 0%nat => / 2 | _ => 2 end)) /\
  rows_orthonormal 2 (fun d t => if Nat.eqb d t then RtoC 1 else RtoC 0) /\
  (forall j, (j < 2)%nat -> - 5 <= (fun _ : nat => - 1) j <= - / 100).
Proof. split; [|split].
  - cbn [bmax]. unfold omax. cbn [oleb RO]. destruct (Rleb (/ 2) 2); lra.
  - intros d e Hd He. destruct d as [|[|d]]; [| |exfalso; apply (Nat.lt_irrefl 2); eapply Nat.le_lt_trans; [|exact Hd]; auto with arith];
      (destruct e as [|[|e]]; [| |exfalso; apply (Nat.lt_irrefl 2); eapply Nat.le_lt_trans; [|exact He]; auto with arith]);
      cbn [csum Nat.eqb]; rewrite ?Cconj_R; ring.
  - intros j _. lra.
Qed.
