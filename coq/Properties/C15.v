(* C15 -- oracle alignment is optimal and undoes any per-frequency permutation.
   Model: Model/PermAlign.v (all_perms = itertools.permutations, optimal_assign, oracle); proofs:
   Proofs/PermAlignAssign.v (discrete, any strict weak order), Proofs/PermAlignOracle.v (instance RO).
   Masks are frequency-major lists of bins; [apply_bins ps ref] is the reference with the class rows
   of bin f in the order ps[f] (= apply_mapping(reference, mapping)); [rdistinct Tn x y] = the rows
   x, y differ in some frame t < Tn; [mrow] = the row the metric compares (normalised for 'cos'). *)
From Coq Require Import Reals Lra Lia List Arith Bool Permutation.
From PB Require Import Ops CLin Model.PermAlign Proofs.PermAlignAssign Proofs.PermAlignLoop Proofs.PermAlignOracle Proofs.PermAlign.
Import ListNotations.
Open Scope nat_scope.

(* the model of itertools.permutations yields permutations only, and every permutation *)
Theorem C15_all_perms_sound (A : Type) (l p : list A) : In p (all_perms l) -> Permutation l p.
Proof. exact (all_perms_sound l p). Qed.
Print Assumptions C15_all_perms_sound.
Theorem C15_all_perms_complete (A : Type) (l p : list A) : Permutation l p -> In p (all_perms l).
Proof. exact (all_perms_complete l p). Qed.
Print Assumptions C15_all_perms_complete.
(* ... in itertools order *)
Theorem C15_all_perms_itertools_order :
  all_perms [0; 1; 2] = [[0; 1; 2]; [0; 2; 1]; [1; 0; 2]; [1; 2; 0]; [2; 0; 1]; [2; 1; 0]].
Proof. vm_compute. reflexivity. Qed.
Print Assumptions C15_all_perms_itertools_order.

(* 'optimal' attains the maximum total score over ALL permutations of 0..K-1: no permutation scores
   strictly higher (any K, any matrix, any ordered carrier, the code's own left-to-right sum) *)
Theorem C15_optimal_is_max (T : Type) (ltb : T -> T -> bool) :
  (forall x, ltb x x = false) ->
  (forall x y z, ltb x y = true -> ltb y z = true -> ltb x z = true) ->
  (forall x y z, ltb x y = false -> ltb y z = false -> ltb x z = false) ->
  forall (K : nat) (Sc : nat -> nat -> T) (add : T -> T -> T) (zero : T) (q : list nat),
  Permutation q (seq 0 K) ->
  ltb (perm_score K Sc add zero (optimal_assign ltb K Sc add zero)) (perm_score K Sc add zero q) = false.
Proof. exact (@optimal_is_max T ltb). Qed.
Print Assumptions C15_optimal_is_max.

(* ... in particular never below the greedy result *)
Theorem C15_optimal_ge_greedy (T : Type) (ltb : T -> T -> bool) :
  (forall x, ltb x x = false) ->
  (forall x y z, ltb x y = true -> ltb y z = true -> ltb x z = true) ->
  (forall x y z, ltb x y = false -> ltb y z = false -> ltb x z = false) ->
  forall (K : nat) (Sc : nat -> nat -> T) (add : T -> T -> T) (zero : T),
  ltb (perm_score K Sc add zero (optimal_assign ltb K Sc add zero))
      (perm_score K Sc add zero (greedy_assign ltb K Sc)) = false.
Proof. exact (@optimal_ge_greedy T ltb). Qed.
Print Assumptions C15_optimal_ge_greedy.

(* over the reals: total(optimal) >= total(q) for every permutation q, total = sum_k Sc k q[k] *)
Theorem C15_optimal_is_max_real (K : nat) (Sc : nat -> nat -> R) (q : list nat) :
  Permutation q (seq 0 K) ->
  Rle (lsum (map (fun k => Sc k (nth k q 0)) (seq 0 K)))
      (lsum (map (fun k => Sc k (nth k (optimal_assign (oltb RO) K Sc Rplus 0%R) 0)) (seq 0 K))).
Proof. exact (optimal_is_max_real K Sc q). Qed.
Print Assumptions C15_optimal_is_max_real.

(* one bin: the estimate is the reference with its class rows in the order p (any permutation);
   for pairwise distinct (normalised, for 'cos') reference rows BOTH algorithms and ALL THREE metrics
   return the inverse permutation *)
Theorem C15_oracle_bin_inverts (tiny : R) (m : metric) (g : bool) (K Tn : nat) (r : @bin R) (p : list nat) :
  length r = K ->
  (forall i j, i < K -> j < K -> i <> j ->
     rdistinct Tn (mrow Tn tiny m (rowfn RO (nth i r []))) (mrow Tn tiny m (rowfn RO (nth j r [])))) ->
  Permutation p (seq 0 K) ->
  assign RO g K (score_bins RO tiny m K Tn (permute [] p r) r) = inverse_of K p /\
  Permutation (inverse_of K p) (seq 0 K) /\ permute 0 (inverse_of K p) p = seq 0 K.
Proof. exact (fun Hl Hd Hp => conj (oracle_bin_inverts tiny m K Tn r Hl Hd g p Hp) (inverse_of_perm K p Hp)). Qed.
Print Assumptions C15_oracle_bin_inverts.

(* all bins: for EVERY per-frequency permutation field ps of a reference with distinct rows in every
   bin, mapping = oracle(mask, reference) is the field of inverse permutations and
   apply_mapping(mask, mapping) is the reference, exactly *)
Theorem C15_oracle_inverts (tiny : R) (m : metric) (g : bool) (K Tn : nat) (ps : list (list nat)) (ref : list (@bin R)) :
  Forall2 (fun p r => Permutation p (seq 0 K) /\ length r = K /\
     forall i j, i < K -> j < K -> i <> j ->
       rdistinct Tn (mrow Tn tiny m (rowfn RO (nth i r []))) (mrow Tn tiny m (rowfn RO (nth j r [])))) ps ref ->
  let mask := apply_bins ps ref in
  oracle RO tiny m g K Tn mask ref = map (inverse_of K) ps /\
  apply_bins (oracle RO tiny m g K Tn mask ref) mask = ref.
Proof. exact (oracle_inverts tiny m g K Tn ps ref). Qed.
Print Assumptions C15_oracle_inverts.

(* a purely global permutation p is resolved when frequency and time are joined: the single
   assignment computed from the flattened masks is p^-1 and undoes p in every bin *)
Theorem C15_oracle_global (tiny : R) (m : metric) (g : bool) (K Tn : nat) (p : list nat) (ref : list (@bin R)) :
  Permutation p (seq 0 K) -> Forall (fun b => length b = K) ref ->
  (forall i j, i < K -> j < K -> i <> j ->
     rdistinct Tn (mrow Tn tiny m (rowfn RO (nth i (flatten_bins K ref) [])))
                  (mrow Tn tiny m (rowfn RO (nth j (flatten_bins K ref) [])))) ->
  let mask := map (permute [] p) ref in
  let mp := assign RO g K (score_bins RO tiny m K Tn (flatten_bins K mask) (flatten_bins K ref)) in
  mp = inverse_of K p /\ map (permute [] mp) mask = ref.
Proof. exact (oracle_global tiny m g K Tn p ref). Qed.
Print Assumptions C15_oracle_global.

(* non-vacuity: a 2-class, 2-frame reference with distinct rows under all three metrics, one bin *)
Example C15_hypotheses_satisfiable :
  let r : @bin R := [[1; 0]; [0; 1]]%R in
  length r = 2 /\
  forall m i j, i < 2 -> j < 2 -> i <> j ->
    rdistinct 2 (mrow 2 (/ 1000)%R m (rowfn RO (nth i r []))) (mrow 2 (/ 1000)%R m (rowfn RO (nth j r []))).
Proof. intros r. split. reflexivity. intros m i j Hi Hj Hne.
  assert (Hn: forall x : nat -> R, x 0 = 1%R /\ x 1 = 0%R \/ x 0 = 0%R /\ x 1 = 1%R ->
              vnorm RO 2 (/ 1000)%R x 0 = x 0 /\ vnorm RO 2 (/ 1000)%R x 1 = x 1).
  { intros x Hx. unfold vnorm. cbn [bsum omul oadd o0 osqrt RO odiv oinv]. rewrite omax_RO.
    assert (E: (0 + x 0%nat * x 0%nat + x 1%nat * x 1%nat = 1)%R) by (destruct Hx as [[-> ->]|[-> ->]]; ring).
    rewrite E, sqrt_1. rewrite Rmax_left by lra. split; field. }
  assert (Hc: (i = 0 /\ j = 1) \/ (i = 1 /\ j = 0)) by lia.
  destruct Hc as [[-> ->]|[-> ->]]; destruct m; cbn [mrow].
  - exists 0. split; [lia|]. destruct (Hn (rowfn RO (nth 0 r []))) as [E1 _]; [left; split; reflexivity|].
    destruct (Hn (rowfn RO (nth 1 r []))) as [E2 _]; [right; split; reflexivity|].
    rewrite E1, E2. cbn. lra.
  - exists 0. split; [lia|]. cbn. lra.
  - exists 0. split; [lia|]. cbn. lra.
  - exists 0. split; [lia|]. destruct (Hn (rowfn RO (nth 0 r []))) as [E1 _]; [left; split; reflexivity|].
    destruct (Hn (rowfn RO (nth 1 r []))) as [E2 _]; [right; split; reflexivity|].
    rewrite E1, E2. cbn. lra.
  - exists 0. split; [lia|]. cbn. lra.
  - exists 0. split; [lia|]. cbn. lra.
Qed.
