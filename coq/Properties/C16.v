(* C16 -- blind alignment restores a frequency-consistent class order.
   Model: Model/PermAlign.v (plan on Z with Python range semantics, greedy assignment, greedy chain,
   DHTV loop); proofs: Proofs/PermAlignPlan.v, PermAlignAssign.v, PermAlignLoop.v, PermAlign.v.
   Proved: plan coverage for all configurations; the greedy loop follows a dominating matching;
   net-reordering invariants; on the stated signal domain (non-negative patterns, pairwise cosine <= c,
   multiplicative jitter <= d) the adjacent-bin score matrices are diagonally dominant for all three
   metrics, hence the GREEDY aligner restores a consistent order for every permutation field, every
   F, T, K (C16_greedy_restores_on_domain); identity on consistent masks.
   NOT proved (explored by the harness on every run): the DHTV clause (>= 70 % first-segment majority
   and >= 2/3 overlap => consistent order); DHTV identity is proved GIVEN dominance of every bin against
   its segment centroid -- hence the suffix _partial there. *)
From Coq Require Import Reals Lra ZArith List Arith Bool Permutation.
From PB Require Import Ops CLin Model.PermAlign Proofs.PermAlignAssign Proofs.PermAlignPlan Proofs.PermAlignLoop Proofs.PermAlignOracle Proofs.PermAlignJitter Proofs.PermAlign.
Import ListNotations.
Open Scope nat_scope.

(* the alignment plan covers every bin 0 <= f < F, for EVERY F, start >= 0, 1 <= shift <= width,
   start + width <= F (Python range semantics on Z; (iterations, s, e) covers f iff s <= f < e) *)
Theorem C16_plan_covers (F start width shift main sub f : Z) :
  (0 <= start)%Z -> (1 <= shift <= width)%Z -> (start + width <= F)%Z -> (0 <= f < F)%Z ->
  exists g : seg, In g (plan F start width shift main sub) /\ let '(_, s, e) := g in (s <= f < e)%Z.
Proof. exact (fun H1 H2 H3 => plan_covers F start width shift main sub H1 H2 H3 f). Qed.
Print Assumptions C16_plan_covers.

(* every segment is a non-empty part of [0, F): the loop never indexes outside the mask *)
Theorem C16_plan_in_range (F start width shift main sub : Z) (g : seg) :
  (0 <= start)%Z -> (1 <= shift <= width)%Z -> (start + width <= F)%Z ->
  In g (plan F start width shift main sub) -> let '(_, s, e) := g in (0 <= s < e)%Z /\ (e <= F)%Z.
Proof. exact (fun H1 H2 H3 => plan_in_range F start width shift main sub H1 H2 H3 g). Qed.
Print Assumptions C16_plan_in_range.

(* the shipped 512 / 1024 defaults: every later segment overlaps the band aligned so far by >= 2/3 *)
Theorem C16_plan_defaults_overlap :
  plan_overlap_ok (plan (stft_bins 512) 70 100 20 20 2) = true /\
  plan_overlap_ok (plan (stft_bins 1024) 100 100 20 20 2) = true.
Proof. exact plan_defaults_overlap. Qed.
Print Assumptions C16_plan_defaults_overlap.
Theorem C16_plan_512_docstring :
  plan (stft_bins 512) 70 100 20 20 2 =
  [(20, 70, 170); (2, 90, 190); (2, 50, 150); (2, 110, 210); (2, 30, 130); (2, 130, 230); (2, 0, 110); (2, 150, 257)]%Z.
Proof. exact plan_512_docstring. Qed.
Print Assumptions C16_plan_512_docstring.

(* if every cell off a matching sigma is strictly below the matching cell of its row OR of its
   column, the greedy loop returns exactly sigma *)
Theorem C16_greedy_follows_matching (T : Type) (ltb : T -> T -> bool) :
  (forall x, ltb x x = false) ->
  (forall x y z, ltb x y = true -> ltb y z = true -> ltb x z = true) ->
  (forall x y z, ltb x y = false -> ltb y z = false -> ltb x z = false) ->
  forall (K : nat) (Sc : nat -> nat -> T) (sigma tau : nat -> nat),
  (forall i, i < K -> sigma i < K) -> (forall j, j < K -> tau j < K) ->
  (forall i, i < K -> tau (sigma i) = i) -> (forall j, j < K -> sigma (tau j) = j) ->
  (forall i j, i < K -> j < K -> j <> sigma i ->
     ltb (Sc i j) (Sc i (sigma i)) = true \/ ltb (Sc i j) (Sc (tau j) j) = true) ->
  greedy_assign ltb K Sc = map sigma (seq 0 K).
Proof. exact (@greedy_follows_matching T ltb). Qed.
Print Assumptions C16_greedy_follows_matching.

Section Aligners.
Context {T : Type} (P : ops T).
Hypothesis lt_irrefl : forall x, oltb P x x = false.
Hypothesis lt_trans : forall x y z, oltb P x y = true -> oltb P y z = true -> oltb P x z = true.
Hypothesis lt_negtrans : forall x y z, oltb P x y = false -> oltb P y z = false -> oltb P x z = false.
Variable tiny : T.

(* sigma = id: a (row-or-column) diagonally dominant matrix is assigned the identity *)
Theorem C16_diag_dominant_identity (K : nat) (f : nat -> nat -> T) :
  (forall i j, i < K -> j < K -> j <> i -> oltb P (f i j) (f i i) = true \/ oltb P (f i j) (f j j) = true) ->
  assign P true K (mtab K f) = seq 0 K.
Proof. exact (diag_dominant_identity P lt_irrefl lt_trans lt_negtrans K f). Qed.

(* rows relabelled by alpha and columns by beta: the assignment is beta^-1 o alpha *)
Theorem C16_permuted_dominant_recovered (K : nat) (D : nat -> nat -> T) (alpha beta alpha' beta' : nat -> nat) :
  (forall i, i < K -> alpha i < K) -> (forall i, i < K -> beta i < K) ->
  (forall i, i < K -> alpha' i < K) -> (forall i, i < K -> beta' i < K) ->
  (forall i, i < K -> alpha' (alpha i) = i) -> (forall i, i < K -> alpha (alpha' i) = i) ->
  (forall i, i < K -> beta' (beta i) = i) -> (forall i, i < K -> beta (beta' i) = i) ->
  (forall i j, i < K -> j < K -> j <> i -> oltb P (D i j) (D i i) = true \/ oltb P (D i j) (D j j) = true) ->
  assign P true K (mtab K (fun i j => D (alpha i) (beta j))) = map (fun i => beta' (alpha i)) (seq 0 K).
Proof. exact (permuted_dominant_recovered P lt_irrefl lt_trans lt_negtrans K D alpha beta alpha' beta'). Qed.

(* DHTV: the features the procedure ends with are the initial features (normalised mask for 'cos',
   the mask otherwise) reordered per bin by the returned mapping -- for every mask, plan, metric,
   algorithm, number of iterations *)
Theorem C16_dhtv_net_reordering (m : metric) (g : bool) (K Tn : nat) (pl : list (nat * nat * nat)) (mask : list (@bin T)) :
  Forall (fun b => length b = K) mask ->
  map fst (dhtv_run P tiny m g K Tn pl mask) = apply_bins (dhtv P tiny m g K Tn pl mask) (map (feat P tiny m Tn) mask).
Proof. exact (dhtv_net_reordering P lt_irrefl lt_trans lt_negtrans tiny m g K Tn pl mask). Qed.

(* greedy aligner: mapping[:, 0] = identity and mapping[:, f+1] = assignment_f[mapping[:, f]], where
   assignment_f is the greedy assignment of bin f+1 against bin f *)
Theorem C16_greedy_chain_net_reordering (m : metric) (K Tn : nat) (b0 : @bin T) (rest : list (@bin T)) (f : nat) :
  f < length rest ->
  let ms := adjacent P tiny m K Tn b0 rest in
  let mp := greedy_chain P tiny m K Tn (b0 :: rest) in
  nth 0 mp [] = seq 0 K /\ nth (S f) mp [] = permute 0 (nth f mp []) (nth f ms []).
Proof. exact (greedy_chain_net_reordering P tiny m K Tn b0 rest f). Qed.

(* greedy aligner restores a consistent order for EVERY per-frequency permutation field (p0 :: ps),
   every F, T, K, given dominance of the adjacent-bin score matrices of the consistent reference
   (any ordered carrier; the signal-domain instance over the reals is C16_greedy_restores_on_domain) *)
Theorem C16_greedy_chain_restores (m : metric) (K Tn : nat) (r0 : @bin T) (rs : list (@bin T))
    (p0 : list nat) (ps : list (list nat)) :
  Permutation p0 (seq 0 K) -> Forall2 (fun p (_ : @bin T) => Permutation p (seq 0 K)) ps rs ->
  adj_dominant P tiny m K Tn r0 rs ->
  let mask := apply_bins (p0 :: ps) (r0 :: rs) in
  Forall2 (fun M p => permute 0 M p = p0) (greedy_chain P tiny m K Tn mask) (p0 :: ps) /\
  apply_bins (greedy_chain P tiny m K Tn mask) mask = map (permute [] p0) (r0 :: rs).
Proof. exact (greedy_chain_restores P lt_irrefl lt_trans lt_negtrans tiny m K Tn r0 rs p0 ps). Qed.

(* already consistent masks: identity mapping *)
Theorem C16_consistent_mask_identity_greedy (m : metric) (K Tn : nat) (r0 : @bin T) (rs : list (@bin T)) :
  adj_dominant P tiny m K Tn r0 rs ->
  greedy_chain P tiny m K Tn (r0 :: rs) = map (fun _ => seq 0 K) (r0 :: rs).
Proof. exact (greedy_chain_identity P lt_irrefl lt_trans lt_negtrans tiny m K Tn r0 rs). Qed.
(* DHTV (greedy assignment): if in every segment every bin's score matrix against the segment
   centroid is diagonally dominant, nothing is changed; _partial: consistency is expressed through
   this dominance, and the majority / overlap clause for inconsistent inputs is not proved *)
Theorem C16_consistent_mask_identity_dhtv_partial (m : metric) (K Tn : nat) (pl : list (nat * nat * nat)) (mask : list (@bin T)) :
  let st0 := dhtv_init P tiny m K Tn mask in
  (forall n s e idx, In (n, s, e) pl -> idx < length mask -> s <= idx < e ->
     forall i j, i < K -> j < K -> j <> i ->
       let Sc := score_fn P Tn tiny (dhtv_metric m) (rget P (fst (nth idx st0 ([], []))))
                                                    (rget P (dhtv_cent P tiny m K Tn s e st0)) in
       oltb P (Sc i j) (Sc i i) = true \/ oltb P (Sc i j) (Sc j j) = true) ->
  dhtv P tiny m true K Tn pl mask = map (fun _ => seq 0 K) mask.
Proof. exact (dhtv_dominant_identity P lt_irrefl lt_trans lt_negtrans tiny m K Tn pl mask). Qed.
End Aligners.
Print Assumptions C16_diag_dominant_identity.
Print Assumptions C16_permuted_dominant_recovered.
Print Assumptions C16_dhtv_net_reordering.
Print Assumptions C16_greedy_chain_net_reordering.
Print Assumptions C16_greedy_chain_restores.
Print Assumptions C16_consistent_mask_identity_greedy.
Print Assumptions C16_consistent_mask_identity_dhtv_partial.

(* ---- the signal domain: jittered copies of nearly orthogonal non-negative patterns ----
   ip Tn u v = sum_t u t * v t;  jittered Tn d a x : 0 <= a t and (1-d) a t <= x t <= (1+d) a t;
   cos_le Tn c a b : <a,b>^2 <= c^2 <a,a> <b,b>  (pairwise cosine <= c, no square roots).
   x k / y k: the class-k rows of two adjacent bins. *)
Theorem C16_jitter_dominance_multiply (Tn : nat) (c d : R) (K : nat) (a x y : nat -> nat -> R) :
  (0 <= c)%R -> (0 <= d < 1)%R ->
  (forall k, k < K -> jittered Tn d (a k) (x k)) -> (forall k, k < K -> jittered Tn d (a k) (y k)) ->
  (forall k, k < K -> (0 < ip Tn (a k) (a k))%R) ->
  (forall i j, i < K -> j < K -> i <> j -> cos_le Tn c (a i) (a j)) ->
  (c * ((1 + d) * (1 + d)) < (1 - d) * (1 - d))%R ->
  forall i j, i < K -> j < K -> j <> i ->
    let D := fun i j => pair_multiply RO Tn (y j) (x i) in
    oltb RO (D i j) (D i i) = true \/ oltb RO (D i j) (D j j) = true.
Proof. exact (fun Hc Hd => jitter_dominance_multiply Tn c d Hc Hd K a x y). Qed.
Print Assumptions C16_jitter_dominance_multiply.
Theorem C16_jitter_dominance_euclid (Tn : nat) (c d : R) (K : nat) (a x y : nat -> nat -> R) :
  (0 <= c)%R -> (0 <= d < 1)%R ->
  (forall k, k < K -> jittered Tn d (a k) (x k)) -> (forall k, k < K -> jittered Tn d (a k) (y k)) ->
  (forall k, k < K -> (0 < ip Tn (a k) (a k))%R) ->
  (forall i j, i < K -> j < K -> i <> j -> cos_le Tn c (a i) (a j)) ->
  (4 * (d * d) < (1 - d) * (1 - d) - c * ((1 + d) * (1 + d)))%R ->
  forall i j, i < K -> j < K -> j <> i ->
    let D := fun i j => pair_euclid RO Tn (y j) (x i) in
    oltb RO (D i j) (D i i) = true \/ oltb RO (D i j) (D j j) = true.
Proof. exact (fun Hc Hd => jitter_dominance_euclid Tn c d Hc Hd K a x y). Qed.
Print Assumptions C16_jitter_dominance_euclid.
Theorem C16_jitter_dominance_cos (Tn : nat) (c d : R) (K : nat) (a x y : nat -> nat -> R) (tiny : R) :
  (0 <= c)%R -> (0 <= d < 1)%R ->
  (forall k, k < K -> jittered Tn d (a k) (x k)) -> (forall k, k < K -> jittered Tn d (a k) (y k)) ->
  (forall k, k < K -> (0 < ip Tn (a k) (a k))%R) ->
  (forall i j, i < K -> j < K -> i <> j -> cos_le Tn c (a i) (a j)) ->
  (forall k, k < K -> (tiny <= (1 - d) * sqrt (ip Tn (a k) (a k)))%R) ->
  (c * ((1 + d) * (1 + d) * (1 + d)) < (1 - d) * (1 - d) * (1 - d))%R ->
  forall i j, i < K -> j < K -> j <> i ->
    let D := fun i j => pair_cos RO Tn tiny (y j) (x i) in
    oltb RO (D i j) (D i i) = true \/ oltb RO (D i j) (D j j) = true.
Proof. exact (fun Hc Hd Hx Hy Hpos Hcos => jitter_dominance_cos Tn c d Hc Hd K a x y Hx Hy Hpos Hcos tiny). Qed.
Print Assumptions C16_jitter_dominance_cos.

(* the greedy aligner's clause on the stated domain: every bin of the reference (r0 :: rs) holds
   jittered copies of the K patterns; the mask is the reference with class order (p0 :: ps)[f] in bin
   f, ANY permutation field; then after alignment every bin carries the order of bin 0.
   metric_margin: multiply c(1+d)^2 < (1-d)^2; euclidean 4d^2 < (1-d)^2 - c(1+d)^2;
   cos c(1+d)^3 < (1-d)^3 and tiny <= (1-d)|a_k| *)
Theorem C16_greedy_restores_on_domain (tiny : R) (K Tn : nat) (c d : R) (a : nat -> nat -> R) (m : metric)
    (r0 : @bin R) (rs : list (@bin R)) (p0 : list nat) (ps : list (list nat)) :
  (0 <= c)%R -> (0 <= d < 1)%R ->
  (forall k, k < K -> (0 < ip Tn (a k) (a k))%R) ->
  (forall i j, i < K -> j < K -> i <> j -> cos_le Tn c (a i) (a j)) ->
  metric_margin tiny K Tn c d a m ->
  Forall (fun r => forall k, k < K -> jittered Tn d (a k) (rowfn RO (nth k r []))) (r0 :: rs) ->
  Permutation p0 (seq 0 K) -> Forall2 (fun p (_ : @bin R) => Permutation p (seq 0 K)) ps rs ->
  let mask := apply_bins (p0 :: ps) (r0 :: rs) in
  Forall2 (fun M p => permute 0 M p = p0) (greedy_chain RO tiny m K Tn mask) (p0 :: ps) /\
  apply_bins (greedy_chain RO tiny m K Tn mask) mask = map (permute [] p0) (r0 :: rs).
Proof. exact (fun Hc Hd Hpos Hcos => greedy_restores_on_domain tiny K Tn c d a Hc Hd Hpos Hcos m r0 rs p0 ps). Qed.
Print Assumptions C16_greedy_restores_on_domain.

(* non-vacuity: the stft-512 defaults meet the plan hypotheses; a strictly diagonally dominant
   integer matrix with permuted columns meets the matching hypothesis *)
Example C16_hypotheses_satisfiable :
  ((0 <= 70)%Z /\ (1 <= 20 <= 100)%Z /\ (70 + 100 <= stft_bins 512)%Z) /\
  greedy_assign Z.ltb 3 (fun i j => nth j (nth i [[1; 9; 2]; [8; 0; 1]; [2; 3; 7]] []) 0)%Z = [1; 0; 2] /\
  (* the margins at the property's c = d = 0.1 *)
  (let c := (/ 10)%R in let d := (/ 10)%R in
   (c * ((1 + d) * (1 + d)) < (1 - d) * (1 - d))%R /\
   (4 * (d * d) < (1 - d) * (1 - d) - c * ((1 + d) * (1 + d)))%R /\
   (c * ((1 + d) * (1 + d) * (1 + d)) < (1 - d) * (1 - d) * (1 - d))%R).
Proof. split. vm_compute. repeat split; discriminate. split. vm_compute. reflexivity. cbv zeta. lra. Qed.
