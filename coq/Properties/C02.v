(* C02 -- EM iterations never decrease the mixture log-likelihood.
   Proofs: Proofs/EMAscent.v, Proofs/Loglik.v, Proofs/EM.v. The quantifier "every prefix of the iteration history along
   which no numerical guard is active" is the hypothesis [forall i < j, Guard (fit_from E M i t)] of C02_em_monotone.
   Not proved (contracts evaluated per step by the correspondence): that the full-covariance Gaussian, cACG matrix
   and Watson-spline M-steps satisfy Q(new|old) >= Q(old|old); proved: weight, diagonal/spherical Gaussian steps,
   the cACG minoriser; and, with no hypothesis about the M-step left, the whole EM iteration of the diagonal-covariance
   GMM (theorems C02_gmm_diagonal_...). *)
From Coq Require Import Reals Lra.
From PB Require Import Ops CLin Model.EM Model.Loglik Proofs.EM Proofs.EMAscent Proofs.Loglik Proofs.GMMAscent Proofs.GMMRefine Proofs.GMMSphAscent Proofs.GMMSalAscent.
From PB Require Import Model.GMMLoop.
Open Scope R_scope.

(* Jensen / Gibbs, pointwise: sum_k gamma_k (ln p'_k - ln p_k) <= ln sum p' - ln sum p *)
Theorem C02_em_point (K : nat) (p p' : nat -> R) :
  (0 < K)%nat -> (forall k, (k<K)%nat -> 0 < p k) -> (forall k, (k<K)%nat -> 0 < p' k) ->
  rsum K (fun k => p k / rsum K p * (ln (p' k) - ln (p k))) <= ln (rsum K p') - ln (rsum K p).
Proof. intros HK Hp Hp'. eapply em_point; eauto. Qed.
Print Assumptions C02_em_point.

(* the log-likelihood gain is at least the gain of the auxiliary function, for all N, K, saliencies >= 0 *)
Theorem C02_em_ascent (N K : nat) (sal : nat -> R) (p p' : nat -> nat -> R) :
  (0 < K)%nat -> (forall n, (n<N)%nat -> 0 <= sal n) ->
  (forall n k, (n<N)%nat -> (k<K)%nat -> 0 < p n k) -> (forall n k, (n<N)%nat -> (k<K)%nat -> 0 < p' n k) ->
  Qfun N K sal p p' - Qfun N K sal p p <= loglik N K sal p' - loglik N K sal p /\
  (Qfun N K sal p p <= Qfun N K sal p p' -> loglik N K sal p <= loglik N K sal p').
Proof. intros HK Hs Hp Hp'. split. eapply em_gap; eauto. eapply em_ascent; eauto. Qed.
Print Assumptions C02_em_ascent.

(* the mean-affiliation weight update maximises sum_k c_k ln pi_k over the simplex (all tying options: c_k is the
   saliency-weighted affiliation mass of class k in the tied group) *)
Theorem C02_weight_update_maximises (K : nat) (c pi : nat -> R) :
  (forall k, (k<K)%nat -> 0 < c k) -> (forall k, (k<K)%nat -> 0 < pi k) -> rsum K pi = 1 -> (0<K)%nat ->
  rsum K (fun k => c k * ln (pi k)) <= rsum K (fun k => c k * ln (c k / rsum K c)).
Proof. intros Hc Hpi Hs HK. eapply weight_update_maximises; eauto. Qed.
Print Assumptions C02_weight_update_maximises.

(* weighted mean and variance maximise the weighted Gaussian log-likelihood coordinate-wise (diagonal / spherical) *)
Theorem C02_gaussian_coordinate_mstep_max (N : nat) (g y : nat -> R) (mu v : R) :
  (forall n, (n<N)%nat -> 0 <= g n) -> 0 < rsum N g ->
  let mu_hat := rsum N (fun n => g n * y n) / rsum N g in
  let var_hat := rsum N (fun n => g n * (y n - mu_hat) * (y n - mu_hat)) / rsum N g in
  0 < var_hat -> 0 < v -> ll N g y mu v <= ll N g y mu_hat var_hat.
Proof. intros Hg HG mu_hat var_hat Hvar Hv. eapply gaussian_coord_mstep_max; eauto. Qed.
Print Assumptions C02_gaussian_coordinate_mstep_max.

(* the cACG surrogate touches and minorises -D ln q *)
Theorem C02_cacg_minorise (Dn q q0 : R) : 0 <= Dn -> 0 < q -> 0 < q0 ->
  - Dn * ln q0 - Dn * (q / q0 - 1) <= - Dn * ln q /\ (q = q0 -> - Dn * ln q0 - Dn * (q / q0 - 1) = - Dn * ln q).
Proof. exact (cacg_minorise Dn q q0). Qed.
Print Assumptions C02_cacg_minorise.

(* induction over the iteration history: along every guard-free prefix the log-likelihood is non-decreasing *)
Theorem C02_em_monotone (Theta Gamma : Type) (E : Theta -> Gamma) (M : Gamma -> Theta) (N K : nat)
    (sal : nat -> R) (J : Theta -> nat -> nat -> R) (Guard : Theta -> Prop) :
  (0 < K)%nat -> (forall n, (n<N)%nat -> 0 <= sal n) ->
  (forall t n k, Guard t -> (n<N)%nat -> (k<K)%nat -> 0 < J t n k) ->
  (forall t n k, Guard t -> (n<N)%nat -> (k<K)%nat -> 0 < J (step E M t) n k) ->
  (forall t, Guard t -> Qfun N K sal (J t) (J t) <= Qfun N K sal (J t) (J (step E M t))) ->
  forall j t, (forall i, (i < j)%nat -> Guard (fit_from E M i t)) ->
  loglik N K sal (J t) <= loglik N K sal (J (fit_from E M j t)).
Proof. intros HK Hs HJ HJ' HQ j t HG. eapply em_monotone; eauto. Qed.
Print Assumptions C02_em_monotone.

(* A fully discharged instance: the diagonal-covariance GMM.  One E-step (Bayes posterior of the current model) followed
   by the model's M-step (Model/Trainers.v g_mean, g_cov_diag; Model/Posterior.v weight_sal) never decreases
   sum_n ln sum_k pi_k N(y_n; mu_k, diag v_k) -- for every K, D, N, data y and current model, with no assumption about the
   M-step: only "no numerical guard active" (class masses above the floor, new variances positive). *)
Theorem C02_gmm_diagonal_em_step_ascent (K' D N : nat) (tiny epsw : R) (y : nat -> nat -> R)
    (w : nat -> R) (mu v : nat -> nat -> R) :
  (0 < N)%nat -> (forall k, (k < S K')%nat -> 0 < w k) -> rsum (S K') w = 1 ->
  (forall k d, (k < S K')%nat -> (d < D)%nat -> 0 < v k d) ->
  (forall k, (k < S K')%nat -> tiny <= rsum N (fun n => gam K' D y w mu v n k)) ->
  (forall k d, (k < S K')%nat -> (d < D)%nat -> 0 < v' K' D N tiny y w mu v k d) ->
  loglik N (S K') (fun _ => 1) (joint D y w mu v)
  <= loglik N (S K') (fun _ => 1) (joint D y (w' K' D N epsw y w mu v) (mu' K' D N tiny y w mu v) (v' K' D N tiny y w mu v)).
Proof. intros HN Hw Hs Hv Hm Hv2. eapply gmm_diag_em_step_ascent; eauto. Qed.
Print Assumptions C02_gmm_diagonal_em_step_ascent.

(* ... and by induction over the iteration history, for every number of iterations *)
Theorem C02_gmm_diagonal_em_monotone (K' D N : nat) (tiny epsw : R) (y : nat -> nat -> R) (j : nat) (t : theta) :
  (0 < N)%nat ->
  (forall i, (i < j)%nat -> gmm_guard K' D N tiny epsw y (Nat.iter i (gmm_step K' D N tiny epsw y) t)) ->
  gmm_loglik K' D N y t <= gmm_loglik K' D N y (Nat.iter j (gmm_step K' D N tiny epsw y) t).
Proof. intros HN HG. eapply gmm_diag_em_monotone; eauto. Qed.
Print Assumptions C02_gmm_diagonal_em_monotone.

(* the new weights are again a strictly positive distribution (so the guard's first two clauses propagate) *)
Theorem C02_gmm_diagonal_new_weights (K' D N : nat) (epsw : R) (y : nat -> nat -> R) (w : nat -> R) (mu v : nat -> nat -> R) :
  (0 < N)%nat -> (forall k, (k < S K')%nat -> 0 < w k) -> rsum (S K') w = 1 ->
  (forall k d, (k < S K')%nat -> (d < D)%nat -> 0 < v k d) ->
  (forall k, (k < S K')%nat -> 0 < w' K' D N epsw y w mu v k) /\ rsum (S K') (w' K' D N epsw y w mu v) = 1.
Proof. intros HN Hw Hs Hv. eapply gmm_diag_new_weights_distribution; eauto. Qed.
Print Assumptions C02_gmm_diagonal_new_weights.

(* ... and the same statement about the EXECUTABLE whole-loop model of GMMTrainer (Model/GMMLoop.v gmm_fit: the function the
   correspondence check runs on binary64 against fit(..., iterations=n) of the implementation), read on the real-number
   instance: for every start affiliation g0 and every iteration count the log-likelihood after 1+j iterations is at least
   the one after the first, provided no guard (posterior floor, mass floor, variance positivity) was active on the way *)
Theorem C02_gmm_loop_model_monotone (K' D N : nat) (tiny tinyw : R) (y : nat -> nat -> R) (g0 : list (list R)) (j : nat) :
  0 < tiny -> (0 < N)%nat ->
  (forall i, (i < j)%nat -> model_guard K' D N tiny tinyw y (gmm_fit RO K' D N tiny tinyw (2 * PI) y (S i) g0)) ->
  mloglik K' D N y (gmm_fit RO K' D N tiny tinyw (2 * PI) y 1 g0)
  <= mloglik K' D N y (gmm_fit RO K' D N tiny tinyw (2 * PI) y (S j) g0).
Proof. intros Ht HN HG. eapply gmm_fit_monotone; eauto. Qed.
Print Assumptions C02_gmm_loop_model_monotone.

(* the same for the SPHERICAL-covariance GMM (one variance vs k per class; its density is the diagonal one with the D
   variances tied): Bayes posterior, then weight_sal / g_mean / g_cov_sph (the pooled variance) never decrease the
   log-likelihood, for every K, D >= 1, N, data and current model *)
Theorem C02_gmm_spherical_em_step_ascent (K' D N : nat) (tiny epsw : R) (y : nat -> nat -> R)
    (w : nat -> R) (mu : nat -> nat -> R) (vs : nat -> R) :
  0 < tiny -> (0 < N)%nat -> (0 < D)%nat -> (forall k, (k < S K')%nat -> 0 < w k) -> rsum (S K') w = 1 ->
  (forall k, (k < S K')%nat -> 0 < vs k) ->
  (forall k, (k < S K')%nat -> tiny <= rsum N (fun n => gam K' D y w mu (fun k0 _ => vs k0) n k)) ->
  (forall k, (k < S K')%nat -> 0 < vs' K' D N tiny y w mu vs k) ->
  loglik N (S K') (fun _ => 1) (joint D y w mu (fun k _ => vs k))
  <= loglik N (S K') (fun _ => 1)
       (joint D y (w' K' D N epsw y w mu (fun k _ => vs k)) (mu' K' D N tiny y w mu (fun k _ => vs k))
              (fun k _ => vs' K' D N tiny y w mu vs k)).
Proof. intros Ht HN HD Hw Hs Hv Hm Hv2. eapply gmm_sph_em_step_ascent; eauto. Qed.
Print Assumptions C02_gmm_spherical_em_step_ascent.

(* ... and with an arbitrary strictly positive saliency s_n ("for every ... saliency"): the monotone quantity is
   sum_n s_n ln sum_k pi_k N(y_n; mu_k, diag v_k); the M-step is weight_sal on (posterior, saliency) and g_mean / g_cov_diag on
   the masked affiliation posterior * saliency, as GMMTrainer hands them to its sub-trainers *)
Theorem C02_gmm_diagonal_saliency_em_step_ascent (K' D N : nat) (tiny epsw : R) (y : nat -> nat -> R) (sal : nat -> R)
    (w : nat -> R) (mu v : nat -> nat -> R) :
  (0 < N)%nat -> (forall n, (n < N)%nat -> 0 < sal n) ->
  (forall k, (k < S K')%nat -> 0 < w k) -> rsum (S K') w = 1 ->
  (forall k d, (k < S K')%nat -> (d < D)%nat -> 0 < v k d) ->
  (forall k, (k < S K')%nat -> tiny <= rsum N (fun n => gam K' D y w mu v n k * sal n)) ->
  (forall k d, (k < S K')%nat -> (d < D)%nat -> 0 < vs_' K' D N tiny y sal w mu v k d) ->
  loglik N (S K') sal (joint D y w mu v)
  <= loglik N (S K') sal (joint D y (ws' K' D N epsw y sal w mu v) (mus' K' D N tiny y sal w mu v) (vs_' K' D N tiny y sal w mu v)).
Proof. intros HN Hs Hw Hsum Hv Hm Hv2. eapply gmm_sal_em_step_ascent; eauto. Qed.
Print Assumptions C02_gmm_diagonal_saliency_em_step_ascent.

(* the executable whole-loop model of the spherical GMM (Model/GMMLoop.v gmm_fit_sph, compared with
   GMMTrainer.fit(covariance_type='spherical', iterations=n) on every run) is that iteration too *)
Theorem C02_gmm_spherical_loop_model_monotone (K' D N : nat) (tiny tinyw : R) (y : nat -> nat -> R) (g0 : list (list R)) (j : nat) :
  0 < tiny -> (0 < N)%nat -> (0 < D)%nat ->
  (forall i, (i < j)%nat -> model_guard_sph K' D N tiny y (gmm_fit_sph RO K' D N tiny tinyw (2 * PI) y (S i) g0)) ->
  mloglik K' D N y (gmm_fit_sph RO K' D N tiny tinyw (2 * PI) y 1 g0)
  <= mloglik K' D N y (gmm_fit_sph RO K' D N tiny tinyw (2 * PI) y (S j) g0).
Proof. intros Ht HN HD HG. eapply gmm_fit_sph_monotone; eauto. Qed.
Print Assumptions C02_gmm_spherical_loop_model_monotone.

(* full-covariance Gaussian (and the matrix part of the cACG surrogate): written in the eigenbasis of Sigma^-1 S - contract of
   the eigen-decomposition: ln det(Sigma^-1 S) = sum ln lam_i, tr(Sigma^-1 S) = sum lam_i, lam_i > 0 - the class part of Q,
   -c/2 (ln det Sigma + tr(Sigma^-1 S)) = -c/2 (ln det S - sum ln lam_i + sum lam_i), is largest at Sigma = S (all lam_i = 1).
   _partial: the reduction to the eigenbasis is the contract, not proved here; it is what the per-step evaluation of
   Q(new|old) >= Q(old|old) on the recorded trajectories checks for the implementation. *)
Theorem C02_full_covariance_mstep_spectral_partial (D : nat) (c ldS : R) (lam : nat -> R) :
  0 <= c -> (forall i, (i < D)%nat -> 0 < lam i) ->
  - c / 2 * (ldS - rsum D (fun i => ln (lam i)) + rsum D lam) <= - c / 2 * (ldS + INR D).
Proof. intros Hc H. eapply full_covariance_mstep_spectral; eauto. Qed.
Print Assumptions C02_full_covariance_mstep_spectral_partial.

(* the guard of the GMM theorems is met by a concrete two-class model *)
Example C02_gmm_guard_satisfiable : gmm_guard 1 1 2 (/ 2) (/ 2) ex_y ex_t.
Proof. exact gmm_guard_satisfiable. Qed.

(* the log_likelihood method (weights included) IS that mixture log-likelihood *)
Theorem C02_log_likelihood_method (N K' : nat) (w l : nat -> nat -> R) :
  (forall n, (n < N)%nat -> 0 < rsum (S K') (fun k => w n k * exp (l n k))) ->
  mix_loglik RO K' N w l = loglik N (S K') (fun _ => 1) (fun n k => w n k * exp (l n k)).
Proof. exact (mix_loglik_spec N K' w l). Qed.
Print Assumptions C02_log_likelihood_method.

Example C02_hypotheses_satisfiable :
  let p := fun (n k : nat) => / 2 in (forall n k, (n<2)%nat -> (k<2)%nat -> 0 < p n k) /\ 0 < rsum 2 (p 0%nat).
Proof. cbn [rsum]. split. intros; lra. lra. Qed.
