(* C20 -- calls are pure: results reproducible and history-free, fit split law.
   Model: Model/EM.v (the loop `fit`, `fit_from`; the trainer state machine `tfit` / `trun` of CWMMTrainer, CBMMTrainer,
   ComplexWatsonTrainer, ComplexBinghamTrainer: cached dimension + tables that depend only on it) and Model/Calls.v
   (start of a call, the NumPy generator as explicit state, chains of continued fits).  Proofs: Proofs/EM.v,
   Proofs/Calls.v.  All statements are for arbitrary state types, E- and M-steps, histories and budgets.
   NOT a theorem: "arrays passed by the caller are bit-identical afterwards" -- mutation of caller memory is a property
   of the NumPy runtime that a pure Gallina function cannot exhibit; it is monitored on every case by the harness
   (read-only arrays, byte hashes before / after). *)
From Coq Require Import Arith List.
From PB Require Import Model.EM Proofs.EM Model.Calls Proofs.Calls.
Import ListNotations.

(* for every sequence h of earlier fits, a fit on the reused trainer returns what a fresh trainer returns, or is
   rejected (AssertionError) and then the cached dimension differs from the one requested *)
Theorem C20_trainer_history_free (Args Res Table : Type) (dim_of : Args -> nat) (mk_table : nat -> Table)
    (compute : Table -> Args -> Res) (h : list Args) (a : Args) :
  snd (tfit Args Res Table dim_of mk_table compute (trun Args Res Table dim_of mk_table compute h) a)
    = snd (tfit Args Res Table dim_of mk_table compute None a)
  \/ (snd (tfit Args Res Table dim_of mk_table compute (trun Args Res Table dim_of mk_table compute h) a) = None /\
      exists d t, trun Args Res Table dim_of mk_table compute h = Some (d, t) /\ d <> dim_of a).
Proof. exact (trainer_history_free Args Res Table dim_of mk_table compute h a). Qed.
Print Assumptions C20_trainer_history_free.

(* the cached tables are always the tables of the cached dimension, whatever the history *)
Theorem C20_trainer_cache_consistent (Args Res Table : Type) (dim_of : Args -> nat) (mk_table : nat -> Table)
    (compute : Table -> Args -> Res) (h : list Args) :
  match trun Args Res Table dim_of mk_table compute h with None => True | Some (d, t) => t = mk_table d end.
Proof. exact (trun_inv Args Res Table dim_of mk_table compute h). Qed.
Print Assumptions C20_trainer_cache_consistent.

(* a fresh trainer accepts every dimension *)
Theorem C20_fresh_trainer_accepts (Args Res Table : Type) (dim_of : Args -> nat) (mk_table : nat -> Table)
    (compute : Table -> Args -> Res) (a : Args) :
  snd (tfit Args Res Table dim_of mk_table compute None a) = Some (compute (mk_table (dim_of a)) a).
Proof. reflexivity. Qed.
Print Assumptions C20_fresh_trainer_accepts.

(* a fit of n1 + n2 iterations = n1 iterations, then n2 more continued from the returned model *)
Theorem C20_fit_split (Theta Gamma : Type) (E : Theta -> Gamma) (M : Gamma -> Theta) (n1 n2 : nat) (g0 : Gamma) :
  1 <= n1 -> fit E M (n1 + n2) g0 = fit_from E M n2 (fit E M n1 g0).
Proof. exact (fit_split Theta Gamma E M n1 n2 g0). Qed.
Print Assumptions C20_fit_split.

(* ... and any split n = n1 + n2 + ... + nj into consecutive fits continued from the returned model *)
Theorem C20_fit_split_list (Theta Gamma : Type) (E : Theta -> Gamma) (M : Gamma -> Theta) (n1 : nat) (rest : list nat)
    (g0 : Gamma) :
  1 <= n1 -> fit E M (n1 + fold_right Nat.add 0 rest) g0 = fit_chain E M n1 rest g0.
Proof. exact (fit_split_list Theta Gamma E M n1 rest g0). Qed.
Print Assumptions C20_fit_split_list.

(* two different splits of the same budget give the same model *)
Theorem C20_fit_split_any (Theta Gamma : Type) (E : Theta -> Gamma) (M : Gamma -> Theta) (n1 : nat) (rest : list nat)
    (m1 : nat) (rest' : list nat) (g0 : Gamma) :
  1 <= n1 -> 1 <= m1 -> n1 + fold_right Nat.add 0 rest = m1 + fold_right Nat.add 0 rest' ->
  fit_chain E M n1 rest g0 = fit_chain E M m1 rest' g0.
Proof. exact (fit_split_any Theta Gamma E M n1 rest m1 rest' g0). Qed.
Print Assumptions C20_fit_split_any.

(* a continued fit splits too *)
Theorem C20_fit_from_split (Theta Gamma : Type) (E : Theta -> Gamma) (M : Gamma -> Theta) (n1 n2 : nat) (t : Theta) :
  fit_from E M (n1 + n2) t = fit_from E M n2 (fit_from E M n1 t).
Proof. exact (fit_from_split Theta Gamma E M n1 n2 t). Qed.
Print Assumptions C20_fit_from_split.

(* the steps a fit executes: M, then (E, M) n-1 times -- the word the harness records on the implementation *)
Theorem C20_fit_word (n : nat) (g0 : list bool) :
  1 <= n -> fit Eword Mword n g0 = g0 ++ true :: concat (repeat [false; true] (n - 1)).
Proof. exact (fit_word n g0). Qed.
Print Assumptions C20_fit_word.

(* the call is a function of its arguments and of the explicit generator state *)
Theorem C20_fit_deterministic (Seed Theta Gamma : Type) (E : Theta -> Gamma) (M : Gamma -> Theta)
    (draw : Seed -> Gamma * Seed) (n n' : nat) (s s' : start Theta Gamma) (seed seed' : Seed) :
  n = n' -> s = s' -> seed = seed' -> fit_call E M draw n s seed = fit_call E M draw n' s' seed'.
Proof. exact (fit_deterministic Seed Theta Gamma E M draw n n' s s' seed seed'). Qed.
Print Assumptions C20_fit_deterministic.

(* an explicit start (affiliation or model) neither reads nor advances the generator *)
Theorem C20_explicit_start_ignores_rng (Seed Theta Gamma : Type) (E : Theta -> Gamma) (M : Gamma -> Theta)
    (draw : Seed -> Gamma * Seed) (n : nat) (s : start Theta Gamma) (seed seed' : Seed) :
  s <> FromNumClasses ->
  fst (fit_call E M draw n s seed) = fst (fit_call E M draw n s seed') /\ snd (fit_call E M draw n s seed) = seed.
Proof. exact (fit_explicit_start_ignores_rng Seed Theta Gamma E M draw n s seed seed'). Qed.
Print Assumptions C20_explicit_start_ignores_rng.

(* a num_classes start depends on the generator through one draw only, and advances it by exactly that draw *)
Theorem C20_num_classes_one_draw (Seed Theta Gamma : Type) (E : Theta -> Gamma) (M : Gamma -> Theta)
    (draw : Seed -> Gamma * Seed) (n : nat) (seed seed' : Seed) :
  (fst (draw seed) = fst (draw seed') ->
   fst (fit_call E M draw n FromNumClasses seed) = fst (fit_call E M draw n FromNumClasses seed')) /\
  snd (fit_call E M draw n FromNumClasses seed) = snd (draw seed) /\
  fst (fit_call E M draw n FromNumClasses seed) = fst (fit_call E M draw n (FromAffiliation (fst (draw seed))) seed).
Proof. exact (conj (fit_num_classes_one_draw Seed Theta Gamma E M draw n seed seed')
               (conj (fit_num_classes_advances Seed Theta Gamma E M draw n seed)
                     (fit_num_classes_is_affiliation Seed Theta Gamma E M draw n seed))). Qed.
Print Assumptions C20_num_classes_one_draw.

(* non-vacuity: budgets 2 + 3 + 1 on the word instance; a history 3, 3, 4 (the last one rejected) *)
Example C20_hypotheses_satisfiable :
  fit_chain Eword Mword 2 [3; 1] [] = fit Eword Mword 6 [] /\
  snd (tfit nat nat nat (fun a => a) (fun d => d) (fun t a => t + a) (trun nat nat nat (fun a => a) (fun d => d) (fun t a => t + a) [3; 3]) 4) = None /\
  snd (tfit nat nat nat (fun a => a) (fun d => d) (fun t a => t + a) (trun nat nat nat (fun a => a) (fun d => d) (fun t a => t + a) [3; 4]) 3) = Some 6.
Proof. repeat split. Qed.
