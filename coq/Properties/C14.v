(* C14 -- permutation alignment only reorders classes.
   Model: Model/PermAlign.v; proofs: Proofs/PermAlign*.v.  Discrete throughout: scores live in any
   carrier T whose comparison is a strict weak order (Z, R, binary64 without NaN); the aligners are
   stated for every scalar interface P : ops T whose [oltb P] is such an order (instance RO: Example
   at the end).  Masks are frequency-major lists of bins (K rows each), mappings lists of index lists;
   [Permutation l (seq 0 K)] = "l is a permutation of 0..K-1". *)
From Coq Require Import Reals ZArith List Arith Bool Permutation.
From PB Require Import Ops Model.PermAlign Proofs.PermAlignAssign Proofs.PermAlignLoop Proofs.PermAlignOracle Proofs.PermAlign.
Import ListNotations.
Open Scope nat_scope.

(* greedy assignment (row/column masked with -inf, first maximum in row-major order): a permutation
   for EVERY K and EVERY matrix, ties included *)
Theorem C14_greedy_is_perm (T : Type) (ltb : T -> T -> bool) :
  (forall x, ltb x x = false) ->
  (forall x y z, ltb x y = true -> ltb y z = true -> ltb x z = true) ->
  (forall x y z, ltb x y = false -> ltb y z = false -> ltb x z = false) ->
  forall (K : nat) (Sc : nat -> nat -> T), Permutation (greedy_assign ltb K Sc) (seq 0 K).
Proof. exact (@greedy_assign_is_perm T ltb). Qed.
Print Assumptions C14_greedy_is_perm.

(* optimal assignment (strict-improvement scan over itertools.permutations) *)
Theorem C14_optimal_is_perm (T : Type) (ltb : T -> T -> bool) :
  (forall x, ltb x x = false) ->
  (forall x y z, ltb x y = true -> ltb y z = true -> ltb x z = true) ->
  (forall x y z, ltb x y = false -> ltb y z = false -> ltb x z = false) ->
  forall (K : nat) (Sc : nat -> nat -> T) (add : T -> T -> T) (zero : T),
  Permutation (optimal_assign ltb K Sc add zero) (seq 0 K).
Proof. exact (@optimal_assign_is_perm T ltb). Qed.
Print Assumptions C14_optimal_is_perm.

(* integer score matrices are masked with the dtype minimum `bottom` instead of -inf: still a
   permutation whenever every entry is above `bottom` ... *)
Theorem C14_greedy_int_is_perm (K : nat) (Sc : nat -> nat -> Z) (bottom : Z) :
  (forall i j, i < K -> j < K -> (bottom < Sc i j)%Z) ->
  greedy_assign_int K Sc bottom = greedy_assign Z.ltb K Sc /\
  Permutation (greedy_assign_int K Sc bottom) (seq 0 K).
Proof. exact (fun H => conj (greedy_assign_int_agrees K Sc bottom H) (greedy_assign_int_is_perm K Sc bottom H)). Qed.
Print Assumptions C14_greedy_int_is_perm.
(* ... but an integer matrix containing the dtype minimum defeats the masking (boundary of the
   implementation, outside the property's quantifier over real masks; reported, see fix proposal) *)
Theorem C14_greedy_int_min_refuted :
  exists (K : nat) (Sc : nat -> nat -> Z) (bottom : Z), ~ Permutation (greedy_assign_int K Sc bottom) (seq 0 K).
Proof. exact greedy_int_min_refuted. Qed.
Print Assumptions C14_greedy_int_min_refuted.

(* aligned[k, f] = mask[mapping[k, f], f] *)
Theorem C14_apply_mapping_spec (A : Type) (mask : nat -> nat -> A) (mapping : nat -> nat -> nat) (k f : nat) :
  apply_mapping mask mapping k f = mask (mapping k f) f.
Proof. exact (apply_mapping_spec mask mapping k f). Qed.
Print Assumptions C14_apply_mapping_spec.

(* per bin the multiset of rows is preserved *)
Theorem C14_apply_mapping_multiset (A : Type) (K : nat) (mask : nat -> nat -> A) (mapping : nat -> nat -> nat) (f : nat) :
  Permutation (map (fun k => mapping k f) (seq 0 K)) (seq 0 K) ->
  Permutation (map (fun k => apply_mapping mask mapping k f) (seq 0 K)) (map (fun k => mask k f) (seq 0 K)).
Proof. exact (apply_mapping_multiset K mask mapping f). Qed.
Print Assumptions C14_apply_mapping_multiset.

(* sums over the class axis are preserved (every bin f, every frame t) *)
Theorem C14_apply_mapping_colsum (K : nat) (mask : nat -> nat -> nat -> R) (mapping : nat -> nat -> nat) (f t : nat) :
  Permutation (map (fun k => mapping k f) (seq 0 K)) (seq 0 K) ->
  bsum RO K (fun k => apply_mapping mask mapping k f t) = bsum RO K (fun k => mask k f t).
Proof. exact (apply_mapping_colsum K mask mapping f t). Qed.
Print Assumptions C14_apply_mapping_colsum.

(* composing two permutations (mapping[:, f] = mapping[reverse_permutation, f]) gives a permutation *)
Theorem C14_compose_is_perm (K : nat) (p q : list nat) :
  Permutation p (seq 0 K) -> Permutation q (seq 0 K) -> Permutation (permute 0 p q) (seq 0 K).
Proof. exact (permute_is_perm K p q). Qed.
Print Assumptions C14_compose_is_perm.

Section Aligners.
Context {T : Type} (P : ops T).
Hypothesis lt_irrefl : forall x, oltb P x x = false.
Hypothesis lt_trans : forall x y z, oltb P x y = true -> oltb P y z = true -> oltb P x z = true.
Hypothesis lt_negtrans : forall x y z, oltb P x y = false -> oltb P y z = false -> oltb P x z = false.
Variable tiny : T.

(* OraclePermutationAlignment: every per-bin mapping is a permutation, any metric, both algorithms *)
Theorem C14_oracle_is_perm (m : metric) (g : bool) (K Tn : nat) (mask ref : list (@bin T)) :
  Forall (fun p => Permutation p (seq 0 K)) (oracle P tiny m g K Tn mask ref).
Proof. exact (oracle_is_perm P lt_irrefl lt_trans lt_negtrans tiny m g K Tn mask ref). Qed.

(* GreedyPermutationAlignment: the recursively composed mapping is a permutation in every bin *)
Theorem C14_greedy_chain_is_perm (m : metric) (K Tn : nat) (mask : list (@bin T)) :
  Forall (fun p => Permutation p (seq 0 K)) (greedy_chain P tiny m K Tn mask) /\
  length (greedy_chain P tiny m K Tn mask) = length mask.
Proof. exact (conj (greedy_chain_is_perm P lt_irrefl lt_trans lt_negtrans tiny m K Tn mask)
                   (greedy_chain_length P tiny m K Tn mask)). Qed.

(* DHTVPermutationAlignment: for every plan (degenerate ones included), every number of iterations,
   every metric and algorithm, every mask with K rows per bin *)
Theorem C14_dhtv_is_perm (m : metric) (g : bool) (K Tn : nat) (pl : list (nat * nat * nat)) (mask : list (@bin T)) :
  Forall (fun b => length b = K) mask ->
  Forall (fun p => Permutation p (seq 0 K)) (dhtv P tiny m g K Tn pl mask) /\
  length (dhtv P tiny m g K Tn pl mask) = length mask.
Proof. exact (dhtv_is_perm P lt_irrefl lt_trans lt_negtrans tiny m g K Tn pl mask). Qed.

(* hence the aligned mask has, per bin, exactly the input rows *)
Theorem C14_dhtv_rows_preserved (m : metric) (g : bool) (K Tn : nat) (pl : list (nat * nat * nat)) (mask : list (@bin T)) :
  Forall (fun b => length b = K) mask ->
  Forall2 (@Permutation _) (apply_bins (dhtv P tiny m g K Tn pl mask) mask) mask.
Proof. exact (dhtv_rows_preserved P lt_irrefl lt_trans lt_negtrans tiny m g K Tn pl mask). Qed.
Theorem C14_greedy_chain_rows_preserved (m : metric) (K Tn : nat) (mask : list (@bin T)) :
  Forall (fun b => length b = K) mask ->
  Forall2 (@Permutation _) (apply_bins (greedy_chain P tiny m K Tn mask) mask) mask.
Proof. exact (greedy_chain_rows_preserved P lt_irrefl lt_trans lt_negtrans tiny m K Tn mask). Qed.
Theorem C14_oracle_rows_preserved (m : metric) (g : bool) (K Tn : nat) (mask ref : list (@bin T)) :
  Forall (fun b => length b = K) mask -> length ref = length mask ->
  Forall2 (@Permutation _) (apply_bins (oracle P tiny m g K Tn mask ref) mask) mask.
Proof. exact (oracle_rows_preserved P lt_irrefl lt_trans lt_negtrans tiny m g K Tn mask ref). Qed.

(* apply_inline_permutation_alignment: affiliation and quadratic form are reordered by one and the
   same per-bin permutation *)
Theorem C14_inline_align_same_mapping_dhtv (m : metric) (g : bool) (K Tn : nat) (pl : list (nat * nat * nat))
    (aff quad : list (@bin T)) :
  Forall (fun b => length b = K) aff ->
  let mp := dhtv P tiny m g K Tn pl aff in
  inline_align (dhtv P tiny m g K Tn pl) aff quad = (apply_bins mp aff, apply_bins mp quad) /\
  Forall (fun p => Permutation p (seq 0 K)) mp /\ length mp = length aff.
Proof. exact (inline_align_dhtv P lt_irrefl lt_trans lt_negtrans tiny m g K Tn pl aff quad). Qed.
Theorem C14_inline_align_same_mapping_greedy (m : metric) (K Tn : nat) (aff quad : list (@bin T)) :
  let mp := greedy_chain P tiny m K Tn aff in
  inline_align (greedy_chain P tiny m K Tn) aff quad = (apply_bins mp aff, apply_bins mp quad) /\
  Forall (fun p => Permutation p (seq 0 K)) mp /\ length mp = length aff.
Proof. exact (inline_align_greedy_chain P lt_irrefl lt_trans lt_negtrans tiny m K Tn aff quad). Qed.
(* aligned[f][k] = input[f][mapping[f][k]] for both *)
Theorem C14_apply_bins_spec (A : Type) (maps : list (list nat)) (bins : list (list (list A))) (f k : nat) :
  f < length maps -> f < length bins -> k < length (nth f maps []) ->
  nth k (nth f (apply_bins maps bins) []) [] = nth (nth k (nth f maps []) 0) (nth f bins []) [].
Proof. exact (apply_bins_nth maps bins f k). Qed.

(* integration models: the permutation chosen per frequency is a permutation and never worse than
   the identity (nor than any other permutation) under its own criterion *)
Theorem C14_inline_pa_is_perm (K Tn : nat) (spatial spectral : nat -> nat -> T) :
  Permutation (ipa_select P tiny K Tn spatial spectral) (seq 0 K).
Proof. exact (ipa_select_is_perm P lt_irrefl lt_trans lt_negtrans tiny K Tn spatial spectral). Qed.
Theorem C14_inline_pa_not_worse (K Tn : nat) (spatial spectral : nat -> nat -> T) :
  oltb P (ipa_aux P tiny K Tn spatial spectral (ipa_select P tiny K Tn spatial spectral))
         (ipa_aux P tiny K Tn spatial spectral (seq 0 K)) = false.
Proof. exact (ipa_not_worse P lt_irrefl lt_trans lt_negtrans tiny K Tn spatial spectral (seq 0 K) (is_perm_id K)). Qed.
End Aligners.
Print Assumptions C14_oracle_is_perm.
Print Assumptions C14_greedy_chain_is_perm.
Print Assumptions C14_dhtv_is_perm.
Print Assumptions C14_dhtv_rows_preserved.
Print Assumptions C14_greedy_chain_rows_preserved.
Print Assumptions C14_oracle_rows_preserved.
Print Assumptions C14_inline_align_same_mapping_dhtv.
Print Assumptions C14_inline_align_same_mapping_greedy.
Print Assumptions C14_apply_bins_spec.
Print Assumptions C14_inline_pa_is_perm.
Print Assumptions C14_inline_pa_not_worse.

(* non-vacuity: the real-number instance meets the order hypotheses of the section above, and so does
   Z with Z.ltb (the instance the exhaustive integer-grid correspondence runs on) *)
Example C14_hypotheses_satisfiable :
  (forall x, oltb RO x x = false) /\
  (forall x y z, oltb RO x y = true -> oltb RO y z = true -> oltb RO x z = true) /\
  (forall x y z, oltb RO x y = false -> oltb RO y z = false -> oltb RO x z = false) /\
  greedy_assign Z.ltb 3 (fun i j => nth j (nth i [[11; 10; 0]; [4; 5; 10]; [6; 0; 5]] []) 0)%Z = [0; 2; 1] /\
  optimal_assign Z.ltb 3 (fun i j => nth j (nth i [[11; 10; 0]; [4; 5; 10]; [6; 0; 5]] []) 0)%Z Z.add 0%Z = [1; 2; 0].
Proof. split; [exact lt_irrefl_RO|]. split; [exact lt_trans_RO|]. split; [exact lt_negtrans_RO|].
  split; vm_compute; reflexivity. Qed.
