(* C17 -- the documented pipeline separates a separable multi-channel scene.
   PROVED: (1) class bookkeeping of the chain: frequency mapping followed by global mapping is the composed mapping
   applied to the original rows, and a mapping inverting the injected permutation field restores the rows;
   (2) conditional leakage bound: with noise PSD sum_j sig_j a_j a_j^H + nu I and a distortionless zero-forcing
   competitor v, every interferer's output power under the MVDR vector is <= nu |v|^2; all interferers plus the output noise
   together are <= nu |v|^2 as well, hence SINR >= sig_k/(nu |v|^2), and the threshold form (level >= T nu |v|^2 gives ratio >= T).
   The stages themselves are the objects of C01, C08, C10-C16.  NOT proved: the 99 % / 30 dB thresholds -- statistical
   statements about random scenes; explored by running the whole chain on generated scenes (harness/props/c17.py). *)
From Coq Require Import Reals Lra.
From Coquelicot Require Import Coquelicot.
From PB Require Import Ops CLin Model.PSD Proofs.PSD Model.Beamformer Proofs.Beamformer Proofs.Pipeline.
Open Scope C_scope.

Theorem C17_pipeline_class_bookkeeping (X : Type) (mask : nat -> nat -> X) (m1 m2 : nat -> nat -> nat) (k f : nat) :
  apply_map X (apply_map X mask m1) m2 k f = apply_map X mask (fun k f => m1 (m2 k f) f) k f.
Proof. exact (apply_map_compose X mask m1 m2 k f). Qed.
Print Assumptions C17_pipeline_class_bookkeeping.

Theorem C17_alignment_restores_rows (X : Type) (mask : nat -> nat -> X) (pi m : nat -> nat -> nat) (K : nat) :
  (forall k f, (k < K)%nat -> pi (m k f) f = k) ->
  forall k f, (k < K)%nat -> apply_map X (fun k f => mask (pi k f) f) m k f = mask k f.
Proof. exact (apply_map_inverse X mask pi m K). Qed.
Print Assumptions C17_alignment_restores_rows.

(* the ideal mask-based noise PSD: v^H Phi v = sum_j sig_j |v^H a_j|^2 + nu |v|^2, Hermitian, positive semidefinite *)
Theorem C17_noise_psd_form (D J : nat) (sig : nat -> R) (aj : nat -> vec) (nu : R) (u : vec) :
  form D (noise_psd J sig aj nu) u u
  = RtoC (rsum J (fun j => sig j * (Cmod (dot D u (aj j)) * Cmod (dot D u (aj j))))%R
          + nu * rsum D (fun i => Cmod (u i) * Cmod (u i))%R)%R.
Proof. exact (noise_form D J sig aj nu u). Qed.
Print Assumptions C17_noise_psd_form.

Theorem C17_mvdr_leakage_bound_partial (D J : nat) (sig : nat -> R) (aj : nat -> vec) (nu : R) (a x v : vec) (j : nat) :
  (forall j, (j < J)%nat -> (0 <= sig j)%R) -> (0 <= nu)%R ->
  (forall i, (i < D)%nat -> mv D (noise_psd J sig aj nu) x i = a i) -> dot D a x <> 0 ->
  dot D v a = 1 -> (forall j, (j < J)%nat -> dot D v (aj j) = 0) -> (j < J)%nat ->
  (sig j * (Cmod (dot D (mvdr RO D a x) (aj j)) * Cmod (dot D (mvdr RO D a x) (aj j)))
   <= nu * rsum D (fun i => Cmod (v i) * Cmod (v i)))%R.
Proof. intros Hs Hn Hx Hc Hv1 Hv0 Hj. exact (mvdr_leakage_bound D J sig aj nu Hs Hn a x v Hx Hc Hv1 Hv0 j Hj). Qed.
Print Assumptions C17_mvdr_leakage_bound_partial.

(* all interferers together plus the white-noise term: total residual <= nu |v|^2 (the per-interferer bound above is a
   corollary; the factor K-1 in the SIR estimate disappears) *)
Theorem C17_mvdr_total_leakage_bound_partial (D J : nat) (sig : nat -> R) (aj : nat -> vec) (nu : R) (a x v : vec) :
  (forall j, (j < J)%nat -> (0 <= sig j)%R) -> (0 <= nu)%R ->
  (forall i, (i < D)%nat -> mv D (noise_psd J sig aj nu) x i = a i) -> dot D a x <> 0 ->
  dot D v a = 1 -> (forall j, (j < J)%nat -> dot D v (aj j) = 0) ->
  (rsum J (fun j => sig j * (Cmod (dot D (mvdr RO D a x) (aj j)) * Cmod (dot D (mvdr RO D a x) (aj j))))
   + nu * rsum D (fun i => Cmod (mvdr RO D a x i) * Cmod (mvdr RO D a x i))
   <= nu * rsum D (fun i => Cmod (v i) * Cmod (v i)))%R.
Proof. intros Hs Hn Hx Hc Hv1 Hv0. exact (mvdr_total_leakage_bound D J sig aj nu Hs Hn a x v Hx Hc Hv1 Hv0). Qed.
Print Assumptions C17_mvdr_total_leakage_bound_partial.

(* threshold form of the 30 dB clause for the ideal PSDs: target power sk >= T * nu |v|^2 implies
   output target power >= T * (output interference + output noise); T = 1000 is 30 dB *)
Theorem C17_mvdr_sir_threshold_partial (D J : nat) (sig : nat -> R) (aj : nat -> vec) (nu : R) (a x v : vec) (T sk : R) :
  (forall j, (j < J)%nat -> (0 <= sig j)%R) -> (0 <= nu)%R ->
  (forall i, (i < D)%nat -> mv D (noise_psd J sig aj nu) x i = a i) -> dot D a x <> 0 ->
  dot D v a = 1 -> (forall j, (j < J)%nat -> dot D v (aj j) = 0) ->
  (0 <= T)%R -> (T * (nu * rsum D (fun i => Cmod (v i) * Cmod (v i))) <= sk)%R ->
  (T * (rsum J (fun j => sig j * (Cmod (dot D (mvdr RO D a x) (aj j)) * Cmod (dot D (mvdr RO D a x) (aj j))))
        + nu * rsum D (fun i => Cmod (mvdr RO D a x i) * Cmod (mvdr RO D a x i)))
   <= sk * (Cmod (dot D (mvdr RO D a x) a) * Cmod (dot D (mvdr RO D a x) a)))%R.
Proof. intros Hs Hn Hx Hc Hv1 Hv0 HT Hl. exact (mvdr_sir_threshold D J sig aj nu Hs Hn a x v Hx Hc Hv1 Hv0 T sk HT Hl). Qed.
Print Assumptions C17_mvdr_sir_threshold_partial.

Example C17_hypotheses_satisfiable : (0 <= 1)%R /\ (forall j, (j < 2)%nat -> (0 <= (fun _ : nat => 3) j)%R).
Proof. split. lra. intros; lra. Qed.

Definition e0 : vec := fun i => match i with O => 1 | _ => 0 end.
Definition e1 : vec := fun i => match i with S O => 1 | _ => 0 end.
Lemma C17_Ceq (a b : C) : fst a = fst b -> snd a = snd b -> a = b.
Proof. destruct a, b; simpl; intros; subst; reflexivity. Qed.
(* non-vacuity: D = 2, one interferer e1 of power 3, unit white noise, target e0: the solve contract, the non-zero
   denominator and the zero-forcing competitor hypotheses of the three leakage theorems hold together *)
Example C17_leakage_hypotheses_instance : 
  (forall j, (j < 1)%nat -> (0 <= (fun _ : nat => 3) j)%R) /\ (0 <= 1)%R /\
  (forall i, (i < 2)%nat -> mv 2 (noise_psd 1 (fun _ => 3%R) (fun _ => e1) 1) e0 i = e0 i) /\ dot 2 e0 e0 <> 0 /\
  dot 2 e0 e0 = 1 /\ (forall j, (j < 1)%nat -> dot 2 e0 ((fun _ => e1) j) = 0).
Proof.
  split; [intros; lra|]. split; [lra|].
  assert (Hd : dot 2 e0 e0 = 1). { unfold dot, e0; simpl. apply C17_Ceq; simpl; ring. }
  split.
  { intros i Hi. destruct i as [|[|i]]; [| |exfalso; inversion Hi as [|? H1]; inversion H1 as [|? H2]; inversion H2];
    unfold mv, noise_psd, wpsd, scaled_id, e0, e1; simpl; apply C17_Ceq; simpl; ring. }
  split. { rewrite Hd. intros E. apply (f_equal fst) in E. simpl in E. lra. }
  split. { exact Hd. }
  intros j Hj. unfold dot, e0, e1; simpl. apply C17_Ceq; simpl; ring.
Qed.
