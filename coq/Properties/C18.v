(* C18 -- oracle masks satisfy their defining identities.
   Model: Model/Masks.v, instance RO with true division dvR = odiv RO (= Rdiv by conversion);
   proofs: Proofs/Masks.v.  One time-frequency point (K sources, D pooled sensors) or one group of
   points sharing a threshold per statement; eps, weight, fractions are the code's arguments. *)
From Coq Require Import Reals Lra List Permutation Sorted.
From PB Require Import Ops CLin Model.Masks Proofs.Masks.
Import ListNotations.
Open Scope R_scope.

(* ideal binary mask: one-hot at j = the FIRST source of maximal sensor-pooled power *)
Theorem C18_ibm_one_hot_argmax (K D : nat) (x : nat -> nat -> R * R) :
  (0 < K)%nat ->
  let j := argmax_upto RO (pred K) (pooled RO D x) in
  (j < K)%nat /\ ibm RO K D x j = 1 /\ (forall k, k <> j -> ibm RO K D x k = 0) /\
  rsum K (ibm RO K D x) = 1 /\
  (forall k, (k < K)%nat -> pooled RO D x k <= pooled RO D x j) /\
  (forall k, (k < j)%nat -> pooled RO D x k < pooled RO D x j).
Proof. exact (ibm_one_hot_argmax K D x). Qed.
Print Assumptions C18_ibm_one_hot_argmax.

(* Wiener-like mask: in [0,1], sums to P/(P+eps) with P the pooled power of the mixture components,
   so the deficit to one is at most eps/P wherever the mixture has power *)
Theorem C18_wiener_range_sum (K D : nat) (x : nat -> nat -> R * R) (eps : R) :
  0 < eps ->
  let P := rsum K (pooled RO D x) in
  (forall k, (k < K)%nat -> 0 <= wiener RO dvR K D x eps k <= 1) /\
  rsum K (wiener RO dvR K D x eps) = P / (P + eps) /\
  (0 < P -> 0 <= 1 - rsum K (wiener RO dvR K D x eps) <= eps / P).
Proof. exact (wiener_range_sum K D x eps). Qed.
Print Assumptions C18_wiener_range_sum.

(* ideal ratio mask: the same with magnitudes *)
Theorem C18_irm_range_sum (K : nat) (s : nat -> R * R) (eps : R) :
  0 < eps ->
  let P := rsum K (mag RO s) in
  (forall k, (k < K)%nat -> 0 <= irm RO dvR K s eps k <= 1) /\
  rsum K (irm RO dvR K s eps) = P / (P + eps) /\
  (0 < P -> 0 <= 1 - rsum K (irm RO dvR K s eps) <= eps / P).
Proof. exact (irm_range_sum K s eps). Qed.
Print Assumptions C18_irm_range_sum.

(* ideal complex mask times the sum of the sources reproduces each source (complex product) *)
Theorem C18_icm_reconstructs (K : nat) (s : nat -> R * R) (k : nat) :
  mix RO K s <> (0, 0) -> cmul RO (icm RO dvR K s k) (mix RO K s) = s k.
Proof. exact (icm_reconstructs K s k). Qed.
Print Assumptions C18_icm_reconstructs.

(* what the code computes for the phase-sensitive mask, |s|/(|y|+eps) cos(angle s - angle y), is the
   real part of the complex mask times |y|/(|y|+eps)  (exactly the real part for eps = 0) *)
Theorem C18_psm_is_re_icm (K : nat) (s : nat -> R * R) (eps : R) (k : nat) :
  0 <= eps -> mix RO K s <> (0, 0) ->
  psm RO dvR K s eps k
  = fst (icm RO dvR K s k) * (cabs RO (mix RO K s) / (cabs RO (mix RO K s) + eps)).
Proof. exact (psm_is_re_icm K s eps k). Qed.
Print Assumptions C18_psm_is_re_icm.

(* all-zero input: every eps-guarded mask divides by exactly eps <> 0 and returns 0; the binary mask is
   one-hot at source 0 *)
Theorem C18_masks_zero_input (K D : nat) (x : nat -> nat -> R * R) (s : nat -> R * R) (eps : R) (k : nat) :
  0 < eps -> (0 < K)%nat -> (forall k d, x k d = (0, 0)) -> (forall k, s k = (0, 0)) ->
  wiener RO dvR K D x eps k = 0 /\ irm RO dvR K s eps k = 0 /\ iam RO dvR K s eps k = 0 /\
  psm RO dvR K s eps k = 0 /\
  bsum RO K (pooled RO D x) + eps = eps /\ bsum RO K (mag RO s) + eps = eps /\ cabs RO (mix RO K s) + eps = eps /\
  ibm RO K D x k = if Nat.eqb k 0 then 1 else 0.
Proof. exact (masks_zero_input K D x s eps k). Qed.
Print Assumptions C18_masks_zero_input.

(* quantile mask on one group l of magnitudes: level 1/2 + w/2 exactly at the points above the numpy
   linear percentile (1-q)*100 (q >= 0), resp. below the percentile |q|*100 (q < 0); 1/2 - w/2 elsewhere *)
Theorem C18_quantile_levels (l : list R) (q w : R) (i : nat) :
  (i < length l)%nat ->
  let thr := quantile_threshold RO dvR l q in let xi := nth i l 0 in
  nth i (quantile_mask RO dvR l q w) 0
  = (if quantile_hit RO dvR l q xi then / 2 + w / 2 else / 2 - w / 2) /\
  (0 <= q -> thr = percentile RO dvR l ((1 - q) * 100) /\ (quantile_hit RO dvR l q xi = true <-> thr < xi)) /\
  (q < 0 -> thr = percentile RO dvR l (Rabs q * 100) /\ (quantile_hit RO dvR l q xi = true <-> xi < thr)).
Proof. exact (quantile_levels l q w i). Qed.
Print Assumptions C18_quantile_levels.

(* the modelled sort yields the order statistics of the group *)
Theorem C18_sort_order_statistics (l : list R) :
  Permutation (sort_asc RO l) l /\ Sorted Rle (sort_asc RO l).
Proof. exact (conj (sort_asc_perm l) (sort_asc_sorted l)). Qed.
Print Assumptions C18_sort_order_statistics.

(* the modelled percentile is a genuine quantile: with v = (n-1) qp/100 and lo = floor v it lies between
   the order statistics lo and lo+1 and equals the order statistic lo when v is an integer *)
Theorem C18_percentile_bracket (l : list R) (qp : R) :
  l <> [] -> 0 <= qp <= 100 ->
  let a := sort_asc RO l in let n := length l in let lo := bfloor RO (n - 1) (vidx n qp) in
  (lo <= n - 1)%nat /\ INR lo <= vidx n qp /\ ((lo < n - 1)%nat -> vidx n qp < INR lo + 1) /\
  nth lo a 0 <= percentile RO dvR l qp <= nth (Nat.min (S lo) (n - 1)) a 0 /\
  (vidx n qp = INR lo -> percentile RO dvR l qp = nth lo a 0).
Proof. exact (percentile_bracket l qp). Qed.
Print Assumptions C18_percentile_bracket.

(* hence at most n-1-floor((n-1)(1-q)) points are high for q >= 0, at most floor((n-1)|q|)+1 for q < 0
   (no lower bound holds: with tied magnitudes no point may be strictly above the threshold) *)
Theorem C18_quantile_high_count (l : list R) (q : R) :
  l <> [] -> -1 <= q <= 1 ->
  let n := length l in
  (0 <= q -> (count_if (fun x => quantile_hit RO dvR l q x) l
              <= n - 1 - bfloor RO (n - 1) (vidx n ((1 - q) * 100)))%nat) /\
  (q < 0 -> (count_if (fun x => quantile_hit RO dvR l q x) l
              <= Nat.min (S (bfloor RO (n - 1) (vidx n (Rabs q * 100)))) (n - 1))%nat).
Proof. exact (quantile_high_count l q). Qed.
Print Assumptions C18_quantile_high_count.

(* Lorenz mask on one group l of powers.  lorenz_table l lists the powers strongest first, each with
   its cumulative share of the total power.  The threshold is the weakest listed point whose share is
   below the fraction; level 1/2 + w/2 exactly at the points strictly stronger than it. *)
Theorem C18_lorenz_levels (l : list R) (frac w thr : R) (i : nat) :
  lorenz_threshold RO dvR l frac = Some thr -> (i < length l)%nat ->
  (exists pq, In pq (lorenz_table l) /\ snd pq < frac /\ fst pq = thr) /\
  (forall pq, In pq (lorenz_table l) -> snd pq < frac -> thr <= fst pq) /\
  exists m, lorenz_mask RO dvR l frac w = Some m /\
    nth i m 0 = if Rlt_dec thr (nth i l 0) then / 2 + w / 2 else / 2 - w / 2.
Proof. exact (lorenz_levels l frac w thr i). Qed.
Print Assumptions C18_lorenz_levels.

Theorem C18_lorenz_table (l : list R) (i : nat) :
  (i < length l)%nat ->
  let sorted := rev (sort_asc RO l) in
  nth i (lorenz_table l) (0, 0) = (nth i sorted 0, lsumR (firstn (S i) sorted) / lsumR sorted) /\
  Permutation sorted l /\ Sorted Rle (sort_asc RO l).
Proof. exact (fun H => conj (lorenz_table_spec l i H) (lorenz_table_sorted l)). Qed.
Print Assumptions C18_lorenz_table.

(* no threshold (numpy raises on the empty selection) only if no listed point has a share below the
   fraction, i.e. already the strongest point carries the Lorenz fraction *)
Theorem C18_lorenz_no_threshold (l : list R) (frac : R) :
  lorenz_threshold RO dvR l frac = None -> forall pq, In pq (lorenz_table l) -> ~ snd pq < frac.
Proof. exact (lorenz_no_threshold l frac). Qed.
Print Assumptions C18_lorenz_no_threshold.

(* axis handling of the quantile / Lorenz masks: numpy.moveaxis' order algorithm, for every rank <= 6 and
   every tuple of distinct axes: moving them to the last axes (-1, -2, ...) and back composes to the
   identity transposition (both ways round), each moved axis lands at its destination and the others
   keep their order.
   _partial: ranks above 6 are not covered (exhaustive evaluation inside Coq, not an induction), and the
   equivariance of the complete mask functions (source_axis / sensor_axis / keepdims plumbing) is not a
   theorem: the model is per point and the layout is addressed by the harness, which checks
   equivariance under transposition on every generated case. *)
Theorem C18_axis_moveaxis_roundtrip_partial (nd : nat) (src : list nat) :
  (nd <= 6)%nat -> NoDup src -> (forall a, In a src -> (a < nd)%nat) ->
  roundtrip_ok nd src = true /\ places_ok nd src = true.
Proof. exact (moveaxis_roundtrip nd src). Qed.
Print Assumptions C18_axis_moveaxis_roundtrip_partial.

(* non-vacuity: a concrete point / group meets the hypotheses *)
Example C18_hypotheses_satisfiable :
  mix RO 2 (fun k => (1 + INR k, 1)) <> (0, 0) /\
  lorenz_threshold RO dvR [1] 2 = Some 1.
Proof. split.
  - unfold mix. cbn [csumO cadd c0 fst snd oadd o0 RO INR]. intros E. inversion E. lra.
  - unfold lorenz_threshold, sort_asc. cbn [fold_right insert_sorted rev app cumsum_from map combine fold_left snd fst].
    destruct (sltb RO _ 2) eqn:E. reflexivity.
    apply sltb_RO_false in E. exfalso. revert E. unfold lsum, odiv. cbn [fold_left oadd omul oinv o0 RO].
    replace (0 + 1) with 1 by ring. rewrite Rinv_1. lra. Qed.
