(* C11 -- MVDR, LCMV and Wiener beamformers satisfy their constraints and optimality.
   Model: Model/Beamformer.v (mvdr, herm_sym, lcmv, souden, wmwf, ref_snr, ref_channel), instance RO;
   proofs: Proofs/Beamformer.v.  The results of np.linalg.solve / stable_solve are universally
   quantified and constrained by the solve contract ("A x = b on 0..D-1", [solves]); every statement is
   per bin / per source, hence for every stack.  posdef D A: A Hermitian and u^H A u > 0 for u <> 0.
   eps is the implementation's guard (np.finfo.tiny), any real that is not active. *)
From Coq Require Import Reals Lra.
From Coquelicot Require Import Coquelicot.
From PB Require Import Ops CLin Model.Beamformer Proofs.Beamformer.
Open Scope C_scope.

(* w = x / (a^H x), x = solve(0.5 (Pn + Pn^H), a):  w^H a = 1 *)
Theorem C11_mvdr_distortionless (D : nat) (Pn : mat) (a x : vec) :
  (forall i, (i < D)%nat -> mv D (herm_sym RO Pn) x i = a i) -> posdef D (herm_sym RO Pn) -> nonzero D a ->
  dot D (mvdr RO D a x) a = 1.
Proof. exact (mvdr_code_distortionless D Pn a x). Qed.
Print Assumptions C11_mvdr_distortionless.

(* the normaliser a^H Phi^-1 a is real and positive *)
Theorem C11_mvdr_denominator_pos (D : nat) (A : mat) (a x : vec) :
  (forall i, (i < D)%nat -> mv D A x i = a i) -> posdef D A -> nonzero D a ->
  snd (dot D a x) = 0%R /\ (0 < fst (dot D a x))%R.
Proof. exact (mvdr_denominator_pos D A a x). Qed.
Print Assumptions C11_mvdr_denominator_pos.

(* no distortionless vector has a smaller noise output power *)
Theorem C11_mvdr_optimal (D : nat) (Pn : mat) (a x v : vec) :
  (forall i, (i < D)%nat -> mv D (herm_sym RO Pn) x i = a i) -> posdef D (herm_sym RO Pn) -> nonzero D a ->
  dot D v a = 1 ->
  (fst (form D (herm_sym RO Pn) (mvdr RO D a x) (mvdr RO D a x)) <= fst (form D (herm_sym RO Pn) v v))%R.
Proof. exact (mvdr_code_optimal D Pn a x v). Qed.
Print Assumptions C11_mvdr_optimal.

(* Pythagoras form of the optimality: v^H A v = w^H A w + (v-w)^H A (v-w) *)
Theorem C11_mvdr_optimal_gap (D : nat) (A : mat) (a x v : vec) :
  (forall i, (i < D)%nat -> mv D A x i = a i) ->
  hermitian A -> (forall u, 0 <= fst (form D A u u))%R -> dot D a x <> 0 -> dot D v a = 1 ->
  form D A v v = form D A (mvdr RO D a x) (mvdr RO D a x)
                 + form D A (fun i => v i - mvdr RO D a x i) (fun i => v i - mvdr RO D a x i)
  /\ (fst (form D A (mvdr RO D a x) (mvdr RO D a x)) <= fst (form D A v v))%R.
Proof. exact (fun Hx => mvdr_optimal D A a x Hx v). Qed.
Print Assumptions C11_mvdr_optimal_gap.

(* the symmetrisation changes nothing on a Hermitian matrix *)
Theorem C11_mvdr_symmetrisation (Pn : mat) : hermitian (herm_sym RO Pn) /\ (hermitian Pn -> herm_sym RO Pn = Pn).
Proof. exact (conj (herm_sym_hermitian Pn) (herm_sym_fix Pn)). Qed.
Print Assumptions C11_mvdr_symmetrisation.

(* LCMV: a_k^H w = r_k (so w^H a_k = conj r_k = r_k for the real responses of the docstring) *)
Theorem C11_lcmv_constraints (D K : nat) (a X : nat -> vec) (t r : vec) :
  (forall k, (k < K)%nat -> csum K (fun l => lcmv_gram RO D a X k l * t l) = r k) ->
  forall k, (k < K)%nat ->
  dot D (a k) (lcmv RO K X t) = r k /\ dot D (lcmv RO K X t) (a k) = Cconj (r k).
Proof. exact (lcmv_constraints D K a X t r). Qed.
Print Assumptions C11_lcmv_constraints.

(* rank-one target sigma a a^H: Souden MVDR = conj(a_ref) * MVDR vector, and w^H a = a_ref *)
Theorem C11_souden_rank1 (D : nat) (Pn : mat) (a x : vec) (sigma : R) (phi : mat) (eps : R) (r i : nat) :
  posdef D Pn -> (0 < sigma)%R -> nonzero D a ->
  (forall i, (i < D)%nat -> mv D Pn x i = a i) -> solves D Pn phi (r1psd a sigma) ->
  (eps <= sigma * fst (dot D a x))%R -> (r < D)%nat -> (i < D)%nat ->
  souden RO D phi eps r i = Cconj (a r) * mvdr RO D a x i.
Proof. exact (fun H1 H2 H3 H4 H5 => souden_rank1 D Pn a x sigma phi H1 H2 H3 H4 H5 eps r i). Qed.
Print Assumptions C11_souden_rank1.

Theorem C11_souden_rank1_reference (D : nat) (Pn : mat) (a x : vec) (sigma : R) (phi : mat) (eps : R) (r : nat) :
  posdef D Pn -> (0 < sigma)%R -> nonzero D a ->
  (forall i, (i < D)%nat -> mv D Pn x i = a i) -> solves D Pn phi (r1psd a sigma) ->
  (eps <= sigma * fst (dot D a x))%R -> (r < D)%nat ->
  dot D (souden RO D phi eps r) a = a r.
Proof. exact (fun H1 H2 H3 H4 H5 => souden_rank1_reference D Pn a x sigma phi H1 H2 H3 H4 H5 eps r). Qed.
Print Assumptions C11_souden_rank1_reference.

(* WMWF solves the normal equations (Phi_xx + mu Phi_nn) w = Phi_xx e_ref ... *)
Theorem C11_wmwf_rank1_normal_eq (D : nat) (Pn : mat) (a x : vec) (sigma : R) (phi : mat) (mu : R) (r i : nat) :
  posdef D Pn -> (0 < sigma)%R -> nonzero D a ->
  (forall i, (i < D)%nat -> mv D Pn x i = a i) -> solves D Pn phi (r1psd a sigma) ->
  (0 <= mu)%R -> (r < D)%nat -> (i < D)%nat ->
  mv D (fun p q => r1psd a sigma p q + RtoC mu * Pn p q) (wmwf RO D phi mu r) i = r1psd a sigma i r.
Proof. exact (fun H1 H2 H3 H4 H5 => wmwf_rank1_normal_eq D Pn a x sigma phi H1 H2 H3 H4 H5 mu r i). Qed.
Print Assumptions C11_wmwf_rank1_normal_eq.

(* ... and for mu > 0 it is their only solution, i.e. the minimiser (Phi_xx + mu Phi_nn)^-1 Phi_xx e_ref *)
Theorem C11_wmwf_rank1_unique (D : nat) (Pn : mat) (a x : vec) (sigma : R) (phi : mat) (mu : R) (r : nat) (w' : vec) :
  posdef D Pn -> (0 < sigma)%R -> nonzero D a ->
  (forall i, (i < D)%nat -> mv D Pn x i = a i) -> solves D Pn phi (r1psd a sigma) ->
  (0 < mu)%R -> (r < D)%nat ->
  (forall i, (i < D)%nat ->
     mv D (fun p q => r1psd a sigma p q + RtoC mu * Pn p q) w' i = r1psd a sigma i r) ->
  veq D w' (wmwf RO D phi mu r).
Proof. exact (wmwf_rank1_unique D Pn a x sigma phi mu r w'). Qed.
Print Assumptions C11_wmwf_rank1_unique.

(* invariance to positive scaling of either PSD (any target PSD, not only rank one) *)
Theorem C11_souden_scale_inv (D : nat) (Pn Px phi phi' : mat) (c d eps : R) (r i : nat) :
  posdef D Pn -> (0 < c)%R -> (0 < d)%R -> solves D Pn phi Px ->
  solves D (fun i k => RtoC c * Pn i k) phi' (fun i j => RtoC d * Px i j) ->
  (0 < Cmod (tr D phi))%R -> (eps <= Cmod (tr D phi))%R -> (eps <= d / c * Cmod (tr D phi))%R ->
  (i < D)%nat -> (r < D)%nat ->
  souden RO D phi' eps r i = souden RO D phi eps r i.
Proof. exact (souden_scale_inv D Pn Px phi phi' c d eps r i). Qed.
Print Assumptions C11_souden_scale_inv.

Theorem C11_wmwf_joint_scale_inv (D : nat) (Pn Px phi phi' : mat) (c mu : R) (r i : nat) :
  posdef D Pn -> (0 < c)%R -> solves D Pn phi Px ->
  solves D (fun i k => RtoC c * Pn i k) phi' (fun i j => RtoC c * Px i j) ->
  (i < D)%nat -> (r < D)%nat ->
  wmwf RO D phi' mu r i = wmwf RO D phi mu r i.
Proof. exact (wmwf_joint_scale_inv D Pn Px phi phi' c mu r i). Qed.
Print Assumptions C11_wmwf_joint_scale_inv.

(* mu = 0: WMWF is Souden MVDR (trace of Pn^-1 Px real, guard not active) *)
Theorem C11_wmwf_mu0_is_souden (D : nat) (phi : mat) (eps : R) (r i : nat) :
  snd (tr D phi) = 0%R -> (0 < eps)%R -> (eps <= fst (tr D phi))%R ->
  wmwf RO D phi 0 r i = souden RO D phi eps r i.
Proof. exact (wmwf_mu0_is_souden D phi eps r i). Qed.
Print Assumptions C11_wmwf_mu0_is_souden.

(* the automatically chosen reference channel maximises the library's output-SNR criterion *)
Theorem C11_ref_channel_argmax (D Fn : nat) (Wm Px Pn : nat -> nat -> nat -> C) (eps : R) (r : nat) :
  (r < D)%nat ->
  (ref_channel RO D Fn Wm Px Pn eps < D)%nat /\
  (ref_snr RO D Fn Wm Px Pn eps r <= ref_snr RO D Fn Wm Px Pn eps (ref_channel RO D Fn Wm Px Pn eps))%R.
Proof. exact (ref_channel_argmax D Fn Wm Px Pn eps r). Qed.
Print Assumptions C11_ref_channel_argmax.

Theorem C11_ref_snr_is_output_snr (D Fn : nat) (Wm Px Pn : nat -> nat -> nat -> C) (eps : R) (r : nat) :
  ref_snr RO D Fn Wm Px Pn eps r
  = fst (csum Fn (fun f => form D (Px f) (fun d => Wm f d r) (fun d => Wm f d r))
         / cmax_lex RO (csum Fn (fun f => form D (Pn f) (fun d => Wm f d r) (fun d => Wm f d r))) (RtoC eps)).
Proof. exact (ref_snr_RO D Fn Wm Px Pn eps r). Qed.
Print Assumptions C11_ref_snr_is_output_snr.

(* non-vacuity: a 1x1 positive definite matrix, a non-zero steering vector and its solve result *)
Example C11_hypotheses_satisfiable :
  let Pn : mat := fun _ _ => RtoC 2 in let a : vec := fun _ => RtoC 1 in let x : vec := fun _ => RtoC (/ 2) in
  posdef 1 Pn /\ nonzero 1 a /\ (forall i, (i < 1)%nat -> mv 1 Pn x i = a i).
Proof.
  cbv zeta. split; [split|split].
  - intros i j. rewrite Cconj_R. reflexivity.
  - intros u [i [Hi Hu]]. assert (i = 0)%nat by (apply PeanoNat.Nat.lt_1_r; exact Hi). subst i.
    unfold form, dot, mv; cbn [csum]. destruct (u 0%nat) as [p q].
    assert (p <> 0 \/ q <> 0)%R.
    { destruct (Req_dec p 0) as [->|]; auto. right. intros ->. apply Hu. reflexivity. }
    unfold Cmult, Cplus, Cconj, RtoC; simpl. nra.
  - exists 0%nat. split; [constructor|]. intros E. apply RtoC_inj in E. lra.
  - intros i Hi. unfold mv; cbn [csum]. rewrite <- RtoC_mult, Cplus_0_l. f_equal. field.
Qed.
