(* C19 -- SI-SDR and invasive SXR metrics obey their defining identities.
   Model: Model/Metrics.v (si_sdr, get_snr, set_snr_noise, in_*, out_*, rk_table), instance RO;
   proofs: Proofs/Metrics.v.  Rlog10 x = ln x / ln 10, RdB x = 10 Rlog10 x.
   Linear-domain statements are about the ratios S/(I+N), S/I, S/N whose dB values the code returns. *)
From Coq Require Import String.
From Coq Require Import Reals Lra List.
From PB Require Import Ops CLin Model.Metrics Proofs.Metrics.
Import ListNotations.
Open Scope R_scope.

(* ---- si_sdr ---- *)
Theorem C19_si_sdr_def (Tn : nat) (s e : nat -> R) :
  si_sdr RO Tn s e
  = 10 * Rlog10 (rsum Tn (fun t => (r_alpha Tn s e * s t) * (r_alpha Tn s e * s t))
                 / rsum Tn (fun t => (e t - r_alpha Tn s e * s t) * (e t - r_alpha Tn s e * s t)))
  /\ r_alpha Tn s e = rsum Tn (fun t => s t * e t) / rsum Tn (fun t => s t * s t).
Proof. exact (si_sdr_def Tn s e). Qed.
Print Assumptions C19_si_sdr_def.

(* alpha = <s, s_hat>/<s, s> minimises |s_hat - a s|^2 over all a, and is the only minimiser *)
Theorem C19_si_sdr_alpha_optimal (Tn : nat) (s e : nat -> R) (a : R) :
  0 < rsum Tn (fun t => s t * s t) ->
  rsum Tn (fun t => (e t - r_alpha Tn s e * s t) * (e t - r_alpha Tn s e * s t))
  <= rsum Tn (fun t => (e t - a * s t) * (e t - a * s t)).
Proof. exact (si_alpha_optimal Tn s e a). Qed.
Print Assumptions C19_si_sdr_alpha_optimal.

Theorem C19_si_sdr_alpha_unique (Tn : nat) (s e : nat -> R) (a : R) :
  0 < rsum Tn (fun t => s t * s t) ->
  rsum Tn (fun t => (e t - a * s t) * (e t - a * s t))
  = rsum Tn (fun t => (e t - r_alpha Tn s e * s t) * (e t - r_alpha Tn s e * s t)) ->
  a = r_alpha Tn s e.
Proof. exact (si_alpha_unique Tn s e a). Qed.
Print Assumptions C19_si_sdr_alpha_unique.

Theorem C19_si_sdr_scale_estimate (Tn : nat) (s e : nat -> R) (c : R) :
  c <> 0 -> rsum Tn (fun t => s t * s t) <> 0 ->
  rsum Tn (fun t => (e t - r_alpha Tn s e * s t) * (e t - r_alpha Tn s e * s t)) <> 0 ->
  si_sdr RO Tn s (fun t => c * e t) = si_sdr RO Tn s e.
Proof. exact (si_sdr_scale_est Tn s e c). Qed.
Print Assumptions C19_si_sdr_scale_estimate.

Theorem C19_si_sdr_scale_reference (Tn : nat) (s e : nat -> R) (c : R) :
  c <> 0 -> rsum Tn (fun t => s t * s t) <> 0 ->
  si_sdr RO Tn (fun t => c * s t) e = si_sdr RO Tn s e.
Proof. exact (si_sdr_scale_ref Tn s e c). Qed.
Print Assumptions C19_si_sdr_scale_reference.

(* ---- input_sxr ---- *)
(* Sp[k,d], Np[d]: any non-negative power tables (the code's S = mean_t images^2, N = mean_t noise^2) *)
Theorem C19_input_sxr_harmonic (K D : nat) (Sp : nat -> nat -> R) (Np : nat -> R)
    (avgc : bool) (k d : nat) :
  0 < in_Sa RO D Sp avgc k d -> 0 < in_Ia RO K D Sp avgc k d -> 0 < in_Na RO D Np avgc d ->
  / in_sdr_lin RO K D Sp Np avgc k d
  = / in_sir_lin RO K D Sp avgc k d + / in_snr_lin RO D Sp Np avgc k d.
Proof. exact (input_harmonic K D Sp Np avgc k d). Qed.
Print Assumptions C19_input_sxr_harmonic.

Theorem C19_input_sxr_sdr_le_min (K D : nat) (Sp : nat -> nat -> R) (Np : nat -> R)
    (avgc : bool) (k d : nat) :
  0 < in_Sa RO D Sp avgc k d -> 0 < in_Ia RO K D Sp avgc k d -> 0 < in_Na RO D Np avgc d ->
  in_sdr_lin RO K D Sp Np avgc k d
    <= Rmin (in_sir_lin RO K D Sp avgc k d) (in_snr_lin RO D Sp Np avgc k d)
  /\ in_sdr RO K D Sp Np avgc false k d
    <= Rmin (in_sir RO K D Sp avgc false k d) (in_snr RO K D Sp Np avgc false k d).
Proof. exact (fun H1 H2 H3 => conj (input_sdr_le_min K D Sp Np avgc k d H1 H2 H3)
                                    (input_sdr_le_min_dB K D Sp Np avgc k d H1 H2 H3)). Qed.
Print Assumptions C19_input_sxr_sdr_le_min.

(* common rescaling of all signals: every returned value (any averaging option) is unchanged *)
Theorem C19_input_sxr_common_scale (K D Tn : nat) (img : nat -> nat -> nat -> R) (noi : nat -> nat -> R)
    (c : R) (avgc avgs : bool) (k d : nat) :
  let Sp := in_S RO Tn img in let Np := in_N RO Tn noi in
  let Spc := in_S RO Tn (fun k d t => c * img k d t) in let Npc := in_N RO Tn (fun d t => c * noi d t) in
  c <> 0 ->
  (forall k, in_Ia RO K D Sp avgc k d + in_Na RO D Np avgc d <> 0) ->
  (forall k, in_Ia RO K D Sp avgc k d <> 0) -> in_Na RO D Np avgc d <> 0 ->
  in_sdr RO K D Spc Npc avgc avgs k d = in_sdr RO K D Sp Np avgc avgs k d /\
  in_sir RO K D Spc avgc avgs k d = in_sir RO K D Sp avgc avgs k d /\
  in_snr RO K D Spc Npc avgc avgs k d = in_snr RO K D Sp Np avgc avgs k d.
Proof. exact (input_common_scale_dB K D Tn img noi c avgc avgs k d). Qed.
Print Assumptions C19_input_sxr_common_scale.

(* all images scaled by c: SNR x c^2 in the linear domain, SIR unchanged *)
Theorem C19_input_sxr_image_scale (K D Tn : nat) (img : nat -> nat -> nat -> R) (noi : nat -> nat -> R)
    (c : R) (avgc : bool) (k d : nat) :
  let Sp := in_S RO Tn img in let Np := in_N RO Tn noi in
  let Spc := in_S RO Tn (fun k d t => c * img k d t) in
  c <> 0 -> in_Ia RO K D Sp avgc k d <> 0 ->
  in_snr_lin RO D Spc Np avgc k d = c * c * in_snr_lin RO D Sp Np avgc k d /\
  in_sir_lin RO K D Spc avgc k d = in_sir_lin RO K D Sp avgc k d.
Proof. exact (input_image_scale K D Tn img noi c avgc k d). Qed.
Print Assumptions C19_input_sxr_image_scale.

(* in dB: SNR + 20 log10 c, per source and source-averaged *)
Theorem C19_input_sxr_image_scale_dB (K D Tn : nat) (img : nat -> nat -> nat -> R) (noi : nat -> nat -> R)
    (c : R) (avgc : bool) (k d : nat) :
  let Sp := in_S RO Tn img in let Np := in_N RO Tn noi in
  let Spc := in_S RO Tn (fun k d t => c * img k d t) in
  0 < c -> 0 < in_Sa RO D Sp avgc k d -> 0 < in_Na RO D Np avgc d ->
  in_snr RO K D Spc Np avgc false k d = in_snr RO K D Sp Np avgc false k d + 20 * Rlog10 c.
Proof. exact (input_image_scale_dB K D Tn img noi c avgc k d). Qed.
Print Assumptions C19_input_sxr_image_scale_dB.

Theorem C19_input_sxr_image_scale_dB_averaged (K D Tn : nat) (img : nat -> nat -> nat -> R)
    (noi : nat -> nat -> R) (c : R) (avgc : bool) (d : nat) :
  let Sp := in_S RO Tn img in let Np := in_N RO Tn noi in
  let Spc := in_S RO Tn (fun k d t => c * img k d t) in
  0 < c -> (0 < K)%nat -> (forall k, 0 < in_Sa RO D Sp avgc k d) -> 0 < in_Na RO D Np avgc d ->
  in_snr RO K D Spc Np avgc true 0 d = in_snr RO K D Sp Np avgc true 0 d + 20 * Rlog10 c.
Proof. exact (input_image_scale_dB_avg K D Tn img noi c avgc d). Qed.
Print Assumptions C19_input_sxr_image_scale_dB_averaged.

(* ---- output_sxr ---- *)
Theorem C19_output_sxr_harmonic (Ks : nat) (Sm : nat -> nat -> R) (Nv : nat -> R) (sel : list nat) (k : nat) :
  0 < out_SS Sm sel k -> 0 < out_II RO Ks Sm sel k -> 0 < out_NN Nv sel k ->
  / out_sdr_lin RO Ks Sm Nv sel k = / out_sir_lin RO Ks Sm sel k + / out_snr_lin RO Sm Nv sel k
  /\ out_sdr_lin RO Ks Sm Nv sel k <= Rmin (out_sir_lin RO Ks Sm sel k) (out_snr_lin RO Sm Nv sel k).
Proof. exact (fun H1 H2 H3 => conj (output_harmonic Ks Sm Nv sel k H1 H2 H3)
                                    (output_sdr_le_min Ks Sm Nv sel k H1 H2 H3)). Qed.
Print Assumptions C19_output_sxr_harmonic.

(* the enumeration is exactly the set of injective selections of Ks outputs out of Kt *)
Theorem C19_output_selections_complete (Ks Kt : nat) (l : list nat) :
  In l (sels Ks (seq 0 Kt)) <-> (length l = Ks /\ NoDup l /\ forall j, In j l -> (j < Kt)%nat).
Proof. exact (valid_sel_iff Ks Kt l). Qed.
Print Assumptions C19_output_selections_complete.

(* the chosen selection is one of them and captures the maximal source power *)
Theorem C19_output_selection_max (Ks Kt : nat) (Sm : nat -> nat -> R) (l : list nat) :
  (Ks <= Kt)%nat -> valid_sel Ks Kt l ->
  valid_sel Ks Kt (out_select RO Ks Kt Sm) /\
  mutual RO Ks Sm l <= mutual RO Ks Sm (out_select RO Ks Kt Sm).
Proof. exact (fun H Hl => conj (out_select_valid Ks Kt Sm H) (out_select_max Ks Kt Sm l Hl)). Qed.
Print Assumptions C19_output_selection_max.

(* renaming the outputs by a bijection sigma (inverse tau) of {0..Kt-1}: with a unique maximiser the
   renamed problem selects the renamed outputs and returns the same S, I, N per source, hence the
   same SDR, SIR, SNR *)
Theorem C19_output_order_invariant (Ks Kt : nat) (Sm : nat -> nat -> R) (Nv : nat -> R)
    (sigma tau : nat -> nat) (k : nat) :
  (forall j, (j < Kt)%nat -> (sigma j < Kt)%nat) -> (forall j, (j < Kt)%nat -> (tau j < Kt)%nat) ->
  (forall j, (j < Kt)%nat -> sigma (tau j) = j) -> (forall j, (j < Kt)%nat -> tau (sigma j) = j) ->
  (Ks <= Kt)%nat -> (k < Ks)%nat ->
  (forall l, valid_sel Ks Kt l -> l <> out_select RO Ks Kt Sm ->
             mutual RO Ks Sm l < mutual RO Ks Sm (out_select RO Ks Kt Sm)) ->
  let Sm' := fun k j => Sm k (sigma j) in let Nv' := fun j => Nv (sigma j) in
  map sigma (out_select RO Ks Kt Sm') = out_select RO Ks Kt Sm /\
  out_SS Sm' (out_select RO Ks Kt Sm') k = out_SS Sm (out_select RO Ks Kt Sm) k /\
  out_II RO Ks Sm' (out_select RO Ks Kt Sm') k = out_II RO Ks Sm (out_select RO Ks Kt Sm) k /\
  out_NN Nv' (out_select RO Ks Kt Sm') k = out_NN Nv (out_select RO Ks Kt Sm) k.
Proof. exact (fun H1 H2 H3 H4 H5 Hk Hu =>
  conj (out_select_perm Ks Kt Sm sigma tau H1 H2 H3 H4 H5 Hu)
       (output_perm_invariant Ks Kt Sm Nv sigma tau H1 H2 H3 H4 H5 k Hk Hu)). Qed.
Print Assumptions C19_output_order_invariant.

Theorem C19_output_sxr_image_scale (Ks Kt Tn : nat) (img : nat -> nat -> nat -> R) (noi : nat -> nat -> R)
    (c : R) (k : nat) :
  c <> 0 -> out_II RO Ks (out_S RO Tn img) (out_sel RO Ks Kt Tn img) k <> 0 ->
  let imgc := fun k j t => c * img k j t in
  out_sel RO Ks Kt Tn imgc = out_sel RO Ks Kt Tn img /\
  out_snr_lin RO (out_S RO Tn imgc) (out_N RO Tn noi) (out_sel RO Ks Kt Tn imgc) k
  = c * c * out_snr_lin RO (out_S RO Tn img) (out_N RO Tn noi) (out_sel RO Ks Kt Tn img) k /\
  out_sir_lin RO Ks (out_S RO Tn imgc) (out_sel RO Ks Kt Tn imgc) k
  = out_sir_lin RO Ks (out_S RO Tn img) (out_sel RO Ks Kt Tn img) k.
Proof. exact (fun Hc HI => conj (out_sel_scale Ks Kt Tn img c Hc) (output_image_scale Ks Kt Tn img noi c Hc k HI)). Qed.
Print Assumptions C19_output_sxr_image_scale.

Theorem C19_output_sxr_common_scale (Ks Kt Tn : nat) (img : nat -> nat -> nat -> R) (noi : nat -> nat -> R)
    (c : R) (k : nat) :
  c <> 0 ->
  out_II RO Ks (out_S RO Tn img) (out_sel RO Ks Kt Tn img) k <> 0 ->
  out_NN (out_N RO Tn noi) (out_sel RO Ks Kt Tn img) k <> 0 ->
  out_II RO Ks (out_S RO Tn img) (out_sel RO Ks Kt Tn img) k
    + out_NN (out_N RO Tn noi) (out_sel RO Ks Kt Tn img) k <> 0 ->
  let imgc := fun k j t => c * img k j t in let noic := fun j t => c * noi j t in
  out_sdr_lin RO Ks (out_S RO Tn imgc) (out_N RO Tn noic) (out_sel RO Ks Kt Tn imgc) k
  = out_sdr_lin RO Ks (out_S RO Tn img) (out_N RO Tn noi) (out_sel RO Ks Kt Tn img) k /\
  out_sir_lin RO Ks (out_S RO Tn imgc) (out_sel RO Ks Kt Tn imgc) k
  = out_sir_lin RO Ks (out_S RO Tn img) (out_sel RO Ks Kt Tn img) k /\
  out_snr_lin RO (out_S RO Tn imgc) (out_N RO Tn noic) (out_sel RO Ks Kt Tn imgc) k
  = out_snr_lin RO (out_S RO Tn img) (out_N RO Tn noi) (out_sel RO Ks Kt Tn img) k.
Proof. exact (fun Hc => output_common_scale Ks Kt Tn img noi c Hc k). Qed.
Print Assumptions C19_output_sxr_common_scale.

(* ---- set_snr then get_snr ---- *)
Theorem C19_set_get_snr (n : nat) (x nz : nat -> R) (snr : R) :
  0 < power RO n x -> 0 < power RO n nz ->
  get_snr RO n x (set_snr_noise RO n x nz snr) = snr.
Proof. exact (set_get_snr n x nz snr). Qed.
Print Assumptions C19_set_get_snr.

(* ---- kind of the returned value ---- *)
(* documented_kind: False -> tuple, True -> {'sdr','sir','snr'}, non-empty prefix p -> {p+'sdr',...} *)
Theorem C19_return_kind_input (rd : rdarg) (k : rkind) :
  documented_kind rd = Some k -> input_return_kind rd = k.
Proof. exact (input_return_kind_table rd k). Qed.
Print Assumptions C19_return_kind_input.

(* the decision table yields the documented kinds for ANY outer test that agrees with Python
   truthiness (the repaired output_sxr: `if return_dict:`) *)
Theorem C19_return_kind_truthiness_test (outer : rdarg -> bool) (rd : rdarg) (k : rkind) :
  (forall r, outer r = rd_truthy r) -> documented_kind rd = Some k -> rk_table outer rd = k.
Proof. exact (rk_table_truthy outer rd k). Qed.
Print Assumptions C19_return_kind_truthiness_test.

(* output_sxr (outer test `if return_dict:` since the fix of sxr_module.py:263) follows the same table *)
Theorem C19_return_kind_output (rd : rdarg) (k : rkind) :
  documented_kind rd = Some k -> output_return_kind rd = k.
Proof. exact (rk_table_truthy output_outer_test rd k (fun r => eq_refl)). Qed.
Print Assumptions C19_return_kind_output.

(* the former test `return_dict is True` returned the tuple for every prefix string *)
Theorem C19_return_kind_is_true_test_refuted :
  exists (p : string) (k : rkind), documented_kind (RdStr p) = Some k /\ ~ rk_table rd_is_true (RdStr p) = k.
Proof. exact (ex_intro _ "output_"%string (ex_intro _ _ (conj eq_refl
         (fun H : rk_table rd_is_true (RdStr "output_") = KDict "output_sdr" "output_sir" "output_snr" =>
            match H in (_ = y) return (match y with KTuple => True | _ => False end) with eq_refl => I end)))). Qed.
Print Assumptions C19_return_kind_is_true_test_refuted.

(* non-vacuity: concrete signals meet the hypotheses of the input_sxr theorems *)
Example C19_hypotheses_satisfiable :
  let img := fun (k d t : nat) => 1 + INR k in
  let noi := fun (d t : nat) => 1 in
  let Sp := in_S RO 2 img in let Np := in_N RO 2 noi in
  0 < in_Sa RO 1 Sp false 0 0 /\ 0 < in_Ia RO 2 1 Sp false 0 0 /\ 0 < in_Na RO 1 Np false 0.
Proof. unfold in_Sa, in_Ia, in_Na, avg_ch, in_I, in_S, in_N. cbn [bsum Nat.eqb].
  rewrite !power_RO. cbn [rsum oadd o0 RO INR]. repeat split; lra. Qed.
