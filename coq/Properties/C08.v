(* C08 -- trainers return the documented weighted estimators and EM alternates them.
   Models: Model/Trainers.v (single-distribution M-steps), Model/Posterior.v (weights), Model/EM.v (loop).
   Oracle parts (eigh, Watson spline inverse, Bingham least squares) are not proved: their contracts are
   evaluated per case by the correspondence check (Run/C08.v, harness/props/c08.py). *)
From Coq Require Import Reals Lra List.
From Coquelicot Require Import Coquelicot.
From PB Require Import Ops CLin Model.Trainers Model.Posterior Model.EM Model.GMMLoop Proofs.Posterior Proofs.Trainers Proofs.EM.
Open Scope R_scope.

(* an integer saliency s_n acts exactly like repeating observation n s_n times, for every weighted sum ... *)
Theorem C08_integer_saliency_is_repetition (A : Type) (phi : A -> R) (obs : list A) (sal : list nat) :
  length obs = length sal ->
  rsuml (map phi (expand A obs sal)) = rsuml (map (fun p => INR (snd p) * phi (fst p)) (combine obs sal)).
Proof. exact (wsum_repeat A phi obs sal). Qed.
Print Assumptions C08_integer_saliency_is_repetition.

(* ... hence for every estimator built from finitely many weighted sums (all trainers' M-steps and the weight update) *)
Theorem C08_estimators_respect_repetition (A B : Type) (F : list R -> B) (phis : list (A -> R)) obs sal :
  length obs = length sal ->
  F (map (fun phi => rsuml (map phi (expand A obs sal))) phis)
  = F (map (fun phi => rsuml (map (fun p => INR (snd p) * phi (fst p)) (combine obs sal))) phis).
Proof. exact (estimator_repeat A B F phis obs sal). Qed.
Print Assumptions C08_estimators_respect_repetition.

Theorem C08_model_sums_are_list_sums (n : nat) (f : nat -> R) : rsum n f = rsuml (map f (seq 0 n)).
Proof. exact (rsum_as_list n f). Qed.
Print Assumptions C08_model_sums_are_list_sums.

(* Gaussian: weighted sample mean (residuals sum to zero), pooled weighted scatter, the three covariance types *)
Theorem C08_gaussian_mean (N : nat) (tiny : R) (y : nat -> nat -> R) (s : nat -> R) (d : nat) :
  0 < tiny -> tiny <= rsum N s ->
  g_mean RO N tiny y s d = rsum N (fun n => s n * y n d) / rsum N s /\
  rsum N (fun n => s n * (y n d - g_mean RO N tiny y s d)) = 0.
Proof. intros Ht Hd. split. eapply g_mean_spec; eauto. eapply g_mean_centered; eauto. Qed.
Print Assumptions C08_gaussian_mean.

Theorem C08_gaussian_covariances (D N : nat) (tiny : R) (y : nat -> nat -> R) (s : nat -> R) :
  0 < tiny -> tiny <= rsum N s -> (0 < D)%nat ->
  (forall d e, g_cov_full RO N tiny y s d e
     = rsum N (fun n => s n * ((y n d - g_mean RO N tiny y s d) * (y n e - g_mean RO N tiny y s e))) / rsum N s) /\
  (forall d, g_cov_diag RO N tiny y s d = rsum N (fun n => s n * (y n d - g_mean RO N tiny y s d) ^ 2) / rsum N s) /\
  g_cov_sph RO D N tiny y s = rsum D (fun d => g_cov_diag RO N tiny y s d) / INR D.
Proof. intros Ht Hd HD. split; [|split].
  intros; eapply g_cov_full_spec; eauto. intros; eapply g_cov_diag_spec; eauto. eapply g_cov_sph_spec; eauto. Qed.
Print Assumptions C08_gaussian_covariances.

Theorem C08_gaussian_covariance_symmetric_psd (D N : nat) (tiny : R) (y : nat -> nat -> R) (s : nat -> R) (v : nat -> R) :
  0 < tiny -> tiny <= rsum N s -> (forall n, (n < N)%nat -> 0 <= s n) ->
  (forall d e, g_cov_full RO N tiny y s d e = g_cov_full RO N tiny y s e d) /\
  0 <= rsum D (fun d => rsum D (fun e => v d * g_cov_full RO N tiny y s d e * v e)).
Proof. intros Ht Hd Hs. split. intros; eapply g_cov_full_sym; eauto. eapply g_cov_full_psd; eauto. Qed.
Print Assumptions C08_gaussian_covariance_symmetric_psd.

(* vMF: normalised weighted resultant, clipped Banerjee concentration *)
Theorem C08_vmf_mean_unit (D N : nat) (tiny : R) (y : nat -> nat -> R) (s : nat -> R) :
  0 < tiny -> tiny <= rnorm RO D (vmf_r RO N y s) ->
  rsum D (fun d => vmf_mean RO D N tiny y s d * vmf_mean RO D N tiny y s d) = 1.
Proof. intros Ht Hn. eapply vmf_mean_unit; eauto. Qed.
Print Assumptions C08_vmf_mean_unit.

Theorem C08_vmf_concentration (D N : nat) (y : nat -> nat -> R) (s : nat -> R) (kmin kmax : R) :
  kmin <= kmax ->
  let rb := vmf_rbar RO D N y s in
  vmf_kappa RO D N kmin kmax y s = Rmin (Rmax ((rb * INR D - rb ^ 3) / (1 - rb ^ 2)) kmin) kmax
  /\ kmin <= vmf_kappa RO D N kmin kmax y s <= kmax.
Proof. exact (vmf_kappa_spec D N y s kmin kmax). Qed.
Print Assumptions C08_vmf_concentration.

(* complex scatter estimators (complex Gaussian, Watson, cACG numerator) are Hermitian *)
Theorem C08_scatter_hermitian (N : nat) (z : nat -> nat -> C) (c : nat -> R) : hermitian (scatter RO N z c).
Proof. exact (scatter_hermitian N z c). Qed.
Print Assumptions C08_scatter_hermitian.

(* the cACG update is eigenvalue-normalised: the spectrum handed on does not depend on the scale of the scatter,
   lies in [floor, 1] and has maximum exactly 1 *)
Theorem C08_cacg_eigenvalue_normalisation (D' : nat) (tiny floor : R) (ev : nat -> R) :
  0 < tiny -> tiny <= bmax RO D' ev -> 0 <= floor <= 1 ->
  (forall c i, 0 < c -> tiny <= c * bmax RO D' ev ->
     eig_post_eigenvalue RO tiny D' floor (fun j => c * ev j) i = eig_post_eigenvalue RO tiny D' floor ev i) /\
  (forall i, (i <= D')%nat -> floor <= eig_post_eigenvalue RO tiny D' floor ev i <= 1) /\
  exists i, (i <= D')%nat /\ eig_post_eigenvalue RO tiny D' floor ev i = 1.
Proof. intros Ht Hm Hf. split.
  intros c i Hc Hcm. exact (eig_post_eigenvalue_scale D' tiny floor ev c i Hc Hm Hcm Ht).
  exact (eig_post_eigenvalue_domain D' tiny floor ev Ht Hm Hf). Qed.
Print Assumptions C08_cacg_eigenvalue_normalisation.

(* mixture weights: (saliency-weighted) mean affiliation over the tied cells, a distribution over classes *)
Theorem C08_mixture_weights (K' G : nat) (a : nat -> nat -> R) (s : nat -> R) (eps : R) :
  (0 < G)%nat -> (forall k g, (k < S K')%nat -> (g < G)%nat -> 0 <= a k g) ->
  ((forall g, (g < G)%nat -> rsum (S K') (fun k => a k g) = 1) ->
     (forall k, (k < S K')%nat -> 0 <= weight_mean RO G a k) /\ rsum (S K') (weight_mean RO G a) = 1) /\
  ((forall g, (g < G)%nat -> 0 <= s g) -> 0 < rsum (S K') (wsum RO G a s) ->
     (forall k, (k < S K')%nat -> 0 <= weight_sal RO K' G a s eps k) /\ rsum (S K') (weight_sal RO K' G a s eps) = 1).
Proof. intros HG Ha. split. intros Hn. eapply weight_mean_valid; eauto. intros Hs Hp. eapply weight_sal_valid; eauto. Qed.
Print Assumptions C08_mixture_weights.

(* a fit of n iterations is exactly n alternations: M, then (E; M) n-1 times; and it can be continued *)
Theorem C08_fit_is_alternation (Theta Gamma : Type) (E : Theta -> Gamma) (M : Gamma -> Theta) (n : nat) (g0 : Gamma) :
  fit E M (S n) g0 = Nat.iter n (fun t => M (E t)) (M g0) /\
  ((1 <= n)%nat -> fit E M (S n) g0 = M (E (fit E M n g0))).
Proof. split. exact (fit_is_alternation Theta Gamma E M n g0). exact (fit_succ Theta Gamma E M n g0). Qed.
Print Assumptions C08_fit_is_alternation.

(* concrete instance without any oracle: the whole diagonal-covariance GMM fit of Model/GMMLoop.v (which the
   correspondence check runs for n iterations and compares with GMMTrainer.fit(..., iterations=n)) is that alternation *)
Theorem C08_gmm_fit_is_alternation (K' D N : nat) (tiny tinyw pi2 : R) (y : nat -> nat -> R) (n : nat) (g0 : list (list R)) :
  gmm_fit RO K' D N tiny tinyw pi2 y (S n) g0
  = Nat.iter n (fun t => gmm_M RO K' D N tiny tinyw y (gmm_E RO K' D N tiny pi2 y t)) (gmm_M RO K' D N tiny tinyw y g0).
Proof. exact (fit_is_alternation _ _ (gmm_E RO K' D N tiny pi2 y) (gmm_M RO K' D N tiny tinyw y) n g0). Qed.
Print Assumptions C08_gmm_fit_is_alternation.

Example C08_hypotheses_satisfiable :
  let s := fun n : nat => match n with O => 2 | _ => 1 end in / 1000 <= rsum 3 s /\ (forall n, (n < 3)%nat -> 0 <= s n).
Proof. cbn [rsum]. split. lra. intros n _. destruct n; lra. Qed.
