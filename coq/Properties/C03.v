(* C03 -- the true partition of separable data is a stable EM fixed point.
   PROVED (exact case, one E o M step from the hard true partition; every K, D, N, every gain field, Proofs/Separable.v):
   the class scatter is rank one with the prototype as its only non-trivial eigenvector; under the eigh contract the
   model's cACG quadratic form is 1 for the own class and c2 + (1-c2)/eps > 1 for another class; hence the MAP class of
   the next E-step is the true one for cACG (weights condition pi_k/pi_j < q^D), Watson and vMF (kappa (1-al) > ln(pi_k/pi_j)).
   NOT PROVED (names carry _partial): perturbed prototypes, blurred starts, iterations >= 2, Gaussian / Bingham /
   integration models -- these clauses are explored by evaluating the property's own predicate on every generated scene. *)
From Coq Require Import Reals Lra.
From Coquelicot Require Import Coquelicot.
From PB Require Import Ops CLin Model.Trainers Proofs.Trainers Proofs.Separable Model.LogPdf Proofs.LogPdf.

Open Scope C_scope.
(* M-step on the true partition: observations z_n = u_n a with |u_n| = 1 (per-frame gains after normalisation) *)
Theorem C03_scatter_rank_one_partial (N D : nat) (a u : nat -> C) (c : nat -> R) :
  (forall n, (n < N)%nat -> Cmod (u n) = 1%R) ->
  (forall d e, scatter RO N (fun n d => u n * a d) c d e = RtoC (rsum N c) * (a d * Cconj (a e))) /\
  (forall d, mv D (scatter RO N (fun n d => u n * a d) c) a d = RtoC (rsum N c) * dot D a a * a d) /\
  (forall v, dot D a v = 0 -> forall d, mv D (scatter RO N (fun n d => u n * a d) c) v d = 0).
Proof. intros Hu. split; [|split].
  exact (scatter_rank_one N a u c Hu). exact (scatter_rank_one_eigen N a u c Hu D). exact (scatter_rank_one_kernel N a u c Hu D). Qed.
Print Assumptions C03_scatter_rank_one_partial.

(* Parseval for the eigenbasis returned by eigh (contract: U U^H = I) *)
Theorem C03_parseval (D : nat) (U : nat -> nat -> C) (z : nat -> C) :
  (forall g d, (g < D)%nat -> (d < D)%nat ->
     csum D (fun e => U g e * Cconj (U d e)) = if Nat.eqb g d then 1 else 0) ->
  csum D (fun e => coef D U z e * Cconj (coef D U z e)) = csum D (fun d => z d * Cconj (z d)).
Proof. intros HU. exact (parseval D U HU z). Qed.
Print Assumptions C03_parseval.

Open Scope R_scope.
(* the MODEL's cACG quadratic form for spectrum (1, eps, ..., eps): c2 + (1 - c2)/eps with c2 the squared cosine between
   the unit observation and the top eigenvector *)
Theorem C03_cacg_quadratic_form_rank1_partial (D' : nat) (U : nat -> nat -> C) (z : nat -> C) (eps tiny : R) :
  (forall g d, (g < S D')%nat -> (d < S D')%nat ->
     csum (S D') (fun e => (U g e * Cconj (U d e))%C) = if Nat.eqb g d then RtoC 1 else RtoC 0) ->
  rsum (S D') (fun d => Cmod (z d) * Cmod (z d)) = 1 -> 0 < eps < 1 -> 0 < tiny <= 1 ->
  cacg_quad RO (S D') tiny U (fun e => if Nat.eqb e 0 then 1 else eps) z = qform_rank1 eps (cos2 D' U z).
Proof. exact (cacg_quad_rank1 D' U z eps tiny). Qed.
Print Assumptions C03_cacg_quadratic_form_rank1_partial.

Theorem C03_cacg_own_class_smallest_partial (eps c2 : R) : 0 < eps < 1 -> 0 <= c2 < 1 ->
  qform_rank1 eps 1 = 1 /\ 1 < qform_rank1 eps c2.
Proof. exact (cacg_rank1_quadratic eps c2). Qed.
Print Assumptions C03_cacg_own_class_smallest_partial.

(* E-step after that M-step: the true class j has the larger joint log-density than any other class k *)
Theorem C03_cacg_map_true_class_partial (Dn : nat) (eps c2 pij pik ld : R) :
  0 < eps < 1 -> 0 <= c2 < 1 -> 0 < pij -> 0 < pik -> pik / pij < qform_rank1 eps c2 ^ Dn ->
  ln pik + (- INR Dn * ln (qform_rank1 eps c2) - ld) < ln pij + (- INR Dn * ln (qform_rank1 eps 1) - ld).
Proof. exact (cacg_rank1_map Dn eps c2 pij pik ld). Qed.
Print Assumptions C03_cacg_map_true_class_partial.

Theorem C03_cacg_map_true_class_equal_weights_partial (Dn : nat) (eps c2 pij pik ld : R) :
  (1 <= Dn)%nat -> 0 < eps < 1 -> 0 <= c2 < 1 -> 0 < pik <= pij ->
  ln pik + (- INR Dn * ln (qform_rank1 eps c2) - ld) < ln pij + (- INR Dn * ln (qform_rank1 eps 1) - ld).
Proof. exact (cacg_rank1_map_equal_weights Dn eps c2 pij pik ld). Qed.
Print Assumptions C03_cacg_map_true_class_equal_weights_partial.

Theorem C03_watson_vmf_map_true_class_partial (kappa al pij pik lognorm : R) : 0 < pij -> 0 < pik ->
  ln (pik / pij) < kappa * (1 - al) ->
  ln pik + (kappa * al - lognorm) < ln pij + (kappa * 1 - lognorm).
Proof. exact (watson_vmf_map kappa al pij pik lognorm). Qed.
Print Assumptions C03_watson_vmf_map_true_class_partial.

(* GMM with a shared spherical covariance c (the model's gauss_sph_logpdf, i.e. SphericalGaussian.log_pdf): the weighted
   log-pdf of the class with the (weight-adjusted) nearer mean is larger -- MAP class = nearest prototype *)
Theorem C03_gmm_spherical_map_true_class_partial (D : nat) (muj muk y : nat -> R) (c pij pik : R) :
  0 < c -> 0 < pij -> 0 < pik ->
  rsum D (fun i => (y i - muj i) * (y i - muj i)) + 2 * c * ln (pik / pij)
    < rsum D (fun i => (y i - muk i) * (y i - muk i)) ->
  ln pik + gauss_sph_logpdf RO PI D muk y c < ln pij + gauss_sph_logpdf RO PI D muj y c.
Proof. exact (gmm_sph_map D muj muk y c pij pik). Qed.
Print Assumptions C03_gmm_spherical_map_true_class_partial.

(* GMM with a shared diagonal covariance (DiagonalGaussian.log_pdf): classes ranked by weight-adjusted Mahalanobis distance *)
Theorem C03_gmm_diagonal_map_true_class_partial (D : nat) (muj muk y cov : nat -> R) (pij pik : R) :
  (forall i, (i < D)%nat -> 0 < cov i) -> 0 < pij -> 0 < pik ->
  rsum D (fun i => / cov i * ((y i - muj i) * (y i - muj i))) + 2 * ln (pik / pij)
    < rsum D (fun i => / cov i * ((y i - muk i) * (y i - muk i))) ->
  ln pik + gauss_diag_logpdf RO PI D muk y cov < ln pij + gauss_diag_logpdf RO PI D muj y cov.
Proof. exact (gmm_diag_map D muj muk y cov pij pik). Qed.
Print Assumptions C03_gmm_diagonal_map_true_class_partial.

(* non-vacuity: the property's domain |cos| <= 0.3 (c2 <= 0.09), floor 1e-10, D = 2, equal weights *)
Example C03_hypotheses_satisfiable :
  0 < / 10000000000 < 1 /\ 0 <= 9 / 100 < 1 /\ 1 / 1 < qform_rank1 (/ 10000000000) (9 / 100) ^ 2.
Proof. unfold qform_rank1. split; [lra|]. split; [lra|]. simpl. lra. Qed.
