(* C04 -- spatial models depend only on the direction of each observation vector.
   Model: Model/Trainers.v (normalisations, scatter / covariance steps, cACG quadratic form and log-pdf, Watson log-pdf,
   vMF estimator), Model/Posterior.v (posterior column), Model/Mixture.v (the E/M steps of the mixture trainers, the
   Bingham exponent), Model/EM.v (the loop); instance RO; proofs: Proofs/Invariance.v.
   z n d: observation n, coordinate d, as passed to fit / predict (not normalised); c n: the gain of observation n;
   the scaled data are  fun n d => c n * z n d.  Cells n < N are the observations (all leading indices flattened).
   tiny = np.finfo(dtype).tiny.  Oracles (eigh, spline / hyp1f1, least_squares, ive) are universally quantified
   functions: in the two runs they receive EQUAL arguments (C04_mstep_gain_inv, first clause), hence return equal
   results -- that is the whole argument for the fitted parameters.
   Equality "on the cells" (RTn / RGn of Proofs/Invariance.v, written out below): weights and affiliations at every class
   and every cell n < N, class parameters at every class. *)
From Coq Require Import Reals Lra.
From Coquelicot Require Import Coquelicot.
From PB Require Import Ops CLin Model.EM Model.Posterior Model.Trainers Model.Mixture Proofs.Invariance.
Open Scope C_scope.

(* ---- normalisation of a scaled observation: unit(c z) = (c/|c|) unit(z), and c/|c| is a unit phasor ---- *)
Theorem C04_unit_norm_scale (D : nat) (tiny : R) (c : C) (z : nat -> C) (d : nat) :
  c <> 0 ->
  Cmod (c / RtoC (Cmod c)) = 1%R /\
  (cnorm RO D z <> 0%R ->                                  (* eps_style='where': cACG, cACGMM *)
   cunit_where RO D tiny (fun d => c * z d) d = (c / RtoC (Cmod c)) * cunit_where RO D tiny z d) /\
  ((0 < tiny)%R -> (tiny <= cnorm RO D z)%R -> (tiny <= Cmod c * cnorm RO D z)%R ->      (* y / max(||y||, tiny) *)
   cunit_max RO D tiny (fun d => c * z d) d = (c / RtoC (Cmod c)) * cunit_max RO D tiny z d).
Proof. exact (fun Hc => conj (phasor_mod c Hc) (conj (cunit_where_scale D tiny c z d Hc) (cunit_max_scale D tiny c z d Hc))). Qed.
Print Assumptions C04_unit_norm_scale.

(* ---- everything the densities and M-steps read is invariant under a unit phasor per observation ---- *)
Theorem C04_outer_product_and_scatter_phase_inv (N : nat) (y : nat -> nat -> C) (w : nat -> R) (u : nat -> C) (d e : nat) :
  (forall (v a b : C), Cmod v = 1%R -> (v * a) * Cconj (v * b) = a * Cconj b) /\
  ((forall n, (n < N)%nat -> Cmod (u n) = 1%R) ->
   scatter RO N (fun n d => u n * y n d) w d e = scatter RO N y w d e).
Proof. exact (conj outer_phase_inv
   (fun Hu => scatter_phase_inv N y (fun n d => u n * y n d) w w u d e Hu (fun _ _ _ => eq_refl) (fun _ _ => eq_refl))). Qed.
Print Assumptions C04_outer_product_and_scatter_phase_inv.

(* the covariance steps of the trainers built on the scatter: complex Gaussian, Watson / Bingham, cACG (any hermitize) *)
Theorem C04_covariance_steps_phase_inv (N D : nat) (tiny : R) (y : nat -> nat -> C) (s q : nat -> R) (u : nat -> C) (herm : bool) (d e : nat) :
  (forall n, (n < N)%nat -> Cmod (u n) = 1%R) ->
  ccsg_cov RO N tiny (fun n d => u n * y n d) s d e = ccsg_cov RO N tiny y s d e /\
  watson_cov RO N (fun n d => u n * y n d) s d e = watson_cov RO N y s d e /\
  cacg_cov RO D N tiny herm (fun n d => u n * y n d) s q d e = cacg_cov RO D N tiny herm y s q d e.
Proof. exact (cov_steps_phase_inv N D tiny y s q u herm d e). Qed.
Print Assumptions C04_covariance_steps_phase_inv.

Theorem C04_cacg_quadratic_form_and_log_pdf_phase_inv (D : nat) (tiny : R) (U : nat -> nat -> C) (lam : nat -> R) (u : C) (y : nat -> C) :
  Cmod u = 1%R ->
  cacg_quad RO D tiny U lam (fun d => u * y d) = cacg_quad RO D tiny U lam y /\
  cacg_log_pdf RO D tiny U lam (fun d => u * y d) = cacg_log_pdf RO D tiny U lam y.
Proof. exact (fun Hu => conj (cacg_quad_phase_inv D tiny U lam u y Hu) (cacg_log_pdf_phase_inv D tiny U lam u y Hu)). Qed.
Print Assumptions C04_cacg_quadratic_form_and_log_pdf_phase_inv.

(* ComplexWatson.log_pdf / ComplexBingham.log_pdf take unit-norm input and do not renormalise: phase gains only *)
Theorem C04_watson_and_bingham_log_pdf_phase_inv (D : nat) (mode : nat -> C) (kappa lognorm : R)
    (U : nat -> nat -> C) (lam : nat -> R) (lognormb : R) (u : C) (y : nat -> C) :
  Cmod u = 1%R ->
  watson_log_pdf RO D mode kappa lognorm (fun d => u * y d) = watson_log_pdf RO D mode kappa lognorm y /\
  bingham_log_pdf RO D U lam lognormb (fun d => u * y d) = bingham_log_pdf RO D U lam lognormb y.
Proof. exact (fun Hu => conj (watson_log_pdf_phase_inv D mode kappa lognorm u y Hu) (bingham_log_pdf_phase_inv D U lam lognormb u y Hu)). Qed.
Print Assumptions C04_watson_and_bingham_log_pdf_phase_inv.

(* ---- the normalising entry point of the cACG density: any non-zero complex gain ---- *)
Theorem C04_cacg_log_pdf_gain_inv (D : nat) (tiny : R) (U : nat -> nat -> C) (lam : nat -> R) (c : C) (z : nat -> C) :
  c <> 0 -> cnorm RO D z <> 0%R ->
  cacg_log_pdf RO D tiny U lam (cunit_where RO D tiny (fun d => c * z d))
  = cacg_log_pdf RO D tiny U lam (cunit_where RO D tiny z) /\
  cacg_quad RO D tiny U lam (cunit_where RO D tiny (fun d => c * z d))
  = cacg_quad RO D tiny U lam (cunit_where RO D tiny z).
Proof. exact (cacg_log_pdf_gain_inv D tiny U lam c z). Qed.
Print Assumptions C04_cacg_log_pdf_gain_inv.

(* ---- M-step: the matrix handed to eigh is the same matrix (all covariance_norm / hermitize options, both
        normalisation styles), hence so is everything computed from the oracle's answer ---- *)
Theorem C04_mstep_gain_inv (D' N : nat) (tiny : R) (sal : nat -> R) (style_where herm : bool) (cov_norm : nat) (floor : R)
    (eigh : (nat -> nat -> C) -> (nat -> nat -> C) * (nat -> R))
    (z : nat -> nat -> C) (c : nat -> C) (arow qrow : nat -> R) :
  (forall n, (n < N)%nat -> gain_ok D' tiny style_where z c n) ->
  cacgmm_cov RO D' N tiny sal style_where herm cov_norm (fun n d => c n * z n d) arow qrow
  = cacgmm_cov RO D' N tiny sal style_where herm cov_norm z arow qrow /\
  cacgmm_mstep_c RO D' N tiny sal style_where herm cov_norm floor eigh z arow qrow
  = cacgmm_mstep_c RO D' N tiny sal style_where herm cov_norm floor eigh (fun n d => c n * z n d) arow qrow.
Proof. exact (fun H => conj
   (cacgmm_cov_gain_inv D' N tiny sal style_where herm cov_norm z c H arow arow qrow qrow (fun _ _ => eq_refl) (fun _ _ => eq_refl))
   (cacgmm_mstep_gain_inv D' N tiny sal style_where herm cov_norm floor eigh z c H arow arow qrow qrow
      (fun _ _ => eq_refl) (fun _ _ => eq_refl))). Qed.
Print Assumptions C04_mstep_gain_inv.

(* ---- E-step: equal models give equal posteriors and quadratic forms on every cell ---- *)
Theorem C04_estep_gain_inv (D' N : nat) (tiny : R) (style_where : bool) (z : nat -> nat -> C) (c : nat -> C)
    (K' : nat) (eps : R) (clip : bool) (b : nat -> nat -> bool) (t : mtheta (T:=R) (cacg_par (T:=R))) (k n : nat) :
  (forall n, (n < N)%nat -> gain_ok D' tiny style_where z c n) -> (n < N)%nat ->
  let E := fun zz => mix_E RO (cacg_par (T:=R)) K' tiny eps clip b
                       (cacgmm_logpdf_c RO D' tiny style_where zz) (cacgmm_quad_c RO D' tiny style_where zz) in
  fst (E z t) k n = fst (E (fun n d => c n * z n d) t) k n /\
  snd (E z t) k n = snd (E (fun n d => c n * z n d) t) k n.
Proof. exact (fun H Hn => estep_gain_sim (cacg_par (T:=R)) K' N tiny eps clip b _ _ _ _
        (cacgmm_logpdf_gain_inv D' N tiny style_where z c H) (cacgmm_quad_gain_inv D' N tiny style_where z c H)
        t t (conj (fun _ _ _ => eq_refl) (fun _ => eq_refl)) k n Hn). Qed.
Print Assumptions C04_estep_gain_inv.

(* ---- the loop, generically: two mixtures whose class-wise maps agree on the cells have equal trajectories ---- *)
Theorem C04_fit_gain_inv (Par : Type) (K' N : nat) (tiny eps : R) (clip : bool) (b : nat -> nat -> bool)
    (wfun : (nat -> nat -> R) -> nat -> nat -> R)
    (mstep_c mstep_c' : (nat -> R) -> (nat -> R) -> Par) (logpdf_c logpdf_c' quad_c quad_c' : Par -> nat -> R)
    (n : nat) (g0 : mgamma (T:=R)) :
  (forall a a', (forall k m, (m < N)%nat -> a k m = a' k m) -> forall k m, (m < N)%nat -> wfun a k m = wfun a' k m) ->
  (forall r r' q q', (forall m, (m < N)%nat -> r m = r' m) -> (forall m, (m < N)%nat -> q m = q' m) -> mstep_c r q = mstep_c' r' q') ->
  (forall p m, (m < N)%nat -> logpdf_c p m = logpdf_c' p m) ->
  (forall p m, (m < N)%nat -> quad_c p m = quad_c' p m) ->
  let t  := fit (mix_E RO Par K' tiny eps clip b logpdf_c quad_c) (mix_M Par wfun mstep_c) n g0 in
  let t' := fit (mix_E RO Par K' tiny eps clip b logpdf_c' quad_c') (mix_M Par wfun mstep_c') n g0 in
  (forall k m, (m < N)%nat -> fst t k m = fst t' k m) /\ (forall k, snd t k = snd t' k).
Proof. exact (fun Hw Hm Hl Hq => fit_gain_inv Par K' N tiny eps clip b wfun mstep_c mstep_c' logpdf_c logpdf_c' quad_c quad_c'
                                   Hw Hm Hl Hq n g0 g0 (RGn_refl N g0)). Qed.
Print Assumptions C04_fit_gain_inv.

(* the weight rules of estimate_mixture_weight (mean, saliency, class axis) and of the integration models satisfy the
   locality hypothesis above whenever the tied cells of a cell are cells *)
Theorem C04_weight_rules_local (K' G N : nat) (cells : nat -> nat -> nat) (s : nat -> R) (eps : R) (a a' : nat -> nat -> R) (k n : nat) :
  (forall n g, (n < N)%nat -> (g < G)%nat -> (cells n g < N)%nat) ->
  (forall k n, (n < N)%nat -> a k n = a' k n) -> (n < N)%nat ->
  w_mean RO G cells a k n = w_mean RO G cells a' k n /\
  w_sal RO K' G cells s eps a k n = w_sal RO K' G cells s eps a' k n /\
  w_const RO K' a k n = w_const RO K' a' k n /\
  w_integ RO K' G cells s a k n = w_integ RO K' G cells s a' k n.
Proof. exact (fun Hc Ha Hn => conj (w_mean_local G N cells Hc a a' Ha k n Hn)
       (conj (w_sal_local K' G N cells s eps Hc a a' Ha k n Hn)
       (conj (w_const_local K' N a a' k n Hn) (w_integ_local K' G N cells s Hc a a' Ha k n Hn)))). Qed.
Print Assumptions C04_weight_rules_local.

(* ---- cACGMM: for every gain field without zeros, no zero frame, every start, option and iteration count, the fitted
        weights and (eigenvectors, eigenvalues), the posteriors / quadratic forms of predict and the log-likelihood are
        EQUAL for y and c.y ---- *)
Theorem C04_fit_gain_inv_cacgmm (D' N : nat) (tiny : R) (sal : nat -> R) (style_where herm : bool) (cov_norm : nat) (floor : R)
    (eigh : (nat -> nat -> C) -> (nat -> nat -> C) * (nat -> R))
    (z : nat -> nat -> C) (c : nat -> C)
    (K' : nat) (eps : R) (clip : bool) (b : nat -> nat -> bool)
    (wfun : (nat -> nat -> R) -> nat -> nat -> R) (n : nat) (g0 : mgamma (T:=R)) :
  (forall m, (m < N)%nat -> gain_ok D' tiny style_where z c m) ->
  (forall a a', (forall k m, (m < N)%nat -> a k m = a' k m) -> forall k m, (m < N)%nat -> wfun a k m = wfun a' k m) ->
  let E := fun zz => mix_E RO (cacg_par (T:=R)) K' tiny eps clip b
                       (cacgmm_logpdf_c RO D' tiny style_where zz) (cacgmm_quad_c RO D' tiny style_where zz) in
  let M := fun zz => mix_M (cacg_par (T:=R)) wfun (cacgmm_mstep_c RO D' N tiny sal style_where herm cov_norm floor eigh zz) in
  let z' := fun m d => c m * z m d in
  let t := fit (E z) (M z) n g0 in let t' := fit (E z') (M z') n g0 in
  ((forall k m, (m < N)%nat -> fst t k m = fst t' k m) /\ (forall k, snd t k = snd t' k)) /\
  (forall k m, (m < N)%nat -> fst (E z t) k m = fst (E z' t') k m /\ snd (E z t) k m = snd (E z' t') k m) /\
  mix_loglik RO _ K' (cacgmm_logpdf_c RO D' tiny style_where z) N (snd t)
  = mix_loglik RO _ K' (cacgmm_logpdf_c RO D' tiny style_where z') N (snd t').
Proof. exact (fun H Hw => conj (fit_gain_inv_cacgmm D' N tiny sal style_where herm cov_norm floor eigh z c H K' eps clip b wfun Hw n g0)
       (conj (predict_gain_inv_cacgmm D' N tiny sal style_where herm cov_norm floor eigh z c H K' eps clip b wfun Hw n g0)
             (loglik_gain_inv_cacgmm D' N tiny sal style_where herm cov_norm floor eigh z c H K' eps clip b wfun Hw n g0))). Qed.
Print Assumptions C04_fit_gain_inv_cacgmm.

(* ---- GCACGMM / vMF-cACGMM: gains on the spatial stream; the second stream (any class-wise M-step mstep_e reading its
        weights on the cells, any log-pdf) is untouched ---- *)
Theorem C04_fit_gain_inv_integration_spatial (D' N : nat) (tiny : R) (sal : nat -> R) (style_where herm : bool) (cov_norm : nat) (floor : R)
    (eigh : (nat -> nat -> C) -> (nat -> nat -> C) * (nat -> R))
    (z : nat -> nat -> C) (c : nat -> C)
    (K' : nat) (eps : R) (clip : bool) (b : nat -> nat -> bool)
    (wfun : (nat -> nat -> R) -> nat -> nat -> R)
    (ParE : Type) (mstep_e : (nat -> R) -> ParE) (logpdf_e : ParE -> nat -> R) (sw cw : R) (n : nat) (g0 : mgamma (T:=R)) :
  (forall m, (m < N)%nat -> gain_ok D' tiny style_where z c m) ->
  (forall a a', (forall k m, (m < N)%nat -> a k m = a' k m) -> forall k m, (m < N)%nat -> wfun a k m = wfun a' k m) ->
  (forall s s', (forall m, (m < N)%nat -> s m = s' m) -> mstep_e s = mstep_e s') ->
  let E := fun zz => mix_E RO (cacg_par (T:=R) * ParE)%type K' tiny eps clip b
                       (integ_logpdf_c RO D' tiny style_where zz ParE logpdf_e sw cw) (integ_quad_c RO D' tiny style_where zz ParE) in
  let M := fun zz => mix_M (cacg_par (T:=R) * ParE)%type wfun
                       (integ_mstep_c RO D' N tiny sal style_where herm cov_norm floor eigh zz ParE mstep_e) in
  let z' := fun m d => c m * z m d in
  let t := fit (E z) (M z) n g0 in let t' := fit (E z') (M z') n g0 in
  ((forall k m, (m < N)%nat -> fst t k m = fst t' k m) /\ (forall k, snd t k = snd t' k)) /\
  (forall k m, (m < N)%nat -> fst (E z t) k m = fst (E z' t') k m /\ snd (E z t) k m = snd (E z' t') k m).
Proof. exact (fun H Hw He => fit_gain_inv_integration D' N tiny sal style_where herm cov_norm floor eigh z c H K' eps clip b wfun Hw
                               ParE mstep_e logpdf_e sw cw He n g0). Qed.
Print Assumptions C04_fit_gain_inv_integration_spatial.

(* ---- cWMM and cBMM (y / max(||y||, tiny) in fit and again in predict; 0 < tiny <= 1) ---- *)
Theorem C04_fit_gain_inv_cwmm (D' N : nat) (tiny : R) (sal : nat -> R) (z : nat -> nat -> C) (c : nat -> C)
    (wat_oracle : (nat -> nat -> C) -> (nat -> C) * (R * R))
    (K' : nat) (eps : R) (clip : bool) (b : nat -> nat -> bool)
    (wfun : (nat -> nat -> R) -> nat -> nat -> R) (n : nat) (g0 : mgamma (T:=R)) :
  (0 < tiny <= 1)%R -> (forall m, (m < N)%nat -> c m <> 0) ->
  (forall m, (m < N)%nat -> (tiny <= cnorm RO (S D') (z m))%R /\ (tiny <= Cmod (c m) * cnorm RO (S D') (z m))%R) ->
  (forall a a', (forall k m, (m < N)%nat -> a k m = a' k m) -> forall k m, (m < N)%nat -> wfun a k m = wfun a' k m) ->
  let E := fun zz => mix_E RO _ K' tiny eps clip b (cwmm_logpdf_c RO D' tiny zz) (fun _ _ => 0%R) in
  let M := fun zz => mix_M _ wfun (cwmm_mstep_c RO D' N tiny sal wat_oracle zz) in
  let z' := fun m d => c m * z m d in
  let t := fit (E z) (M z) n g0 in let t' := fit (E z') (M z') n g0 in
  ((forall k m, (m < N)%nat -> fst t k m = fst t' k m) /\ (forall k, snd t k = snd t' k)) /\
  (forall k m, (m < N)%nat -> fst (E z t) k m = fst (E z' t') k m /\ snd (E z t) k m = snd (E z' t') k m).
Proof. exact (fun Ht Hc Hz Hw => fit_gain_inv_cwmm D' N tiny sal z c Ht Hc Hz wat_oracle K' eps clip b wfun Hw n g0). Qed.
Print Assumptions C04_fit_gain_inv_cwmm.

Theorem C04_fit_gain_inv_cbmm (D' N : nat) (tiny : R) (sal : nat -> R) (z : nat -> nat -> C) (c : nat -> C)
    (bing_oracle : (nat -> nat -> C) -> (nat -> nat -> C) * ((nat -> R) * R))
    (K' : nat) (eps : R) (clip : bool) (b : nat -> nat -> bool)
    (wfun : (nat -> nat -> R) -> nat -> nat -> R) (n : nat) (g0 : mgamma (T:=R)) :
  (0 < tiny <= 1)%R -> (forall m, (m < N)%nat -> c m <> 0) ->
  (forall m, (m < N)%nat -> (tiny <= cnorm RO (S D') (z m))%R /\ (tiny <= Cmod (c m) * cnorm RO (S D') (z m))%R) ->
  (forall a a', (forall k m, (m < N)%nat -> a k m = a' k m) -> forall k m, (m < N)%nat -> wfun a k m = wfun a' k m) ->
  let E := fun zz => mix_E RO _ K' tiny eps clip b (cbmm_logpdf_c RO D' tiny zz) (fun _ _ => 0%R) in
  let M := fun zz => mix_M _ wfun (cbmm_mstep_c RO D' N tiny sal zz bing_oracle) in
  let z' := fun m d => c m * z m d in
  let t := fit (E z) (M z) n g0 in let t' := fit (E z') (M z') n g0 in
  ((forall k m, (m < N)%nat -> fst t k m = fst t' k m) /\ (forall k, snd t k = snd t' k)) /\
  (forall k m, (m < N)%nat -> fst (E z t) k m = fst (E z' t') k m /\ snd (E z t) k m = snd (E z' t') k m).
Proof. exact (fun Ht Hc Hz Hw => fit_gain_inv_cbmm D' N tiny sal z c Ht Hc Hz bing_oracle K' eps clip b wfun Hw n g0). Qed.
Print Assumptions C04_fit_gain_inv_cbmm.

(* ---- vMF / vMFMM / the embedding stream of vMF-cACGMM: positive real gains; the projected embedding is EQUAL ---- *)
Theorem C04_vmf_unit_scale (D : nat) (tiny c : R) (v : nat -> R) (d : nat) :
  (0 < c)%R -> (0 < tiny)%R -> (tiny <= rnorm RO D v)%R -> (tiny <= c * rnorm RO D v)%R ->
  runit_max RO D tiny (fun d => c * v d)%R d = runit_max RO D tiny v d.
Proof. exact (runit_max_scale D tiny c v d). Qed.
Print Assumptions C04_vmf_unit_scale.

Theorem C04_fit_gain_inv_vmfmm (D N : nat) (tiny kmin kmax : R) (sal : nat -> R) (lognorm : R -> R)
    (v : nat -> nat -> R) (c : nat -> R)
    (K' : nat) (eps : R) (clip : bool) (b : nat -> nat -> bool)
    (wfun : (nat -> nat -> R) -> nat -> nat -> R) (n : nat) (g0 : mgamma (T:=R)) :
  (0 < tiny)%R -> (forall m, (m < N)%nat -> (0 < c m)%R) ->
  (forall m, (m < N)%nat -> (tiny <= rnorm RO D (v m))%R /\ (tiny <= c m * rnorm RO D (v m))%R) ->
  (forall a a', (forall k m, (m < N)%nat -> a k m = a' k m) -> forall k m, (m < N)%nat -> wfun a k m = wfun a' k m) ->
  let E := fun vv => mix_E RO _ K' tiny eps clip b (vmfmm_logpdf_c RO D tiny lognorm vv) (fun _ _ => 0%R) in
  let M := fun vv => mix_M _ wfun (vmfmm_mstep_c RO D N tiny kmin kmax sal vv) in
  let v' := fun m d => (c m * v m d)%R in
  let t := fit (E v) (M v) n g0 in let t' := fit (E v') (M v') n g0 in
  ((forall k m, (m < N)%nat -> fst t k m = fst t' k m) /\ (forall k, snd t k = snd t' k)) /\
  (forall k m, (m < N)%nat -> fst (E v t) k m = fst (E v' t') k m /\ snd (E v t) k m = snd (E v' t') k m).
Proof. exact (fun Ht Hc Hv Hw => fit_gain_inv_vmfmm D N tiny kmin kmax sal lognorm v c Ht Hc Hv K' eps clip b wfun Hw n g0). Qed.
Print Assumptions C04_fit_gain_inv_vmfmm.

(* embedding stream of vMF-cACGMM (fit projects the embedding on entry since a5637f0): its class-wise M-step and its
   log-pdf are unchanged, so C04_fit_gain_inv applies with the spatial stream fixed *)
Theorem C04_vmfcacgmm_embedding_gain_inv (D N : nat) (tiny kmin kmax : R) (lognorm : R -> R)
    (v : nat -> nat -> R) (c : nat -> R) (s : nat -> R) :
  (0 < tiny)%R -> (forall m, (m < N)%nat -> (0 < c m)%R) ->
  (forall m, (m < N)%nat -> (tiny <= rnorm RO D (v m))%R /\ (tiny <= c m * rnorm RO D (v m))%R) ->
  vmfcacg_emb_mstep RO D N tiny kmin kmax (fun m d => c m * v m d)%R s = vmfcacg_emb_mstep RO D N tiny kmin kmax v s /\
  forall p m, (m < N)%nat ->
    vmfcacg_emb_logpdf RO D tiny lognorm (fun m d => c m * v m d)%R p m = vmfcacg_emb_logpdf RO D tiny lognorm v p m.
Proof. exact (fun Ht Hc Hv => vmfcacg_emb_gain_inv D N tiny kmin kmax lognorm v c Ht Hc Hv s s (fun _ _ => eq_refl)). Qed.
Print Assumptions C04_vmfcacgmm_embedding_gain_inv.

(* the former VMFCACGMMTrainer.fit ran the vMF M-step on the raw embedding: not invariant (repaired in /repo a5637f0) *)
Theorem C04_vmfcacgmm_raw_embedding_mstep_refuted :
  exists (v : nat -> nat -> R) (c : R) (s : nat -> R), (0 < c)%R /\
    ~ snd (vmfcacg_emb_mstep_raw RO 1 1 (/ 1000)%R 0%R 500%R (fun n d => c * v n d)%R s)
      = snd (vmfcacg_emb_mstep_raw RO 1 1 (/ 1000)%R 0%R 500%R v s).
Proof. exact vmfcacg_emb_raw_not_invariant. Qed.
Print Assumptions C04_vmfcacgmm_raw_embedding_mstep_refuted.

(* non-vacuity: a concrete frame and gain meet gain_ok in both normalisation styles *)
Example C04_hypotheses_satisfiable :
  let z := fun (_ _ : nat) => RtoC 1 in let c := fun _ : nat => (0, 2)%R : C in
  gain_ok 0 (/ 1000)%R true z c 0 /\ gain_ok 0 (/ 1000)%R false z c 0.
Proof.
  assert (Hn : cnorm RO 1 (fun _ => RtoC 1) = 1%R).
  { unfold cnorm, cnorm2, cabs2. cbn [bsum osqrt oadd omul o0 fst snd RtoC RO].
    replace (0 + (1 * 1 + 0 * 0))%R with (1 * 1)%R by ring. apply sqrt_square. lra. }
  assert (Hm : Cmod (0, 2)%R = 2%R).
  { unfold Cmod. cbn [fst snd]. replace (0 ^ 2 + 2 ^ 2)%R with (2 * 2)%R by ring. apply sqrt_square. lra. }
  assert (Hc : ((0, 2)%R : C) <> 0). { intro E. inversion E. lra. }
  split; split; auto.
  - cbv zeta. rewrite Hn. lra.
  - cbv zeta. rewrite Hn, Hm. lra.
Qed.
