(* C12 -- GEV and PCA beamformers maximise their Rayleigh quotients; BAN only rescales.
   Model: Model/Beamformer.v (gev_vec, pca_vec, pca_val, pca_scaled, rank1_est, gev_atf, ban_factor, ban),
   instance RO; proofs: Proofs/BeamformerEig.v.  The eigen-solvers are oracles: their output (lam, W) is
   universally quantified and constrained by the written contract
     scipy.linalg.eigh / eig (A, B):  A W = B W diag(lam) column by column, lam real, W V = I for some V
     np.linalg.eigh (Phi):            Phi U = U diag(lam), U^H U = I, U U^H = I, lam ascending
   (B-orthogonality of eigenvectors with different eigenvalues is DERIVED, so scipy.linalg.eig, whose
   eigenvectors inside a degenerate eigenspace are not B-orthogonal, is covered too). *)
From Coq Require Import Reals Lra.
From Coquelicot Require Import Coquelicot.
From PB Require Import Ops CLin Model.Beamformer Proofs.Beamformer Proofs.BeamformerEig.
Open Scope C_scope.

(* generalised Rayleigh bound: v^H Px v <= lam_max v^H Pn v for EVERY v *)
Theorem C12_rayleigh_bound (D : nat) (Px Pn W V : mat) (lam : nat -> R) (lmax : R) (v : vec) :
  hermitian Px -> possemidef D Pn ->
  (forall j d, (j < D)%nat -> (d < D)%nat -> mv D Px (col W j) d = RtoC (lam j) * mv D Pn (col W j) d) ->
  (forall i j, (i < D)%nat -> (j < D)%nat -> csum D (fun k => W i k * V k j) = delta i j) ->
  (forall i, (i < D)%nat -> lam i <= lmax)%R ->
  (fst (form D Px v v) <= lmax * fst (form D Pn v v))%R.
Proof. exact (fun H1 H2 H3 H4 => rayleigh_bound D Px Pn W lam H1 H2 H3 (span_of_right_inverse D W V H4) lmax v). Qed.
Print Assumptions C12_rayleigh_bound.

(* get_gev_vector = column of the first arg-max eigenvalue: its SNR is lam_max, the largest generalised
   eigenvalue, and no vector (hence no other beamformer) exceeds it *)
Theorem C12_gev_rayleigh (D : nat) (Px Pn W V : mat) (lam : nat -> R) :
  (0 < D)%nat -> hermitian Px -> possemidef D Pn ->
  (forall j d, (j < D)%nat -> (d < D)%nat -> mv D Px (col W j) d = RtoC (lam j) * mv D Pn (col W j) d) ->
  (forall i j, (i < D)%nat -> (j < D)%nat -> csum D (fun k => W i k * V k j) = delta i j) ->
  let k := argmax_first (oltb RO) D lam in
  let w := gev_vec RO D W lam in
  (forall i, (i < D)%nat -> lam i <= lam k)%R /\
  form D Px w w = RtoC (lam k) * form D Pn w w /\
  (forall v, fst (form D Px v v) <= lam k * fst (form D Pn v v))%R.
Proof. exact (gev_rayleigh_inv D Px Pn W V lam). Qed.
Print Assumptions C12_gev_rayleigh.

(* get_pca_vector = last column of eigh: unit norm, w^H Phi w = lam_max, v^H Phi v <= lam_max v^H v *)
Theorem C12_pca_rayleigh (D : nat) (Phi U : mat) (lam : nat -> R) :
  (0 < D)%nat -> hermitian Phi ->
  (forall j d, (j < D)%nat -> (d < D)%nat -> mv D Phi (col U j) d = RtoC (lam j) * U d j) ->
  (forall i j, (i < D)%nat -> (j < D)%nat -> dot D (col U i) (col U j) = delta i j) ->
  (forall i j, (i < D)%nat -> (j < D)%nat -> csum D (fun k => U i k * Cconj (U j k)) = delta i j) ->
  (forall i j, (i <= j)%nat -> (j < D)%nat -> lam i <= lam j)%R ->
  let w := pca_vec D U in
  dot D w w = 1 /\ form D Phi w w = RtoC (pca_val D lam) /\
  (forall v, fst (form D Phi v v) <= pca_val D lam * fst (dot D v v))%R.
Proof. exact (pca_rayleigh D Phi U lam). Qed.
Print Assumptions C12_pca_rayleigh.

(* scaling None / 'trace' / 'eigenvalue': the unit-norm eigenvector times 1, sqrt(tr Phi) > 0, lam_max *)
Theorem C12_pca_scalings (D : nat) (Phi U : mat) (lam : nat -> R) (d : nat) :
  hermitian Phi -> (0 < fst (tr D Phi))%R -> dot D (pca_vec D U) (pca_vec D U) = 1 ->
  pca_scaled RO D ScNone Phi U lam d = pca_vec D U d /\
  pca_scaled RO D ScTrace Phi U lam d = RtoC (sqrt (fst (tr D Phi))) * pca_vec D U d /\
  (0 < sqrt (fst (tr D Phi)))%R /\
  pca_scaled RO D ScEig Phi U lam d = RtoC (pca_val D lam) * pca_vec D U d.
Proof. exact (pca_scalings D Phi U lam d). Qed.
Print Assumptions C12_pca_scalings.

Theorem C12_pca_eigenvalue_factor_positive (D : nat) (Phi U : mat) (lam : nat -> R) :
  posdef D Phi -> dot D (pca_vec D U) (pca_vec D U) = 1 ->
  form D Phi (pca_vec D U) (pca_vec D U) = RtoC (pca_val D lam) -> (0 < pca_val D lam)%R.
Proof. exact (pca_val_pos D Phi U lam). Qed.
Print Assumptions C12_pca_eigenvalue_factor_positive.

(* rank-one PSD estimate a a^H tr(cov)/tr(a a^H): Hermitian, rank one, trace preserving *)
Theorem C12_rank1_hermitian (D : nat) (cov : mat) (a : vec) :
  snd (tr D cov) = 0%R -> hermitian (rank1_est RO D cov a).
Proof. exact (rank1_hermitian D cov a). Qed.
Print Assumptions C12_rank1_hermitian.

Theorem C12_rank1_rank_one (D : nat) (cov : mat) (a : vec) :
  exists b : vec, forall i j, rank1_est RO D cov a i j = a i * b j.
Proof. exact (rank1_rank_one D cov a). Qed.
Print Assumptions C12_rank1_rank_one.

Theorem C12_rank1_trace (D : nat) (cov : mat) (a : vec) :
  nonzero D a -> tr D (rank1_est RO D cov a) = tr D cov.
Proof. exact (rank1_trace D cov a). Qed.
Print Assumptions C12_rank1_trace.

(* exactly rank-one target sigma b b^H: the PCA vector (any eigenvector with eigenvalue <> 0) and the GEV
   ATF estimate Pn w (w a generalised eigenvector with eigenvalue <> 0) are multiples of b ... *)
Theorem C12_rank1_pca_direction (D : nat) (b : vec) (sigma : R) (v : vec) (lam : R) :
  lam <> 0%R -> (forall d, (d < D)%nat -> mv D (r1psd b sigma) v d = RtoC lam * v d) ->
  veq D v (fun d => (RtoC sigma * dot D b v / RtoC lam) * b d).
Proof. exact (rank1_eigvec_parallel D b sigma v lam). Qed.
Print Assumptions C12_rank1_pca_direction.

Theorem C12_rank1_gev_direction (D : nat) (b : vec) (sigma : R) (Pn : mat) (w : vec) (lam : R) :
  lam <> 0%R -> (forall d, (d < D)%nat -> mv D (r1psd b sigma) w d = RtoC lam * mv D Pn w d) ->
  veq D (gev_atf RO D Pn w) (fun d => (RtoC sigma * dot D b w / RtoC lam) * b d).
Proof. exact (rank1_gev_atf_parallel D b sigma Pn w lam). Qed.
Print Assumptions C12_rank1_gev_direction.

(* ... and the estimate built from any non-zero multiple of b IS the target *)
Theorem C12_rank1_recovers (D : nat) (b : vec) (sigma : R) (a : vec) (c : C) (i j : nat) :
  nonzero D b -> c <> 0 -> veq D a (fun d => c * b d) -> (i < D)%nat -> (j < D)%nat ->
  rank1_est RO D (r1psd b sigma) a i j = r1psd b sigma i j.
Proof. exact (rank1_recovers D b sigma a c i j). Qed.
Print Assumptions C12_rank1_recovers.

(* BAN: multiplication by sqrt(w^H Pn Pn w)/(w^H Pn w), a positive real for Hermitian PD Pn *)
Theorem C12_ban_is_scaling (D : nat) (Pn : mat) (w : vec) (d : nat) :
  ban RO D Pn w d = RtoC (ban_factor RO D Pn w) * w d.
Proof. exact (ban_RO D Pn w d). Qed.
Print Assumptions C12_ban_is_scaling.

Theorem C12_ban_factor_positive (D : nat) (Pn : mat) (w : vec) :
  posdef D Pn -> nonzero D w ->
  snd (ban_nom D Pn w) = 0%R /\ (0 < fst (ban_nom D Pn w))%R /\
  snd (form D Pn w w) = 0%R /\ (0 < fst (form D Pn w w))%R /\
  ban_factor RO D Pn w = (sqrt (fst (ban_nom D Pn w)) / fst (form D Pn w w))%R /\
  (0 < ban_factor RO D Pn w)%R.
Proof. exact (ban_factor_pos D Pn w). Qed.
Print Assumptions C12_ban_factor_positive.

(* the result does not depend on the magnitude of the input vector *)
Theorem C12_ban_homogeneous (D : nat) (Pn : mat) (s : C) (w : vec) (d : nat) :
  s <> 0 -> ban RO D Pn (fun k => s * w k) d = (s / RtoC (Cmod s)) * ban RO D Pn w d.
Proof. exact (ban_homogeneous D Pn s w d). Qed.
Print Assumptions C12_ban_homogeneous.

(* direction and SNR untouched: numerator and denominator of any Rayleigh quotient get the same factor *)
Theorem C12_ban_keeps_snr (D : nat) (Px Pn : mat) (w : vec) :
  let g := ban_factor RO D Pn w in
  form D Px (ban RO D Pn w) (ban RO D Pn w) = RtoC (g * g) * form D Px w w /\
  form D Pn (ban RO D Pn w) (ban RO D Pn w) = RtoC (g * g) * form D Pn w w /\
  (fst (form D Px (ban RO D Pn w) (ban RO D Pn w)) * fst (form D Pn w w)
   = fst (form D Px w w) * fst (form D Pn (ban RO D Pn w) (ban RO D Pn w)))%R.
Proof. exact (ban_keeps_snr D Px Pn w). Qed.
Print Assumptions C12_ban_keeps_snr.

(* non-vacuity: D = 1, Px = [3], Pn = [2], W = V = [1], lam = 3/2 meets the eigen contract *)
Example C12_hypotheses_satisfiable :
  let Px : mat := fun _ _ => RtoC 3 in let Pn : mat := fun _ _ => RtoC 2 in
  let W : mat := fun _ _ => RtoC 1 in let lam := fun _ : nat => (3 / 2)%R in
  hermitian Px /\ possemidef 1 Pn /\
  (forall j d, (j < 1)%nat -> (d < 1)%nat -> mv 1 Px (col W j) d = RtoC (lam j) * mv 1 Pn (col W j) d) /\
  (forall i j, (i < 1)%nat -> (j < 1)%nat -> csum 1 (fun k => W i k * W k j) = delta i j).
Proof.
  cbv zeta. split; [|split; [split|split]].
  - intros i j. rewrite Cconj_R. reflexivity.
  - intros i j. rewrite Cconj_R. reflexivity.
  - intros u. unfold form, dot, mv; cbn [csum]. destruct (u 0%nat) as [p q].
    unfold Cmult, Cplus, Cconj, RtoC; simpl. nra.
  - intros j d Hj Hd. unfold mv, col; cbn [csum]. rewrite !Cplus_0_l, <- !RtoC_mult. f_equal. field.
  - intros i j Hi Hj. assert (i = 0)%nat by (apply PeanoNat.Nat.lt_1_r; exact Hi).
    assert (j = 0)%nat by (apply PeanoNat.Nat.lt_1_r; exact Hj). subst. cbn [csum]. unfold delta; simpl. ring.
Qed.
