(* C10 -- PSD estimate is the mask-weighted mean outer product.
   Model: Model/PSD.v (psd_masked, psd_nomask, condition_cov), instance RO; proofs: Proofs/PSD.v.
   floor is the implementation's 1e-10 guard (any positive real here). *)
From Coq Require Import Reals Lra.
From Coquelicot Require Import Coquelicot.
From PB Require Import Ops CLin Model.PSD Proofs.PSD.
Open Scope C_scope.

(* Phi[d,e] = sum_t m_t x[d,t] conj(x[e,t]) / sum_t m_t   whenever the floor is not active *)
Theorem C10_psd_formula (Tn : nat) (x : nat -> nat -> C) (m : nat -> R) (floor : R) (d e : nat) :
  (floor <= rsum Tn m)%R -> (0 < floor)%R ->
  psd_masked RO Tn x m floor true d e
  = csum Tn (fun t => RtoC (m t) * x d t * Cconj (x e t)) / RtoC (rsum Tn m).
Proof. exact (psd_formula Tn x m floor d e). Qed.
Print Assumptions C10_psd_formula.

Theorem C10_psd_formula_unnormalised (Tn : nat) (x : nat -> nat -> C) (m : nat -> R) (floor : R) (d e : nat) :
  psd_masked RO Tn x m floor false d e = csum Tn (fun t => RtoC (m t) * x d t * Cconj (x e t)).
Proof. exact (psd_formula_unnormalised Tn x m floor d e). Qed.
Print Assumptions C10_psd_formula_unnormalised.

Theorem C10_psd_formula_nomask (Tn : nat) (x : nat -> nat -> C) (d e : nat) :
  psd_nomask RO Tn x d e = RtoC (/ INR Tn) * csum Tn (fun t => x d t * Cconj (x e t)).
Proof. exact (psd_formula_nomask Tn x d e). Qed.
Print Assumptions C10_psd_formula_nomask.

Theorem C10_psd_hermitian (Tn : nat) (x : nat -> nat -> C) (m : nat -> R) (floor : R) (nz : bool) :
  hermitian (psd_masked RO Tn x m floor nz) /\ hermitian (psd_nomask RO Tn x).
Proof. exact (conj (psd_hermitian Tn x m floor nz) (psd_nomask_hermitian Tn x)). Qed.
Print Assumptions C10_psd_hermitian.

(* positive semidefinite for non-negative masks, every D and T, every test vector v *)
Theorem C10_psd_positive_semidefinite (D Tn : nat) (x : nat -> nat -> C) (m : nat -> R) (floor : R) (nz : bool) (v : vec) :
  (0 < floor)%R -> (forall t, (t < Tn)%nat -> 0 <= m t)%R ->
  (0 <= fst (form D (psd_masked RO Tn x m floor nz) v v))%R /\
  snd (form D (psd_masked RO Tn x m floor nz) v v) = 0%R.
Proof. exact (psd_psd D Tn x m floor nz v). Qed.
Print Assumptions C10_psd_positive_semidefinite.

Theorem C10_psd_nomask_positive_semidefinite (D Tn : nat) (x : nat -> nat -> C) (v : vec) :
  (0 <= fst (form D (psd_nomask RO Tn x) v v))%R /\ snd (form D (psd_nomask RO Tn x) v v) = 0%R.
Proof. exact (psd_nomask_psd D Tn x v). Qed.
Print Assumptions C10_psd_nomask_positive_semidefinite.

(* v^H Phi v is the mask-weighted output power of the beamformer v *)
Theorem C10_psd_quadratic_form (D Tn : nat) (x : nat -> nat -> C) (m : nat -> R) (floor : R) (nz : bool) (v : vec) :
  form D (psd_masked RO Tn x m floor nz) v v
  = RtoC (rsum Tn (fun t => mask_norm RO Tn m floor nz t *
        (Cmod (dot D v (fun d => x d t)) * Cmod (dot D v (fun d => x d t))))%R).
Proof. exact (psd_quadratic_form D Tn x m floor nz v). Qed.
Print Assumptions C10_psd_quadratic_form.

Theorem C10_psd_mask_scale_invariant (Tn : nat) (x : nat -> nat -> C) (m : nat -> R) (floor c : R) (d e : nat) :
  (0 < floor)%R -> (0 < c)%R -> (floor <= rsum Tn m)%R -> (floor <= c * rsum Tn m)%R ->
  psd_masked RO Tn x (fun t => c * m t)%R floor true d e = psd_masked RO Tn x m floor true d e.
Proof. exact (psd_mask_scale_inv Tn x m floor c d e). Qed.
Print Assumptions C10_psd_mask_scale_invariant.

Theorem C10_psd_zero_mask (Tn : nat) (x : nat -> nat -> C) (m : nat -> R) (floor : R) (nz : bool) (d e : nat) :
  (0 < floor)%R -> (forall t, (t < Tn)%nat -> m t = 0%R) ->
  psd_masked RO Tn x m floor nz d e = RtoC 0.
Proof. exact (psd_zero_mask Tn x m floor nz d e). Qed.
Print Assumptions C10_psd_zero_mask.

Theorem C10_condition_covariance_trace (D : nat) (A : nat -> nat -> C) (gamma : R) :
  (0 < D)%nat -> (0 <= gamma)%R -> ctr D (condition_cov RO D A gamma) = ctr D A.
Proof. exact (condition_cov_trace D A gamma). Qed.
Print Assumptions C10_condition_covariance_trace.

Theorem C10_condition_covariance_hermitian (D : nat) (A : nat -> nat -> C) (gamma : R) :
  (0 < D)%nat -> (0 <= gamma)%R -> hermitian A -> (snd (ctr D A) = 0)%R ->
  hermitian (condition_cov RO D A gamma).
Proof. exact (condition_cov_hermitian D A gamma). Qed.
Print Assumptions C10_condition_covariance_hermitian.

Theorem C10_condition_covariance_psd (D : nat) (A : nat -> nat -> C) (gamma : R) (v : vec) :
  (0 < D)%nat -> (0 <= gamma)%R ->
  (0 <= fst (form D A v v))%R -> snd (form D A v v) = 0%R ->
  (0 <= fst (ctr D A))%R -> snd (ctr D A) = 0%R ->
  (0 <= fst (form D (condition_cov RO D A gamma) v v))%R /\
  snd (form D (condition_cov RO D A gamma) v v) = 0%R.
Proof. exact (fun HD Hg => condition_cov_psd D A gamma HD Hg v). Qed.
Print Assumptions C10_condition_covariance_psd.

(* non-vacuity: a concrete mask meets the hypotheses of the formula / scale theorems *)
Example C10_hypotheses_satisfiable :
  let m := fun t : nat => match t with O => 1%R | _ => 2%R end in
  (/ 10 <= rsum 3 m)%R /\ (0 < / 10)%R /\ (forall t, (t < 3)%nat -> 0 <= m t)%R.
Proof. cbn [rsum]. repeat split; try lra. intros t _. destruct t; lra. Qed.
