(* C07 -- log_pdf is the logarithm of the named, normalised density.
   Model: Model/LogPdf.v (instance RO, [pi] := PI); textbook densities and proofs: Proofs/LogPdf.v.
   Every family theorem is named _formula_partial: what is proved is equality of log_pdf with the
   logarithm of the literature density (for all D, all parameters, all evaluation points, under the
   written contracts of the external routines).  The consequence "exp(log_pdf) integrates to one
   (to the sphere area for cACG)" is NOT proved: it needs Lebesgue / surface-measure integration on
   R^D, C^D and (complex) spheres, which the installed libraries do not provide; it is supported by
   quadrature in the harness (thorough tier) only. *)
From Coq Require Import Reals Lra List.
From Coquelicot Require Import Coquelicot.
From PB Require Import Ops CLin Model.LogPdf Proofs.LogPdf.
Import ListNotations.
Open Scope R_scope.

(* ---- Gaussian, full covariance.  Contract of sklearn's precision Cholesky factor Pm:
   Pm Pm^T = Sigma^-1 (= Sinv) and sum_k ln Pm_kk = -1/2 ln det Sigma (= detS) *)
Theorem C07_gaussian_full_formula_partial (D : nat) (mu y : nat -> R) (Pm Sinv : nat -> nat -> R) (detS : R) :
  (forall i j, (i < D)%nat -> (j < D)%nat -> rsum D (fun k => Pm i k * Pm j k) = Sinv i j) ->
  rsum D (fun k => ln (Pm k k)) = - / 2 * ln detS -> 0 < detS ->
  gauss_full_logpdf RO PI D mu y Pm
  = ln (exp (- / 2 * rsum D (fun i => rsum D (fun j => (y i - mu i) * Sinv i j * (y j - mu j))))
        / sqrt ((2 * PI) ^ D * detS)).
Proof. exact (gauss_full_logpdf_spec D mu y Pm Sinv detS). Qed.
Print Assumptions C07_gaussian_full_formula_partial.

(* whitening with the TRANSPOSED factor gives the Mahalanobis form, for every D *)
Theorem C07_whitening_T_is_mahalanobis (D : nat) (Pm : nat -> nat -> R) (x : nat -> R) :
  rsum D (fun k => rsum D (fun i => Pm i k * x i) * rsum D (fun i => Pm i k * x i))
  = rsum D (fun i => rsum D (fun j => x i * rsum D (fun k => Pm i k * Pm j k) * x j)).
Proof. exact (whitening_T_is_mahalanobis D Pm x). Qed.
Print Assumptions C07_whitening_T_is_mahalanobis.

(* the orientation '...dD,...nD->...nd' (Pm d, the tree before fix ca5e538) violates the clause *)
Theorem C07_gaussian_rows_whitening_refuted :
  exists D Pm Sinv detS mu y,
    (forall i j, (i < D)%nat -> (j < D)%nat -> rsum D (fun k => Pm i k * Pm j k) = Sinv i j) /\
    rsum D (fun k => ln (Pm k k)) = - / 2 * ln detS /\ 0 < detS /\
    gauss_full_logpdf_rows RO PI D mu y Pm <> ln (normal_pdf D mu Sinv detS y).
Proof. exact gauss_rows_whitening_refuted. Qed.
Print Assumptions C07_gaussian_rows_whitening_refuted.

(* ---- Gaussian, diagonal covariance: Sigma = diag(cov), no oracle *)
Theorem C07_gaussian_diagonal_formula_partial (D : nat) (mu y cov : nat -> R) :
  (forall i, (i < D)%nat -> 0 < cov i) ->
  gauss_diag_logpdf RO PI D mu y cov
  = ln (normal_pdf D mu (fun i j => if Nat.eqb i j then / cov i else 0) (bprod RO D cov) y).
Proof. exact (gauss_diag_logpdf_spec D mu y cov). Qed.
Print Assumptions C07_gaussian_diagonal_formula_partial.

(* ---- Gaussian, spherical covariance: Sigma = c I, no oracle *)
Theorem C07_gaussian_spherical_formula_partial (D : nat) (mu y : nat -> R) (c : R) :
  0 < c ->
  gauss_sph_logpdf RO PI D mu y c
  = ln (normal_pdf D mu (fun i j => if Nat.eqb i j then / c else 0) (c ^ D) y).
Proof. exact (gauss_sph_logpdf_spec D mu y c). Qed.
Print Assumptions C07_gaussian_spherical_formula_partial.

(* ---- complex circularly symmetric Gaussian.  Contracts: solve (Sigma sol = y), slogdet
   (logabsdet = ln det Sigma), Sinv a left inverse of Sigma *)
Theorem C07_complex_gaussian_formula_partial (D : nat) (Sigma Sinv : nat -> nat -> C)
    (detS logabsdet : R) (y sol : nat -> C) :
  (forall i, (i < D)%nat -> mv D Sigma sol i = y i) ->
  (forall i k, (i < D)%nat -> (k < D)%nat ->
     csum D (fun j => Sinv i j * Sigma j k)%C = if Nat.eqb i k then RtoC 1 else RtoC 0) ->
  logabsdet = ln detS -> 0 < detS ->
  ccsg_logpdf RO PI D y logabsdet sol = ln (exp (- fst (form D Sinv y y)) / (PI ^ D * detS)).
Proof. exact (ccsg_logpdf_spec D Sigma Sinv detS logabsdet y sol). Qed.
Print Assumptions C07_complex_gaussian_formula_partial.

(* ---- von Mises-Fisher.  Contract of scipy.special.ive: ive = I_{D/2-1}(kappa) exp(-|kappa|),
   Iv the sum of the Bessel series  sum_m (kappa/2)^(2m+D/2-1) / (m! Gamma(m+D/2)) *)
Theorem C07_vmf_formula_partial (D : nat) (mu y : nat -> R) (kappa ive tiny Iv : R) :
  (1 <= D)%nat -> 0 < kappa ->
  tiny <= sqrt (rsum D (fun d => y d * y d)) ->
  is_series (bessel_term D kappa) Iv -> ive = Iv * exp (- Rabs kappa) ->
  vmf_logpdf RO PI D mu y kappa ive tiny
  = ln (Rpower kappa (INR D / 2 - 1) / (Rpower (2 * PI) (INR D / 2) * Iv)
        * exp (kappa * rsum D (fun d => mu d * (y d / sqrt (rsum D (fun d => y d * y d)))))).
Proof. exact (vmf_logpdf_spec D mu y kappa ive tiny Iv). Qed.
Print Assumptions C07_vmf_formula_partial.

(* the executable truncated Bessel series used by the correspondence check is the partial sum of
   that series, and the series form of the log-normaliser is the log-normaliser with I replaced by it *)
Theorem C07_bessel_sum_is_partial_sum (D : nat) (kappa : R) (n : nat) :
  (1 <= D)%nat -> 0 < kappa ->
  bessel_sum RO D kappa n * bessel_term D kappa 0 = sum_n (bessel_term D kappa) n.
Proof. exact (bessel_sum_partial D kappa n). Qed.
Print Assumptions C07_bessel_sum_is_partial_sum.

Theorem C07_vmf_lognorm_series_partial_sum (D : nat) (kappa : R) (n : nat) :
  (1 <= D)%nat -> 0 < kappa ->
  vmf_lognorm_series RO PI D kappa n
  = ln (Rpower (2 * PI) (INR D / 2) * sum_n (bessel_term D kappa) n / Rpower kappa (INR D / 2 - 1)).
Proof. exact (vmf_lognorm_series_partial D kappa n). Qed.
Print Assumptions C07_vmf_lognorm_series_partial_sum.

(* ---- complex Watson.  Contract of scipy.special.hyp1f1(1, D, kappa): the sum M of Kummer's series
   sum_m kappa^m / (D)_m *)
Theorem C07_watson_formula_partial (D : nat) (mu y : nat -> C) (kappa h1f1 M : R) :
  0 <= kappa -> is_series (kummer_term D kappa) M -> h1f1 = M ->
  watson_logpdf RO PI D mu y kappa h1f1
  = ln (INR (fact (D - 1)) / (2 * PI ^ D * M) * exp (kappa * (Cmod (dot D mu y)) ^ 2)).
Proof. exact (fun Hk Hs Hh => watson_logpdf_spec D mu y kappa h1f1 M Hh (kummer_pos D kappa M Hk Hs)). Qed.
Print Assumptions C07_watson_formula_partial.

(* Kummer's series converges, to Mardia's closed form *)
Theorem C07_watson_series_closed_form (D : nat) (kappa : R) :
  (1 <= D)%nat -> kappa <> 0 ->
  is_series (kummer_term D kappa)
    (INR (fact (D - 1)) / kappa ^ (D - 1) * (exp kappa - rsum (D - 1) (fun r => kappa ^ r / INR (fact r)))).
Proof. exact (watson_series_closed_form D kappa). Qed.
Print Assumptions C07_watson_series_closed_form.

Theorem C07_kummer_sum_is_partial_sum (D : nat) (kappa : R) (n : nat) :
  (1 <= D)%nat -> kummer_sum RO D kappa n = sum_n (kummer_term D kappa) n.
Proof. exact (kummer_sum_partial D kappa n). Qed.
Print Assumptions C07_kummer_sum_is_partial_sum.

(* ---- complex Bingham.  B = E diag(lam) E^H; Kent's normaliser c(lam) = 2 pi^D sum_j exp(lam_j) /
   prod_{i<>j}(lam_j - lam_i); on the property's domain (pairwise gaps >= eps) the code's sorting and
   duplicate-eigenvalue spreading do not change the value.  c(lam) > 0 is a hypothesis (it is a divided
   difference of exp; not proved here). *)
Theorem C07_bingham_formula_partial (D : nat) (E : nat -> nat -> C) (lam : list R) (y : nat -> C) (eps : R) :
  length lam = D -> ForallOrdPairs (fun a b => eps <= Rabs (a - b)) lam ->
  0 < kent_normaliser D (fun i => nth i lam 0) ->
  bingham_logpdf RO PI D E lam y eps
  = ln (exp (fst (form D (eig_compose D E (fun i => nth i lam 0)) y y))
        / (2 * PI ^ D * rsum D (fun j =>
             / bprod RO D (fun i => if Nat.eqb i j then 1 else nth j lam 0 - nth i lam 0) * exp (nth j lam 0)))).
Proof. exact (bingham_logpdf_spec D E lam y eps). Qed.
Print Assumptions C07_bingham_formula_partial.

Theorem C07_bingham_spreading_is_sorting_on_domain (eps : R) (l : list R) :
  ForallOrdPairs (fun a b => eps <= Rabs (a - b)) l -> remove_duplicates RO eps l = osort RO l.
Proof. exact (remove_duplicates_id eps l). Qed.
Print Assumptions C07_bingham_spreading_is_sorting_on_domain.

(* ---- complex angular central Gaussian.  The class stores E and lam; B = E diag(lam) E^H.
   Spectral contract: E unitary, det B = prod lam.  log_pdf = ln( 1/det B * (z^H B^-1 z)^-D ), which is
   the normalised density times the sphere area 2 pi^D/(D-1)!; B^-1 = E diag(1/lam) E^H is shown to be
   the inverse of B under the unitary contract. *)
Theorem C07_cacg_formula_partial (D : nat) (E : nat -> nat -> C) (lam : nat -> R) (y : nat -> C) (tiny detB : R) :
  let nrm := sqrt (rsum D (fun d => Cmod (y d) * Cmod (y d))) in
  let z := fun d => (RtoC (/ nrm) * y d)%C in
  let Binv := eig_compose D E (fun e => / lam e) in
  (forall e, (e < D)%nat -> 0 < lam e) ->
  (forall a b, (a < D)%nat -> (b < D)%nat ->
     csum D (fun d => Cconj (E d a) * E d b)%C = if Nat.eqb a b then RtoC 1 else RtoC 0) ->
  (forall a b, (a < D)%nat -> (b < D)%nat ->
     csum D (fun x => E a x * Cconj (E b x))%C = if Nat.eqb a b then RtoC 1 else RtoC 0) ->
  detB = bprod RO D lam ->
  0 < nrm -> tiny <= fst (form D Binv z z) -> 0 < tiny ->
  cacg_logpdf RO D E lam y tiny = ln (/ detB * / (fst (form D Binv z z)) ^ D)
  /\ (forall i k, (i < D)%nat -> (k < D)%nat ->
        csum D (fun j => Binv i j * eig_compose D E lam j k)%C = if Nat.eqb i k then RtoC 1 else RtoC 0).
Proof. exact (fun Hl H1 H2 Hd Hn Ht Ht0 =>
  conj (cacg_logpdf_spec D E lam y tiny detB Hl Hd Hn Ht Ht0) (eig_inverse D E lam Hl H1 H2)). Qed.
Print Assumptions C07_cacg_formula_partial.

Theorem C07_cacg_density_times_sphere_area (D : nat) (Binv : nat -> nat -> C) (detB : R) (z : nat -> C) :
  / detB * / (fst (form D Binv z z)) ^ D
  = (INR (fact (D - 1)) / (2 * PI ^ D) * (/ detB * / (fst (form D Binv z z)) ^ D)) * (2 * PI ^ D / INR (fact (D - 1))).
Proof. exact (cacg_pdf_area D Binv detB z). Qed.
Print Assumptions C07_cacg_density_times_sphere_area.

(* non-vacuity: the full-covariance contract is met by the sklearn factor of [[1,-1],[-1,2]], and
   Kent's normaliser is positive for the eigenvalues (0, 1) with gap 1 >= 1e-3 *)
Example C07_hypotheses_satisfiable :
  ((forall i j, (i < 2)%nat -> (j < 2)%nat ->
      rsum 2 (fun k => P2w i k * P2w j k) = (fun i j => rsum 2 (fun k => P2w i k * P2w j k)) i j)
   /\ rsum 2 (fun k => ln (P2w k k)) = - / 2 * ln 1 /\ 0 < 1)
  /\ (ForallOrdPairs (fun a b => / 1000 <= Rabs (a - b)) [0; 1]
      /\ 0 < kent_normaliser 2 (fun i => nth i [0; 1] 0)).
Proof. split.
  - split; [reflexivity|]. split; [|lra]. cbn [rsum P2w]. rewrite ln_1. lra.
  - split.
    + repeat constructor. cbv beta. replace (0 - 1) with (- (1)) by ring. rewrite Rabs_Ropp, Rabs_R1. lra.
    + unfold kent_normaliser, kent_coeff. cbn [rsum bprod nth Nat.eqb omul o1 RO].
      assert (Hp : 0 < PI ^ 2) by apply pow_lt, PI_RGT_0.
      pose proof (exp_ineq1 1 ltac:(lra)). rewrite exp_0.
      replace (2 * PI ^ 2 * (0 + / (1 * 1 * (0 - 1)) * 1 + / (1 * (1 - 0) * 1) * exp 1))
        with (2 * PI ^ 2 * (exp 1 - 1)) by (field; lra).
      apply Rmult_lt_0_compat; lra. Qed.
