(* C01 -- affiliations are valid distributions and equal the model's Bayes posterior.
   Model: Model/Posterior.v (one observation column of log_pdf_to_affiliation; estimate_mixture_weight for
   one tied group; initializer tails), instance RO; proofs: Proofs/Posterior.v.
   tiny = np.finfo(dtype).tiny, eps = affiliation_eps (any reals with the stated signs). *)
From Coq Require Import Reals Lra.
From PB Require Import Ops CLin Model.Posterior Proofs.Posterior.
Open Scope R_scope.

(* overflow guard: after subtracting the maximum every exponential lies in (0,1] and one equals 1 *)
Theorem C01_shifted_exp_in_unit (K' : nat) (l : nat -> R) :
  (forall k, (k < S K')%nat -> 0 < shifted RO K' l k <= 1) /\
  exists k, (k < S K')%nat /\ shifted RO K' l k = 1.
Proof. exact (shifted_exp_in_unit K' l). Qed.
Print Assumptions C01_shifted_exp_in_unit.

(* range, normalisation, exact zeros for inactive sources -- whenever the tiny floor is not active *)
Theorem C01_posterior_valid (K' : nat) (tiny : R) (w l : nat -> R) (b : nat -> bool) :
  0 < tiny -> (forall k, (k < S K')%nat -> 0 <= w k) ->
  tiny <= rsum (S K') (unnorm RO K' w l b) ->
  (forall k, (k < S K')%nat -> 0 <= posterior RO K' tiny w l b k <= 1) /\
  rsum (S K') (posterior RO K' tiny w l b) = 1 /\
  (forall k, b k = false -> posterior RO K' tiny w l b k = 0).
Proof. intros Ht Hw Hd. eapply posterior_valid; eauto. Qed.
Print Assumptions C01_posterior_valid.

(* inactive sources are exactly zero always; hence an all-inactive column is all-zero *)
Theorem C01_posterior_inactive_zero (K' : nat) (tiny : R) (w l : nat -> R) (b : nat -> bool) (k : nat) :
  b k = false -> posterior RO K' tiny w l b k = 0.
Proof. exact (posterior_inactive_zero K' tiny w l b k). Qed.
Print Assumptions C01_posterior_inactive_zero.

(* the floor is not taken when the best ACTIVE class has weight >= tiny (every class has mass) - whatever the log-pdfs of
   the classes the source-activity mask declares inactive (before fix 'masked scaling' the hypothesis had to be "an
   arg-max class over ALL classes is active": the soak found the input on which it fails) *)
Theorem C01_posterior_floor_inactive (K' : nat) (tiny : R) (w l : nat -> R) (b : nat -> bool) :
  0 < tiny -> (forall k, (k < S K')%nat -> 0 <= w k) ->
  (exists k, (k < S K')%nat /\ b k = true /\ tiny <= w k /\ forall j, (j < S K')%nat -> b j = true -> l j <= l k) ->
  tiny <= rsum (S K') (unnorm RO K' w l b).
Proof. intros Ht Hw He. eapply posterior_floor_inactive; eauto. Qed.
Print Assumptions C01_posterior_floor_inactive.

(* the posterior column does not depend on the log-pdfs of the classes the source-activity mask declares inactive - however
   large they are (the clause that failed before fix 8aab3e3) *)
Theorem C01_posterior_ignores_inactive_log_pdf (K' : nat) (tiny : R) (w l l' : nat -> R) (b : nat -> bool) (k : nat) :
  (forall j, (j <= K')%nat -> b j = true -> l j = l' j) -> (k <= K')%nat ->
  posterior RO K' tiny w l b k = posterior RO K' tiny w l' b k.
Proof. intros H Hk. exact (posterior_mask_indep l l' b K' tiny w H k Hk). Qed.
Print Assumptions C01_posterior_ignores_inactive_log_pdf.

(* validity under the property's own precondition: the best active class has mass *)
Theorem C01_posterior_valid_best_active (K' : nat) (tiny : R) (w l : nat -> R) (b : nat -> bool) :
  0 < tiny -> (forall k, (k < S K')%nat -> 0 <= w k) ->
  (exists k, (k < S K')%nat /\ b k = true /\ tiny <= w k /\ forall j, (j < S K')%nat -> b j = true -> l j <= l k) ->
  (forall k, (k < S K')%nat -> 0 <= posterior RO K' tiny w l b k <= 1) /\
  rsum (S K') (posterior RO K' tiny w l b) = 1 /\
  (forall k, b k = false -> posterior RO K' tiny w l b k = 0).
Proof. exact (posterior_valid_best_active K' tiny w l b). Qed.
Print Assumptions C01_posterior_valid_best_active.

(* the totalised branch, stated so it is visible: with the floor active the column is sub-normalised *)
Theorem C01_posterior_floored (K' : nat) (tiny : R) (w l : nat -> R) (b : nat -> bool) :
  0 < tiny -> (forall k, (k < S K')%nat -> 0 <= w k) ->
  rsum (S K') (unnorm RO K' w l b) < tiny ->
  (forall k, (k < S K')%nat -> 0 <= posterior RO K' tiny w l b k < 1) /\
  0 <= rsum (S K') (posterior RO K' tiny w l b) < 1.
Proof. intros Ht Hw Hf. eapply posterior_floored; eauto. Qed.
Print Assumptions C01_posterior_floored.

(* Bayes' rule: gamma_k = pi_k b_k p_k / sum_j pi_j b_j p_j with p = exp(log_pdf) *)
Theorem C01_posterior_is_bayes (K' : nat) (tiny : R) (w l : nat -> R) (b : nat -> bool) (k : nat) :
  0 < tiny -> (forall k, (k < S K')%nat -> 0 <= w k) ->
  tiny <= rsum (S K') (unnorm RO K' w l b) ->
  posterior RO K' tiny w l b k
  = (w k * (if b k then 1 else 0) * exp (l k)) / rsum (S K') (fun j => w j * (if b j then 1 else 0) * exp (l j)).
Proof. intros Ht Hw Hd. eapply posterior_is_bayes; eauto. Qed.
Print Assumptions C01_posterior_is_bayes.

(* affiliation_eps: clipped to [eps, 1-eps]; the column sum moves by at most K*eps *)
Theorem C01_posterior_clip (K' : nat) (tiny : R) (w l : nat -> R) (b : nat -> bool) (eps : R) :
  0 < tiny -> (forall k, (k < S K')%nat -> 0 <= w k) ->
  0 < eps < / 2 -> tiny <= rsum (S K') (unnorm RO K' w l b) ->
  (forall k, (k < S K')%nat -> eps <= posterior_clipped RO K' tiny eps w l b k <= 1 - eps) /\
  Rabs (rsum (S K') (posterior_clipped RO K' tiny eps w l b) - 1) <= INR (S K') * eps.
Proof. intros Ht Hw He Hd. eapply posterior_clip; eauto. Qed.
Print Assumptions C01_posterior_clip.

(* mixture weights from normalised affiliations are a distribution (mean update) *)
Theorem C01_weight_mean_valid (K' G : nat) (a : nat -> nat -> R) :
  (0 < G)%nat -> (forall k g, (k < S K')%nat -> (g < G)%nat -> 0 <= a k g) ->
  (forall g, (g < G)%nat -> rsum (S K') (fun k => a k g) = 1) ->
  (forall k, (k < S K')%nat -> 0 <= weight_mean RO G a k) /\ rsum (S K') (weight_mean RO G a) = 1.
Proof. intros HG Ha Hn. eapply weight_mean_valid; eauto. Qed.
Print Assumptions C01_weight_mean_valid.

Theorem C01_weight_saliency_valid (K' G : nat) (a : nat -> nat -> R) (s : nat -> R) (eps : R) :
  (forall k g, (k < S K')%nat -> (g < G)%nat -> 0 <= a k g) -> (forall g, (g < G)%nat -> 0 <= s g) ->
  0 < rsum (S K') (wsum RO G a s) ->
  (forall k, (k < S K')%nat -> 0 <= weight_sal RO K' G a s eps k) /\ rsum (S K') (weight_sal RO K' G a s eps) = 1.
Proof. intros Ha Hs Hp. eapply weight_sal_valid; eauto. Qed.
Print Assumptions C01_weight_saliency_valid.

(* initializers *)
Theorem C01_iid_normalised (K : nat) (u : nat -> R) :
  (forall k, (k < K)%nat -> 0 <= u k) -> 0 < rsum K u ->
  (forall k, (k < K)%nat -> 0 <= iid_norm RO K u k <= 1) /\ rsum K (iid_norm RO K u) = 1.
Proof. exact (iid_normalised K u). Qed.
Print Assumptions C01_iid_normalised.

Theorem C01_flag_exact (K : nat) (m : R) (lab : nat) :
  (1 <= K)%nat -> 0 < m < / INR K -> (lab < K)%nat ->
  forall k, (k < K)%nat ->
  flag_column RO K m lab k = if Nat.eqb k lab then 1 - (INR K - 1) * m else m.
Proof. exact (flag_exact K m lab). Qed.
Print Assumptions C01_flag_exact.

Theorem C01_deflation_column_valid (K' : nat) (eps : R) (sim : nat -> R) :
  0 <= eps -> (forall k, (k < K')%nat -> 0 <= sim k) ->
  (forall k, (k < S K')%nat -> 0 <= defl_column RO K' eps sim k <= 1) /\
  rsum (S K') (defl_column RO K' eps sim) = 1.
Proof. exact (deflation_column_valid K' eps sim). Qed.
Print Assumptions C01_deflation_column_valid.

(* non-vacuity: two classes, weights 1/2, equal log-pdfs, both active, tiny = 1/1000 *)
Example C01_hypotheses_satisfiable :
  let w := fun _ : nat => / 2 in let l := fun _ : nat => 0 in let b := fun _ : nat => true in
  / 1000 <= rsum 2 (unnorm RO 1 w l b).
Proof. cbn [rsum]. unfold unnorm, shifted, lmask. cbn [bmax]. unfold omax. cbn [oleb omul oexp oadd oopp obool o1 RO].
  destruct (Rleb 0 0); replace (0 + - 0) with 0 by ring; rewrite exp_0; lra. Qed.
