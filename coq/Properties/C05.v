(* C05 -- mixture training is equivariant under relabelling of the classes.
   Model: Model/Posterior.v (posterior column, weight updates), Model/Mixture.v (E/M steps of the mixture trainers: the SAME
   per-class map mstep_c / logpdf_c / quad_c applied to every class row, weight rules w_mean / w_sal / w_const / w_integ),
   Model/EM.v (the loop); instance RO; proofs: Proofs/Relabel.v.
   sigma is a permutation of the class indices 0..K' (is_perm (S K') sigma: the list sigma 0, ..., sigma K' is a permutation of
   0, ..., K').  The relabelled start is  fun k n => a (sigma k) n  (affiliation, quadratic form, source-activity mask).
   mstep_c, logpdf_c, quad_c are arbitrary: every one of the seven trainers (cACGMM, cWMM, cBMM, GMM, vMFMM, GCACGMM,
   vMF-cACGMM; Model/Mixture.v and Model/Trainers.v give their class-wise maps) is an instance. *)
From Coq Require Import Reals Lra List Permutation.
From PB Require Import Ops CLin Model.EM Model.Posterior Model.Trainers Model.Mixture Proofs.Relabel.
Import ListNotations.
Open Scope R_scope.

(* reductions over the class axis do not depend on the labelling *)
Theorem C05_class_sum_relabel (K : nat) (sigma : nat -> nat) (f : nat -> R) :
  is_perm K sigma -> rsum K (fun k => f (sigma k)) = rsum K f.
Proof. exact (rsum_relabel K sigma f). Qed.
Print Assumptions C05_class_sum_relabel.

Theorem C05_class_max_relabel (K' : nat) (sigma : nat -> nat) (f : nat -> R) :
  is_perm (S K') sigma -> bmax RO K' (fun k => f (sigma k)) = bmax RO K' f.
Proof. exact (bmax_relabel K' sigma f). Qed.
Print Assumptions C05_class_max_relabel.

(* posterior of the relabelled (weights, log-pdfs, mask) is the relabelled posterior; with and without clipping *)
Theorem C05_posterior_perm (K' : nat) (tiny eps : R) (w l : nat -> R) (b : nat -> bool) (sigma : nat -> nat) (k : nat) :
  is_perm (S K') sigma ->
  posterior RO K' tiny (fun k => w (sigma k)) (fun k => l (sigma k)) (fun k => b (sigma k)) k
  = posterior RO K' tiny w l b (sigma k) /\
  posterior_clipped RO K' tiny eps (fun k => w (sigma k)) (fun k => l (sigma k)) (fun k => b (sigma k)) k
  = posterior_clipped RO K' tiny eps w l b (sigma k).
Proof. exact (fun H => conj (posterior_perm K' tiny w l b sigma H k) (posterior_clipped_perm K' tiny eps w l b sigma H k)). Qed.
Print Assumptions C05_posterior_perm.

(* all weight rules: mean over the tied cells, saliency-weighted with L1 normalisation over the classes, class axis tied
   (1/K), and the rule of the integration models *)
Theorem C05_weights_perm (K' G : nat) (cells : nat -> nat -> nat) (s : nat -> R) (eps : R) (sigma : nat -> nat)
    (a : nat -> nat -> R) (k n : nat) :
  is_perm (S K') sigma ->
  let a' := fun k n => a (sigma k) n in
  w_mean RO G cells a' k n = w_mean RO G cells a (sigma k) n /\
  w_sal RO K' G cells s eps a' k n = w_sal RO K' G cells s eps a (sigma k) n /\
  w_const RO K' a' k n = w_const RO K' a (sigma k) n /\
  w_integ RO K' G cells s a' k n = w_integ RO K' G cells s a (sigma k) n.
Proof. exact (fun H => conj (w_mean_perm G cells sigma a k n) (conj (w_sal_perm K' G cells s eps sigma H a k n)
               (conj (w_const_perm K' sigma a k n) (w_integ_perm K' G cells s sigma H a k n)))). Qed.
Print Assumptions C05_weights_perm.

(* M-step: relabelled affiliation / quadratic form give relabelled weights and class parameters *)
Theorem C05_mstep_perm (Par : Type) (K' : nat) (wfun : (nat -> nat -> R) -> nat -> nat -> R)
    (mstep_c : (nat -> R) -> (nat -> R) -> Par) (sigma : nat -> nat) (g : mgamma (T:=R)) :
  (forall a k n, wfun (fun j m => a (sigma j) m) k n = wfun a (sigma k) n) ->
  let g' : mgamma (T:=R) := (fun k n => fst g (sigma k) n, fun k n => snd g (sigma k) n) in
  (forall k n, fst (mix_M Par wfun mstep_c g') k n = fst (mix_M Par wfun mstep_c g) (sigma k) n) /\
  (forall k, snd (mix_M Par wfun mstep_c g') k = snd (mix_M Par wfun mstep_c g) (sigma k)).
Proof. exact (fun Hw => mstep_perm Par wfun mstep_c sigma Hw g (fun k n => fst g (sigma k) n, fun k n => snd g (sigma k) n)
                          (fun _ _ => conj eq_refl eq_refl)). Qed.
Print Assumptions C05_mstep_perm.

(* E-step: relabelled model (and mask) give relabelled posteriors and quadratic forms *)
Theorem C05_estep_perm (Par : Type) (K' : nat) (tiny eps : R) (clip : bool) (b : nat -> nat -> bool)
    (logpdf_c quad_c : Par -> nat -> R) (sigma : nat -> nat) (t : mtheta (T:=R) Par) (k n : nat) :
  is_perm (S K') sigma ->
  let t' : mtheta (T:=R) Par := (fun k n => fst t (sigma k) n, fun k => snd t (sigma k)) in
  let b' := fun k n => b (sigma k) n in
  fst (mix_E RO Par K' tiny eps clip b' logpdf_c quad_c t') k n = fst (mix_E RO Par K' tiny eps clip b logpdf_c quad_c t) (sigma k) n /\
  snd (mix_E RO Par K' tiny eps clip b' logpdf_c quad_c t') k n = snd (mix_E RO Par K' tiny eps clip b logpdf_c quad_c t) (sigma k) n.
Proof. exact (fun H => estep_perm Par K' tiny eps clip b logpdf_c quad_c sigma H t
                         (fun k n => fst t (sigma k) n, fun k => snd t (sigma k)) (conj (fun _ _ => eq_refl) (fun _ => eq_refl)) k n). Qed.
Print Assumptions C05_estep_perm.

(* the loop: fit n (sigma.gamma0, sigma.mask) = sigma . fit n (gamma0, mask) and the same for the posteriors of predict,
   for every iteration count, every class-wise trainer, every weight rule that commutes with relabelling *)
Theorem C05_fit_perm (Par : Type) (K' : nat) (tiny eps : R) (clip : bool) (b : nat -> nat -> bool)
    (wfun : (nat -> nat -> R) -> nat -> nat -> R) (mstep_c : (nat -> R) -> (nat -> R) -> Par)
    (logpdf_c quad_c : Par -> nat -> R) (sigma : nat -> nat) (n : nat) (g0 : mgamma (T:=R)) :
  is_perm (S K') sigma ->
  (forall a k m, wfun (fun j m => a (sigma j) m) k m = wfun a (sigma k) m) ->
  let g0' : mgamma (T:=R) := (fun k m => fst g0 (sigma k) m, fun k m => snd g0 (sigma k) m) in
  let E  := mix_E RO Par K' tiny eps clip b logpdf_c quad_c in
  let E' := mix_E RO Par K' tiny eps clip (fun k m => b (sigma k) m) logpdf_c quad_c in
  let M  := mix_M Par wfun mstep_c in
  let t := fit E M n g0 in let t' := fit E' M n g0' in
  ((forall k m, fst t' k m = fst t (sigma k) m) /\ (forall k, snd t' k = snd t (sigma k))) /\
  (forall k m, fst (E' t') k m = fst (E t) (sigma k) m /\ snd (E' t') k m = snd (E t) (sigma k) m).
Proof. exact (fun H Hw => conj
   (fit_perm Par K' tiny eps clip b wfun mstep_c logpdf_c quad_c sigma H Hw n g0
      (fun k m => fst g0 (sigma k) m, fun k m => snd g0 (sigma k) m) (fun _ _ => conj eq_refl eq_refl))
   (predict_perm Par K' tiny eps clip b wfun mstep_c logpdf_c quad_c sigma H Hw n g0
      (fun k m => fst g0 (sigma k) m, fun k m => snd g0 (sigma k) m) (fun _ _ => conj eq_refl eq_refl))). Qed.
Print Assumptions C05_fit_perm.

(* a concrete instance with every hypothesis discharged: cACGMM (any eigh oracle, any options) with saliency weights *)
Theorem C05_fit_perm_cacgmm_saliency (D' N : nat) (tiny : R) (sal : nat -> R) (style_where herm : bool) (cov_norm : nat) (floor : R)
    (eigh : (nat -> nat -> Coquelicot.Complex.C) -> (nat -> nat -> Coquelicot.Complex.C) * (nat -> R))
    (z : nat -> nat -> Coquelicot.Complex.C)
    (K' G : nat) (cells : nat -> nat -> nat) (weps eps : R) (clip : bool) (b : nat -> nat -> bool)
    (sigma : nat -> nat) (n : nat) (g0 : mgamma (T:=R)) :
  is_perm (S K') sigma ->
  let g0' : mgamma (T:=R) := (fun k m => fst g0 (sigma k) m, fun k m => snd g0 (sigma k) m) in
  let lp := cacgmm_logpdf_c RO D' tiny style_where z in let qf := cacgmm_quad_c RO D' tiny style_where z in
  let E  := mix_E RO (cacg_par (T:=R)) K' tiny eps clip b lp qf in
  let E' := mix_E RO (cacg_par (T:=R)) K' tiny eps clip (fun k m => b (sigma k) m) lp qf in
  let M  := mix_M (cacg_par (T:=R)) (w_sal RO K' G cells sal weps)
                  (cacgmm_mstep_c RO D' N tiny sal style_where herm cov_norm floor eigh z) in
  let t := fit E M n g0 in let t' := fit E' M n g0' in
  (forall k m, fst t' k m = fst t (sigma k) m) /\ (forall k, snd t' k = snd t (sigma k)).
Proof. exact (fun H => fit_perm (cacg_par (T:=R)) K' tiny eps clip b (w_sal RO K' G cells sal weps)
      (cacgmm_mstep_c RO D' N tiny sal style_where herm cov_norm floor eigh z)
      (cacgmm_logpdf_c RO D' tiny style_where z) (cacgmm_quad_c RO D' tiny style_where z) sigma H
      (fun a k m => w_sal_perm K' G cells sal weps sigma H a k m) n g0
      (fun k m => fst g0 (sigma k) m, fun k m => snd g0 (sigma k) m) (fun _ _ => conj eq_refl eq_refl)). Qed.
Print Assumptions C05_fit_perm_cacgmm_saliency.

(* PARTIAL: with an inline permutation aligner (cACGMM / cWMM / cBMM) or the inline alignment of the integration models the
   E-step Ea breaks ties by class order.  Proved: if Ea commutes with relabelling from every state in Good (intended: every
   score matrix met from that state is tie-free) then the loop does along every run that stays inside Good.  NOT proved
   here: that the aligners of pb_bss satisfy this hypothesis for Good = tie-free (the aligners are the subject of C14-C16);
   with ties the statement is false in general (the harness reports such cases as outside the clause). *)
Theorem C05_fit_perm_aligner_partial (Par : Type) (K' : nat)
    (wfun : (nat -> nat -> R) -> nat -> nat -> R) (mstep_c : (nat -> R) -> (nat -> R) -> Par)
    (sigma : nat -> nat) (Ea Ea' : mtheta (T:=R) Par -> mgamma (T:=R)) (Good : mtheta (T:=R) Par -> Prop)
    (n : nat) (g0 : mgamma (T:=R)) :
  (forall a k m, wfun (fun j m => a (sigma j) m) k m = wfun a (sigma k) m) ->
  (forall t t', Good t -> RTs Par sigma t t' -> RGs sigma (Ea t) (Ea' t')) ->
  let M := mix_M Par wfun mstep_c in
  let g0' : mgamma (T:=R) := (fun k m => fst g0 (sigma k) m, fun k m => snd g0 (sigma k) m) in
  (forall i, (i < n - 1)%nat -> Good (fit_from Ea M i (M g0))) ->
  let t := fit Ea M n g0 in let t' := fit Ea' M n g0' in
  (forall k m, fst t' k m = fst t (sigma k) m) /\ (forall k, snd t' k = snd t (sigma k)).
Proof. exact (fun Hw HEa HG => fit_perm_aligner Par wfun mstep_c sigma Hw Ea Ea' Good HEa n g0
      (fun k m => fst g0 (sigma k) m, fun k m => snd g0 (sigma k) m) HG (fun _ _ => conj eq_refl eq_refl)). Qed.
Print Assumptions C05_fit_perm_aligner_partial.

(* an aligner applied after the shared E-step: commuting with relabelling on the E-step outputs of Good states is enough *)
Theorem C05_aligned_estep_perm (Par : Type) (K' : nat) (tiny eps : R) (clip : bool) (b : nat -> nat -> bool)
    (logpdf_c quad_c : Par -> nat -> R) (sigma : nat -> nat) (align : mgamma (T:=R) -> mgamma (T:=R))
    (Good : mtheta (T:=R) Par -> Prop) :
  is_perm (S K') sigma ->
  (forall t g', Good t -> RGs sigma (mix_E RO Par K' tiny eps clip b logpdf_c quad_c t) g' ->
                RGs sigma (align (mix_E RO Par K' tiny eps clip b logpdf_c quad_c t)) (align g')) ->
  forall t t', Good t -> RTs Par sigma t t' ->
  RGs sigma (mix_E_aligned RO Par K' tiny eps clip b logpdf_c quad_c align t)
            (mix_E_aligned RO Par K' tiny eps clip (fun k n => b (sigma k) n) logpdf_c quad_c align t').
Proof. exact (aligned_estep_perm Par K' tiny eps clip b logpdf_c quad_c sigma align Good). Qed.
Print Assumptions C05_aligned_estep_perm.

(* non-vacuity: the cyclic shift of three classes is a permutation *)
Example C05_hypotheses_satisfiable : is_perm 3 (fun k => match k with 0 => 1 | 1 => 2 | 2 => 0 | _ => k end)%nat.
Proof. unfold is_perm. cbn [map seq]. apply Permutation_sym. apply (Permutation_cons_app [1; 2]%nat []). apply Permutation_refl. Qed.
