(* C06 -- leading (frequency / batch) axes are independent problems: stack == stack of slices.
   Model: Model/Shape.v (numpy index bookkeeping on flat C-contiguous buffers, every rank), Model/EM.v (the loop);
   proofs: Proofs/Shape.v.  Sums are over the real-number instance RO.
   What the theorems say: the three mechanisms the code uses to carry leading axes -- reshape(-1, ...) around per-matrix
   helpers, broadcasting of singleton axes, einsum subscripts with a leading ellipsis -- act per leading index, for any
   number and size of leading axes; and an EM loop whose E- and M-step act per leading index (weights tied only inside a
   slice) has, at every leading index and for every iteration count, the trajectory of that slice run alone.
   That each concrete trainer / log_pdf of pb_bss IS such a per-index routine is the correspondence (stack vs slices on
   the implementation, and model-on-the-slice vs stacked implementation inside Coq), not a theorem. *)
From Coq Require Import List Arith Reals.
From PB Require Import Ops CLin Model.Shape Model.EM Proofs.Shape.
Import ListNotations.

(* ---- np.ravel_multi_index / np.unravel_index round trips, any rank *)
Theorem C06_unravel_ravel (sh idx : list nat) : in_shape sh idx -> unravel sh (ravel sh idx) = idx.
Proof. exact (unravel_ravel sh idx). Qed.
Print Assumptions C06_unravel_ravel.

Theorem C06_ravel_unravel (sh : list nat) (k : nat) :
  k < prod sh -> ravel sh (unravel sh k) = k /\ in_shape sh (unravel sh k).
Proof. exact (fun H => conj (ravel_unravel sh k H) (unravel_in_shape sh k H)). Qed.
Print Assumptions C06_ravel_unravel.

Theorem C06_ravel_in_range (sh idx : list nat) : in_shape sh idx -> ravel sh idx < prod sh.
Proof. exact (ravel_lt sh idx). Qed.
Print Assumptions C06_ravel_in_range.

(* a slice over the leading axes is a contiguous block: offset = (leading offset) * (slice size) + (offset in the slice) *)
Theorem C06_ravel_leading_trailing (lead tr idx j : list nat) : length idx = length lead ->
  ravel (lead ++ tr) (idx ++ j) = ravel lead idx * prod tr + ravel tr j.
Proof. exact (ravel_app lead tr idx j). Qed.
Print Assumptions C06_ravel_leading_trailing.

(* ---- x.reshape(-1, *tr) ; helper per row ; reshape(lead ++ tr')  (gaussian.py:26-35, 66-72, 106-112; utils.get_pca):
   the result at leading index idx is the helper applied to slice idx *)
Theorem C06_reshape_helper_per_slice (A B : Type) (lead tr tr' : list nat) (h : (list nat -> A) -> list nat -> B)
    (buf : nat -> A) (idx j : list nat) :
  length idx = length lead -> in_shape tr' j ->
  batched tr tr' h buf (ravel (lead ++ tr') (idx ++ j)) = h (slice lead tr buf idx) j.
Proof. exact (batched_slice A B lead tr tr' h buf idx j). Qed.
Print Assumptions C06_reshape_helper_per_slice.

Theorem C06_reshape_roundtrip (A : Type) (lead tr : list nat) (buf : nat -> A) (idx j : list nat) :
  length idx = length lead -> in_shape tr j ->
  batched tr tr (fun u => u) buf (ravel (lead ++ tr) (idx ++ j)) = buf (ravel (lead ++ tr) (idx ++ j)).
Proof. exact (reshape_roundtrip A lead tr buf idx j). Qed.
Print Assumptions C06_reshape_roundtrip.

(* ---- np.broadcast_to of singleton axes (cacgmm.py:215-217; the class axis y[..., None, :, :]) = repetition *)
Theorem C06_broadcast_singleton_is_repeat (A : Type) (src tgt : list nat) (buf : nat -> A) (idx : list nat) :
  in_shape tgt idx -> bview src buf idx = repeat_buf src tgt buf (ravel tgt idx).
Proof. exact (broadcast_singleton_is_repeat A src tgt buf idx). Qed.
Print Assumptions C06_broadcast_singleton_is_repeat.

Theorem C06_broadcast_reads_source (src tgt idx : list nat) :
  bcompat src tgt -> in_shape tgt idx -> offset (bstrides src) idx < prod src.
Proof. exact (broadcast_reads_source src tgt idx). Qed.
Print Assumptions C06_broadcast_reads_source.

(* every position along a singleton axis reads the same element; with all leading axes singletons every slice of the
   broadcast stack is the one slice that was given *)
Theorem C06_broadcast_singleton_axis_constant (A : Type) (sr : list nat) (buf : nat -> A) (i : nat) (ir : list nat) :
  bview (1 :: sr) buf (i :: ir) = bview (1 :: sr) buf (0 :: ir).
Proof. exact (broadcast_singleton_axis_constant A sr buf i ir). Qed.
Print Assumptions C06_broadcast_singleton_axis_constant.

Theorem C06_broadcast_all_singleton_leading (A : Type) (lead tr : list nat) (buf : nat -> A) (idx j : list nat) :
  length idx = length lead -> Forall (fun s => s = 1) lead ->
  bview (lead ++ tr) buf (idx ++ j) = bview tr buf j.
Proof. exact (broadcast_all_singleton_leading A lead tr buf idx j). Qed.
Print Assumptions C06_broadcast_all_singleton_leading.

(* ---- einsum('...<trailing> -> ...'): the flat contraction of the stack at leading index idx is the nested
   contraction of slice idx alone *)
Theorem C06_ellipsis_sum_slices (lead tr : list nat) (f : nat -> R) (idx : list nat) : length idx = length lead ->
  esum_flat RO (prod tr) f (ravel lead idx) = tsum RO tr (slice lead tr f idx).
Proof. exact (ellipsis_sum_slices lead tr f idx). Qed.
Print Assumptions C06_ellipsis_sum_slices.

(* two operands with their own trailing shapes ('...n,...nd->...d', '...dt,...de,...e,...ge,...gt->...t' pairwise, ...) *)
Theorem C06_einsum2_slices (lead tx ty tr : list nat) (ax ay : list nat -> list nat) (x y : nat -> R) (idx : list nat) :
  einsum2_stack RO lead tx ty tr ax ay x y idx
  = einsum2_slice RO tx ty tr ax ay (slice lead tx x idx) (slice lead ty y idx).
Proof. exact (einsum2_slices lead tx ty tr ax ay x y idx). Qed.
Print Assumptions C06_einsum2_slices.

Theorem C06_slice_is_block (A : Type) (lead tr : list nat) (buf : nat -> A) (idx j : list nat) :
  length idx = length lead -> slice lead tr buf idx j = buf (ravel lead idx * prod tr + ravel tr j).
Proof. exact (slice_is_block A lead tr buf idx j). Qed.
Print Assumptions C06_slice_is_block.

(* ---- the slice law of the loop.  Generic form: stack-level steps ES, MS and slice-level steps E, M, "restriction to the
   leading index" at_t / at_g, and the two ONE-STEP hypotheses (stated explicitly: they are what the correspondence
   establishes for each concrete trainer) *)
Theorem C06_fit_slice (ThetaS GammaS Theta Gamma : Type) (ES : ThetaS -> GammaS) (MS : GammaS -> ThetaS)
    (E : Theta -> Gamma) (M : Gamma -> Theta) (at_t : ThetaS -> Theta) (at_g : GammaS -> Gamma) :
  (forall g, at_t (MS g) = M (at_g g)) -> (forall t, at_g (ES t) = E (at_t t)) ->
  forall n g0, at_t (fit ES MS n g0) = fit E M n (at_g g0).
Proof. exact (fit_slice ThetaS GammaS Theta Gamma ES MS E M at_t at_g). Qed.
Print Assumptions C06_fit_slice.

Theorem C06_fit_from_slice (ThetaS GammaS Theta Gamma : Type) (ES : ThetaS -> GammaS) (MS : GammaS -> ThetaS)
    (E : Theta -> Gamma) (M : Gamma -> Theta) (at_t : ThetaS -> Theta) (at_g : GammaS -> Gamma) :
  (forall g, at_t (MS g) = M (at_g g)) -> (forall t, at_g (ES t) = E (at_t t)) ->
  forall n t, at_t (fit_from ES MS n t) = fit_from E M n (at_t t).
Proof. exact (fit_from_slice ThetaS GammaS Theta Gamma ES MS E M at_t at_g). Qed.
Print Assumptions C06_fit_from_slice.

(* structural form (hypotheses discharged): the stack is a family of slices, each with its own data and its own weights *)
Theorem C06_fit_slice_family (Ix Theta Gamma : Type) (E : Ix -> Theta -> Gamma) (M : Ix -> Gamma -> Theta)
    (n : nat) (g0 : Ix -> Gamma) (b : Ix) :
  fit (Estack Ix Theta Gamma E) (Mstack Ix Theta Gamma M) n g0 b = fit (E b) (M b) n (g0 b).
Proof. exact (fit_slice_family Ix Theta Gamma E M n g0 b). Qed.
Print Assumptions C06_fit_slice_family.

(* flat-buffer form (hypotheses discharged from C06_reshape_helper_per_slice): E and M are reshape(-1, ...) pipelines of
   per-slice routines e, m that only read entries inside their shapes *)
Theorem C06_fit_slice_flat (A G : Type) (lead trT trG : list nat)
    (e : (list nat -> A) -> list nat -> G) (m : (list nat -> G) -> list nat -> A) :
  (forall u v, (forall j, in_shape trT j -> u j = v j) -> forall j', in_shape trG j' -> e u j' = e v j') ->
  (forall u v, (forall j, in_shape trG j -> u j = v j) -> forall j', in_shape trT j' -> m u j' = m v j') ->
  forall n (g0 : nat -> G) idx, length idx = length lead -> forall j, in_shape trT j ->
  slice lead trT (fit (batched trT trG e) (batched trG trT m) n g0) idx j = fit e m n (slice lead trG g0 idx) j.
Proof. exact (fit_slice_flat A G lead trT trG e m). Qed.
Print Assumptions C06_fit_slice_flat.

(* an initial affiliation with singleton leading axes behaves as if it were repeated *)
Theorem C06_broadcast_init_is_repeated (Theta A : Type) (E : Theta -> (list nat -> A)) (M : (list nat -> A) -> Theta)
    (src tgt : list nat) (buf : nat -> A) (n : nat) :
  (forall u v, (forall idx, in_shape tgt idx -> u idx = v idx) -> M u = M v) ->
  fit E M n (bview src buf) = fit E M n (fun idx => repeat_buf src tgt buf (ravel tgt idx)).
Proof. exact (fit_broadcast_init_is_repeated Theta A E M src tgt buf n). Qed.
Print Assumptions C06_broadcast_init_is_repeated.

(* non-vacuity: shape (2,3,4), index (1,2,3) -> 23 and back; a (1,3) initial affiliation broadcast to (2,3) *)
Example C06_hypotheses_satisfiable :
  in_shape [2; 3; 4] [1; 2; 3] /\ ravel [2; 3; 4] [1; 2; 3] = 23 /\ unravel [2; 3; 4] 23 = [1; 2; 3] /\
  bcompat [1; 3] [2; 3] /\ offset (bstrides [1; 3]) [1; 2] = 2.
Proof. cbn. repeat split; auto with arith. Qed.
