(* Model/Shape.v -- numpy index bookkeeping used by the leading ("independent") axes of pb_bss/distribution:
     * C-order ravel / unravel of a multi-index (np.ravel_multi_index / np.unravel_index), strides;
     * `x.reshape(-1, *tr)`, a per-row helper, `reshape(lead ++ tr')` -- the pattern around the sklearn helpers in
       gaussian.py:26-35, 66-72, 106-112 and around eigh in pb_bss/utils.get_pca (`batched`);
     * np.broadcast_to of singleton axes (cacgmm.py:215-217, and the class axis y[..., None, :, :]): a view with
       stride 0 on every axis of size 1 (`bstrides`), versus the materialised repetition (`repeat_buf`);
     * an ellipsis-einsum contraction over all trailing axes on a flat buffer (`esum_flat`) versus the nested sum over
       the trailing multi-index of one slice (`tsum`).
   A tensor is a flat C-contiguous buffer `nat -> A` plus a shape `list nat`; a slice is an index function
   `list nat -> A`.  Every definition is for an arbitrary rank (recursion over the shape list). *)
From Coq Require Import List Arith.
From PB Require Import Ops.
Import ListNotations.

Fixpoint prod (sh : list nat) : nat := match sh with [] => 1 | s :: r => s * prod r end.

(* idx is a valid multi-index of an array of shape sh *)
Fixpoint in_shape (sh idx : list nat) : Prop :=
  match sh, idx with
  | [], [] => True
  | s :: sr, i :: ir => i < s /\ in_shape sr ir
  | _, _ => False
  end.
Fixpoint in_shapeb (sh idx : list nat) : bool :=
  match sh, idx with
  | [], [] => true
  | s :: sr, i :: ir => andb (Nat.ltb i s) (in_shapeb sr ir)
  | _, _ => false
  end.

(* C-order flat offset of a multi-index, and its inverse *)
Fixpoint ravel (sh idx : list nat) : nat :=
  match sh, idx with
  | s :: sr, i :: ir => i * prod sr + ravel sr ir
  | _, _ => 0
  end.
Fixpoint unravel (sh : list nat) (k : nat) : list nat :=
  match sh with
  | [] => []
  | s :: sr => (k / prod sr) :: unravel sr (k mod prod sr)
  end.

(* element strides of a C-contiguous array; offset of an index under arbitrary strides *)
Fixpoint strides (sh : list nat) : list nat :=
  match sh with [] => [] | s :: sr => prod sr :: strides sr end.
Fixpoint offset (st idx : list nat) : nat :=
  match st, idx with
  | t :: tr, i :: ir => i * t + offset tr ir
  | _, _ => 0
  end.

(* np.broadcast_to(src, tgt) with equal rank: stride 0 on the axes of size 1 *)
Fixpoint bstrides (src : list nat) : list nat :=
  match src with [] => [] | s :: sr => (if Nat.eqb s 1 then 0 else prod sr) :: bstrides sr end.
(* the source index a broadcast view reads: 0 on the singleton axes *)
Fixpoint bidx (src idx : list nat) : list nat :=
  match src, idx with
  | s :: sr, i :: ir => (if Nat.eqb s 1 then 0 else i) :: bidx sr ir
  | _, _ => []
  end.
(* shapes that broadcast_to accepts (same rank): every source axis is 1 or equals the target axis *)
Fixpoint bcompat (src tgt : list nat) : Prop :=
  match src, tgt with
  | [], [] => True
  | s :: sr, t :: tr => (s = 1 \/ s = t) /\ bcompat sr tr
  | _, _ => False
  end.

Section Buffers.
Variables A B : Type.
(* the broadcast view: element idx of np.broadcast_to(buf.reshape(src), tgt) *)
Definition bview (src : list nat) (buf : nat -> A) (idx : list nat) : A := buf (offset (bstrides src) idx).
(* the materialised repetition (np.tile / np.repeat along the singleton axes), as a new C-contiguous buffer of shape tgt *)
Definition repeat_buf (src tgt : list nat) (buf : nat -> A) : nat -> A :=
  fun k => buf (ravel src (bidx src (unravel tgt k))).

(* slice idx (over the leading axes `lead`) of a buffer of shape lead ++ tr, as an index function over tr *)
Definition slice (lead tr : list nat) (buf : nat -> A) (idx : list nat) : list nat -> A :=
  fun j => buf (ravel (lead ++ tr) (idx ++ j)).
(* row k of buf.reshape(-1, *tr) *)
Definition row (tr : list nat) (buf : nat -> A) (k : nat) : list nat -> A :=
  fun j => buf (k * prod tr + ravel tr j).
(* np.stack([h(r) for r in buf.reshape(-1, *tr)]).reshape(lead ++ tr') as a flat buffer: the leading shape is not
   needed to compute it -- that is the point of reshape(-1, ...) *)
Definition batched (tr tr' : list nat) (h : (list nat -> A) -> list nat -> B) (buf : nat -> A) : nat -> B :=
  fun p => h (row tr buf (p / prod tr')) (unravel tr' (p mod prod tr')).
End Buffers.
Arguments bview {A}. Arguments repeat_buf {A}. Arguments slice {A}. Arguments row {A}. Arguments batched {A B}.

Section Sums.
Context {T : Type} (P : ops T).
(* nested sum over a multi-index of shape tr: einsum('ij..->', .) of one slice *)
Fixpoint tsum (tr : list nat) (g : list nat -> T) : T :=
  match tr with
  | [] => g []
  | s :: r => bsum P s (fun i => tsum r (fun j => g (i :: j)))
  end.
(* einsum('...ij->...') on the flat buffer of the stack: result at flat leading index k, m = prod of the trailing shape *)
Definition esum_flat (m : nat) (f : nat -> T) (k : nat) : T := bsum P m (fun j => f (k * m + j)).
(* two operands with their own trailing shapes tx, ty; ax, ay select each operand's trailing index from the
   summation index j (e.g. '...n,...nd->...d' at output d: ax [n] = [n], ay [n] = [n; d]) *)
Definition einsum2_stack (lead tx ty tr : list nat) (ax ay : list nat -> list nat) (x y : nat -> T) (idx : list nat) : T :=
  tsum tr (fun j => omul P (x (ravel (lead ++ tx) (idx ++ ax j))) (y (ravel (lead ++ ty) (idx ++ ay j)))).
Definition einsum2_slice (tx ty tr : list nat) (ax ay : list nat -> list nat) (xs ys : list nat -> T) : T :=
  tsum tr (fun j => omul P (xs (ax j)) (ys (ay j))).
End Sums.
