(* Model/EM.v -- the loop every mixture trainer runs (cacgmm.py:252-279, cwmm.py/_fit, cbmm.py/_fit, gmm.py/_fit,
   vmfmm.py/_fit, gcacgmm.py/fit, vmfcacgmm.py/fit):
       model = None
       for iteration in range(n): if model is not None: gamma = E(model) ; model = M(gamma)
   over abstract types Theta (fitted model) and Gamma (E-step output: affiliation, plus the quadratic forms
   for the cACG-based models; an inline aligner is part of E). *)
From Coq Require Import List.
Section EM.
Variables Theta Gamma : Type.
Variables (E : Theta -> Gamma) (M : Gamma -> Theta).
Definition step (t : Theta) : Theta := M (E t).
(* start = fitted model (initialization=<model>): n times E then M *)
Definition fit_from (n : nat) (t : Theta) : Theta := Nat.iter n step t.
(* start = affiliation: M first, then n-1 times (E, M); n >= 1 *)
Definition fit (n : nat) (g0 : Gamma) : Theta := fit_from (n - 1) (M g0).
(* the whole trajectory of models after iteration 1, 2, ..., n *)
Fixpoint trajectory (n : nat) (t : Theta) : list Theta :=
  match n with 0 => nil | S k => t :: trajectory k (step t) end.
End EM.
Arguments step {Theta Gamma}. Arguments fit_from {Theta Gamma}. Arguments fit {Theta Gamma}.
Arguments trajectory {Theta Gamma}.

(* trainer object with a cached dimension and dimension-only tables (CWMMTrainer, CBMMTrainer,
   ComplexWatsonTrainer, ComplexBinghamTrainer): state machine over fit calls *)
Section Trainer.
Variables Args Res Table : Type.
Variable dim_of : Args -> nat.
Variable mk_table : nat -> Table.
Variable compute : Table -> Args -> Res.
Definition tstate := option (nat * Table).
Definition tfit (st : tstate) (a : Args) : tstate * option Res :=
  match st with
  | None => let t := mk_table (dim_of a) in (Some (dim_of a, t), Some (compute t a))
  | Some (d, t) => if Nat.eqb d (dim_of a) then (st, Some (compute t a)) else (st, None)  (* AssertionError *)
  end.
Definition trun (h : list Args) : tstate := fold_left (fun st a => fst (tfit st a)) h None.
End Trainer.
