(* Model/PSD.v -- get_power_spectral_density_matrix and condition_covariance
   (pb_bss/extraction/beamformer.py:59-160, 563-569), one leading index / one source at a time.
   x d t : observation, sensor d, frame t;  m t : the mask row of one source;  floor = 1e-10 as
   read from the implementation. The axis plumbing (sensor_dim / source_dim / time_dim) is not
   part of this function: the harness addresses the implementation's input and output arrays by
   the documented layout and hands the model one (leading index, source) problem at a time, so a
   layout mix-up in the code shows up as a disagreement. *)
From PB Require Import Ops.

Section PSD.
Context {T : Type} (P : ops T).
Variables (D Tn : nat) (x : nat -> nat -> cx (T:=T)) (m : nat -> T) (floor : T).

Definition mask_norm (normalize : bool) (t : nat) : T :=
  if normalize then odiv P (m t) (omax P (bsum P Tn m) floor) else m t.

(* mask given: einsum('...dt,...et->...de', mask * obs, obs.conj()) *)
Definition psd_masked (normalize : bool) (d e : nat) : cx :=
  csumO P Tn (fun t => cmul P (cscale P (mask_norm normalize t) (x d t)) (cconj P (x e t))).

(* no mask: einsum(obs, obs.conj()) / T *)
Definition psd_nomask (d e : nat) : cx :=
  cscale P (oinv P (onat P Tn)) (csumO P Tn (fun t => cmul P (x d t) (cconj P (x e t)))).
End PSD.

Section Cond.
Context {T : Type} (P : ops T).
Variables (D : nat) (A : nat -> nat -> cx (T:=T)) (gamma : T).
Definition ctrace : cx := csumO P D (fun i => A i i).
(* (x + gamma * trace(x)/D * I) / (1 + gamma) *)
Definition condition_cov (i j : nat) : cx :=
  let scale := cscale P (oinv P (onat P D)) (cscale P gamma ctrace) in
  cscale P (oinv P (oadd P (o1 P) gamma))
         (cadd P (A i j) (if Nat.eqb i j then scale else c0 P)).
End Cond.
