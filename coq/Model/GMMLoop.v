(* Model/GMMLoop.v -- the WHOLE fit of GMMTrainer for diagonal covariances as one executable function:
   Model.EM.fit instantiated with the concrete E-step (DiagonalGaussian.log_pdf + log_pdf_to_affiliation) and
   M-step (estimate_mixture_weight with the all-ones saliency the trainer substitutes + GaussianTrainer._fit
   'diagonal').  No oracle is involved, so the model runs n iterations on its own and the result is compared
   with the implementation's fit(..., iterations=n) -- a refinement check of the loop itself (start value,
   order of E and M, iteration count, what is handed from one step to the next).
   gmm.py:_fit/_m_step/predict, gaussian.py:DiagonalGaussian, mixture_model_utils.py *)
From Coq Require Import List.
From PB Require Import Ops Model.Posterior Model.Trainers Model.EM.
Import ListNotations.

Section GMM.
Context {T : Type} (P : ops T).
Variables (K' D N : nat) (tiny tinyw pi2 : T) (y : nat -> nat -> T).   (* y n d; pi2 = 2*pi *)
Let K := S K'.

(* fitted model: weight k, mean k d, variance k d  (materialised as lists so that evaluation does not recompute) *)
Record gmm := { gw : list T; gmean : list (list T); gvar : list (list T) }.
Definition nthT (l : list T) (i : nat) : T := nth i l (o0 P).
Definition nth2T (l : list (list T)) (i j : nat) : T := nth j (nth i l []) (o0 P).
Definition tabl {A} (n : nat) (f : nat -> A) : list A := map f (seq 0 n).

(* DiagonalGaussian.log_pdf: -D/2 ln(2 pi) + sum_d ln(1/sqrt var_d) - 1/2 sum_d ((y_d - mu_d)/sqrt var_d)^2 *)
Definition diag_log_pdf (m : gmm) (k n : nat) : T :=
  let pc := fun d => oinv P (osqrt P (nth2T (gvar m) k d)) in
  let half := oinv P (oadd P (o1 P) (o1 P)) in
  oadd P (oadd P (oopp P (omul P (omul P half (onat P D)) (oln P pi2)))
                 (bsum P D (fun d => oln P (pc d))))
         (oopp P (omul P half (bsum P D (fun d => let w := omul P (pc d) (osub P (y n d) (nth2T (gmean m) k d)) in omul P w w)))).

(* E-step: affiliation gamma k n (list of K rows of N entries) *)
Definition gmm_E (m : gmm) : list (list T) :=
  let cols := tabl N (fun n => tabl K (posterior P K' tiny (nthT (gw m)) (fun k => diag_log_pdf m k n) (fun _ => true))) in
  tabl K (fun k => tabl N (fun n => nth2T cols n k)).

(* M-step from an affiliation (rows = classes) *)
Definition gmm_M (g : list (list T)) : gmm :=
  let a := nth2T g in
  {| gw := tabl K (weight_sal P K' N a (fun _ => o1 P) tinyw);
     gmean := tabl K (fun k => tabl D (g_mean P N tiny y (a k)));
     gvar := tabl K (fun k => tabl D (g_cov_diag P N tiny y (a k))) |}.

Definition gmm_fit (n : nat) (g0 : list (list T)) : gmm := fit gmm_E gmm_M n g0.
(* covariance_type='spherical': one pooled variance per class (GaussianTrainer._fit 'spherical'); SphericalGaussian.log_pdf is
   the diagonal log-density with the D variances of a class equal (D * ln(1/sqrt v) = sum_d ln(1/sqrt v)), so the E-step is gmm_E
   on a record whose variance rows are constant *)
Definition gmm_M_sph (g : list (list T)) : gmm :=
  let a := nth2T g in
  {| gw := tabl K (weight_sal P K' N a (fun _ => o1 P) tinyw);
     gmean := tabl K (fun k => tabl D (g_mean P N tiny y (a k)));
     gvar := tabl K (fun k => let vk := g_cov_sph P D N tiny y (a k) in tabl D (fun _ => vk)) |}.
Definition gmm_fit_sph (n : nat) (g0 : list (list T)) : gmm := fit gmm_E gmm_M_sph n g0.
Definition gmm_predict (m : gmm) : list (list T) := gmm_E m.
End GMM.
