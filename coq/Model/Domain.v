(* Model/Domain.v -- the pieces of the trainers that decide the DOMAIN of the fitted parameters (C09) and are not
   already in Model/Posterior.v / Model/Trainers.v:
     complex_bingham.py:find_eigenvalues_v3 (after the least_squares oracle), ComplexBingham._remove_duplicate_eigenvalues,
     complex_angular_central_gaussian.py:covariance (U diag(lambda) U^H), complex_watson.py:_fit after get_pca (interp1d with
     fill_value=(0, max_concentration)), gcacgmm.py/vmfcacgmm.py:_m_step weight update, and the shape of the stored weights
     (mixture_model_utils.py:estimate_mixture_weight keepdims / np.squeeze in the integration models). *)
From Coq Require Import List.
From PB Require Import Ops.
Import ListNotations.

Section Bingham.
Context {T : Type} (P : ops T).
(* D = S D' eigenvalues, x 0 .. x (D'-1) the increments returned by least_squares (bounds (-max, -1e-8)).
   est = np.cumsum(np.array([*x, 0])[::-1])[::-1]:  est D' = 0, est i = est (i+1) + x i  (accumulated from the top) *)
Fixpoint bing_tail (D' : nat) (x : nat -> T) (k : nat) : T :=      (* est at index D' - k *)
  match k with 0%nat => o0 P | S k' => oadd P (bing_tail D' x k') (x (D' - S k')%nat) end.
Definition bing_est (D' : nat) (x : nat -> T) (i : nat) : T := bing_tail D' x (D' - i).
(* finite max_concentration: est = np.maximum(est, -max_concentration) *)
Definition bing_clip (maxc : T) (v : nat -> T) (i : nat) : T := omax P (v i) (oopp P maxc).
(* _remove_duplicate_eigenvalues on an ascending vector v (index 0..D'):
   diff = maximum(diff(v), eps);  out[0] = v[0];  out[1:] = v[0] + cumsum(diff) *)
Definition spread_diff (eps : T) (v : nat -> T) (i : nat) : T := omax P (osub P (v (S i)) (v i)) eps.
Fixpoint spread_cum (eps : T) (v : nat -> T) (k : nat) : T :=     (* cumsum(diff)[k] *)
  match k with 0%nat => spread_diff eps v 0%nat | S k' => oadd P (spread_cum eps v k') (spread_diff eps v (S k')) end.
Definition spread (eps : T) (v : nat -> T) (i : nat) : T :=
  match i with 0%nat => v 0%nat | S k => oadd P (v 0%nat) (spread_cum eps v k) end.
(* the value find_eigenvalues_v3 returns, in ascending position (the caller's order is a permutation of it) *)
Definition bing_post (finite : bool) (D' : nat) (maxc eps : T) (x : nat -> T) (i : nat) : T :=
  if finite then spread eps (bing_clip maxc (bing_est D' x)) i else bing_est D' x i.
End Bingham.

Section CacgCov.
Context {T : Type} (P : ops T).
(* ComplexAngularCentralGaussian.covariance: einsum('...wx,...x,...zx->...wz', U, lambda, conj U) *)
Definition cov_of_eig (D : nat) (U : nat -> nat -> cx (T:=T)) (lam : nat -> T) (d e : nat) : cx :=
  csumO P D (fun x => cmul P (cscale P (lam x) (U d x)) (cconj P (U e x))).
(* Rayleigh quotient u^H A u (real part) of column i of U, the residual A u - r u, and the Gram entries U^H U *)
Definition col (U : nat -> nat -> cx (T:=T)) (i : nat) (d : nat) : cx := U d i.
Definition cdotO (D : nat) (u v : nat -> cx (T:=T)) : cx := csumO P D (fun d => cmul P (cconj P (u d)) (v d)).
Definition cmvO (D : nat) (A : nat -> nat -> cx (T:=T)) (u : nat -> cx (T:=T)) (d : nat) : cx :=
  csumO P D (fun e => cmul P (A d e) (u e)).
Definition rayleigh (D : nat) (A U : nat -> nat -> cx (T:=T)) (i : nat) : T := fst (cdotO D (col U i) (cmvO D A (col U i))).
Definition eig_residual (D : nat) (A U : nat -> nat -> cx (T:=T)) (i d : nat) : cx :=
  csub P (cmvO D A (col U i) d) (cscale P (rayleigh D A U i) (U d i)).
Definition gram (D : nat) (U : nat -> nat -> cx (T:=T)) (i j : nat) : cx := cdotO D (col U i) (col U j).
End CacgCov.

Section Watson.
Context {T : Type} (P : ops T).
(* get_pca: eigenvector / eigenvalue of the LAST (largest) index D' of eigh's ascending output *)
Definition watson_mode (D' : nat) (U : nat -> nat -> cx (T:=T)) (d : nat) : cx := U d D'.
(* interp1d(bounds_error=False, fill_value=(0, max_concentration)) around the spline `inner` fitted on [lo, hi] *)
Definition interp_fill (lo hi maxc : T) (inner : T -> T) (x : T) : T :=
  if oltb P x lo then o0 P else if oltb P hi x then maxc else inner x.
Definition watson_conc (D' : nat) (lo hi maxc : T) (inner : T -> T) (ev : nat -> T) : T :=
  interp_fill lo hi maxc inner (ev D').
End Watson.

Section IntWeight.
Context {T : Type} (P : ops T).
(* gcacgmm.py / vmfcacgmm.py _m_step: weight = sum_g a*s over the tied cells; weight /= sum over classes (no guard) *)
Definition weight_int (K' G : nat) (a : nat -> nat -> T) (s : nat -> T) (k : nat) : T :=
  let w := fun j => bsum P G (fun g => omul P (a j g) (s g)) in
  omul P (w k) (oinv P (bsum P (S K') w)).
(* -2 in weight_constant_axis (or the int -2 for the other models): the constant 1/K *)
Definition weight_uniform (K : nat) : T := oinv P (onat P K).
End IntWeight.

(* ---- shapes (discrete): affiliation shape sh = [.., K, N]; axes are normalised (non-negative) positions ---- *)
Fixpoint mem_nat (i : nat) (l : list nat) : bool :=
  match l with [] => false | a :: r => orb (Nat.eqb a i) (mem_nat i r) end.
Fixpoint keepdims_from (pos : nat) (sh axes : list nat) : list nat :=
  match sh with [] => [] | n :: r => (if mem_nat pos axes then 1%nat else n) :: keepdims_from (S pos) r axes end.
Fixpoint squeeze_from (pos : nat) (sh axes : list nat) : list nat :=
  match sh with [] => [] | n :: r => if mem_nat pos axes then squeeze_from (S pos) r axes else n :: squeeze_from (S pos) r axes end.
(* estimate_mixture_weight: class axis tied (int) -> [K; 1]; otherwise np.mean/np.sum(..., keepdims=True) *)
Definition weight_shape_keepdims (sh axes : list nat) (class_axis_int : bool) : list nat :=
  if class_axis_int then [nth (length sh - 2) sh 0%nat; 1%nat] else keepdims_from 0 sh axes.
(* integration models: np.squeeze(weight, axis=weight_constant_axis); scalar 1/K when the class axis is tied *)
Definition weight_shape_squeeze (sh axes : list nat) : list nat :=
  if mem_nat (length sh - 2) axes then [] else squeeze_from 0 sh axes.
