(* Model/Masks.v -- the oracle masks of pb_bss/extraction/mask_module.py, one time-frequency point
   (source-axis masks) or one group of points sharing a threshold (quantile / Lorenz masks) at a time.
   The axis plumbing (source_axis / sensor_axis / axis tuples, keepdims, squeeze) is not part of these
   functions: the harness addresses the implementation's arrays by the documented layout and hands the
   model one point / one group; numpy's moveaxis order algorithm is modelled separately (discrete).
   [dv] is true division: on the real instance it is instantiated with [odiv RO] (= Rdiv by
   conversion), on binary64 with PrimFloat.div, so that threshold comparisons are decided exactly as
   numpy decides them.  eps / weight / fractions are arguments as in the code. *)
From Coq Require Import List Bool Arith.
From PB Require Import Ops.
Import ListNotations.

Section Point.
Context {T : Type} (P : ops T).
Variable dv : T -> T -> T.

(* numpy's strict comparison a < b (false when either side is NaN) *)
Definition sltb (a b : T) : bool := oleb P a b && negb (oleb P b a).
Definition is0 (a : T) : bool := oleb P a (o0 P) && oleb P (o0 P) a.
Definition cis0 (z : cx (T:=T)) : bool := is0 (fst z) && is0 (snd z).

(* np.argmax over indices 0..n: the first maximum *)
Fixpoint argmax_upto (n : nat) (f : nat -> T) : nat :=
  match n with
  | 0 => 0
  | S k => let j := argmax_upto k f in if sltb (f j) (f (S k)) then S k else j
  end.

(* ---- masks with optional sensor pooling: x k d, K sources, D sensors (D = 1: no sensor axis) ---- *)
Section Pooled.
Variables (K D : nat) (x : nat -> nat -> cx (T:=T)) (eps : T).
(* abs_square(signal).sum(sensor_axis) *)
Definition pooled (k : nat) : T := bsum P D (fun d => cabs2 P (x k d)).
(* argmax over the source axis == arange(K) *)
Definition ibm (k : nat) : T := obool P (Nat.eqb k (argmax_upto (pred K) pooled)).
(* mask /= mask.sum(source_axis) + eps *)
Definition wiener (k : nat) : T := dv (pooled k) (oadd P (bsum P K pooled) eps).
End Pooled.

(* ---- masks without sensor axis: s k ---- *)
Section Single.
Variables (K : nat) (s : nat -> cx (T:=T)) (eps : T).
Definition mag (k : nat) : T := cabs P (s k).                 (* np.abs *)
Definition mix : cx := csumO P K s.                            (* np.sum(signal, source_axis) *)
Definition irm (k : nat) : T := dv (mag k) (oadd P (bsum P K mag) eps).
Definition iam (k : nat) : T := dv (mag k) (oadd P (cabs P mix) eps).
(* complex true division a / b = a conj(b) / |b|^2 *)
Definition cdivt (a b : cx (T:=T)) : cx :=
  let d := cabs2 P b in let n := cmul P a (cconj P b) in (dv (fst n) d, dv (snd n) d).
Definition icm (k : nat) : cx := cdivt (s k) mix.
(* exp(i angle z); np.angle(0) = 0 *)
Definition cunit (z : cx (T:=T)) : cx :=
  if cis0 z then c1 P else let m := cabs P z in (dv (fst z) m, dv (snd z) m).
(* cos(angle a - angle b) *)
Definition cosdiff (a b : cx (T:=T)) : T := fst (cmul P (cunit a) (cconj P (cunit b))).
(* mask = |s|; mask /= |y| + eps; mask *= cos(theta) *)
Definition psm (k : nat) : T := omul P (dv (mag k) (oadd P (cabs P mix) eps)) (cosdiff (s k) mix).
End Single.

(* ---- order statistics ---- *)
Fixpoint insert_sorted (a : T) (l : list T) : list T :=
  match l with
  | [] => [a]
  | b :: r => if oleb P a b then a :: l else b :: insert_sorted a r
  end.
Definition sort_asc (l : list T) : list T := fold_right insert_sorted [] l.

(* floor of v clipped to [0, n]: the number of i in 1..n with i <= v *)
Fixpoint bfloor (n : nat) (v : T) : nat :=
  match n with 0 => 0 | S k => (if oleb P (onat P (S k)) v then 1 else 0) + bfloor k v end.

Definition half : T := dv (o1 P) (onat P 2).
(* numpy _lerp(a, b, t): a + (b-a) t, or b - (b-a)(1-t) where t >= 0.5 *)
Definition lerp (a b t : T) : T :=
  let d := osub P b a in
  if oleb P half t then osub P b (omul P d (osub P (o1 P) t)) else oadd P a (omul P d t).

(* np.percentile(l, qp) with the default 'linear' method (numpy 2.x): virtual index (n-1) * (qp/100) *)
Definition hundred : T := onat P 100.
Definition percentile (l : list T) (qp : T) : T :=
  let a := sort_asc l in let n := length l in
  let v := omul P (onat P (n - 1)) (dv qp hundred) in
  if oleb P (onat P (n - 1)) v then nth (n - 1) a (o0 P)
  else let lo := bfloor (n - 1) v in
       lerp (nth lo a (o0 P)) (nth (S lo) a (o0 P)) (osub P v (onat P lo)).

(* 0.5 + weight * (mask - 0.5) *)
Definition level (weight : T) (b : bool) : T := oadd P half (omul P weight (osub P (obool P b) half)).

(* quantile_mask for one scalar quantile on one group of magnitudes *)
Definition quantile_threshold (l : list T) (quantile : T) : T :=
  if oleb P (o0 P) quantile
  then percentile l (omul P (osub P (o1 P) quantile) hundred)
  else percentile l (omul P (oabs P quantile) hundred).
Definition quantile_hit (l : list T) (quantile : T) (xi : T) : bool :=
  let thr := quantile_threshold l quantile in
  if oleb P (o0 P) quantile then sltb thr xi else sltb xi thr.
Definition quantile_mask (l : list T) (quantile weight : T) : list T :=
  map (fun xi => level weight (quantile_hit l quantile xi)) l.

(* lorenz_mask for one group of (pooled) powers *)
Fixpoint cumsum_from (acc : T) (l : list T) : list T :=
  match l with [] => [] | a :: r => let c := oadd P acc a in c :: cumsum_from c r end.
Definition lsum (l : list T) : T := fold_left (oadd P) l (o0 P).
Definition omin_opt (m : option T) (a : T) : option T :=
  match m with None => Some a | Some b => Some (omin P b a) end.
(* np.min(sorted_power[lorenz_function < lorenz_fraction]); None = empty selection (numpy raises) *)
Definition lorenz_threshold (l : list T) (fraction : T) : option T :=
  let sorted := rev (sort_asc l) in            (* np.sort(power)[::-1] *)
  let total := lsum sorted in
  let share := map (fun c => dv c total) (cumsum_from (o0 P) sorted) in
  fold_left (fun m pq => if sltb (snd pq) fraction then omin_opt m (fst pq) else m)
            (combine sorted share) None.
Definition lorenz_mask (l : list T) (fraction weight : T) : option (list T) :=
  match lorenz_threshold l fraction with
  | None => None
  | Some thr => Some (map (fun p => level weight (sltb thr p)) l)
  end.
End Point.

(* ---- numpy.moveaxis: the axis order handed to transpose (axes already normalised to 0..nd-1) ---- *)
Fixpoint insert_at {A} (i : nat) (x : A) (l : list A) : list A :=
  match i, l with
  | 0, _ => x :: l
  | S j, [] => [x]
  | S j, y :: r => y :: insert_at j x r
  end.
Fixpoint insert_pair (p : nat * nat) (l : list (nat * nat)) : list (nat * nat) :=
  match l with
  | [] => [p]
  | q :: r => if (fst p <? fst q) || ((fst p =? fst q) && (snd p <=? snd q)) then p :: l else q :: insert_pair p r
  end.
Definition sort_pairs (l : list (nat * nat)) : list (nat * nat) := fold_right insert_pair [] l.
Definition mem_nat (x : nat) (l : list nat) : bool := existsb (Nat.eqb x) l.
(* order = [n for n in range(nd) if n not in source]; for dest, src in sorted(zip(destination, source)): order.insert(dest, src) *)
Definition moveaxis_order (nd : nat) (source destination : list nat) : list nat :=
  fold_left (fun order ds => insert_at (fst ds) (snd ds) order)
            (sort_pairs (combine destination source))
            (filter (fun n => negb (mem_nat n source)) (seq 0 nd)).
(* transposing by order1 and then by order2 is transposing by [order1[order2[i]]] *)
Definition compose_order (order1 order2 : list nat) : list nat := map (fun i => nth i order1 0) order2.
(* tmp_axis = (-1, -2, ..., -m) normalised *)
Definition tmp_axes (nd m : nat) : list nat := map (fun i => nd - 1 - i) (seq 0 m).
