(* Model/Posterior.v -- log_pdf_to_affiliation (pb_bss/distribution/mixture_model_utils.py:7-56) for ONE
   observation (one column over the class axis), estimate_mixture_weight (133-203) for one tied group,
   and the normalisation tails of the initializers (iid.py, deterministic.py:flag, deflation.py:80-88).
   Classes are an index function over k <= K' (K = S K' classes, so the maximum is always defined). *)
From PB Require Import Ops.

Section Shifted.
Context {T : Type} (P : ops T).
Variables (K' : nat) (l : nat -> T).
(* affiliation = exp(log_pdf - max log_pdf) *)
Definition shifted (k : nat) : T := oexp P (oadd P (l k) (oopp P (bmax P K' l))).
End Shifted.

Section Posterior.
Context {T : Type} (P : ops T).
Variables (K' : nat) (tiny eps : T) (w l : nat -> T) (b : nat -> bool).

(* log_pdf = where(source_activity_mask, log_pdf, -inf) BEFORE the maximum (fix c.f. DESIGN 0.3): the scaling is the largest
   log-pdf of an ACTIVE class, 0 when no class is active.  -inf is not a value of every instance (RO has none); an inactive
   class is given the active maximum instead - its exponential is multiplied by the mask's 0 either way, and the maximum
   over the classes is the same. *)
Fixpoint amax_opt (n : nat) : option T :=
  match n with
  | O => if b O then Some (l O) else None
  | S m => match amax_opt m with
           | None => if b (S m) then Some (l (S m)) else None
           | Some v => if b (S m) then Some (omax P v (l (S m))) else Some v
           end
  end.
Definition amax : T := match amax_opt K' with Some v => v | None => o0 P end.
Definition lmask (k : nat) : T := if b k then l k else amax.
(* affiliation *= weight ; affiliation *= source_activity_mask *)
Definition unnorm (k : nat) : T := omul P (omul P (shifted P K' lmask k) (w k)) (obool P (b k)).
(* denominator = maximum(sum, tiny) *)
Definition den : T := omax P (bsum P (S K') unnorm) tiny.
Definition posterior (k : nat) : T := omul P (unnorm k) (oinv P den).
(* np.clip(affiliation, eps, 1 - eps) : minimum(maximum(a, lo), hi) *)
Definition posterior_clipped (k : nat) : T :=
  omin P (omax P (posterior k) eps) (oadd P (o1 P) (oopp P eps)).
End Posterior.

Section Weights.
Context {T : Type} (P : ops T).
(* one tied group: Kn = S K' classes, G cells per class (the cells averaged over: observations and, for
   weight_constant_axis containing a leading axis, the leading indices too) *)
Variables (K' G : nat) (a : nat -> nat -> T) (s : nat -> T) (eps : T).

(* saliency is None: np.mean over the tied axes *)
Definition weight_mean (k : nat) : T := omul P (bsum P G (a k)) (oinv P (onat P G)).
(* saliency given: _unit_norm(sum_g a*s, ord=1, axis=-2, eps_style='where') *)
Definition wsum (k : nat) : T := bsum P G (fun g => omul P (a k g) (s g)).
Definition wnorm1 : T := bsum P (S K') (fun k => oabs P (wsum k)).
Definition weight_sal (k : nat) : T :=
  let n := wnorm1 in
  let n' := if andb (oleb P n (o0 P)) (oleb P (o0 P) n) then eps else n in
  omul P (wsum k) (oinv P n').
End Weights.

Section Init.
Context {T : Type} (P : ops T).
(* uniform_normalized / fit(num_classes=...): u / sum_k u *)
Definition iid_norm (K : nat) (u : nat -> T) (k : nat) : T := omul P (u k) (oinv P (bsum P K u)).
(* flag: one_hot -> maximum(init, m/(1-(K-1)m)) -> / sum over classes *)
Definition flag_floor (K : nat) (m : T) : T :=
  omul P m (oinv P (oadd P (o1 P) (oopp P (omul P (oadd P (onat P K) (oopp P (o1 P))) m)))).
Definition flag_raw (K : nat) (m : T) (lab k : nat) : T :=
  omax P (if Nat.eqb k lab then o1 P else o0 P) (flag_floor K m).
Definition flag_column (K : nat) (m : T) (lab k : nat) : T :=
  omul P (flag_raw K m lab k) (oinv P (bsum P K (flag_raw K m lab))).
(* deflationSeed tail: K-1 similarities, last = 1 - sum, maximum(., eps), / sum *)
Definition defl_raw (K' : nat) (eps : T) (sim : nat -> T) (k : nat) : T :=
  omax P (if Nat.eqb k K' then oadd P (o1 P) (oopp P (bsum P K' sim)) else sim k) eps.
Definition defl_column (K' : nat) (eps : T) (sim : nat -> T) (k : nat) : T :=
  omul P (defl_raw K' eps sim k) (oinv P (bsum P (S K') (defl_raw K' eps sim))).
End Init.
