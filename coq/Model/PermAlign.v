(* Model/PermAlign.v -- pb_bss/permutation_alignment.py and the inline alignment helpers of
   pb_bss/distribution/mixture_model_utils.py.

   Layout conventions.  The code keeps masks as (K, F, T) arrays and mappings as (K, F) arrays.
   * apply_mapping is modelled on index functions in exactly that layout.
   * The aligners are modelled on lists, frequency-major: a mask is a [list bin], one [bin] per
     frequency, a bin is the list of its K class rows, a row the list of its T frames; a mapping is a
     list (one entry per frequency) of index lists of length K.  The harness transposes the
     implementation's arrays accordingly, nothing else.
   * Scores are compared with an abstract strict order [ltb]; the numeric score matrices are written
     against the scalar interface [ops T] (instance RO for theorems, FO = binary64 for execution).
   No proofs in this file. *)
From Coq Require Import List Arith Bool ZArith.
From PB Require Import Ops.
Import ListNotations.

(* ------------------------------------------------------------------------------------------ *)
(* apply_mapping (permutation_alignment.py:54-104):  mask[mapping, range(F)]                   *)
Definition apply_mapping {A} (mask : nat -> nat -> A) (mapping : nat -> nat -> nat) : nat -> nat -> A :=
  fun k f => mask (mapping k f) f.

(* x[p] for an index list p (numpy fancy indexing along the first axis) *)
Definition permute {A} (d : A) (p : list nat) (l : list A) : list A := map (fun j => nth j l d) p.

(* mask.reshape(K, F*T) of a frequency-major mask: class row k = its rows of all bins, joined
   (OraclePermutationAlignment docstring: join frequency and time to solve a global permutation) *)
Definition flatten_bins {A} (K : nat) (bins : list (list (list A))) : list (list A) :=
  map (fun k => concat (map (fun b => nth k b []) bins)) (seq 0 K).

(* ------------------------------------------------------------------------------------------ *)
(* itertools.permutations(l): pick each element in positional order, then permute the rest     *)
Fixpoint picks {A} (l : list A) : list (A * list A) :=
  match l with
  | [] => []
  | x :: r => (x, r) :: map (fun p => (fst p, x :: snd p)) (picks r)
  end.
Fixpoint perms_fuel {A} (fuel : nat) (l : list A) : list (list A) :=
  match fuel with
  | 0 => [[]]
  | S f => match l with
           | [] => [[]]
           | _ => flat_map (fun p => map (cons (fst p)) (perms_fuel f (snd p))) (picks l)
           end
  end.
Definition all_perms {A} (l : list A) : list (list A) := perms_fuel (length l) l.

(* ------------------------------------------------------------------------------------------ *)
(* _mapping_from_score_matrix (permutation_alignment.py:469-589), one K x K matrix             *)
Section Assign.
Context {T : Type}.
Variable ltb : T -> T -> bool.              (* strict "less than" on scores *)

(* a cell of the working copy of the matrix: None = overwritten with -inf *)
Definition cell := option T.
Definition clt (a b : cell) : bool :=
  match a, b with
  | None, Some _ => true
  | Some x, Some y => ltb x y
  | _, None => false
  end.

(* np.argmax on the flattened matrix: first occurrence of the maximum *)
Fixpoint argmax_from {A} (key : A -> cell) (l : list A) (best : A) : A :=
  match l with
  | [] => best
  | c :: r => if clt (key best) (key c) then argmax_from key r c else argmax_from key r best
  end.

(* `for p in candidates: if score(p) > best_score: best = p`, best_score = -inf (None) at the start *)
Fixpoint scan_best {A} (score : A -> T) (l : list A) (best : option (A * T)) : option (A * T) :=
  match l with
  | [] => best
  | p :: r =>
      let s := score p in
      let better := match best with None => true | Some (_, bs) => ltb bs s end in
      scan_best score r (if better then Some (p, s) else best)
  end.

Variable K : nat.
Variable Sc : nat -> nat -> T.              (* Sc k_ref k_est *)

Definition memb (x : nat) (l : list nat) : bool := existsb (Nat.eqb x) l.
(* R, C: rows / columns already overwritten with -inf *)
Definition avail (R C : list nat) (p : nat * nat) : bool := negb (memb (fst p) R) && negb (memb (snd p) C).
Definition key (R C : list nat) (p : nat * nat) : cell :=
  if avail R C p then Some (Sc (fst p) (snd p)) else None.
Definition cells : list (nat * nat) := list_prod (seq 0 K) (seq 0 K).      (* row-major *)
Definition pick (R C : list nat) : nat * nat :=
  match cells with [] => (0, 0) | c :: r => argmax_from (key R C) r c end.
Fixpoint greedy (fuel : nat) (R C : list nat) (acc : list (nat * nat)) : list (nat * nat) :=
  match fuel with
  | 0 => acc
  | S f => let p := pick R C in greedy f (fst p :: R) (snd p :: C) (p :: acc)
  end.
(* reverse_permutation = zeros(K); reverse_permutation[i] = j for every pick (i, j) *)
Definition lookup (i : nat) (l : list (nat * nat)) : nat :=
  match find (fun p => Nat.eqb (fst p) i) l with Some p => snd p | None => 0 end.
Definition greedy_assign : list nat := map (fun i => lookup i (greedy K [] [] [])) (seq 0 K).

(* algorithm = 'optimal': score = sum(score_matrix[range(K), permutation]) (Python sum: from 0, left
   to right), strict improvement over itertools.permutations(range(K)) *)
Variables (add : T -> T -> T) (zero : T).
Definition perm_score (p : list nat) : T :=
  fold_left add (map (fun kp => Sc (fst kp) (snd kp)) (combine (seq 0 K) p)) zero.
Definition optimal_assign : list nat :=
  match scan_best perm_score (all_perms (seq 0 K)) None with Some (p, _) => p | None => [] end.
End Assign.

(* integer score matrices: the code overwrites picked rows / columns with np.iinfo(dtype).min (a value
   an entry may itself have) instead of -inf *)
Section AssignInt.
Open Scope Z_scope.
Variables (K : nat) (Sc : nat -> nat -> Z) (bottom : Z).
Definition key_int (R C : list nat) (p : nat * nat) : Z :=
  if avail R C p then Sc (fst p) (snd p) else bottom.
Fixpoint argmax_int (key : nat * nat -> Z) (l : list (nat * nat)) (best : nat * nat) : nat * nat :=
  match l with
  | [] => best
  | c :: r => if key best <? key c then argmax_int key r c else argmax_int key r best
  end.
Definition pick_int (R C : list nat) : nat * nat :=
  match cells K with [] => (0%nat, 0%nat) | c :: r => argmax_int (key_int R C) r c end.
Fixpoint greedy_int (fuel : nat) (R C : list nat) (acc : list (nat * nat)) : list (nat * nat) :=
  match fuel with
  | 0%nat => acc
  | S f => let p := pick_int R C in greedy_int f (fst p :: R) (snd p :: C) (p :: acc)
  end.
Definition greedy_assign_int : list nat := map (fun i => lookup i (greedy_int K [] [] [])) (seq 0 K).
End AssignInt.

(* ------------------------------------------------------------------------------------------ *)
(* _parameterized_vector_norm and _ScoreMatrix (permutation_alignment.py:358-419), one bin      *)
Inductive metric := Cos | Euclid | Multiply.

Section Score.
Context {T : Type} (P : ops T).
Variables (Tn : nat) (tiny : T).

(* a / np.maximum(np.linalg.norm(a), tiny) *)
Definition vnorm (x : nat -> T) : nat -> T :=
  let n := omax P (osqrt P (bsum P Tn (fun t => omul P (x t) (x t)))) tiny in
  fun t => odiv P (x t) n.
(* the score of one estimate row x against one reference row r:
   multiply:  einsum('K...T,k...T->...kK', mask.conj(), reference)[k, K] = sum_t mask[K,t] reference[k,t]
   cos:       multiply on the normalised rows
   euclidean: -sqrt(sum_t |mask[K,t] - reference[k,t]|**2) *)
Definition pair_multiply (x r : nat -> T) : T := bsum P Tn (fun t => omul P (x t) (r t)).
Definition pair_cos (x r : nat -> T) : T := pair_multiply (vnorm x) (vnorm r).
Definition pair_euclid (x r : nat -> T) : T :=
  oopp P (osqrt P (bsum P Tn (fun t => let d := osub P (x t) (r t) in omul P d d))).
Definition pair_score (m : metric) : (nat -> T) -> (nat -> T) -> T :=
  match m with Cos => pair_cos | Euclid => pair_euclid | Multiply => pair_multiply end.
(* score matrix entry [k_ref, k_est] *)
Definition score_fn (m : metric) (mask ref : nat -> nat -> T) (k ke : nat) : T :=
  pair_score m (mask ke) (ref k).
End Score.

(* ------------------------------------------------------------------------------------------ *)
(* DHTVPermutationAlignment.alignment_plan (permutation_alignment.py:204-293) on Z, Python range
   semantics; F = stft_size // 2 + 1; a segment is (iterations, start, end).                   *)
Definition seg := (Z * Z * Z)%type.
Fixpoint interleave (a b : list seg) : list seg :=
  match a, b with
  | x :: a', y :: b' => x :: y :: interleave a' b'
  | [], _ => b
  | _, [] => a
  end.

Section Plan.
Open Scope Z_scope.
Variables F start width shift main sub : Z.
(* len(range(start+shift, F-width, shift)) and len(range(start-shift, 0, -shift)) *)
Definition n_up : Z := if start + shift <? F - width then (F - width - (start + shift) + shift - 1) / shift else 0.
Definition n_dn : Z := if 0 <? start - shift then (start - shift + shift - 1) / shift else 0.
(* "alignment_plan_lower_start" (segments above the main one); the last one is stretched to F *)
Definition up : list seg :=
  map (fun i => let s := start + shift + Z.of_nat i * shift in
                (sub, s, if Z.of_nat i =? n_up - 1 then F else s + width)) (seq 0 (Z.to_nat n_up)).
(* "alignment_plan_higher_start" (segments below); the last one is stretched to 0 *)
Definition dn : list seg :=
  map (fun i => let s := start - shift - Z.of_nat i * shift in
                (sub, (if Z.of_nat i =? n_dn - 1 then 0 else s), s + width)) (seq 0 (Z.to_nat n_dn)).
Definition plan : list seg :=
  (main, (if 0 <? n_dn then start else 0), (if 0 <? n_up then start + width else F)) :: interleave up dn.
End Plan.
Definition stft_bins (stft_size : Z) : Z := (stft_size / 2 + 1)%Z.
Definition seg_nat (g : seg) : nat * nat * nat :=
  let '(n, s, e) := g in (Z.to_nat n, Z.to_nat s, Z.to_nat e).

(* ------------------------------------------------------------------------------------------ *)
(* the aligners on lists                                                                        *)
Section Aligners.
Context {T : Type} (P : ops T).
Variable tiny : T.

Definition row := list T.
Definition bin := list row.
Definition rowfn (r : row) (t : nat) : T := nth t r (o0 P).
Definition rget (b : bin) (k t : nat) : T := nth t (nth k b []) (o0 P).
Definition mget (M : list (list T)) (i j : nat) : T := nth j (nth i M []) (o0 P).
Definition mtab (K : nat) (f : nat -> nat -> T) : list (list T) :=
  map (fun i => map (f i) (seq 0 K)) (seq 0 K).

Definition assign (greedy_algo : bool) (K : nat) (M : list (list T)) : list nat :=
  if greedy_algo then greedy_assign (oltb P) K (mget M)
  else optimal_assign (oltb P) K (mget M) (oadd P) (o0 P).

Definition normalize_bin (Tn : nat) (b : bin) : bin :=
  map (fun r => map (vnorm P Tn tiny (rowfn r)) (seq 0 Tn)) b.

(* score matrix of one bin of `mask` against one bin of `reference_mask`, as a K x K table *)
Definition score_bins (m : metric) (K Tn : nat) (mask ref : bin) : list (list T) :=
  mtab K (score_fn P Tn tiny m (rget mask) (rget ref)).

(* OraclePermutationAlignment.calculate_mapping *)
Definition oracle (m : metric) (greedy_algo : bool) (K Tn : nat) (mask ref : list bin) : list (list nat) :=
  map (fun mr => assign greedy_algo K (score_bins m K Tn (fst mr) (snd mr))) (combine mask ref).

(* GreedyPermutationAlignment.calculate_mapping: adjacent-bin matrices, greedy assignment (the
   class' `algorithm` argument is not used by the code), identity for bin 0, then
   mapping[:, f] = mapping[mapping[:, f-1], f] for f = 1..F-1 *)
Fixpoint adjacent (m : metric) (K Tn : nat) (prev : bin) (rest : list bin) : list (list nat) :=
  match rest with
  | [] => []
  | b :: r => assign true K (score_bins m K Tn b prev) :: adjacent m K Tn b r
  end.
Fixpoint chain (prev : list nat) (ms : list (list nat)) : list (list nat) :=
  match ms with
  | [] => []
  | m :: r => let cur := permute 0 prev m in cur :: chain cur r
  end.
Definition greedy_chain (m : metric) (K Tn : nat) (mask : list bin) : list (list nat) :=
  match mask with
  | [] => []
  | b0 :: rest => seq 0 K :: chain (seq 0 K) (adjacent m K Tn b0 rest)
  end.

(* DHTVPermutationAlignment.calculate_mapping.  State: one (features, mapping) pair per bin. *)
Definition dstate := list (bin * list nat).
Definition is_id (K : nat) (p : list nat) : bool := if list_eq_dec Nat.eq_dec p (seq 0 K) then true else false.
(* np.mean(features[:, s:e, :], axis=1) *)
Definition centroid (K Tn s e : nat) (st : dstate) : bin :=
  let seg := firstn (e - s) (skipn s st) in
  let n := onat P (length seg) in
  map (fun k => map (fun t => odiv P (bsum P (length seg) (fun i => rget (fst (nth i seg ([], []))) k t)) n)
                    (seq 0 Tn)) (seq 0 K).
(* the score function DHTV installs: 'cos' -> multiply (features and centroid are pre-normalised) *)
Definition dhtv_metric (m : metric) : metric := match m with Euclid => Euclid | _ => Multiply end.
Definition dhtv_bin (m : metric) (g : bool) (K Tn : nat) (cent : bin) (s e : nat)
    (ix : nat * (bin * list nat)) : (bin * list nat) * bool :=
  let '(idx, (ft, mp)) := ix in
  if (s <=? idx) && (idx <? e) then
    let p := assign g K (score_bins (dhtv_metric m) K Tn ft cent) in
    if is_id K p then ((ft, mp), false) else ((permute [] p ft, permute 0 p mp), true)
  else ((ft, mp), false).
Definition dhtv_pass (m : metric) (g : bool) (K Tn s e : nat) (st : dstate) : dstate * bool :=
  let c0 := centroid K Tn s e st in
  let cent := match m with Cos => normalize_bin Tn c0 | _ => c0 end in
  let r := map (dhtv_bin m g K Tn cent s e) (combine (seq 0 (length st)) st) in
  (map fst r, existsb snd r).
Fixpoint dhtv_iter (m : metric) (g : bool) (K Tn : nat) (n s e : nat) (st : dstate) : dstate :=
  match n with
  | 0 => st
  | S n' => let '(st', changed) := dhtv_pass m g K Tn s e st in
            if changed then dhtv_iter m g K Tn n' s e st' else st'
  end.
Definition dhtv_init (m : metric) (K Tn : nat) (mask : list bin) : dstate :=
  map (fun b => (match m with Cos => normalize_bin Tn b | _ => b end, seq 0 K)) mask.
Definition dhtv_run (m : metric) (g : bool) (K Tn : nat) (pl : list (nat * nat * nat)) (mask : list bin) : dstate :=
  fold_left (fun st sg => let '(n, s, e) := sg in dhtv_iter m g K Tn n s e st) pl (dhtv_init m K Tn mask).
Definition dhtv (m : metric) (g : bool) (K Tn : nat) (pl : list (nat * nat * nat)) (mask : list bin) : list (list nat) :=
  map snd (dhtv_run m g K Tn pl mask).

(* applying a frequency-major mapping to frequency-major bins *)
Definition apply_bins {A} (maps : list (list nat)) (bins : list (list (list A))) : list (list (list A)) :=
  map (fun pb => permute [] (fst pb) (snd pb)) (combine maps bins).

(* apply_inline_permutation_alignment (mixture_model_utils.py:264-306): affiliation and quadratic
   form are (F, K, T), i.e. already frequency-major; calc = aligner.calculate_mapping *)
Definition inline_align (calc : list bin -> list (list nat)) (aff quad : list bin) : list bin * list bin :=
  let mp := calc aff in (apply_bins mp aff, apply_bins mp quad).

(* log_pdf_to_affiliation_for_integration_models_with_inline_pa (mixture_model_utils.py:58-130),
   the permutation search of one frequency: spatial / spectral are K x T log-pdfs *)
Section InlinePA.
Variables (K Tn : nat) (spatial spectral : nat -> nat -> T).
Definition ipa_logpdf (p : list nat) (k t : nat) : T := oadd P (spatial (nth k p 0) t) (spectral k t).
Definition ipa_aff (p : list nat) (k t : nat) : T :=
  let mx := bmax P (K - 1) (fun j => ipa_logpdf p j t) in
  let e := fun j => oexp P (osub P (ipa_logpdf p j t) mx) in
  odiv P (e k) (omax P (bsum P K e) tiny).
Definition ipa_aux (p : list nat) : T :=
  bsum P K (fun k => bsum P Tn (fun t => omul P (ipa_aff p k t) (ipa_logpdf p k t))).
Definition ipa_select : list nat :=
  match scan_best (oltb P) ipa_aux (all_perms (seq 0 K)) None with Some (p, _) => p | None => [] end.
End InlinePA.
End Aligners.
