(* Model/Calls.v -- call-level structure of the mixture trainers' `fit` (C20):
     * how a call starts: from an affiliation array, from a fitted model (cacgmm.py:218-224: initialization=<CACGMM>,
       the loop then begins with the E-step), or from num_classes (np.random.uniform draw from the global RNG,
       normalised over the class axis);
     * the global NumPy RNG as an explicit state threaded through the call;
     * consecutive fits continued from the returned model;
     * the symbolic "word" instance of the loop (which steps run, in which order) used by Run/C20.v. *)
From Coq Require Import List.
From PB Require Import Model.EM.
Import ListNotations.

Section Calls.
Variables Seed Theta Gamma : Type.
Variables (E : Theta -> Gamma) (M : Gamma -> Theta).
(* np.random.uniform(size=affiliation_shape) / sum over classes: value drawn, and the advanced generator state *)
Variable draw : Seed -> Gamma * Seed.

Inductive start := FromAffiliation (g : Gamma) | FromModel (t : Theta) | FromNumClasses.

(* one call of Trainer.fit(iterations = n): returned model and the generator state afterwards *)
Definition fit_call (n : nat) (s : start) (seed : Seed) : Theta * Seed :=
  match s with
  | FromAffiliation g => (fit E M n g, seed)
  | FromModel t => (fit_from E M n t, seed)
  | FromNumClasses => (fit E M n (fst (draw seed)), snd (draw seed))
  end.

(* fit(n1) from an affiliation, then fit(n) continued from the returned model for every n of the list *)
Definition fit_chain (n1 : nat) (rest : list nat) (g0 : Gamma) : Theta :=
  fold_left (fun t n => fit_from E M n t) rest (fit E M n1 g0).
End Calls.
Arguments FromAffiliation {Theta Gamma}. Arguments FromModel {Theta Gamma}. Arguments FromNumClasses {Theta Gamma}.
Arguments fit_call {Seed Theta Gamma}. Arguments fit_chain {Theta Gamma}.

(* the loop on words: true = M-step, false = E-step; Theta = Gamma = the list of steps executed so far *)
Definition Eword (t : list bool) : list bool := t ++ [false].
Definition Mword (g : list bool) : list bool := g ++ [true].
