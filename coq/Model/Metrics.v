(* Model/Metrics.v -- si_sdr (pb_bss/evaluation/module_si_sdr.py:36-56) and get_snr / set_snr /
   input_sxr / output_sxr (pb_bss/evaluation/sxr_module.py), real signals, one leading index at a
   time.  Signals are index functions (sample t, or source k / sensor d / sample t).  Division is
   multiplication by the reciprocal (odiv): on binary64 this differs from numpy's true division by
   one rounding, inside the stated tolerance.  Reductions run from index 0 upwards.
   The return value's *kind* (tuple / dict / TypeError) is modelled separately as a decision table
   that is a function of the truth test the code applies to return_dict. *)
From Coq Require Import List Bool Arith String.
From PB Require Import Ops.
Import ListNotations.

Section Scalar.
Context {T : Type} (P : ops T).
Definition ten : T := onat P 10.
Definition log10 (x : T) : T := odiv P (oln P x) (oln P ten).
(* 10 * np.log10(x) *)
Definition dB (x : T) : T := omul P ten (log10 x).
(* 10 ** y *)
Definition pow10 (y : T) : T := oexp P (omul P y (oln P ten)).
(* np.mean over n entries *)
Definition mean (n : nat) (f : nat -> T) : T := odiv P (bsum P n f) (onat P n).
(* get_variance_for_zero_mean_signal(x, axis=-1) for a real signal *)
Definition power (Tn : nat) (x : nat -> T) : T := mean Tn (fun t => omul P (x t) (x t)).
Definition ip (Tn : nat) (a b : nat -> T) : T := bsum P Tn (fun t => omul P (a t) (b t)).
End Scalar.

(* ---------------------------------------------------------------- si_sdr *)
Section SiSdr.
Context {T : Type} (P : ops T).
Variables (Tn : nat) (s e : nat -> T).      (* reference, estimation *)
Definition si_alpha : T := odiv P (ip P Tn s e) (ip P Tn s s).
Definition si_target (a : T) (t : nat) : T := omul P a (s t).          (* projection = alpha * reference *)
Definition si_noise (a : T) (t : nat) : T := osub P (e t) (si_target a t).   (* estimation - projection *)
Definition si_ratio : T :=
  let a := si_alpha in
  odiv P (ip P Tn (si_target a) (si_target a)) (ip P Tn (si_noise a) (si_noise a)).
Definition si_sdr : T := dB P si_ratio.
End SiSdr.

(* ---------------------------------------------------------------- get_snr / set_snr *)
Section Snr.
Context {T : Type} (P : ops T).
Variables (n : nat) (x nz : nat -> T).      (* flattened target and noise image, axis=None *)
Definition get_snr : T := dB P (odiv P (power P n x) (power P n nz)).
Definition twenty : T := onat P 20.
(* factor = 10 ** (-(snr - current_snr) / 20) *)
Definition snr_factor (snr cur : T) : T := pow10 P (odiv P (oopp P (osub P snr cur)) twenty).
(* set_snr(X, N, snr): N is rescaled (in place or as the second returned array) *)
Definition set_snr_noise (snr : T) (t : nat) : T := omul P (nz t) (snr_factor snr get_snr).
End Snr.

(* ---------------------------------------------------------------- input_sxr *)
Section InputSxr.
Context {T : Type} (P : ops T).
(* Sp[k, d] signal power of source k at sensor d, Np[d] noise power at sensor d *)
Variables (K D : nat) (Sp : nat -> nat -> T) (Np : nat -> T).
(* I[k, d] = np.sum(S[[n for n in range(K) if n != k], d]) *)
Definition in_I (k d : nat) : T := bsum P K (fun n => if Nat.eqb n k then o0 P else Sp n d).
(* average_channels: np.mean(power, axis=-1) *)
Definition avg_ch (avgc : bool) (f : nat -> T) (d : nat) : T := if avgc then mean P D f else f d.
Definition in_Sa avgc k d := avg_ch avgc (Sp k) d.
Definition in_Ia avgc k d := avg_ch avgc (in_I k) d.
Definition in_Na avgc d := avg_ch avgc Np d.
Definition in_sdr_lin avgc k d : T := odiv P (in_Sa avgc k d) (oadd P (in_Ia avgc k d) (in_Na avgc d)).
Definition in_sir_lin avgc k d : T := odiv P (in_Sa avgc k d) (in_Ia avgc k d).
Definition in_snr_lin avgc k d : T := odiv P (in_Sa avgc k d) (in_Na avgc d).
(* average_sources: np.mean(SXR, axis=0) of the dB values *)
Definition avg_src (avgs : bool) (f : nat -> T) (k : nat) : T := if avgs then mean P K f else f k.
Definition in_sdr avgc avgs k d : T := avg_src avgs (fun k => dB P (in_sdr_lin avgc k d)) k.
Definition in_sir avgc avgs k d : T := avg_src avgs (fun k => dB P (in_sir_lin avgc k d)) k.
Definition in_snr avgc avgs k d : T := avg_src avgs (fun k => dB P (in_snr_lin avgc k d)) k.
End InputSxr.

(* the powers of the signals handed to input_sxr: images[k, d, t], noise[d, t] *)
Section InputSxrSignals.
Context {T : Type} (P : ops T).
Variables (Tn : nat) (img : nat -> nat -> nat -> T) (noi : nat -> nat -> T).
Definition in_S (k d : nat) : T := power P Tn (img k d).
Definition in_N (d : nat) : T := power P Tn (noi d).
End InputSxrSignals.

(* ---------------------------------------------------------------- output selection *)
(* itertools.permutations(range(Kt), r=Ks): all injective length-r sequences, lexicographic *)
Fixpoint sels (r : nat) (avail : list nat) : list (list nat) :=
  match r with
  | 0 => [[]]
  | S r' => flat_map (fun x => map (cons x) (sels r' (remove Nat.eq_dec x avail))) avail
  end.

Section Select.
Context {T : Type} (P : ops T) {A : Type}.
Variable score : A -> T.
(* np.argmax: the first maximum is kept, a later candidate wins only by strict improvement *)
Fixpoint best_from (l : list A) (b : A) : A :=
  match l with [] => b | c :: r => if oltb P (score b) (score c) then best_from r c else best_from r b end.
Definition argmax_list (l : list A) (dflt : A) : A :=
  match l with [] => dflt | b :: r => best_from r b end.
End Select.

Section OutputSxr.
Context {T : Type} (P : ops T).
Variables (Ks Kt : nat) (Sm : nat -> nat -> T) (Nv : nat -> T).   (* S[k_source, k_target], N[k_target] *)
Definition mutual (sel : list nat) : T := bsum P Ks (fun k => Sm k (nth k sel 0)).
Definition out_select : list nat := argmax_list P mutual (sels Ks (seq 0 Kt)) [].
(* quantities for a given selection *)
Definition out_SS (sel : list nat) k : T := Sm k (nth k sel 0).
(* II[k] = np.sum(np.delete(S[:, selection[k]], k)) *)
Definition out_II (sel : list nat) k : T :=
  bsum P Ks (fun j => if Nat.eqb j k then o0 P else Sm j (nth k sel 0)).
Definition out_NN (sel : list nat) k : T := Nv (nth k sel 0).
Definition out_sdr_lin sel k : T := odiv P (out_SS sel k) (oadd P (out_II sel k) (out_NN sel k)).
Definition out_sir_lin sel k : T := odiv P (out_SS sel k) (out_II sel k).
Definition out_snr_lin sel k : T := odiv P (out_SS sel k) (out_NN sel k).
End OutputSxr.

Section OutputSxrSignals.
Context {T : Type} (P : ops T).
Variables (Ks Kt Tn : nat) (img : nat -> nat -> nat -> T) (noi : nat -> nat -> T).
Definition out_S (k j : nat) : T := power P Tn (img k j).
Definition out_N (j : nat) : T := power P Tn (noi j).
Definition out_sel : list nat := out_select P Ks Kt out_S.
Definition out_sdr avgs k : T := avg_src P Ks avgs (fun k => dB P (out_sdr_lin P Ks out_S out_N out_sel k)) k.
Definition out_sir avgs k : T := avg_src P Ks avgs (fun k => dB P (out_sir_lin P Ks out_S out_sel k)) k.
Definition out_snr avgs k : T := avg_src P Ks avgs (fun k => dB P (out_snr_lin P out_S out_N out_sel k)) k.
End OutputSxrSignals.

(* ---------------------------------------------------------------- kind of the returned value *)
(* the return_dict argument: a bool, a str (the key prefix), or any other object with its truth value *)
Inductive rdarg := RdBool (b : bool) | RdStr (prefix : string) | RdOther (truthy : bool).
Inductive rkind := KTuple | KDict (k1 k2 k3 : string) | KTypeError.
(* bool(return_dict) *)
Definition rd_truthy (rd : rdarg) : bool :=
  match rd with RdBool b => b | RdStr p => negb (String.eqb p EmptyString) | RdOther t => t end.
(* return_dict is True *)
Definition rd_is_true (rd : rdarg) : bool := match rd with RdBool true => true | _ => false end.
(* if <outer test>: if return_dict is True: dict; elif isinstance(return_dict, str): prefixed dict;
   else: raise TypeError;  else: ResultTuple *)
Definition rk_table (outer : rdarg -> bool) (rd : rdarg) : rkind :=
  if outer rd then
    if rd_is_true rd then KDict "sdr" "sir" "snr"
    else match rd with
         | RdStr p => KDict (p ++ "sdr") (p ++ "sir") (p ++ "snr")
         | _ => KTypeError
         end
  else KTuple.
(* input_sxr and (since the fix of sxr_module.py:263) output_sxr test `if return_dict:` *)
Definition input_return_kind : rdarg -> rkind := rk_table rd_truthy.
Definition output_outer_test : rdarg -> bool := rd_truthy.
Definition output_return_kind : rdarg -> rkind := rk_table output_outer_test.
