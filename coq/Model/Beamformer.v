(* Model/Beamformer.v -- pb_bss/extraction/beamformer.py, beamformer_wrapper.py, math/solve.py.
   One frequency bin / one leading index at a time unless a frequency index appears explicitly
   (reference-channel selection sums over bins, phase_correction runs along the bins of ONE leading
   index).  Vectors are [nat -> cx], matrices [nat -> nat -> cx] (row, column), stacks get a leading
   [nat].  The LAPACK leaves are not modelled: the functions below take the RESULT of the external
   routine as an argument
       x    = np.linalg.solve(A, b)        contract  A x = b
       phi  = stable_solve(Pn, Px)         contract  Pn phi = Px
       lam,U = np.linalg.eigh(Phi)         contract  Phi U = U diag lam, U^H U = U U^H = I, lam ascending
       lam,W = scipy.linalg.eigh/eig(A,B)  contract  A W = B W diag lam, W invertible, lam real
   and the theorems carry the contract as hypotheses.  Guards written by the code (eps = tiny) are
   parameters.  No proofs in this file. *)
From Coq Require Import List String Ascii Bool Arith DecimalString.
From PB Require Import Ops.
Local Open Scope string_scope.

(* first index of a maximum over 0..n  (np.argmax returns the first occurrence) *)
Section ArgMax.
Context {A : Type} (ltb : A -> A -> bool).
Fixpoint argmax_upto (f : nat -> A) (n : nat) : nat :=
  match n with
  | 0%nat => 0%nat
  | S k => let b := argmax_upto f k in if ltb (f b) (f (S k)) then S k else b
  end.
Definition argmax_first (n : nat) (f : nat -> A) : nat := argmax_upto f (n - 1).
End ArgMax.

Section Beam.
Context {T : Type} (P : ops T).
Variable D : nat.
Notation cxT := (cx (T:=T)).

Definition half : T := oinv P (oadd P (o1 P) (o1 P)).
(* u^H v, A x, u^H A v, trace *)
Definition bf_dot (u v : nat -> cxT) : cxT := csumO P D (fun i => cmul P (cconj P (u i)) (v i)).
Definition bf_mv (A : nat -> nat -> cxT) (x : nat -> cxT) (i : nat) : cxT :=
  csumO P D (fun j => cmul P (A i j) (x j)).
Definition bf_form (A : nat -> nat -> cxT) (u v : nat -> cxT) : cxT := bf_dot u (bf_mv A v).
Definition bf_trace (A : nat -> nat -> cxT) : cxT := csumO P D (fun i => A i i).
Definition bf_outer (a : nat -> cxT) (i j : nat) : cxT := cmul P (a i) (cconj P (a j)).
Definition bf_norm (v : nat -> cxT) : T := osqrt P (bsum P D (fun i => cabs2 P (v i))).

(* principal complex square root (np.sqrt on a complex scalar), cancellation-free form *)
Definition csqrt (z : cxT) : cxT :=
  let a := fst z in let b := snd z in let r := cabs P z in
  if oleb P (cabs2 P z) (o0 P) then c0 P else
  if oleb P (o0 P) a then
    let re := osqrt P (omul P (oadd P r a) half) in (re, odiv P (omul P b half) re)
  else
    let im0 := osqrt P (omul P (oadd P r (oopp P a)) half) in
    let im := if oleb P (o0 P) b then im0 else oopp P im0 in
    (odiv P (omul P b half) im, im).

(* ---------------- get_mvdr_vector (beamformer.py:230-260) ----------------
   noise_psd_matrix = 0.5 * (Pn + Pn^H);  numerator = solve(that, a);  w = numerator / (a^H numerator) *)
Definition herm_sym (A : nat -> nat -> cxT) (i j : nat) : cxT :=
  cscale P half (cadd P (A i j) (cconj P (A j i))).
Definition mvdr (a x : nat -> cxT) (i : nat) : cxT := cdiv P (x i) (bf_dot a x).

(* ---------------- get_lcmv_vector (beamformer.py:414-456) ----------------
   X k = solve(Pn, a_k);  gram[k,l] = a_k^H X_l;  t = solve(gram, r);  w = sum_k X_k t_k *)
Definition lcmv_gram (a X : nat -> nat -> cxT) (k l : nat) : cxT := bf_dot (a k) (X l).
Definition lcmv (K : nat) (X : nat -> nat -> cxT) (t : nat -> cxT) (d : nat) : cxT :=
  csumO P K (fun k => cmul P (X k d) (t k)).

(* ---------------- get_mvdr_vector_souden (beamformer.py:627-698) ----------------
   phi = stable_solve(Pn, Px); mat = phi / max(|trace phi|, eps); w = mat[:, ref] *)
Definition souden (phi : nat -> nat -> cxT) (eps : T) (r i : nat) : cxT :=
  cscale P (oinv P (omax P (cabs P (bf_trace phi)) eps)) (phi i r).

(* ---------------- get_wmwf_vector (beamformer.py:701-753), numeric distortion weight ----------
   filter = phi / (mu + trace phi); w = filter[:, ref] *)
Definition wmwf (phi : nat -> nat -> cxT) (mu : T) (r i : nat) : cxT :=
  cdiv P (phi i r) (cadd P (cre P mu) (bf_trace phi)).

(* ---------------- get_optimal_reference_channel (beamformer.py:601-624) ----------------
   SNR_R = sum_F w_R^H Px w_R / maximum(sum_F w_R^H Pn w_R, eps) with w_R = w_mat[F, :, R];
   np.maximum on complex numbers is lexicographic (real part first); argmax over SNR.real *)
Definition cmax_lex (x y : cxT) : cxT :=
  if oltb P (fst x) (fst y) then y else
  if oltb P (fst y) (fst x) then x else
  if oleb P (snd x) (snd y) then y else x.
Definition ref_snr (Fn : nat) (Wm Px Pn : nat -> nat -> nat -> cxT) (eps : T) (r : nat) : T :=
  let q := fun (A : nat -> nat -> nat -> cxT) =>
             csumO P Fn (fun f => bf_form (A f) (fun d => Wm f d r) (fun d => Wm f d r)) in
  fst (cdiv P (q Px) (cmax_lex (q Pn) (cre P eps))).
Definition ref_channel (Fn : nat) (Wm Px Pn : nat -> nat -> nat -> cxT) (eps : T) : nat :=
  argmax_first (oltb P) D (ref_snr Fn Wm Px Pn eps).

(* ---------------- get_pca / get_pca_vector (beamformer.py:163-224) ----------------
   eigh output ascending: the LAST column; scaling None / 'trace' / 'eigenvalue' *)
Inductive scaling := ScNone | ScTrace | ScEig.
Definition pca_vec (U : nat -> nat -> cxT) (d : nat) : cxT := U d (D - 1)%nat.
Definition pca_val (lam : nat -> T) : T := lam (D - 1)%nat.
Definition pca_scaled (sc : scaling) (Phi U : nat -> nat -> cxT) (lam : nat -> T) (d : nat) : cxT :=
  let v := pca_vec U in
  match sc with
  | ScNone => v d
  | ScTrace => cmul P (v d) (cscale P (oinv P (bf_norm v)) (csqrt (bf_trace Phi)))
  | ScEig => cscale P (odiv P (pca_val lam) (bf_norm v)) (v d)
  end.

(* ---------------- get_gev_vector (beamformer.py:292-411, python fallback) ----------------
   eigenvecs[:, argmax(eigenvals)]; eigh gives real eigenvalues, eig complex ones (np.argmax on
   complex numbers compares lexicographically) *)
Definition clt_lex (x y : cxT) : bool :=
  if oltb P (fst x) (fst y) then true else
  if oltb P (fst y) (fst x) then false else oltb P (snd x) (snd y).
Definition gev_vec (W : nat -> nat -> cxT) (lam : nat -> T) (d : nat) : cxT :=
  W d (argmax_first (oltb P) D lam).
Definition gev_vec_eig (W : nat -> nat -> cxT) (lam : nat -> cxT) (d : nat) : cxT :=
  W d (argmax_first clt_lex D lam).

(* ---------------- rank-one PSD estimates (beamformer_wrapper.py:11-68) ----------------
   a a^H * trace(cov) / trace(a a^H);  a = pca vector, or a = Pn w_gev *)
Definition rank1_est (cov : nat -> nat -> cxT) (a : nat -> cxT) (i j : nat) : cxT :=
  cmul P (cdiv P (bf_trace cov) (bf_trace (bf_outer a))) (bf_outer a i j).
Definition gev_atf (Pn : nat -> nat -> cxT) (w : nat -> cxT) : nat -> cxT := bf_mv Pn w.

(* ---------------- blind_analytic_normalization (beamformer.py:459-488) ----------------
   |sqrt(w^H Pn Pn w)| / sqrt(d conj d) with d = w^H Pn w, 0 where the denominator is 0.
   |sqrt z| is written sqrt |z| (equal; the code takes the complex root first, then abs). *)
Definition ban_factor (Pn : nat -> nat -> cxT) (w : nat -> cxT) : T :=
  let nom := bf_dot w (bf_mv Pn (bf_mv Pn w)) in
  let den := cabs P (bf_dot w (bf_mv Pn w)) in
  if oleb P den (o0 P) then o0 P else odiv P (osqrt P (cabs P nom)) den.
Definition ban (Pn : nat -> nat -> cxT) (w : nat -> cxT) (d : nat) : cxT :=
  cscale P (ban_factor Pn w) (w d).

(* ---------------- apply_beamforming_vector (beamformer.py:572-583) ---------------- *)
Definition apply_bf (w : nat -> cxT) (x : nat -> nat -> cxT) (t : nat) : cxT :=
  csumO P D (fun a => cmul P (cconj P (w a)) (x a t)).

(* ---------------- phase_correction (beamformer.py:517-560) ----------------
   w f d for ONE leading index; s g = sum_d conj(w[g+1,d]) w[g,d]; exp(1j*angle(s)) is the unit
   phasor of s (1 at s = 0); the factors are accumulated ALONG THE FREQUENCY INDEX. *)
Definition phasor (s : cxT) : cxT :=
  if oleb P (cabs2 P s) (o0 P) then c1 P else cscale P (oinv P (cabs P s)) s.
Definition pc_s (w : nat -> nat -> cxT) (g : nat) : cxT := bf_dot (w (S g)) (w g).
Fixpoint pc_cum (w : nat -> nat -> cxT) (f : nat) : cxT :=
  match f with 0%nat => c1 P | S g => cmul P (pc_cum w g) (phasor (pc_s w g)) end.
Definition phase_corr (w : nat -> nat -> cxT) (f d : nat) : cxT :=
  match f with 0%nat => w f d | S _ => cmul P (w f d) (pc_cum w f) end.
(* a stack (leading index l first) is processed slice by slice *)
Definition phase_corr_stack (w : nat -> nat -> nat -> cxT) (l f d : nat) : cxT := phase_corr (w l) f d.
End Beam.

(* ======================= get_bf_vector: the name grammar (beamformer_wrapper.py:117-236) ============ *)
(* s.endswith(suf): some suffix of s equals suf *)
Fixpoint str_endswith (s suf : string) : bool :=
  if String.eqb s suf then true else
  match s with EmptyString => false | String _ r => str_endswith r suf end.
Fixpoint str_take (n : nat) (s : string) : string :=
  match n, s with
  | S k, String c r => String c (str_take k r)
  | _, _ => EmptyString
  end.
(* s[:-m] (for m <= len s) and s[n:] *)
Definition str_drop_right (s : string) (m : nat) : string := str_take (String.length s - m) s.
Fixpoint str_drop (n : nat) (s : string) : string :=
  match n, s with
  | S k, String _ r => str_drop k r
  | _, _ => s
  end.
(* pat in s *)
Fixpoint str_contains (pat s : string) : bool :=
  if prefix pat s then true else
  match s with EmptyString => false | String _ r => str_contains pat r end.
Definition is_digit (c : ascii) : bool :=
  let n := nat_of_ascii c in andb (Nat.leb 48 n) (Nat.leb n 57).
Fixpoint all_digits (s : string) : bool :=
  match s with EmptyString => true | String c r => andb (is_digit c) (all_digits r) end.
(* str.isdigit(): non-empty and every character a digit (ASCII names only) *)
Definition str_isdigit (s : string) : bool :=
  match s with EmptyString => false | _ => all_digits s end.
Fixpoint nat_of_digits_acc (s : string) (acc : nat) : nat :=
  match s with EmptyString => acc
  | String c r => nat_of_digits_acc r (10 * acc + (nat_of_ascii c - 48)) end.
Definition str_int (s : string) : nat := nat_of_digits_acc s 0.
(* s.split('+') *)
Fixpoint split_plus_acc (s cur : string) : list string :=
  match s with
  | EmptyString => cur :: nil
  | String c r => if Ascii.eqb c "+"%char then cur :: split_plus_acc r EmptyString
                  else split_plus_acc r (cur ++ String c EmptyString)
  end.
Definition split_plus (s : string) : list string := split_plus_acc s EmptyString.
(* `x, _ = core.split('+')` : defined only when there are exactly two parts *)
Definition split_first_of_two (s : string) : option string :=
  match split_plus s with a :: _ :: nil => Some a | _ => None end.
Definition str_in (s : string) (l : list string) : bool := existsb (String.eqb s) l.

Section Dispatch.
(* the primitives the wrapper composes; keyword arguments travel inside them *)
Variables (Mat Vec : Type).
Variables (f_pca : Mat -> Vec) (f_gev_atf : Mat -> Mat -> Vec) (f_mvdr : Vec -> Mat -> Vec)
          (f_rank1_pca : Mat -> Mat) (f_rank1_gev : Mat -> Mat -> Mat)
          (f_souden f_gev f_wmwf : Mat -> Mat -> Vec) (f_unit : nat -> Mat -> Vec)
          (f_ban : Vec -> Mat -> Vec).

Definition get_atf (t : string) (Px Pn : Mat) : option Vec :=
  if String.eqb t "pca" then Some (f_pca Px)
  else if String.eqb t "scaled_gev_atf" then Some (f_gev_atf Px Pn) else None.
Definition get_rank1 (t : string) (Px Pn : Mat) : option Mat :=
  if String.eqb t "rank1_pca" then Some (f_rank1_pca Px)
  else if String.eqb t "rank1_gev" then Some (f_rank1_gev Px Pn) else None.

(* target PSD after the optional rank-one pre-step of a two-part core name *)
Definition pre_rank1 (plain core : string) (Px Pn : Mat) : option Mat :=
  if String.eqb core plain then Some Px else
  match split_first_of_two core with Some t => get_rank1 t Px Pn | None => None end.

Definition bf_core (core : string) (Px Pn : Mat) : option Vec :=
  if String.eqb core "pca" then Some (f_pca Px)
  else if str_in core ("pca+mvdr" :: "scaled_gev_atf+mvdr" :: nil) then
    match split_first_of_two core with
    | Some t => match get_atf t Px Pn with Some a => Some (f_mvdr a Pn) | None => None end
    | None => None end
  else if str_in core ("mvdr_souden" :: "rank1_pca+mvdr_souden" :: "rank1_gev+mvdr_souden" :: nil) then
    match pre_rank1 "mvdr_souden" core Px Pn with Some Px' => Some (f_souden Px' Pn) | None => None end
  else if str_in core ("gev" :: "rank1_pca+gev" :: "rank1_gev+gev" :: nil) then
    match pre_rank1 "gev" core Px Pn with Some Px' => Some (f_gev Px' Pn) | None => None end
  else if str_in core ("wmwf" :: "rank1_pca+wmwf" :: "rank1_gev+wmwf" :: nil) then
    match pre_rank1 "wmwf" core Px Pn with Some Px' => Some (f_wmwf Px' Pn) | None => None end
  else if andb (str_contains "ch" core) (str_isdigit (str_drop 2 core)) then
    Some (f_unit (str_int (str_drop 2 core)) Px)
  else None.

(* None = the call raises (assertion on 'lcmv', ValueError for an unknown name) *)
Definition get_bf_vector (name : string) (Px Pn : Mat) : option Vec :=
  if str_contains "lcmv" name then None else
  let ban := str_endswith name "+ban" in
  let core := if ban then str_drop_right name 4 else name in
  match bf_core core Px Pn with
  | Some w => Some (if ban then f_ban w Pn else w)
  | None => None
  end.
End Dispatch.

(* the structure a name spells: (rank-one pre-step, core beamformer, ban) *)
Inductive pre_t := PreNone | PreRank1Pca | PreRank1Gev.
Inductive core_t := CorePca | CorePcaMvdr | CoreGevAtfMvdr | CoreSouden | CoreGev | CoreWmwf | CoreCh (n : nat).
Record bf_spec := { sp_pre : pre_t; sp_core : core_t; sp_ban : bool }.

Section Compose.
Variables (Mat Vec : Type).
Variables (f_pca : Mat -> Vec) (f_gev_atf : Mat -> Mat -> Vec) (f_mvdr : Vec -> Mat -> Vec)
          (f_rank1_pca : Mat -> Mat) (f_rank1_gev : Mat -> Mat -> Mat)
          (f_souden f_gev f_wmwf : Mat -> Mat -> Vec) (f_unit : nat -> Mat -> Vec)
          (f_ban : Vec -> Mat -> Vec).
Definition compose (s : bf_spec) (Px Pn : Mat) : Vec :=
  let Px' := match sp_pre s with
             | PreNone => Px | PreRank1Pca => f_rank1_pca Px | PreRank1Gev => f_rank1_gev Px Pn end in
  let w := match sp_core s with
           | CorePca => f_pca Px'
           | CorePcaMvdr => f_mvdr (f_pca Px') Pn
           | CoreGevAtfMvdr => f_mvdr (f_gev_atf Px' Pn) Pn
           | CoreSouden => f_souden Px' Pn
           | CoreGev => f_gev Px' Pn
           | CoreWmwf => f_wmwf Px' Pn
           | CoreCh n => f_unit n Px'
           end in
  if sp_ban s then f_ban w Pn else w.
End Compose.

(* parse alone: the dispatcher run on symbolic primitives that record which one was called *)
Inductive sym_mat := SPx | SR1Pca | SR1Gev.
Inductive sym_vec := SV (pre : pre_t) (core : core_t) (ban : bool).
Definition sym_pre (m : sym_mat) : pre_t :=
  match m with SPx => PreNone | SR1Pca => PreRank1Pca | SR1Gev => PreRank1Gev end.
Definition parse_bf (name : string) : option bf_spec :=
  let mk := fun c (m : sym_mat) (_ : sym_mat) => SV (sym_pre m) c false in
  match get_bf_vector sym_mat sym_vec
          (fun m => SV (sym_pre m) CorePca false)
          (fun m _ => SV (sym_pre m) CoreGevAtfMvdr false)
          (fun a _ => match a with
                      | SV p CorePca _ => SV p CorePcaMvdr false
                      | SV p c _ => SV p c false end)
          (fun _ => SR1Pca) (fun _ _ => SR1Gev)
          (mk CoreSouden) (mk CoreGev) (mk CoreWmwf)
          (fun n m => SV (sym_pre m) (CoreCh n) false)
          (fun w _ => match w with SV p c _ => SV p c true end)
          name SPx SPx with
  | Some (SV p c b) => Some {| sp_pre := p; sp_core := c; sp_ban := b |}
  | None => None
  end.

(* every name get_bf_vector accepts besides the family ch<digits>: 12 cores, each with and without '+ban' *)
Definition bf_core_table : list (string * (pre_t * core_t)) :=
  ("pca", (PreNone, CorePca)) ::
  ("pca+mvdr", (PreNone, CorePcaMvdr)) ::
  ("scaled_gev_atf+mvdr", (PreNone, CoreGevAtfMvdr)) ::
  ("mvdr_souden", (PreNone, CoreSouden)) ::
  ("rank1_pca+mvdr_souden", (PreRank1Pca, CoreSouden)) ::
  ("rank1_gev+mvdr_souden", (PreRank1Gev, CoreSouden)) ::
  ("gev", (PreNone, CoreGev)) ::
  ("rank1_pca+gev", (PreRank1Pca, CoreGev)) ::
  ("rank1_gev+gev", (PreRank1Gev, CoreGev)) ::
  ("wmwf", (PreNone, CoreWmwf)) ::
  ("rank1_pca+wmwf", (PreRank1Pca, CoreWmwf)) ::
  ("rank1_gev+wmwf", (PreRank1Gev, CoreWmwf)) :: nil.
(* decimal spelling of a channel number, as str(n) prints it *)
Definition str_of_nat (n : nat) : string := NilEmpty.string_of_uint (Nat.to_uint n).
Definition ch_names (n : nat) : list (string * (pre_t * core_t)) :=
  map (fun k => ("ch" ++ str_of_nat k, (PreNone, CoreCh k))) (seq 0 n).
Definition bf_name_table : list (string * bf_spec) :=
  flat_map (fun e => (fst e, {| sp_pre := fst (snd e); sp_core := snd (snd e); sp_ban := false |}) ::
                     (fst e ++ "+ban", {| sp_pre := fst (snd e); sp_core := snd (snd e); sp_ban := true |}) :: nil)
           (bf_core_table ++ ch_names 30).
