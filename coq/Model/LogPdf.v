(* Model/LogPdf.v -- log_pdf of the six distribution families of pb_bss/distribution, one
   (leading index, evaluation point) at a time, as the code computes it:
     gaussian.py  Gaussian / DiagonalGaussian / SphericalGaussian
     complex_circular_symmetric_gaussian.py, von_mises_fisher.py, complex_watson.py,
     complex_bingham.py, complex_angular_central_gaussian.py
   Outputs of external numeric routines are arguments (oracles): the precision Cholesky factor Pm
   of the full Gaussian (sklearn _compute_precision_cholesky), slogdet and solve of the complex
   Gaussian, scipy.special.ive / hyp1f1 for vMF / Watson, and the stored eigenvectors / eigenvalues
   of Bingham and cACG.  [pi] is np.pi, [tiny] is np.finfo(float64).tiny, [eps] the 1e-8 of the
   Bingham duplicate-eigenvalue spreading.  The leading-axes plumbing is not modelled: the harness
   addresses the implementation's arrays by the documented layout and hands the model one slice.
   The full-covariance Gaussian whitens with the TRANSPOSED factor (Pm^T d, einsum
   '...Dd,...nD->...nd'), the orientation sklearn itself uses; [white_rows] is the orientation
   '...dD,...nD->...nd' (Pm d), kept only for the refutation theorem. *)
From Coq Require Import List.
From PB Require Import Ops.
Import ListNotations.

Section LogPdf.
Context {T : Type} (P : ops T).
Variable pi : T.

Local Notation "a +. b" := (oadd P a b) (at level 50, left associativity).
Local Notation "a -. b" := (osub P a b) (at level 50, left associativity).
Local Notation "a *. b" := (omul P a b) (at level 40, left associativity).
Local Notation "a /. b" := (odiv P a b) (at level 40, left associativity).

Definition two : T := o1 P +. o1 P.
Definition half : T := oinv P two.
Fixpoint opow (x : T) (n : nat) : T := match n with 0%nat => o1 P | S k => opow x k *. x end.
Fixpoint ofact (n : nat) : T := match n with 0%nat => o1 P | S k => ofact k *. onat P (S k) end.
Definition sumsq (D : nat) (w : nat -> T) : T := bsum P D (fun k => w k *. w k).

(* ------------------------------------------------------------------ real Gaussians *)
Section Gauss.
Variables (D : nat) (mu y : nat -> T).
Definition gdiff (i : nat) : T := y i -. mu i.
(* - 1 / 2 * D * np.log(2 * np.pi) + log_det_precision_cholesky - 1 / 2 * sum(white ** 2) *)
Definition gauss_core (ldet : T) (white : nat -> T) : T :=
  oopp P (half *. onat P D *. oln P (two *. pi)) +. ldet -. half *. sumsq D white.

(* full covariance; Pm = precision_cholesky (sklearn: Sigma^-1 = Pm Pm^T, Pm upper triangular) *)
Variable Pm : nat -> nat -> T.
Definition white_T (k : nat) : T := bsum P D (fun i => Pm i k *. gdiff i).      (* (Pm^T d)_k *)
Definition white_rows (k : nat) : T := bsum P D (fun i => Pm k i *. gdiff i).   (* (Pm d)_k   *)
(* _compute_log_det_cholesky(pc, 'full', D): sum of the logs of the diagonal *)
Definition ldet_full : T := bsum P D (fun k => oln P (Pm k k)).
Definition gauss_full_logpdf : T := gauss_core ldet_full white_T.
Definition gauss_full_logpdf_rows : T := gauss_core ldet_full white_rows.

(* diagonal covariance cov i: precision_cholesky = 1/sqrt(cov), log det = sum log *)
Variable cov : nat -> T.
Definition pc_diag (i : nat) : T := oinv P (osqrt P (cov i)).
Definition ldet_diag : T := bsum P D (fun i => oln P (pc_diag i)).
Definition gauss_diag_logpdf : T := gauss_core ldet_diag (fun i => pc_diag i *. gdiff i).

(* spherical covariance c: precision_cholesky = 1/sqrt(c), log det = D * log *)
Variable c : T.
Definition pc_sph : T := oinv P (osqrt P c).
Definition ldet_sph : T := onat P D *. oln P pc_sph.
Definition gauss_sph_logpdf : T := gauss_core ldet_sph (fun i => pc_sph *. gdiff i).
End Gauss.

(* ------------------------------------------------------------------ complex Gaussian *)
(* - D log(pi) - slogdet(Sigma)[1] - Re( sum_d conj(y_d) * solve(Sigma, y)_d ) *)
Definition ccsg_logpdf (D : nat) (y : nat -> cx (T:=T)) (logabsdet : T) (sol : nat -> cx (T:=T)) : T :=
  oopp P (onat P D *. oln P pi) -. logabsdet
  -. fst (csumO P D (fun d => cmul P (cconj P (y d)) (sol d))).

(* ------------------------------------------------------------------ von Mises-Fisher *)
Section VMF.
Variables (D : nat) (mu y : nat -> T) (kappa ive tiny : T).
Definition halfD : T := onat P D /. two.
(* y / max(||y||, tiny) *)
Definition vmf_unit (d : nat) : T := y d /. omax P (osqrt P (sumsq D y)) tiny.
Definition vmf_lognorm : T :=
  halfD *. oln P (two *. pi) +. oln P ive +. (oabs P kappa -. (halfD -. o1 P) *. oln P kappa).
Definition vmf_logpdf : T := bsum P D (fun d => vmf_unit d *. mu d) *. kappa -. vmf_lognorm.
End VMF.

(* partial sum of  sum_m (kappa^2/4)^m / (m! (D/2)_m)  ( = Gamma(D/2) (kappa/2)^(1-D/2) I_{D/2-1}(kappa) ),
   accumulated term by term: t_0 = 1, t_(m+1) = t_m * (kappa^2/4) / ((m+1) (D/2+m)) *)
Fixpoint bessel_sum_aux (q hD : T) (n : nat) (m : nat) (t acc : T) : T :=
  match n with
  | 0%nat => acc
  | S n' => let t' := t *. q /. (onat P (S m) *. (hD +. onat P m)) in
            bessel_sum_aux q hD n' (S m) t' (acc +. t')
  end.
Definition bessel_sum (D : nat) (kappa : T) (n : nat) : T :=
  bessel_sum_aux (kappa *. kappa /. (two *. two)) (halfD D) n 0 (o1 P) (o1 P).

(* Gamma(n/2), n >= 1, by the recurrence from Gamma(1/2) = sqrt(pi), Gamma(1) = 1 *)
Fixpoint ogamma_half (n : nat) : T :=
  match n with
  | 0%nat => o0 P
  | S 0%nat => osqrt P pi
  | S (S m) => match m with 0%nat => o1 P | _ => onat P m /. two *. ogamma_half m end
  end.
(* the vMF log-normaliser with I_{D/2-1}(kappa) replaced by the n-th partial sum of its series:
   log( (2 pi)^(D/2) * [ (kappa/2)^(D/2-1) / Gamma(D/2) * bessel_sum ] / kappa^(D/2-1) ) *)
Definition vmf_lognorm_series (D : nat) (kappa : T) (n : nat) : T :=
  halfD D *. oln P (two *. pi)
  +. ((halfD D -. o1 P) *. oln P (kappa /. two) -. oln P (ogamma_half D) +. oln P (bessel_sum D kappa n))
  -. (halfD D -. o1 P) *. oln P kappa.

(* ------------------------------------------------------------------ complex Watson *)
Section Watson.
Variables (D : nat) (mu y : nat -> cx (T:=T)) (kappa h1f1 : T).
(* hyp1f1(1, D, kappa) * (2 pi^D / (D-1)!) *)
Definition watson_lognorm : T := oln P (h1f1 *. (two *. opow pi D /. ofact (D - 1))).
Definition watson_logpdf : T :=
  cabs2 P (csumO P D (fun d => cmul P (y d) (cconj P (mu d)))) *. kappa -. watson_lognorm.
End Watson.

(* partial sum of Kummer's series 1F1(1; D; kappa) = sum_m kappa^m / (D)_m *)
Fixpoint kummer_sum_aux (kappa : T) (D : nat) (n m : nat) (t acc : T) : T :=
  match n with
  | 0%nat => acc
  | S n' => let t' := t *. kappa /. onat P (D + m) in kummer_sum_aux kappa D n' (S m) t' (acc +. t')
  end.
Definition kummer_sum (D : nat) (kappa : T) (n : nat) : T := kummer_sum_aux kappa D n 0 (o1 P) (o1 P).

(* ------------------------------------------------------------------ complex Bingham *)
Fixpoint oinsert (x : T) (l : list T) : list T :=
  match l with [] => [x] | h :: t => if oleb P x h then x :: l else h :: oinsert x t end.
Fixpoint osort (l : list T) : list T := match l with [] => [] | h :: t => oinsert h (osort t) end.
(* _remove_duplicate_eigenvalues on the sorted values: diff, max(diff, eps), first + cumsum *)
Fixpoint spread_aux (eps s0 acc prev : T) (l : list T) : list T :=
  match l with
  | [] => []
  | h :: t => let acc' := acc +. omax P (h -. prev) eps in (s0 +. acc') :: spread_aux eps s0 acc' h t
  end.
Definition spread (eps : T) (l : list T) : list T :=
  match l with [] => [] | s0 :: t => s0 :: spread_aux eps s0 (o0 P) s0 t end.
Definition remove_duplicates (eps : T) (l : list T) : list T := spread eps (osort l).

(* a_j = 1 / prod_i (lam_j - lam_i)  (factor 1 at i = j);  norm = 2 pi^D sum_j a_j exp(lam_j) *)
Definition kent_a (D : nat) (lam : nat -> T) (j : nat) : T :=
  oinv P (bprod P D (fun i => if Nat.eqb i j then o1 P else lam j -. lam i)).
Definition kent_sum (D : nat) (lam : nat -> T) : T :=
  bsum P D (fun j => kent_a D lam j *. oexp P (lam j)).
Definition bingham_norm (D : nat) (lam : nat -> T) : T := two *. opow pi D *. kent_sum D lam.

Section Bingham.
Variables (D : nat) (E : nat -> nat -> cx (T:=T)) (lam : list T) (y : nat -> cx (T:=T)) (eps : T).
Definition lam_at (i : nat) : T := nth i lam (o0 P).
(* covariance property: einsum('...wx,...x,...zx->...wz', E, lam, conj E) *)
Definition eig_matrix (f : nat -> T) (w z : nat) : cx :=
  csumO P D (fun x => cmul P (cscale P (f x) (E w x)) (cconj P (E z x))).
(* einsum('...td,...dD,...tD->...t', conj y, covariance, y).real *)
Definition herm_form (B : nat -> nat -> cx (T:=T)) : cx :=
  csumO P D (fun d => csumO P D (fun e => cmul P (cmul P (cconj P (y d)) (B d e)) (y e))).
Definition bingham_lognorm : T :=
  oln P (bingham_norm D (fun i => nth i (remove_duplicates eps lam) (o0 P))).
Definition bingham_logpdf : T := fst (herm_form (eig_matrix lam_at)) -. bingham_lognorm.
End Bingham.

(* ------------------------------------------------------------------ complex angular central Gaussian *)
Section CACG.
Variables (D : nat) (E : nat -> nat -> cx (T:=T)) (lam : nat -> T) (y : nat -> cx (T:=T)) (tiny : T).
Definition cnorm : T := osqrt P (bsum P D (fun d => cabs2 P (y d))).
(* _unit_norm(..., eps=tiny, eps_style='where') *)
Definition cacg_unit (d : nat) : cx :=
  let n := cnorm in
  let n' := if andb (oleb P n (o0 P)) (oleb P (o0 P) n) then tiny else n in
  cscale P (oinv P n') (y d).
(* einsum('...dt,...de,...e,...ge,...gt->...t', conj y, E, 1/lam, conj E, y) *)
Definition cacg_form_c : cx :=
  csumO P D (fun e =>
    cscale P (oinv P (lam e))
      (cmul P (csumO P D (fun d => cmul P (cconj P (cacg_unit d)) (E d e)))
              (csumO P D (fun g => cmul P (cconj P (E g e)) (cacg_unit g))))).
Definition cacg_quadratic_form : T := omax P (cabs P cacg_form_c) tiny.
Definition cacg_logdet : T := bsum P D (fun e => oln P (lam e)).
Definition cacg_logpdf : T := oopp P (onat P D *. oln P cacg_quadratic_form) -. cacg_logdet.
End CACG.
End LogPdf.
