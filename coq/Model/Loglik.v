(* Model/Loglik.v -- CACGMM.log_likelihood (pb_bss/distribution/cacgmm.py:97-137): sum over observations of
   logsumexp over classes of the component log-pdfs with the mixture weights as multipliers
   (scipy.special.logsumexp(a, axis=-2, b=weight): ln(sum_k b_k exp(a_k - a_max)) + a_max). *)
From PB Require Import Ops.
Section Loglik.
Context {T : Type} (P : ops T).
Variables (K' : nat).
Definition lse (b a : nat -> T) : T :=
  let m := bmax P K' a in
  oadd P (oln P (bsum P (S K') (fun k => omul P (b k) (oexp P (osub P (a k) m))))) m.
(* w n k, l n k : weight and log-pdf of class k at observation n *)
Definition mix_loglik (N : nat) (w l : nat -> nat -> T) : T := bsum P N (fun n => lse (w n) (l n)).
End Loglik.
