(* Model/Trainers.v -- the single-distribution M-steps (`_fit`) and densities the mixture models are built from,
   for ONE class and ONE leading index: observation n, coordinate d; s n is the weight the trainer receives
   (for a mixture: affiliation of this class times the saliency).  Oracle calls (eigh, spline, least_squares)
   are not here: functions stop at the matrix handed to the oracle and resume on its output.
   gaussian.py:152-193, complex_circular_symmetric_gaussian.py:_fit, von_mises_fisher.py:124-144,
   complex_watson.py:_fit/log_pdf, complex_angular_central_gaussian.py:82-131,185-203,253-342, distribution/utils.py *)
From PB Require Import Ops.

Section Real.
Context {T : Type} (P : ops T).
Variables (D N : nat) (tiny : T).

(* ---- normalisation of real vectors: y / max(||y||, tiny)  (vMF, vMFMM) ---- *)
Definition rnorm2 (v : nat -> T) : T := bsum P D (fun d => omul P (v d) (v d)).
Definition rnorm (v : nat -> T) : T := osqrt P (rnorm2 v).
Definition runit_max (v : nat -> T) (d : nat) : T := odiv P (v d) (omax P (rnorm v) tiny).

(* ---- Gaussian (saliency given; saliency None is s = 1, where max(N, tiny) = N) ---- *)
Definition g_den (s : nat -> T) : T := omax P (bsum P N s) tiny.
Definition g_mean (y : nat -> nat -> T) (s : nat -> T) (d : nat) : T :=
  odiv P (bsum P N (fun n => omul P (s n) (y n d))) (g_den s).
Definition g_cov_full (y : nat -> nat -> T) (s : nat -> T) (d e : nat) : T :=
  let m := g_mean y s in
  odiv P (bsum P N (fun n => omul P (s n) (omul P (osub P (y n d) (m d)) (osub P (y n e) (m e))))) (g_den s).
Definition g_cov_diag (y : nat -> nat -> T) (s : nat -> T) (d : nat) : T := g_cov_full y s d d.
Definition g_cov_sph (y : nat -> nat -> T) (s : nat -> T) : T :=
  let m := g_mean y s in
  odiv P (bsum P N (fun n => omul P (s n) (bsum P D (fun d => omul P (osub P (y n d) (m d)) (osub P (y n d) (m d))))))
       (omul P (g_den s) (onat P D)).

(* ---- von Mises-Fisher (y already normalised) ---- *)
Definition vmf_r (y : nat -> nat -> T) (s : nat -> T) (d : nat) : T := bsum P N (fun n => omul P (s n) (y n d)).
Definition vmf_mean (y : nat -> nat -> T) (s : nat -> T) (d : nat) : T :=
  odiv P (vmf_r y s d) (omax P (rnorm (vmf_r y s)) tiny).
(* r_bar = minimum(norm / sum s, 1): the mean resultant length cannot exceed one, rounding may *)
Definition vmf_rbar (y : nat -> nat -> T) (s : nat -> T) : T :=
  omin P (odiv P (rnorm (vmf_r y s)) (bsum P N s)) (o1 P).
(* Banerjee et al. 2005, (4.4), then np.clip(., min, max) = minimum(maximum(., min), max) *)
Definition vmf_kappa_raw (rb : T) : T :=
  odiv P (osub P (omul P rb (onat P D)) (omul P rb (omul P rb rb))) (osub P (o1 P) (omul P rb rb)).
Definition vmf_kappa (kmin kmax : T) (y : nat -> nat -> T) (s : nat -> T) : T :=
  omin P (omax P (vmf_kappa_raw (vmf_rbar y s)) kmin) kmax.
(* log-density given the oracle value of the log-normaliser *)
Definition vmf_log_pdf (mean : nat -> T) (kappa lognorm : T) (y : nat -> T) : T :=
  osub P (omul P kappa (bsum P D (fun d => omul P (y d) (mean d)))) lognorm.
End Real.

Section Complex.
Context {T : Type} (P : ops T).
Variables (D N : nat) (tiny : T).

Definition cnorm2 (z : nat -> cx (T:=T)) : T := bsum P D (fun d => cabs2 P (z d)).
Definition cnorm (z : nat -> cx (T:=T)) : T := osqrt P (cnorm2 z).
(* _unit_norm(eps_style='where'): zero frames stay zero  (cACG) *)
Definition cunit_where (z : nat -> cx (T:=T)) (d : nat) : cx :=
  let n := cnorm z in
  let n' := if andb (oleb P n (o0 P)) (oleb P (o0 P) n) then tiny else n in
  cscale P (oinv P n') (z d).
(* y / max(||y||, tiny)  (Watson, Bingham, integration models) *)
Definition cunit_max (z : nat -> cx (T:=T)) (d : nat) : cx := cscale P (oinv P (omax P (cnorm z) tiny)) (z d).

(* weighted scatter sum_n c_n z_n z_n^H (entry d e) *)
Definition scatter (z : nat -> nat -> cx (T:=T)) (c : nat -> T) (d e : nat) : cx :=
  csumO P N (fun n => cscale P (c n) (cmul P (z n d) (cconj P (z n e)))).

(* complex circularly-symmetric Gaussian trainer: E[y y^H] with floored denominator *)
Definition ccsg_cov (z : nat -> nat -> cx (T:=T)) (s : nat -> T) (d e : nat) : cx :=
  cscale P (oinv P (omax P (bsum P N s) tiny)) (scatter z s d e).
(* complex Watson trainer: scatter / sum s (no floor), then oracle get_pca + spline *)
Definition watson_cov (z : nat -> nat -> cx (T:=T)) (s : nat -> T) (d e : nat) : cx :=
  cscale P (oinv P (bsum P N s)) (scatter z s d e).
Definition watson_log_pdf (mode : nat -> cx (T:=T)) (kappa lognorm : T) (z : nat -> cx (T:=T)) : T :=
  osub P (omul P kappa (cabs2 P (csumO P D (fun d => cmul P (z d) (cconj P (mode d)))))) lognorm.

(* ---- cACG: one Tyler/Ito step up to the eigendecomposition ---- *)
Definition cacg_qfloor (q : nat -> T) (n : nat) : T :=
  omax P (q n) (omul P (oadd P (onat P 9) (o1 P)) tiny).            (* 10 * tiny *)
Definition cacg_cov_raw (z : nat -> nat -> cx (T:=T)) (s q : nat -> T) (d e : nat) : cx :=
  (* D * einsum(...) first, THEN the division by max(sum s, tiny): for a class without mass 0 / tiny = 0
     (D * (1 / tiny) would overflow to inf and inf * 0 = NaN) *)
  let v := cscale P (onat P D) (scatter z (fun n => odiv P (s n) (cacg_qfloor q n)) d e) in
  let den := omax P (bsum P N s) tiny in
  (odiv P (fst v) den, odiv P (snd v) den).
Definition hermitize (A : nat -> nat -> cx (T:=T)) (d e : nat) : cx :=
  cscale P (oinv P (oadd P (o1 P) (o1 P))) (cadd P (A d e) (cconj P (A e d))).
Definition cacg_cov (herm : bool) (z : nat -> nat -> cx (T:=T)) (s q : nat -> T) : nat -> nat -> cx :=
  if herm then hermitize (cacg_cov_raw z s q) else cacg_cov_raw z s q.
(* covariance_norm='trace': covariance /= max(trace, tiny) before the eigendecomposition *)
Definition trace_re (A : nat -> nat -> cx (T:=T)) : T := bsum P D (fun d => fst (A d d)).
Definition trace_normalise (A : nat -> nat -> cx (T:=T)) (d e : nat) : cx :=
  cscale P (oinv P (omax P (trace_re A) tiny)) (A d e).
(* eigenvalue post-processing of from_covariance on the oracle's raw eigenvalues ev (index 0..D-1, D = S D') *)
Definition eig_post_eigenvalue (D' : nat) (floor : T) (ev : nat -> T) (i : nat) : T :=
  omax P (odiv P (ev i) (omax P (bmax P D' ev) tiny)) floor.
Definition eig_post_other (D' : nat) (floor : T) (ev : nat -> T) (i : nat) : T :=
  omax P (ev i) (omax P (omul P (bmax P D' ev) floor) tiny).
(* quadratic form z^H U diag(1/lambda) U^H z floored by tiny, and the log-density *)
Definition cacg_quad (U : nat -> nat -> cx (T:=T)) (lam : nat -> T) (z : nat -> cx (T:=T)) : T :=
  omax P (oabs P (bsum P D (fun e => odiv P (cabs2 P (csumO P D (fun d => cmul P (cconj P (U d e)) (z d)))) (lam e))))
       tiny.
Definition cacg_log_pdf (U : nat -> nat -> cx (T:=T)) (lam : nat -> T) (z : nat -> cx (T:=T)) : T :=
  osub P (oopp P (omul P (onat P D) (oln P (cacg_quad U lam z)))) (bsum P D (fun e => oln P (lam e))).
End Complex.
