(* Model/Mixture.v -- the E- and M-step of a mixture trainer assembled from the shared pieces
   (Model/Posterior.v: posterior column, weight updates; Model/Trainers.v: per-class M-steps, densities,
   normalisations) in the shape every trainer of pb_bss/distribution has:
       M (affiliation, quadratic form) = (weights from the affiliation, per-class parameters: the SAME map
                                          applied to every class row)                        (<Trainer>._m_step)
       E (weights, parameters)         = (posterior column per cell from the per-class log-pdfs, per-class
                                          quadratic forms)                                    (<Model>._predict)
   Cells n < N are all (leading index, observation) positions of the affiliation array flattened; a class row is
   `a k : nat -> T`.  Weights are kept broadcast to the affiliation shape (w k n).  Used by C04 (two instances that
   differ in the data) and C05 (two instances that differ in the class labelling).
   cacgmm.py:252-345, cwmm.py:_fit/_m_step, cbmm.py:_fit/_m_step, vmfmm.py:_fit/_m_step, gmm.py, gcacgmm.py, vmfcacgmm.py,
   mixture_model_utils.py:133-203. *)
From PB Require Import Ops Model.Posterior Model.Trainers.

Section Mix.
Context {T : Type} (P : ops T).
Variable Par : Type.                                   (* parameters of ONE class (all leading indices) *)
Variables (K' : nat) (tiny eps : T) (clip : bool).     (* K = S K' classes; affiliation_eps != 0 <-> clip *)
Variable b : nat -> nat -> bool.                       (* source_activity_mask k n (all true when None) *)
Variable wfun : (nat -> nat -> T) -> nat -> nat -> T.  (* estimate_mixture_weight, broadcast: w k n *)
Variable mstep_c : (nat -> T) -> (nat -> T) -> Par.    (* class row of affiliation, of quadratic form -> parameters *)
Variable logpdf_c : Par -> nat -> T.                   (* component log-pdf at cell n *)
Variable quad_c : Par -> nat -> T.                     (* quadratic form at cell n (cACG based models; else unused) *)

Definition mgamma : Type := ((nat -> nat -> T) * (nat -> nat -> T))%type.   (* affiliation, quadratic form *)
Definition mtheta : Type := ((nat -> nat -> T) * (nat -> Par))%type.        (* weights, class parameters *)

Definition mix_post (w : nat -> nat -> T) (p : nat -> Par) (k n : nat) : T :=
  if clip then posterior_clipped P K' tiny eps (fun j => w j n) (fun j => logpdf_c (p j) n) (fun j => b j n) k
  else posterior P K' tiny (fun j => w j n) (fun j => logpdf_c (p j) n) (fun j => b j n) k.
Definition mix_E (t : mtheta) : mgamma := (mix_post (fst t) (snd t), fun k n => quad_c (snd t k) n).
Definition mix_M (g : mgamma) : mtheta := (wfun (fst g), fun k => mstep_c (fst g k) (snd g k)).
(* inline permutation aligner: a map on the E-step output *)
Definition mix_E_aligned (align : mgamma -> mgamma) (t : mtheta) : mgamma := align (mix_E t).

(* <Model>.log_likelihood of cacgmm.py:97-137: sum_n logsumexp_k log_pdf[k, n] (the weights do not enter) *)
Definition logsumexp (l : nat -> T) : T :=
  oadd P (bmax P K' l) (oln P (bsum P (S K') (fun k => oexp P (oadd P (l k) (oopp P (bmax P K' l)))))).
Definition mix_loglik (N : nat) (p : nat -> Par) : T := bsum P N (fun n => logsumexp (fun k => logpdf_c (p k) n)).
End Mix.

(* ---- estimate_mixture_weight under the tying options, broadcast to the affiliation shape.
   cells n g (g < G) enumerates the cells tied with cell n (weight_constant_axis without the class axis). ---- *)
Section WeightFun.
Context {T : Type} (P : ops T).
Variables (K' G : nat) (cells : nat -> nat -> nat) (s : nat -> T) (eps : T).
Definition w_mean (a : nat -> nat -> T) (k n : nat) : T := weight_mean P G (fun j g => a j (cells n g)) k.
Definition w_sal (a : nat -> nat -> T) (k n : nat) : T :=
  weight_sal P K' G (fun j g => a j (cells n g)) (fun g => s (cells n g)) eps k.
(* weight_constant_axis = -2 : np.full([K, 1], 1/K) *)
Definition w_const (a : nat -> nat -> T) (k n : nat) : T := oinv P (onat P (S K')).
(* integration models (gcacgmm.py / vmfcacgmm.py _m_step): sum over tied cells of a*s, divided by its class sum *)
Definition w_integ (a : nat -> nat -> T) (k n : nat) : T :=
  let ws := wsum P G (fun j g => a j (cells n g)) (fun g => s (cells n g)) in
  omul P (ws k) (oinv P (bsum P (S K') ws)).
End WeightFun.

(* ---- complex Bingham exponent: Re(z^H B z), B = U diag(lam) U^H (complex_bingham.py:38-78) ---- *)
Section Bingham.
Context {T : Type} (P : ops T).
Variable D : nat.
Definition bingham_cov (U : nat -> nat -> cx (T:=T)) (lam : nat -> T) (d e : nat) : cx :=
  csumO P D (fun x => cmul P (cscale P (lam x) (U d x)) (cconj P (U e x))).
Definition bingham_quad (B : nat -> nat -> cx (T:=T)) (z : nat -> cx (T:=T)) : T :=
  fst (csumO P D (fun d => csumO P D (fun e => cmul P (cconj P (z d)) (cmul P (B d e) (z e))))).
Definition bingham_log_pdf (U : nat -> nat -> cx (T:=T)) (lam : nat -> T) (lognorm : T) (z : nat -> cx (T:=T)) : T :=
  osub P (bingham_quad (bingham_cov U lam) z) lognorm.
End Bingham.

(* ---- the directional trainers, class-wise.  z n d: the observation as passed to fit / predict (NOT normalised);
   sal n: saliency (1 when None).  Oracles (eigh, spline, least_squares, ive, hyp1f1) are Section variables: the model
   stops at the matrix handed to the oracle and resumes on its output. ---- *)
Section Directional.
Context {T : Type} (P : ops T).
Variables (D' N : nat) (tiny : T) (sal : nat -> T).
Let D := S D'.

(* -- cACGMM (style_where = true: normalize_observation of complex_angular_central_gaussian.py) and the spatial
      stream of GCACGMM / vMF-cACGMM (style_where = false: y / max(||y||, tiny)) -- *)
Section CACG.
Variables (style_where herm : bool) (cov_norm : nat) (floor : T).   (* cov_norm: 0 'eigenvalue', 1 'trace', 2 False *)
Variable eigh : (nat -> nat -> cx (T:=T)) -> (nat -> nat -> cx (T:=T)) * (nat -> T).
Variable z : nat -> nat -> cx (T:=T).
Definition cacg_par : Type := ((nat -> nat -> cx (T:=T)) * (nat -> T))%type.
Definition sp_unit (n d : nat) : cx :=
  if style_where then cunit_where P D tiny (z n) d else cunit_max P D tiny (z n) d.
(* the matrix handed to eigh *)
Definition cacgmm_cov (arow qrow : nat -> T) : nat -> nat -> cx :=
  let C := cacg_cov P D N tiny herm sp_unit (fun n => omul P (arow n) (sal n)) qrow in
  match cov_norm with 1%nat => trace_normalise P D tiny C | _ => C end.
Definition cacgmm_mstep_c (arow qrow : nat -> T) : cacg_par :=
  let r := eigh (cacgmm_cov arow qrow) in
  (fst r, match cov_norm with
          | 0%nat => eig_post_eigenvalue P tiny D' floor (snd r)
          | _ => eig_post_other P tiny D' floor (snd r) end).
Definition cacgmm_logpdf_c (p : cacg_par) (n : nat) : T := cacg_log_pdf P D tiny (fst p) (snd p) (sp_unit n).
Definition cacgmm_quad_c (p : cacg_par) (n : nat) : T := cacg_quad P D tiny (fst p) (snd p) (sp_unit n).

(* integration models: spatial stream as above, second stream abstract (its parameters ParE, its class-wise M-step
   on the masked affiliation row and its log-pdf), exponent weights sw / cw *)
Variable ParE : Type.
Variables (mstep_e : (nat -> T) -> ParE) (logpdf_e : ParE -> nat -> T) (sw cw : T).
Definition integ_mstep_c (arow qrow : nat -> T) : cacg_par * ParE :=
  (cacgmm_mstep_c arow qrow, mstep_e (fun n => omul P (arow n) (sal n))).
Definition integ_logpdf_c (p : cacg_par * ParE) (n : nat) : T :=
  oadd P (omul P sw (cacgmm_logpdf_c (fst p) n)) (omul P cw (logpdf_e (snd p) n)).
Definition integ_quad_c (p : cacg_par * ParE) (n : nat) : T := cacgmm_quad_c (fst p) n.
End CACG.

(* -- cWMM: y / max(||y||, tiny) in fit AND again in predict (cwmm.py:36-39, 168); oracle = get_pca + spline + hyp1f1 -- *)
Section Watson.
Variable wat_oracle : (nat -> nat -> cx (T:=T)) -> (nat -> cx (T:=T)) * (T * T).   (* covariance -> mode, (kappa, log-normaliser) *)
Variable z : nat -> nat -> cx (T:=T).
Definition wat_unit (n d : nat) : cx := cunit_max P D tiny (z n) d.
Definition wat_unit2 (n d : nat) : cx := cunit_max P D tiny (wat_unit n) d.
Definition cwmm_cov (arow : nat -> T) : nat -> nat -> cx :=
  watson_cov P N wat_unit (fun n => omul P (arow n) (sal n)).
Definition cwmm_mstep_c (arow qrow : nat -> T) : (nat -> cx (T:=T)) * (T * T) := wat_oracle (cwmm_cov arow).
Definition cwmm_logpdf_c (p : (nat -> cx (T:=T)) * (T * T)) (n : nat) : T :=
  watson_log_pdf P D (fst p) (fst (snd p)) (snd (snd p)) (wat_unit2 n).
(* -- cBMM: same normalisation, scatter hermitised, oracle = eigh + least_squares + log-normaliser -- *)
Variable bing_oracle : (nat -> nat -> cx (T:=T)) -> (nat -> nat -> cx (T:=T)) * ((nat -> T) * T).
Definition cbmm_cov (arow : nat -> T) : nat -> nat -> cx := hermitize P (cwmm_cov arow).
Definition cbmm_mstep_c (arow qrow : nat -> T) : (nat -> nat -> cx (T:=T)) * ((nat -> T) * T) := bing_oracle (cbmm_cov arow).
Definition cbmm_logpdf_c (p : (nat -> nat -> cx (T:=T)) * ((nat -> T) * T)) (n : nat) : T :=
  bingham_log_pdf P D (fst p) (fst (snd p)) (snd (snd p)) (wat_unit2 n).
End Watson.
End Directional.

(* -- vMFMM (vmfmm.py): fit normalises, predict normalises, VonMisesFisher.log_pdf normalises once more;
      lognorm = the ive-based log-normaliser (oracle) -- *)
Section VMF.
Context {T : Type} (P : ops T).
Variables (D N : nat) (tiny kmin kmax : T) (sal : nat -> T) (lognorm : T -> T).
Variable v : nat -> nat -> T.
Definition vmf_unit1 (n d : nat) : T := runit_max P D tiny (v n) d.
Definition vmf_unit2 (n d : nat) : T := runit_max P D tiny (vmf_unit1 n) d.
Definition vmf_unit3 (n d : nat) : T := runit_max P D tiny (vmf_unit2 n) d.
Definition vmfmm_mstep_c (arow qrow : nat -> T) : (nat -> T) * T :=
  let s := fun n => omul P (arow n) (sal n) in
  (vmf_mean P D N tiny vmf_unit1 s, vmf_kappa P D N kmin kmax vmf_unit1 s).
Definition vmfmm_logpdf_c (p : (nat -> T) * T) (n : nat) : T :=
  vmf_log_pdf P D (fst p) (snd p) (lognorm (snd p)) (vmf_unit3 n).
(* embedding stream of vMF-cACGMM (vmfcacgmm.py): VMFCACGMMTrainer.fit projects the embedding to the unit sphere on
   entry (since the fix a5637f0), the M-step runs on it, the E-step goes through VonMisesFisher.log_pdf which
   normalises once more *)
Definition vmfcacg_emb_mstep (s : nat -> T) : (nat -> T) * T :=
  (vmf_mean P D N tiny vmf_unit1 s, vmf_kappa P D N kmin kmax vmf_unit1 s).
Definition vmfcacg_emb_logpdf (p : (nat -> T) * T) (n : nat) : T :=
  vmf_log_pdf P D (fst p) (snd p) (lognorm (snd p)) (vmf_unit2 n).
(* the former fit handed the embedding to the vMF M-step as it was (not normalised) *)
Definition vmfcacg_emb_mstep_raw (s : nat -> T) : (nat -> T) * T :=
  (vmf_mean P D N tiny v s, vmf_kappa P D N kmin kmax v s).
End VMF.
