"""Registry of claimed properties -> MANIFEST.json.  Run `python harness/registry.py` to regenerate."""
import json
from pathlib import Path

VERIF = Path(__file__).resolve().parent.parent

TRUST = ('Coq 8.16.1 kernel + vm_compute; standard-library axioms only (real-number axioms '
         'sig_forall_dec / sig_not_dec, functional_extensionality_dep, Classical_Prop.classic) as listed by '
         'Print Assumptions in the evidence file; hand-written Gallina model tied to /repo by a correspondence '
         'check evaluated inside Coq on generated cases (differential testing); LAPACK/SciPy leaves are oracles '
         'with evaluated contracts; binary64 vs real arithmetic gap = stated tolerance; Python harness and generators.')

CLAIMED = {
    'C10': dict(
        text=('Theorems over the real-number instance of the Gallina model of get_power_spectral_density_matrix / '
              'condition_covariance, for every D, T, mask and observation: defining formula (masked, unnormalised, '
              'mask-free), Hermitian, positive semidefinite with v^H Phi v = sum_t m_t |v^H x_t|^2, invariance to positive '
              'mask rescaling, zero mask gives the zero matrix, condition_covariance preserves trace / Hermitian / PSD. '
              'The model is tied to /repo on every run: each (leading index, source) slice of the implementation result, '
              'addressed by the documented layout over all valid sensor/source/time positions, mask kinds and dtypes, is '
              'compared inside Coq (vm_compute, PrimFloat instance) with the model; independent NumPy predicates '
              '(formula, Hermitian, PSD, scale invariance, inputs untouched, bool/zero masks accepted) give the failing input.'),
        design='6/C10', technique='Coq proof over Reals/Coquelicot + in-Coq differential correspondence'),
}

CLAIMED['C01'] = dict(
    text=('Theorems over the real-number instance of the Gallina model of log_pdf_to_affiliation (one observation column, '
          'any K): overflow guard (shifted exponentials in (0,1], one equals 1), validity (range, sum to one, exact zeros for '
          'inactive sources) whenever the tiny floor is not active, sufficient condition for the floor being inactive, the '
          'floored branch stated explicitly, Bayes rule, clipping bound K*eps; mixture-weight updates (mean / saliency) are '
          'distributions; initializer tails (iid normalisation, flag exactness for every minimum in (0,1/K), deflation '
          'normaliser >= 1). Tie to /repo on every run: the routine itself, predict of all seven mixture models (fed with the '
          "implementation's own component log_pdf and stored weights, all tying / saliency / mask / eps / covariance options, "
          '1..3 EM iterations), and the initializers are compared column by column with the model inside Coq; independent NumPy '
          'predicates (shape, finite, range, normalisation, mask zeros, Bayes via logsumexp) run on regular and degenerate '
          'streams and on every in-loop E-step. NaN/Inf freedom in binary64 is explored, not proved.'),
    design='6/C01', technique='Coq proof over Reals + in-Coq differential correspondence + predicate search')

CLAIMED['C08'] = dict(
    text=('Theorems (real-number instance of Model/Trainers.v, Model/Posterior.v, Model/EM.v): an integer saliency acts exactly '
          'like repetition for every weighted sum and hence for every estimator built from such sums; Gaussian mean / pooled '
          'scatter / diagonal / spherical covariance formulas, symmetry and positive semidefiniteness; vMF mean has unit norm, '
          'concentration is the clipped Banerjee estimate; complex scatter estimators are Hermitian; the cACG eigenvalue '
          'normalisation is scale free with spectrum in [floor,1] and maximum 1; mixture weights are distributions; a fit of n '
          'iterations is exactly n alternations M,(E;M)^(n-1). Oracle parts (eigh, Watson spline inverse, Bingham least squares) '
          'are contracts evaluated per case. Tie to /repo on every run: single trainers and EVERY recorded EM iteration of all '
          'seven mixture trainers (M-step of sampled classes, E-step, quadratic forms, start values, inline aligner permuting '
          'posterior and quadratic form together) are compared inside Coq with the model; documented formulas evaluated '
          'independently in NumPy give the failing input. Convergence of the repeated cACG step is explored, not proved.'),
    design='6/C08', technique='Coq proof over Reals + in-Coq differential correspondence along recorded EM traces')

NOT_YET = {}


def main():
    props = [json.loads(l) for l in (VERIF / 'properties.jsonl').read_text().splitlines() if l.strip()]
    checks, na = [], []
    for p in props:
        pid = p['id']
        if pid in CLAIMED and (VERIF / 'harness' / 'props' / ('%s.py' % pid.lower())).exists():
            c = CLAIMED[pid]
            checks.append({
                'property_id': pid,
                'quick_cmd': 'bin/vcheck run %s --tier quick' % pid,
                'thorough_cmd': 'bin/vcheck run %s --tier thorough' % pid,
                'evidence_file': 'evidence/%s.json' % pid,
                'replay_cmd_template': 'bin/vcheck replay {path}',
                'engine': 'coq-model-correspondence',
                'level_claimed': {'category': 'proof', 'text': c['text'], 'design_ref': 'DESIGN.md section ' + c['design']},
                'level_note': c.get('note', TRUST),
                'technique': c['technique'],
            })
        else:
            na.append({'property_id': pid, 'reason': NOT_YET.get(
                pid, 'not claimed yet: model, theorems and correspondence for this property are not built in this '
                     'revision (the technique applies; see DESIGN.md section 6)')})
    man = {
        'version': 1,
        'setup_cmd': 'bin/vcheck setup',
        'hooks': {
            'guard': 'PB_BSS_VERIF',
            'enable': 'no source hooks are needed: the harness imports /repo directly (PYTHONPATH=/repo) and records '
                      'E-/M-step traces by wrapping Trainer._m_step from outside',
            'baseline_off_cmd': 'cd /repo && /venv/bin/python -m pytest -ra -q -p no:cacheprovider --timeout=900 '
                                '--continue-on-collection-errors --junitxml=/tmp/pb_bss_baseline.junit.xml',
            'source_commits': [],
            'add_only': True,
        },
        'engines': [{
            'name': 'coq-model-correspondence', 'path': 'harness/core.py',
            'serves_properties': [c['property_id'] for c in checks],
            'kind_free_text': 'Coq 8.16.1 development under coq/ (Model, Proofs, Properties, Run) + Python harness that '
                              'generates cases, runs /repo, and lets coqc decide model-vs-implementation agreement',
        }],
        'checks': checks,
        'not_applicable': na,
        'notes': 'Genuine defects repaired in /repo as "fix:" commits are listed in known_findings.json (fixed entries).',
    }
    (VERIF / 'MANIFEST.json').write_text(json.dumps(man, indent=1) + '\n')
    print('MANIFEST.json: %d checks, %d not claimed' % (len(checks), len(na)))


if __name__ == '__main__':
    main()
