"""Registry of claimed properties -> MANIFEST.json.  Run `python harness/registry.py` to regenerate."""
import json
from pathlib import Path

VERIF = Path(__file__).resolve().parent.parent

TRUST = ('Coq 8.16.1 kernel + vm_compute; standard-library axioms only (real-number axioms '
         'sig_forall_dec / sig_not_dec, functional_extensionality_dep, Classical_Prop.classic) as listed by '
         'Print Assumptions in the evidence file; hand-written Gallina model tied to /repo by a correspondence '
         'check evaluated inside Coq on generated cases (differential testing); LAPACK/SciPy leaves are oracles '
         'with evaluated contracts; binary64 vs real arithmetic gap = stated tolerance; Python harness and generators.')

CLAIMED = {
    'C10': dict(
        text=('Theorems over the real-number instance of the Gallina model of get_power_spectral_density_matrix / '
              'condition_covariance, for every D, T, mask and observation: defining formula (masked, unnormalised, '
              'mask-free), Hermitian, positive semidefinite with v^H Phi v = sum_t m_t |v^H x_t|^2, invariance to positive '
              'mask rescaling, zero mask gives the zero matrix, condition_covariance preserves trace / Hermitian / PSD. '
              'The model is tied to /repo on every run: each (leading index, source) slice of the implementation result, '
              'addressed by the documented layout over all valid sensor/source/time positions, mask kinds and dtypes, is '
              'compared inside Coq (vm_compute, PrimFloat instance) with the model; independent NumPy predicates '
              '(formula, Hermitian, PSD, scale invariance, inputs untouched, bool/zero masks accepted) give the failing input.'),
        design='6/C10', technique='Coq proof over Reals/Coquelicot + in-Coq differential correspondence'),
}

CLAIMED['C01'] = dict(
    text=('Theorems over the real-number instance of the Gallina model of log_pdf_to_affiliation (one observation column, '
          'any K): overflow guard (shifted exponentials in (0,1], one equals 1), validity (range, sum to one, exact zeros for '
          'inactive sources) whenever the tiny floor is not active, sufficient condition for the floor being inactive, the '
          'floored branch stated explicitly, Bayes rule, clipping bound K*eps; mixture-weight updates (mean / saliency) are '
          'distributions; initializer tails (iid normalisation, flag exactness for every minimum in (0,1/K), deflation '
          'normaliser >= 1). Tie to /repo on every run: the routine itself, predict of all seven mixture models (fed with the '
          "implementation's own component log_pdf and stored weights, all tying / saliency / mask / eps / covariance options, "
          '1..3 EM iterations), and the initializers are compared column by column with the model inside Coq; independent NumPy '
          'predicates (shape, finite, range, normalisation, mask zeros, Bayes via logsumexp) run on regular and degenerate '
          'streams and on every in-loop E-step. NaN/Inf freedom in binary64 is explored, not proved.'),
    design='6/C01', technique='Coq proof over Reals + in-Coq differential correspondence + predicate search')

CLAIMED['C08'] = dict(
    text=('Theorems (real-number instance of Model/Trainers.v, Model/Posterior.v, Model/EM.v): an integer saliency acts exactly '
          'like repetition for every weighted sum and hence for every estimator built from such sums; Gaussian mean / pooled '
          'scatter / diagonal / spherical covariance formulas, symmetry and positive semidefiniteness; vMF mean has unit norm, '
          'concentration is the clipped Banerjee estimate; complex scatter estimators are Hermitian; the cACG eigenvalue '
          'normalisation is scale free with spectrum in [floor,1] and maximum 1; mixture weights are distributions; a fit of n '
          'iterations is exactly n alternations M,(E;M)^(n-1). Oracle parts (eigh, Watson spline inverse, Bingham least squares) '
          'are contracts evaluated per case. Tie to /repo on every run: single trainers and EVERY recorded EM iteration of all '
          'seven mixture trainers (M-step of sampled classes, E-step, quadratic forms, start values, inline aligner permuting '
          'posterior and quadratic form together) are compared inside Coq with the model; documented formulas evaluated '
          'independently in NumPy give the failing input. Convergence of the repeated cACG step is explored, not proved.'),
    design='6/C08', technique='Coq proof over Reals + in-Coq differential correspondence along recorded EM traces')

CLAIMED['C07'] = dict(
    text=('Theorems over the real-number instance of the Gallina model of the eight log_pdf routines (Gaussian full/diagonal/'
          'spherical, complex Gaussian, vMF, complex Watson, complex Bingham, cACG), for every D, all parameters and evaluation '
          'points: log_pdf equals the logarithm of the literature density. Gaussians and complex Gaussian under the written '
          'contracts of the precision Cholesky factor (P P^T = Sigma^-1, log-det), solve and slogdet; diagonal and spherical have '
          'no oracle. vMF and Watson normalisers are pinned by is_series to the Bessel and Kummer series with positivity proved, '
          'and the Kummer series is proved to converge to the closed form. Bingham covers the sort / duplicate-spreading step and '
          'permutation invariance of the partial-fraction normaliser (hypothesis: normaliser positive). cACG equals the normalised '
          'density times 2 pi^D/(D-1)!, with E diag(1/lambda) E^H proved to be the inverse of B under the unitary contract and '
          'det B = prod lambda as a contract. The executable truncated series are proved to be partial sums of the spec series. '
          'NOT proved: exp(log_pdf) integrates to one (no surface measure on spheres is installed) - explored by quadrature. '
          'Tie to /repo on every run: log_pdf of generated objects (non-diagonal SPD/HPD, condition <= 1e8, kappa in [1e-6,500], '
          'Bingham gaps >= 1e-3 incl. clusters, D 1..8 / 2..6, 0..2 leading axes) is compared inside Coq with the model; ive / '
          'hyp1f1 against the truncated series inside Coq; Cholesky / solve / slogdet / unitarity residuals per case; independent '
          'predicates (scipy.stats, closed forms, 120-digit Kent sum, slices, inputs untouched) give the failing input.'),
    design='6/C07', technique='Coq proof over Reals/Coquelicot (incl. Series) + in-Coq differential correspondence + quadrature')

CLAIMED['C20'] = dict(
    text=('Theorems, closed under the global context, for arbitrary state types, E/M steps, histories and budgets: a trainer '
          'caching its dimension and dimension-only tables returns after any history what a fresh trainer returns or rejects '
          'because the cached dimension differs (cache always consistent; fresh trainer accepts everything); fit(n1+...+nj) equals '
          'consecutive fits continued from the returned model for every list of budgets, and any two splits of a budget agree; a '
          'call is a function of (budget, start, explicit generator state), explicit starts neither read nor advance the generator, '
          'a num_classes start depends on it through exactly one draw. Tie to /repo on every run: reused-trainer histories (<= 5 '
          'earlier fits, same/different data, class count, options, feature dimension) compared bit-for-bit with a fresh trainer '
          'and against the Coq state machine (accept/reject, cached dimension/table) for the four caching trainers; cACGMM split '
          'law bit-for-bit for every continuation pair and executed compositions, recorded E/M step words compared with the model; '
          'generator discipline. MONITORED, not proved: ~118 public entry points of the mixture, beamforming, masking, alignment '
          'and metric modules are called with read-only arrays, bytes hashed before/after, and repeated for bitwise reproducibility '
          '(memory effects are outside a pure functional model).'),
    design='6/C20', technique='Coq proof (discrete, no axioms) + in-Coq state-machine correspondence + runtime monitoring of argument bytes')
CLAIMED['C06'] = dict(
    text=('Theorems for every rank and shape: C-order ravel/unravel round trips and block addressing of leading/trailing axes; a '
          'reshape(-1, ...) -> per-row helper -> reshape-back pipeline returns at each leading index the helper applied to that '
          'slice; a broadcast_to view of singleton axes equals the materialised repetition; a flat ellipsis contraction at a '
          'leading index is the nested sum over that slice only; slice law of the EM loop for every iteration count (generic with '
          'the two one-step hypotheses explicit; discharged for a family of per-index slices and for reshape(-1, ...) pipelines of '
          'shape-local per-slice routines); a broadcast singleton start gives the trajectory of the repeated start. That each '
          'pb_bss routine is per-index is established by the correspondence, not proved: stacks of 1..3 leading axes, sizes 1..5, '
          'different content per slice vs each slice alone for all 8 distribution trainers + log_pdf and cACGMM/cWMM/cBMM/GMM/vMFMM '
          '(well-defined observables, 1e-9 relative; 1e-7/1e-6 through the Watson spline / Bingham solver), singleton-axis starts '
          'vs repeated starts, and inside Coq the bookkeeping functions vs numpy plus the single-slice models of Model/Trainers.v '
          'vs the stacked implementation read at one leading index.'),
    design='6/C06', technique='Coq proof (lists/nat + Reals) + in-Coq differential correspondence + stack-vs-slices predicates')
CLAIMED['C02'] = dict(
    text=('Theorems (Reals): pointwise Jensen/Gibbs inequality for any K; for all N, K, saliencies >= 0 the log-likelihood gain is '
          'at least the gain of the auxiliary function Q (EM ascent); the mean-affiliation weight update maximises its part of Q; '
          'weighted mean and variance maximise the weighted Gaussian log-likelihood per coordinate (diagonal/spherical); the cACG '
          'surrogate touches and minorises -D ln q; induction over the iteration history: along every guard-free prefix the '
          'log-likelihood is non-decreasing whenever each M-step does not decrease Q; the log_likelihood method (weights included, '
          'stable logsumexp) equals sum_n ln sum_k pi_k p_k. Fully discharged instance (no hypothesis about E- or M-step left): one '
          'EM step of the diagonal-covariance GMM (Bayes posterior, weight_sal, g_mean, g_cov_diag of the model) never decreases the '
          'log-likelihood for any K, D, N, data and current model, hence neither does any number of steps, and the executable '
          'whole-loop model gmm_fit of Model/GMMLoop.v - the function compared with GMMTrainer.fit(iterations=n) on every run - '
          'is proved to BE that iteration on the real-number instance (C02_gmm_loop_model_monotone; the spherical-covariance GMM step with the pooled variance g_cov_sph is discharged the same way, C02_gmm_spherical_em_step_ascent with its own executable loop model gmm_fit_sph, C02_gmm_spherical_loop_model_monotone, and the diagonal step with an arbitrary positive saliency, C02_gmm_diagonal_saliency_em_step_ascent; guard: posterior floor, mass '
          'floor inactive, new variances positive; guard shown satisfiable). Not proved: that the full-covariance Gaussian, cACG matrix and Watson '
          'spline M-steps do not decrease Q - this hypothesis is EVALUATED on every recorded step of the implementation. Tie to '
          '/repo on every run: recorded trajectories of cACGMM, cWMM, GMM (3 covariance types), GCACGMM over all tying / saliency / '
          'normalisation options: independent log-likelihood non-decreasing on guard-free prefixes, Q(new|old) >= Q(old|old) per '
          'step, CACGMM.log_likelihood compared inside Coq with the model.'),
    design='6/C02', technique='Coq proof over Reals + per-step evaluation of the M-step hypothesis on recorded EM trajectories')

CLAIMED['C19'] = dict(
    text=('Theorems over the real-number instance of the Gallina model of si_sdr, get_snr/set_snr, input_sxr and output_sxr, for '
          'every T, K, sensor/output count and all real signals: defining formula with alpha = <s,s_hat>/<s,s>, the unique '
          'minimiser of |s_hat - a s|^2; invariance of SI-SDR to non-zero rescaling of estimate and of reference; 1/SDR = 1/SIR + '
          '1/SNR and SDR <= min(SIR, SNR) (linear and dB) for both functions; invariance to a common rescaling (all averaging '
          'options); scaling the images by c multiplies SNR by c^2 (exactly +20 log10 c in dB) and leaves SIR unchanged; the output '
          'selection enumerates exactly the injective selections, maximises the captured power, is unchanged by positive scaling '
          'and, for a unique maximiser, follows any renaming of the outputs; set_snr then get_snr returns the requested SNR; the '
          'tuple/dict decision table as a function of the truth test applied to return_dict (positive for both functions since the '
          'fix of output_sxr; the former `is True` test is kept as a _refuted theorem). Tied to /repo on every run: dB values of '
          'si_sdr / input_sxr / output_sxr (all options, K 1..4, 1..5 sensors/outputs, T 8..4096, exactly tied outputs), get_snr, '
          'set_snr and the kind of the returned value are compared inside Coq (PrimFloat, log10 via lnF) with the model; independent '
          'NumPy predicates (formulas, invariances over scales 1e-6..1e6, brute-force selection, every permutation of the outputs, '
          'per-leading-index independence, inputs untouched) give the failing input. Not proved: binary64 rounding, leading-index '
          'independence and purity (predicates).'),
    design='6/C19', technique='Coq proof over Reals + in-Coq differential correspondence')
CLAIMED['C18'] = dict(
    text=('Theorems over the real-number instance (true division) of the per-point / per-group Gallina model of the oracle masks: '
          'ideal binary mask one-hot at the first source of maximal sensor-pooled power; Wiener-like and ideal ratio masks in [0,1] '
          'with sum P/(P+eps); ideal complex mask times the source sum reproduces each source; the phase-sensitive mask equals '
          'Re(complex mask) |y|/(|y|+eps); all-zero input gives 0 with denominators exactly eps; quantile mask levels 1/2 +- w/2 '
          "exactly above/below numpy's linear percentile (modelled exactly: virtual index, floor, switching lerp), which lies "
          'between the order statistics floor(v), floor(v)+1 of a sorted permutation of the group; Lorenz mask levels exactly at the '
          'points stronger than the weakest listed point whose cumulative share of the descending powers is below the fraction; '
          'numpy.moveaxis order algorithm: move to the tmp axes and back is the identity for every rank <= 6 (exhaustive inside Coq; '
          '_partial: higher ranks; equivariance of the whole functions is a predicate, not a theorem). Tied to /repo on every run: '
          'points / threshold groups of every mask function on tensors with 1..4 axes, sizes 1..6, all source_axis / sensor_axis '
          'pairs, keepdims, ties, silent points, zero tensors, addressed by the documented layout, compared inside Coq (one-hot '
          'entries and levels exactly, real-valued masks within 2^-30), moveaxis orders exactly; independent NumPy predicates '
          '(identities, equivariance under transposition, finiteness, inputs untouched) give the failing input.'),
    design='6/C18', technique='Coq proof over Reals + exhaustive discrete evaluation in Coq + in-Coq differential correspondence')

CLAIMED['C03'] = dict(
    text=('PARTIAL. Proved (exact case, one E o M step from the hard true partition, every K, D, N and gain field): the class '
          'scatter of observations u_n a (|u_n| = 1) is rank one with the prototype as its only non-trivial eigenvector; Parseval '
          "for the eigenbasis contract; the MODEL's cACG quadratic form equals c2 + (1-c2)/eps for spectrum (1, eps, ..., eps), is 1 "
          'for the own class and > 1 otherwise; hence the next E-step keeps every observation in its true class for cACG '
          '(pi_k/pi_j < q^D, in particular equal weights) and for Watson / vMF (kappa (1 - al) > ln(pi_k/pi_j)); for the GMM with a '
          "shared spherical covariance c the model's SphericalGaussian log-pdf ranks the classes by weight-adjusted squared distance "
          '(|y - mu_j|^2 + 2 c ln(pi_k/pi_j) < |y - mu_k|^2 gives MAP class j, every D), and with a shared diagonal covariance by the '
          'weight-adjusted Mahalanobis distance. NOT proved: '
          'perturbed prototypes, blurred starts, iterations >= 2, full Gaussian / Bingham / integration models (eigenvector perturbation '
          "bounds are out of reach): those clauses are EXPLORED - the property's own predicate (MAP class = true class for every "
          'observation; fitted parameters point at their prototype) is evaluated on every generated scene from the stated domain '
          '(K 2..4, D K..8, |cos| <= 0.3, perturbation 0 / 1e-4 / 1e-2, class sizes >= D+2, gains 1e-3..1e3, blur 0..0.45, 1..20 '
          'iterations, all seven models), and the last M-step of each scene is compared inside Coq with Model/Trainers.v.'),
    design='6/C03', technique='Coq proof of the exact one-step case + exploration of the property predicate on its domain')

CLAIMED['C11'] = dict(
    text=('Theorems (real-number instance, every D, per bin hence every stack) given the solve contract A x = b: MVDR w^H a = 1, '
          'a^H Phi^-1 a real > 0, v^H Phi v = w^H Phi w + (v-w)^H Phi (v-w) >= w^H Phi w for every distortionless v; LCMV '
          'constraints; for Phi_xx = sigma a a^H Souden = conj(a_ref) w_mvdr with w^H a = a_ref, WMWF solves (Phi_xx + mu Phi_nn) w '
          '= Phi_xx e_ref and is its only solution for mu > 0; Souden invariant to separate, WMWF to joint positive scaling (any '
          'target PSD); WMWF(mu=0) = Souden when the trace is real; the chosen reference channel is the first arg-max of the '
          "library's SNR criterion. Correspondence per run: solve results are oracles (same routine, contract residual evaluated in "
          'Coq), model composition vs implementation at 2^-30; NumPy predicates for constraint, optimality vs competitors, '
          'identities, invariances, arg-max, stack = slices, inputs untouched.'),
    design='6/C11', technique='Coq proof over Reals/Coquelicot + in-Coq differential correspondence')
CLAIMED['C12'] = dict(
    text=('Theorems given the eigen-solver contract (A W = B W diag lambda, lambda real, W invertible; B-orthogonality derived, so '
          'eig and degenerate targets are covered; PCA: Phi U = U diag lambda, U unitary, ascending): the selected GEV / PCA vector '
          'attains lambda_max and v^H Phi_xx v <= lambda_max v^H Phi_nn v for every v; scalings are the unit-norm eigenvector times '
          '1, sqrt(tr Phi) > 0, lambda_max (> 0 for PD); rank-one estimates Hermitian, rank one, trace preserving, equal to an '
          'exactly rank-one target (PCA and GEV-ATF direction parallel to a); BAN = multiplication by sqrt(w^H Phi^2 w)/(w^H Phi w) '
          '> 0, homogeneous, SNR unchanged. Correspondence: eigen outputs are oracles with contract residuals evaluated in Coq, '
          'w w^H compared; predicates incl. maximality against probes and every other get_bf_vector beamformer.'),
    design='6/C12', technique='Coq proof over Reals/Coquelicot + in-Coq differential correspondence')
CLAIMED['C13'] = dict(
    text=("Theorems: for all 84 table names (12 cores + ch0..ch29, with and without '+ban') and, by induction on decimal strings, "
          'for every ch<n>, the model of get_bf_vector on Coq strings dispatches to the spelled composition for arbitrary '
          'primitives; apply_beamforming_vector = w^H x; phase_correction keeps magnitudes and gives out_{f+1}^H out_f = '
          '|w_{f+1}^H w_f| >= 0 for every leading index; stack = slices (structural). The accepted name list is derived from the '
          'source (ast) on every run and must equal the table; names x kwargs x 0..2 leading axes compared with the composition '
          'of library primitives; rejected names rejected by the model. Finiteness of Souden/WMWF on zero / exactly singular / '
          'rank-deficient bins (WMWF mu > 0) and independence of regular bins are explored on every run, not proved.'),
    design='6/C13', technique='Coq proof (finite table by computation + induction on strings; Reals for phase correction) + in-Coq differential correspondence')
CLAIMED['C17'] = dict(
    text=('PARTIAL. Proved: class bookkeeping of the chain (frequency mapping then global mapping = composed mapping on the original '
          'rows; a mapping inverting the injected permutation field restores the rows); the ideal mask-based noise PSD sum_j sig_j '
          'a_j a_j^H + nu I has quadratic form sum_j sig_j |v^H a_j|^2 + nu |v|^2, is Hermitian PSD; conditional leakage bound: for '
          'any distortionless zero-forcing competitor v every interferer leaks at most nu |v|^2 through the MVDR vector (from MVDR '
          'optimality); all interferers plus the output noise together are <= nu |v|^2 too (total bound), and the threshold form: '
          'a target level sk >= T nu |v|^2 gives output target power >= T (interference + noise), T = 1000 being the 30 dB of the '
          'property, with the target passing undistorted. The stages are the objects of C01, C08, C10-C16. NOT proved: the 99 % / 30 dB thresholds (statistical '
          'statements about random scenes) - EXPLORED: the whole documented chain (per-frequency cACGMM / cWMM from a per-frequency '
          'permuted blurred partition, DHTV, oracle global alignment, mask-based PSDs, every listed beamformer) runs on generated '
          'scenes from the stated domain and the property predicate is evaluated; the per-interferer and the total leakage bound are evaluated inside '
          "Coq on the scene's ideal PSDs (all interferers' steering vectors and powers)."),
    design='6/C17', technique='Coq proof of bookkeeping and conditional leakage bound + end-to-end exploration of the property predicate')

CLAIMED['C14'] = dict(
    text=('Theorems (any ordered score carrier, hence Z, R and NaN-free binary64): the greedy (-inf masking, first maximum row-major) '
          'and the optimal (strict-improvement scan over the itertools-order permutation list) assignment of EVERY KxK matrix is a '
          'permutation of 0..K-1; apply_mapping spec, per-bin multiset and class-axis sums preserved; every mapping of the oracle, '
          'greedy-chain and DHTV aligners is a permutation per bin for every mask (ties, zero/constant rows), plan, metric, '
          'algorithm; inline EM alignment reorders affiliation and quadratic form by one and the same permutation; the '
          'integration-model search returns a permutation not worse than the identity. Integer matrices: permutation iff masked '
          'with a true bottom; refuted witness for matrices containing the dtype minimum (boundary outside the quantifier). Tied to '
          '/repo on every run inside Coq: all {0,1,2}^(KxK) matrices K<=3 (int and float), random/tied matrices K<=6, '
          'apply_mapping, the three aligners on tie-free and integer-valued masks, inline alignment, the integration-model '
          'permutation; NumPy predicates (permutation, aligned[k,f]==mask[mapping[k,f],f], multiset/sums, same mapping, inputs '
          'untouched) on constant/zero/tied masks too.'),
    design='6/C14', technique='Coq proof (discrete, order-generic) + in-Coq differential correspondence')
CLAIMED['C15'] = dict(
    text=('Theorems: all_perms sound, complete, itertools order; the optimal assignment attains the maximum total over all '
          'permutations (>= greedy), any K, any matrix; over the reals, for references with pairwise distinct (normalised, for cos) '
          'rows the oracle mapping is the inverse of ANY per-frequency permutation field and applying it returns the reference '
          'exactly, for cos / euclidean / multiply and both algorithms; a global permutation is resolved after joining frequency '
          'and time. Correspondence inside Coq: optimal on all {0,1,2} matrices K<=3 and random matrices K<=6, oracle mappings '
          '(all K!^F fields K<=3,F<=3 in thorough) incl. masks unrelated to the reference and the flattened variant; predicates: '
          'total == scipy linear_sum_assignment optimum, exact restoration, inverse field. Not proved: that binary64 rounding '
          'preserves the strict real inequalities (checked per case).'),
    design='6/C15', technique='Coq proof (discrete + Reals) + in-Coq differential correspondence')
CLAIMED['C16'] = dict(
    text=('Theorems: the alignment plan covers every bin and stays in [0,F) for all F, start>=0, 1<=shift<=width (Python range '
          'semantics on Z), 512/1024 defaults overlap >= 2/3; greedy follows any row-or-column dominating matching; DHTV loop '
          'invariant features = initial[mapping] and the greedy chain composition (net reordering); on the stated domain '
          '(non-negative patterns, cosine <= c, jitter <= d) the adjacent-bin matrices are dominant for multiply / euclidean / cos '
          '(margins hold at c=d=0.1), hence the GREEDY aligner restores one class order for every permutation field, F, T, K; '
          'consistent masks -> identity (greedy; DHTV given bin-vs-centroid dominance, _partial). NOT proved, explored by '
          'predicate on every run: the DHTV restoration clause (>=70 % first-segment majority, >=2/3 overlap). Correspondence '
          'inside Coq: alignment_plan for all configurations of STFT sizes <= 64 (hash) + defaults exactly; DHTV and greedy '
          'calculate_mapping vs the binary64 loop-level model on tie-free masks and on the restoration domain.'),
    design='6/C16', technique='Coq proof (Z, order-generic, Reals) + in-Coq differential correspondence + predicate exploration for the DHTV clause')

CLAIMED['C09'] = dict(
    text=("Theorems over the real-number instance of the Gallina model of every M-step's domain-deciding code, for all sizes and "
          'inputs incl. degenerate ones. Mixture weights: mean / L1 / integration / uniform updates are non-negative and sum to one '
          'within K*affiliation_eps; the zero-mass branch is stated; constant along tied axes is structural; shape function. cACG: '
          'eigenvalue post-processing in [floor,1] for any spectrum, maximum 1 iff max ev >= tiny, degenerate branch explicit with a '
          '_refuted theorem; trace/False flooring > 0; unit trace up to flooring; U diag(lambda) U^H Hermitian with v^H C v >= '
          'floor |v|^2 under the eigh contract. vMF: unit mean iff resultant >= tiny, kappa in [min,max] for any ratio value. '
          'Watson: under the eigh and spline contracts. Gaussian: covariance symmetric, PSD with explicit quadratic form; PD is a '
          'spanning condition (partial). Bingham: top exactly 0, ordered, <= 0 with inf bound; with a finite bound in '
          '[-max,(D-1)eps], plus a _refuted theorem. fit_invariant instances carry every iteration count (concrete cACGMM and vMFMM '
          'loops). Tie to /repo on every run: fitted fields of 5 single and 7 mixture trainers x all options x 1..4 iterations on '
          "regular and degenerate streams are compared in Coq (PrimFloat) with the model's post-processing of the recorded M-step "
          'inputs and oracle outputs, with contract residuals evaluated; independent NumPy domain predicates run on every case. '
          'NaN/Inf freedom in binary64 is explored, not proved; 3 known findings (listed in known_findings.json).'),
    design='6/C09', technique='Coq proof over Reals/Coquelicot + in-Coq differential correspondence + predicate search')

CLAIMED['C04'] = dict(
    text=('Theorems over the real-number instance of the Gallina model (Model/Trainers.v, Posterior.v, Mixture.v, EM.v): '
          'normalisation of a scaled frame is a unit phasor times the normalised frame (both guard styles); scatter, the '
          'covariance steps, the cACG quadratic form/log-pdf and the Watson/Bingham exponents are invariant under unit phasors; '
          'hence E-step and M-step (the matrix handed to eigh is EQUAL; eigh/spline/least_squares/log-normalisers are '
          'universally quantified oracles) and, by the simulation lemma, the whole EM trajectory, predict and log-likelihood are '
          'equal for y and c.y for every gain field without zeros, every start, option and iteration count: cACGMM, spatial '
          'stream of GCACGMM/vMF-cACGMM, cWMM, cBMM; vMF/vMFMM/embedding stream under positive real gains; a witness that the '
          'former unnormalised vMF-cACGMM M-step (repaired a5637f0) was not invariant. Raw ComplexWatson/ComplexBingham.log_pdf: '
          'phase gains only. Tie to /repo on every run: metamorphic predicates (|c| 1e-100..1e100) on component log_pdfs, single '
          'trainers and the six directional mixtures (1..5 iterations, all options, three start kinds), plus in-Coq comparison '
          'of normalisation, quadratic form, eigh input, Watson/Bingham/vMF log-pdf on y and c.y. "Up to rounding" is measured '
          '(1e-9; condition-scaled for floored spectra; 1e-6 for cBMM after fitting), not proved.'),
    design='6/C04', technique='Coq proof over Reals/Coquelicot + simulation lemma + in-Coq differential correspondence + metamorphic predicates')
CLAIMED['C05'] = dict(
    text=('Theorems (real instance): class-axis sum and maximum are invariant under any permutation of the class indices; the '
          'posterior column (plain and clipped, with mask), all four weight rules and the class-wise M-step commute with '
          'relabelling; by the simulation lemma fit n and predict of the relabelled start/mask equal the relabelled fit for every '
          'n and every class-wise trainer (all seven are instances; cACGMM instance fully discharged). With an inline aligner / '
          'inline alignment: proved only along runs whose aligned E-step commutes with relabelling on tie-free states '
          '(C05_fit_perm_aligner_partial); that the pb_bss aligners satisfy this is not proved. Tie to /repo on every run: '
          'relabelled-vs-original fits for all 7 trainers x options, all K! permutations (K<=4, thorough), iterations 1..20, every '
          'parameter / in-loop affiliation / posterior at 1e-9 (condition-scaled; ill-conditioned trajectories identified by a '
          '1e-13 perturbation probe are excluded and counted), aligner stream with tie detection; in-Coq comparison of relabelled '
          'posterior columns and weight updates.'),
    design='6/C05', technique='Coq proof (Permutation, Reals) + simulation lemma + in-Coq differential correspondence + metamorphic predicates')

NOT_YET = {}


def main():
    props = [json.loads(l) for l in (VERIF / 'properties.jsonl').read_text().splitlines() if l.strip()]
    checks, na = [], []
    for p in props:
        pid = p['id']
        if pid in CLAIMED and (VERIF / 'harness' / 'props' / ('%s.py' % pid.lower())).exists():
            c = CLAIMED[pid]
            checks.append({
                'property_id': pid,
                'quick_cmd': 'bin/vcheck run %s --tier quick' % pid,
                'thorough_cmd': 'bin/vcheck run %s --tier thorough' % pid,
                'evidence_file': 'evidence/%s.json' % pid,
                'replay_cmd_template': 'bin/vcheck replay {path}',
                'engine': 'coq-model-correspondence',
                'level_claimed': {'category': 'proof', 'text': c['text'], 'design_ref': 'DESIGN.md section ' + c['design']},
                'level_note': c.get('note', TRUST),
                'technique': c['technique'],
            })
        else:
            na.append({'property_id': pid, 'reason': NOT_YET.get(
                pid, 'not claimed yet: model, theorems and correspondence for this property are not built in this '
                     'revision (the technique applies; see DESIGN.md section 6)')})
    man = {
        'version': 1,
        'setup_cmd': 'bin/vcheck setup',
        'hooks': {
            'guard': 'PB_BSS_VERIF',
            'enable': 'no source hooks are needed: the harness imports /repo directly (PYTHONPATH=/repo) and records '
                      'E-/M-step traces by wrapping Trainer._m_step from outside',
            'baseline_off_cmd': 'cd /repo && /venv/bin/python -m pytest -ra -q -p no:cacheprovider --timeout=900 '
                                '--continue-on-collection-errors --junitxml=/tmp/pb_bss_baseline.junit.xml',
            'source_commits': [],
            'add_only': True,
        },
        'engines': [{
            'name': 'coq-model-correspondence', 'path': 'harness/core.py',
            'serves_properties': [c['property_id'] for c in checks],
            'kind_free_text': 'Coq 8.16.1 development under coq/ (Model, Proofs, Properties, Run) + Python harness that '
                              'generates cases, runs /repo, and lets coqc decide model-vs-implementation agreement',
        }],
        'checks': checks,
        'not_applicable': na,
        'notes': 'Genuine defects repaired in /repo as "fix:" commits are listed in known_findings.json (fixed entries).',
    }
    (VERIF / 'MANIFEST.json').write_text(json.dumps(man, indent=1) + '\n')
    print('MANIFEST.json: %d checks, %d not claimed' % (len(checks), len(na)))


if __name__ == '__main__':
    main()
